import PyamgV.Proofs.ExtC16Relax
import PyamgV.Proofs.ExtC02XBlock
import PyamgV.Proofs.ExtC02XBlockCycle
import PyamgV.Proofs.ExtC09XToBsr

/-! PyamgV (C16, extension E51): **energy clauses for `block_jacobi` / `block_gauss_seidel` on block storage**
(`bs ≥ 2`) as relaxation-type coarse solvers.

The block kernels of the C16 relaxation model (`C16R.blockJacobi`, `C16R.blockGaussSeidel` of Model/ExtC16Relax.lean:
array work vectors, block storage passed as CSR-shaped arrays + block size) are the block kernels of
Model/ExtC09Block.lean (`K.blockJacobi`, `K.blockGaussSeidel`: list work vectors, `K.Bsr`), for which E35 proved the
energy statements (Proofs/ExtC02XBlock.lean):

* `blockGaussSeidel_eq`, `blockJacobi_eq` : equality of the two executable models, all arguments;
* `relax_block_gauss_seidel_energy` : exact inverse diagonal blocks (`A_ii Dinv_i = I`), symmetric positive
  semidefinite block matrix: `‖x* − x‖_A ≤ ‖x*‖_A` from the zero guess, every sweep direction;
* `relax_block_jacobi_energy` : the same under the block damping bound `ω ‖D_B⁻¹ r‖²_A ≤ 2 ⟨D_B⁻¹ r, r⟩`
  (`ω = omega / rho` with the recorded estimate, resp. `omega`);
* `..._csr` : the same in the energy form of the CSR matrix the call receives, when the recorded block storage is
  that matrix (`bsrOp = csrOp`, checked per instance). -/
set_option linter.unusedSectionVars false
set_option linter.unusedVariables false
namespace PyamgV.C16Y
open PyamgV PyamgV.K PyamgV.C16 PyamgV.C16R PyamgV.ExtC09 PyamgV.C02X Finset

/-! ## 1. the two block-kernel models agree (any field) -/

section Eq
variable {R : Type} [Field R] [DecidableEq R]

/-- the block storage of the C16 relaxation model as a `K.Bsr` -/
abbrev toB (B : Csr R) (bs : Nat) : Bsr R := ⟨B.n, bs, B.ap, B.aj, B.ax⟩

theorem lrd_toList (a : Array R) (k : Nat) : lrd a.toList k = rd a k := by
  unfold K.lrd K.rd
  simp [Array.getD_eq_getD_getElem?, List.getD_eq_getElem?_getD]

theorem blockMv_toList (ax : Array R) (off bs : Nat) (v : Nat → R) :
    (C16R.blockMv ax off bs v).toList = gemv ax off bs v := by
  unfold C16R.blockMv K.gemv K.dotRow
  simp

theorem gemv_congr (M : Array R) (off n : Nat) (y y' : Nat → R) (h : ∀ l, l < n → y l = y' l) :
    gemv M off n y = gemv M off n y' := by
  unfold K.gemv K.dotRow
  apply List.map_congr_left
  intro i _
  have gen : ∀ (L : List Nat) (s : R), (∀ k ∈ L, k < n) →
      L.foldl (fun s k => s + rd M (off + i * n + k) * y k) s =
      L.foldl (fun s k => s + rd M (off + i * n + k) * y' k) s := by
    intro L
    induction L with
    | nil => intro s _; rfl
    | cons k L ih =>
      intro s hL
      simp only [List.foldl_cons]
      rw [h k (hL k (by simp))]
      exact ih _ (fun k' hk' => hL k' (by simp [hk']))
  exact gen _ _ (fun k hk => List.mem_range.1 hk)

/-- one stored block of `rsum` in the array model ... -/
def rsStepA (B : Csr R) (bs i : Nat) (src : Array R) (rs : Array R) (jj : Nat) : Array R :=
  if i = rdN B.aj jj then rs
  else (Array.range bs).map (fun k => rd rs k +
    rd (C16R.blockMv B.ax (jj * (bs * bs)) bs (fun l => rd src (rdN B.aj jj * bs + l))) k)

/-- ... and in the list model -/
def rsStepL (B : Csr R) (bs i : Nat) (src : Array R) (rs : List R) (jj : Nat) : List R :=
  if i = rdN B.aj jj then rs
  else (List.range bs).map (fun k => lrd rs k +
    lrd (gemv B.ax (jj * (bs * bs)) bs (fun l => rd src (rdN B.aj jj * bs + l))) k)

theorem blockRsum_unfold (B : Csr R) (bs i : Nat) (src : Array R) :
    C16R.blockRsum B bs i src = (B.jjs i).foldl (rsStepA B bs i src) (Array.replicate bs 0) := rfl

theorem blockOffSum_unfold (B : Csr R) (bs i : Nat) (src : Array R) :
    blockOffSum (toB B bs) i src = (B.jjs i).foldl (rsStepL B bs i src) (List.replicate bs 0) := rfl

theorem blockRsum_toList (B : Csr R) (bs i : Nat) (src : Array R) :
    (C16R.blockRsum B bs i src).toList = blockOffSum (toB B bs) i src := by
  rw [blockRsum_unfold, blockOffSum_unfold]
  have gen : ∀ (L : List Nat) (acc : Array R) (acc' : List R), acc.toList = acc' →
      (L.foldl (rsStepA B bs i src) acc).toList = L.foldl (rsStepL B bs i src) acc' := by
    intro L
    induction L with
    | nil => intro acc acc' h; exact h
    | cons jj L ih =>
      intro acc acc' h
      simp only [List.foldl_cons]
      apply ih
      unfold rsStepA rsStepL
      by_cases hij : i = rdN B.aj jj
      · rw [if_pos hij, if_pos hij]; exact h
      · rw [if_neg hij, if_neg hij]
        rw [Array.toList_map, Array.toList_range]
        apply List.map_congr_left
        intro k _
        rw [← h, lrd_toList, ← blockMv_toList, lrd_toList]
  exact gen _ _ _ (by simp)

/-- the block solve `Dinv_i (b_i − rsum)` of the two models, entry by entry -/
theorem solve_eq (B : Csr R) (bs : Nat) (b dinv src : Array R) (i k : Nat) :
    rd (C16R.blockMv dinv (i * (bs * bs)) bs (fun k => rd b (i * bs + k) - rd (C16R.blockRsum B bs i src) k)) k =
      lrd (blockSolve (toB B bs) b dinv i (blockOffSum (toB B bs) i src)) k := by
  rw [← lrd_toList, blockMv_toList]
  unfold K.blockSolve
  show lrd (gemv dinv (i * (bs * bs)) bs _) k = lrd (gemv dinv (i * (bs * bs)) bs _) k
  rw [gemv_congr]
  intro l hl
  rw [lrd_map_range, if_pos hl, ← blockRsum_toList, lrd_toList]

theorem bgsStep_eq (B : Csr R) (bs : Nat) (b dinv x : Array R) (i : Nat) :
    (List.range bs).foldl (fun y k => wr y (i * bs + k)
      (rd (C16R.blockMv dinv (i * (bs * bs)) bs (fun k => rd b (i * bs + k) - rd (C16R.blockRsum B bs i x) k)) k)) x =
    K.bgsStep (toB B bs) b dinv x i := by
  simp only [solve_eq]
  rfl

/-- **`block_gauss_seidel`: the kernel model of the C16 relaxation model is the kernel model C09 compares with
relaxation.h** -/
theorem blockGaussSeidel_eq (B : Csr R) (b dinv : Array R) (bs : Nat) (rows : List Nat) (x : Array R) :
    C16R.blockGaussSeidel B b dinv bs rows x = K.blockGaussSeidel (toB B bs) b dinv rows x := by
  unfold C16R.blockGaussSeidel K.blockGaussSeidel
  congr 1
  funext x i
  exact bgsStep_eq B bs b dinv x i

theorem bjacStep_eq (ω : R) (B : Csr R) (bs : Nat) (b dinv temp x : Array R) (i : Nat) :
    (List.range bs).foldl (fun y k => wr y (i * bs + k) ((1 - ω) * rd temp (i * bs + k) + ω *
      rd (C16R.blockMv dinv (i * (bs * bs)) bs (fun k => rd b (i * bs + k) - rd (C16R.blockRsum B bs i temp) k)) k)) x =
    K.bjacStep ω (toB B bs) b dinv temp x i := by
  simp only [solve_eq]
  rfl

/-- **`block_jacobi`: the same for the Jacobi kernel** -/
theorem blockJacobi_eq (ω : R) (B : Csr R) (b dinv : Array R) (bs : Nat) (rows : List Nat) (temp0 x : Array R) :
    C16R.blockJacobi ω B b dinv bs rows temp0 x = K.blockJacobi ω (toB B bs) b dinv rows temp0 x := by
  unfold C16R.blockJacobi K.blockJacobi
  show rows.foldl _ x = rows.foldl (bjacStep ω (toB B bs) b dinv (bjacTemp bs rows temp0 x)) x
  congr 1
  funext y i
  exact bjacStep_eq ω B bs b dinv (bjacTemp bs rows temp0 x) y i

/-- the Python driver `block_jacobi` of both models -/
theorem pyBlockJacobi_eq (ω : R) (B : Csr R) (b dinv : Array R) (bs iters : Nat) (x : Array R)
    (hx : x.size = B.n * bs) (hb : b.size = B.n * bs) (hd : dinv.size = B.n * (bs * bs)) :
    K.pyBlockJacobi ω (toB B bs) b dinv iters x = some (C16R.pyBlockJacobi ω B b dinv bs iters x) := by
  unfold K.pyBlockJacobi C16R.pyBlockJacobi
  rw [if_neg (by simp [hx, hb, hd])]
  congr 2
  funext x
  rw [blockJacobi_eq]

end Eq

/-! ## 2. energy (ordered field) -/

variable {R : Type} [Field R] [LinearOrder R] [IsStrictOrderedRing R] [DecidableEq R]

/-- the Python driver `block_gauss_seidel` of the C16 relaxation model, exact inverse diagonal blocks, symmetric
positive semidefinite block matrix: sizes are kept and the energy of the error never increases -/
theorem pyBlockGaussSeidelR_energy (B : Csr R) (bs : Nat) (hbs : 0 < bs)
    (hs : IsAdj (euc R (B.n * bs)) (euc R (B.n * bs)) (bsrOp (toB B bs)) (bsrOp (toB B bs)))
    (hp : ∀ v, 0 ≤ (euc R (B.n * bs)).a (bsrOp (toB B bs) v) v)
    (b dinv : Array R) (hR : ∀ i, i < B.n → RightInv (toB B bs) dinv i) (iters : Nat) (sw : Sweep)
    (xs : Nat → R) (hxs : ∀ p, p < B.n * bs → bsrOp (toB B bs) xs p = fn b p)
    (x : Array R) (hx : x.size = B.n * bs) :
    (C16R.pyBlockGaussSeidel B b dinv bs iters sw x).size = B.n * bs ∧
      ((euc R (B.n * bs)).ofOp (bsrOp (toB B bs)) hs hp).en (xs - fn (C16R.pyBlockGaussSeidel B b dinv bs iters sw x)) ≤
      ((euc R (B.n * bs)).ofOp (bsrOp (toB B bs)) hs hp).en (xs - fn x) := by
  have hpass : ∀ bw, ∀ x : Array R, x.size = B.n * bs →
      (C16R.bgsPass B b dinv bs bw x).size = B.n * bs ∧
      ((euc R (B.n * bs)).ofOp (bsrOp (toB B bs)) hs hp).en (xs - fn (C16R.bgsPass B b dinv bs bw x)) ≤
      ((euc R (B.n * bs)).ofOp (bsrOp (toB B bs)) hs hp).en (xs - fn x) := by
    intro bw x hx
    unfold C16R.bgsPass
    rw [blockGaussSeidel_eq, hx, Nat.mul_div_cancel _ hbs]
    exact blockGaussSeidel_array_nonexp (toB B bs) hbs hs hp b dinv _
      (fun i hi => (mem_dirRows _ _ _).1 hi) (fun i hi => hR i ((mem_dirRows _ _ _).1 hi)) xs hxs x hx
  unfold C16R.pyBlockGaussSeidel
  cases sw with
  | forward =>
    exact kiter_energy (fun x : Array R => x.size = B.n * bs)
      (fun x => ((euc R (B.n * bs)).ofOp (bsrOp (toB B bs)) hs hp).en (xs - fn x)) _ (hpass false) iters x hx
  | backward =>
    exact kiter_energy (fun x : Array R => x.size = B.n * bs)
      (fun x => ((euc R (B.n * bs)).ofOp (bsrOp (toB B bs)) hs hp).en (xs - fn x)) _ (hpass true) iters x hx
  | symmetric =>
    exact kiter_energy (fun x : Array R => x.size = B.n * bs)
      (fun x => ((euc R (B.n * bs)).ofOp (bsrOp (toB B bs)) hs hp).en (xs - fn x))
      (fun x => C16R.bgsPass B b dinv bs true (C16R.bgsPass B b dinv bs false x))
      (fun x hx => by
        obtain ⟨a1, a2⟩ := hpass false x hx
        obtain ⟨a3, a4⟩ := hpass true _ a1
        exact ⟨a3, le_trans a4 a2⟩) iters x hx

/-- **energy clause, block_gauss_seidel on block storage** (`('block_gauss_seidel', {iterations, sweep})`, `bs ≥ 2`):
with `B = toB ri.bsr ri.bs` the recorded block matrix (`ri.bsr.n` block rows of size `ri.bs`, `A.n = ri.bsr.n · ri.bs`),
exact recorded inverses of the diagonal blocks (`A_ii Dinv_i = I`) and `B` symmetric positive semidefinite, the result
`x` from the zero guess satisfies `‖x* − x‖_B ≤ ‖x*‖_B` for every solution `x*` of `B x* = b` -/
theorem relax_block_gauss_seidel_energy (conj : R → R) (o : Opts R) (ri : Rec R) (A : Csr R) (b : Array R)
    (hb : b.size = A.n) (ho : o.omega = none) (hr : o.withrho = none) (hbs : ri.bs ≠ 1) (hbs0 : ri.bs ≠ 0)
    (hd : ri.dinv.size = ri.bsr.n * (ri.bs * ri.bs)) (hn : A.n = ri.bsr.n * ri.bs)
    (hs : IsAdj (euc R (ri.bsr.n * ri.bs)) (euc R (ri.bsr.n * ri.bs)) (bsrOp (toB ri.bsr ri.bs)) (bsrOp (toB ri.bsr ri.bs)))
    (hp : ∀ v, 0 ≤ (euc R (ri.bsr.n * ri.bs)).a (bsrOp (toB ri.bsr ri.bs) v) v)
    (hR : ∀ i, i < ri.bsr.n → RightInv (toB ri.bsr ri.bs) ri.dinv i)
    (xs : Nat → R) (hxs : ∀ p, p < ri.bsr.n * ri.bs → bsrOp (toB ri.bsr ri.bs) xs p = fn b p) :
    ∃ x, relaxSolveR conj "block_gauss_seidel" o ri A b = .ok x ∧ x.size = b.size ∧
      ((euc R (ri.bsr.n * ri.bs)).ofOp (bsrOp (toB ri.bsr ri.bs)) hs hp).en (xs - fn x) ≤
      ((euc R (ri.bsr.n * ri.bs)).ofOp (bsrOp (toB ri.bsr ri.bs)) hs hp).en xs := by
  refine ⟨_, (relaxSolveR_block_gauss_seidel conj o ri A b hb ho hr hbs hbs0 hd).1, ?_⟩
  obtain ⟨s, e⟩ := pyBlockGaussSeidelR_energy ri.bsr ri.bs (Nat.pos_of_ne_zero hbs0) hs hp b ri.dinv hR
    (o.iterations.getD 10) (o.sweep.getD .forward) xs hxs (x0 b) (by simp [hb, hn])
  refine ⟨by rw [s, hb, hn], ?_⟩
  rw [fn_x0, sub_zero] at e
  exact e

/-- **energy clause, block_jacobi on block storage** (`('block_jacobi', {omega, withrho, iterations})`, `bs ≥ 2`): with
`ω = omega/rho` (recorded `rho_block_D_inv_A`) resp. `omega` the damping actually used, `ω ≥ 0`, recorded block inverses
that are left inverses of the diagonal blocks, stored block columns in range and the block damping bound
`ω ‖D_B⁻¹ r‖²_B ≤ 2 ⟨D_B⁻¹ r, r⟩` (i.e. `ω·λ_max(D_B⁻¹ B) ≤ 2`), on a symmetric positive semidefinite block matrix the
result from the zero guess satisfies `‖x* − x‖_B ≤ ‖x*‖_B` -/
theorem relax_block_jacobi_energy (conj : R → R) (o : Opts R) (ri : Rec R) (A : Csr R) (b : Array R)
    (hb : b.size = A.n) (hsw : o.sweep = none) (hbs : ri.bs ≠ 1) (hbs0 : ri.bs ≠ 0)
    (hd : ri.dinv.size = ri.bsr.n * (ri.bs * ri.bs)) (hn : A.n = ri.bsr.n * ri.bs)
    (ω : R) (hω : effOmega o ri.rho id = some ω) (h0 : 0 ≤ ω)
    (hs : IsAdj (euc R (ri.bsr.n * ri.bs)) (euc R (ri.bsr.n * ri.bs)) (bsrOp (toB ri.bsr ri.bs)) (bsrOp (toB ri.bsr ri.bs)))
    (hp : ∀ v, 0 ≤ (euc R (ri.bsr.n * ri.bs)).a (bsrOp (toB ri.bsr ri.bs) v) v)
    (hcols : ∀ i, i < ri.bsr.n → ∀ jj ∈ ri.bsr.jjs i, rdN ri.bsr.aj jj < ri.bsr.n)
    (hL : ∀ i, i < ri.bsr.n → LeftInv (toB ri.bsr ri.bs) ri.dinv i)
    (hD : ∀ r, ω * (euc R (ri.bsr.n * ri.bs)).a
        (bsrOp (toB ri.bsr ri.bs) (bDinv ri.bsr.n ri.bs ri.dinv r)) (bDinv ri.bsr.n ri.bs ri.dinv r) ≤
      2 * (euc R (ri.bsr.n * ri.bs)).a (bDinv ri.bsr.n ri.bs ri.dinv r) r)
    (xs : Nat → R) (hxs : ∀ p, p < ri.bsr.n * ri.bs → bsrOp (toB ri.bsr ri.bs) xs p = fn b p) :
    ∃ x, relaxSolveR conj "block_jacobi" o ri A b = .ok x ∧ x.size = b.size ∧
      ((euc R (ri.bsr.n * ri.bs)).ofOp (bsrOp (toB ri.bsr ri.bs)) hs hp).en (xs - fn x) ≤
      ((euc R (ri.bsr.n * ri.bs)).ofOp (bsrOp (toB ri.bsr ri.bs)) hs hp).en xs := by
  have hsolve : relaxSolveR conj "block_jacobi" o ri A b =
      .ok (C16R.pyBlockJacobi ω ri.bsr b ri.dinv ri.bs (o.iterations.getD 10) (x0 b)) := by
    rw [relaxSolveR_block_jacobi conj o ri A b hb hsw hbs hbs0 hd ω hω]
    rfl
  refine ⟨_, hsolve, ?_⟩
  obtain ⟨y, hy, s, e⟩ := pyBlockJacobi_array_nonexp ω h0 (toB ri.bsr ri.bs) (Nat.pos_of_ne_zero hbs0) hs hp b ri.dinv
    (by rw [hb, hn]) hd hcols hL hD (o.iterations.getD 10) xs hxs (x0 b) (by simp [hb, hn])
  rw [pyBlockJacobi_eq ω ri.bsr b ri.dinv ri.bs _ (x0 b) (by simp [hb, hn]) (by rw [hb, hn]) hd] at hy
  have hy' := Option.some.inj hy
  rw [hy']
  refine ⟨by rw [s, hb, hn], ?_⟩
  rw [fn_x0, sub_zero] at e
  exact e

/-! ### the same in the energy form of the CSR matrix of the call -/

theorem en_transfer (n N : Nat) (hn : n = N) (rows : Nat → Row R) (Bop : (Nat → R) →ₗ[R] (Nat → R))
    (hop : Bop = csrOp n rows) (hs hp hsym hpsd) (v : Nat → R) :
    ((euc R N).ofOp Bop hs hp).en v = (energy n rows hsym hpsd).en v := by
  subst hn; subst hop; rfl

/-- **energy clause, block_gauss_seidel on block storage, in the energy norm of the matrix `A` of the call**: when the
recorded block storage is `A` (`bsrOp (toB ri.bsr ri.bs) = csrOp A.n (rowOf A)`: the BSR object the level holds and the
CSR matrix describe the same operator) -/
theorem relax_block_gauss_seidel_energy_csr (conj : R → R) (o : Opts R) (ri : Rec R) (A : Csr R) (b : Array R)
    (hb : b.size = A.n) (ho : o.omega = none) (hr : o.withrho = none) (hbs : ri.bs ≠ 1) (hbs0 : ri.bs ≠ 0)
    (hd : ri.dinv.size = ri.bsr.n * (ri.bs * ri.bs)) (hn : A.n = ri.bsr.n * ri.bs)
    (hop : bsrOp (toB ri.bsr ri.bs) = csrOp A.n (rowOf A))
    (hsym : ∀ u v, (euc R A.n).a (csrOp A.n (rowOf A) u) v = (euc R A.n).a u (csrOp A.n (rowOf A) v))
    (hpsd : ∀ v, 0 ≤ (euc R A.n).a (csrOp A.n (rowOf A) v) v)
    (hR : ∀ i, i < ri.bsr.n → RightInv (toB ri.bsr ri.bs) ri.dinv i)
    (xs : Nat → R) (hxs : csrOp A.n (rowOf A) xs = fn b) :
    ∃ x, relaxSolveR conj "block_gauss_seidel" o ri A b = .ok x ∧ x.size = b.size ∧
      (energy A.n (rowOf A) hsym hpsd).en (xs - fn x) ≤ (energy A.n (rowOf A) hsym hpsd).en xs := by
  have hs : IsAdj (euc R (ri.bsr.n * ri.bs)) (euc R (ri.bsr.n * ri.bs)) (bsrOp (toB ri.bsr ri.bs))
      (bsrOp (toB ri.bsr ri.bs)) := by
    rw [hop, ← hn]; exact hsym
  have hp : ∀ v, 0 ≤ (euc R (ri.bsr.n * ri.bs)).a (bsrOp (toB ri.bsr ri.bs) v) v := by
    rw [hop, ← hn]; exact hpsd
  obtain ⟨x, h1, h2, h3⟩ := relax_block_gauss_seidel_energy conj o ri A b hb ho hr hbs hbs0 hd hn hs hp hR xs
    (fun p _ => by rw [hop, hxs])
  refine ⟨x, h1, h2, ?_⟩
  rw [en_transfer A.n _ hn (rowOf A) _ hop hs hp hsym hpsd, en_transfer A.n _ hn (rowOf A) _ hop hs hp hsym hpsd] at h3
  exact h3

/-- **energy clause, block_jacobi on block storage, in the energy norm of the matrix `A` of the call** -/
theorem relax_block_jacobi_energy_csr (conj : R → R) (o : Opts R) (ri : Rec R) (A : Csr R) (b : Array R)
    (hb : b.size = A.n) (hsw : o.sweep = none) (hbs : ri.bs ≠ 1) (hbs0 : ri.bs ≠ 0)
    (hd : ri.dinv.size = ri.bsr.n * (ri.bs * ri.bs)) (hn : A.n = ri.bsr.n * ri.bs)
    (hop : bsrOp (toB ri.bsr ri.bs) = csrOp A.n (rowOf A))
    (ω : R) (hω : effOmega o ri.rho id = some ω) (h0 : 0 ≤ ω)
    (hsym : ∀ u v, (euc R A.n).a (csrOp A.n (rowOf A) u) v = (euc R A.n).a u (csrOp A.n (rowOf A) v))
    (hpsd : ∀ v, 0 ≤ (euc R A.n).a (csrOp A.n (rowOf A) v) v)
    (hcols : ∀ i, i < ri.bsr.n → ∀ jj ∈ ri.bsr.jjs i, rdN ri.bsr.aj jj < ri.bsr.n)
    (hL : ∀ i, i < ri.bsr.n → LeftInv (toB ri.bsr ri.bs) ri.dinv i)
    (hD : ∀ r, ω * (euc R A.n).a
        (csrOp A.n (rowOf A) (bDinv ri.bsr.n ri.bs ri.dinv r)) (bDinv ri.bsr.n ri.bs ri.dinv r) ≤
      2 * (euc R A.n).a (bDinv ri.bsr.n ri.bs ri.dinv r) r)
    (xs : Nat → R) (hxs : csrOp A.n (rowOf A) xs = fn b) :
    ∃ x, relaxSolveR conj "block_jacobi" o ri A b = .ok x ∧ x.size = b.size ∧
      (energy A.n (rowOf A) hsym hpsd).en (xs - fn x) ≤ (energy A.n (rowOf A) hsym hpsd).en xs := by
  have hs : IsAdj (euc R (ri.bsr.n * ri.bs)) (euc R (ri.bsr.n * ri.bs)) (bsrOp (toB ri.bsr ri.bs))
      (bsrOp (toB ri.bsr ri.bs)) := by
    rw [hop, ← hn]; exact hsym
  have hp : ∀ v, 0 ≤ (euc R (ri.bsr.n * ri.bs)).a (bsrOp (toB ri.bsr ri.bs) v) v := by
    rw [hop, ← hn]; exact hpsd
  obtain ⟨x, h1, h2, h3⟩ := relax_block_jacobi_energy conj o ri A b hb hsw hbs hbs0 hd hn ω hω h0 hs hp hcols hL
    (by rw [hop, ← hn]; exact hD) xs (fun p _ => by rw [hop, hxs])
  refine ⟨x, h1, h2, ?_⟩
  rw [en_transfer A.n _ hn (rowOf A) _ hop hs hp hsym hpsd, en_transfer A.n _ hn (rowOf A) _ hop hs hp hsym hpsd] at h3
  exact h3

/-! ### `A.tobsr()`: the recorded block storage is the matrix of the call -/

/-- **the operator of `A.tobsr(blocksize=(bs, bs))` (SciPy `csr_tobsr`, model `K.Csr.toBsr`) is the operator of `A`** -/
theorem bsrOp_toBsr (A : Csr R) (bs : Nat) (B : Bsr R) (h : A.toBsr bs = some B) :
    B.nb * B.bs = A.n ∧ bsrOp B = csrOp A.n (rowOf A) := by
  obtain ⟨hbs, hBbs, hn, hsem⟩ := ExtC09X.toBsr_sem A bs B h
  refine ⟨by rw [hBbs]; exact hn, ?_⟩
  apply LinearMap.ext
  intro u
  funext p
  show (if p < B.nb * B.bs then rowDotB B (p / B.bs) u (p % B.bs) else 0) = csrOp A.n (rowOf A) u p
  rw [hBbs, hn]
  by_cases hp : p < A.n
  · rw [if_pos hp, csrOp_apply _ _ _ _ hp]
    have hI : p / bs < B.nb := by
      rw [Nat.div_lt_iff_lt_mul hbs, hn]; exact hp
    have hl : p % bs < bs := Nat.mod_lt _ hbs
    have h1 := hsem (p / bs) hI (p % bs) hl (fun c m => u (c * bs + m))
    have hpe : p / bs * bs + p % bs = p := Nat.div_add_mod' p bs
    rw [hpe] at h1
    have h2 : rowDotB B (p / bs) u (p % bs) =
        ExtC09X.blkSum bs B.bj B.bx (B.jjs (p / bs)) (p % bs) (fun c m => u (c * bs + m)) := by
      unfold rowDotB blkDot ExtC09X.blkSum blkAt
      rw [hBbs]
    rw [h2, h1]
    unfold ExtC09X.csrW rowDot rowOf
    rw [List.map_map]
    apply congrArg
    apply List.map_congr_left
    intro jj _
    show rd A.ax jj * u (rdN A.aj jj / bs * bs + rdN A.aj jj % bs) = rd A.ax jj * u (rdN A.aj jj)
    rw [Nat.div_add_mod']
  · rw [if_neg hp]; simp [csrOp, hp]

/-- **energy clause, block_gauss_seidel on block storage**, when the recorded block storage is `A.tobsr()` of the CSR
matrix of the call (checked exactly per instance, op `c16y_tobsr`): in the energy norm of `A` -/
theorem relax_block_gauss_seidel_energy_tobsr (conj : R → R) (o : Opts R) (ri : Rec R) (A : Csr R) (b : Array R)
    (hb : b.size = A.n) (ho : o.omega = none) (hr : o.withrho = none) (hbs : ri.bs ≠ 1) (hbs0 : ri.bs ≠ 0)
    (hd : ri.dinv.size = ri.bsr.n * (ri.bs * ri.bs)) (htb : A.toBsr ri.bs = some (toB ri.bsr ri.bs))
    (hsym : ∀ u v, (euc R A.n).a (csrOp A.n (rowOf A) u) v = (euc R A.n).a u (csrOp A.n (rowOf A) v))
    (hpsd : ∀ v, 0 ≤ (euc R A.n).a (csrOp A.n (rowOf A) v) v)
    (hR : ∀ i, i < ri.bsr.n → RightInv (toB ri.bsr ri.bs) ri.dinv i)
    (xs : Nat → R) (hxs : csrOp A.n (rowOf A) xs = fn b) :
    ∃ x, relaxSolveR conj "block_gauss_seidel" o ri A b = .ok x ∧ x.size = b.size ∧
      (energy A.n (rowOf A) hsym hpsd).en (xs - fn x) ≤ (energy A.n (rowOf A) hsym hpsd).en xs := by
  obtain ⟨hn, hop⟩ := bsrOp_toBsr A ri.bs _ htb
  exact relax_block_gauss_seidel_energy_csr conj o ri A b hb ho hr hbs hbs0 hd hn.symm hop hsym hpsd hR xs hxs

/-- **energy clause, block_jacobi on block storage**, recorded block storage = `A.tobsr()`: in the energy norm of `A` -/
theorem relax_block_jacobi_energy_tobsr (conj : R → R) (o : Opts R) (ri : Rec R) (A : Csr R) (b : Array R)
    (hb : b.size = A.n) (hsw : o.sweep = none) (hbs : ri.bs ≠ 1) (hbs0 : ri.bs ≠ 0)
    (hd : ri.dinv.size = ri.bsr.n * (ri.bs * ri.bs)) (htb : A.toBsr ri.bs = some (toB ri.bsr ri.bs))
    (ω : R) (hω : effOmega o ri.rho id = some ω) (h0 : 0 ≤ ω)
    (hsym : ∀ u v, (euc R A.n).a (csrOp A.n (rowOf A) u) v = (euc R A.n).a u (csrOp A.n (rowOf A) v))
    (hpsd : ∀ v, 0 ≤ (euc R A.n).a (csrOp A.n (rowOf A) v) v)
    (hcols : ∀ i, i < ri.bsr.n → ∀ jj ∈ ri.bsr.jjs i, rdN ri.bsr.aj jj < ri.bsr.n)
    (hL : ∀ i, i < ri.bsr.n → LeftInv (toB ri.bsr ri.bs) ri.dinv i)
    (hD : ∀ r, ω * (euc R A.n).a
        (csrOp A.n (rowOf A) (bDinv ri.bsr.n ri.bs ri.dinv r)) (bDinv ri.bsr.n ri.bs ri.dinv r) ≤
      2 * (euc R A.n).a (bDinv ri.bsr.n ri.bs ri.dinv r) r)
    (xs : Nat → R) (hxs : csrOp A.n (rowOf A) xs = fn b) :
    ∃ x, relaxSolveR conj "block_jacobi" o ri A b = .ok x ∧ x.size = b.size ∧
      (energy A.n (rowOf A) hsym hpsd).en (xs - fn x) ≤ (energy A.n (rowOf A) hsym hpsd).en xs := by
  obtain ⟨hn, hop⟩ := bsrOp_toBsr A ri.bs _ htb
  exact relax_block_jacobi_energy_csr conj o ri A b hb hsw hbs hbs0 hd hn.symm hop ω hω h0 hsym hpsd hcols hL hD xs hxs

end PyamgV.C16Y
