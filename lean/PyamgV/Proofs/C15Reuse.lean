import PyamgV.Model.C15Solve

/-! # C15: a built solver is reusable (theorems about `Model/C15Solve.lean`)

* `gcall_inv` / `grun_same_matrix` / `glast_independent` / `gcount_same_matrix`: the coarse-solver
  object (with the `nnz == 0` shortcut and every solver kind) answers every call of a history that
  always passes the same matrix like an object created for that call alone, and factorises at most once;
* `cycS_eq_cycP`: a V / W / F / AMLI cycle run against the stateful coarse solver returns what the
  cycle with the *function* `fresh` returns, for every depth, and keeps the state invariant;
* `exec_eq_eval`, `runCalls_eq`, `solver_reusable`: every `solve` call of every history on one
  `MultilevelSolver` returns what the same call returns on a solver that was never used.
Core Lean only. -/
namespace PyamgV.C15

variable {Mat Vec Fact S Acc Res : Type}

/-- the state invariant of a coarse-solver object that only ever sees the matrix `A` -/
def CInv (o : Ops Mat Vec Fact) (A : Mat) (c : Option Fact) : Prop := c = none ∨ c = some (o.factor A)

theorem gcall_inv (o : Ops Mat Vec Fact) (k : Kind) (A : Mat) (b : Vec) (c : Option Fact)
    (hc : CInv o A c) :
    (gcall o k c A b).2 = fresh o k A b ∧ CInv o A (gcall o k c A b).1 := by
  unfold fresh gcall CInv at *
  by_cases hz : o.nnz A = 0
  · simp [hz]; exact hc
  · cases k with
    | direct => rcases hc with rfl | rfl <;> simp [hz]
    | stateless => simp [hz]; exact hc

/-- **Reuse (coarse solver)**: if every call of a history passes the same matrix `A`, each result is
the one an object created for that call alone gives, whatever was solved before -/
theorem grun_same_matrix (o : Ops Mat Vec Fact) (k : Kind) (A : Mat) :
    ∀ (hist : List (Mat × Vec)) (c : Option Fact), CInv o A c → (∀ e ∈ hist, e.1 = A) →
      (grun o k c hist).2 = hist.map (fun e => fresh o k A e.2) ∧ CInv o A (grun o k c hist).1 := by
  intro hist
  induction hist with
  | nil => intro c hc _; exact ⟨rfl, hc⟩
  | cons e rest ih =>
    intro c hc hA
    obtain ⟨A', b⟩ := e
    have hA' : A' = A := hA (A', b) (by simp)
    subst hA'
    have hrest : ∀ e ∈ rest, e.1 = A' := fun e he => hA e (by simp [he])
    have h1 := gcall_inv o k A' b c hc
    have h2 := ih (gcall o k c A' b).1 h1.2 hrest
    simp only [grun, List.map_cons]
    exact ⟨by rw [h1.1, h2.1], h2.2⟩

/-- the answer to the last call of a history does not depend on the calls before it -/
theorem glast_independent (o : Ops Mat Vec Fact) (k : Kind) (A : Mat) (h1 h2 : List (Mat × Vec)) (b : Vec)
    (hh1 : ∀ e ∈ h1, e.1 = A) (hh2 : ∀ e ∈ h2, e.1 = A) :
    ((grun o k none (h1 ++ [(A, b)])).2).getLast? = ((grun o k none (h2 ++ [(A, b)])).2).getLast? := by
  have e1 := (grun_same_matrix o k A (h1 ++ [(A, b)]) none (Or.inl rfl)
    (by intro e he; rcases List.mem_append.1 he with h | h; exact hh1 e h; simp at h; rw [h])).1
  have e2 := (grun_same_matrix o k A (h2 ++ [(A, b)]) none (Or.inl rfl)
    (by intro e he; rcases List.mem_append.1 he with h | h; exact hh2 e h; simp at h; rw [h])).1
  rw [e1, e2]; simp

/-- once the factors are cached no call of a same-matrix history factorises again -/
theorem gcount_cached (o : Ops Mat Vec Fact) (k : Kind) (A : Mat) :
    ∀ (hist : List (Mat × Vec)), (∀ e ∈ hist, e.1 = A) → gcount o k (some (o.factor A)) hist = 0 := by
  intro hist
  induction hist with
  | nil => intro _; rfl
  | cons e rest ih =>
    intro hA
    obtain ⟨A', b⟩ := e
    have hA' : A' = A := hA (A', b) (by simp)
    subst hA'
    have hrest : ∀ e ∈ rest, e.1 = A' := fun e he => hA e (by simp [he])
    have hst : (gcall o k (some (o.factor A')) A' b).1 = some (o.factor A') := by
      unfold gcall
      by_cases hz : o.nnz A' = 0
      · simp [hz]
      · cases k <;> simp [hz]
    simp only [gcount, hst, ih hrest, gfactors, Option.isNone_some, Bool.and_false]
    simp

/-- **One factorisation**: a history that always passes the same matrix factorises at most once
(never for the stateless kinds or a matrix without stored entries) -/
theorem gcount_same_matrix (o : Ops Mat Vec Fact) (k : Kind) (A : Mat) :
    ∀ (hist : List (Mat × Vec)), (∀ e ∈ hist, e.1 = A) →
      gcount o k none hist = if k = .direct ∧ o.nnz A ≠ 0 ∧ hist ≠ [] then 1 else 0 := by
  intro hist
  induction hist with
  | nil => intro _; simp [gcount]
  | cons e rest ih =>
    intro hA
    obtain ⟨A', b⟩ := e
    have hA' : A' = A := hA (A', b) (by simp)
    subst hA'
    have hrest : ∀ e ∈ rest, e.1 = A' := fun e he => hA e (by simp [he])
    by_cases hz : o.nnz A' = 0
    · have hst : (gcall o k none A' b).1 = none := by simp [gcall, hz]
      simp only [gcount, hst, ih hrest, gfactors]
      simp [hz]
    · cases k with
      | direct =>
        have hst : (gcall o .direct none A' b).1 = some (o.factor A') := by simp [gcall, hz]
        simp only [gcount, hst, gcount_cached o .direct A' rest hrest, gfactors]
        simp [hz]
      | stateless =>
        have hst : (gcall o .stateless none A' b).1 = none := by simp [gcall, hz]
        simp only [gcount, hst, ih hrest, gfactors]
        simp

/-! ## cycles -/

/-- what the cycle needs to know about the coarse-solver object: under the invariant it answers like
the function `f` and keeps the invariant -/
def CoarseSpec (Inv : S → Prop) (coarse : S → Vec → S × Vec) (f : Vec → Vec) : Prop :=
  ∀ s b, Inv s → (coarse s b).2 = f b ∧ Inv (coarse s b).1

theorem iterS_spec (Inv : S → Prop) (g : S → Vec → S × Vec) (gp : Vec → Vec)
    (hg : ∀ s v, Inv s → (g s v).2 = gp v ∧ Inv (g s v).1) :
    ∀ (k : Nat) (r : S × Vec), Inv r.1 → (iterS g k r).2 = iterP gp k r.2 ∧ Inv (iterS g k r).1 := by
  intro k
  induction k with
  | zero => intro r hr; exact ⟨rfl, hr⟩
  | succ k ih =>
    intro r hr
    have h := hg r.1 r.2 hr
    have h2 := ih (g r.1 r.2) h.2
    simp only [iterS, iterP]
    rw [h2.1, h.1]
    exact ⟨rfl, h2.2⟩

/-- what the cycle needs to know about a level's smoothers: under the invariant they compute the
functions `pre` / `post` and keep the invariant -/
def LvlOk (Inv : S → Prop) (L : LvlS S Vec Acc) : Prop :=
  (∀ s x b, Inv s → (L.preS s x b).2 = L.pre x b ∧ Inv (L.preS s x b).1) ∧
  (∀ s x b, Inv s → (L.postS s x b).2 = L.post x b ∧ Inv (L.postS s x b).1)

/-- state-free smoothers satisfy it for every invariant -/
theorem ofPure_ok (Inv : S → Prop) (L : Lvl Vec Acc) : LvlOk Inv (LvlS.ofPure (S := S) L) :=
  ⟨fun _ _ _ hs => ⟨rfl, hs⟩, fun _ _ _ hs => ⟨rfl, hs⟩⟩

/-- **Memo soundness**: a memo cell that is empty or holds `compute k` returns `compute k` and stays so -/
theorem memo_sound {K V : Type} (compute : K → V) (k : K) (c : Option V) (hc : c = none ∨ c = some (compute k)) :
    (memoGet compute k c).2 = compute k ∧
      ((memoGet compute k c).1 = none ∨ (memoGet compute k c).1 = some (compute k)) := by
  rcases hc with rfl | rfl <;> exact ⟨rfl, Or.inr rfl⟩

/-- a smoother that fetches its parameters through a memo cell computes the function
`relax (compute k)`, whatever was smoothed before -/
theorem memoSmoother_spec {K P : Type} (compute : K → P) (k : K) (relax : P → Vec → Vec → Vec)
    (c : Option P) (x b : Vec) (hc : c = none ∨ c = some (compute k)) :
    (memoSmoother compute k relax c x b).2 = relax (compute k) x b ∧
      ((memoSmoother compute k relax c x b).1 = none ∨
       (memoSmoother compute k relax c x b).1 = some (compute k)) := by
  have h := memo_sound compute k c hc
  unfold memoSmoother
  exact ⟨by rw [h.1], h.2⟩

/-! one-step unfoldings of the two recursions -/
section unfold
variable (coarse : S → Vec → S × Vec) (f : Vec → Vec) (L L' : LvlS S Vec Acc) (rest : List (LvlS S Vec Acc))
  (M M' : Lvl Vec Acc) (restP : List (Lvl Vec Acc))
  (c : Cyc) (cpl : Nat) (s : S) (x b : Vec)

theorem cycS_last : cycS coarse c cpl [L] s x b =
    L.postS (coarse (L.preS s x b).1 (L.coarseRhs (L.preS s x b).2 b)).1
      (L.prolong (L.preS s x b).2 (coarse (L.preS s x b).1 (L.coarseRhs (L.preS s x b).2 b)).2) b := rfl
theorem cycP_last : cycP f c cpl [M] x b =
    M.post (M.prolong (M.pre x b) (f (M.coarseRhs (M.pre x b) b))) b := rfl

theorem cycS_V : cycS coarse .V cpl (L :: L' :: rest) s x b =
    L.postS
      (cycS coarse .V 1 (L' :: rest) (L.preS s x b).1 (L.zeros (L.coarseRhs (L.preS s x b).2 b))
        (L.coarseRhs (L.preS s x b).2 b)).1
      (L.prolong (L.preS s x b).2
        (cycS coarse .V 1 (L' :: rest) (L.preS s x b).1 (L.zeros (L.coarseRhs (L.preS s x b).2 b))
          (L.coarseRhs (L.preS s x b).2 b)).2) b := rfl
theorem cycP_V : cycP f .V cpl (M :: M' :: restP) x b =
    M.post (M.prolong (M.pre x b)
      (cycP f .V 1 (M' :: restP) (M.zeros (M.coarseRhs (M.pre x b) b)) (M.coarseRhs (M.pre x b) b))) b := rfl

theorem cycS_W : cycS coarse .W cpl (L :: L' :: rest) s x b =
    L.postS
      (cycS coarse .W 1 (L' :: rest)
        (cycS coarse .W 1 (L' :: rest) (L.preS s x b).1 (L.zeros (L.coarseRhs (L.preS s x b).2 b))
          (L.coarseRhs (L.preS s x b).2 b)).1
        (cycS coarse .W 1 (L' :: rest) (L.preS s x b).1 (L.zeros (L.coarseRhs (L.preS s x b).2 b))
          (L.coarseRhs (L.preS s x b).2 b)).2
        (L.coarseRhs (L.preS s x b).2 b)).1
      (L.prolong (L.preS s x b).2
        (cycS coarse .W 1 (L' :: rest)
          (cycS coarse .W 1 (L' :: rest) (L.preS s x b).1 (L.zeros (L.coarseRhs (L.preS s x b).2 b))
            (L.coarseRhs (L.preS s x b).2 b)).1
          (cycS coarse .W 1 (L' :: rest) (L.preS s x b).1 (L.zeros (L.coarseRhs (L.preS s x b).2 b))
            (L.coarseRhs (L.preS s x b).2 b)).2
          (L.coarseRhs (L.preS s x b).2 b)).2) b := rfl
theorem cycP_W : cycP f .W cpl (M :: M' :: restP) x b =
    M.post (M.prolong (M.pre x b)
      (cycP f .W 1 (M' :: restP)
        (cycP f .W 1 (M' :: restP) (M.zeros (M.coarseRhs (M.pre x b) b)) (M.coarseRhs (M.pre x b) b))
        (M.coarseRhs (M.pre x b) b))) b := rfl

theorem cycS_F : cycS coarse .F cpl (L :: L' :: rest) s x b =
    L.postS
      (iterS (fun t v => cycS coarse .V 1 (L' :: rest) t v (L.coarseRhs (L.preS s x b).2 b)) cpl
        (cycS coarse .F cpl (L' :: rest) (L.preS s x b).1 (L.zeros (L.coarseRhs (L.preS s x b).2 b))
          (L.coarseRhs (L.preS s x b).2 b))).1
      (L.prolong (L.preS s x b).2
        (iterS (fun t v => cycS coarse .V 1 (L' :: rest) t v (L.coarseRhs (L.preS s x b).2 b)) cpl
          (cycS coarse .F cpl (L' :: rest) (L.preS s x b).1 (L.zeros (L.coarseRhs (L.preS s x b).2 b))
            (L.coarseRhs (L.preS s x b).2 b))).2) b := rfl
theorem cycP_F : cycP f .F cpl (M :: M' :: restP) x b =
    M.post (M.prolong (M.pre x b)
      (iterP (fun v => cycP f .V 1 (M' :: restP) v (M.coarseRhs (M.pre x b) b)) cpl
        (cycP f .F cpl (M' :: restP) (M.zeros (M.coarseRhs (M.pre x b) b)) (M.coarseRhs (M.pre x b) b)))) b := rfl

/-- the coarse-level part of the AMLI branch, as a function of the state after pre-smoothing, the
pre-smoothed iterate and `b` -/
def amliS (coarse : S → Vec → S × Vec) (L : LvlS S Vec Acc) (Ls : List (LvlS S Vec Acc)) (s1 : S) (x1 b : Vec) :
    S × Vec :=
  let cb := L.coarseRhs x1 b
  let a0 := L.amliStart cb
  let g0 := L.amliGuess 0 a0
  let r0 := cycS coarse .AMLI 1 Ls s1 g0.1 g0.2
  let a1 := L.amliUpdate 0 a0 r0.2
  let g1 := L.amliGuess 1 a1
  let r1 := cycS coarse .AMLI 1 Ls r0.1 g1.1 g1.2
  (r1.1, L.amliOut (L.amliUpdate 1 a1 r1.2))

def amliP (f : Vec → Vec) (M : Lvl Vec Acc) (Ms : List (Lvl Vec Acc)) (x1 b : Vec) : Vec :=
  let cb := M.coarseRhs x1 b
  let a0 := M.amliStart cb
  let g0 := M.amliGuess 0 a0
  let a1 := M.amliUpdate 0 a0 (cycP f .AMLI 1 Ms g0.1 g0.2)
  let g1 := M.amliGuess 1 a1
  M.amliOut (M.amliUpdate 1 a1 (cycP f .AMLI 1 Ms g1.1 g1.2))

theorem cycS_AMLI : cycS coarse .AMLI cpl (L :: L' :: rest) s x b =
    L.postS (amliS coarse L (L' :: rest) (L.preS s x b).1 (L.preS s x b).2 b).1
      (L.prolong (L.preS s x b).2 (amliS coarse L (L' :: rest) (L.preS s x b).1 (L.preS s x b).2 b).2) b := rfl
theorem cycP_AMLI : cycP f .AMLI cpl (M :: M' :: restP) x b =
    M.post (M.prolong (M.pre x b) (amliP f M (M' :: restP) (M.pre x b) b)) b := rfl
end unfold

/-- **Cycle**: `__solve` run against the stateful coarse solver and stateful smoothers returns what the
same recursion with the plain functions returns — V, W, F (any `cycles_per_level`) and AMLI, every depth -/
theorem cycS_eq_cycP (Inv : S → Prop) (coarse : S → Vec → S × Vec) (f : Vec → Vec)
    (hc : CoarseSpec Inv coarse f) :
    ∀ (Ls : List (LvlS S Vec Acc)), (∀ L ∈ Ls, LvlOk Inv L) →
      ∀ (c : Cyc) (cpl : Nat) (s : S) (x b : Vec), Inv s →
      (cycS coarse c cpl Ls s x b).2 = cycP f c cpl (pureLevels Ls) x b ∧ Inv (cycS coarse c cpl Ls s x b).1 := by
  intro Ls
  induction Ls with
  | nil => intro _ c cpl s x b hs; exact ⟨rfl, hs⟩
  | cons L rest ih =>
    intro hok c cpl s x b hs
    have hL : LvlOk Inv L := hok L (by simp)
    have ih' := ih (fun L' h => hok L' (by simp [h]))
    -- pre-smoothing
    have hp := hL.1 s x b hs
    cases rest with
    | nil =>
      rw [cycS_last]
      show _ = cycP f c cpl [L.toLvl] x b ∧ _
      rw [cycP_last]
      generalize L.preS s x b = p at hp ⊢
      obtain ⟨s1, x1⟩ := p
      obtain ⟨hp2, hp1⟩ := hp
      simp only at hp2 hp1 ⊢
      subst hp2
      have h := hc s1 (L.coarseRhs (L.pre x b) b) hp1
      generalize coarse s1 (L.coarseRhs (L.pre x b) b) = r at h ⊢
      obtain ⟨s2, cx⟩ := r
      obtain ⟨h2, h1⟩ := h
      simp only at h2 h1 ⊢
      subst h2
      exact hL.2 s2 _ b h1
    | cons L' rest' =>
      cases c with
      | V =>
        rw [cycS_V]
        show _ = cycP f .V cpl (L.toLvl :: L'.toLvl :: pureLevels rest') x b ∧ _
        rw [cycP_V]
        generalize L.preS s x b = p at hp ⊢
        obtain ⟨s1, x1⟩ := p
        obtain ⟨hp2, hp1⟩ := hp
        simp only at hp2 hp1 ⊢
        subst hp2
        have h := ih' .V 1 s1 (L.zeros (L.coarseRhs (L.pre x b) b)) (L.coarseRhs (L.pre x b) b) hp1
        generalize cycS coarse .V 1 (L' :: rest') s1 (L.zeros (L.coarseRhs (L.pre x b) b))
          (L.coarseRhs (L.pre x b) b) = r at h ⊢
        obtain ⟨s2, cx⟩ := r
        obtain ⟨h2, h1⟩ := h
        simp only at h2 h1 ⊢
        subst h2
        exact hL.2 s2 _ b h1
      | W =>
        rw [cycS_W]
        show _ = cycP f .W cpl (L.toLvl :: L'.toLvl :: pureLevels rest') x b ∧ _
        rw [cycP_W]
        generalize L.preS s x b = p at hp ⊢
        obtain ⟨s1, x1⟩ := p
        obtain ⟨hp2, hp1⟩ := hp
        simp only at hp2 hp1 ⊢
        subst hp2
        have h := ih' .W 1 s1 (L.zeros (L.coarseRhs (L.pre x b) b)) (L.coarseRhs (L.pre x b) b) hp1
        generalize cycS coarse .W 1 (L' :: rest') s1 (L.zeros (L.coarseRhs (L.pre x b) b))
          (L.coarseRhs (L.pre x b) b) = r at h ⊢
        obtain ⟨s2, cx⟩ := r
        obtain ⟨h2, h1⟩ := h
        simp only at h2 h1 ⊢
        subst h2
        have h' := ih' .W 1 s2 (cycP f .W 1 (pureLevels (L' :: rest')) (L.zeros (L.coarseRhs (L.pre x b) b))
          (L.coarseRhs (L.pre x b) b)) (L.coarseRhs (L.pre x b) b) h1
        generalize cycS coarse .W 1 (L' :: rest') s2 _ (L.coarseRhs (L.pre x b) b) = r at h' ⊢
        obtain ⟨s3, cx2⟩ := r
        obtain ⟨h2', h1'⟩ := h'
        simp only at h2' h1' ⊢
        subst h2'
        exact hL.2 s3 _ b h1'
      | F =>
        rw [cycS_F]
        show _ = cycP f .F cpl (L.toLvl :: L'.toLvl :: pureLevels rest') x b ∧ _
        rw [cycP_F]
        generalize L.preS s x b = p at hp ⊢
        obtain ⟨s1, x1⟩ := p
        obtain ⟨hp2, hp1⟩ := hp
        simp only at hp2 hp1 ⊢
        subst hp2
        have h := ih' .F cpl s1 (L.zeros (L.coarseRhs (L.pre x b) b)) (L.coarseRhs (L.pre x b) b) hp1
        have h' := iterS_spec Inv
          (fun s v => cycS coarse .V 1 (L' :: rest') s v (L.coarseRhs (L.pre x b) b))
          (fun v => cycP f .V 1 (pureLevels (L' :: rest')) v (L.coarseRhs (L.pre x b) b))
          (fun s v hs => ih' .V 1 s v (L.coarseRhs (L.pre x b) b) hs) cpl _ h.2
        rw [h.1] at h'
        generalize iterS (fun t v => cycS coarse .V 1 (L' :: rest') t v (L.coarseRhs (L.pre x b) b)) cpl
          (cycS coarse .F cpl (L' :: rest') s1 (L.zeros (L.coarseRhs (L.pre x b) b))
            (L.coarseRhs (L.pre x b) b)) = r at h' ⊢
        obtain ⟨s2, cx⟩ := r
        obtain ⟨h2, h1⟩ := h'
        simp only at h2 h1 ⊢
        subst h2
        exact hL.2 s2 _ b h1
      | AMLI =>
        rw [cycS_AMLI]
        show _ = cycP f .AMLI cpl (L.toLvl :: L'.toLvl :: pureLevels rest') x b ∧ _
        rw [cycP_AMLI]
        generalize L.preS s x b = p at hp ⊢
        obtain ⟨s1, x1⟩ := p
        obtain ⟨hp2, hp1⟩ := hp
        simp only at hp2 hp1 ⊢
        subst hp2
        have hA : (amliS coarse L (L' :: rest') s1 (L.pre x b) b).2 =
              amliP f L.toLvl (pureLevels (L' :: rest')) (L.pre x b) b ∧
            Inv (amliS coarse L (L' :: rest') s1 (L.pre x b) b).1 := by
          unfold amliS amliP
          have h1 := ih' .AMLI 1 s1 (L.amliGuess 0 (L.amliStart (L.coarseRhs (L.pre x b) b))).1
            (L.amliGuess 0 (L.amliStart (L.coarseRhs (L.pre x b) b))).2 hp1
          simp only []
          generalize cycS coarse .AMLI 1 (L' :: rest') s1
            (L.amliGuess 0 (L.amliStart (L.coarseRhs (L.pre x b) b))).1
            (L.amliGuess 0 (L.amliStart (L.coarseRhs (L.pre x b) b))).2 = r at h1 ⊢
          obtain ⟨s2, v0⟩ := r
          obtain ⟨h12, h11⟩ := h1
          simp only at h12 h11 ⊢
          subst h12
          have h2 := ih' .AMLI 1 s2
            (L.amliGuess 1 (L.amliUpdate 0 (L.amliStart (L.coarseRhs (L.pre x b) b))
              (cycP f .AMLI 1 (pureLevels (L' :: rest'))
                (L.amliGuess 0 (L.amliStart (L.coarseRhs (L.pre x b) b))).1
                (L.amliGuess 0 (L.amliStart (L.coarseRhs (L.pre x b) b))).2))).1
            (L.amliGuess 1 (L.amliUpdate 0 (L.amliStart (L.coarseRhs (L.pre x b) b))
              (cycP f .AMLI 1 (pureLevels (L' :: rest'))
                (L.amliGuess 0 (L.amliStart (L.coarseRhs (L.pre x b) b))).1
                (L.amliGuess 0 (L.amliStart (L.coarseRhs (L.pre x b) b))).2))).2 h11
          exact ⟨by rw [h2.1], h2.2⟩
        generalize amliS coarse L (L' :: rest') s1 (L.pre x b) b = r at hA ⊢
        obtain ⟨s2, cx⟩ := r
        obtain ⟨h2, h1⟩ := hA
        simp only at h2 h1 ⊢
        subst h2
        exact hL.2 s2 _ b h1

theorem stepS_eq_stepP (Inv : S → Prop) (coarse : S → Vec → S × Vec) (f : Vec → Vec)
    (hc : CoarseSpec Inv coarse f) (c : Cyc) (cpl : Nat) (Ls : List (LvlS S Vec Acc))
    (hok : ∀ L ∈ Ls, LvlOk Inv L) (s : S) (x b : Vec) (hs : Inv s) :
    (stepS coarse c cpl Ls s x b).2 = stepP f c cpl (pureLevels Ls) x b ∧ Inv (stepS coarse c cpl Ls s x b).1 := by
  cases Ls with
  | nil => exact hc s b hs
  | cons L rest => exact cycS_eq_cycP Inv coarse f hc (L :: rest) hok c cpl s x b hs

/-! ## whole `solve` calls and histories of them -/

theorem exec_eq_eval (Inv : S → Prop) (step : S → Vec → Vec → S × Vec) (stepp : Vec → Vec → Vec)
    (hstep : ∀ s x b, Inv s → (step s x b).2 = stepp x b ∧ Inv (step s x b).1) :
    ∀ (p : Prog Vec Res) (s : S), Inv s → (p.exec step s).2 = p.eval stepp ∧ Inv (p.exec step s).1 := by
  intro p
  induction p with
  | ret r => intro s hs; exact ⟨rfl, hs⟩
  | pass x b k ih =>
    intro s hs
    have h := hstep s x b hs
    have h2 := ih (step s x b).2 (step s x b).1 h.2
    simp only [Prog.exec, Prog.eval]
    rw [← h.1]
    exact h2

/-- **Reuse (solver)**: every call of a history on one solver object returns what the same call returns
on a solver whose coarse solver is the plain function `f` -/
theorem runCalls_eq (Inv : S → Prop) (coarse : S → Vec → S × Vec) (f : Vec → Vec)
    (hc : CoarseSpec Inv coarse f) (Ls : List (LvlS S Vec Acc)) (hok : ∀ L ∈ Ls, LvlOk Inv L) :
    ∀ (hist : List (Call Vec Res)) (s : S), Inv s →
      (runCalls coarse Ls s hist).2 = hist.map (evalCall f (pureLevels Ls)) ∧
        Inv (runCalls coarse Ls s hist).1 := by
  intro hist
  induction hist with
  | nil => intro s hs; exact ⟨rfl, hs⟩
  | cons c rest ih =>
    intro s hs
    have h := exec_eq_eval (Res := Res) Inv (fun s x b => stepS coarse c.cyc c.cpl Ls s x b)
      (fun x b => stepP f c.cyc c.cpl (pureLevels Ls) x b)
      (fun s x b hs => stepS_eq_stepP Inv coarse f hc c.cyc c.cpl Ls hok s x b hs) c.prog s hs
    have h2 := ih _ h.2
    simp only [runCalls, List.map_cons, evalCall]
    exact ⟨by rw [h2.1, h.1], h2.2⟩

/-- the coarse-solver object of a hierarchy whose coarsest matrix is `A` satisfies `CoarseSpec` -/
theorem gcall_spec (o : Ops Mat Vec Fact) (k : Kind) (A : Mat) :
    CoarseSpec (CInv o A) (fun c b => gcall o k c A b) (fresh o k A) :=
  fun c b hc => gcall_inv o k A b c hc

/-- **A built solver is reusable (general form)**: a hierarchy whose coarse solver and smoothers keep
any kind of state `S`, as long as under an invariant `Inv` that holds initially each of them computes a
function of its arguments and keeps `Inv`: the result of a `solve` call (any cycle,
`cycles_per_level`, loop or accelerated program) after *any* finite history of calls is the result of
that call on the hierarchy of plain functions. -/
theorem solver_reusable_gen (Inv : S → Prop) (coarse : S → Vec → S × Vec) (f : Vec → Vec)
    (hc : CoarseSpec Inv coarse f) (Ls : List (LvlS S Vec Acc)) (hok : ∀ L ∈ Ls, LvlOk Inv L)
    (s0 : S) (h0 : Inv s0) (hist : List (Call Vec Res)) (c : Call Vec Res) :
    ((runCalls coarse Ls s0 (hist ++ [c])).2).getLast? = some (evalCall f (pureLevels Ls) c) := by
  have h := (runCalls_eq (Res := Res) Inv coarse f hc Ls hok (hist ++ [c]) s0 h0).1
  rw [h]; simp

/-- **A built solver is reusable**: levels `Ls` with state-free smoothers, coarsest matrix `A`, coarse
solver of any of the kinds `coarse_grid_solver` builds: the result of a `solve` call after *any* finite
history of calls is the result of that call on a never-used solver, `evalCall (fresh o k A) Ls c`. -/
theorem solver_reusable (o : Ops Mat Vec Fact) (k : Kind) (A : Mat) (Ls : List (Lvl Vec Acc))
    (hist : List (Call Vec Res)) (c : Call Vec Res) :
    ((runCalls (fun s b => gcall o k s A b) (Ls.map LvlS.ofPure) none (hist ++ [c])).2).getLast? =
      some (evalCall (fresh o k A) Ls c) := by
  have h := solver_reusable_gen (Res := Res) (CInv o A) (fun s b => gcall o k s A b) (fresh o k A)
    (gcall_spec o k A) (Ls.map LvlS.ofPure)
    (by intro L hL; obtain ⟨M, _, rfl⟩ := List.mem_map.1 hL; exact ofPure_ok _ M)
    none (Or.inl rfl) hist c
  rw [h]
  have hp : pureLevels (Ls.map (LvlS.ofPure (S := Option Fact))) = Ls := by
    unfold pureLevels
    rw [List.map_map]
    conv => rhs; rw [← List.map_id Ls]
    rfl
  rw [hp]

/-- two histories, same last call: bit-identical answers -/
theorem solve_last_independent (o : Ops Mat Vec Fact) (k : Kind) (A : Mat) (Ls : List (Lvl Vec Acc))
    (h1 h2 : List (Call Vec Res)) (c : Call Vec Res) :
    ((runCalls (fun s b => gcall o k s A b) (Ls.map LvlS.ofPure) none (h1 ++ [c])).2).getLast? =
    ((runCalls (fun s b => gcall o k s A b) (Ls.map LvlS.ofPure) none (h2 ++ [c])).2).getLast? := by
  rw [solver_reusable, solver_reusable]

/-- a fresh solver *is* the first call of the empty history -/
theorem fresh_solver_eq (o : Ops Mat Vec Fact) (k : Kind) (A : Mat) (Ls : List (Lvl Vec Acc))
    (c : Call Vec Res) :
    ((runCalls (fun s b => gcall o k s A b) (Ls.map LvlS.ofPure) none [c]).2).getLast? =
      some (evalCall (fresh o k A) Ls c) :=
  solver_reusable o k A Ls [] c

/-! ### an instance with a memoising smoother: state = (cached factors, cached smoother parameters) -/

/-- invariant of the product state -/
def PInv {P K : Type} (o : Ops Mat Vec Fact) (A : Mat) (compute : K → P) (key : K) (s : Option Fact × Option P) : Prop :=
  CInv o A s.1 ∧ (s.2 = none ∨ s.2 = some (compute key))

theorem memoLevel_ok {K P : Type} (o : Ops Mat Vec Fact) (A : Mat) (M : Lvl Vec Acc) (compute : K → P) (key : K)
    (relax : P → Vec → Vec → Vec) :
    LvlOk (PInv o A compute key) (memoLevel (Fact := Fact) M compute key relax) := by
  constructor <;> intro s x b hs <;>
    exact ⟨(memoSmoother_spec compute key relax s.2 x b hs.2).1,
      hs.1, (memoSmoother_spec compute key relax s.2 x b hs.2).2⟩

/-- the coarse solver acting on the first component -/
theorem gcall_spec_prod {K P : Type} (o : Ops Mat Vec Fact) (k : Kind) (A : Mat) (compute : K → P) (key : K) :
    CoarseSpec (PInv o A compute key) (gcallFst (T := Option P) o k A) (fresh o k A) :=
  fun s b hs => ⟨(gcall_inv o k A b s.1 hs.1).1, (gcall_inv o k A b s.1 hs.1).2, hs.2⟩

/-- **Reuse with lazily cached smoother parameters** (`strength_based_schwarz`: `lvl.Acsr` and the
Schwarz parameters are created inside the first smoothing call): two-level hierarchy, any coarse-solver
kind; the answer after any history is the answer of the hierarchy of plain functions -/
theorem solver_reusable_memo {K P : Type} (o : Ops Mat Vec Fact) (k : Kind) (A : Mat) (M : Lvl Vec Acc)
    (compute : K → P) (key : K) (relax : P → Vec → Vec → Vec) (hist : List (Call Vec Res)) (c : Call Vec Res) :
    ((runCalls (gcallFst (T := Option P) o k A)
        [memoLevel (Fact := Fact) M compute key relax] (none, none) (hist ++ [c])).2).getLast? =
      some (evalCall (fresh o k A) [(memoLevel (Fact := Fact) M compute key relax).toLvl] c) :=
  solver_reusable_gen (Res := Res) (PInv o A compute key) _ (fresh o k A) (gcall_spec_prod o k A compute key)
    [memoLevel M compute key relax]
    (by intro L hL; rw [List.mem_singleton.1 hL]; exact memoLevel_ok o A M compute key relax)
    (none, none) ⟨Or.inl rfl, Or.inl rfl⟩ hist c

end PyamgV.C15
