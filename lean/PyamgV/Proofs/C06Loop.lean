import PyamgV.Model.C06Krylov
/-! PyamgV (C06): the bookkeeping of the executable control skeleton `C06.run` that every
recurrence solver model of `Model/C06Krylov.lean` instantiates.  Core Lean only.

`run_spec`     : the visited states, the history and the callback log correspond one to one;
                 the possible statuses; what each status says about the last state.
`run_truthful` : if an invariant of the recurrence makes the recorded value and the tested
                 criterion functions `H`, `C` of the iterate alone (the true residual!), then the
                 outputs of `run` satisfy the clauses of property C06 literally. -/
namespace PyamgV.C06

variable {K σ : Type}

theorem loop_spec (a : Alg σ K) (maxiter : Nat) (Inv : σ → Prop)
    (hnext : ∀ s s', Inv s → a.step s = .next s' → Inv s')
    (hfin : ∀ s s', Inv s → a.step s = .fin s' → Inv s') :
    ∀ (fuel it : Nat) (s : σ) (res : List Rat) (log : List (List K)),
      1 ≤ fuel → it + fuel = maxiter → Inv s →
      ∃ ext : List σ,
        (∀ t ∈ ext, Inv t) ∧
        (loop a maxiter fuel it s res log).log = log ++ ext.map a.getx ∧
        (loop a maxiter fuel it s res log).res2 = res ++ ext.map a.hist ∧
        it + ext.length ≤ maxiter ∧
        ((loop a maxiter fuel it s res log).status = 0 ∨ (loop a maxiter fuel it s res log).status < 0 ∨
          (loop a maxiter fuel it s res log).status = maxiter) ∧
        (0 < (loop a maxiter fuel it s res log).status →
          it + ext.length = maxiter ∧ a.conv ((s :: ext).getLast (List.cons_ne_nil _ _)) = false) ∧
        (0 ≤ (loop a maxiter fuel it s res log).status →
          (loop a maxiter fuel it s res log).x = a.getx ((s :: ext).getLast (List.cons_ne_nil _ _))) ∧
        ((loop a maxiter fuel it s res log).status = 0 →
          a.conv ((s :: ext).getLast (List.cons_ne_nil _ _)) = true ∨
          ∃ t, Inv t ∧ a.step t = .fin ((s :: ext).getLast (List.cons_ne_nil _ _))) := by
  intro fuel
  induction fuel with
  | zero => intro it s res log h; omega
  | succ fuel ih =>
    intro it s res log _ hsum hs
    cases hst : a.step s with
    | brk x k =>
      refine ⟨[], by simp, ?_, ?_, by simp; omega, ?_, ?_, ?_, ?_⟩ <;> simp only [loop, hst]
      · simp
      · simp
      · right; left; exact Int.negSucc_lt_zero k
      · intro h; exact absurd h (by have := Int.negSucc_lt_zero k; omega)
      · intro h; exact absurd h (by have := Int.negSucc_lt_zero k; omega)
      · intro h; exact absurd h (by have := Int.negSucc_lt_zero k; omega)
    | fin s' =>
      have hs' := hfin s s' hs hst
      refine ⟨[s'], by simpa using hs', ?_, ?_, by simp; omega, ?_, ?_, ?_, ?_⟩ <;> simp only [loop, hst]
      · simp
      · simp
      · left; trivial
      · intro h; exact absurd h (by decide)
      · intro _; simp
      · intro _; right; exact ⟨s, hs, by simpa using hst⟩
    | next s' =>
      have hs' := hnext s s' hs hst
      by_cases hc : a.conv s' = true
      · refine ⟨[s'], by simpa using hs', ?_, ?_, by simp; omega, ?_, ?_, ?_, ?_⟩ <;>
          simp only [loop, hst, hc, if_true]
        · simp
        · simp
        · left; trivial
        · intro h; exact absurd h (by decide)
        · intro _; simp
        · intro _; left; simpa using hc
      · have hcf : a.conv s' = false := by simpa using hc
        cases hp : a.post s' with
        | some k =>
          refine ⟨[s'], by simpa using hs', ?_, ?_, by simp; omega, ?_, ?_, ?_, ?_⟩ <;>
            simp only [loop, hst, hcf, hp, Bool.false_eq_true, ↓reduceIte]
          · simp
          · simp
          · right; left; exact Int.negSucc_lt_zero k
          · intro h; exact absurd h (by have := Int.negSucc_lt_zero k; omega)
          · intro h; exact absurd h (by have := Int.negSucc_lt_zero k; omega)
          · intro h; exact absurd h (by have := Int.negSucc_lt_zero k; omega)
        | none =>
          by_cases hm : it + 1 = maxiter
          · refine ⟨[s'], by simpa using hs', ?_, ?_, by simp; omega, ?_, ?_, ?_, ?_⟩ <;>
              simp only [loop, hst, hcf, hp, hm, Bool.false_eq_true, ↓reduceIte]
            · simp
            · simp
            · right; right; simp
            · intro _; exact ⟨by simp; omega, by simpa using hcf⟩
            · intro _; simp
            · intro h; simp at h; omega
          · obtain ⟨ext, e1, e2, e3, e4, e5, e6, e7, e8⟩ :=
              ih (it + 1) s' (res ++ [a.hist s']) (log ++ [a.getx s']) (by omega) (by omega) hs'
            have hl : (s :: s' :: ext).getLast (List.cons_ne_nil _ _) = (s' :: ext).getLast (List.cons_ne_nil _ _) := by
              simp [List.getLast_cons]
            have hloop : loop a maxiter (fuel + 1) it s res log =
                loop a maxiter fuel (it + 1) s' (res ++ [a.hist s']) (log ++ [a.getx s']) := by
              simp [loop, hst, hcf, hp, hm]
            refine ⟨s' :: ext, ?_, ?_, ?_, ?_, ?_, ?_, ?_, ?_⟩
            · intro t ht
              rcases List.mem_cons.mp ht with h | h
              · exact h ▸ hs'
              · exact e1 t h
            · rw [hloop, e2]; simp
            · rw [hloop, e3]; simp
            · simp; omega
            · rw [hloop]; exact e5
            · rw [hloop, hl]; intro h; obtain ⟨h1, h2⟩ := e6 h; exact ⟨by simp; omega, h2⟩
            · rw [hloop, hl]; exact e7
            · rw [hloop, hl]; exact e8

/-- **C06, bookkeeping of the executable skeleton** (`short = none`): there is a list `sts` of
visited states such that the callback log is `sts.map getx` and the history is
`(s0 :: sts).map hist` (one entry per iterate, in order); at most `maxiter` iterations; status is
`0`, negative or `maxiter`; a positive status means exactly `maxiter` iterations and the last state
fails the test; for a non-negative status the returned `x` is the iterate of the last state (hence
the last callback argument and the owner of the last history entry); status `0` means the last
state passed the test (or was accepted by a `fin` step); a start state that passes the test is
returned unchanged with one history entry and no callback. -/
theorem run_spec (a : Alg σ K) (maxiter : Nat) (s0 : σ) (Inv : σ → Prop) (hm : 1 ≤ maxiter) (h0 : Inv s0)
    (hnext : ∀ s s', Inv s → a.step s = .next s' → Inv s')
    (hfin : ∀ s s', Inv s → a.step s = .fin s' → Inv s') :
    ∃ sts : List σ,
      (∀ t ∈ sts, Inv t) ∧
      (run a maxiter s0).log = sts.map a.getx ∧
      (run a maxiter s0).res2 = (s0 :: sts).map a.hist ∧
      sts.length ≤ maxiter ∧
      ((run a maxiter s0).status = 0 ∨ (run a maxiter s0).status < 0 ∨ (run a maxiter s0).status = maxiter) ∧
      (0 < (run a maxiter s0).status →
        sts.length = maxiter ∧ a.conv ((s0 :: sts).getLast (List.cons_ne_nil _ _)) = false) ∧
      (0 ≤ (run a maxiter s0).status →
        (run a maxiter s0).x = a.getx ((s0 :: sts).getLast (List.cons_ne_nil _ _))) ∧
      ((run a maxiter s0).status = 0 →
        a.conv ((s0 :: sts).getLast (List.cons_ne_nil _ _)) = true ∨
        ∃ t, Inv t ∧ a.step t = .fin ((s0 :: sts).getLast (List.cons_ne_nil _ _))) ∧
      (a.conv s0 = true → run a maxiter s0 = ⟨a.getx s0, 0, [a.hist s0], []⟩) := by
  by_cases hc : a.conv s0 = true
  · have hr : run a maxiter s0 = ⟨a.getx s0, 0, [a.hist s0], []⟩ := by simp [run, hc]
    refine ⟨[], by simp, ?_, ?_, by simp, ?_, ?_, ?_, ?_, fun _ => hr⟩ <;> rw [hr]
    · simp
    · simp
    · left; trivial
    · intro h; simp at h
    · intro _; simp
    · intro _; left; simpa using hc
  · have hr : run a maxiter s0 = loop a maxiter maxiter 0 s0 [a.hist s0] [] := by simp [run, hc]
    obtain ⟨ext, e1, e2, e3, e4, e5, e6, e7, e8⟩ :=
      loop_spec a maxiter Inv hnext hfin maxiter 0 s0 [a.hist s0] [] hm (by omega) h0
    refine ⟨ext, e1, ?_, ?_, by omega, ?_, ?_, ?_, ?_, fun h => absurd h hc⟩ <;> rw [hr]
    · simpa using e2
    · simpa using e3
    · exact e5
    · intro h; obtain ⟨h1, h2⟩ := e6 h; exact ⟨by omega, h2⟩
    · exact e7
    · exact e8

theorem getLast_map_cons {α β : Type} (f : α → β) (s : α) (l : List α) :
    f ((s :: l).getLast (List.cons_ne_nil _ _)) = ((f s) :: l.map f).getLast (List.cons_ne_nil _ _) := by
  have : (f s) :: l.map f = (s :: l).map f := by simp
  simp only [this, List.getLast_map]

/-- **C06 through an invariant**: when an invariant `Inv` of the recurrence (kept by every step,
true initially) makes the recorded value and the tested criterion functions `H`, `C` of the iterate
`x` alone, then
* every history entry is `H` of its iterate: `res2 = (x0 :: log).map H`;
* status `0` ⇒ `C` holds for the returned `x`;
* a positive status equals `maxiter`, exactly `maxiter` callbacks were made and `C` fails for `x`;
* for a non-negative status the returned `x` is the last callback argument (or `x0`);
* an `x0` with `C x0` is returned unchanged, status `0`, one history entry, no callback. -/
theorem run_truthful (a : Alg σ K) (maxiter : Nat) (s0 : σ) (Inv : σ → Prop)
    (H : List K → Rat) (C : List K → Bool) (hm : 1 ≤ maxiter) (h0 : Inv s0)
    (hnext : ∀ s s', Inv s → a.step s = .next s' → Inv s')
    (hfin : ∀ s s', Inv s → a.step s = .fin s' → Inv s' ∧ a.conv s' = true)
    (hH : ∀ s, Inv s → a.hist s = H (a.getx s))
    (hC : ∀ s, Inv s → a.conv s = C (a.getx s)) :
    (run a maxiter s0).res2 = (a.getx s0 :: (run a maxiter s0).log).map H ∧
    (run a maxiter s0).log.length ≤ maxiter ∧
    ((run a maxiter s0).status = 0 ∨ (run a maxiter s0).status < 0 ∨ (run a maxiter s0).status = maxiter) ∧
    ((run a maxiter s0).status = 0 → C (run a maxiter s0).x = true) ∧
    (0 < (run a maxiter s0).status → (run a maxiter s0).status = maxiter ∧
      (run a maxiter s0).log.length = maxiter ∧ C (run a maxiter s0).x = false) ∧
    (0 ≤ (run a maxiter s0).status →
      (run a maxiter s0).x = (a.getx s0 :: (run a maxiter s0).log).getLast (List.cons_ne_nil _ _)) ∧
    (C (a.getx s0) = true → run a maxiter s0 = ⟨a.getx s0, 0, [H (a.getx s0)], []⟩) := by
  obtain ⟨sts, e1, e2, e3, e4, e5, e6, e7, e8, e9⟩ :=
    run_spec a maxiter s0 Inv hm h0 hnext (fun s s' h1 h2 => (hfin s s' h1 h2).1)
  have hall : ∀ t ∈ s0 :: sts, Inv t := by
    intro t ht
    rcases List.mem_cons.mp ht with h | h
    · exact h ▸ h0
    · exact e1 t h
  have hlast : Inv ((s0 :: sts).getLast (List.cons_ne_nil _ _)) := hall _ (List.getLast_mem _)
  have hx : a.getx ((s0 :: sts).getLast (List.cons_ne_nil _ _)) =
      (a.getx s0 :: (run a maxiter s0).log).getLast (List.cons_ne_nil _ _) := by
    rw [getLast_map_cons a.getx s0 sts]; simp only [e2]
  refine ⟨?_, by rw [e2]; simpa using e4, e5, ?_, ?_, ?_, ?_⟩
  · rw [e3, e2]
    simp only [List.map_cons, List.map_map]
    congr 1
    · exact hH s0 h0
    · apply List.map_congr_left
      intro t ht
      exact hH t (e1 t ht)
  · intro h
    rw [e7 (by omega)]
    rcases e8 h with h' | ⟨t, ht, hst⟩
    · rw [← hC _ hlast]; exact h'
    · rw [← hC _ hlast]; exact (hfin t _ ht hst).2
  · intro h
    obtain ⟨h1, h2⟩ := e6 h
    refine ⟨?_, by rw [e2]; simpa using h1, ?_⟩
    · rcases e5 with h' | h' | h' <;> omega
    · rw [e7 (by omega), ← hC _ hlast]; exact h2
  · intro h; rw [e7 h]; exact hx
  · intro h
    have := e9 (by rw [hC s0 h0]; exact h)
    rw [this, hH s0 h0]

end PyamgV.C06
