import PyamgV.Proofs.C16Bridge
import PyamgV.Proofs.C16Hist

/-! PyamgV (C16): what a fresh solver object of the model returns for the four direct kinds, and the
clauses of the property this gives through `C16LinAlg.lean` (matrices read off the arrays by `toMat`,
`toVec`).  `M = toDense A n` is the model's `A.toarray()`.  The hypotheses `isPinv … = true`,
`isInv … = true`, `isHPD … = true` are the Boolean certificates the driver evaluates for every
instance (replies of `c16_pinv`, `c16_hpd`; inside `c16_run` they select the branch). -/
namespace PyamgV.C16
open PyamgV.K PyamgV.C02 Matrix
set_option linter.unusedSectionVars false

variable {K : Type} [Field K] [DecidableEq K]

theorem matVec_size (M : Dense K) (nr nc : Nat) (x : Array K) : (matVec M nr nc x).size = nr := by
  simp [matVec]

theorem scatter_size (nz : List Nat) (y : Array K) (n : Nat) : (scatter nz y n).size = n := by
  simp [scatter]

theorem nzCols_lt (A : Csr K) : ∀ j ∈ nzCols A, j < A.n := by
  intro j hj
  unfold nzCols at hj
  exact List.mem_range.1 (List.mem_filter.1 hj).1

theorem nzCols_nodup (A : Csr K) : (nzCols A).Nodup := by
  unfold nzCols
  exact List.Nodup.filter _ List.nodup_range

/-- what a fresh `pinv` / `pinv2` solver returns -/
theorem call_pinv (isPos : K → Bool) (cb : Csr K → Arr K → Except String (Arr K)) (o : Opts K)
    (A : Csr K) (b : Arr K) (hn : b.data.size = A.n) (hz : nnz A ≠ 0) :
    (call id isPos cb .pinv o {} A b).2.1 =
      .ok ⟨matVec (pinvD id (toDense A A.n) A.n) A.n A.n b.data, b.shape⟩ := by
  unfold call
  rw [if_neg hz]
  simp [solve, factor, applyFact, hn, reshape, matVec_size, Except.bind, bind]

theorem call_lu (isPos : K → Bool) (cb : Csr K → Arr K → Except String (Arr K)) (o : Opts K)
    (A : Csr K) (b : Arr K) (hn : b.data.size = A.n) (hz : nnz A ≠ 0) (X : Dense K)
    (hX : inverse? id (toDense A A.n) A.n = some X) :
    (call id isPos cb .lu o {} A b).2.1 = .ok ⟨matVec X A.n A.n b.data, b.shape⟩ := by
  unfold call
  rw [if_neg hz]
  simp [solve, factor, applyFact, hn, hX, reshape, matVec_size, Except.bind, bind]

theorem call_cholesky (isPos : K → Bool) (cb : Csr K → Arr K → Except String (Arr K)) (o : Opts K)
    (A : Csr K) (b : Arr K) (hn : b.data.size = A.n) (hz : nnz A ≠ 0) (X : Dense K)
    (hpd : isHPD id isPos (toDense A A.n) A.n = true)
    (hX : inverse? id (toDense A A.n) A.n = some X) :
    (call id isPos cb .cholesky o {} A b).2.1 = .ok ⟨matVec X A.n A.n b.data, b.shape⟩ := by
  unfold call
  rw [if_neg hz]
  simp [solve, factor, applyFact, hn, hX, hpd, reshape, matVec_size, Except.bind, bind]

theorem call_splu (isPos : K → Bool) (cb : Csr K → Arr K → Except String (Arr K)) (o : Opts K)
    (A : Csr K) (b : Arr K) (hn : b.data.size = A.n) (hz : nnz A ≠ 0) (X : Dense K)
    (hX : inverse? id (submat (toDense A A.n) (nzCols A) (nzCols A)) (nzCols A).length = some X) :
    (call id isPos cb .splu o {} A b).2.1 =
      .ok ⟨scatter (nzCols A) (matVec X (nzCols A).length (nzCols A).length (gather (nzCols A) b.data)) A.n, b.shape⟩ := by
  unfold call
  rw [if_neg hz]
  simp [solve, factor, applyFact, hn, hX, reshape, scatter_size, Except.bind, bind]


theorem inverse?_of_isInv (M : Dense K) (n : Nat) (h : isInv M (pinvD id M n) n = true) :
    inverse? id M n = some (pinvD id M n) := by
  unfold inverse?; simp [h]

section ordered
variable [LinearOrder K] [IsStrictOrderedRing K]

/-- **pseudo-inverse clause**: a fresh `pinv` solver on a matrix with a stored entry returns, in the shape
of `b`, a least-squares solution of `A x = b` of minimum 2-norm — for every square matrix, singular or
not — provided the computed `pinvD` passes the Penrose certificate -/
theorem pinv_call_min_norm (isPos : K → Bool) (cb : Csr K → Arr K → Except String (Arr K)) (o : Opts K)
    (A : Csr K) (b : Arr K) (hn : b.data.size = A.n) (hz : nnz A ≠ 0)
    (hc : isPinv id (toDense A A.n) (pinvD id (toDense A A.n) A.n) A.n = true) :
    ∃ x, (call id isPos cb .pinv o {} A b).2.1 = .ok x ∧ x.shape = b.shape ∧
      (∀ y, (toMat (toDense A A.n) A.n *ᵥ toVec x.data A.n - toVec b.data A.n) ⬝ᵥ
              (toMat (toDense A A.n) A.n *ᵥ toVec x.data A.n - toVec b.data A.n) ≤
            (toMat (toDense A A.n) A.n *ᵥ y - toVec b.data A.n) ⬝ᵥ
              (toMat (toDense A A.n) A.n *ᵥ y - toVec b.data A.n)) ∧
      (∀ y, (toMat (toDense A A.n) A.n *ᵥ y - toVec b.data A.n) ⬝ᵥ
              (toMat (toDense A A.n) A.n *ᵥ y - toVec b.data A.n) ≤
            (toMat (toDense A A.n) A.n *ᵥ toVec x.data A.n - toVec b.data A.n) ⬝ᵥ
              (toMat (toDense A A.n) A.n *ᵥ toVec x.data A.n - toVec b.data A.n) →
          toVec x.data A.n ⬝ᵥ toVec x.data A.n ≤ y ⬝ᵥ y) := by
  refine ⟨_, call_pinv isPos cb o A b hn hz, rfl, ?_, ?_⟩
  · intro y
    simp only [toVec_matVec]
    exact C16LA.penrose_least_squares _ _ (isPinv_sound _ _ _ hc) _ y
  · intro y hy
    simp only [toVec_matVec] at hy ⊢
    exact C16LA.penrose_min_norm _ _ (isPinv_sound _ _ _ hc) _ y hy

end ordered

/-- **direct-solver clause (pseudo-inverse on a nonsingular matrix)**: when the computed `pinvD` is
certified to be the inverse, a fresh `pinv` solver returns the unique solution of `A x = b` -/
theorem pinv_call_solves (isPos : K → Bool) (cb : Csr K → Arr K → Except String (Arr K)) (o : Opts K)
    (A : Csr K) (b : Arr K) (hn : b.data.size = A.n) (hz : nnz A ≠ 0)
    (hc : isInv (toDense A A.n) (pinvD id (toDense A A.n) A.n) A.n = true) :
    ∃ x, (call id isPos cb .pinv o {} A b).2.1 = .ok x ∧ x.shape = b.shape ∧
      toMat (toDense A A.n) A.n *ᵥ toVec x.data A.n = toVec b.data A.n ∧
      ∀ y, toMat (toDense A A.n) A.n *ᵥ y = toVec b.data A.n → y = toVec x.data A.n := by
  refine ⟨_, call_pinv isPos cb o A b hn hz, rfl, ?_⟩
  simp only [toVec_matVec]
  exact C16LA.inverse_solution_unique _ _ (isInv_sound _ _ _ hc) _

/-- **direct-solver clause (dense LU)**: when the dense copy has the certified inverse, a fresh `lu`
solver returns, in the shape of `b`, the unique solution of `A x = b` -/
theorem lu_call_solves (isPos : K → Bool) (cb : Csr K → Arr K → Except String (Arr K)) (o : Opts K)
    (A : Csr K) (b : Arr K) (hn : b.data.size = A.n) (hz : nnz A ≠ 0)
    (hc : isInv (toDense A A.n) (pinvD id (toDense A A.n) A.n) A.n = true) :
    ∃ x, (call id isPos cb .lu o {} A b).2.1 = .ok x ∧ x.shape = b.shape ∧
      toMat (toDense A A.n) A.n *ᵥ toVec x.data A.n = toVec b.data A.n ∧
      ∀ y, toMat (toDense A A.n) A.n *ᵥ y = toVec b.data A.n → y = toVec x.data A.n := by
  refine ⟨_, call_lu isPos cb o A b hn hz _ (inverse?_of_isInv _ _ hc), rfl, ?_⟩
  simp only [toVec_matVec]
  exact C16LA.inverse_solution_unique _ _ (isInv_sound _ _ _ hc) _

/-- **direct-solver clause (Cholesky)**: the same on Hermitian positive definite matrices -/
theorem cholesky_call_solves (isPos : K → Bool) (cb : Csr K → Arr K → Except String (Arr K)) (o : Opts K)
    (A : Csr K) (b : Arr K) (hn : b.data.size = A.n) (hz : nnz A ≠ 0)
    (hpd : isHPD id isPos (toDense A A.n) A.n = true)
    (hc : isInv (toDense A A.n) (pinvD id (toDense A A.n) A.n) A.n = true) :
    ∃ x, (call id isPos cb .cholesky o {} A b).2.1 = .ok x ∧ x.shape = b.shape ∧
      toMat (toDense A A.n) A.n *ᵥ toVec x.data A.n = toVec b.data A.n ∧
      ∀ y, toMat (toDense A A.n) A.n *ᵥ y = toVec b.data A.n → y = toVec x.data A.n := by
  refine ⟨_, call_cholesky isPos cb o A b hn hz _ hpd (inverse?_of_isInv _ _ hc), rfl, ?_⟩
  simp only [toVec_matVec]
  exact C16LA.inverse_solution_unique _ _ (isInv_sound _ _ _ hc) _

/-- **sparse LU clause**: with `nz = nzCols A` (the columns that keep an entry after `eliminate_zeros`)
and a certified inverse of the compressed matrix `A[nz, nz]`, a fresh `splu` solver returns `x` in
the shape of `b` such that (i) every equation of a row in `nz` holds, (ii) `x` is zero outside `nz`,
(iii) `(A x)_i = 0` on identically zero rows.  In particular identically zero rows *and* columns are
tolerated: `x` is zero there and solves the rest. -/
theorem splu_call_spec (isPos : K → Bool) (cb : Csr K → Arr K → Except String (Arr K)) (o : Opts K)
    (A : Csr K) (b : Arr K) (hn : b.data.size = A.n) (hz : nnz A ≠ 0)
    (hc : isInv (submat (toDense A A.n) (nzCols A) (nzCols A))
            (pinvD id (submat (toDense A A.n) (nzCols A) (nzCols A)) (nzCols A).length) (nzCols A).length = true) :
    ∃ x, (call id isPos cb .splu o {} A b).2.1 = .ok x ∧ x.shape = b.shape ∧
      (∀ k, (toMat (toDense A A.n) A.n *ᵥ toVec x.data A.n) (selIdx (nzCols A) A.n (nzCols_lt A) k) =
              toVec b.data A.n (selIdx (nzCols A) A.n (nzCols_lt A) k)) ∧
      (∀ j, (∀ k, selIdx (nzCols A) A.n (nzCols_lt A) k ≠ j) → toVec x.data A.n j = 0) ∧
      (∀ i, (∀ j, toMat (toDense A A.n) A.n i j = 0) → (toMat (toDense A A.n) A.n *ᵥ toVec x.data A.n) i = 0) := by
  refine ⟨_, call_splu isPos cb o A b hn hz _ (inverse?_of_isInv _ _ hc), rfl, ?_⟩
  simp only [toVec_scatter _ _ _ (nzCols_lt A) (nzCols_nodup A), toVec_matVec]
  apply C16LA.compress_solves
  have hinv := isInv_sound _ _ _ hc
  rw [toMat_submat _ _ A.n (nzCols_lt A)] at hinv
  rw [toVec_gather _ _ A.n (nzCols_lt A)]
  exact (C16LA.inverse_solution_unique _ _ hinv _).1

/-- ... and when the rows outside `nz` are identically zero and `b` vanishes there (zero rows *and*
columns of a hierarchy with several candidates), the whole system is solved -/
theorem splu_call_solves_all (isPos : K → Bool) (cb : Csr K → Arr K → Except String (Arr K)) (o : Opts K)
    (A : Csr K) (b : Arr K) (hn : b.data.size = A.n) (hz : nnz A ≠ 0)
    (hc : isInv (submat (toDense A A.n) (nzCols A) (nzCols A))
            (pinvD id (submat (toDense A A.n) (nzCols A) (nzCols A)) (nzCols A).length) (nzCols A).length = true)
    (hrows : ∀ i : Fin A.n, (∀ k, selIdx (nzCols A) A.n (nzCols_lt A) k ≠ i) →
      (∀ j, toMat (toDense A A.n) A.n i j = 0) ∧ toVec b.data A.n i = 0) :
    ∃ x, (call id isPos cb .splu o {} A b).2.1 = .ok x ∧ x.shape = b.shape ∧
      toMat (toDense A A.n) A.n *ᵥ toVec x.data A.n = toVec b.data A.n := by
  refine ⟨_, call_splu isPos cb o A b hn hz _ (inverse?_of_isInv _ _ hc), rfl, ?_⟩
  simp only [toVec_scatter _ _ _ (nzCols_lt A) (nzCols_nodup A), toVec_matVec]
  apply C16LA.compress_solves_all _ _ _ _ _ hrows
  have hinv := isInv_sound _ _ _ hc
  rw [toMat_submat _ _ A.n (nzCols_lt A)] at hinv
  rw [toVec_gather _ _ A.n (nzCols_lt A)]
  exact (C16LA.inverse_solution_unique _ _ hinv _).1

end PyamgV.C16
