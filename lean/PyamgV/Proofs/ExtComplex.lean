import PyamgV.Proofs.Herm
import PyamgV.Proofs.Misc
import Mathlib.Algebra.Module.Prod
import Mathlib.LinearAlgebra.Prod

/-! PyamgV (extension E5, properties C05/C02): **realification bridge** for complex Hermitian problems.

A complex vector space is modelled as `V × V` (real part, imaginary part) over an ordered field `K`
(`V = Nat → K` for the kernel models), multiplication by `i` is `Jop K (u, v) = (-v, u)`, a C-linear
operator with real part `Mr` and imaginary part `Mi` is `cx Mr Mi (u, v) = (Mr u - Mi v, Mi u + Mr v)`.
For a real Euclidean form `e` on `V` the complex inner product `⟨u, v⟩ = Σ conj(uᵢ) vᵢ` is the pair
`cip e u v = (Re, Im)`; its real part is the realified Euclidean form `e.realify`, an `EForm` on `V × V`.

Results: `IsCLin T ↔ T = cx Mr Mi`; a C-linear `M` has Hermitian adjoint `N` (`IsCAdj`, equality of the
complex numbers `⟨M u, v⟩ = ⟨u, N v⟩`) iff `N` is the adjoint of `M` for the realified real form
(`isCAdj_iff_isAdj`) iff `Nr = Mrᵀ`, `Ni = -Miᵀ` (`isCAdj_cx_iff`); in particular `M = Mᴴ` iff `Mr` is
symmetric and `Mi` antisymmetric iff the realification is self-adjoint (`herm_cx_iff`).
For a Hermitian positive semidefinite `A` the form `Re⟨u, A v⟩` is a symmetric PSD `EForm`
(`cEnergy`), `⟨w, A w⟩` is real and equal to its energy (`cEnergy_en`, `cip_herm_self_im`). -/
namespace PyamgV

variable {K : Type*} [Field K] [LinearOrder K] [IsStrictOrderedRing K]
variable {V : Type*} [AddCommGroup V] [Module K V]

/-! ### the realified space -/

/-- the realified Euclidean form `Re⟨u, v⟩ = e(u₁, v₁) + e(u₂, v₂)` on `V × V` -/
def EForm.realify (e : EForm K V) : EForm K (V × V) where
  a := LinearMap.mk₂ K (fun u v => e.a u.1 v.1 + e.a u.2 v.2)
    (by intro u u' v; simp only [Prod.fst_add, Prod.snd_add, map_add, LinearMap.add_apply]; abel)
    (by intro c u v; simp only [Prod.smul_fst, Prod.smul_snd, map_smul, LinearMap.smul_apply,
          smul_eq_mul]; ring)
    (by intro u v v'; simp only [Prod.fst_add, Prod.snd_add, map_add]; abel)
    (by intro c u v; simp only [Prod.smul_fst, Prod.smul_snd, map_smul, smul_eq_mul]; ring)
  symm := by intro u v; simp only [LinearMap.mk₂_apply]; rw [e.symm u.1, e.symm u.2]
  nonneg := by intro v; simp only [LinearMap.mk₂_apply]; exact add_nonneg (e.nonneg _) (e.nonneg _)

@[simp] theorem EForm.realify_apply (e : EForm K V) (u v : V × V) :
    e.realify.a u v = e.a u.1 v.1 + e.a u.2 v.2 := rfl

variable (K) in
/-- multiplication by the imaginary unit -/
def Jop : (V × V) →ₗ[K] (V × V) where
  toFun w := (-w.2, w.1)
  map_add' u v := by ext <;> simp [add_comm]
  map_smul' c u := by ext <;> simp

@[simp] theorem Jop_apply (w : V × V) : Jop K w = (-w.2, w.1) := rfl

/-- the C-linear operator with real part `Mr` and imaginary part `Mi` -/
def cx (Mr Mi : V →ₗ[K] V) : (V × V) →ₗ[K] (V × V) where
  toFun w := (Mr w.1 - Mi w.2, Mi w.1 + Mr w.2)
  map_add' u v := by ext <;> simp only [Prod.fst_add, Prod.snd_add, map_add] <;> abel
  map_smul' c u := by
    ext <;> simp only [Prod.smul_fst, Prod.smul_snd, map_smul, RingHom.id_apply, smul_sub, smul_add]

@[simp] theorem cx_apply (Mr Mi : V →ₗ[K] V) (w : V × V) :
    cx Mr Mi w = (Mr w.1 - Mi w.2, Mi w.1 + Mr w.2) := rfl

/-- `T` commutes with multiplication by `i` -/
def IsCLin (T : (V × V) →ₗ[K] (V × V)) : Prop := ∀ w, T (Jop K w) = Jop K (T w)

theorem cx_isCLin (Mr Mi : V →ₗ[K] V) : IsCLin (cx Mr Mi) := by
  intro w; ext <;> simp only [cx_apply, Jop_apply, map_neg] <;> abel

/-- the real-linear maps of `V × V` that commute with `i` are exactly the `cx Mr Mi` -/
theorem isCLin_iff_cx (T : (V × V) →ₗ[K] (V × V)) :
    IsCLin T ↔ ∃ Mr Mi : V →ₗ[K] V, T = cx Mr Mi := by
  constructor
  · intro h
    refine ⟨LinearMap.fst K V V ∘ₗ T ∘ₗ LinearMap.inl K V V,
            LinearMap.snd K V V ∘ₗ T ∘ₗ LinearMap.inl K V V, ?_⟩
    apply LinearMap.ext
    intro w
    have hw : w = (w.1, 0) + Jop K (w.2, 0) := by ext <;> simp
    have hJ := h (w.2, 0)
    conv_lhs => rw [hw, map_add, hJ]
    ext <;> simp [sub_eq_add_neg]
  · rintro ⟨Mr, Mi, rfl⟩; exact cx_isCLin Mr Mi

theorem IsCLin.add {T T' : (V × V) →ₗ[K] (V × V)} (h : IsCLin T) (h' : IsCLin T') :
    IsCLin (T + T') := by
  intro w; simp only [LinearMap.add_apply, h w, h' w, map_add]

theorem IsCLin.sub {T T' : (V × V) →ₗ[K] (V × V)} (h : IsCLin T) (h' : IsCLin T') :
    IsCLin (T - T') := by
  intro w; simp only [LinearMap.sub_apply, h w, h' w, map_sub]

theorem IsCLin.comp {T T' : (V × V) →ₗ[K] (V × V)} (h : IsCLin T) (h' : IsCLin T') :
    IsCLin (T ∘ₗ T') := by
  intro w; simp only [LinearMap.comp_apply, h' w, h (T' w)]

theorem IsCLin.id : IsCLin (LinearMap.id : (V × V) →ₗ[K] (V × V)) := fun _ => rfl

theorem IsCLin.zero : IsCLin (0 : (V × V) →ₗ[K] (V × V)) := by
  intro w; ext <;> simp

theorem IsCLin.compM {A M₁ M₂ : (V × V) →ₗ[K] (V × V)} (hA : IsCLin A) (h₁ : IsCLin M₁)
    (h₂ : IsCLin M₂) : IsCLin (compM A M₁ M₂) :=
  (h₁.add h₂).sub ((h₂.comp hA).comp h₁)

theorem IsCLin.iterM {A M : (V × V) →ₗ[K] (V × V)} (hA : IsCLin A) (hM : IsCLin M) (k : Nat) :
    ∀ M0 : (V × V) →ₗ[K] (V × V), IsCLin M0 → IsCLin (iterM A M k M0) := by
  induction k with
  | zero => intro M0 h; simpa [PyamgV.iterM] using h
  | succ k ih => intro M0 h; simpa [PyamgV.iterM] using ih _ (IsCLin.compM hA h hM)

/-! ### the complex inner product -/

/-- `⟨u, v⟩ = Σ conj(uᵢ) vᵢ` as the pair (real part, imaginary part) -/
def cip (e : EForm K V) (u v : V × V) : K × K := (e.realify.a u v, e.realify.a (Jop K u) v)

theorem cip_re (e : EForm K V) (u v : V × V) : (cip e u v).1 = e.a u.1 v.1 + e.a u.2 v.2 := rfl

theorem cip_im (e : EForm K V) (u v : V × V) : (cip e u v).2 = e.a u.1 v.2 - e.a u.2 v.1 := by
  simp only [cip, EForm.realify_apply, Jop_apply, map_neg, LinearMap.neg_apply]; ring

/-- `⟨u, i v⟩ = i ⟨u, v⟩` -/
theorem cip_J_right (e : EForm K V) (u v : V × V) :
    cip e u (Jop K v) = (-(cip e u v).2, (cip e u v).1) := by
  ext
  · rw [cip_re, cip_im]; simp only [Jop_apply, map_neg]; ring
  · rw [cip_im, cip_re]; simp only [Jop_apply, map_neg]; ring

/-- `⟨i u, v⟩ = -i ⟨u, v⟩` -/
theorem cip_J_left (e : EForm K V) (u v : V × V) :
    cip e (Jop K u) v = ((cip e u v).2, -(cip e u v).1) := by
  ext
  · rw [cip_re, cip_im]; simp only [Jop_apply, map_neg, LinearMap.neg_apply]; ring
  · rw [cip_im, cip_re]; simp only [Jop_apply, map_neg, LinearMap.neg_apply]; ring

/-- `⟨v, u⟩ = conj ⟨u, v⟩` -/
theorem cip_conj_symm (e : EForm K V) (u v : V × V) :
    cip e v u = ((cip e u v).1, -(cip e u v).2) := by
  ext
  · rw [cip_re, cip_re, e.symm v.1, e.symm v.2]
  · rw [cip_im, cip_im, e.symm v.1, e.symm v.2]; ring

theorem cip_self_im (e : EForm K V) (u : V × V) : (cip e u u).2 = 0 := by
  rw [cip_im, e.symm u.1]; ring

theorem cip_self_nonneg (e : EForm K V) (u : V × V) : 0 ≤ (cip e u u).1 := e.realify.nonneg u

/-! ### Hermitian adjoints -/

/-- `N` is the Hermitian adjoint of `M`: `⟨M u, v⟩ = ⟨u, N v⟩` as complex numbers -/
def IsCAdj (e₁ e₂ : EForm K V) (M N : (V × V) →ₗ[K] (V × V)) : Prop :=
  ∀ u v, cip e₁ (M u) v = cip e₂ u (N v)

/-- the real part of Hermitian adjointness is adjointness for the realified forms -/
theorem IsCAdj.isAdj {e₁ e₂ : EForm K V} {M N : (V × V) →ₗ[K] (V × V)} (h : IsCAdj e₁ e₂ M N) :
    IsAdj e₁.realify e₂.realify M N := fun u v => congrArg Prod.fst (h u v)

/-- for a C-linear `M`, real adjointness for the realified forms is Hermitian adjointness -/
theorem IsAdj.isCAdj {e₁ e₂ : EForm K V} {M N : (V × V) →ₗ[K] (V × V)} (hM : IsCLin M)
    (h : IsAdj e₁.realify e₂.realify M N) : IsCAdj e₁ e₂ M N := by
  intro u v
  ext
  · exact h u v
  · show e₁.realify.a (Jop K (M u)) v = e₂.realify.a (Jop K u) (N v)
    rw [← hM u]; exact h (Jop K u) v

/-- **bridge**: for C-linear `M`, `N = Mᴴ` iff `N` is the adjoint of the realification of `M`
w.r.t. the realified Euclidean forms -/
theorem isCAdj_iff_isAdj {e₁ e₂ : EForm K V} {M N : (V × V) →ₗ[K] (V × V)} (hM : IsCLin M) :
    IsCAdj e₁ e₂ M N ↔ IsAdj e₁.realify e₂.realify M N :=
  ⟨IsCAdj.isAdj, IsAdj.isCAdj hM⟩

/-- in real and imaginary parts: `N = Mᴴ` iff `Nr = Mrᵀ` and `Ni = -Miᵀ` -/
theorem isAdj_cx_iff (e₁ e₂ : EForm K V) (Mr Mi Nr Ni : V →ₗ[K] V) :
    IsAdj e₁.realify e₂.realify (cx Mr Mi) (cx Nr Ni) ↔
      IsAdj e₁ e₂ Mr Nr ∧ ∀ u v, e₁.a (Mi u) v = - e₂.a u (Ni v) := by
  constructor
  · intro h
    constructor
    · intro u v
      have := h (u, 0) (v, 0)
      simpa using this
    · intro u v
      have := h (u, 0) (0, v)
      simpa using this
  · rintro ⟨hr, hi⟩ u v
    simp only [EForm.realify_apply, cx_apply, map_sub, map_add, LinearMap.sub_apply,
      LinearMap.add_apply]
    rw [hr u.1 v.1, hr u.2 v.2, hi u.2 v.1, hi u.1 v.2]; ring

theorem isCAdj_cx_iff (e₁ e₂ : EForm K V) (Mr Mi Nr Ni : V →ₗ[K] V) :
    IsCAdj e₁ e₂ (cx Mr Mi) (cx Nr Ni) ↔
      IsAdj e₁ e₂ Mr Nr ∧ ∀ u v, e₁.a (Mi u) v = - e₂.a u (Ni v) :=
  (isCAdj_iff_isAdj (cx_isCLin Mr Mi)).trans (isAdj_cx_iff e₁ e₂ Mr Mi Nr Ni)

/-- **Hermitian = real part symmetric and imaginary part antisymmetric = realification self-adjoint** -/
theorem herm_cx_iff (e : EForm K V) (Mr Mi : V →ₗ[K] V) :
    (IsCAdj e e (cx Mr Mi) (cx Mr Mi) ↔
      IsAdj e e Mr Mr ∧ ∀ u v, e.a (Mi u) v = - e.a u (Mi v)) ∧
    (IsCAdj e e (cx Mr Mi) (cx Mr Mi) ↔ IsAdj e.realify e.realify (cx Mr Mi) (cx Mr Mi)) :=
  ⟨isCAdj_cx_iff e e Mr Mi Mr Mi, isCAdj_iff_isAdj (cx_isCLin Mr Mi)⟩

theorem IsCAdj.flip {e₁ e₂ : EForm K V} {M N : (V × V) →ₗ[K] (V × V)} (h : IsCAdj e₁ e₂ M N) :
    IsCAdj e₂ e₁ N M := by
  intro u v
  rw [cip_conj_symm e₂ v (N u), ← h v u, cip_conj_symm e₁ (M v) u]

theorem IsCAdj.comp {e₁ e₂ e₃ : EForm K V} {M N M' N' : (V × V) →ₗ[K] (V × V)}
    (h : IsCAdj e₁ e₂ M N) (h' : IsCAdj e₂ e₃ M' N') : IsCAdj e₁ e₃ (M ∘ₗ M') (N' ∘ₗ N) := by
  intro u v; simp only [LinearMap.comp_apply]; rw [h (M' u) v, h' u (N v)]

/-- a Hermitian adjoint is C-linear (non-degenerate form) -/
theorem IsCAdj.isCLin_right {e₁ e₂ : EForm K V} {M N : (V × V) →ₗ[K] (V × V)}
    (h : IsCAdj e₁ e₂ M N) (hnd : ∀ w, (∀ u, e₂.realify.a u w = 0) → w = 0) : IsCLin N := by
  intro v
  have : N (Jop K v) - Jop K (N v) = 0 := by
    apply hnd
    intro u
    have h1 := congrArg Prod.fst (h u (Jop K v))
    rw [cip_J_right] at h1
    have h2 := congrArg Prod.snd (h u v)
    have h3 := congrArg Prod.fst (cip_J_right e₂ u (N v))
    simp only [cip] at h1 h2 h3
    simp only [map_sub]
    rw [← h1, h3, ← h2]; ring
  exact sub_eq_zero.1 this

/-! ### the complex energy form -/

/-- the energy form `Re⟨u, A v⟩` of a Hermitian positive semidefinite `A`, a symmetric PSD real
bilinear form on the realified space -/
def cEnergy (e : EForm K V) (A : (V × V) →ₗ[K] (V × V)) (hH : IsCAdj e e A A)
    (hp : ∀ w, 0 ≤ (cip e (A w) w).1) : EForm K (V × V) :=
  e.realify.ofOp A hH.isAdj hp

theorem cEnergy_apply (e : EForm K V) (A : (V × V) →ₗ[K] (V × V)) (hH hp) (u v : V × V) :
    (cEnergy e A hH hp).a u v = (cip e u (A v)).1 := by
  show (cip e (A u) v).1 = _
  rw [hH u v]

/-- for Hermitian `A` the complex number `⟨w, A w⟩` is real ... -/
theorem cip_herm_self_im (e : EForm K V) (A : (V × V) →ₗ[K] (V × V)) (hH : IsCAdj e e A A)
    (w : V × V) : (cip e (A w) w).2 = 0 ∧ (cip e w (A w)).2 = 0 := by
  have h1 := congrArg Prod.snd (hH w w)
  have h2 := congrArg Prod.snd (cip_conj_symm e (A w) w)
  simp only at h2
  constructor
  · linarith
  · linarith

/-- ... and equal to the energy: **the complex energy norm is the energy norm of the realification** -/
theorem cEnergy_en (e : EForm K V) (A : (V × V) →ₗ[K] (V × V)) (hH hp) (w : V × V) :
    cip e w (A w) = ((cEnergy e A hH hp).en w, 0) ∧ cip e (A w) w = ((cEnergy e A hH hp).en w, 0) := by
  have him := cip_herm_self_im e A hH w
  constructor
  · ext
    · exact (cEnergy_apply e A hH hp w w).symm
    · exact him.2
  · ext
    · rfl
    · exact him.1

/-- in parts: the energy form of `A = Ar + i Ai` (`Ar` symmetric, `Ai` antisymmetric) -/
theorem cEnergy_cx_apply (e : EForm K V) (Ar Ai : V →ₗ[K] V) (hH hp) (u v : V × V) :
    (cEnergy e (cx Ar Ai) hH hp).a u v =
      e.a (Ar u.1) v.1 - e.a (Ai u.2) v.1 + e.a (Ai u.1) v.2 + e.a (Ar u.2) v.2 := by
  show e.realify.a (cx Ar Ai u) v = _
  simp only [EForm.realify_apply, cx_apply, map_sub, map_add, LinearMap.sub_apply,
    LinearMap.add_apply]
  ring

#print axioms isCLin_iff_cx
#print axioms herm_cx_iff
#print axioms cEnergy_en
end PyamgV
