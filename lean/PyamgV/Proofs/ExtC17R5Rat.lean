import PyamgV.Model.ExtC17R5Ops
import PyamgV.Proofs.ExtC17R5Par
import PyamgV.Proofs.ExtC17R5MisK
import PyamgV.Proofs.C13Rat

/-! PyamgV (C17, extension E46): the instances of the two termination theorems for the weights the driver runs
(`C17R5.ratW`, exact rationals): the hypotheses on the abstract comparisons (`C17R4.WOrd`, `WAgree`, `PyamgV.WOrd ℚ`) hold, so the
statements are about exactly the computations of the driver ops `c17r5_mis_parallel`, `c17r5_mis_k_parallel` (fuel `n + 1`). -/
namespace PyamgV.C17R5
open PyamgV.Ck PyamgV.C17 PyamgV.C17R4 PyamgV.Ext

theorem ratW_ord : C17R4.WOrd ratW := by
  refine ⟨fun a => ?_, fun a b c h1 h2 => ?_, fun a b c h1 h2 => ?_, fun a b c h1 h2 => ?_, fun a b c h1 h2 => ?_⟩
  · show decide (a < a) = false
    exact decide_eq_false (lt_irrefl a)
  · have e1 : b < a := of_decide_eq_true h1
    have e2 : c < b := of_decide_eq_true h2
    exact decide_eq_true (lt_trans e2 e1)
  · have e1 : b < a := of_decide_eq_true h1
    have e2 : b = c := of_decide_eq_true h2
    exact decide_eq_true (by rw [← e2]; exact e1)
  · have e1 : a = b := of_decide_eq_true h1
    have e2 : c < b := of_decide_eq_true h2
    exact decide_eq_true (by rw [e1]; exact e2)
  · have e1 : a = b := of_decide_eq_true h1
    have e2 : b = c := of_decide_eq_true h2
    exact decide_eq_true (e1.trans e2)

theorem ratW_agree : WAgree ratW := ⟨fun _ _ => rfl, fun _ _ => rfl⟩

/-- `maximal_independent_set_parallel`, `max_iters = -1`, rational weights: what the op `c17r5_mis_parallel` computes is defined
(`some`), in range, and leaves no `active` entry -/
theorem misParallel_total_rat {n : Nat} {ap aj : Array Int} (hA : WFm (patS n ap aj) n)
    (active C F : Int) (hCa : C ≠ active) (hFa : F ≠ active) (x : Array Int) (hx : x.size = n) (y : Array Rat) (hy : y.size = n) :
    ∃ r, misParallel ratW n ap aj active C F x y (-1) (n + 1) = some r ∧
      Safe r (fun out => out.1.size = n ∧ Upd2 active F C x out.1 ∧
        (F ≠ C → F ≠ active → Sep n ap aj active C x → Sep n ap aj active C out.1) ∧
        ∀ k, k < n → out.1.getD k 0 ≠ active) :=
  misParallel_total ratW ratW_ord hA active C F hCa hFa x hx y hy (n + 1) (Nat.le_refl _)

/-- `maximal_independent_set_k_parallel`, `max_iters = -1`, rational weights above `-1`, symmetric pattern: what the op
`c17r5_mis_k_parallel` computes is defined, in range, and a distance-`k` maximal independent set -/
theorem misKParallel_total_rat {n : Nat} {ap aj : Array Int} (hA : WFm (patS n ap aj) n) (hG : GraphOK (pg (natG n ap aj)))
    (k : Int) (hk : 0 ≤ k) (x : Array Int) (hx : x.size = n) (y : Array Rat) (hy : y.size = n)
    (hyw : ∀ i, i < n → (-1 : Rat) < y.getD i 0) :
    ∃ r, misKParallel ratW n ap aj k x y (-1) (n + 1) = some r ∧
      Safe r (fun x' => IsMISk (pg (natG n ap aj)) k.toNat x' ∧
        G.misK (natG n ap aj) k.toNat ratW.ofInt y none (n + 1) = some x') :=
  misKParallel_total PyamgV.C13.ratOrd ratW ratW_agree hA hG k hk x hx y hy (by show ((0 : Int) : Rat) < ((1 : Int) : Rat); norm_num)
    (fun i hi => by
      have h1 : y.getD i default = y.getD i 0 := rfl
      show (((-1 : Int)) : Rat) < y.getD i default
      rw [h1]; have := hyw i hi; simpa using this) (n + 1) (Nat.le_refl _)

end PyamgV.C17R5
