/-! PyamgV: the cycling loop of `MultilevelSolver.solve` (no accel) — C01 bookkeeping. Core only. -/
namespace PyamgV

structure Out (X R : Type) where
  x : X
  status : Nat
  residuals : List R
  cb : List X
deriving Repr

variable {X R : Type}

/-- `while True:` body, literally: cycle; it += 1; normr; append; callback; tol test; maxiter test.
`rem` is fuel; `none` means the Python loop would not have stopped within the fuel. -/
def loop (cycle : X → X) (resnorm : X → R) (below : R → Bool) (maxiter : Nat) :
    Nat → Nat → X → List R → List X → Option (Out X R)
  | 0, _, _, _, _ => none
  | rem+1, it, x, res, cb =>
    let x' := cycle x
    let it' := it + 1
    let r := resnorm x'
    let res' := res ++ [r]
    let cb' := cb ++ [x']
    if below r then some ⟨x', 0, res', cb'⟩
    else if it' = maxiter then some ⟨x', it', res', cb'⟩
    else loop cycle resnorm below maxiter rem it' x' res' cb'

def solve (cycle : X → X) (resnorm : X → R) (below : R → Bool) (maxiter : Nat) (x0 : X) :
    Option (Out X R) :=
  loop cycle resnorm below maxiter maxiter 0 x0 [resnorm x0] []

def iterate (f : X → X) : Nat → X → X
  | 0, x => x
  | k+1, x => iterate f k (f x)

theorem iterate_succ' (f : X → X) (k : Nat) (x : X) : iterate f (k+1) x = f (iterate f k x) := by
  induction k generalizing x with
  | zero => rfl
  | succ k ih => simp only [iterate] at *; exact ih (f x)

/-- Generalised invariant: started at iteration `it` (with `it + rem = maxiter`, `rem ≥ 1`) from
`x = cycle^it x0` with the histories so far, the loop stops after `k` cycles in total with the
stated outputs. -/
theorem loop_spec (cycle : X → X) (resnorm : X → R) (below : R → Bool) (maxiter : Nat) (x0 : X) :
    ∀ (rem it : Nat) (res : List R) (cb : List X), rem ≥ 1 → it + rem = maxiter →
      res = (List.range (it+1)).map (fun j => resnorm (iterate cycle j x0)) →
      cb = (List.range it).map (fun j => iterate cycle (j+1) x0) →
      (∀ j, 1 ≤ j → j ≤ it → below (resnorm (iterate cycle j x0)) = false) →
      ∃ o k, loop cycle resnorm below maxiter rem it (iterate cycle it x0) res cb = some o ∧
        it < k ∧ k ≤ maxiter ∧
        o.x = iterate cycle k x0 ∧
        o.residuals = (List.range (k+1)).map (fun j => resnorm (iterate cycle j x0)) ∧
        o.cb = (List.range k).map (fun j => iterate cycle (j+1) x0) ∧
        (o.status = 0 ↔ below (resnorm o.x) = true) ∧
        (o.status ≠ 0 → o.status = k ∧ k = maxiter) ∧
        (∀ j, 1 ≤ j → j < k → below (resnorm (iterate cycle j x0)) = false) := by
  intro rem
  induction rem with
  | zero => intro it res cb h; omega
  | succ rem ih =>
    intro it res cb _ hsum hres hcb hprev
    have hx' : cycle (iterate cycle it x0) = iterate cycle (it+1) x0 := (iterate_succ' cycle it x0).symm
    have hres' : res ++ [resnorm (iterate cycle (it+1) x0)] =
        (List.range (it+1+1)).map (fun j => resnorm (iterate cycle j x0)) := by
      rw [List.range_succ (n := it+1), List.map_append, hres]; rfl
    have hcb' : cb ++ [iterate cycle (it+1) x0] =
        (List.range (it+1)).map (fun j => iterate cycle (j+1) x0) := by
      rw [List.range_succ, List.map_append, hcb]; rfl
    simp only [loop, hx']
    by_cases hb : below (resnorm (iterate cycle (it+1) x0)) = true
    · simp only [hb, if_true]
      refine ⟨_, it+1, rfl, by omega, by omega, rfl, hres', hcb', by simp [hb], by simp, ?_⟩
      intro j h1 h2; exact hprev j h1 (by omega)
    · have hb' : below (resnorm (iterate cycle (it+1) x0)) = false := by simpa using hb
      simp only [hb', Bool.false_eq_true, if_false]
      by_cases hm : it + 1 = maxiter
      · simp only [hm, if_true]
        refine ⟨_, it+1, rfl, by omega, by omega, by simp [hm], ?_, ?_, ?_, ?_, ?_⟩
        · simpa [hm] using hres'
        · simpa [hm] using hcb'
        · have : maxiter ≠ 0 := by omega
          simp [← hm, hb']
        · intro _; simp [hm]
        · intro j h1 h2; exact hprev j h1 (by omega)
      · simp only [hm, if_false]
        have := ih (it+1) _ _ (by omega) (by omega) hres' hcb' (by
          intro j h1 h2
          by_cases hj : j = it+1
          · subst hj; exact hb'
          · exact hprev j h1 (by omega))
        obtain ⟨o, k, h1, h2, h3, h4⟩ := this
        exact ⟨o, k, h1, by omega, h3, h4⟩

/-- C01 (bookkeeping part): for every `maxiter ≥ 1` the loop terminates and reports truthfully. -/
theorem solve_spec (cycle : X → X) (resnorm : X → R) (below : R → Bool) (maxiter : Nat) (x0 : X)
    (hm : maxiter ≥ 1) :
    ∃ o k, solve cycle resnorm below maxiter x0 = some o ∧ 1 ≤ k ∧ k ≤ maxiter ∧
      o.x = iterate cycle k x0 ∧
      o.residuals = (List.range (k+1)).map (fun j => resnorm (iterate cycle j x0)) ∧
      o.cb = (List.range k).map (fun j => iterate cycle (j+1) x0) ∧
      (o.status = 0 ↔ below (resnorm o.x) = true) ∧
      (o.status ≠ 0 → o.status = k ∧ k = maxiter) ∧
      (∀ j, 1 ≤ j → j < k → below (resnorm (iterate cycle j x0)) = false) := by
  have := loop_spec cycle resnorm below maxiter x0 maxiter 0 [resnorm x0] [] hm (by omega)
    (by simp [iterate]) (by simp) (by intro j h1 h2; omega)
  obtain ⟨o, k, h1, h2, h3⟩ := this
  exact ⟨o, k, h1, by omega, h3⟩

/-- non-vacuity / finding: with `maxiter = 0` the fuel-bounded model reports non-termination -/
example : solve (fun x : Nat => x + 1) (fun x => x) (fun _ => false) 0 0 = none := rfl
example : (solve (fun x : Nat => x + 1) (fun x => 10 - x) (fun r => r < 8) 5 0).map (·.status) = some 0 := by decide
example : (solve (fun x : Nat => x + 1) (fun x => 10 - x) (fun r => r < 2) 5 0).map (·.status) = some 5 := by decide

#print axioms solve_spec
end PyamgV
