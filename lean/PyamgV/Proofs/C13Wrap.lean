import PyamgV.Proofs.MisParTerm2
import PyamgV.Proofs.CljpCount
import PyamgV.Proofs.CsrWF
import PyamgV.Proofs.RsInit
import PyamgV.Proofs.RsIndep
import PyamgV.Proofs.RsPass2
import PyamgV.Model.C13Wrap

/-! PyamgV (C13): theorems about the wrapper-level models of `Model/C13Wrap.lean` — the public
routines `RS`, `PMIS`, `PMISc`, `CLJP`, `CLJPc` of `pyamg/classical/split.py` from the caller's CSR
arrays to the returned splitting.  The hypotheses of the kernel-level theorems (`RS.TOK`, `RS.SOK`,
`RS.Sym`, `KCljp.SOK`, `GraphOK`: column bounds, no self loops, `T = Sᵀ`, distinct entry positions,
symmetric adjacency) are *proved* here for the arrays the model of the Python preprocessing builds
(`ofRows_row`, `prepT_TOK`, `prep_Sym`, `prep_KSOK`, `symGraph_OK`), so the final statements only
speak about the caller's off-diagonal pattern `offRow S`.  New for nonsymmetric patterns:
`RSAny.run_flags` (0/1 flags) and `RSAny.run_has_coarse` (the node visited first becomes a C-point
and C-points are never unmade).  Core Lean + the listed PyamgV modules only. -/
namespace PyamgV.C13
open PyamgV

theorem offs_succ (f : Nat → List Nat) (i : Nat) : offs f (i+1) = offs f i + (f i).length := by
  unfold offs; rw [List.range_succ, List.map_append, List.sum_append]; simp

theorem offs_mono (f : Nat → List Nat) {i j : Nat} (h : i ≤ j) : offs f i ≤ offs f j := by
  induction j with
  | zero => have : i = 0 := by omega
            subst this; exact Nat.le_refl _
  | succ j ih =>
    by_cases e : i = j + 1
    · subst e; exact Nat.le_refl _
    · have := ih (by omega); rw [offs_succ]; omega

theorem length_flat (f : Nat → List Nat) (n : Nat) : ((List.range n).flatMap f).length = offs f n := by
  induction n with
  | zero => simp [offs]
  | succ n ih => rw [List.range_succ, List.flatMap_append, List.length_append, ih, offs_succ]; simp

theorem flat_getD (f : Nat → List Nat) : ∀ n i t, i < n → t < (f i).length →
    ((List.range n).flatMap f).getD (offs f i + t) 0 = (f i).getD t 0 := by
  intro n
  induction n with
  | zero => intro i t hi; omega
  | succ n ih =>
    intro i t hi ht
    rw [List.range_succ, List.flatMap_append]
    by_cases hin : i < n
    · have hlt : offs f i + t < ((List.range n).flatMap f).length := by
        rw [length_flat]
        have := offs_mono f (show i + 1 ≤ n by omega)
        rw [offs_succ] at this; omega
      have := ih i t hin ht
      simp only [List.getD_eq_getElem?_getD] at this ⊢
      rw [List.getElem?_append_left hlt]; exact this
    · have e : i = n := by omega
      subst e
      have hge : ((List.range i).flatMap f).length ≤ offs f i + t := by rw [length_flat]; omega
      simp only [List.getD_eq_getElem?_getD]
      rw [List.getElem?_append_right hge, length_flat]
      simp
theorem ofRows_ap (n : Nat) (f : Nat → List Nat) (i : Nat) (hi : i ≤ n) :
    RS.rdN (ofRows n f).ap i = offs f i := by
  simp [ofRows, RS.rdN, Array.getD_eq_getD_getElem?, Nat.lt_succ_of_le hi]

theorem ofRows_aj (n : Nat) (f : Nat → List Nat) (p : Nat) :
    RS.rdN (ofRows n f).aj p = ((List.range n).flatMap f).getD p 0 := by
  simp [ofRows, RS.rdN, Array.getD_eq_getD_getElem?, List.getD_eq_getElem?_getD]

/-- the CSR arrays built from the row lists have exactly these rows -/
theorem ofRows_row (n : Nat) (f : Nat → List Nat) (i : Nat) (hi : i < n) :
    (ofRows n f).row i = f i := by
  unfold RS.Csr.row
  rw [ofRows_ap n f i (by omega), ofRows_ap n f (i+1) (by omega), offs_succ]
  have e : offs f i + (f i).length - offs f i = (f i).length := by omega
  rw [e]
  apply List.ext_getElem
  · simp
  · intro t h1 h2
    simp only [List.getElem_map, List.getElem_range', ofRows_aj]
    have ht : t < (f i).length := h2
    have := flat_getD f n i t hi ht
    rw [Nat.one_mul, this]
    simp [List.getD_eq_getElem?_getD, List.getElem?_eq_getElem ht]

@[simp] theorem ofRows_n (n : Nat) (f : Nat → List Nat) : (ofRows n f).n = n := rfl
theorem rowFn_map (n : Nat) (g : Nat → List Nat) (i : Nat) (hi : i < n) :
    rowFn ((Array.range n).map g) i = g i := by
  simp [rowFn, Array.getD_eq_getD_getElem?, hi]

theorem prepS_row (S : Pat) (i : Nat) (hi : i < S.n) : (prepS S).row i = offRow S i := by
  unfold prepS; rw [ofRows_row _ _ _ hi]; exact rowFn_map _ _ _ hi

theorem prepT_row (S : Pat) (i : Nat) (hi : i < S.n) :
    (prepT S).row i = trRow S.n (rowFn (offRows S)) i := by
  unfold prepT; rw [ofRows_row _ _ _ hi]; exact rowFn_map _ _ _ hi

theorem prepG_row (S : Pat) (i : Nat) (hi : i < S.n) :
    (prepG S).row i = symRow S.n (rowFn (offRows S)) i := by
  unfold prepG; rw [ofRows_row _ _ _ hi]; exact rowFn_map _ _ _ hi

@[simp] theorem prepS_n (S : Pat) : (prepS S).n = S.n := rfl
@[simp] theorem prepT_n (S : Pat) : (prepT S).n = S.n := rfl
@[simp] theorem prepG_n (S : Pat) : (prepG S).n = S.n := rfl

/-- `i` strongly depends on `j` (an off-diagonal stored entry `(i, j)` of the caller's matrix) -/
theorem mem_offRow (S : Pat) (i j : Nat) :
    j ∈ offRow S i ↔ j < S.n ∧ j ≠ i ∧ j ∈ S.row i := by
  simp [offRow, List.mem_filter]

theorem mem_prepT_row (S : Pat) (i j : Nat) (hi : i < S.n) (hj : j < S.n) :
    j ∈ (prepT S).row i ↔ i ∈ offRow S j := by
  rw [prepT_row S i hi]
  simp [trRow, List.mem_filter, hj, offRows, rowFn_map _ _ _ hj]

theorem prepT_row_lt (S : Pat) (i j : Nat) (hi : i < S.n) (h : j ∈ (prepT S).row i) : j < S.n := by
  rw [prepT_row S i hi] at h
  simp [trRow, List.mem_filter] at h
  exact h.1

theorem mem_symRow (S : Pat) (i j : Nat) (hi : i < S.n) :
    j ∈ symRow S.n (rowFn (offRows S)) i ↔ j < S.n ∧ (j ∈ offRow S i ∨ i ∈ offRow S j) := by
  unfold symRow offRows
  rw [List.mem_filter, List.mem_range]
  constructor
  · rintro ⟨hj, h⟩
    rw [rowFn_map _ _ _ hi, rowFn_map _ _ _ hj] at h
    refine ⟨hj, ?_⟩
    simpa using h
  · rintro ⟨hj, h⟩
    rw [rowFn_map _ _ _ hi, rowFn_map _ _ _ hj]
    exact ⟨hj, by simpa using h⟩

/-! ### Ruge–Stüben: the structural hypotheses of the kernel theorems hold for the arrays the
wrapper builds -/

/-- the off-diagonal pattern is symmetric -/
def SymPat (S : Pat) : Prop := ∀ i j, i < S.n → j < S.n → (j ∈ offRow S i ↔ i ∈ offRow S j)

theorem offRow_lt (S : Pat) {i j : Nat} (h : j ∈ offRow S i) : j < S.n := ((mem_offRow S i j).1 h).1
theorem offRow_ne (S : Pat) {i j : Nat} (h : j ∈ offRow S i) : j ≠ i := ((mem_offRow S i j).1 h).2.1

theorem prepS_SOK (S : Pat) : RS.SOK (prepS S) S.n :=
  ⟨fun i hi j hj => by rw [prepS_row S i hi] at hj; exact offRow_lt S hj⟩

theorem prepT_SOK (S : Pat) : RS.SOK (prepT S) S.n :=
  ⟨fun i hi j hj => prepT_row_lt S i j hi hj⟩

theorem prepT_noself (S : Pat) (i : Nat) (hi : i < S.n) : i ∉ (prepT S).row i := by
  intro h
  exact offRow_ne S ((mem_prepT_row S i i hi hi).1 h) rfl

theorem prepS_noself (S : Pat) (i : Nat) (hi : i < S.n) : i ∉ (prepS S).row i := by
  intro h
  rw [prepS_row S i hi] at h
  exact offRow_ne S h rfl

theorem prepT_TOK (S : Pat) (hsym : SymPat S) : RS.TOK (prepT S) := by
  refine ⟨fun i hi j hj => prepT_row_lt S i j hi hj, ?_⟩
  intro i j hi hj
  have hi' : i < S.n := hi
  have hj' : j < S.n := hj
  rw [mem_prepT_row S i j hi' hj', mem_prepT_row S j i hj' hi']
  exact (hsym i j hi' hj').symm

theorem prep_Sym (S : Pat) (hsym : SymPat S) : RS.Sym (prepS S) (prepT S) S.n := by
  refine ⟨fun i hi j => ?_⟩
  rw [prepS_row S i hi]
  constructor
  · intro h
    have hj := offRow_lt S h
    exact (mem_prepT_row S i j hi hj).2 ((hsym i j hi hj).1 h)
  · intro h
    have hj := prepT_row_lt S i j hi h
    exact (hsym i j hi hj).2 ((mem_prepT_row S i j hi hj).1 h)

/-- **RS, first pass, symmetric pattern** — stated on the model of the public routine: 0/1 flags,
no two strongly connected coarse points, every fine point with a strong connection has a strongly
connected coarse point. -/
theorem rs_first_pass_sym (S : Pat) (hsym : SymPat S) :
    (∀ k, k < S.n → RS.rdI (rsSplit S false) k = 0 ∨ RS.rdI (rsSplit S false) k = 1) ∧
    (∀ i j, i < S.n → j ∈ offRow S i → RS.rdI (rsSplit S false) i = 1 → RS.rdI (rsSplit S false) j ≠ 1) ∧
    (∀ k, k < S.n → RS.rdI (rsSplit S false) k = 0 → offRow S k ≠ [] →
        ∃ c ∈ offRow S k, RS.rdI (rsSplit S false) c = 1) := by
  have hrun : rsSplit S false = RS.run (prepS S) (prepT S) := by simp [rsSplit]
  rw [hrun]
  have hT := prepT_TOK S hsym
  obtain ⟨hfl, hind⟩ := RS.rs_independent (prepS S) (prepT S) rfl hT
  refine ⟨hfl, ?_, ?_⟩
  · intro i j hi hj
    have hjn := offRow_lt S hj
    have hjT : j ∈ (prepT S).row i := (mem_prepT_row S i j hi hjn).2 ((hsym i j hi hjn).1 hj)
    exact hind i j hi hjT (offRow_ne S hj)
  · intro k hk hF hne
    have hdom := RS.rs_dominating' (prepS S) (prepT S) (by show 1 ≤ S.n; omega) rfl (prepS_SOK S) (prepT_SOK S)
      hT (prep_Sym S hsym) k hk hF
    rcases hdom with h0 | ⟨c, hc, hck, hC⟩
    · exfalso
      cases hl : offRow S k with
      | nil => exact hne hl
      | cons j l =>
        have hj : j ∈ offRow S k := by rw [hl]; simp
        have hjn := offRow_lt S hj
        have hjT : j ∈ (prepT S).row k := (mem_prepT_row S k j hk hjn).2 ((hsym k j hk hjn).1 hj)
        exact offRow_ne S hj (h0 j hjT)
    · have hcn := prepT_row_lt S k c hk hc
      exact ⟨c, (hsym k c hk hcn).2 ((mem_prepT_row S k c hk hcn).1 hc), hC⟩

/-! ### Ruge–Stüben on arbitrary (nonsymmetric) patterns: 0/1 flags, C-points are never unmade -/
namespace RSAny
open RS

structure FInv (n : Nat) (sp : Array Int) : Prop where
  size : sp.size = n
  vals : ∀ k, k < n → rdI sp k = U ∨ rdI sp k = F ∨ rdI sp k = C

theorem FInv.noPF {n : Nat} {sp : Array Int} (h : FInv n sp) : ∀ k, rdI sp k ≠ PF := by
  intro k
  by_cases hk : k < n
  · rcases h.vals k hk with e | e | e <;> rw [e] <;> decide
  · have : rdI sp k = 0 := by unfold rdI; simp [Array.getD, h.size, hk]
    rw [this]; decide

theorem step_FInv (S T : Csr) (n : Nat) (hT : SOK T n) (s : St) (top : Nat) (s' : St)
    (h : step S T s top = some s') (hI : FInv n s.sp) :
    FInv n s'.sp ∧ (∀ k, rdI s.sp k = C → rdI s'.sp k = C) ∧
      (rdI s.sp (rdN s.i2n top) = U → rdI s'.sp (rdN s.i2n top) = C) := by
  rw [step_sp S T s top s' h]
  simp only
  by_cases hU : rdI s.sp (rdN s.i2n top) ≠ U
  · rw [if_pos hU]; exact ⟨hI, fun k hk => hk, fun e => absurd e hU⟩
  · rw [if_neg hU]
    have hUe : rdI s.sp (rdN s.i2n top) = U := by simpa using hU
    generalize rdN s.i2n top = i at hUe ⊢
    have hin : i < n := by
      by_cases hin : i < n
      · exact hin
      · exfalso
        have : rdI s.sp i = 0 := by unfold rdI; simp [Array.getD, hI.size, hin]
        rw [this] at hUe; exact absurd hUe (by decide)
    have hi : i < s.sp.size := by rw [hI.size]; exact hin
    have hb : ∀ j ∈ T.row i, j < s.sp.size := by
      intro j hj; rw [hI.size]; exact hT.bound i hin j hj
    obtain ⟨nsz, nsp⟩ := net_effect s.sp i (T.row i) hi hb hI.noPF
    refine ⟨⟨by rw [nsz]; exact hI.size, ?_⟩, ?_, ?_⟩
    · intro k hk; rw [nsp k]
      split
      · exact Or.inr (Or.inr rfl)
      · split
        · exact Or.inr (Or.inl rfl)
        · exact hI.vals k hk
    · intro k hk
      rw [nsp k]
      split
      · rfl
      · rw [if_neg (fun hh => by rw [hk] at hh; exact absurd hh.2 (by decide))]; exact hk
    · intro _; rw [nsp i, if_pos rfl]

theorem go_FInv (S T : Csr) (n : Nat) (hT : SOK T n) : ∀ (fuel top : Nat) (s : St), FInv n s.sp →
    FInv n (run.go S T fuel top s).sp ∧ (∀ k, rdI s.sp k = C → rdI (run.go S T fuel top s).sp k = C) := by
  intro fuel
  induction fuel with
  | zero => intro top s h; exact ⟨by simpa [run.go] using h, fun k hk => by simpa [run.go] using hk⟩
  | succ fuel ih =>
    intro top s h
    simp only [run.go]
    cases hs : step S T s top with
    | none => exact ⟨by simpa using h, fun k hk => by simpa using hk⟩
    | some s' =>
      obtain ⟨h', hk', _⟩ := step_FInv S T n hT s top s' hs h
      simp only
      split
      · exact ⟨h', hk'⟩
      · obtain ⟨h2, hk2⟩ := ih (top - 1) s' h'
        exact ⟨h2, fun k hk => hk2 k (hk' k hk)⟩

theorem init_FInv (S T : Csr) (hST : S.n = T.n) : FInv T.n (init S T).sp :=
  ⟨(init_RInv S T hST).size, (init_RInv S T hST).vals⟩

/-- the final state of the first pass (before the `U → F` clean-up) -/
def fin (S T : Csr) : St := if S.n = 0 then init S T else run.go S T S.n (S.n - 1) (init S T)

theorem run_eq (S T : Csr) : run S T = (fin S T).sp.map (fun v => if v = U then F else v) := by
  unfold run fin; rfl

theorem fin_FInv (S T : Csr) (hST : S.n = T.n) (hT : SOK T T.n) : FInv T.n (fin S T).sp := by
  unfold fin
  split
  · exact init_FInv S T hST
  · exact (go_FInv S T T.n hT _ _ _ (init_FInv S T hST)).1

theorem run_out (S T : Csr) (hST : S.n = T.n) (hT : SOK T T.n) (k : Nat) (hk : k < T.n) :
    rdI (run S T) k = if rdI (fin S T).sp k = U then F else rdI (fin S T).sp k := by
  have hk' : k < (fin S T).sp.size := by rw [(fin_FInv S T hST hT).size]; exact hk
  rw [run_eq]
  simp only [rdI, Array.getD_eq_getD_getElem?, Array.getElem?_map]
  simp [Array.getElem?_eq_getElem hk']

/-- **first pass, any pattern**: one 0/1 flag per node -/
theorem run_flags (S T : Csr) (hST : S.n = T.n) (hT : SOK T T.n) :
    FC T.n (run S T) := by
  refine ⟨by rw [run_eq]; simp [(fin_FInv S T hST hT).size], ?_⟩
  intro k hk
  rw [run_out S T hST hT k hk]
  rcases (fin_FInv S T hST hT).vals k hk with e | e | e
  · rw [e]; simp
  · rw [e]; left; decide
  · rw [e]; right; decide

end RSAny

namespace RSAny
open RS

theorem step_some_of_lam (S T : Csr) (s : St) (top : Nat) (h : rdN s.lam (rdN s.i2n top) ≠ 0) :
    ∃ s', step S T s top = some s' := by
  unfold step
  simp only
  rw [if_neg h]
  split
  · exact ⟨_, rfl⟩
  · exact ⟨_, rfl⟩

theorem row_one (T : Csr) (i : Nat) (h : rdN T.ap (i+1) - rdN T.ap i = 1) :
    T.row i = [rdN T.aj (rdN T.ap i)] := by
  simp [Csr.row, h]

/-- **first pass, any pattern without self loops**: if some node has a dependant, the node visited
first (largest λ) becomes a C-point and stays one. -/
theorem run_has_coarse (S T : Csr) (hST : S.n = T.n) (hT : SOK T T.n)
    (hns : ∀ i, i < T.n → i ∉ T.row i) (j0 : Nat) (hj0 : j0 < T.n) (hrow : T.row j0 ≠ []) :
    ∃ c, c < T.n ∧ rdI (run S T) c = C := by
  have hn : 1 ≤ S.n := by omega
  have B := init_BInv S T
  have hq : S.n - 1 < S.n := by omega
  obtain ⟨hi, _⟩ := B.p1 (S.n - 1) hq
  generalize hidef : rdN (init S T).i2n (S.n - 1) = i at hi
  have hj0' : j0 < S.n := by omega
  obtain ⟨hp, hpj⟩ := B.p2 j0 hj0'
  -- λ of the top node dominates λ of j0
  have hlam : rdN (init S T).lam j0 ≤ rdN (init S T).lam i := by
    by_cases e : rdN (init S T).n2i j0 = S.n - 1
    · rw [e, hidef] at hpj; rw [hpj]; exact Nat.le_refl _
    · have := B.sorted (rdN (init S T).n2i j0) (S.n - 1) (by omega) hq
      unfold lamAt at this
      rw [hpj, hidef] at this; exact this
  have hl0 : 1 ≤ rdN (init S T).lam j0 := by
    rw [init_lam S T j0 hj0', ← row_length]
    cases hr : T.row j0 with
    | nil => exact absurd hr hrow
    | cons a l => simp
  have hli : rdN (init S T).lam i ≠ 0 := by omega
  have hiT : i < T.n := by omega
  have hU : rdI (init S T).sp i = U := by
    rw [init_sp S T i hi, if_neg]
    rintro (h0 | ⟨h1, h2⟩)
    · exact hli h0
    · rw [init_lam S T i hi] at h1
      have := row_one T i h1
      apply hns i hiT
      rw [this, h2]; simp
  obtain ⟨s', hs'⟩ := step_some_of_lam S T (init S T) (S.n - 1) (by rw [hidef]; exact hli)
  obtain ⟨hF', _, hC'⟩ := step_FInv S T T.n hT (init S T) (S.n - 1) s' hs' (init_FInv S T hST)
  rw [hidef] at hC'
  have hCi := hC' hU
  -- the C-point survives the rest of the loop
  have hfin : rdI (fin S T).sp i = C := by
    unfold fin
    rw [if_neg (by omega)]
    obtain ⟨m, hm⟩ : ∃ m, S.n = m + 1 := ⟨S.n - 1, by omega⟩
    rw [hm] at hs' ⊢
    simp only [Nat.add_sub_cancel] at hs' ⊢
    simp only [run.go, hs']
    split
    · exact hCi
    · exact (go_FInv S T T.n hT _ _ _ hF').2 i hCi
  refine ⟨i, hiT, ?_⟩
  rw [run_out S T hST hT i hiT, hfin]; decide

end RSAny

/-! ### `RS(S, second_pass)` for arbitrary patterns -/

theorem prepT_SOK' (S : Pat) : RS.SOK (prepT S) (prepT S).n := prepT_SOK S

theorem rs_first_FC (S : Pat) : RS.FC S.n (RS.run (prepS S) (prepT S)) :=
  RSAny.run_flags (prepS S) (prepT S) rfl (prepT_SOK' S)

theorem pass2_Q (S : Pat) (sp0 : Array Int) (h0 : RS.FC S.n sp0) :
    RS.Q (prepS S) S.n S.n (RS.pass2 (prepS S) sp0) := by
  unfold RS.pass2
  refine PyamgV.foldl_range_inv (fun k sp => RS.Q (prepS S) S.n k sp) _ S.n sp0 ⟨h0, fun r hr => by omega⟩ ?_
  intro k sp hk hp
  exact RS.p2Step_inv (prepS S) S.n (prepS_SOK S) (prepS_noself S) k hk sp hp

/-- **`RS`, both settings of `second_pass`, any pattern**: one 0/1 flag per node -/
theorem rs_flags (S : Pat) (second : Bool) :
    (rsSplit S second).size = S.n ∧
    ∀ k, k < S.n → RS.rdI (rsSplit S second) k = 0 ∨ RS.rdI (rsSplit S second) k = 1 := by
  have h1 := rs_first_FC S
  cases second with
  | false => simp only [rsSplit]; exact ⟨h1.size, h1.vals⟩
  | true =>
    simp only [rsSplit, if_true]
    have := (pass2_Q S _ h1).fc
    exact ⟨this.size, this.vals⟩

/-- **`RS(S, second_pass=True)`, any pattern**: every fine point that strongly depends on some node
strongly depends on a coarse point -/
theorem rs_two_pass_cover (S : Pat) (r : Nat) (hr : r < S.n)
    (hF : RS.rdI (rsSplit S true) r = 0) (hdep : offRow S r ≠ []) :
    ∃ c ∈ offRow S r, RS.rdI (rsSplit S true) c = 1 := by
  simp only [rsSplit, if_true] at hF ⊢
  have := RS.pass2_cover (prepS S) (prepS_SOK S) (prepS_noself S) _ (rs_first_FC S) r hr hF
    (by rw [prepS_row S r hr]; exact hdep)
  rw [prepS_row S r hr] at this
  exact this

/-- **`RS`, any pattern, both settings**: a coarse point is marked whenever some node strongly
depends on another -/
theorem rs_has_coarse (S : Pat) (second : Bool) (i j : Nat) (hi : i < S.n) (hj : j ∈ offRow S i) :
    ∃ c, c < S.n ∧ RS.rdI (rsSplit S second) c = 1 := by
  cases second with
  | true =>
    rcases (rs_flags S true).2 i hi with h0 | h1
    · obtain ⟨c, hc, hC⟩ := rs_two_pass_cover S i hi h0 (by intro e; rw [e] at hj; simp at hj)
      exact ⟨c, offRow_lt S hc, hC⟩
    · exact ⟨i, hi, h1⟩
  | false =>
    simp only [rsSplit]
    have hjn := offRow_lt S hj
    have : (prepT S).row j ≠ [] := by
      intro e
      have := (mem_prepT_row S j i hjn hi).2 hj
      rw [e] at this; simp at this
    exact RSAny.run_has_coarse (prepS S) (prepT S) rfl (prepT_SOK' S) (prepT_noself S) j hjn this

/-! ### `PMIS` / `PMISc` -/
section pmis
variable {W : Type} [LT W] [DecidableRel (α := W) (· < ·)] [DecidableEq W] [Inhabited W]

/-- `i` and `j` are strongly connected in the symmetrised strength graph -/
def Conn (S : Pat) (i j : Nat) : Prop := j ∈ offRow S i ∨ i ∈ offRow S j

theorem mem_symGraph (S : Pat) (i j : Nat) (hi : i < S.n) :
    j ∈ (symGraph S).adj i ↔ j < S.n ∧ Conn S i j := by
  show j ∈ rowFn (symRows S.n (offRows S)) i ↔ _
  unfold symRows
  rw [rowFn_map _ _ _ hi]
  exact mem_symRow S i j hi

theorem Conn.ne {S : Pat} {i j : Nat} (h : Conn S i j) : j ≠ i := by
  rcases h with h | h
  · exact offRow_ne S h
  · exact fun e => offRow_ne S h e.symm

theorem Conn.symm {S : Pat} {i j : Nat} (h : Conn S i j) : Conn S j i := Or.symm h

theorem symGraph_OK (S : Pat) : GraphOK (symGraph S) := by
  refine ⟨fun i hi j hj => ((mem_symGraph S i j hi).1 hj).1, ?_⟩
  intro i j hi hj
  have hi' : i < S.n := hi
  have hj' : j < S.n := hj
  rw [mem_symGraph S i j hi', mem_symGraph S j i hj']
  exact ⟨fun h => ⟨hi', h.2.symm⟩, fun h => ⟨hj', h.2.symm⟩⟩

theorem parIter_inv (G : Graph) (hG : GraphOK G) (act C F : Int)
    (hCA : C ≠ act) (hFA : F ≠ act) (hCF : C ≠ F) (y : Nat → W) :
    ∀ (k : Nat) (x : Array Int), PInv G act C F x → PInv G act C F (parIter G act C F y k x) := by
  intro k
  induction k with
  | zero => intro x h; exact h
  | succ k ih => intro x h; exact ih _ (parPass_inv G hG act C F hCA hFA hCF y x h)

/-- the raw MIS sweep on the symmetrised graph, as `PMISc` returns it -/
theorem pmisc_spec (hW : WOrd W) (S : Pat) (w : Nat → W) :
    (pmisSplit S w false).size = S.n ∧
    (∀ i, i < S.n → rd (pmisSplit S w false) i = 0 ∨ rd (pmisSplit S w false) i = 1) ∧
    (∀ i j, i < S.n → j < S.n → Conn S i j →
        rd (pmisSplit S w false) i = 1 → rd (pmisSplit S w false) j ≠ 1) ∧
    (∀ i, i < S.n → rd (pmisSplit S w false) i = 0 →
        ∃ j, Conn S i j ∧ rd (pmisSplit S w false) j = 1) := by
  have hG := symGraph_OK S
  have hx0 : (Array.replicate S.n (-1 : Int)).size = (symGraph S).n := by simp [symGraph]
  have hact : ∀ i, i < (symGraph S).n → rd (Array.replicate S.n (-1 : Int)) i = -1 := by
    intro i hi
    have hi' : i < S.n := hi
    simp [rd, Array.getD_eq_getD_getElem?, hi']
  have hP0 : PInv (symGraph S) (-1) 1 0 (Array.replicate S.n (-1 : Int)) :=
    ⟨hx0, fun i hi => Or.inl (hact i hi),
     fun i hi h => by rw [hact i hi] at h; exact absurd h (by decide),
     fun j hj h => by rw [hact j hj] at h; exact absurd h (by decide)⟩
  have hsz := (parIter_inv (symGraph S) hG (-1) 1 0 (by decide) (by decide) (by decide) w S.n _ hP0).size
  obtain ⟨hind, hmax⟩ := misParallel_total hW (symGraph S) hG (-1) 1 0 (by decide) (by decide) (by decide)
    w _ hx0 hact
  have hn : (symGraph S).n = S.n := rfl
  simp only [hn] at hind hmax
  have hrun : pmisSplit S w false
      = parIter (symGraph S) (-1) 1 0 w S.n (Array.replicate S.n (-1)) := by simp [pmisSplit]
  rw [hrun]
  refine ⟨hsz, ?_, ?_, ?_⟩
  · intro i hi
    rcases hmax i hi with h | ⟨h, _⟩
    · exact Or.inr h
    · exact Or.inl h
  · intro i j hi hjn hc
    exact hind i j hi ((mem_symGraph S i j hi).2 ⟨hjn, hc⟩) hc.ne
  · intro i hi h0
    rcases hmax i hi with h | ⟨_, j, hj, _, hC⟩
    · rw [h] at h0; exact absurd h0 (by decide)
    · exact ⟨j, ((mem_symGraph S i j hi).1 hj).2, hC⟩

end pmis

section pmis2
variable {W : Type} [LT W] [DecidableRel (α := W) (· < ·)] [DecidableEq W] [Inhabited W]

theorem rd_setDirichlet (S : Pat) (x : Array Int) (i : Nat) (hi : i < S.n) :
    rd (setDirichlet S x) i = if ((symGraph S).adj i).isEmpty then 0 else rd x i := by
  simp [setDirichlet, rd, Array.getD_eq_getD_getElem?, hi]

theorem pmis_eq (S : Pat) (w : Nat → W) :
    pmisSplit S w true = setDirichlet S (pmisSplit S w false) := by simp [pmisSplit]

/-- `PMIS`: the MIS sweep followed by `_set_dirichlet` -/
theorem pmis_spec (hW : WOrd W) (S : Pat) (w : Nat → W) :
    (pmisSplit S w true).size = S.n ∧
    (∀ i, i < S.n → rd (pmisSplit S w true) i = 0 ∨ rd (pmisSplit S w true) i = 1) ∧
    (∀ i j, i < S.n → j < S.n → Conn S i j →
        rd (pmisSplit S w true) i = 1 → rd (pmisSplit S w true) j ≠ 1) ∧
    (∀ i j, i < S.n → j < S.n → Conn S i j → rd (pmisSplit S w true) i = 0 →
        ∃ c, Conn S i c ∧ rd (pmisSplit S w true) c = 1) := by
  obtain ⟨_, hfl, hind, hdom⟩ := pmisc_spec hW S w
  rw [pmis_eq]
  refine ⟨by simp [setDirichlet], ?_, ?_, ?_⟩
  · intro i hi
    rw [rd_setDirichlet S _ i hi]
    split
    · exact Or.inl rfl
    · exact hfl i hi
  · intro i j hi hj hc h1
    rw [rd_setDirichlet S _ i hi] at h1
    rw [rd_setDirichlet S _ j hj]
    split at h1
    · exact absurd h1 (by decide)
    · split
      · decide
      · exact hind i j hi hj hc h1
  · intro i j hi hj hc h0
    have hne : ((symGraph S).adj i).isEmpty = false := by
      have : j ∈ (symGraph S).adj i := (mem_symGraph S i j hi).2 ⟨hj, hc⟩
      cases h : (symGraph S).adj i with
      | nil => rw [h] at this; simp at this
      | cons a l => rfl
    rw [rd_setDirichlet S _ i hi, hne] at h0
    simp only [Bool.false_eq_true, if_false] at h0
    obtain ⟨c, hcc, hC⟩ := hdom i hi h0
    have hcn : c < S.n := by
      rcases hcc with h | h
      · exact offRow_lt S h
      · by_cases hcn : c < S.n
        · exact hcn
        · exfalso
          -- `rd x c = 1` forces `c` inside the array
          have hsz := (pmisc_spec hW S w).1
          have : rd (pmisSplit S w false) c = 0 := by
            unfold rd; simp [Array.getD, hsz, hcn]
          rw [this] at hC; exact absurd hC (by decide)
    refine ⟨c, hcc, ?_⟩
    have hne' : ((symGraph S).adj c).isEmpty = false := by
      have : i ∈ (symGraph S).adj c := (mem_symGraph S c i hcn).2 ⟨hi, hcc.symm⟩
      cases h : (symGraph S).adj c with
      | nil => rw [h] at this; simp at this
      | cons a l => rfl
    rw [rd_setDirichlet S _ c hcn, hne']
    simpa using hC

/-- `PMIS` and `PMISc`: a coarse point whenever some node strongly depends on another -/
theorem pmis_has_coarse (hW : WOrd W) (S : Pat) (w : Nat → W) (dirichlet : Bool) (i j : Nat) (hi : i < S.n)
    (hj : j ∈ offRow S i) : ∃ c, rd (pmisSplit S w dirichlet) c = 1 := by
  have hjn := offRow_lt S hj
  have hc : Conn S i j := Or.inl hj
  cases dirichlet with
  | true =>
    obtain ⟨_, hfl, _, hdom⟩ := pmis_spec hW S w
    rcases hfl i hi with h0 | h1
    · obtain ⟨c, _, hC⟩ := hdom i j hi hjn hc h0; exact ⟨c, hC⟩
    · exact ⟨i, h1⟩
  | false =>
    obtain ⟨_, hfl, _, hdom⟩ := pmisc_spec hW S w
    rcases hfl i hi with h0 | h1
    · obtain ⟨c, _, hC⟩ := hdom i hi h0; exact ⟨c, hC⟩
    · exact ⟨i, h1⟩

end pmis2


/-! ### `CLJP` / `CLJPc` -/
section cljp
open KCljp

theorem rowPos_snd (S : RS.Csr) (i : Nat) : ((toK S).rowPos i).map (·.2) = S.row i := by
  simp [KCljp.Csr.rowPos, RS.Csr.row, toK, KCljp.rdN, RS.rdN, List.map_map, Function.comp_def]

theorem rowPos_mem (S : RS.Csr) (i : Nat) (pm : Nat × Nat) (h : pm ∈ (toK S).rowPos i) : pm.2 ∈ S.row i := by
  rw [← rowPos_snd]; exact List.mem_map.2 ⟨pm, h, rfl⟩

theorem rowPos_of_mem (S : RS.Csr) (i j : Nat) (h : j ∈ S.row i) : ∃ pos, (pos, j) ∈ (toK S).rowPos i := by
  rw [← rowPos_snd] at h
  obtain ⟨pm, hpm, e⟩ := List.mem_map.1 h
  exact ⟨pm.1, by rw [← e]; exact hpm⟩

theorem ofRows_mono (n : Nat) (f : Nat → List Nat) : ApMono (toK (ofRows n f)) := by
  refine ⟨fun i hi => ?_⟩
  have hi' : i < n := hi
  show RS.rdN (ofRows n f).ap i ≤ RS.rdN (ofRows n f).ap (i+1)
  rw [ofRows_ap n f i (by omega), ofRows_ap n f (i+1) (by omega)]
  exact offs_mono f (by omega)

theorem prep_KSOK (S : Pat) : KCljp.SOK (toK (prepS S)) (toK (prepT S)) := by
  have hm : ApMono (toK (prepS S)) := ofRows_mono _ _
  refine ⟨?_, ?_, posInj_of_mono hm, posLt_of_mono hm, nodup_of_mono hm, rfl, ?_, ?_⟩
  · intro e he
    obtain ⟨h1, h2⟩ := allE_row he
    have h1' : e.1 < S.n := h1
    have := rowPos_mem (prepS S) e.1 _ h2
    rw [prepS_row S e.1 h1'] at this
    exact offRow_lt S this
  · intro e he
    obtain ⟨h1, h2⟩ := allE_row he
    have h1' : e.1 < S.n := h1
    have := rowPos_mem (prepS S) e.1 _ h2
    rw [prepS_row S e.1 h1'] at this
    exact fun e' => offRow_ne S this e'.symm
  · intro c hc pj hpj
    have hc' : c < S.n := hc
    exact prepT_row_lt S c pj.2 hc' (rowPos_mem (prepT S) c pj hpj)
  · intro c hc pj hpj
    have hc' : c < S.n := hc
    have hm := rowPos_mem (prepT S) c pj hpj
    have hjn := prepT_row_lt S c pj.2 hc' hm
    have := (mem_prepT_row S c pj.2 hc' hjn).1 hm
    rw [← prepS_row S pj.2 hjn] at this
    exact rowPos_of_mem (prepS S) pj.2 c this

variable {V : Type} [Inhabited V]

theorem cljpSplit_eq (o : WOps V) (S : Pat) (w0 : Array V) :
    cljpSplit o S w0 =
      ((run.go o (toK (prepS S)) (toK (prepT S)) (S.n + 1) (initState o (toK (prepS S)) w0)).1.split.map
          (fun v => if v = UN then FN else v),
       (run.go o (toK (prepS S)) (toK (prepT S)) (S.n + 1) (initState o (toK (prepS S)) w0)).2) := rfl

/-- **`CLJP` / `CLJPc`** on the model of the public routine, for every weight type obeying the
weight laws and every initial weights `≥ 0` (random numbers or colour fractions): if the selection
loop exits within `n + 1` passes, the result has one 0/1 flag per node and every fine point that
strongly depends on some node strongly depends on a coarse point. -/
theorem cljp_spec (o : WOps V) {ge : V → Nat → Prop} (hL : WLaw o ge) (S : Pat) (w0 : Array V)
    (hw : w0.size = S.n) (h0 : ∀ m, m < S.n → ge (rdW w0 m) 0) (hexit : (cljpSplit o S w0).2 = true) :
    (cljpSplit o S w0).1.size = S.n ∧
    (∀ k, k < S.n → KCljp.rdI (cljpSplit o S w0).1 k = 0 ∨ KCljp.rdI (cljpSplit o S w0).1 k = 1) ∧
    (∀ k, k < S.n → KCljp.rdI (cljpSplit o S w0).1 k = 0 → offRow S k ≠ [] →
        ∃ c ∈ offRow S k, KCljp.rdI (cljpSplit o S w0).1 c = 1) := by
  have hS := prep_KSOK S
  rw [cljpSplit_eq] at hexit ⊢
  simp only at hexit ⊢
  obtain ⟨hC, hex⟩ := passes_cnt hS o (S.n + 1) _ (init_cnt o (toK (prepS S)) w0)
  have hle := hex hexit
  generalize hfin : run.go o (toK (prepS S)) (toK (prepT S)) (S.n + 1) (initState o (toK (prepS S)) w0) = r
    at hC hle hexit
  have hsz : r.1.split.size = S.n := hC.ssz
  -- no undecided node is left
  have hdone : ∀ v, v < S.n → KCljp.rdI r.1.split v = CN ∨ KCljp.rdI r.1.split v = FN := by
    intro v hv
    rcases hC.vals v hv with h | h | h
    · exfalso
      have hpos : 1 ≤ nU (toK (prepS S)).n r.1.split := by
        unfold nU
        apply List.countP_pos_iff.2
        exact ⟨v, List.mem_range.2 hv, by simpa using h⟩
      have := hC.ucnt
      omega
    · exact Or.inl h
    · exact Or.inr h
  have hout : ∀ k, k < S.n → KCljp.rdI (r.1.split.map (fun v => if v = UN then FN else v)) k
      = KCljp.rdI r.1.split k := by
    intro k hk
    have hk' : k < r.1.split.size := by rw [hsz]; exact hk
    simp only [KCljp.rdI, Array.getD_eq_getD_getElem?, Array.getElem?_map]
    simp only [Array.getElem?_eq_getElem hk', Option.map_some, Option.getD_some]
    have := hdone k hk
    simp only [KCljp.rdI, Array.getD_eq_getD_getElem?, Array.getElem?_eq_getElem hk', Option.getD_some] at this
    rcases this with e | e <;> rw [e] <;> decide
  refine ⟨by simp [hsz], ?_, ?_⟩
  · intro k hk
    rw [hout k hk]
    rcases hdone k hk with e | e
    · exact Or.inr e
    · exact Or.inl e
  · intro k hk hF hdep
    rw [hout k hk] at hF
    cases hl : offRow S k with
    | nil => exact absurd hl hdep
    | cons j l =>
      have hj : j ∈ (prepS S).row k := by rw [prepS_row S k hk, hl]; simp
      obtain ⟨pos, hpos⟩ := rowPos_of_mem (prepS S) k j hj
      have := cljp_model_cover' hS hL w0 hw h0 (S.n + 1) (by rw [hfin]; exact hexit) k hk
        (by rw [hfin]; exact hF) (pos, j) hpos
      rw [hfin] at this
      obtain ⟨pc, hpc, hCc⟩ := this
      have hmem := rowPos_mem (prepS S) k pc hpc
      rw [prepS_row S k hk] at hmem
      refine ⟨pc.2, by rw [← hl]; exact hmem, ?_⟩
      rw [hout pc.2 (offRow_lt S hmem)]; exact hCc

/-- a coarse point whenever some node strongly depends on another -/
theorem cljp_has_coarse (o : WOps V) {ge : V → Nat → Prop} (hL : WLaw o ge) (S : Pat) (w0 : Array V)
    (hw : w0.size = S.n) (h0 : ∀ m, m < S.n → ge (rdW w0 m) 0) (hexit : (cljpSplit o S w0).2 = true)
    (i j : Nat) (hi : i < S.n) (hj : j ∈ offRow S i) :
    ∃ c, c < S.n ∧ KCljp.rdI (cljpSplit o S w0).1 c = 1 := by
  obtain ⟨_, hfl, hcov⟩ := cljp_spec o hL S w0 hw h0 hexit
  rcases hfl i hi with e | e
  · obtain ⟨c, hc, hC⟩ := hcov i hi e (by intro e'; rw [e'] at hj; simp at hj)
    exact ⟨c, offRow_lt S hc, hC⟩
  · exact ⟨i, hi, e⟩

end cljp
end PyamgV.C13
