import PyamgV.Proofs.ExtC17R5Bucket

/-! PyamgV (C17, extension E46, round 5): `center_nodes` never leaves its arrays, part 2 -- Floyd–Warshall on one cluster
(`BalLloyd.fwRun`, the model of `floyd_warshall` after the two `std::fill`s of `center_nodes`).

* `FwOK`: `D`, `P` hold `N × N` entries and **`D[ij]` finite → `P[ij]` is a node** (`0 ≤ P[ij] < n`): kept by the edge loop, the
  diagonal loop and every relaxation (`P[ij] = P[kj]` is only executed when `D[kj]` is finite);
* reachability: after round `k` of the triple loop every pair joined by a walk through intermediate local indices `< k` has a finite
  distance (`Rk`, `lwalk_rk`: the classical Floyd–Warshall induction, on finiteness only -- the tolerance test
  `D[ij] > D[ik] + D[kj] + tol` always fires when `D[ij] = inf` and the sum is finite);
* `fwRun_ok`: on ANY cluster the run makes no out-of-bounds access and reads no uninitialised `L` entry; pairs joined by a walk
  inside the cluster end finite; `fwRun_connected`: on a cluster that is strongly connected through stored entries (`CWalk`; the
  assumption stated in the kernel's doc string) ALL `N × N` distances end finite.
Core Lean + E34's files. -/
namespace PyamgV.C17R5
open PyamgV.Bal PyamgV.BalLloyd

/-! ### walks -/

/-- a walk along `E` whose intermediate nodes are all `< B` -/
inductive LWalk (E : Nat → Nat → Prop) (B : Nat) : Nat → Nat → Prop
  | edge {i j : Nat} : E i j → LWalk E B i j
  | cons {i m j : Nat} : E i m → m < B → LWalk E B m j → LWalk E B i j

/-- what `k` rounds of Floyd–Warshall have discovered -/
def Rk (E : Nat → Nat → Prop) : Nat → Nat → Nat → Prop
  | 0, i, j => E i j
  | k+1, i, j => Rk E k i j ∨ (Rk E k i k ∧ Rk E k k j)

theorem lwalk_split {E : Nat → Nat → Prop} {k i j : Nat} (h : LWalk E (k+1) i j) :
    LWalk E k i j ∨ (LWalk E k i k ∧ LWalk E k k j) := by
  induction h with
  | edge he => exact Or.inl (LWalk.edge he)
  | @cons i m j he hm _ ih =>
    by_cases hmk : m = k
    · subst hmk
      rcases ih with h1 | ⟨_, h2⟩
      · exact Or.inr ⟨LWalk.edge he, h1⟩
      · exact Or.inr ⟨LWalk.edge he, h2⟩
    · have hm' : m < k := by omega
      rcases ih with h1 | ⟨h1, h2⟩
      · exact Or.inl (LWalk.cons he hm' h1)
      · exact Or.inr ⟨LWalk.cons he hm' h1, h2⟩

theorem lwalk_rk {E : Nat → Nat → Prop} : ∀ (k i j : Nat), LWalk E k i j → Rk E k i j := by
  intro k
  induction k with
  | zero =>
    intro i j h
    cases h with
    | edge he => exact he
    | cons _ hm _ => omega
  | succ k ih =>
    intro i j h
    rcases lwalk_split h with h1 | ⟨h1, h2⟩
    · exact Or.inl (ih i j h1)
    · exact Or.inr ⟨ih i k h1, ih k j h2⟩

/-- stored entry `(u, v)` -/
def Stored (A : Csr) (u v : Nat) : Prop := ∃ jj ∈ A.jjs u, rdN A.aj jj = v

/-- `v` is reached from `u` along stored entries through nodes of the cluster of `u` -/
inductive CWalk (A : Csr) (m : Array Int) : Nat → Nat → Prop
  | refl (u : Nat) : CWalk A m u u
  | cons {u v w : Nat} : Stored A u v → v < A.n → rdI m v = rdI m u → CWalk A m v w → CWalk A m u w

/-! ### the arrays `D`, `P` -/

/-- `D[p]` is finite -/
def Fin (fw : FW) (p : Nat) : Prop := ∃ x, rdO fw.D p = some x

def FinLe (fw fw' : FW) : Prop := ∀ p, Fin fw p → Fin fw' p

theorem FinLe.refl (fw : FW) : FinLe fw fw := fun _ h => h
theorem FinLe.trans {a b c : FW} (h1 : FinLe a b) (h2 : FinLe b c) : FinLe a c := fun p h => h2 p (h1 p h)

structure FwOK (N n : Nat) (fw : FW) : Prop where
  dsz : N * N ≤ fw.D.size
  psz : N * N ≤ fw.P.size
  finP : ∀ p, p < N * N → Fin fw p → 0 ≤ rdI fw.P p ∧ rdI fw.P p < (n : Int)

theorem idx2_lt {N i j : Nat} (hi : i < N) (hj : j < N) : i * N + j < N * N := by
  have := Nat.mul_le_mul_right N (show i + 1 ≤ N by omega)
  rw [Nat.succ_mul] at this
  omega

/-- a write of a finite distance together with a node as predecessor -/
theorem write_ok {N n : Nat} {fw : FW} (h : FwOK N n fw) {q : Nat} (hq : q < N * N) (v : Rat) {pv : Int}
    (hpv : 0 ≤ pv ∧ pv < (n : Int)) :
    FwOK N n ⟨wrO fw.D q (some v), wrI fw.P q pv⟩ ∧ FinLe fw ⟨wrO fw.D q (some v), wrI fw.P q pv⟩ ∧
      Fin ⟨wrO fw.D q (some v), wrI fw.P q pv⟩ q := by
  have hqd : q < fw.D.size := by have := h.dsz; omega
  have hqp : q < fw.P.size := by have := h.psz; omega
  refine ⟨⟨by rw [size_wrO]; exact h.dsz, by rw [size_wrI]; exact h.psz, ?_⟩, ?_, ?_⟩
  · intro p hp hfin
    show 0 ≤ rdI (wrI fw.P q pv) p ∧ rdI (wrI fw.P q pv) p < (n : Int)
    rw [rdI_wrI]
    by_cases hqp' : q = p
    · rw [if_pos ⟨hqp', hqp⟩]; exact hpv
    · rw [if_neg (fun hh => hqp' hh.1)]
      apply h.finP p hp
      obtain ⟨x, hx⟩ := hfin
      have hx' : rdO (wrO fw.D q (some v)) p = some x := hx
      rw [rdO_wrO, if_neg (fun hh => hqp' hh.1)] at hx'
      exact ⟨x, hx'⟩
  · intro p ⟨x, hx⟩
    show ∃ x', rdO (wrO fw.D q (some v)) p = some x'
    rw [rdO_wrO]
    by_cases hqp' : q = p ∧ q < fw.D.size
    · rw [if_pos hqp']; exact ⟨v, rfl⟩
    · rw [if_neg hqp']; exact ⟨x, hx⟩
  · show ∃ x', rdO (wrO fw.D q (some v)) q = some x'
    rw [rdO_wrO, if_pos ⟨rfl, hqd⟩]; exact ⟨v, rfl⟩

/-! ### a fold that cannot fail, with per-element facts that survive the later steps -/

theorem foldlM_list_all {α β : Type} (f : β → α → Option β) (P : β → Prop) (Q : α → β → Prop) :
    ∀ (l : List α) (b : β), P b →
      (∀ x ∈ l, ∀ b, P b → ∃ b', f b x = some b' ∧ P b' ∧ Q x b') →
      (∀ z y b b', y ∈ l → P b → f b y = some b' → Q z b → Q z b') →
      ∃ r, l.foldlM f b = some r ∧ P r ∧ (∀ x ∈ l, Q x r) ∧ (∀ z, Q z b → Q z r) := by
  intro l
  induction l with
  | nil => intro b hb _ _; exact ⟨b, rfl, hb, fun x hx => (by cases hx), fun _ h => h⟩
  | cons x xs ih =>
    intro b hb hstep hstab
    obtain ⟨b1, h1, hb1, hq1⟩ := hstep x (by simp) b hb
    obtain ⟨r, hr, hP, hall, hkeep⟩ := ih b1 hb1 (fun y hy => hstep y (by simp [hy]))
      (fun z y c c' hy => hstab z y c c' (by simp [hy]))
    refine ⟨r, ?_, hP, ?_, ?_⟩
    · rw [List.foldlM_cons, h1]; exact hr
    · intro y hy
      rcases List.mem_cons.1 hy with e | e
      · rw [e]; exact hkeep x hq1
      · exact hall y e
    · intro z hz
      exact hkeep z (hstab z x b b1 (by simp) hb h1 hz)

/-! ### the edge loop and the diagonal loop -/

section init
variable {A : Csr} {glob : Nat → Option Nat} {l : OArr} {m : Array Int} {a : Int} {N : Nat}

/-- what the loops need of the bucket of cluster `a`: slots hold members, members have their slot in `L` -/
structure Local (A : Csr) (glob : Nat → Option Nat) (l : OArr) (m : Array Int) (a : Int) (N : Nat) : Prop where
  slot : ∀ t, t < N → ∃ g, glob t = some g ∧ g < A.n ∧ rdI m g = a
  back : ∀ g, g < A.n → rdI m g = a → ∃ t, t < N ∧ rdU l g = some t ∧ glob t = some g
  cols : ∀ i, i < A.n → ∀ jj ∈ A.jjs i, rdN A.aj jj < A.n

theorem fwEdge_ok (hL : Local A glob l m a N) {_i i : Nat} (h_i : _i < N) (hi : i < A.n) {fw : FW} (h : FwOK N A.n fw)
    {jj : Nat} (hjj : jj ∈ A.jjs i) :
    ∃ fw', fwEdge A l m a N _i i fw jj = some fw' ∧ (FwOK N A.n fw' ∧ FinLe fw fw') ∧
      (rdI m (rdN A.aj jj) = a → ∀ t, rdU l (rdN A.aj jj) = some t → Fin fw' (_i * N + t)) := by
  unfold fwEdge
  simp only
  by_cases hm : rdI m (rdN A.aj jj) = a
  · rw [if_pos hm]
    obtain ⟨t, ht, hlt, _⟩ := hL.back _ (hL.cols i hi jj hjj) hm
    rw [hlt]
    simp only
    have hq := idx2_lt h_i ht
    rw [if_pos ⟨by have := h.dsz; omega, by have := h.psz; omega⟩]
    obtain ⟨w1, w2, w3⟩ := write_ok h hq (rdQ A.ax jj) (pv := Int.ofNat i)
      ⟨Int.natCast_nonneg i, by show (i : Int) < (A.n : Int); omega⟩
    refine ⟨_, rfl, ⟨w1, w2⟩, fun _ t' ht' => ?_⟩
    injection ht' with ht'
    rw [← ht']; exact w3
  · rw [if_neg hm]
    exact ⟨fw, rfl, ⟨h, FinLe.refl fw⟩, fun hh => absurd hh hm⟩

/-- the first loop of `floyd_warshall`: no fault; every stored entry inside the cluster has left a finite distance -/
theorem fwEdges_ok (hL : Local A glob l m a N) {fw : FW} (h : FwOK N A.n fw) :
    ∃ fw1, fwEdges A glob l m a N fw = some fw1 ∧ FwOK N A.n fw1 ∧ FinLe fw fw1 ∧
      ∀ _i, _i < N → ∀ g, glob _i = some g → ∀ jj ∈ A.jjs g, rdI m (rdN A.aj jj) = a →
        ∀ t, rdU l (rdN A.aj jj) = some t → Fin fw1 (_i * N + t) := by
  unfold fwEdges
  have key := foldlM_list_all
    (fun fw _i => match glob _i with
      | none => none
      | some i => if i < A.n then (A.jjs i).foldlM (fwEdge A l m a N _i i) fw else none)
    (fun b => FwOK N A.n b ∧ FinLe fw b)
    (fun _i b => ∀ g, glob _i = some g → ∀ jj ∈ A.jjs g, rdI m (rdN A.aj jj) = a →
        ∀ t, rdU l (rdN A.aj jj) = some t → Fin b (_i * N + t))
    (List.range N) fw ⟨h, FinLe.refl fw⟩ ?_ ?_
  · obtain ⟨r, hr, hP, hall, _⟩ := key
    exact ⟨r, hr, hP.1, hP.2, fun _i h_i => hall _i (List.mem_range.2 h_i)⟩
  · intro _i h_i b hb
    have h_i' : _i < N := List.mem_range.1 h_i
    obtain ⟨g, hg, hgn, _⟩ := hL.slot _i h_i'
    simp only [hg]
    rw [if_pos hgn]
    obtain ⟨r2, hr2, hP2, hall2, _⟩ := foldlM_list_all (fwEdge A l m a N _i g)
      (fun c => FwOK N A.n c ∧ FinLe b c)
      (fun jj c => rdI m (rdN A.aj jj) = a → ∀ t, rdU l (rdN A.aj jj) = some t → Fin c (_i * N + t))
      (A.jjs g) b ⟨hb.1, FinLe.refl b⟩
      (by
        intro jj hjj c hc
        obtain ⟨c', e, hc', hq⟩ := fwEdge_ok hL h_i' hgn hc.1 hjj
        exact ⟨c', e, ⟨hc'.1, hc.2.trans hc'.2⟩, hq⟩)
      (by
        intro z y c c' hy hc e hz hm t ht
        obtain ⟨c'', e', hc'', _⟩ := fwEdge_ok hL h_i' hgn hc.1 hy
        rw [e] at e'
        injection e' with e'
        subst e'
        exact hc''.2 _ (hz hm t ht))
    refine ⟨r2, hr2, ⟨hP2.1, hb.2.trans hP2.2⟩, ?_⟩
    intro g' hg'
    injection hg' with hg'
    subst hg'
    exact hall2
  · intro z y b b' hy hb e hz g hg jj hjj hm t ht
    have hy' : y < N := List.mem_range.1 hy
    obtain ⟨g2, hg2, hgn2, _⟩ := hL.slot y hy'
    simp only [hg2] at e
    rw [if_pos hgn2] at e
    obtain ⟨r2, hr2, hP2, _, _⟩ := foldlM_list_all (fwEdge A l m a N y g2)
      (fun c => FwOK N A.n c ∧ FinLe b c) (fun _ _ => True)
      (A.jjs g2) b ⟨hb.1, FinLe.refl b⟩
      (by
        intro jj2 hjj2 c hc
        obtain ⟨c', e2, hc', _⟩ := fwEdge_ok hL hy' hgn2 hc.1 hjj2
        exact ⟨c', e2, ⟨hc'.1, hc.2.trans hc'.2⟩, trivial⟩)
      (fun _ _ _ _ _ _ _ _ => trivial)
    rw [e] at hr2
    injection hr2 with hr2
    subst hr2
    exact hP2.2 _ (hz g hg jj hjj hm t ht)

/-- the second loop: no fault; the diagonal is finite -/
theorem fwDiag_ok (hL : Local A glob l m a N) {fw : FW} (h : FwOK N A.n fw) :
    ∃ fw2, fwDiag glob N fw = some fw2 ∧ FwOK N A.n fw2 ∧ FinLe fw fw2 ∧ ∀ t, t < N → Fin fw2 (t * N + t) := by
  unfold fwDiag
  have key := foldlM_list_all
    (fun fw _i => match glob _i with
      | none => none
      | some i =>
        if _i * N + _i < fw.D.size ∧ _i * N + _i < fw.P.size then
          some ⟨wrO fw.D (_i * N + _i) (some 0), wrI fw.P (_i * N + _i) (Int.ofNat i)⟩
        else none)
    (fun b => FwOK N A.n b ∧ FinLe fw b)
    (fun _i b => Fin b (_i * N + _i))
    (List.range N) fw ⟨h, FinLe.refl fw⟩ ?_ ?_
  · obtain ⟨r, hr, hP, hall, _⟩ := key
    exact ⟨r, hr, hP.1, hP.2, fun t ht => hall t (List.mem_range.2 ht)⟩
  · intro _i h_i b hb
    have h_i' : _i < N := List.mem_range.1 h_i
    obtain ⟨g, hg, hgn, _⟩ := hL.slot _i h_i'
    simp only [hg]
    have hq := idx2_lt h_i' h_i'
    rw [if_pos ⟨by have := hb.1.dsz; omega, by have := hb.1.psz; omega⟩]
    obtain ⟨w1, w2, w3⟩ := write_ok hb.1 hq 0 (pv := Int.ofNat g)
      ⟨Int.natCast_nonneg g, by show (g : Int) < (A.n : Int); omega⟩
    exact ⟨_, rfl, ⟨w1, hb.2.trans w2⟩, w3⟩
  · intro z y b b' hy hb e hz
    have hy' : y < N := List.mem_range.1 hy
    obtain ⟨g, hg, hgn, _⟩ := hL.slot y hy'
    simp only [hg] at e
    have hq := idx2_lt hy' hy'
    rw [if_pos ⟨by have := hb.1.dsz; omega, by have := hb.1.psz; omega⟩] at e
    injection e with e
    subst e
    exact (write_ok hb.1 hq 0 (pv := Int.ofNat g)
      ⟨Int.natCast_nonneg g, by show (g : Int) < (A.n : Int); omega⟩).2.1 _ hz

end init

/-! ### the triple loop -/

theorem gtTol_none_some (tol : Rat) (s : Rat) : gtTol tol none (some s) = true := rfl

/-- one relaxation: sizes and "finite → node" are kept, finite entries stay finite, and `D[ij]` is finite afterwards when `D[ik]`
and `D[kj]` are -/
theorem fwRelax_ok {tol : Rat} {N n k i j : Nat} (hk : k < N) (hi : i < N) (hj : j < N) {fw : FW} (h : FwOK N n fw) :
    FwOK N n (fwRelax tol N k i fw j) ∧ FinLe fw (fwRelax tol N k i fw j) ∧
      (Fin fw (i * N + k) → Fin fw (k * N + j) → Fin (fwRelax tol N k i fw j) (i * N + j)) := by
  unfold fwRelax
  simp only
  by_cases hg : gtTol tol (rdO fw.D (i * N + j)) (addO (rdO fw.D (i * N + k)) (rdO fw.D (k * N + j))) = true
  · rw [if_pos hg]
    -- the sum is finite, otherwise the comparison is false
    cases hik : rdO fw.D (i * N + k) with
    | none => rw [hik] at hg; cases hd : rdO fw.D (i * N + j) <;> rw [hd] at hg <;> simp [addO, gtTol] at hg
    | some x =>
      cases hkj : rdO fw.D (k * N + j) with
      | none => rw [hik, hkj] at hg; cases hd : rdO fw.D (i * N + j) <;> rw [hd] at hg <;> simp [addO, gtTol] at hg
      | some y =>
        simp only [addO]
        obtain ⟨w1, w2, w3⟩ := write_ok h (idx2_lt hi hj) (x + y) (pv := rdI fw.P (k * N + j))
          (h.finP _ (idx2_lt hk hj) ⟨y, hkj⟩)
        exact ⟨w1, w2, fun _ _ => w3⟩
  · rw [if_neg hg]
    refine ⟨h, FinLe.refl fw, ?_⟩
    rintro ⟨x, hx⟩ ⟨y, hy⟩
    cases hd : rdO fw.D (i * N + j) with
    | some z => exact ⟨z, hd⟩
    | none =>
      exfalso
      rw [hx, hy, hd] at hg
      exact hg rfl

/-- one round `k` of the triple loop -/
theorem fwRound_ok {tol : Rat} {N n k : Nat} (hk : k < N) {fw : FW} (h : FwOK N n fw) :
    FwOK N n ((List.range N).foldl (fun fw i => (List.range N).foldl (fwRelax tol N k i) fw) fw) ∧
    FinLe fw ((List.range N).foldl (fun fw i => (List.range N).foldl (fwRelax tol N k i) fw) fw) ∧
    ∀ i j, i < N → j < N → Fin fw (i * N + k) → Fin fw (k * N + j) →
      Fin ((List.range N).foldl (fun fw i => (List.range N).foldl (fwRelax tol N k i) fw) fw) (i * N + j) := by
  have key := foldl_range_inv (fun fw i => (List.range N).foldl (fwRelax tol N k i) fw)
    (fun I (b : FW) => FwOK N n b ∧ FinLe fw b ∧
      ∀ i j, i < I → j < N → Fin fw (i * N + k) → Fin fw (k * N + j) → Fin b (i * N + j))
    N fw ⟨h, FinLe.refl fw, fun i j hi => by omega⟩ (by
      intro i b hi ⟨b1, b2, b3⟩
      have key2 := foldl_range_inv (fwRelax tol N k i)
        (fun J (c : FW) => FwOK N n c ∧ FinLe b c ∧
          ∀ j, j < J → Fin fw (i * N + k) → Fin fw (k * N + j) → Fin c (i * N + j))
        N b ⟨b1, FinLe.refl b, fun j hj => by omega⟩ (by
          intro j c hj ⟨c1, c2, c3⟩
          obtain ⟨r1, r2, r3⟩ := fwRelax_ok (tol := tol) hk hi hj c1
          refine ⟨r1, c2.trans r2, fun j' hj' f1 f2 => ?_⟩
          by_cases hjj : j' = j
          · subst hjj
            exact r3 (c2 _ (b2 _ f1)) (c2 _ (b2 _ f2))
          · exact r2 _ (c3 j' (by omega) f1 f2))
      obtain ⟨k1, k2, k3⟩ := key2
      refine ⟨k1, b2.trans k2, fun i' j hi' hj f1 f2 => ?_⟩
      by_cases hii : i' = i
      · subst hii; exact k3 j hj f1 f2
      · exact k2 _ (b3 i' j (by omega) hj f1 f2))
  exact ⟨key.1, key.2.1, fun i j hi hj => key.2.2 i j hi hj⟩

/-- the triple loop: everything `N` rounds of Floyd–Warshall discover from the initial finite entries is finite at the end -/
theorem fwMain_ok {tol : Rat} {N n : Nat} {fw : FW} (h : FwOK N n fw) :
    FwOK N n (fwMain tol N fw) ∧
      ∀ i j, i < N → j < N → Rk (fun i j => Fin fw (i * N + j)) N i j → Fin (fwMain tol N fw) (i * N + j) := by
  unfold fwMain
  have key := foldl_range_inv
    (fun fw k => (List.range N).foldl (fun fw i => (List.range N).foldl (fwRelax tol N k i) fw) fw)
    (fun K (b : FW) => FwOK N n b ∧
      ∀ i j, i < N → j < N → Rk (fun i j => Fin fw (i * N + j)) K i j → Fin b (i * N + j))
    N fw ⟨h, fun i j _ _ hr => hr⟩ (by
      intro k b hk ⟨b1, b2⟩
      obtain ⟨r1, r2, r3⟩ := fwRound_ok (tol := tol) hk b1
      refine ⟨r1, fun i j hi hj hr => ?_⟩
      rcases hr with hr | ⟨hr1, hr2⟩
      · exact r2 _ (b2 i j hi hj hr)
      · exact r3 i j hi hj (b2 i k hi hk hr1) (b2 k j hk hj hr2))
  exact key

/-! ### the whole run on a connected cluster -/

theorem replicate_ok (N n sz : Nat) (hsz : N * N ≤ sz) :
    FwOK N n ⟨Array.replicate sz none, Array.replicate sz (-1)⟩ := by
  refine ⟨by simpa using hsz, by simpa using hsz, ?_⟩
  rintro p _ ⟨x, hx⟩
  have hx' : rdO (Array.replicate sz (none : Option Rat)) p = some x := hx
  simp only [rdO, Array.getD_eq_getD_getElem?, Array.getElem?_replicate] at hx'
  split at hx' <;> cases hx'

/-- **`floyd_warshall` on one cluster, any pattern**: no out-of-bounds access, no read of an uninitialised `L` entry; at the end
every finite distance has a node as predecessor; and every pair joined by a walk inside the cluster has a finite distance -/
theorem fwRun_ok {tol : Rat} {A : Csr} {glob : Nat → Option Nat} {l : OArr} {m : Array Int} {a : Int} {N maxsize : Nat}
    (hL : Local A glob l m a N) (hN : N ≤ maxsize)
    (hloc : ∀ t, t < N → ∀ g, glob t = some g → rdU l g = some t) :
    ∃ fw, fwRun tol A glob l m a N maxsize = some fw ∧ FwOK N A.n fw ∧
      ∀ i j, i < N → j < N → ∀ gi gj, glob i = some gi → glob j = some gj → CWalk A m gi gj → Fin fw (i * N + j) := by
  have hNN : N * N ≤ maxsize * maxsize := Nat.mul_le_mul hN hN
  unfold fwRun
  rw [if_pos hNN]
  obtain ⟨fw1, e1, ok1, _, hedge⟩ := fwEdges_ok hL (replicate_ok N A.n (maxsize * maxsize) hNN)
  rw [e1]
  simp only
  obtain ⟨fw2, e2, ok2, le2, hdiag⟩ := fwDiag_ok hL ok1
  rw [e2]
  simp only
  obtain ⟨ok3, hreach⟩ := fwMain_ok (tol := tol) ok2
  refine ⟨_, rfl, ok3, fun i j hi hj gi gj hgi hgj hw => hreach i j hi hj (lwalk_rk N i j ?_)⟩
  -- the walk inside the cluster, in local indices
  obtain ⟨gi', hgi', hgin, hmi⟩ := hL.slot i hi
  rw [hgi] at hgi'
  injection hgi' with hgi'
  subst hgi'
  have key : ∀ u w, CWalk A m u w → u < A.n → rdI m u = a → ∀ tu, tu < N → glob tu = some u →
      ∀ tw, tw < N → glob tw = some w → LWalk (fun i j => Fin fw2 (i * N + j)) N tu tw := by
    intro u w hcw
    induction hcw with
    | refl u =>
      intro _ _ tu htu hu tw htw hw'
      have h1 := hloc tu htu u hu
      have h2 := hloc tw htw u hw'
      rw [h1] at h2
      injection h2 with h2
      subst h2
      exact LWalk.edge (hdiag tu htu)
    | @cons u v w hst hvn hmv _ ih =>
      intro hun hmu tu htu hu tw htw hw'
      have hmva : rdI m v = a := by rw [hmv]; exact hmu
      obtain ⟨tv, htv, hlv, hgv⟩ := hL.back v hvn hmva
      obtain ⟨jj, hjj, hjv⟩ := hst
      have hE : Fin fw2 (tu * N + tv) :=
        le2 _ (hedge tu htu u hu jj hjj (by rw [hjv]; exact hmva) tv (by rw [hjv]; exact hlv))
      exact LWalk.cons hE htv (ih hvn hmva tv htv hgv tw htw hw')
  exact key gi gj hw hgin hmi i hi hgi j hj hgj

/-- on a cluster that is strongly connected through stored entries (the assumption of the kernel's doc string) ALL `N × N`
distances end finite -/
theorem fwRun_connected {tol : Rat} {A : Csr} {glob : Nat → Option Nat} {l : OArr} {m : Array Int} {a : Int} {N maxsize : Nat}
    (hL : Local A glob l m a N) (hN : N ≤ maxsize)
    (hloc : ∀ t, t < N → ∀ g, glob t = some g → rdU l g = some t)
    (hconn : ∀ u v, u < A.n → v < A.n → rdI m u = a → rdI m v = a → CWalk A m u v) :
    ∃ fw, fwRun tol A glob l m a N maxsize = some fw ∧ FwOK N A.n fw ∧ ∀ i j, i < N → j < N → Fin fw (i * N + j) := by
  obtain ⟨fw, e, ok, h⟩ := fwRun_ok (tol := tol) hL hN hloc
  refine ⟨fw, e, ok, fun i j hi hj => ?_⟩
  obtain ⟨gi, hgi, hgin, hmi⟩ := hL.slot i hi
  obtain ⟨gj, hgj, hgjn, hmj⟩ := hL.slot j hj
  exact h i j hi hj gi gj hgi hgj (hconn gi gj hgin hgjn hmi hmj)

end PyamgV.C17R5
