import PyamgV.Proofs.Cycle
import PyamgV.Proofs.LinIter

/-! PyamgV (C05, positive-definiteness clause): the preconditioner `M` of a linear iteration that
does not increase the energy norm of the error is positive semidefinite on the range of `A`
(`⟨M r, r⟩ ≥ 0` for `r = A e`), and positive definite there when the iteration is a strict
contraction of the energy norm. Together with `Mop_sym` (M symmetric) and `cyc_nonexp`
(non-expansive cycle) this is what conjugate gradients needs of a multigrid preconditioner. -/
namespace PyamgV

variable {K : Type*} [Field K] [LinearOrder K] [IsStrictOrderedRing K]
variable {V : Type*} [AddCommGroup V] [Module K V]

/-- `E.a (M (A e)) e` is `⟨M r, r⟩` for `r = A e` when `E` is the energy form `⟨A·,·⟩`. -/
theorem precond_psd (E : EForm K V) (A M : V →ₗ[K] V) (f : V → V → V)
    (hlin : IsLinIter A f M) (hne : NonExp E A f) (e : V) :
    0 ≤ E.a (M (A e)) e := by
  have h0 : f 0 (A e) = M (A e) := by rw [hlin 0 (A e)]; simp
  have h1 := hne 0 (A e) e rfl
  rw [h0, sub_zero] at h1
  -- polarisation: 2 a(Me', e) = en e - en (e - Me') + en (Me')
  have hpol : E.en (e - M (A e)) = E.en e - 2 * E.a (M (A e)) e + E.en (M (A e)) := by
    unfold EForm.en
    simp only [map_sub, LinearMap.sub_apply]
    rw [E.symm e (M (A e))]; ring
  have h2 := E.nonneg (M (A e))
  unfold EForm.en at *
  linarith

theorem precond_pd (E : EForm K V) (A M : V →ₗ[K] V) (f : V → V → V)
    (hlin : IsLinIter A f M) (e : V)
    (hstrict : E.en (e - f 0 (A e)) < E.en e) :
    0 < E.a (M (A e)) e := by
  have h0 : f 0 (A e) = M (A e) := by rw [hlin 0 (A e)]; simp
  rw [h0] at hstrict
  have hpol : E.en (e - M (A e)) = E.en e - 2 * E.a (M (A e)) e + E.en (M (A e)) := by
    unfold EForm.en
    simp only [map_sub, LinearMap.sub_apply]
    rw [E.symm e (M (A e))]; ring
  have h2 := E.nonneg (M (A e))
  unfold EForm.en at *
  linarith

#print axioms precond_psd
#print axioms precond_pd
end PyamgV
