import PyamgV.Proofs.ExtC10bGmresFull

/-! PyamgV (extension E48, property C10): the constraint theorem for the executable CG / CGNR
energy-minimisation model `C10M.energyCG` (`smooth.cg_prolongation_smoothing`,
`smooth.cgnr_prolongation_smoothing`; the model the driver runs in `c10_energy` and `ext_c10c_energy`)
**for every input**, over any field and any conjugation function.

`cg_run_property`: whatever the model returns (tolerance reached, fuel exhausted, breakdown `(P, AP) = 0`, a
singular local Gram matrix in the middle of the run -- `T` then holds the updates made so far), with a
row-scaling preconditioner or a block-diagonal one whose blocks are the row blocks of the pattern:

* on every row that is not a root row, `(T'·B_c)_i = (T·B_c)_i` and no entry outside the pattern changes;
* a root row is either untouched (no update was made) or the identity row `I_F·T + P_I` installs.

Without root nodes (`cpts = #[]`) this is `T'·B_c = T·B_c` and `supp(T' − T) ⊆ pattern`.

Proof: the residual `R` and the search direction `P` stay `Good` (right shape, annihilate `B_c`, vanish
outside the pattern): projected matrices are (`satisfyDense_annihilates`, `projectDense_off`), the
preconditioner keeps it (`pre_annihilates`, `pre_offZero`), and so do the linear combinations
`Z + beta P`, `R - alpha AP`. -/
namespace PyamgV.C10c
open PyamgV PyamgV.C10M PyamgV.C10bM PyamgV.C10b Matrix
set_option linter.unusedSectionVars false
set_option linter.unusedVariables false

variable {K : Type} [Field K] [DecidableEq K] {n m : Nat}

/-- right shape, annihilates `B`, zero outside the block pattern -/
def Good (n m nd rpb cpb : Nat) (pat : Pat) (B X : Mat K) : Prop :=
  Dim n m X ∧ toMx n m X * toMx m nd B = 0 ∧ OffZero n m rpb cpb pat X

theorem add_offZero (rpb cpb : Nat) (pat : Pat) (X Y : Mat K) (hX : Dim n m X)
    (h1 : OffZero n m rpb cpb pat X) (h2 : OffZero n m rpb cpb pat Y) :
    OffZero n m rpb cpb pat (Mat.add X Y) := by
  intro i j hi hj hc
  unfold Mat.add
  rw [ofFn_get' _ _ _ i j (by rw [hX.1]; exact hi) (by rw [hX.2]; exact hj), h1 i j hi hj hc, h2 i j hi hj hc, add_zero]

theorem sub_offZero (rpb cpb : Nat) (pat : Pat) (X Y : Mat K) (hX : Dim n m X)
    (h1 : OffZero n m rpb cpb pat X) (h2 : OffZero n m rpb cpb pat Y) :
    OffZero n m rpb cpb pat (Mat.sub X Y) := by
  intro i j hi hj hc
  unfold Mat.sub
  rw [ofFn_get' _ _ _ i j (by rw [hX.1]; exact hi) (by rw [hX.2]; exact hj), h1 i j hi hj hc, h2 i j hi hj hc, sub_zero]

theorem smul_offZero (rpb cpb : Nat) (pat : Pat) (a : K) (X : Mat K) (hX : Dim n m X)
    (h1 : OffZero n m rpb cpb pat X) : OffZero n m rpb cpb pat (Mat.smul a X) := by
  intro i j hi hj hc
  unfold Mat.smul
  rw [ofFn_get' _ _ _ i j (by rw [hX.1]; exact hi) (by rw [hX.2]; exact hj), h1 i j hi hj hc, mul_zero]

theorem good_add {nd rpb cpb : Nat} {pat : Pat} {B X Y : Mat K} (hn : 0 < n)
    (hX : Good n m nd rpb cpb pat B X) (hY : Good n m nd rpb cpb pat B Y) :
    Good n m nd rpb cpb pat B (Mat.add X Y) :=
  ⟨dim_add n m hn X Y hX.1, by rw [toMx_add n m X Y hX.1, Matrix.add_mul, hX.2.1, hY.2.1, add_zero],
   add_offZero rpb cpb pat X Y hX.1 hX.2.2 hY.2.2⟩

theorem good_sub {nd rpb cpb : Nat} {pat : Pat} {B X Y : Mat K} (hn : 0 < n)
    (hX : Good n m nd rpb cpb pat B X) (hY : Good n m nd rpb cpb pat B Y) :
    Good n m nd rpb cpb pat B (Mat.sub X Y) :=
  ⟨dim_sub n m hn X Y hX.1, by rw [toMx_sub n m X Y hX.1, Matrix.sub_mul, hX.2.1, hY.2.1, sub_zero],
   sub_offZero rpb cpb pat X Y hX.1 hX.2.2 hY.2.2⟩

theorem good_smul {nd rpb cpb : Nat} {pat : Pat} {B X : Mat K} (hn : 0 < n) (a : K)
    (hX : Good n m nd rpb cpb pat B X) : Good n m nd rpb cpb pat B (Mat.smul a X) :=
  ⟨dim_smul n m hn a X hX.1, by rw [toMx_smul n m a X hX.1, Matrix.smul_mul, hX.2.1, smul_zero],
   smul_offZero rpb cpb pat a X hX.1 hX.2.2⟩

/-- a row of `X` (inside the frame or not) times `B` -/
theorem row_dot_zero (nd : Nat) (B X : Mat K) (hX : Dim n m X) (h : toMx n m X * toMx m nd B = 0) (r : Nat)
    (c : Fin nd) : ∑ j : Fin m, X.get r j.val * B.get j.val c.val = 0 := by
  rcases Nat.lt_or_ge r n with hl | hg
  · have := congrFun (congrFun h ⟨r, hl⟩) c
    rw [Matrix.mul_apply] at this
    exact this
  · apply Finset.sum_eq_zero
    intro j _
    rw [get_out_of_rows X r j.val (by rw [hX.1]; exact hg), zero_mul]

/-- **the preconditioner keeps a matrix constrained** (`scaling_keeps_zero` for the executable `Precond.apply`) -/
theorem pre_annihilates (nd : Nat) (pre : Precond K) (B X : Mat K) (hX : Dim n m X)
    (h : toMx n m X * toMx m nd B = 0) : toMx n m (pre.apply X) * toMx m nd B = 0 := by
  funext i c
  rw [Matrix.mul_apply]
  show ∑ j : Fin m, (pre.apply X).get i.val j.val * B.get j.val c.val = 0
  cases pre with
  | rows d =>
    unfold Precond.apply
    dsimp only
    have e : ∀ j : Fin m, (Mat.ofFn X.rows X.cols fun i j => d.getD i 0 * X.get i j).get i.val j.val * B.get j.val c.val =
        d.getD i.val 0 * (X.get i.val j.val * B.get j.val c.val) := by
      intro j
      rw [ofFn_get' _ _ _ i.val j.val (by rw [hX.1]; exact i.isLt) (by rw [hX.2]; exact j.isLt), mul_assoc]
    rw [Finset.sum_congr rfl (fun j _ => e j), ← Finset.mul_sum, row_dot_zero nd B X hX h i.val c, mul_zero]
  | blocks bs zs =>
    unfold Precond.apply
    dsimp only
    have e : ∀ j : Fin m, (Mat.ofFn X.rows X.cols fun i j =>
          sumL ((List.range bs).map fun a => (zs.getD (i / bs) #[]).get (i % bs) a * X.get (i / bs * bs + a) j)).get i.val j.val *
          B.get j.val c.val =
        ∑ a : Fin bs, (zs.getD (i.val / bs) #[]).get (i.val % bs) a.val *
          (X.get (i.val / bs * bs + a.val) j.val * B.get j.val c.val) := by
      intro j
      rw [ofFn_get' _ _ _ i.val j.val (by rw [hX.1]; exact i.isLt) (by rw [hX.2]; exact j.isLt), sumL_range_fin,
        Finset.sum_mul]
      apply Finset.sum_congr rfl
      intro a _
      rw [mul_assoc]
    rw [Finset.sum_congr rfl (fun j _ => e j), Finset.sum_comm]
    apply Finset.sum_eq_zero
    intro a _
    rw [← Finset.mul_sum, row_dot_zero nd B X hX h _ c, mul_zero]

theorem good_pre {nd rpb cpb : Nat} {pat : Pat} {B X : Mat K} (hn : 0 < n) (hr : 0 < rpb) (pre : Precond K)
    (hpre : PreOK rpb pre) (hX : Good n m nd rpb cpb pat B X) : Good n m nd rpb cpb pat B (pre.apply X) :=
  ⟨(dim_pre pre X hn hX.1).1, pre_annihilates nd pre B X hX.1 hX.2.1,
   pre_offZero rpb cpb pat pre hpre hr X hX.1 hX.2.2⟩

/-- the projection of a masked matrix is `Good` -/
theorem good_proj (conj : K → K) (rpb cpb nd : Nat) (pat : Pat) (B W Y : Mat K) (hn : 0 < n) (hr : 0 < rpb)
    (hc : 0 < cpb) (hB : B.cols = nd) (hpat : PatIn m cpb pat) (hW : Dim n m W)
    (h : satisfyDense conj rpb cpb nd pat (maskDense rpb cpb pat W) B = some Y) :
    Good n m nd rpb cpb pat B Y := by
  have h2 : Dim n m (maskDense rpb cpb pat W) := by
    unfold maskDense; rw [hW.1, hW.2]; exact dim_ofFn n m hn _
  have h2s : Shaped n m (maskDense rpb cpb pat W) := by
    unfold maskDense; rw [hW.1, hW.2]; exact shaped_ofFn n m _
  refine ⟨satisfyDense_dim conj rpb cpb nd pat _ B Y n m h2 h, ?_, ?_⟩
  · exact satisfyDense_annihilates conj rpb cpb nd pat _ B Y n m hr h2s h2.2 hB hpat (mask_offZero rpb cpb pat W hW) h
  · intro i j hi hj hcont
    unfold satisfyDense at h
    rw [projectDense_off conj rpb cpb nd pat _ _ B Y n m hr hc h2s hpat h i j hi hcont]
    exact mask_offZero rpb cpb pat W hW i j hi hj hcont

/-! ### root rows -/

/-- index of row `i` among the root dofs, as `resetRoots` looks it up -/
def rootIdx (cpts : Array Nat) (i : Nat) : Option Nat :=
  (List.range cpts.size).find? (fun k => cpts.getD k 0 = i)

theorem rootIdx_empty (i : Nat) : rootIdx #[] i = none := rfl

theorem dim_reset (cpts : Array Nat) (X : Mat K) (hn : 0 < n) (hX : Dim n m X) : Dim n m (resetRoots cpts X) := by
  unfold resetRoots
  by_cases he : cpts.isEmpty = true
  · rw [if_pos he]; exact hX
  · rw [if_neg he, hX.1, hX.2]; exact dim_ofFn n m hn _

theorem reset_get (cpts : Array Nat) (X : Mat K) (hX : Dim n m X) (i j : Nat) (hi : i < n) (hj : j < m) :
    (resetRoots cpts X).get i j =
      match rootIdx cpts i with
      | some k => if k = j then 1 else 0
      | none => X.get i j := by
  unfold resetRoots
  by_cases he : cpts.isEmpty = true
  · rw [if_pos he]
    have hs : cpts.size = 0 := by simpa [Array.isEmpty_iff_size_eq_zero] using he
    have : rootIdx cpts i = none := by unfold rootIdx; rw [hs]; rfl
    rw [this]
  · rw [if_neg he, ofFn_get' _ _ _ i j (by rw [hX.1]; exact hi) (by rw [hX.2]; exact hj)]
    rfl

/-- what a run may do to the prolongator: non-root rows keep their product with `B` and their entries
outside the pattern; a root row is untouched or an identity row -/
def Rel (n m nd rpb cpb : Nat) (pat : Pat) (cpts : Array Nat) (B T0 T : Mat K) : Prop :=
  Dim n m T ∧
  (∀ i : Fin n, rootIdx cpts i.val = none →
    (∀ c : Fin nd, (toMx n m T * toMx m nd B) i c = (toMx n m T0 * toMx m nd B) i c) ∧
    (∀ j : Fin m, ¬ ((pat.getD (i.val / rpb) #[]).contains (j.val / cpb) = true) → toMx n m T i j = toMx n m T0 i j)) ∧
  (∀ (i : Fin n) (k : Nat), rootIdx cpts i.val = some k →
    (∀ j : Fin m, toMx n m T i j = toMx n m T0 i j) ∨ (∀ j : Fin m, toMx n m T i j = if k = j.val then 1 else 0))

theorem rel_refl (nd rpb cpb : Nat) (pat : Pat) (cpts : Array Nat) (B T : Mat K) (hT : Dim n m T) :
    Rel n m nd rpb cpb pat cpts B T T :=
  ⟨hT, fun _ _ => ⟨fun _ => rfl, fun _ _ => rfl⟩, fun _ _ _ => Or.inl fun _ => rfl⟩

/-- one update `T <- I_F (T + alpha P) + P_I` with a constrained direction -/
theorem rel_step (nd rpb cpb : Nat) (pat : Pat) (cpts : Array Nat) (B T0 T P : Mat K) (alpha : K) (hn : 0 < n)
    (hP : Good n m nd rpb cpb pat B P) (hT : Rel n m nd rpb cpb pat cpts B T0 T) :
    Rel n m nd rpb cpb pat cpts B T0 (resetRoots cpts (Mat.add T (Mat.smul alpha P))) := by
  have hX : Dim n m (Mat.add T (Mat.smul alpha P)) := dim_add n m hn _ _ hT.1
  have hXget : ∀ (i : Fin n) (j : Fin m), (Mat.add T (Mat.smul alpha P)).get i.val j.val =
      T.get i.val j.val + alpha * P.get i.val j.val := by
    intro i j
    have := congrFun (congrFun (toMx_add n m T (Mat.smul alpha P) hT.1) i) j
    rw [toMx_smul n m alpha P hP.1] at this
    exact this
  refine ⟨dim_reset cpts _ hn hX, ?_, ?_⟩
  · intro i hroot
    have hrow : ∀ j : Fin m, toMx n m (resetRoots cpts (Mat.add T (Mat.smul alpha P))) i j =
        toMx n m T i j + alpha * toMx n m P i j := by
      intro j
      show (resetRoots cpts (Mat.add T (Mat.smul alpha P))).get i.val j.val = _
      rw [reset_get cpts _ hX i.val j.val i.isLt j.isLt, hroot]
      exact hXget i j
    obtain ⟨h1, h2⟩ := hT.2.1 i hroot
    refine ⟨fun c => ?_, fun j hj => ?_⟩
    · rw [← h1 c, Matrix.mul_apply, Matrix.mul_apply]
      rw [Finset.sum_congr rfl (fun j _ => by rw [hrow j, add_mul, mul_assoc])]
      rw [Finset.sum_add_distrib, ← Finset.mul_sum]
      have := congrFun (congrFun hP.2.1 i) c
      rw [Matrix.mul_apply] at this
      rw [this]
      simp
    · rw [hrow j, ← h2 j hj]
      have : toMx n m P i j = 0 := hP.2.2 i.val j.val i.isLt j.isLt hj
      rw [this, mul_zero, add_zero]
  · intro i k hroot
    right
    intro j
    show (resetRoots cpts (Mat.add T (Mat.smul alpha P))).get i.val j.val = _
    rw [reset_get cpts _ hX i.val j.val i.isLt j.isLt, hroot]

/-! ### the loop -/

/-- the `while` loop of `energyCG`, any pattern-restricted operator `op` -/
theorem loop_rel (conj : K → K) (lt : K → K → Bool) (rpb cpb nd : Nat) (pat : Pat) (pre : Precond K) (B : Mat K)
    (tol : K) (cpts : Array Nat) (op : Mat K → Mat K) (T0 : Mat K)
    (hn : 0 < n) (hr : 0 < rpb) (hc : 0 < cpb) (hB : B.cols = nd) (hpat : PatIn m cpb pat) (hpre : PreOK rpb pre)
    (hop : ∀ X, Dim n m X → ∃ W, Dim n m W ∧ op X = maskDense rpb cpb pat W) :
    ∀ (fuel i : Nat) (T R P : Mat K) (oldsum : K) (ups : List (K × Mat K)) (sums : List K),
      Good n m nd rpb cpb pat B R → Good n m nd rpb cpb pat B P → Rel n m nd rpb cpb pat cpts B T0 T →
      Rel n m nd rpb cpb pat cpts B T0
        (energyCG.loop conj lt rpb cpb nd pat pre B tol cpts op fuel i T R P oldsum ups sums).T := by
  intro fuel
  induction fuel with
  | zero =>
    intro i T R P oldsum ups sums hR hP hT
    unfold energyCG.loop
    exact hT
  | succ fuel ih =>
    intro i T R P oldsum ups sums hR hP hT
    unfold energyCG.loop
    dsimp only
    have hZ := good_pre hn hr pre hpre hR
    by_cases h1 : lt (Mat.frob conj R (pre.apply R)) tol = true
    · rw [if_pos h1]; exact hT
    · rw [if_neg h1]
      have hP' : Good n m nd rpb cpb pat B
          (if i = 0 then pre.apply R else
            Mat.add (pre.apply R) (Mat.smul (Mat.frob conj R (pre.apply R) / oldsum) P)) := by
        by_cases hi : i = 0
        · rw [if_pos hi]; exact hZ
        · rw [if_neg hi]; exact good_add hn hZ (good_smul hn _ hP)
      generalize (if i = 0 then pre.apply R else
            Mat.add (pre.apply R) (Mat.smul (Mat.frob conj R (pre.apply R) / oldsum) P)) = P' at hP' ⊢
      obtain ⟨W, hW, hopW⟩ := hop P' hP'.1
      cases hAP : satisfyDense conj rpb cpb nd pat (op P') B with
      | none => exact hT
      | some AP =>
        dsimp only
        have hAPg : Good n m nd rpb cpb pat B AP := by
          rw [hopW] at hAP
          exact good_proj conj rpb cpb nd pat B W AP hn hr hc hB hpat hW hAP
        by_cases h2 : Mat.frob conj P' AP = 0
        · rw [if_pos h2]; exact hT
        · rw [if_neg h2]
          exact ih (i + 1) _ _ P' _ _ _ (good_sub hn hR (good_smul hn _ hAPg)) hP'
            (rel_step nd rpb cpb pat cpts B T0 T P' _ hn hP' hT)

/-- **CG / CGNR energy minimisation, executable model, every input**: non-root rows keep `T·B_c` and the
entries outside the pattern; root rows are untouched or identity rows -/
theorem cg_run_rel (conj : K → K) (lt : K → K → Bool) (cgnr : Bool) (rpb cpb nd : Nat) (pat : Pat) (A : Mat K)
    (pre : Precond K) (T B : Mat K) (maxiter : Nat) (tol : K) (cpts : Array Nat)
    (hn : 0 < n) (hr : 0 < rpb) (hc : 0 < cpb) (hA : Dim n n A) (hT : Dim n m T) (hB : B.cols = nd)
    (hpat : PatIn m cpb pat) (hpre : PreOK rpb pre) :
    Rel n m nd rpb cpb pat cpts B T
      (energyCG conj lt cgnr rpb cpb nd pat A pre T B maxiter tol cpts).T := by
  have hop : ∀ X, Dim n m X → ∃ W, Dim n m W ∧
      (fun X => if cgnr then maskDense rpb cpb pat (Mat.mul (Mat.ctranspose conj A) (Mat.mul A X))
        else maskDense rpb cpb pat (Mat.mul A X)) X = maskDense rpb cpb pat W := by
    intro X hX
    have h1 : Dim n m (Mat.mul A X) := by
      unfold Mat.mul; rw [hA.1, hX.2]; exact dim_ofFn n m hn _
    cases cgnr with
    | false => exact ⟨_, h1, rfl⟩
    | true =>
      refine ⟨Mat.mul (Mat.ctranspose conj A) (Mat.mul A X), ?_, rfl⟩
      have : (Mat.ctranspose conj A).rows = n := by
        unfold Mat.ctranspose; rw [ofFn_rows, hA.2]
      unfold Mat.mul
      rw [this]
      have h1' := h1
      unfold Mat.mul at h1'
      rw [h1'.2]
      exact dim_ofFn n m hn _
  unfold energyCG
  dsimp only
  by_cases hz : (pat.foldl (fun acc J => acc + J.size) 0) * rpb * cpb = 0
  · rw [if_pos hz]; exact rel_refl nd rpb cpb pat cpts B T hT
  · rw [if_neg hz]
    have hneg : Dim n m (Mat.neg T) := by
      unfold Mat.neg; rw [hT.1, hT.2]; exact dim_ofFn n m hn _
    obtain ⟨W, hW, hopW⟩ := hop (Mat.neg T) hneg
    dsimp only at hopW
    cases hR : satisfyDense conj rpb cpb nd pat
        (if cgnr then maskDense rpb cpb pat (Mat.mul (Mat.ctranspose conj A) (Mat.mul A (Mat.neg T)))
          else maskDense rpb cpb pat (Mat.mul A (Mat.neg T))) B with
    | none => exact rel_refl nd rpb cpb pat cpts B T hT
    | some R0 =>
      dsimp only
      have hRg : Good n m nd rpb cpb pat B R0 := by
        rw [hopW] at hR
        exact good_proj conj rpb cpb nd pat B W R0 hn hr hc hB hpat hW hR
      exact loop_rel conj lt rpb cpb nd pat pre B tol cpts _ T hn hr hc hB hpat hpre hop maxiter 0 T R0 R0 0 [] []
        hRg hRg (rel_refl nd rpb cpb pat cpts B T hT)

/-- the statement spelled out -/
theorem cg_run_property (conj : K → K) (lt : K → K → Bool) (cgnr : Bool) (rpb cpb nd : Nat) (pat : Pat) (A : Mat K)
    (pre : Precond K) (T B : Mat K) (maxiter : Nat) (tol : K) (cpts : Array Nat)
    (hn : 0 < n) (hr : 0 < rpb) (hc : 0 < cpb) (hA : Dim n n A) (hT : Dim n m T) (hB : B.cols = nd)
    (hpat : PatIn m cpb pat) (hpre : PreOK rpb pre) :
    (∀ i : Fin n, rootIdx cpts i.val = none →
      (∀ c : Fin nd, (toMx n m (energyCG conj lt cgnr rpb cpb nd pat A pre T B maxiter tol cpts).T * toMx m nd B) i c =
        (toMx n m T * toMx m nd B) i c) ∧
      (∀ j : Fin m, ¬ ((pat.getD (i.val / rpb) #[]).contains (j.val / cpb) = true) →
        toMx n m (energyCG conj lt cgnr rpb cpb nd pat A pre T B maxiter tol cpts).T i j = toMx n m T i j)) ∧
    (∀ (i : Fin n) (k : Nat), rootIdx cpts i.val = some k →
      (∀ j : Fin m, toMx n m (energyCG conj lt cgnr rpb cpb nd pat A pre T B maxiter tol cpts).T i j = toMx n m T i j) ∨
      (∀ j : Fin m, toMx n m (energyCG conj lt cgnr rpb cpb nd pat A pre T B maxiter tol cpts).T i j =
        if k = j.val then 1 else 0)) :=
  (cg_run_rel conj lt cgnr rpb cpb nd pat A pre T B maxiter tol cpts hn hr hc hA hT hB hpat hpre).2

/-- **no root nodes**: `T'·B_c = T·B_c` and no entry outside the allowed pattern changes -/
theorem cg_run_plain (conj : K → K) (lt : K → K → Bool) (cgnr : Bool) (rpb cpb nd : Nat) (pat : Pat) (A : Mat K)
    (pre : Precond K) (T B : Mat K) (maxiter : Nat) (tol : K)
    (hn : 0 < n) (hr : 0 < rpb) (hc : 0 < cpb) (hA : Dim n n A) (hT : Dim n m T) (hB : B.cols = nd)
    (hpat : PatIn m cpb pat) (hpre : PreOK rpb pre) :
    toMx n m (energyCG conj lt cgnr rpb cpb nd pat A pre T B maxiter tol #[]).T * toMx m nd B = toMx n m T * toMx m nd B ∧
    (∀ (i : Fin n) (j : Fin m), ¬ ((pat.getD (i.val / rpb) #[]).contains (j.val / cpb) = true) →
      toMx n m (energyCG conj lt cgnr rpb cpb nd pat A pre T B maxiter tol #[]).T i j = toMx n m T i j) := by
  have h := (cg_run_property conj lt cgnr rpb cpb nd pat A pre T B maxiter tol #[] hn hr hc hA hT hB hpat hpre).1
  refine ⟨?_, fun i j hj => (h i (rootIdx_empty i.val)).2 j hj⟩
  funext i c
  exact (h i (rootIdx_empty i.val)).1 c

/-! ### the hypotheses, decided by the driver on every run -/

/-- the block columns of the pattern lie inside the rows (`PatIn`), as a Boolean -/
def patInB (m cpb : Nat) (pat : Pat) : Bool :=
  pat.all (fun J => J.all (fun jb => decide ((jb + 1) * cpb ≤ m)))

theorem patInB_sound (m cpb : Nat) (pat : Pat) (h : patInB m cpb pat = true) : PatIn m cpb pat := by
  intro ib hib jb hjb
  unfold patInB at h
  rw [Array.all_eq_true] at h
  have h1 := h ib hib
  have e : pat.getD ib #[] = pat[ib] := by
    simp [Array.getD_eq_getD_getElem?, hib]
  rw [e] at hjb
  rw [Array.all_eq_true] at h1
  obtain ⟨k, hk, rfl⟩ := List.getElem_of_mem hjb
  have := h1 k (by simpa using hk)
  simpa using this

/-- shapes and pattern of a call (flag `hyps` of the ops `ext_c10c_energy`, `ext_c10c_gmres`) -/
def hypsOK (n m nd rpb cpb : Nat) (pat : Pat) (A T B : Mat K) : Bool :=
  decide (0 < n) && decide (0 < rpb) && decide (0 < cpb) && decide (A.rows = n) && decide (A.cols = n) &&
  decide (T.rows = n) && decide (T.cols = m) && decide (B.cols = nd) && patInB m cpb pat

theorem hypsOK_sound (n m nd rpb cpb : Nat) (pat : Pat) (A T B : Mat K) (h : hypsOK n m nd rpb cpb pat A T B = true) :
    0 < n ∧ 0 < rpb ∧ 0 < cpb ∧ Dim n n A ∧ Dim n m T ∧ B.cols = nd ∧ PatIn m cpb pat := by
  unfold hypsOK at h
  simp only [Bool.and_eq_true, decide_eq_true_eq] at h
  obtain ⟨⟨⟨⟨⟨⟨⟨⟨h1, h2⟩, h3⟩, h4⟩, h5⟩, h6⟩, h7⟩, h8⟩, h9⟩ := h
  exact ⟨h1, h2, h3, ⟨h4, h5⟩, ⟨h6, h7⟩, h8, patInB_sound m cpb pat h9⟩

/-- a run whose call passes the driver's check satisfies the property (preconditioner from `mkPrecond` with
`bs = rpb`) -/
theorem cg_run_checked (conj : K → K) (lt : K → K → Bool) (cgnr : Bool) (wt rpb cpb nd : Nat) (pat : Pat) (A : Mat K)
    (aux : Array K) (pre : Precond K) (T B : Mat K) (maxiter : Nat) (tol : K) (cpts : Array Nat)
    (hpre : mkPrecond wt rpb A aux = some pre) (h : hypsOK n m nd rpb cpb pat A T B = true) :
    Rel n m nd rpb cpb pat cpts B T (energyCG conj lt cgnr rpb cpb nd pat A pre T B maxiter tol cpts).T := by
  obtain ⟨h1, h2, h3, h4, h5, h6, h7⟩ := hypsOK_sound n m nd rpb cpb pat A T B h
  exact cg_run_rel conj lt cgnr rpb cpb nd pat A pre T B maxiter tol cpts h1 h2 h3 h4 h5 h6 h7
    (mkPrecond_ok wt rpb A aux pre hpre)

#print axioms cg_run_checked
#print axioms cg_run_property
#print axioms cg_run_plain
end PyamgV.C10c
