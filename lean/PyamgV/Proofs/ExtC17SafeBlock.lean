import PyamgV.Model.ExtC17CkBlock
import PyamgV.Proofs.ExtC17Safe

/-! PyamgV (C17, extension E7): bounds-safety + termination for the `Ck` models of the BSR / block
relaxation kernels (`Model/ExtC17CkBlock.lean`) and of `gemm` in the mode they use.  Core Lean only. -/
namespace PyamgV.C17
open PyamgV.Ck

set_option linter.unusedSectionVars false
set_option linter.unusedVariables false
variable {α : Type} [Inhabited α]

/-! ### index arithmetic and access rules with `Int` bounds -/

/-- row-major index: `i < A`, `j < B` gives `i*B + j < A*B` -/
theorem idx_lt {i j A B : Int} (hi0 : 0 ≤ i) (hi : i < A) (hj0 : 0 ≤ j) (hj : j < B) :
    0 ≤ i * B + j ∧ i * B + j < A * B := by
  have h1 : 0 ≤ i * B := Int.mul_nonneg hi0 (by omega)
  have h2 : (i + 1) * B ≤ A * B := Int.mul_le_mul_of_nonneg_right (by omega) (by omega)
  rw [Int.add_mul, Int.one_mul] at h2
  omega

theorem rd_ok (a : Array α) (i : Int) (h0 : 0 ≤ i) (h1 : i < (a.size : Int)) :
    Safe (rd a i) (fun _ => True) :=
  Safe.mono (rd_safe a i h0 (by omega)) (fun _ _ => trivial)

theorem wr_ok (a : Array α) (i : Int) (v : α) (h0 : 0 ≤ i) (h1 : i < (a.size : Int)) :
    Safe (wr a i v) (fun a' => a'.size = a.size) :=
  wr_safe a i v h0 (by omega)

/-! ### `gemm`, mode `('F','F','F','T')` -/

/-- **`gemm`** (row-major `A`, column-major `B`, row-major `S`, overwrite): `A` occupies
`arows*acols` entries from offset `ao`, `B` `brows*bcols` from `bo`, `S` `srows*scols` from `so`,
with `brows ≤ acols` and `arows*bcols ≤ srows*scols` -/
theorem gemmFF_safe (o : KOps α) (ax : Array α) (ao : Int) (arows acols : Nat) (bx : Array α) (bo : Int)
    (brows bcols : Nat) (sx : Array α) (so : Int) (srows scols : Nat)
    (ha0 : 0 ≤ ao) (ha : ao + (arows : Int) * (acols : Int) ≤ (ax.size : Int))
    (hb0 : 0 ≤ bo) (hb : bo + (bcols : Int) * (brows : Int) ≤ (bx.size : Int))
    (hs0 : 0 ≤ so) (hs : so + (srows : Int) * (scols : Int) ≤ (sx.size : Int))
    (hk : brows ≤ acols) (hsz : (arows : Int) * (bcols : Int) ≤ (srows : Int) * (scols : Int)) :
    Safe (gemmFF o ax ao arows acols bx bo brows bcols sx so srows scols) (fun s' => s'.size = sx.size) := by
  unfold gemmFF
  refine Safe.bind (P := fun s : Array α => s.size = sx.size) ?_ (fun sx0 hsx0 => ?_)
  · apply forRange_safe (fun s : Array α => s.size = sx.size) _ _ _ _ rfl
    intro t t0 t1 s hsz'
    exact Safe.mono (wr_ok s (so + t) _ (by omega) (by rw [hsz']; omega)) (fun a' h => by rw [h, hsz'])
  refine Safe.bind (P := fun st : Array α × Int × Int => st.1.size = sx.size) ?_ (fun r hr => Safe.pure hr)
  refine Safe.mono (forRange_safe_idx
    (fun (i : Int) (st : Array α × Int × Int) =>
      st.1.size = sx.size ∧ st.2.1 = i * (bcols : Int) ∧ st.2.2 = i * (acols : Int))
    0 (arows : Int) (by omega) _ _
    ⟨hsx0, by show (0 : Int) = 0 * (bcols : Int); omega, by show (0 : Int) = 0 * (acols : Int); omega⟩
    ?_) (fun st h => h.1)
  intro i i0 i1 st hst
  obtain ⟨g1, g2, g3⟩ := hst
  refine Safe.bind
    (P := fun st2 : Array α × Int × Int => st2.1.size = sx.size ∧ st2.2.1 = i * (bcols : Int) + (bcols : Int))
    ?_ (fun r hr => ?_)
  · refine Safe.mono (forRange_safe_idx
      (fun (j : Int) (st2 : Array α × Int × Int) =>
        st2.1.size = sx.size ∧ st2.2.1 = i * (bcols : Int) + j ∧ st2.2.2 = j * (brows : Int))
      0 (bcols : Int) (by omega) _ _
      ⟨g1, by show st.2.1 = i * (bcols : Int) + 0; omega, by show (0 : Int) = 0 * (brows : Int); omega⟩
      ?_) (fun st2 h => ⟨h.1, h.2.1⟩)
    intro j j0 j1 st2 hst2
    obtain ⟨q1, q2, q3⟩ := hst2
    refine Safe.bind
      (P := fun st3 : Array α × Int × Int => st3.1.size = sx.size ∧ st3.2.2 = j * (brows : Int) + (brows : Int))
      ?_ (fun r hr => ?_)
    · refine Safe.mono (forRange_safe_idx
        (fun (k : Int) (st3 : Array α × Int × Int) =>
          st3.1.size = sx.size ∧ st3.2.1 = i * (acols : Int) + k ∧ st3.2.2 = j * (brows : Int) + k)
        0 (brows : Int) (by omega) _ _
        ⟨q1, by show st.2.2 = i * (acols : Int) + 0; omega, by show st2.2.2 = j * (brows : Int) + 0; omega⟩
        ?_) (fun st3 h => ⟨h.1, h.2.2⟩)
      intro k k0 k1 st3 hst3
      obtain ⟨p1, p2, p3⟩ := hst3
      have hS := idx_lt i0 i1 j0 j1
      have hA := idx_lt (A := (arows : Int)) (B := (acols : Int)) i0 i1 k0 (by omega)
      have hB := idx_lt (A := (bcols : Int)) (B := (brows : Int)) j0 j1 k0 k1
      have hsi0 : 0 ≤ so + st2.2.1 := by rw [q2]; omega
      have hsi1 : so + st2.2.1 < (st3.1.size : Int) := by rw [q2, p1]; omega
      refine Safe.bind (rd_ok st3.1 _ hsi0 hsi1) (fun s _ => ?_)
      refine Safe.bind (rd_ok ax (ao + st3.2.1) (by rw [p2]; omega) (by rw [p2]; omega)) (fun a _ => ?_)
      refine Safe.bind (rd_ok bx (bo + st3.2.2) (by rw [p3]; omega) (by rw [p3]; omega)) (fun b _ => ?_)
      refine Safe.bind (wr_ok st3.1 _ _ hsi0 hsi1) (fun sx' hsx' => ?_)
      exact Safe.pure ⟨by show sx'.size = sx.size; rw [hsx', p1],
        by show st3.2.1 + 1 = i * (acols : Int) + (k + 1); omega,
        by show st3.2.2 + 1 = j * (brows : Int) + (k + 1); omega⟩
    · refine Safe.pure ⟨hr.1, ?_, ?_⟩
      · show st2.2.1 + 1 = i * (bcols : Int) + (j + 1); omega
      · show r.2.2 = (j + 1) * (brows : Int); rw [hr.2, Int.add_mul, Int.one_mul]
  · refine Safe.pure ⟨hr.1, ?_, ?_⟩
    · show r.2.1 = (i + 1) * (bcols : Int); rw [hr.2, Int.add_mul, Int.one_mul]
    · show st.2.2 + (acols : Int) = (i + 1) * (acols : Int); rw [g3, Int.add_mul, Int.one_mul]

/-! ### BSR arrays -/

/-- BSR arrays: a structurally valid block pattern with `G.n` block rows and block columns, and
`blocksize²` values per stored block -/
structure WFb (G : Csr α) (bs : Nat) : Prop where
  pat : WFm (pat G.n G.ap G.aj) G.n
  data : (G.aj.size : Int) * ((bs : Int) * (bs : Int)) ≤ (G.ax.size : Int)

theorem size_cast {a : Array α} {n bs : Nat} (h : a.size = n * bs) :
    (a.size : Int) = (n : Int) * (bs : Int) := by
  rw [h]; exact Int.natCast_mul n bs

/-- the stored block `jj` lies inside `Ax` -/
theorem blk_ext (G : Csr α) (bs : Nat) (hG : WFb G bs) (jj : Int) (h0 : 0 ≤ jj)
    (h1 : jj.toNat < G.aj.size) :
    0 ≤ jj * ((bs : Int) * (bs : Int)) ∧
      jj * ((bs : Int) * (bs : Int)) + (bs : Int) * (bs : Int) ≤ (G.ax.size : Int) := by
  have hb : 0 ≤ (bs : Int) * (bs : Int) := Int.mul_nonneg (by omega) (by omega)
  have h2 : (jj + 1) * ((bs : Int) * (bs : Int)) ≤ (G.aj.size : Int) * ((bs : Int) * (bs : Int)) :=
    Int.mul_le_mul_of_nonneg_right (by omega) hb
  rw [Int.add_mul, Int.one_mul] at h2
  have h3 := hG.data
  have h4 := Int.mul_nonneg h0 hb
  omega

/-- the vector block `j` lies inside a vector of `n*bs` entries -/
theorem vec_ext (n bs : Nat) (j : Int) (h0 : 0 ≤ j) (h1 : j < (n : Int)) :
    0 ≤ j * (bs : Int) ∧ j * (bs : Int) + (bs : Int) ≤ (n : Int) * (bs : Int) := by
  have h2 : (j + 1) * (bs : Int) ≤ (n : Int) * (bs : Int) :=
    Int.mul_le_mul_of_nonneg_right (by omega) (by omega)
  rw [Int.add_mul, Int.one_mul] at h2
  have h4 := Int.mul_nonneg h0 (by omega : 0 ≤ (bs : Int))
  omega

/-- facts about entry `jj` of block row `i`: it is inside `Aj`, its block inside `Ax`, its column a block column -/
theorem brow (G : Csr α) (bs : Nat) (hG : WFb G bs) (i : Int) (i0 : 0 ≤ i) (i1 : i < (G.n : Int)) (jj : Int)
    (j1 : G.ap.getD i.toNat 0 ≤ jj) (j2 : jj < G.ap.getD (i.toNat + 1) 0) :
    0 ≤ jj ∧ jj.toNat < G.aj.size ∧
      (0 ≤ jj * ((bs : Int) * (bs : Int)) ∧
        jj * ((bs : Int) * (bs : Int)) + (bs : Int) * (bs : Int) ≤ (G.ax.size : Int)) ∧
      (0 ≤ G.aj.getD jj.toNat 0 ∧ G.aj.getD jj.toNat 0 < (G.n : Int)) := by
  have hr := row_range_m (pat G.n G.ap G.aj) hG.pat i.toNat (by show i.toNat < G.n; omega) jj j1 j2
  have hr1 : jj.toNat < G.aj.size := hr.2.1
  exact ⟨hr.1, hr1, blk_ext G bs hG jj hr.1 hr1, hG.pat.cols jj.toNat hr1⟩

theorem rd_bp_safe (G : Csr α) (bs : Nat) (hG : WFb G bs) (i : Int) (i0 : 0 ≤ i) (i1 : i < (G.n : Int)) :
    Safe (rd G.ap i) (fun s => s = G.ap.getD i.toNat 0) ∧
    Safe (rd G.ap (i+1)) (fun e => e = G.ap.getD (i.toNat + 1) 0) :=
  rd_ap_safe (pat G.n G.ap G.aj) hG.pat i i0 i1

/-- the two directions of the point sweep inside a block are admissible ranges over `0..bs-1` -/
theorem blockDir_adm (step : Int) (bs : Nat) :
    Adm bs (blockDir step bs).2.1 (blockDir step bs).2.2 (blockDir step bs).1 bs := by
  unfold blockDir
  by_cases h : step < 0
  · rw [if_pos h]; exact ⟨by show (-1 : Int) ≠ 0; omega, by show (-1 : Int) = (bs : Int) - 1 + (bs : Int) * (-1); omega,
      fun j hj => by show 0 ≤ (bs : Int) - 1 + (j : Int) * (-1) ∧ (bs : Int) - 1 + (j : Int) * (-1) < (bs : Int); omega⟩
  · rw [if_neg h]; exact ⟨by show (1 : Int) ≠ 0; omega, by show (bs : Int) = 0 + (bs : Int) * 1; omega,
      fun j hj => by show 0 ≤ 0 + (j : Int) * 1 ∧ 0 + (j : Int) * 1 < (bs : Int); omega⟩

/-! ### shared pieces of the BSR kernels -/

theorem bsrInitRsum_safe (n bs : Nat) (b : Array α) (hb : b.size = n * bs) (i : Int) (i0 : 0 ≤ i)
    (i1 : i < (n : Int)) (rsum : Array α) (hr : rsum.size = bs) :
    Safe (bsrInitRsum b bs i rsum) (fun rs => rs.size = bs) := by
  unfold bsrInitRsum
  apply forRange_safe (fun rs : Array α => rs.size = bs) _ _ _ _ hr
  intro k k0 k1 rs hrs
  have hv := vec_ext n bs i i0 i1
  refine Safe.bind (rd_ok b _ (by omega) (by rw [size_cast hb]; omega)) (fun bv _ => ?_)
  exact Safe.mono (wr_ok rs k bv k0 (by rw [hrs]; exact k1)) (fun a' h => by rw [h, hrs])

/-- one `gemm` of a stored block with a vector block into a work vector -/
theorem gemm_blk_safe (o : KOps α) (G : Csr α) (bs : Nat) (hG : WFb G bs) (jj : Int) (h0 : 0 ≤ jj)
    (h1 : jj.toNat < G.aj.size) (v : Array α) (hv : v.size = G.n * bs) (j : Int) (j0 : 0 ≤ j)
    (j1 : j < (G.n : Int)) (w : Array α) (hw : w.size = bs) :
    Safe (gemmFF o G.ax (jj * ((bs : Int) * (bs : Int))) bs bs v (j * (bs : Int)) bs 1 w 0 bs 1)
      (fun w' => w'.size = bs) := by
  have hb := blk_ext G bs hG jj h0 h1
  have hve := vec_ext G.n bs j j0 j1
  have one : ((1 : Nat) : Int) = 1 := rfl
  refine Safe.mono (gemmFF_safe o G.ax _ bs bs v _ bs 1 w 0 bs 1 hb.1 hb.2 hve.1
    (by rw [one, Int.one_mul, size_cast hv]; exact hve.2) (Int.le_refl 0)
    (by rw [one, Int.mul_one, hw]; omega) (Nat.le_refl bs) (Int.le_refl _)) (fun w' h => by rw [h, hw])

theorem bsrOffDiag_safe (o : KOps α) (G : Csr α) (bs : Nat) (hG : WFb G bs) (v : Array α)
    (hv : v.size = G.n * bs) (i : Int) (i0 : 0 ≤ i) (i1 : i < (G.n : Int)) (rsum axloc : Array α)
    (hr : rsum.size = bs) (ha : axloc.size = bs) :
    Safe (bsrOffDiag o G bs v i (G.ap.getD i.toNat 0) (G.ap.getD (i.toNat + 1) 0) rsum axloc)
      (fun acc => acc.1.size = bs ∧ acc.2.1.size = bs ∧
        (acc.2.2 ≠ -1 → 0 ≤ acc.2.2 ∧ acc.2.2 + (bs : Int) * (bs : Int) ≤ (G.ax.size : Int))) := by
  unfold bsrOffDiag
  apply forRange_safe _ _ _ _ _ ⟨hr, ha, fun h => absurd rfl h⟩
  intro jj j1 j2 acc hacc
  obtain ⟨f1, f2, f3, f4⟩ := brow G bs hG i i0 i1 jj j1 j2
  refine Safe.bind (rd_safe G.aj jj f1 f2) (fun j hj => ?_)
  have hj' : j = G.aj.getD jj.toNat 0 := hj
  by_cases hij : i = j
  · rw [if_pos hij]; exact Safe.pure ⟨hacc.1, hacc.2.1, fun _ => f3⟩
  · rw [if_neg hij]
    refine Safe.bind (gemm_blk_safe o G bs hG jj f1 f2 v hv j (by rw [hj']; exact f4.1)
      (by rw [hj']; exact f4.2) acc.2.1 hacc.2.1) (fun axl haxl => ?_)
    refine Safe.bind (P := fun rs : Array α => rs.size = bs) ?_ (fun rs hrs => Safe.pure ⟨hrs, haxl, hacc.2.2⟩)
    apply forRange_safe (fun rs : Array α => rs.size = bs) _ _ _ _ hacc.1
    intro m m0 m1 rs hrs
    refine Safe.bind (rd_ok rs m m0 (by rw [hrs]; exact m1)) (fun r _ => ?_)
    refine Safe.bind (rd_ok axl m m0 (by rw [haxl]; exact m1)) (fun a _ => ?_)
    exact Safe.mono (wr_ok rs m _ m0 (by rw [hrs]; exact m1)) (fun a' h => by rw [h, hrs])

theorem bsrPointRow_safe (o : KOps α) (G : Csr α) (bs : Nat) (v : Array α) (hv : v.size = G.n * bs)
    (i : Int) (i0 : 0 ≤ i) (i1 : i < (G.n : Int)) (dptr : Int) (d0 : 0 ≤ dptr)
    (d1 : dptr + (bs : Int) * (bs : Int) ≤ (G.ax.size : Int)) (k : Int) (k0 : 0 ≤ k) (k1 : k < (bs : Int))
    (kk : Int) (kk0 : 0 ≤ kk) (kk1 : kk < (bs : Int)) (acc : Array α × α) (hacc : acc.1.size = bs) :
    Safe (bsrPointRow o G bs v i dptr k kk acc) (fun acc' => acc'.1.size = bs) := by
  have hix := idx_lt k0 k1 kk0 kk1
  have hve := vec_ext G.n bs i i0 i1
  unfold bsrPointRow
  by_cases hk : k = kk
  · rw [if_pos hk]
    exact Safe.bind (rd_ok G.ax _ (by omega) (by omega)) (fun d _ => Safe.pure hacc)
  · rw [if_neg hk]
    refine Safe.bind (rd_ok acc.1 k k0 (by rw [hacc]; exact k1)) (fun rk _ => ?_)
    refine Safe.bind (rd_ok G.ax _ (by omega) (by omega)) (fun a _ => ?_)
    refine Safe.bind (rd_ok v _ (by omega) (by rw [size_cast hv]; omega)) (fun xv _ => ?_)
    refine Safe.bind (wr_ok acc.1 k _ k0 (by rw [hacc]; exact k1)) (fun rs hrs => ?_)
    exact Safe.pure (by show rs.size = bs; rw [hrs, hacc])

/-- the `kk` sweep of a point step terminates and stays in range -/
theorem bsrPointSweep_safe (o : KOps α) (G : Csr α) (bs : Nat) (step : Int) (v : Array α)
    (hv : v.size = G.n * bs) (i : Int) (i0 : 0 ≤ i) (i1 : i < (G.n : Int)) (dptr : Int) (d0 : 0 ≤ dptr)
    (d1 : dptr + (bs : Int) * (bs : Int) ≤ (G.ax.size : Int)) (k : Int) (k0 : 0 ≤ k) (k1 : k < (bs : Int))
    (rsum : Array α) (hr : rsum.size = bs) (d : α) :
    Safe (orFault (forStride (blockDir step bs).2.2 (blockDir step bs).1 (bsrPointRow o G bs v i dptr k) bs
      (blockDir step bs).2.1 (pure (rsum, d)))) (fun acc => acc.1.size = bs) := by
  apply orFault_safe
  exact forStride_safe (fun acc : Array α × α => acc.1.size = bs) bs _ _ _
    (fun kk kk0 kk1 acc hacc => bsrPointRow_safe o G bs v hv i i0 i1 dptr d0 d1 k k0 k1 kk kk0 kk1 acc hacc)
    bs _ (blockDir_adm step bs) bs (Nat.le_refl bs) _ (Safe.pure hr)

/-! ### `bsr_gauss_seidel` -/

theorem bsrGsPoint_safe (o : KOps α) (G : Csr α) (bs : Nat) (step : Int) (i : Int) (i0 : 0 ≤ i)
    (i1 : i < (G.n : Int)) (dptr : Int) (d0 : 0 ≤ dptr)
    (d1 : dptr + (bs : Int) * (bs : Int) ≤ (G.ax.size : Int)) (k : Int) (k0 : 0 ≤ k) (k1 : k < (bs : Int))
    (xs : Array α × Array α) (hxs : xs.1.size = G.n * bs ∧ xs.2.size = bs) :
    Safe (bsrGsPoint o G bs (blockDir step bs) i dptr k xs)
      (fun xs' => xs'.1.size = G.n * bs ∧ xs'.2.size = bs) := by
  have hve := vec_ext G.n bs i i0 i1
  unfold bsrGsPoint
  refine Safe.bind (bsrPointSweep_safe o G bs step xs.1 hxs.1 i i0 i1 dptr d0 d1 k k0 k1 xs.2 hxs.2 o.one)
    (fun dr hdr => ?_)
  by_cases hz : o.isZero dr.2 = true
  · rw [if_pos hz]; exact Safe.pure ⟨hxs.1, hdr⟩
  · rw [if_neg hz]
    refine Safe.bind (rd_ok dr.1 k k0 (by rw [hdr]; exact k1)) (fun rk _ => ?_)
    refine Safe.bind (wr_ok xs.1 _ _ (by omega) (by rw [size_cast hxs.1]; omega)) (fun x' hx' => ?_)
    exact Safe.pure ⟨by show x'.size = G.n * bs; rw [hx', hxs.1], hdr⟩

def BInv3 (n bs : Nat) (st : BSt α) : Prop := st.1.size = n * bs ∧ st.2.1.size = bs ∧ st.2.2.size = bs

theorem bsrGsRow_safe (o : KOps α) (G : Csr α) (bs : Nat) (hG : WFb G bs) (b : Array α)
    (hb : b.size = G.n * bs) (step : Int) (i : Int) (i0 : 0 ≤ i) (i1 : i < (G.n : Int)) (st : BSt α)
    (hst : BInv3 G.n bs st) :
    Safe (bsrGsRow o G b bs (blockDir step bs) i st) (BInv3 G.n bs) := by
  obtain ⟨h1, h2, h3⟩ := hst
  obtain ⟨q1, q2⟩ := rd_bp_safe G bs hG i i0 i1
  unfold bsrGsRow
  refine Safe.bind q1 (fun s hs => ?_)
  refine Safe.bind q2 (fun e he => ?_)
  subst hs; subst he
  refine Safe.bind (bsrInitRsum_safe G.n bs b hb i i0 i1 st.2.1 h2) (fun rsum hrsum => ?_)
  refine Safe.bind (bsrOffDiag_safe o G bs hG st.1 h1 i i0 i1 rsum st.2.2 hrsum h3) (fun r hr => ?_)
  by_cases hd : r.2.2 ≠ -1
  · rw [if_pos hd]
    have hdp := hr.2.2 hd
    refine Safe.bind (P := fun xs : Array α × Array α => xs.1.size = G.n * bs ∧ xs.2.size = bs) ?_
      (fun xr hxr => Safe.pure ⟨hxr.1, hxr.2, hr.2.1⟩)
    apply orFault_safe
    exact forStride_safe (fun xs : Array α × Array α => xs.1.size = G.n * bs ∧ xs.2.size = bs) bs _ _ _
      (fun k k0 k1 xs hxs => bsrGsPoint_safe o G bs step i i0 i1 r.2.2 hdp.1 hdp.2 k k0 k1 xs hxs)
      bs _ (blockDir_adm step bs) bs (Nat.le_refl bs) _ (Safe.pure ⟨h1, hr.1⟩)
  · rw [if_neg hd]; exact Safe.pure ⟨h1, hr.1, hr.2.1⟩

/-- **`bsr_gauss_seidel`**: for every structurally valid BSR matrix with `G.n` block rows and any block
size, `x`, `b` of length `n*blocksize` and every admissible block-row range, the sweep -- including the
`gemm` calls and the forward/backward point sweeps inside the diagonal blocks -- terminates and no
access leaves `Ap`, `Aj`, `Ax`, `x`, `b` or the work vectors `rsum`, `Axloc` -/
theorem bsrGaussSeidel_safe (o : KOps α) (G : Csr α) (bs : Nat) (hG : WFb G bs) (b : Array α)
    (hb : b.size = G.n * bs) (start stop step : Int) (k : Nat) (hadm : Adm G.n start stop step k)
    (fuel : Nat) (hf : k ≤ fuel) (x : Array α) (hx : x.size = G.n * bs) :
    ∃ r, bsrGaussSeidel o G b bs start stop step fuel x = some r ∧
      Safe r (fun st => st.1.size = G.n * bs) := by
  unfold bsrGaussSeidel
  obtain ⟨r, e, hr⟩ := forStride_safe (BInv3 G.n bs) G.n stop step (bsrGsRow o G b bs (blockDir step bs))
    (fun i i0 i1 st hst => bsrGsRow_safe o G bs hG b hb step i i0 i1 st hst) k start hadm fuel hf
    (pure (x, Array.replicate bs default, Array.replicate bs default))
    (Safe.pure ⟨hx, by simp, by simp⟩)
  exact ⟨r, e, Safe.mono hr (fun st h => h.1)⟩

/-! ### `bsr_jacobi` -/

def BInv4 (n bs : Nat) (st : BJSt α) : Prop :=
  st.1.size = n * bs ∧ st.2.1.size = n * bs ∧ st.2.2.1.size = bs ∧ st.2.2.2.size = bs

theorem bsrJacPoint_safe (o : KOps α) (om : α) (G : Csr α) (bs : Nat) (step : Int) (temp : Array α)
    (ht : temp.size = G.n * bs) (i : Int) (i0 : 0 ≤ i) (i1 : i < (G.n : Int)) (dptr : Int) (d0 : 0 ≤ dptr)
    (d1 : dptr + (bs : Int) * (bs : Int) ≤ (G.ax.size : Int)) (k : Int) (k0 : 0 ≤ k) (k1 : k < (bs : Int))
    (xs : Array α × Array α) (hxs : xs.1.size = G.n * bs ∧ xs.2.size = bs) :
    Safe (bsrJacPoint o om G bs (blockDir step bs) temp i dptr k xs)
      (fun xs' => xs'.1.size = G.n * bs ∧ xs'.2.size = bs) := by
  have hve := vec_ext G.n bs i i0 i1
  unfold bsrJacPoint
  refine Safe.bind (bsrPointSweep_safe o G bs step temp ht i i0 i1 dptr d0 d1 k k0 k1 xs.2 hxs.2 o.one)
    (fun dr hdr => ?_)
  by_cases hz : o.isZero dr.2 = true
  · rw [if_pos hz]; exact Safe.pure ⟨hxs.1, hdr⟩
  · rw [if_neg hz]
    refine Safe.bind (rd_ok temp _ (by omega) (by rw [size_cast ht]; omega)) (fun t _ => ?_)
    refine Safe.bind (rd_ok dr.1 k k0 (by rw [hdr]; exact k1)) (fun rk _ => ?_)
    refine Safe.bind (wr_ok xs.1 _ _ (by omega) (by rw [size_cast hxs.1]; omega)) (fun x' hx' => ?_)
    exact Safe.pure ⟨by show x'.size = G.n * bs; rw [hx', hxs.1], hdr⟩

theorem bsrJacRow_safe (o : KOps α) (om : α) (G : Csr α) (bs : Nat) (hG : WFb G bs) (b : Array α)
    (hb : b.size = G.n * bs) (step : Int) (i : Int) (i0 : 0 ≤ i) (i1 : i < (G.n : Int)) (st : BJSt α)
    (hst : BInv4 G.n bs st) :
    Safe (bsrJacRow o om G b bs (blockDir step bs) i st) (BInv4 G.n bs) := by
  obtain ⟨h1, h2, h3, h4⟩ := hst
  obtain ⟨q1, q2⟩ := rd_bp_safe G bs hG i i0 i1
  unfold bsrJacRow
  refine Safe.bind q1 (fun s hs => ?_)
  refine Safe.bind q2 (fun e he => ?_)
  subst hs; subst he
  refine Safe.bind (bsrInitRsum_safe G.n bs b hb i i0 i1 st.2.2.1 h3) (fun rsum hrsum => ?_)
  refine Safe.bind (bsrOffDiag_safe o G bs hG st.2.1 h2 i i0 i1 rsum st.2.2.2 hrsum h4) (fun r hr => ?_)
  by_cases hd : r.2.2 ≠ -1
  · rw [if_pos hd]
    have hdp := hr.2.2 hd
    refine Safe.bind (P := fun xs : Array α × Array α => xs.1.size = G.n * bs ∧ xs.2.size = bs) ?_
      (fun xr hxr => Safe.pure ⟨hxr.1, h2, hxr.2, hr.2.1⟩)
    apply orFault_safe
    exact forStride_safe (fun xs : Array α × Array α => xs.1.size = G.n * bs ∧ xs.2.size = bs) bs _ _ _
      (fun k k0 k1 xs hxs => bsrJacPoint_safe o om G bs step st.2.1 h2 i i0 i1 r.2.2 hdp.1 hdp.2 k k0 k1 xs hxs)
      bs _ (blockDir_adm step bs) bs (Nat.le_refl bs) _ (Safe.pure ⟨h1, hr.1⟩)
  · rw [if_neg hd]; exact Safe.pure ⟨h1, h2, hr.1, hr.2.1⟩

/-- **`bsr_jacobi`**: `omega` has at least one entry, `x`, `b`, `temp` have `n*blocksize` entries; the copy
loop over `x_size` entries, the `gemm` calls and the point sweeps stay in range and terminate -/
theorem bsrJacobi_safe (o : KOps α) (omv : Array α) (hom : 0 < omv.size) (G : Csr α) (bs : Nat)
    (hG : WFb G bs) (b : Array α) (hb : b.size = G.n * bs) (start stop step : Int) (k : Nat)
    (hadm : Adm G.n start stop step k) (fuel : Nat) (hf : k ≤ fuel) (x temp : Array α)
    (hx : x.size = G.n * bs) (ht : temp.size = G.n * bs) :
    ∃ r, bsrJacobi o omv G b bs start stop step fuel x temp = some r ∧
      Safe r (fun st => st.1.size = G.n * bs ∧ st.2.1.size = G.n * bs) := by
  unfold bsrJacobi
  have h0 : Safe (do
      let _ ← rd omv 0
      let t ← forRange 0 (x.size : Int) temp (fun i (t : Array α) => do
        let xi ← rd x i
        wr t i xi)
      (pure (x, t, Array.replicate bs default, Array.replicate bs default) : Ck (BJSt α)))
      (BInv4 G.n bs) := by
    refine Safe.bind (rd_safe omv 0 (Int.le_refl 0) (by simpa using hom)) (fun _ _ => ?_)
    refine Safe.bind (P := fun t : Array α => t.size = G.n * bs) ?_
      (fun t htt => Safe.pure ⟨hx, htt, by simp, by simp⟩)
    apply forRange_safe (fun t : Array α => t.size = G.n * bs) _ _ _ _ ht
    intro i i0 i1 t htt
    refine Safe.bind (rd_ok x i i0 i1) (fun xi _ => ?_)
    exact Safe.mono (wr_ok t i xi i0 (by rw [htt, ← hx]; exact i1)) (fun a' h => by rw [h, htt])
  obtain ⟨r, e, hr⟩ := forStride_safe (BInv4 G.n bs) G.n stop step
    (bsrJacRow o (rd omv 0).val G b bs (blockDir step bs))
    (fun i i0 i1 st hst => bsrJacRow_safe o _ G bs hG b hb step i i0 i1 st hst) k start hadm fuel hf _ h0
  exact ⟨r, e, Safe.mono hr (fun st h => ⟨h.1, h.2.1⟩)⟩

/-! ### `block_jacobi`, `block_gauss_seidel` -/

theorem blkZero_safe (o : KOps α) (bs : Nat) (rsum : Array α) (hr : rsum.size = bs) :
    Safe (blkZero o bs rsum) (fun rs => rs.size = bs) := by
  unfold blkZero
  apply forRange_safe (fun rs : Array α => rs.size = bs) _ _ _ _ hr
  intro k k0 k1 rs hrs
  exact Safe.mono (wr_ok rs k _ k0 (by rw [hrs]; exact k1)) (fun a' h => by rw [h, hrs])

theorem blkOffDiag_safe (o : KOps α) (G : Csr α) (bs : Nat) (hG : WFb G bs) (w : Array α)
    (hw : w.size = G.n * bs) (i : Int) (i0 : 0 ≤ i) (i1 : i < (G.n : Int)) (rsum v : Array α)
    (hr : rsum.size = bs) (hv : v.size = bs) :
    Safe (blkOffDiag o G bs w i (G.ap.getD i.toNat 0) (G.ap.getD (i.toNat + 1) 0) rsum v)
      (fun acc => acc.1.size = bs ∧ acc.2.size = bs) := by
  unfold blkOffDiag
  apply forRange_safe _ _ _ _ _ ⟨hr, hv⟩
  intro jj j1 j2 acc hacc
  obtain ⟨f1, f2, f3, f4⟩ := brow G bs hG i i0 i1 jj j1 j2
  refine Safe.bind (rd_safe G.aj jj f1 f2) (fun j hj => ?_)
  have hj' : j = G.aj.getD jj.toNat 0 := hj
  by_cases hij : i = j
  · rw [if_pos hij]; exact Safe.pure hacc
  · rw [if_neg hij]
    refine Safe.bind (gemm_blk_safe o G bs hG jj f1 f2 w hw j (by rw [hj']; exact f4.1)
      (by rw [hj']; exact f4.2) acc.2 hacc.2) (fun v' hv' => ?_)
    refine Safe.bind (P := fun rs : Array α => rs.size = bs) ?_ (fun rs hrs => Safe.pure ⟨hrs, hv'⟩)
    apply forRange_safe (fun rs : Array α => rs.size = bs) _ _ _ _ hacc.1
    intro m m0 m1 rs hrs
    refine Safe.bind (rd_ok rs m m0 (by rw [hrs]; exact m1)) (fun r _ => ?_)
    refine Safe.bind (rd_ok v' m m0 (by rw [hv']; exact m1)) (fun a _ => ?_)
    exact Safe.mono (wr_ok rs m _ m0 (by rw [hrs]; exact m1)) (fun a' h => by rw [h, hrs])

theorem blkResid_safe (o : KOps α) (n bs : Nat) (b : Array α) (hb : b.size = n * bs) (i : Int)
    (i0 : 0 ≤ i) (i1 : i < (n : Int)) (rsum : Array α) (hr : rsum.size = bs) :
    Safe (blkResid o b bs i rsum) (fun rs => rs.size = bs) := by
  unfold blkResid
  apply forRange_safe (fun rs : Array α => rs.size = bs) _ _ _ _ hr
  intro k k0 k1 rs hrs
  have hv := vec_ext n bs i i0 i1
  refine Safe.bind (rd_ok b _ (by omega) (by rw [size_cast hb]; omega)) (fun bv _ => ?_)
  refine Safe.bind (rd_ok rs k k0 (by rw [hrs]; exact k1)) (fun r _ => ?_)
  exact Safe.mono (wr_ok rs k _ k0 (by rw [hrs]; exact k1)) (fun a' h => by rw [h, hrs])

/-- `gemm(&Dinv[i*bs²], bs, bs, rsum, bs, 1, &S[so], bs, 1)` -/
theorem gemm_dinv_safe (o : KOps α) (n bs : Nat) (dinv : Array α) (hd : dinv.size = n * (bs * bs))
    (i : Int) (i0 : 0 ≤ i) (i1 : i < (n : Int)) (rsum : Array α) (hr : rsum.size = bs) (sx : Array α)
    (so : Int) (s0 : 0 ≤ so) (s1 : so + (bs : Int) ≤ (sx.size : Int)) :
    Safe (gemmFF o dinv (i * ((bs : Int) * (bs : Int))) bs bs rsum 0 bs 1 sx so bs 1)
      (fun s' => s'.size = sx.size) := by
  have hve := vec_ext n (bs * bs) i i0 i1
  have hc : ((bs * bs : Nat) : Int) = (bs : Int) * (bs : Int) := Int.natCast_mul bs bs
  rw [hc] at hve
  have one : ((1 : Nat) : Int) = 1 := rfl
  have hds : (dinv.size : Int) = (n : Int) * ((bs : Int) * (bs : Int)) := by rw [size_cast hd, hc]
  exact gemmFF_safe o dinv _ bs bs rsum 0 bs 1 sx so bs 1 hve.1 (by rw [hds]; exact hve.2) (Int.le_refl 0)
    (by rw [one, Int.one_mul, hr]; omega) s0 (by rw [one, Int.mul_one]; exact s1) (Nat.le_refl bs) (Int.le_refl _)

theorem blkCopy_safe (n bs : Nat) (i : Int) (i0 : 0 ≤ i) (i1 : i < (n : Int)) (st : BJSt α)
    (hst : BInv4 n bs st) : Safe (blkCopy bs i st) (BInv4 n bs) := by
  obtain ⟨h1, h2, h3, h4⟩ := hst
  have hv := vec_ext n bs i i0 i1
  unfold blkCopy
  refine Safe.bind (P := fun t : Array α => t.size = n * bs) ?_ (fun t htt => Safe.pure ⟨h1, htt, h3, h4⟩)
  apply forRange_safe (fun t : Array α => t.size = n * bs) _ _ _ _ h2
  intro k k0 k1 t htt
  refine Safe.bind (rd_ok st.1 _ (by omega) (by rw [size_cast h1]; omega)) (fun xv _ => ?_)
  exact Safe.mono (wr_ok t _ xv (by omega) (by rw [size_cast htt]; omega)) (fun a' h => by rw [h, htt])

theorem blkJacRow_safe (o : KOps α) (om : α) (G : Csr α) (bs : Nat) (hG : WFb G bs) (b dinv : Array α)
    (hb : b.size = G.n * bs) (hd : dinv.size = G.n * (bs * bs)) (i : Int) (i0 : 0 ≤ i)
    (i1 : i < (G.n : Int)) (st : BJSt α) (hst : BInv4 G.n bs st) :
    Safe (blkJacRow o om G b dinv bs i st) (BInv4 G.n bs) := by
  obtain ⟨h1, h2, h3, h4⟩ := hst
  obtain ⟨q1, q2⟩ := rd_bp_safe G bs hG i i0 i1
  have hv := vec_ext G.n bs i i0 i1
  unfold blkJacRow
  refine Safe.bind q1 (fun s hs => ?_)
  refine Safe.bind q2 (fun e he => ?_)
  subst hs; subst he
  refine Safe.bind (blkZero_safe o bs st.2.2.1 h3) (fun rsum hrsum => ?_)
  refine Safe.bind (blkOffDiag_safe o G bs hG st.2.1 h2 i i0 i1 rsum st.2.2.2 hrsum h4) (fun r hr => ?_)
  refine Safe.bind (blkResid_safe o G.n bs b hb i i0 i1 r.1 hr.1) (fun rsum2 hrsum2 => ?_)
  refine Safe.bind (gemm_dinv_safe o G.n bs dinv hd i i0 i1 rsum2 hrsum2 r.2 0 (Int.le_refl 0)
    (by rw [hr.2]; omega)) (fun v hv' => ?_)
  refine Safe.bind (P := fun x : Array α => x.size = G.n * bs) ?_
    (fun x hx => Safe.pure ⟨hx, h2, hrsum2, by show v.size = bs; rw [hv', hr.2]⟩)
  apply forRange_safe (fun x : Array α => x.size = G.n * bs) _ _ _ _ h1
  intro k k0 k1 x hx
  refine Safe.bind (rd_ok st.2.1 _ (by omega) (by rw [size_cast h2]; omega)) (fun t _ => ?_)
  refine Safe.bind (rd_ok v k k0 (by rw [hv', hr.2]; exact k1)) (fun vk _ => ?_)
  exact Safe.mono (wr_ok x _ _ (by omega) (by rw [size_cast hx]; omega)) (fun a' h => by rw [h, hx])

/-- **`block_jacobi`**: `Tx` (the inverted diagonal blocks) has `n*blocksize²` entries, `x`, `b`, `temp`
have `n*blocksize`, `omega` at least one; both strided loops terminate and stay in range -/
theorem blockJacobi_safe (o : KOps α) (omv : Array α) (hom : 0 < omv.size) (G : Csr α) (bs : Nat)
    (hG : WFb G bs) (b dinv : Array α) (hb : b.size = G.n * bs) (hd : dinv.size = G.n * (bs * bs))
    (start stop step : Int) (k : Nat) (hadm : Adm G.n start stop step k) (fuel : Nat) (hf : k ≤ fuel)
    (x temp : Array α) (hx : x.size = G.n * bs) (ht : temp.size = G.n * bs) :
    ∃ r, blockJacobi o omv G b dinv bs start stop step fuel x temp = some r ∧
      Safe r (fun st => st.1.size = G.n * bs ∧ st.2.1.size = G.n * bs) := by
  have h0 : Safe (rd omv 0 >>= fun _ =>
      (pure (x, temp, Array.replicate bs default, Array.replicate bs default) : Ck (BJSt α))) (BInv4 G.n bs) :=
    Safe.bind (rd_safe omv 0 (Int.le_refl 0) (by simpa using hom))
      (fun _ _ => Safe.pure ⟨hx, ht, by simp, by simp⟩)
  obtain ⟨r1, e1, s1⟩ := forStride_safe (BInv4 G.n bs) G.n stop step (blkCopy bs)
    (fun i i0 i1 st hst => blkCopy_safe G.n bs i i0 i1 st hst) k start hadm fuel hf _ h0
  unfold blockJacobi
  simp only [e1]
  obtain ⟨r, e, hr⟩ := forStride_safe (BInv4 G.n bs) G.n stop step
    (blkJacRow o (rd omv 0).val G b dinv bs)
    (fun i i0 i1 st hst => blkJacRow_safe o _ G bs hG b dinv hb hd i i0 i1 st hst) k start hadm fuel hf r1 s1
  exact ⟨r, e, Safe.mono hr (fun st h => ⟨h.1, h.2.1⟩)⟩

theorem blkGsRow_safe (o : KOps α) (G : Csr α) (bs : Nat) (hG : WFb G bs) (b dinv : Array α)
    (hb : b.size = G.n * bs) (hd : dinv.size = G.n * (bs * bs)) (i : Int) (i0 : 0 ≤ i)
    (i1 : i < (G.n : Int)) (st : BSt α) (hst : BInv3 G.n bs st) :
    Safe (blkGsRow o G b dinv bs i st) (BInv3 G.n bs) := by
  obtain ⟨h1, h2, h3⟩ := hst
  obtain ⟨q1, q2⟩ := rd_bp_safe G bs hG i i0 i1
  have hv := vec_ext G.n bs i i0 i1
  unfold blkGsRow
  refine Safe.bind q1 (fun s hs => ?_)
  refine Safe.bind q2 (fun e he => ?_)
  subst hs; subst he
  refine Safe.bind (blkZero_safe o bs st.2.1 h2) (fun rsum hrsum => ?_)
  refine Safe.bind (blkOffDiag_safe o G bs hG st.1 h1 i i0 i1 rsum st.2.2 hrsum h3) (fun r hr => ?_)
  refine Safe.bind (blkResid_safe o G.n bs b hb i i0 i1 r.1 hr.1) (fun rsum2 hrsum2 => ?_)
  refine Safe.bind (gemm_dinv_safe o G.n bs dinv hd i i0 i1 rsum2 hrsum2 st.1 _ hv.1
    (by rw [size_cast h1]; exact hv.2)) (fun x hx => ?_)
  exact Safe.pure ⟨by show x.size = G.n * bs; rw [hx, h1], hrsum2, hr.2⟩

/-- **`block_gauss_seidel`**: the last `gemm` of each block row writes directly into `x` at offset
`i*blocksize` -/
theorem blockGaussSeidel_safe (o : KOps α) (G : Csr α) (bs : Nat) (hG : WFb G bs) (b dinv : Array α)
    (hb : b.size = G.n * bs) (hd : dinv.size = G.n * (bs * bs)) (start stop step : Int) (k : Nat)
    (hadm : Adm G.n start stop step k) (fuel : Nat) (hf : k ≤ fuel) (x : Array α)
    (hx : x.size = G.n * bs) :
    ∃ r, blockGaussSeidel o G b dinv bs start stop step fuel x = some r ∧
      Safe r (fun st => st.1.size = G.n * bs) := by
  unfold blockGaussSeidel
  obtain ⟨r, e, hr⟩ := forStride_safe (BInv3 G.n bs) G.n stop step (blkGsRow o G b dinv bs)
    (fun i i0 i1 st hst => blkGsRow_safe o G bs hG b dinv hb hd i i0 i1 st hst) k start hadm fuel hf
    (pure (x, Array.replicate bs default, Array.replicate bs default))
    (Safe.pure ⟨hx, by simp, by simp⟩)
  exact ⟨r, e, Safe.mono hr (fun st h => h.1)⟩

end PyamgV.C17
