import PyamgV.Proofs.C14Pub

/-! PyamgV (C14): the distance filter of the evolution / distance / algebraic-distance / affinity
measures (`apply_distance_filter`, evolution_strength.h:141-172), `amalgamate`, and the row-wise
form of the public models. -/
namespace PyamgV.C14
open PyamgV PyamgV.N

variable {α : Type}

/-- the running minimum of the off-diagonal "distances", started at `big` -/
def minOff (big : Rat) (i : Nat) (row : Row) : Rat :=
  row.foldl (fun m cv => if cv.1 ≠ i then min m cv.2 else m) big

theorem minOff_acc_le (i : Nat) (row : Row) (m : Rat) :
    row.foldl (fun m cv => if cv.1 ≠ i then min m cv.2 else m) m ≤ m := by
  induction row generalizing m with
  | nil => simp
  | cons cv rest ih =>
    simp only [List.foldl_cons]
    split
    · exact le_trans (ih _) (min_le_left _ _)
    · exact ih _

theorem minOff_le (big : Rat) (i : Nat) (row : Row) :
    ∀ cv ∈ row, cv.1 ≠ i → minOff big i row ≤ cv.2 := by
  unfold minOff
  generalize big = m
  induction row generalizing m with
  | nil => simp
  | cons c rest ih =>
    intro cv hcv hne
    simp only [List.foldl_cons]
    rcases List.mem_cons.1 hcv with rfl | h
    · simp only [hne, ne_eq, not_false_eq_true, if_true]
      exact le_trans (minOff_acc_le i rest _) (min_le_right _ _)
    · exact ih _ cv h hne

theorem distFilterRow_eq (big ε : Rat) (i : Nat) (row : Row) :
    distFilterRow big ε i row =
      row.map fun cv => if cv.1 = i then (cv.1, 1) else if cv.2 ≥ ε * minOff big i row then (cv.1, 0) else cv := rfl

/-- the filter never changes the pattern … -/
theorem distFilterRow_cols (big ε : Rat) (i : Nat) (row : Row) :
    (distFilterRow big ε i row).map Prod.fst = row.map Prod.fst := by
  rw [distFilterRow_eq, List.map_map]
  apply List.map_congr_left
  intro cv _
  simp only [Function.comp]
  split
  · rfl
  · split <;> rfl

/-- … sets every stored diagonal entry to one … -/
theorem distFilterRow_diag (big ε : Rat) (i : Nat) (row : Row) (cv : Nat × Rat)
    (h : cv ∈ distFilterRow big ε i row) (hi : cv.1 = i) : cv.2 = 1 := by
  rw [distFilterRow_eq] at h
  obtain ⟨c, _, rfl⟩ := List.mem_map.1 h
  by_cases hc : c.1 = i
  · simp [hc]
  · exfalso
    by_cases h2 : c.2 ≥ ε * minOff big i row
    · simp [hc, h2] at hi
    · simp [hc, h2] at hi

/-- … and with `ε > 1` keeps the closest connection: an off-diagonal entry of minimal positive
distance is not zeroed (so the row keeps an off-diagonal entry whenever it has one) -/
theorem distFilterRow_keeps_min (big ε : Rat) (hε : 1 < ε) (i : Nat) (row : Row) (cv : Nat × Rat)
    (h : cv ∈ row) (hne : cv.1 ≠ i) (hmin : cv.2 = minOff big i row) (hpos : 0 < cv.2) :
    cv ∈ distFilterRow big ε i row := by
  rw [distFilterRow_eq]
  apply List.mem_map.2
  refine ⟨cv, h, ?_⟩
  have hlt : ¬ (cv.2 ≥ ε * minOff big i row) := by
    rw [← hmin]
    intro hge
    have : cv.2 < ε * cv.2 := by
      have := mul_lt_mul_of_pos_right hε hpos
      simpa using this
    exact absurd hge (not_le.2 this)
  simp [hne, hlt]

/-! ### row-wise form of the public models -/

theorem pubClassical_row (nrm absf : α → Rat) (tinyK tiny θ : Rat) (rows : List (RowOf α)) (i : Nat) :
    (pubClassical nrm absf tinyK tiny θ rows)[i]? = (rows[i]?).map (pubClassicalRow nrm absf tinyK tiny θ i) :=
  mapRows_getElem? _ _ _

/-- row `i` of the model of `symmetric_strength_of_connection(A, θ)`: the symmetric kernel row with
`d j = ‖diagonal of row j‖`, then `np.abs`, then the row scaling -/
theorem pubSymmetric_row (nrm nsq : α → Rat) (add : α → α → α) (zero : α) (tiny θ : Rat)
    (rows : List (RowOf α)) (i : Nat) :
    (pubSymmetric nrm nsq add zero tiny θ rows)[i]? =
      (rows[i]?).map fun r => scaleRow tiny (absRow nrm
        (symRow nsq θ (fun j => ((rows[j]?).map (diagNorm nrm add zero j)).getD 0) i r)) := by
  unfold pubSymmetric
  rw [List.getElem?_map, symmetric_row]
  cases rows[i]? <;> simp

/-! ### `amalgamate` -/

theorem mem_insSorted (x y : Nat) (l : List Nat) : y ∈ insSorted x l ↔ y = x ∨ y ∈ l := by
  induction l with
  | nil => simp [insSorted]
  | cons z t ih =>
    unfold insSorted
    by_cases h1 : x < z
    · simp [h1]
    · by_cases h2 : x = z
      · subst h2; simp
      · simp only [h1, h2, if_false, List.mem_cons, ih]
        constructor
        · rintro (h | h | h)
          · exact Or.inr (Or.inl h)
          · exact Or.inl h
          · exact Or.inr (Or.inr h)
        · rintro (h | h | h)
          · exact Or.inr (Or.inl h)
          · exact Or.inl h
          · exact Or.inr (Or.inr h)

theorem mem_fold_insSorted (bs : Nat) (r : Row) (acc : List Nat) (J : Nat) :
    J ∈ r.foldl (fun acc cv => insSorted (cv.1 / bs) acc) acc ↔ J ∈ acc ∨ ∃ cv ∈ r, cv.1 / bs = J := by
  induction r generalizing acc with
  | nil => simp
  | cons c t ih =>
    simp only [List.foldl_cons, ih, mem_insSorted, List.mem_cons]
    constructor
    · rintro ((h | h) | ⟨cv, hcv, h⟩)
      · exact Or.inr ⟨c, Or.inl rfl, h.symm⟩
      · exact Or.inl h
      · exact Or.inr ⟨cv, Or.inr hcv, h⟩
    · rintro (h | ⟨cv, hcv | hcv, h⟩)
      · exact Or.inl (Or.inr h)
      · subst hcv; exact Or.inl (Or.inl h.symm)
      · exact Or.inr ⟨cv, hcv, h⟩

theorem mem_fold_rows (bs : Nat) (rs : List Row) (acc : List Nat) (J : Nat) :
    J ∈ rs.foldl (fun acc r => r.foldl (fun acc cv => insSorted (cv.1 / bs) acc) acc) acc ↔
      J ∈ acc ∨ ∃ r ∈ rs, ∃ cv ∈ r, cv.1 / bs = J := by
  induction rs generalizing acc with
  | nil => simp
  | cons r t ih =>
    simp only [List.foldl_cons, ih, mem_fold_insSorted, List.mem_cons]
    constructor
    · rintro ((h | ⟨cv, hcv, h⟩) | ⟨r', hr', cv, hcv, h⟩)
      · exact Or.inl h
      · exact Or.inr ⟨r, Or.inl rfl, cv, hcv, h⟩
      · exact Or.inr ⟨r', Or.inr hr', cv, hcv, h⟩
    · rintro (h | ⟨r', hr' | hr', cv, hcv, h⟩)
      · exact Or.inl (Or.inl h)
      · subst hr'; exact Or.inl (Or.inr ⟨cv, hcv, h⟩)
      · exact Or.inr ⟨r', hr', cv, hcv, h⟩

/-- nodal row `I` of `amalgamate(S, bs)` has column `J` (with value one) iff one of the scalar rows
`I·bs … I·bs+bs-1` of `S` has a stored entry in a column of block `J` -/
theorem amalgamate_mem (bs : Nat) (hbs : 0 < bs) (rows : List Row) (I : Nat) (hI : I < rows.length / bs)
    (c : Nat × Rat) :
    c ∈ (amalgamate bs rows).getD I [] ↔
      c.2 = 1 ∧ ∃ r ∈ (rows.drop (I * bs)).take bs, ∃ cv ∈ r, cv.1 / bs = c.1 := by
  unfold amalgamate
  simp only [Nat.ne_of_gt hbs, if_false]
  rw [List.getD_eq_getElem?_getD, List.getElem?_map, List.getElem?_range hI]
  simp only [Option.map_some, Option.getD_some, List.mem_map]
  constructor
  · rintro ⟨J, hJ, rfl⟩
    rw [mem_fold_rows] at hJ
    rcases hJ with h | h
    · simp at h
    · exact ⟨rfl, h⟩
  · rintro ⟨h1, h⟩
    refine ⟨c.1, (mem_fold_rows bs _ [] c.1).2 (Or.inr h), ?_⟩
    rw [← h1]

end PyamgV.C14

namespace PyamgV.C14
open PyamgV PyamgV.N
variable {α : Type}

/-- **monotone in θ at the level of the returned matrix** -/
theorem pubClassicalRow_mono (nrm absf : α → Rat) (tinyK tiny : Rat) (htK : 0 ≤ tinyK) (ht : 0 < tiny)
    (θ θ' : Rat) (h : θ ≤ θ') (i : Nat) (row : RowOf α) (j : Nat)
    (hj : j ∈ (pubClassicalRow nrm absf tinyK tiny θ' i row).map Prod.fst) :
    j ∈ (pubClassicalRow nrm absf tinyK tiny θ i row).map Prod.fst := by
  rw [pubClassicalRow_col_iff nrm absf tinyK tiny _ ht] at hj ⊢
  obtain ⟨cv, hcv, h1, h2, h3⟩ := hj
  refine ⟨cv, hcv, h1, h2, ?_⟩
  rcases h3 with h3 | h3
  · exact Or.inl h3
  · right
    have h0 : 0 ≤ maxOff nrm tinyK i row := le_trans htK (maxOff_ge nrm tinyK i row).1
    exact le_trans (mul_le_mul_of_nonneg_right h h0) h3

/-- **θ = 0 keeps the whole non-zero pattern** (non-negative norm: `abs`, `fro`, complex modulus) -/
theorem pubClassicalRow_theta_zero (nrm absf : α → Rat) (hn : ∀ a, 0 ≤ nrm a) (tinyK tiny : Rat) (ht : 0 < tiny)
    (i : Nat) (row : RowOf α) (j : Nat) :
    j ∈ (pubClassicalRow nrm absf tinyK tiny 0 i row).map Prod.fst ↔ ∃ cv ∈ row, cv.1 = j ∧ absf cv.2 ≠ 0 := by
  rw [pubClassicalRow_col_iff nrm absf tinyK tiny _ ht]
  constructor
  · rintro ⟨cv, hcv, h1, h2, _⟩; exact ⟨cv, hcv, h1, h2⟩
  · rintro ⟨cv, hcv, h1, h2⟩
    exact ⟨cv, hcv, h1, h2, Or.inr (by rw [zero_mul]; exact hn _)⟩

end PyamgV.C14

namespace PyamgV.C14
open PyamgV PyamgV.N

/-! ### block reductions of BSR input -/

theorem blockAbs_acc_le (b : List Rat) (m : Rat) : m ≤ b.foldl (fun m v => max m (absQ v)) m := by
  induction b generalizing m with
  | nil => simp
  | cons v t ih => simp only [List.foldl_cons]; exact le_trans (le_max_left _ _) (ih _)

/-- `'abs'`: the reduced value bounds every entry of the block in modulus … -/
theorem blockAbs_ge (b : List Rat) : ∀ v ∈ b, absQ v ≤ blockAbs b := by
  unfold blockAbs
  generalize (0 : Rat) = m
  induction b generalizing m with
  | nil => simp
  | cons w t ih =>
    intro v hv
    simp only [List.foldl_cons]
    rcases List.mem_cons.1 hv with rfl | h
    · exact le_trans (le_max_right _ _) (blockAbs_acc_le t _)
    · exact ih _ v h

/-- … and is the modulus of one of them (or `0` for an all-zero / empty block) -/
theorem blockAbs_attained (b : List Rat) : blockAbs b = 0 ∨ ∃ v ∈ b, absQ v = blockAbs b := by
  unfold blockAbs
  generalize (0 : Rat) = m
  induction b generalizing m with
  | nil => simp
  | cons w t ih =>
    simp only [List.foldl_cons]
    rcases ih (max m (absQ w)) with h | ⟨v, hv, heq⟩
    · rcases max_cases m (absQ w) with ⟨hm, _⟩ | ⟨hm, _⟩
      · left; rw [h, hm]
      · right; exact ⟨w, List.mem_cons_self, by rw [h, hm]⟩
    · right; exact ⟨v, List.mem_cons_of_mem _ hv, heq⟩

/-- `'abs'`: a block is reduced to zero iff all its entries are zero — so the nodal diagonal of a
non-zero diagonal block survives (unlike `'min'`, finding `classical-bsr-min-zero-block-minimum`) -/
theorem blockAbs_eq_zero_iff (b : List Rat) : blockAbs b = 0 ↔ ∀ v ∈ b, v = 0 := by
  constructor
  · intro h v hv
    have h1 := blockAbs_ge b v hv
    rw [h] at h1
    have h2 : absQ v = 0 := le_antisymm h1 (absQ_nonneg v)
    rw [absQ_eq_abs] at h2
    exact abs_eq_zero.1 h2
  · intro h
    rcases blockAbs_attained b with h0 | ⟨v, hv, heq⟩
    · exact h0
    · rw [← heq, h v hv]; simp [absQ]

end PyamgV.C14
