import PyamgV.Proofs.ExtC09XToBsr

/-! PyamgV (extension E33, property C09):
* what `Csr.toBsr` means for the quantities the block theorems of Proofs/ExtC09Block.lean talk about
  (`rowDotB`, `offDot`, `diagBlk`, single block entries): they are the CSR row sums of the input;
* the `block_jacobi_indexed` kernel and the `cf_block_jacobi` / `fc_block_jacobi` drivers compute their defining update;
* the public block routines on CSR input: public model = kernel model on the converted matrix = dense splitting update
  written with the CSR rows of the INPUT matrix. -/
namespace PyamgV.ExtC09X
open PyamgV PyamgV.K PyamgV.ExtC09 Finset

set_option linter.unusedSectionVars false
set_option linter.unusedVariables false

variable {R : Type} [Field R] [DecidableEq R]

/-! ### `toBsr` in the vocabulary of the block theorems -/

theorem blkDot_eq_blkSum (B : Bsr R) (js : List Nat) (y : Nat → R) (l : Nat) :
    blkDot B js y l = blkSum B.bs B.bj B.bx js l (fun J m => y (J * B.bs + m)) := rfl

theorem blkSum_filter_not (bs : Nat) (bj : Array Nat) (bx : Array R) (js : List Nat) (I l : Nat) (w : Nat → Nat → R) :
    blkSum bs bj bx (js.filter (fun p => !decide (rdN bj p = I))) l w =
      blkSum bs bj bx js l (fun J m => if J = I then 0 else w J m) := by
  unfold blkSum
  induction js with
  | nil => simp
  | cons p js ih =>
    by_cases h : rdN bj p = I
    · simp [h, ih]
    · simp [h, ih]

theorem blkSum_filter (bs : Nat) (bj : Array Nat) (bx : Array R) (js : List Nat) (J l : Nat) (w : Nat → Nat → R) :
    blkSum bs bj bx (js.filter (fun p => decide (rdN bj p = J))) l w =
      blkSum bs bj bx js l (fun J' m => if J' = J then w J' m else 0) := by
  unfold blkSum
  induction js with
  | nil => simp
  | cons p js ih =>
    by_cases h : rdN bj p = J
    · simp [h, ih]
    · simp [h, ih]

/-- the converted matrix exists exactly when SciPy accepts the block size -/
theorem toBsr_isSome (A : Csr R) (bs : Nat) (hbs : 0 < bs) (hd : A.n % bs = 0) : ∃ B, A.toBsr bs = some B := by
  by_cases h1 : bs = 1
  · refine ⟨⟨A.n, 1, A.ap, A.aj, A.ax⟩, ?_⟩
    unfold Csr.toBsr
    rw [if_neg (by omega), if_neg (not_not.2 hd), if_pos h1]
  · exact ⟨_, toBsr_eq A bs (by omega) h1 hd⟩

theorem toBsr_nb (A : Csr R) (bs : Nat) (B : Bsr R) (h : A.toBsr bs = some B) : B.nb = A.n / bs := by
  obtain ⟨hbs, _, hn, _⟩ := toBsr_sem A bs B h
  rw [← hn, Nat.mul_div_cancel _ hbs]

/-- **block row times vector = CSR rows times vector**: `(B y)_{I, l} = (A y)_{I·bs + l}` -/
theorem toBsr_rowDotB (A : Csr R) (bs : Nat) (B : Bsr R) (h : A.toBsr bs = some B) (I : Nat) (hI : I < B.nb)
    (l : Nat) (hl : l < bs) (y : Nat → R) : rowDotB B I y l = csrRow A (I * bs + l) y := by
  obtain ⟨hbs, hBs, hn, hsem⟩ := toBsr_sem A bs B h
  unfold rowDotB
  rw [blkDot_eq_blkSum, hBs, hsem I hI l hl]
  unfold csrW csrRow
  congr 1
  apply List.map_congr_left
  intro jj _
  show rd A.ax jj * y (rdN A.aj jj / bs * bs + rdN A.aj jj % bs) = _
  rw [Nat.div_add_mod']

/-- the off-diagonal part `Σ_{J ≠ I} B_IJ y_J` is the CSR row applied to `y` with block `I` masked out -/
theorem toBsr_offDot (A : Csr R) (bs : Nat) (B : Bsr R) (h : A.toBsr bs = some B) (I : Nat) (hI : I < B.nb)
    (l : Nat) (hl : l < bs) (y : Nat → R) :
    offDot B I y l = csrRow A (I * bs + l) (fun q => if q / bs = I then 0 else y q) := by
  obtain ⟨hbs, hBs, hn, hsem⟩ := toBsr_sem A bs B h
  unfold offDot offJs
  rw [blkDot_eq_blkSum, blkSum_filter_not, hBs, hsem I hI l hl]
  unfold csrW csrRow
  congr 1
  apply List.map_congr_left
  intro jj _
  simp only
  rw [Nat.div_add_mod']

/-- entry `(r, c)` of block `(I, J)` of a BSR matrix (stored duplicate blocks add up; 0 when the block is absent) -/
def bsrBlkEntry (B : Bsr R) (I J r c : Nat) : R :=
  (((B.jjs I).filter (fun jj => decide (rdN B.bj jj = J))).map (fun jj => blkAt B jj r c)).sum

theorem diagBlk_eq (B : Bsr R) (I l m : Nat) : diagBlk B I l m = bsrBlkEntry B I I l m := rfl

theorem bsrBlkEntry_eq_blkSum (B : Bsr R) (I J r c : Nat) (hc : c < B.bs) :
    bsrBlkEntry B I J r c =
      blkSum B.bs B.bj B.bx ((B.jjs I).filter (fun jj => decide (rdN B.bj jj = J))) r (fun _ m => if m = c then 1 else 0) := by
  unfold bsrBlkEntry blkSum
  congr 1
  apply List.map_congr_left
  intro jj _
  simp only [mul_ite, mul_one, mul_zero]
  rw [Finset.sum_ite_eq' (range B.bs) c, if_pos (mem_range.2 hc)]
  rfl

/-- **block `(I, J)`, entry `(r, c)` of `A.tobsr` is the dense entry `(I·bs + r, J·bs + c)` of `A`** (stored duplicates of
`A` summed; positions of the block that `A` does not store are zero padding) -/
theorem toBsr_entry (A : Csr R) (bs : Nat) (B : Bsr R) (h : A.toBsr bs = some B) (I : Nat) (hI : I < B.nb)
    (J r c : Nat) (hr : r < bs) (hc : c < bs) :
    bsrBlkEntry B I J r c = csrEntry A (I * bs + r) (J * bs + c) := by
  obtain ⟨hbs, hBs, hn, hsem⟩ := toBsr_sem A bs B h
  rw [bsrBlkEntry_eq_blkSum B I J r c (by rw [hBs]; exact hc), blkSum_filter, hBs, hsem I hI r hr]
  unfold csrW csrEntry
  rw [list_sum_filter_ite _ (fun jj => rdN A.aj jj = J * bs + c)]
  congr 1
  apply List.map_congr_left
  intro jj _
  by_cases he : rdN A.aj jj = J * bs + c
  · rw [if_pos he, he, blk_div hbs _ _ hc, blk_mod _ _ hc]
    simp
  · rw [if_neg he]
    by_cases h1 : rdN A.aj jj / bs = J
    · have h2 : ¬ rdN A.aj jj % bs = c := by
        intro h2
        apply he
        rw [← h1, ← h2, Nat.div_add_mod']
      simp [h1, h2]
    · simp [h1]

theorem toBsr_diagBlk (A : Csr R) (bs : Nat) (B : Bsr R) (h : A.toBsr bs = some B) (I : Nat) (hI : I < B.nb)
    (l m : Nat) (hl : l < bs) (hm : m < bs) : diagBlk B I l m = csrEntry A (I * bs + l) (I * bs + m) := by
  rw [diagBlk_eq]; exact toBsr_entry A bs B h I hI I l m hl hm

/-- `Dinv_I · A[I·bs .. I·bs+bs, I·bs .. I·bs+bs] = Id`, in terms of the dense entries of the CSR matrix -/
def CsrLeftInv (A : Csr R) (bs : Nat) (Dinv : Array R) (I : Nat) : Prop :=
  ∀ k < bs, ∀ m < bs, ∑ l ∈ range bs, dinvAt bs Dinv I k l * csrEntry A (I * bs + l) (I * bs + m) = if k = m then 1 else 0
/-- `A[I·bs .. , I·bs ..] · Dinv_I = Id` -/
def CsrRightInv (A : Csr R) (bs : Nat) (Dinv : Array R) (I : Nat) : Prop :=
  ∀ l < bs, ∀ l' < bs, ∑ m ∈ range bs, csrEntry A (I * bs + l) (I * bs + m) * dinvAt bs Dinv I m l' = if l = l' then 1 else 0

theorem toBsr_leftInv (A : Csr R) (bs : Nat) (B : Bsr R) (h : A.toBsr bs = some B) (Dinv : Array R) (I : Nat) (hI : I < B.nb)
    (hL : CsrLeftInv A bs Dinv I) : LeftInv B Dinv I := by
  obtain ⟨hbs, hBs, hn, hsem⟩ := toBsr_sem A bs B h
  unfold LeftInv
  rw [hBs]
  intro k hk m hm
  rw [← hL k hk m hm]
  apply Finset.sum_congr rfl
  intro l hl
  rw [toBsr_diagBlk A bs B h I hI l m (mem_range.1 hl) hm]

theorem toBsr_rightInv (A : Csr R) (bs : Nat) (B : Bsr R) (h : A.toBsr bs = some B) (Dinv : Array R) (I : Nat) (hI : I < B.nb)
    (hRi : CsrRightInv A bs Dinv I) : RightInv B Dinv I := by
  obtain ⟨hbs, hBs, hn, hsem⟩ := toBsr_sem A bs B h
  unfold RightInv
  rw [hBs]
  intro l hl l' hl'
  rw [← hRi l hl l' hl']
  apply Finset.sum_congr rfl
  intro m hm
  rw [toBsr_diagBlk A bs B h I hI l m hl (mem_range.1 hm)]

/-! ### the block Jacobi loop body with an arbitrary frozen copy `temp` -/

theorem bjacSweep_eq (ω : R) (A : Bsr R) (b Dinv temp x : Array R) (rows : List Nat) :
    rows.foldl (bjacStep ω A b Dinv temp) x =
      rows.foldl (fun y i => writeBlock A.bs y i (bjacG ω A b Dinv temp i)) x := rfl

theorem bjacSweep_size (ω : R) (A : Bsr R) (b Dinv temp x : Array R) (rows : List Nat) :
    (rows.foldl (bjacStep ω A b Dinv temp) x).size = x.size := by
  rw [bjacSweep_eq, blockSweep_size]

/-- every swept block row (any order, repetitions allowed) becomes `(1-ω) temp_i + ω Dinv_i (b_i − Σ_{j≠i} A_ij temp_j)`;
the other block rows are untouched -/
theorem bjacSweep_entry (ω : R) (A : Bsr R) (b Dinv temp x : Array R) (rows : List Nat) (hbs : 0 < A.bs)
    (p : Nat) (hp : p < x.size) :
    rd (rows.foldl (bjacStep ω A b Dinv temp) x) p =
      if p / A.bs ∈ rows then
        (1 - ω) * rd temp p + ω * ∑ l ∈ range A.bs, dinvAt A.bs Dinv (p / A.bs) (p % A.bs) l *
          (rd b (p / A.bs * A.bs + l) - offDot A (p / A.bs) (fun q => rd temp q) l)
      else rd x p := by
  rw [bjacSweep_eq, (rd_blockSweep hbs _ rows x p).1]
  by_cases hrow : p / A.bs ∈ rows
  · simp only [hrow, hp, and_self, if_true]
    have hk : p % A.bs < A.bs := Nat.mod_lt _ hbs
    unfold bjacG
    rw [Nat.div_add_mod' p A.bs, lrd_blockSolve _ _ _ _ _ _ hk]
    congr 2
    apply Finset.sum_congr rfl
    intro l hl
    rw [lrd_blockOffSum _ _ _ _ (mem_range.1 hl)]
  · simp [hrow]

/-! ### `block_jacobi_indexed` -/

theorem blockJacobiIndexed_eq (ω : R) (A : Bsr R) (b Dinv x : Array R) (idx : List Nat) :
    blockJacobiIndexed ω A b Dinv idx x = idx.foldl (bjacStep ω A b Dinv x) x := rfl

theorem blockJacobiIndexed_size (ω : R) (A : Bsr R) (b Dinv x : Array R) (idx : List Nat) :
    (blockJacobiIndexed ω A b Dinv idx x).size = x.size := by
  rw [blockJacobiIndexed_eq, bjacSweep_size]

/-- **`block_jacobi_indexed`, kernel form**: the indexed block rows (any order, repetitions allowed, no closedness
assumption: the frozen copy is the whole vector) become `(1-ω) x_i + ω Dinv_i (b_i − Σ_{j≠i} A_ij x_j)`, every other
block row is untouched -/
theorem blockJacobiIndexed_entry (ω : R) (A : Bsr R) (b Dinv x : Array R) (idx : List Nat) (hbs : 0 < A.bs)
    (p : Nat) (hp : p < x.size) :
    rd (blockJacobiIndexed ω A b Dinv idx x) p =
      if p / A.bs ∈ idx then
        (1 - ω) * rd x p + ω * ∑ l ∈ range A.bs, dinvAt A.bs Dinv (p / A.bs) (p % A.bs) l *
          (rd b (p / A.bs * A.bs + l) - offDot A (p / A.bs) (fun q => rd x q) l)
      else rd x p := by
  rw [blockJacobiIndexed_eq]; exact bjacSweep_entry ω A b Dinv x x idx hbs p hp

/-- **`block_jacobi_indexed` = `x + ω D⁻¹ (b − A x)` on the indexed block rows** when `Dinv_i A_ii = I` there -/
theorem blockJacobiIndexed_splitting (ω : R) (A : Bsr R) (b Dinv x : Array R) (idx : List Nat) (hbs : 0 < A.bs)
    (hinv : ∀ i ∈ idx, LeftInv A Dinv i) (p : Nat) (hp : p < x.size) (hrow : p / A.bs ∈ idx) :
    rd (blockJacobiIndexed ω A b Dinv idx x) p =
      rd x p + ω * ∑ l ∈ range A.bs, dinvAt A.bs Dinv (p / A.bs) (p % A.bs) l *
        (rd b (p / A.bs * A.bs + l) - rowDotB A (p / A.bs) (fun q => rd x q) l) := by
  rw [blockJacobiIndexed_entry ω A b Dinv x idx hbs p hp, if_pos hrow]
  rw [dinv_split A Dinv (p / A.bs) (hinv _ hrow) (p % A.bs) (Nat.mod_lt _ hbs)
    (fun l => rd b (p / A.bs * A.bs + l)) (fun q => rd x q)]
  rw [Nat.div_add_mod' p A.bs]
  ring

/-- the exact solution (block equations hold on the indexed rows) is returned unchanged, as an array -/
theorem blockJacobiIndexed_fixed_point (ω : R) (A : Bsr R) (b Dinv x : Array R) (idx : List Nat) (hbs : 0 < A.bs)
    (hinv : ∀ i ∈ idx, LeftInv A Dinv i)
    (hsol : ∀ i ∈ idx, ∀ l < A.bs, rowDotB A i (fun q => rd x q) l = rd b (i * A.bs + l)) :
    blockJacobiIndexed ω A b Dinv idx x = x := by
  apply array_ext_rd _ _ (blockJacobiIndexed_size _ _ _ _ _ _)
  intro p hp
  rw [blockJacobiIndexed_size] at hp
  by_cases hrow : p / A.bs ∈ idx
  · rw [blockJacobiIndexed_splitting ω A b Dinv x idx hbs hinv p hp hrow]
    have : ∑ l ∈ range A.bs, dinvAt A.bs Dinv (p / A.bs) (p % A.bs) l *
        (rd b (p / A.bs * A.bs + l) - rowDotB A (p / A.bs) (fun q => rd x q) l) = 0 := by
      apply Finset.sum_eq_zero
      intro l hl
      rw [hsol _ hrow l (mem_range.1 hl)]; ring
    rw [this]; ring
  · rw [blockJacobiIndexed_entry ω A b Dinv x idx hbs p hp, if_neg hrow]

/-! ### the drivers `cf_block_jacobi` / `fc_block_jacobi` -/

theorem all_lt_of_mem {L : List Nat} {n : Nat} (h : ∀ i ∈ L, i < n) : L.all (fun i => decide (i < n)) = true := by
  rw [List.all_eq_true]; intro i hi; simpa using h i hi

/-- **CF = `c_iterations` C-sweeps, then `f_iterations` F-sweeps; FC the other way round**; every kernel call gets the
caller's `omega` and `Dinv` -/
theorem pyCFBlockJacobi_one (cFirst : Bool) (ω : R) (A : Bsr R) (b Dinv x : Array R) (C F : List Nat) (fIt cIt : Nat)
    (hx : x.size = A.nb * A.bs) (hb : b.size = A.nb * A.bs) (hD : Dinv.size = A.nb * (A.bs * A.bs))
    (hC : ∀ i ∈ C, i < A.nb) (hF : ∀ i ∈ F, i < A.nb) :
    pyCFBlockJacobi cFirst ω A b Dinv C F 1 fIt cIt x =
      some (if cFirst then iter (blockJacobiIndexed ω A b Dinv F) fIt (iter (blockJacobiIndexed ω A b Dinv C) cIt x)
            else iter (blockJacobiIndexed ω A b Dinv C) cIt (iter (blockJacobiIndexed ω A b Dinv F) fIt x)) := by
  unfold pyCFBlockJacobi
  have hall : (C ++ F).all (fun i => decide (i < A.nb)) = true := by
    apply all_lt_of_mem
    intro i hi
    rcases List.mem_append.1 hi with h | h
    · exact hC i h
    · exact hF i h
  rw [if_neg (by simp [hx, hb, hD]), if_neg (by simp [hall])]
  rfl

/-- `iterations = k + 1` is one CF (FC) cycle followed by `iterations = k` -/
theorem pyCFBlockJacobi_succ (cFirst : Bool) (ω : R) (A : Bsr R) (b Dinv x : Array R) (C F : List Nat) (k fIt cIt : Nat) :
    pyCFBlockJacobi cFirst ω A b Dinv C F (k + 1) fIt cIt x =
      (pyCFBlockJacobi cFirst ω A b Dinv C F 1 fIt cIt x).bind (fun y =>
        (pyCFBlockJacobi cFirst ω A b Dinv C F k fIt cIt y)) := by
  unfold pyCFBlockJacobi
  by_cases h1 : x.size ≠ A.nb * A.bs ∨ b.size ≠ A.nb * A.bs ∨ Dinv.size ≠ A.nb * (A.bs * A.bs)
  · rw [if_pos h1, if_pos h1]; rfl
  · rw [if_neg h1, if_neg h1]
    by_cases h2 : (C ++ F).all (fun i => decide (i < A.nb)) = false
    · rw [if_pos h2, if_pos h2]; rfl
    · rw [if_neg h2, if_neg h2]
      simp only [Option.bind_some, K.iter]
      have hsz : ∀ (L : List Nat) (n : Nat) (z : Array R), (iter (blockJacobiIndexed ω A b Dinv L) n z).size = z.size := by
        intro L n
        induction n with
        | zero => intro z; rfl
        | succ n ih => intro z; simp only [K.iter]; rw [ih, blockJacobiIndexed_size]
      have hsz' : (if cFirst then iter (blockJacobiIndexed ω A b Dinv F) fIt (iter (blockJacobiIndexed ω A b Dinv C) cIt x)
            else iter (blockJacobiIndexed ω A b Dinv C) cIt (iter (blockJacobiIndexed ω A b Dinv F) fIt x)).size = x.size := by
        cases cFirst <;> simp [hsz]
      rw [hsz', if_neg h1, if_neg h2]

/-- the exact solution is a fixed point of `cf_block_jacobi` / `fc_block_jacobi`: every `omega`, `iterations`,
`f_iterations`, `c_iterations`, any C/F index lists -/
theorem pyCFBlockJacobi_fixed_point (cFirst : Bool) (ω : R) (A : Bsr R) (b Dinv x : Array R) (C F : List Nat)
    (iters fIt cIt : Nat) (hbs : 0 < A.bs)
    (hx : x.size = A.nb * A.bs) (hb : b.size = A.nb * A.bs) (hD : Dinv.size = A.nb * (A.bs * A.bs))
    (hC : ∀ i ∈ C, i < A.nb) (hF : ∀ i ∈ F, i < A.nb)
    (hinv : ∀ i < A.nb, LeftInv A Dinv i)
    (hsol : ∀ i < A.nb, ∀ l < A.bs, rowDotB A i (fun q => rd x q) l = rd b (i * A.bs + l)) :
    pyCFBlockJacobi cFirst ω A b Dinv C F iters fIt cIt x = some x := by
  have hk : ∀ (L : List Nat), (∀ i ∈ L, i < A.nb) → blockJacobiIndexed ω A b Dinv L x = x := by
    intro L hL
    exact blockJacobiIndexed_fixed_point ω A b Dinv x L hbs (fun i hi => hinv i (hL i hi)) (fun i hi => hsol i (hL i hi))
  unfold pyCFBlockJacobi
  have hall : (C ++ F).all (fun i => decide (i < A.nb)) = true := by
    apply all_lt_of_mem
    intro i hi
    rcases List.mem_append.1 hi with h | h
    · exact hC i h
    · exact hF i h
  rw [if_neg (by simp [hx, hb, hD]), if_neg (by simp [hall])]
  show some (iter _ iters x) = some x
  congr 1
  apply iter_fixed
  cases cFirst
  · simp only [Bool.false_eq_true, if_false]
    rw [iter_fixed _ _ (hk F hF), iter_fixed _ _ (hk C hC)]
  · simp only [if_true]
    rw [iter_fixed _ _ (hk C hC), iter_fixed _ _ (hk F hF)]

end PyamgV.ExtC09X
