import PyamgV.Proofs.ExtC19TVec

/-! PyamgV (C19, extension E52): **`condest <= cond_2` for the model** (`condestO` of `Model/ExtC19TCx.lean`, general
branch `symmetric = False`: the Krylov process on `A^H A`), exact arithmetic, scalars = pairs over an ordered field with
an exact non-negative square root, oracle eigenpairs verified with tolerance zero.

`smin`, `smax` are any constants with `smin^2 <x, x> <= <A x, A x> <= smax^2 <x, x>` (the extreme singular values are the
best ones: `cond_2 = smax / smin`).  `A^H A` is Hermitian with `<x, A^H A x> = <A x, A x>`, so every Ritz value of the
process is real and lies in `[smin^2, smax^2]` (`normal_ritz_between`), hence
`condest = sqrt (max |ev| / min |ev|) <= smax / smin` (`condestO_le_cond`).  `condestO_hom` / `cvec_condest_le_cond`
carry this to the `Vector` instance the driver executes. -/
set_option linter.unusedSectionVars false
namespace PyamgV.C19T
open PyamgV.C07 PyamgV.CHerm PyamgV.C19S PyamgV.C07.CH

variable {F : Type} [Field F] [LinearOrder F] [IsStrictOrderedRing F]

/-! ### selectors -/

theorem foldl_sel_mem {K : Type} (p : K → K → Bool) : ∀ (xs : List K) (x : K),
    xs.foldl (fun b z => if p b z then z else b) x ∈ x :: xs
  | [], x => by simp
  | z :: zs, x => by
    simp only [List.foldl_cons]
    have := foldl_sel_mem p zs (if p x z then z else x)
    rcases List.mem_cons.1 this with h | h
    · rw [h]; split <;> simp
    · exact List.mem_cons_of_mem _ (List.mem_cons_of_mem _ h)

theorem maxO_mem {K : Type} [OfNat K 0] (lt : K → K → Bool) (xs : List K) (h : xs ≠ []) : maxO lt xs ∈ xs := by
  cases xs with
  | nil => exact absurd rfl h
  | cons x xs => exact foldl_sel_mem (fun b z => lt b z) xs x

theorem minO_mem {K : Type} [OfNat K 0] (lt : K → K → Bool) (xs : List K) (h : xs ≠ []) : minO lt xs ∈ xs := by
  cases xs with
  | nil => exact absurd rfl h
  | cons x xs => exact foldl_sel_mem (fun b z => lt z b) xs x

/-! ### square roots -/

theorem sqrt_sq_eq_abs (sqrt : F → F) (hsq : ∀ a, 0 ≤ a → sqrt a * sqrt a = a) (hs0 : ∀ a, 0 ≤ sqrt a) (a : F) :
    sqrt (a ^ 2) = |a| := by
  have h1 := hsq (a ^ 2) (sq_nonneg a)
  have h2 : |sqrt (a ^ 2)| = |a| := abs_eq_abs.mpr (mul_self_eq_mul_self_iff.mp (by rw [h1]; ring))
  rw [← h2, abs_of_nonneg (hs0 _)]

theorem sqrt_le_of_le_sq (sqrt : F → F) (hsq : ∀ a, 0 ≤ a → sqrt a * sqrt a = a) (hs0 : ∀ a, 0 ≤ sqrt a) {a b : F}
    (ha : 0 ≤ a) (hb : 0 ≤ b) (h : a ≤ b ^ 2) : sqrt a ≤ b := by
  by_contra hc
  have hc' : b < sqrt a := not_le.mp hc
  have : b ^ 2 < sqrt a * sqrt a := by nlinarith [hs0 a, hb]
  rw [hsq a ha] at this
  exact absurd h (not_le.mpr this)

/-- `|theta|` of the model for a real positive `theta` -/
theorem absC_of_real_nonneg (sqrt : F → F) (hsq : ∀ a, 0 ≤ a → sqrt a * sqrt a = a) (hs0 : ∀ a, 0 ≤ sqrt a) {θ : Cx F}
    (him : θ.im = 0) (h0 : 0 ≤ θ.re) : Cx.absC sqrt θ = Cx.ofRe θ.re := by
  rw [absC_eq_ofRe, normSq_of_real him, sqrt_sq_eq_abs sqrt hsq hs0, abs_of_nonneg h0]

theorem ofRe_div (a b : F) (hb : b ≠ 0) : (Cx.ofRe a / Cx.ofRe b : Cx F) = Cx.ofRe (a / b) := by
  apply Cx.ext'
  · rw [Cx.div_re]; simp [Cx.normSq]; field_simp
  · rw [Cx.div_im]; simp [Cx.normSq]

section module
variable {V : Type} [AddCommGroup V] [Module (Cx F) V]
variable (A AH M : V →ₗ[Cx F] V) (E : HForm (Cx F) F V) (sqrt : F → F) (t : F)

/-- `normalOps` of the module operations is the module operations of `A^H A` -/
theorem normalOps_ofHerm : normalOps (Ops.ofHerm A AH M E) = Ops.ofHerm (AH.comp A) AH M E := rfl

variable {A AH E}

/-- `A^H A` is Hermitian -/
theorem normal_herm (hadj : CKSim.Adj E A AH) (x y : V) : E.h ((AH.comp A) x) y = E.h x ((AH.comp A) y) := by
  simp only [LinearMap.comp_apply]
  rw [hadj, E.conj_symm (AH (A y)) x, hadj, ← E.conj_symm]

/-- `<x, A^H A x> = <A x, A x>` -/
theorem normal_rayleigh (hadj : CKSim.Adj E A AH) (x : V) : E.h x ((AH.comp A) x) = E.h (A x) (A x) := by
  simp only [LinearMap.comp_apply]
  rw [E.conj_symm (AH (A x)) x, hadj, ← E.conj_symm]

variable {sqrt t}

/-- **Ritz values of the normal operator lie in `[smin^2, smax^2]`** and are real -/
theorem normal_ritz_between {v0 : V} (hx : ExactC E sqrt t v0) (hadj : CKSim.Adj E A AH) (k : Nat) (lo hi : F)
    (hlo : ∀ x, lo * (E.h x x).re ≤ (E.h (A x) (A x)).re) (hhi : ∀ x, (E.h (A x) (A x)).re ≤ hi * (E.h x x).re)
    (θ : Cx F) (y : Nat → Cx F)
    (hr : ArnF.IsRitz (cRun (AH.comp A) AH M E sqrt t v0 k).cols.length
      (hEntry (cRun (AH.comp A) AH M E sqrt t v0 k).cols) θ y) :
    θ.im = 0 ∧ lo ≤ θ.re ∧ θ.re ≤ hi := by
  refine ⟨cmodel_ritz_real (AH.comp A) AH M hx (normal_herm hadj) k θ y hr, ?_⟩
  exact cmodel_ritz_between (AH.comp A) AH M hx k lo hi
    (fun x => by rw [normal_rayleigh hadj]; exact hlo x) (fun x => by rw [normal_rayleigh hadj]; exact hhi x) θ y hr

/-- the model's parameters in exact arithmetic, general branch -/
abbrev condestC (n maxiter : Nat) (v0 : V) (ev : List (Cx F)) (evect : List (List (Cx F))) :=
  condestO (Ops.ofHerm A AH M E) mDiv (Cx.sqrtC sqrt) (Cx.ltC ltF) (Cx.iszC iszF) Cx.conj (Cx.absC sqrt)
    (Cx.ofRe t) 0 false n maxiter v0 ev evect

/-- a successful `condest` run: the state is the Krylov run of `A^H A`, every oracle value is a Ritz value of it, the
result is `sqrt (max |ev| / min |ev|)` -/
theorem condestO_spec (n maxiter : Nat) (v0 : V) (ev : List (Cx F)) (evect : List (List (Cx F)))
    (c mx mn : Cx F) (s : AeSt (Cx F) V)
    (h : condestC (A := A) (AH := AH) M (E := E) (sqrt := sqrt) (t := t) n maxiter v0 ev evect = .ok (c, mx, mn, s)) :
    s = cRun (AH.comp A) AH M E sqrt t v0 (min n maxiter) ∧ min n maxiter ≠ 0 ∧ ev.length = s.cols.length ∧
    (∀ i, i < ev.length → ArnF.IsRitz s.cols.length (hEntry s.cols) (ev.getD i 0) (fun j => (evect.getD i []).getD j 0)) ∧
    mx = maxO (Cx.ltC ltF) (ev.map (Cx.absC sqrt)) ∧ mn = minO (Cx.ltC ltF) (ev.map (Cx.absC sqrt)) ∧
    c = Cx.sqrtC sqrt (mx / mn) := by
  unfold condestC condestO at h
  simp only [Bool.false_eq_true, if_false] at h
  rw [normalOps_ofHerm, approxEig_eq_run] at h
  by_cases hm : min n maxiter = 0
  · rw [if_pos hm] at h; cases h
  · rw [if_neg hm] at h
    have hrun : aeRun (Ops.ofHerm (AH.comp A) AH M E) mDiv (Cx.sqrtC sqrt) (Cx.ltC ltF) (Cx.iszC iszF) (Cx.ofRe t) false v0
        (min n maxiter) = cRun (AH.comp A) AH M E sqrt t v0 (min n maxiter) := rfl
    rw [hrun] at h
    generalize hs : cRun (AH.comp A) AH M E sqrt t v0 (min n maxiter) = s' at h
    dsimp only at h
    by_cases h1 : ev.length ≠ s'.cols.length
    · rw [if_pos h1] at h; cases h
    · rw [if_neg h1] at h
      by_cases h2 : (!eigAllOk Cx.conj (Cx.ltC ltF) 0 s'.cols s'.cols.length ev evect) = true
      · rw [if_pos h2] at h; cases h
      · rw [if_neg h2] at h
        have h2' : eigAllOk Cx.conj (Cx.ltC ltF) 0 s'.cols s'.cols.length ev evect = true := by simpa using h2
        simp only [Except.ok.injEq, Prod.mk.injEq] at h
        obtain ⟨e1, e2, e3, e4⟩ := h
        subst e4
        refine ⟨rfl, hm, not_not.mp h1, ?_, e2.symm, e3.symm, ?_⟩
        · intro i hi
          exact (eigOk_isRitz _ _ _ _ (eigAllOk_getD s'.cols s'.cols.length ev evect h2' i hi)).2
        · rw [← e1, e2, e3]

/-- **`condest <= cond_2` for the model**: with `smin^2 <x,x> <= <Ax,Ax> <= smax^2 <x,x>`, `0 < smin`, the value
`sqrt (max |ev| / min |ev|)` of a successful run is a real number `<= smax / smin` -/
theorem condestO_le_cond (hx0 : ∀ w : V, w ≠ 0 → ExactC E sqrt t w) (hs0 : ∀ a, 0 ≤ sqrt a)
    (hadj : CKSim.Adj E A AH) (smin smax : F) (hmin : 0 < smin) (hmax : 0 ≤ smax)
    (hlo : ∀ x, smin ^ 2 * (E.h x x).re ≤ (E.h (A x) (A x)).re)
    (hhi : ∀ x, (E.h (A x) (A x)).re ≤ smax ^ 2 * (E.h x x).re)
    (n maxiter : Nat) (v0 : V) (hv0 : v0 ≠ 0) (ev : List (Cx F)) (evect : List (List (Cx F)))
    (c mx mn : Cx F) (s : AeSt (Cx F) V)
    (h : condestC (A := A) (AH := AH) M (E := E) (sqrt := sqrt) (t := t) n maxiter v0 ev evect = .ok (c, mx, mn, s)) :
    c.im = 0 ∧ c.re ≤ smax / smin ∧
      (∀ θ ∈ ev, θ.im = 0 ∧ smin ^ 2 ≤ θ.re ∧ θ.re ≤ smax ^ 2) := by
  have hx := hx0 v0 hv0
  have hsq := hx.hsq
  obtain ⟨hs, hm, hlen, hritz, hmx, hmn, hc⟩ := condestO_spec M n maxiter v0 ev evect c mx mn s h
  have hall : ∀ θ ∈ ev, θ.im = 0 ∧ smin ^ 2 ≤ θ.re ∧ θ.re ≤ smax ^ 2 := by
    intro θ hθ
    obtain ⟨i, hi, rfl⟩ := List.getElem_of_mem hθ
    have := hritz i hi
    rw [hs] at this
    have hb := normal_ritz_between M hx hadj _ (smin ^ 2) (smax ^ 2) hlo hhi _ _ this
    rw [List.getD_eq_getElem _ _ hi] at hb
    exact hb
  refine ⟨by rw [hc]; rfl, ?_, hall⟩
  have hquot : 0 ≤ smax / smin := div_nonneg hmax (le_of_lt hmin)
  by_cases hev : ev = []
  · -- no oracle value: the model returns `sqrt (0 / 0) = 0`
    subst hev
    have h0 : mx / mn = 0 := by rw [hmx, hmn]; simp [maxO, minO]
    rw [hc, h0, sqrtC_eq_ofRe]
    have : sqrt (0 : Cx F).re = 0 := by
      have := hsq 0 (le_refl 0)
      simpa using mul_self_eq_zero.mp this
    simp only [Cx.ofRe_re, this]
    exact hquot
  · have hne : ev.map (Cx.absC sqrt) ≠ [] := by simpa using hev
    have habs : ∀ z ∈ ev.map (Cx.absC sqrt), ∃ r, z = Cx.ofRe r ∧ smin ^ 2 ≤ r ∧ r ≤ smax ^ 2 := by
      intro z hz
      obtain ⟨θ, hθ, rfl⟩ := List.mem_map.1 hz
      obtain ⟨a, b, c'⟩ := hall θ hθ
      have h0 : 0 ≤ θ.re := le_trans (sq_nonneg smin) b
      exact ⟨θ.re, absC_of_real_nonneg sqrt hsq hs0 a h0, b, c'⟩
    obtain ⟨a, ha, _, ha2⟩ := habs _ (maxO_mem (Cx.ltC ltF) _ hne)
    obtain ⟨b, hb, hb1, _⟩ := habs _ (minO_mem (Cx.ltC ltF) _ hne)
    have hbpos : 0 < b := lt_of_lt_of_le (by positivity) hb1
    have ha0 : 0 ≤ a := by
      obtain ⟨a', ha', h1, _⟩ := habs _ (maxO_mem (Cx.ltC ltF) _ hne)
      have : a = a' := Cx.ofRe_injective (ha.symm.trans ha')
      rw [this]; exact le_trans (sq_nonneg smin) h1
    rw [hc, hmx, hmn, ha, hb, ofRe_div a b (ne_of_gt hbpos), sqrtC_eq_ofRe]
    simp only [Cx.ofRe_re]
    apply sqrt_le_of_le_sq sqrt hsq hs0 (div_nonneg ha0 (le_of_lt hbpos)) hquot
    rw [div_pow]
    have hs2 : 0 < smin ^ 2 := by positivity
    rw [div_le_div_iff₀ hbpos hs2]
    calc a * smin ^ 2 ≤ smax ^ 2 * smin ^ 2 := mul_le_mul_of_nonneg_right ha2 (le_of_lt hs2)
      _ ≤ smax ^ 2 * b := mul_le_mul_of_nonneg_left hb1 (sq_nonneg smax)

end module

/-! ### homomorphisms and the `Vector` instance -/
section hom
variable {K V W : Type} [Add K] [Sub K] [Mul K] [Div K] [Neg K] [OfNat K 0] [OfNat K 1] [OfNat K 2]
variable (φ : V → W) (ov : Ops K V) (ow : Ops K W) (H : OpsHom φ ov ow) (HAH : ∀ v, φ (ov.AH v) = ow.AH (φ v))
variable (dv : V → K → V) (dw : W → K → W) (Hd : ∀ v c, φ (dv v c) = dw (φ v) c)

include H HAH in
theorem normalOps_hom : OpsHom φ (normalOps ov) (normalOps ow) :=
  ⟨H.add, H.sub, H.smul, H.dot, fun v => by
    show φ (ov.AH (ov.A v)) = ow.AH (ow.A (φ v))
    rw [HAH, H.A], H.M⟩

include H HAH Hd in
theorem condestO_hom (sqrt : K → K) (lt : K → K → Bool) (isz : K → Bool) (conj absf : K → K)
    (brkTol vtolSq : K) (symmetric : Bool) (n maxiter : Nat) (v0 : V) (ev : List K) (evect : List (List K)) :
    condestO ow dw sqrt lt isz conj absf brkTol vtolSq symmetric n maxiter (φ v0) ev evect
      = (condestO ov dv sqrt lt isz conj absf brkTol vtolSq symmetric n maxiter v0 ev evect).map
          (fun r => (r.1, r.2.1, r.2.2.1, mapAe φ r.2.2.2)) := by
  unfold condestO
  have Hop : OpsHom φ (if symmetric then ov else normalOps ov) (if symmetric then ow else normalOps ow) := by
    cases symmetric
    · exact normalOps_hom φ ov ow H HAH
    · exact H
  dsimp only
  rw [approxEig_eq_run, approxEig_eq_run]
  by_cases hm : min n maxiter = 0
  · rw [if_pos hm, if_pos hm]; rfl
  · rw [if_neg hm, if_neg hm]
    rw [← aeRun_hom φ _ _ Hop dv dw Hd sqrt lt isz brkTol symmetric v0 (min n maxiter)]
    generalize aeRun (if symmetric then ov else normalOps ov) dv sqrt lt isz brkTol symmetric v0 (min n maxiter) = s
    have hc : (mapAe φ s).cols = s.cols := rfl
    simp only [hc]
    by_cases h1 : ev.length ≠ s.cols.length
    · rw [if_pos h1, if_pos h1]; rfl
    · rw [if_neg h1, if_neg h1]
      by_cases h2 : (!eigAllOk conj lt vtolSq s.cols s.cols.length ev evect) = true
      · rw [if_pos h2, if_pos h2]; rfl
      · rw [if_neg h2, if_neg h2]; rfl

end hom

section vec
variable {n : Nat} (Am : Vector (Vector (Cx F) n) n) (sqrt : F → F) (t : F)

/-- `condest` as the driver executes it (over `F` instead of binary64, verification tolerance zero), general branch -/
abbrev cvecCondest (maxiter : Nat) (v0 : Vector (Cx F) n) (ev : List (Cx F)) (evect : List (List (Cx F))) :
    Except String (Cx F × Cx F × Cx F × AeSt (Cx F) (Vector (Cx F) n)) :=
  condestO (cvOps Am) cvDiv (Cx.sqrtC sqrt) (Cx.ltC ltF) (Cx.iszC iszF) Cx.conj (Cx.absC sqrt) (Cx.ofRe t) 0 false n
    maxiter v0 ev evect

/-- the list-level function the driver calls is that run -/
theorem condestCx_eq (A : List (List (Cx F))) (maxiter : Nat) (v0 : List (Cx F))
    (ev : List (Cx F)) (evect : List (List (Cx F)))
    (A' : Vector (Vector (Cx F) v0.length) v0.length) (v0' : Vector (Cx F) v0.length)
    (hA : toMat? v0.length A = some A') (hv : toVec? v0.length v0 = some v0') :
    condestCx sqrt ltF iszF A (Cx.ofRe t) 0 false maxiter v0 ev evect =
      match cvecCondest A' sqrt t maxiter v0' ev evect with
      | .error e => .error e
      | .ok (c, mx, mn, s) => .ok (c, mx, mn, s.brk, s.vs.map (·.toList), s.cols) := by
  simp only [condestCx, condestVec, hA, hv]
  have key : condestO (vecOps Cx.conj A' A') (fun v c => Vector.map (fun x => x / c) v) (Cx.sqrtC sqrt) (Cx.ltC ltF)
      (Cx.iszC iszF) Cx.conj (Cx.absC sqrt) (Cx.ofRe t) 0 false v0.length maxiter v0' ev evect
      = cvecCondest A' sqrt t maxiter v0' ev evect := rfl
  rw [key]
  generalize cvecCondest A' sqrt t maxiter v0' ev evect = r
  cases r with
  | error e => rfl
  | ok r => obtain ⟨c, mx, mn, s⟩ := r; rfl

/-- **`condest <= cond_2` on `Vector`s**: `smin^2 |x|^2 <= |A x|^2 <= smax^2 |x|^2` for all `x`, `0 < smin`: the value of a
successful run of the general branch is real and `<= smax / smin`, every oracle eigenvalue lies in `[smin^2, smax^2]` -/
theorem cvec_condest_le_cond (hsq : ∀ a, 0 ≤ a → sqrt a * sqrt a = a) (hs0 : ∀ a, 0 ≤ sqrt a) (htol : 0 < t)
    (smin smax : F) (hmin : 0 < smin) (hmax : 0 ≤ smax)
    (hlo : ∀ x, smin ^ 2 * (cdot n x x).re ≤ (cdot n (linOf Am x) (linOf Am x)).re)
    (hhi : ∀ x, (cdot n (linOf Am x) (linOf Am x)).re ≤ smax ^ 2 * (cdot n x x).re)
    (maxiter : Nat) (v0 : Vector (Cx F) n) (hv0 : toFn v0 ≠ 0) (ev : List (Cx F)) (evect : List (List (Cx F)))
    (c mx mn : Cx F) (s : AeSt (Cx F) (Vector (Cx F) n))
    (h : cvecCondest Am sqrt t maxiter v0 ev evect = .ok (c, mx, mn, s)) :
    c.im = 0 ∧ c.re ≤ smax / smin ∧ (∀ θ ∈ ev, θ.im = 0 ∧ smin ^ 2 ≤ θ.re ∧ θ.re ≤ smax ^ 2) := by
  have hx0 : ∀ w : Fin n → Cx F, w ≠ 0 → ExactC (dotH (cxRe (F := F)) n) sqrt t w :=
    fun w hw => ⟨dotH_def cxRe, fun _ => rfl, hsq, htol, hw⟩
  have HH := opsHomH_vec (cxRe (F := F)) Am Am
  have hhom := condestO_hom toFn (cvOps Am) (cmOps Am) (cvOps_hom Am) HH.AH cvDiv mDiv cvDiv_hom (Cx.sqrtC sqrt)
    (Cx.ltC ltF) (Cx.iszC iszF) Cx.conj (Cx.absC sqrt) (Cx.ofRe t) 0 false n maxiter v0 ev evect
  have h' : condestO (cvOps Am) cvDiv (Cx.sqrtC sqrt) (Cx.ltC ltF) (Cx.iszC iszF) Cx.conj (Cx.absC sqrt) (Cx.ofRe t) 0
      false n maxiter v0 ev evect = .ok (c, mx, mn, s) := h
  rw [h'] at hhom
  simp only [Except.map] at hhom
  exact condestO_le_cond (linOf Am) hx0 hs0 (linOf_adjH cxRe Am) smin smax hmin hmax hlo hhi n maxiter (toFn v0) hv0
    ev evect c mx mn _ hhom

end vec

#print axioms condestO_le_cond
#print axioms condestCx_eq
#print axioms cvec_condest_le_cond
end PyamgV.C19T
