import PyamgV.Proofs.ExtC14XModulus
import PyamgV.Proofs.ExtSpmm

/-! PyamgV (C14, extension E40): BSR input of `classical_strength_of_connection` (block path and `block=False`) and of
`symmetric_strength_of_connection`: the nodal entry `(I,J)` is kept iff the block-norm rule holds, and the contract of the
block result (no "no subnormals" hypothesis: the absolute `1e-16` drop guarantees normal reduced values). -/
namespace PyamgV.C14X
open PyamgV PyamgV.N PyamgV.C14

variable {α : Type}

/-! ### the three block reductions -/

theorem blockAbsG_acc_le (nrm : α → Rat) (b : List α) (m : Rat) : m ≤ b.foldl (fun m v => max m (nrm v)) m := by
  induction b generalizing m with
  | nil => simp
  | cons w t ih => simp only [List.foldl_cons]; exact le_trans (le_max_left _ _) (ih _)

/-- `'abs'`: the reduced value bounds every modulus of the block … -/
theorem blockAbsG_ge (nrm : α → Rat) (b : List α) : ∀ v ∈ b, nrm v ≤ blockAbsG nrm b := by
  unfold blockAbsG
  generalize (0 : Rat) = m
  induction b generalizing m with
  | nil => simp
  | cons w t ih =>
    intro v hv
    simp only [List.foldl_cons]
    rcases List.mem_cons.1 hv with rfl | h
    · exact le_trans (le_max_right _ _) (blockAbsG_acc_le nrm t _)
    · exact ih _ v h

/-- … and is `0` or attained -/
theorem blockAbsG_attained (nrm : α → Rat) (b : List α) : blockAbsG nrm b = 0 ∨ ∃ v ∈ b, nrm v = blockAbsG nrm b := by
  unfold blockAbsG
  generalize (0 : Rat) = m
  induction b generalizing m with
  | nil => simp
  | cons w t ih =>
    simp only [List.foldl_cons]
    rcases ih (max m (nrm w)) with h | ⟨v, hv, heq⟩
    · rcases max_cases m (nrm w) with ⟨hm, _⟩ | ⟨hm, _⟩
      · left; rw [h, hm]
      · right; exact ⟨w, List.mem_cons_self, by rw [h, hm]⟩
    · right; exact ⟨v, List.mem_cons_of_mem _ hv, heq⟩

theorem blockAbsG_nonneg (nrm : α → Rat) (b : List α) : 0 ≤ blockAbsG nrm b := blockAbsG_acc_le nrm b 0

/-- `'abs'`: the reduced value vanishes exactly for an all-zero block -/
theorem blockAbsG_eq_zero_iff (zero : α) (m : α → Rat) (hm : IsModulus zero m) (b : List α) :
    blockAbsG m b = 0 ↔ ∀ v ∈ b, v = zero := by
  constructor
  · intro h v hv
    have h1 := blockAbsG_ge m b v hv
    rw [h] at h1
    exact (hm.eq_zero_iff v).1 (le_antisymm h1 (hm.nonneg v))
  · intro h
    rcases blockAbsG_attained m b with h0 | ⟨v, hv, heq⟩
    · exact h0
    · rw [← heq]; exact (hm.eq_zero_iff v).2 (h v hv)

theorem blockFroG_fold (nsq : α → Rat) (b : List α) (s : Rat) :
    b.foldl (fun s v => s + nsq v) s = s + (b.map nsq).sum := by
  induction b generalizing s with
  | nil => simp
  | cons w t ih => simp only [List.foldl_cons, List.map_cons, List.sum_cons]; rw [ih]; ring

/-- `'fro'`: the reduced value is the sum of the squared moduli of the block -/
theorem blockFroG_eq_sum (nsq : α → Rat) (b : List α) : blockFroG nsq b = (b.map nsq).sum := by
  unfold blockFroG; rw [blockFroG_fold]; simp

theorem sum_map_nonneg (nsq : α → Rat) (hn : ∀ a, 0 ≤ nsq a) (b : List α) : 0 ≤ (b.map nsq).sum := by
  induction b with
  | nil => simp
  | cons w t ih => simp only [List.map_cons, List.sum_cons]; have := hn w; linarith

theorem blockFroG_ge (nsq : α → Rat) (hn : ∀ a, 0 ≤ nsq a) (b : List α) : ∀ v ∈ b, nsq v ≤ blockFroG nsq b := by
  rw [blockFroG_eq_sum]
  induction b with
  | nil => simp
  | cons w t ih =>
    intro v hv
    simp only [List.map_cons, List.sum_cons]
    have hs : 0 ≤ (t.map nsq).sum := sum_map_nonneg nsq hn t
    rcases List.mem_cons.1 hv with rfl | h
    · linarith
    · have := ih v h; have := hn w; linarith

theorem blockFroG_nonneg (nsq : α → Rat) (hn : ∀ a, 0 ≤ nsq a) (b : List α) : 0 ≤ blockFroG nsq b := by
  rw [blockFroG_eq_sum]
  exact sum_map_nonneg nsq hn b

/-- `'fro'`: zero exactly for an all-zero block -/
theorem blockFroG_eq_zero_iff (zero : α) (nsq : α → Rat) (hm : IsModulus zero nsq) (b : List α) :
    blockFroG nsq b = 0 ↔ ∀ v ∈ b, v = zero := by
  constructor
  · intro h v hv
    have h1 := blockFroG_ge nsq hm.nonneg b v hv
    rw [h] at h1
    exact (hm.eq_zero_iff v).1 (le_antisymm h1 (hm.nonneg v))
  · intro h
    rw [blockFroG_eq_sum]
    apply List.sum_eq_zero
    intro x hx
    obtain ⟨a, ha, rfl⟩ := List.mem_map.1 hx
    exact (hm.eq_zero_iff a).2 (h a ha)

theorem blockMinG_acc_le (re : α → Rat) (b : List α) (m : Rat) : b.foldl (fun m w => min m (re w)) m ≤ m := by
  induction b generalizing m with
  | nil => simp
  | cons w t ih => simp only [List.foldl_cons]; exact le_trans (ih _) (min_le_left _ _)

theorem blockMinG_fold_le (re : α → Rat) (b : List α) (m : Rat) :
    ∀ v ∈ b, b.foldl (fun m w => min m (re w)) m ≤ re v := by
  induction b generalizing m with
  | nil => simp
  | cons w t ih =>
    intro v hv
    simp only [List.foldl_cons]
    rcases List.mem_cons.1 hv with rfl | h
    · exact le_trans (blockMinG_acc_le re t _) (min_le_right _ _)
    · exact ih _ v h

theorem blockMinG_fold_attained (re : α → Rat) (b : List α) (m : Rat) :
    b.foldl (fun m w => min m (re w)) m = m ∨ ∃ v ∈ b, re v = b.foldl (fun m w => min m (re w)) m := by
  induction b generalizing m with
  | nil => simp
  | cons w t ih =>
    simp only [List.foldl_cons]
    rcases ih (min m (re w)) with h | ⟨v, hv, heq⟩
    · rcases min_cases m (re w) with ⟨hm, _⟩ | ⟨hm, _⟩
      · left; rw [h, hm]
      · right; exact ⟨w, List.mem_cons_self, by rw [h, hm]⟩
    · right; exact ⟨v, List.mem_cons_of_mem _ hv, heq⟩

/-- `'min'`: the reduced value is a lower bound of the block … -/
theorem blockMinG_le (re : α → Rat) (b : List α) : ∀ v ∈ b, blockMinG re b ≤ re v := by
  cases b with
  | nil => simp
  | cons w t =>
    intro v hv
    show t.foldl (fun m w => min m (re w)) (re w) ≤ re v
    rcases List.mem_cons.1 hv with rfl | h
    · exact blockMinG_acc_le re t _
    · exact blockMinG_fold_le re t _ v h

/-- … attained by an entry of the (non-empty) block: it is the smallest entry -/
theorem blockMinG_attained (re : α → Rat) (b : List α) (hb : b ≠ []) : ∃ v ∈ b, re v = blockMinG re b := by
  cases b with
  | nil => exact absurd rfl hb
  | cons w t =>
    show ∃ v ∈ w :: t, re v = t.foldl (fun m w => min m (re w)) (re w)
    rcases blockMinG_fold_attained re t (re w) with h | ⟨v, hv, heq⟩
    · exact ⟨w, List.mem_cons_self, h.symm⟩
    · exact ⟨v, List.mem_cons_of_mem _ hv, heq⟩

/-- the absolute drop: the value survives iff its magnitude is at least `drop` -/
theorem dropSmall_spec (drop d : Rat) : dropSmall drop d = if absQ d < drop then 0 else d := rfl

theorem dropSmall_normal (drop d : Rat) : dropSmall drop d = 0 ∨ drop ≤ absQ (dropSmall drop d) := by
  unfold dropSmall
  split
  · left; rfl
  · right; exact not_lt.1 ‹_›

/-! ### blocks and nodal rows -/

/-- the entries of a block are exactly `X.blk jj r c`, `r < br`, `c < bc` -/
theorem mem_blkEntries [OfNat α 0] (X : Spmm.Bsr α) (jj : Nat) (v : α) :
    v ∈ blkEntries X jj ↔ ∃ r c, r < X.br ∧ c < X.bc ∧ v = X.blk jj r c := by
  unfold blkEntries Spmm.Bsr.blk
  simp only [List.mem_map, List.mem_range]
  constructor
  · rintro ⟨t, ht, rfl⟩
    have hbc : 0 < X.bc := by
      rcases Nat.eq_zero_or_pos X.bc with h | h
      · rw [h] at ht; simp at ht
      · exact h
    refine ⟨t / X.bc, t % X.bc, ?_, Nat.mod_lt _ hbc, ?_⟩
    · exact (Nat.div_lt_iff_lt_mul hbc).2 ht
    · congr 1
      have := Nat.div_add_mod' t X.bc
      omega
  · rintro ⟨r, c, hr, hc, rfl⟩
    refine ⟨r * X.bc + c, ?_, by congr 1; omega⟩
    calc r * X.bc + c < r * X.bc + X.bc := by omega
      _ = (r + 1) * X.bc := by ring
      _ ≤ X.br * X.bc := Nat.mul_le_mul_right _ hr

theorem blkEntries_ne_nil [OfNat α 0] (X : Spmm.Bsr α) (jj : Nat) (hr : 0 < X.br) (hc : 0 < X.bc) :
    blkEntries X jj ≠ [] := by
  intro h
  have : X.blk jj 0 0 ∈ blkEntries X jj := (mem_blkEntries X jj _).2 ⟨0, 0, hr, hc, rfl⟩
  rw [h] at this; simp at this

/-- nodal row `I`: one entry per stored block of block row `I` -/
theorem mem_redRow [OfNat α 0] (X : Spmm.Bsr α) (f : List α → Rat) (I : Nat) (c : Nat × Rat) :
    c ∈ redRow X f I ↔ ∃ jj, (c.1, jj) ∈ X.blockRow I ∧ c.2 = f (blkEntries X jj) := by
  unfold redRow
  simp only [List.mem_map]
  constructor
  · rintro ⟨b, hb, rfl⟩; exact ⟨b.2, hb, rfl⟩
  · rintro ⟨jj, hjj, h⟩; exact ⟨(c.1, jj), hjj, by cases c; simp_all⟩

theorem redRow_cols [OfNat α 0] (X : Spmm.Bsr α) (f : List α → Rat) (I : Nat) :
    (redRow X f I).map Prod.fst = (X.blockRow I).map Prod.fst := by
  unfold redRow; simp [List.map_map, Function.comp_def]

theorem redRows_getElem? [OfNat α 0] (X : Spmm.Bsr α) (f : List α → Rat) (I : Nat) (hI : I < X.rows / X.br) :
    (redRows X f)[I]? = some (redRow X f I) := by
  unfold redRows; simp [List.getElem?_map, List.getElem?_range hI]

theorem redRows_length [OfNat α 0] (X : Spmm.Bsr α) (f : List α → Rat) : (redRows X f).length = X.rows / X.br := by
  unfold redRows; simp

/-! ### `block=True` -/

/-- kernel norm and start value selected by `norm` -/
def kNorm (norm : String) : Rat → Rat := if norm = "min" then negQ else absQ
def kTiny (norm : String) (tiny : Rat) : Rat := if norm = "min" then 0 else tiny

theorem classicalBlock_some [OfNat α 0] (nrm nsq re : α → Rat) (real : Bool) (norm : String) (tiny drop θ : Rat)
    (X : Spmm.Bsr α) (out : List Row)
    (h : classicalBlock nrm nsq re real norm tiny drop θ X = some out) :
    ∃ red, blockRed nrm nsq re norm = some red ∧
      out = pubClassicalNorm norm tiny θ (redRows X fun b => dropSmall drop (red b)) := by
  unfold classicalBlock at h
  split at h
  · cases h
  · rename_i red hred
    split at h
    · cases h
    · exact ⟨red, hred, (Option.some.inj h).symm⟩

/-- the reduction is the one the docstring names -/
theorem blockRed_cases (nrm nsq re : α → Rat) (norm : String) (red : List α → Rat)
    (h : blockRed nrm nsq re norm = some red) :
    (norm = "abs" ∧ red = blockAbsG nrm) ∨ (norm = "min" ∧ red = blockMinG re) ∨ (norm = "fro" ∧ red = blockFroG nsq) := by
  unfold blockRed at h
  split at h
  · left; exact ⟨‹_›, (Option.some.inj h).symm⟩
  · split at h
    · right; left; exact ⟨‹_›, (Option.some.inj h).symm⟩
    · split at h
      · right; right; exact ⟨‹_›, (Option.some.inj h).symm⟩
      · cases h

/-- the model rejects exactly what the code rejects: an unknown norm, and `'min'` on complex scalars -/
theorem classicalBlock_none_iff [OfNat α 0] (nrm nsq re : α → Rat) (real : Bool) (norm : String) (tiny drop θ : Rat)
    (X : Spmm.Bsr α) :
    classicalBlock nrm nsq re real norm tiny drop θ X = none ↔
      (norm ≠ "abs" ∧ norm ≠ "min" ∧ norm ≠ "fro") ∨ (norm = "min" ∧ real = false) := by
  unfold classicalBlock blockRed
  by_cases h1 : norm = "abs"
  · subst h1; simp
  · by_cases h2 : norm = "min"
    · subst h2; simp
    · by_cases h3 : norm = "fro"
      · subst h3; simp
      · simp [h1, h2, h3]

theorem pubClassicalNorm_getD (norm : String) (tiny θ : Rat) (rows : List Row) (I : Nat) (hI : I < rows.length) :
    (pubClassicalNorm norm tiny θ rows).getD I [] =
      pubClassicalRow (kNorm norm) absQ (kTiny norm tiny) tiny θ I (rows.getD I []) := by
  have h := pubClassicalNorm_row norm tiny θ rows I
  rw [List.getElem?_eq_getElem hI] at h
  rw [List.getD_eq_getElem?_getD, h, List.getD_eq_getElem?_getD, List.getElem?_eq_getElem hI]
  unfold kNorm kTiny
  split <;> simp

/-- **block rule**: with `c_jj = dropSmall (red (block jj))` the reduced value of stored block `jj`, nodal column `J` is
stored in row `I` of the result iff block row `I` stores a block `(I,J)` with `c ≠ 0` that is the diagonal block or
satisfies `kNorm c ≥ θ · maxOff` — `kNorm = |·|` started at `tiny` for `'abs'`/`'fro'`, `x ↦ -x` started at `0` for `'min'`;
`maxOff` is taken over the reduced off-diagonal blocks of block row `I` (theorems `max_offdiagonal_bounds/attained`) -/
theorem classicalBlock_rule [OfNat α 0] (nrm nsq re : α → Rat) (real : Bool) (norm : String) (tiny drop θ : Rat)
    (ht : 0 < tiny) (X : Spmm.Bsr α) (out : List Row)
    (h : classicalBlock nrm nsq re real norm tiny drop θ X = some out) (I : Nat) (hI : I < X.rows / X.br) (J : Nat) :
    ∃ red, blockRed nrm nsq re norm = some red ∧
      (J ∈ (out.getD I []).map Prod.fst ↔
        ∃ jj, (J, jj) ∈ X.blockRow I ∧ dropSmall drop (red (blkEntries X jj)) ≠ 0 ∧
          (J = I ∨ kNorm norm (dropSmall drop (red (blkEntries X jj))) ≥
            θ * maxOff (kNorm norm) (kTiny norm tiny) I (redRow X (fun b => dropSmall drop (red b)) I))) := by
  obtain ⟨red, hred, rfl⟩ := classicalBlock_some nrm nsq re real norm tiny drop θ X out h
  refine ⟨red, hred, ?_⟩
  have hlen : I < (redRows X fun b => dropSmall drop (red b)).length := by rw [redRows_length]; exact hI
  rw [pubClassicalNorm_getD norm tiny θ _ I hlen, List.getD_eq_getElem?_getD, redRows_getElem? X _ I hI,
    Option.getD_some, pubClassicalRow_col_iff (kNorm norm) absQ (kTiny norm tiny) tiny θ ht]
  constructor
  · rintro ⟨cv, hcv, rfl, hnz, hr⟩
    obtain ⟨jj, hjj, hv⟩ := (mem_redRow X _ I cv).1 hcv
    rw [hv] at hnz hr
    refine ⟨jj, hjj, ?_, hr⟩
    intro h0; apply hnz; rw [h0]; simp [absQ]
  · rintro ⟨jj, hjj, hnz, hr⟩
    refine ⟨(J, dropSmall drop (red (blkEntries X jj))), (mem_redRow X _ I _).2 ⟨jj, hjj, rfl⟩, rfl, ?_, hr⟩
    intro h0
    exact hnz (absQ_isMulModulus.toIsModulus.eq_zero_iff _ |>.1 h0)

/-- **contract of the block result** (`tiny ≤ drop`: `2.2e-308 ≤ 1e-16`): `N = rows / blocksize` rows; the stored columns of
row `I` are a sub-list of the stored block columns of block row `I`; entries lie in `(0,1]` and every non-empty row attains
`1`; the diagonal is stored whenever a diagonal block with non-zero reduced value is stored -/
theorem classicalBlock_contract [OfNat α 0] (nrm nsq re : α → Rat) (real : Bool) (norm : String) (tiny drop θ : Rat)
    (ht : 0 < tiny) (htd : tiny ≤ drop) (X : Spmm.Bsr α) (out : List Row)
    (h : classicalBlock nrm nsq re real norm tiny drop θ X = some out) :
    out.length = X.rows / X.br ∧
    ∀ I, I < X.rows / X.br →
      ((out.getD I []).map Prod.fst).Sublist ((X.blockRow I).map Prod.fst) ∧
      (∀ cv ∈ out.getD I [], 0 < cv.2 ∧ cv.2 ≤ 1) ∧
      (out.getD I [] ≠ [] → ∃ cv ∈ out.getD I [], cv.2 = 1) ∧
      (∀ red jj, blockRed nrm nsq re norm = some red → (I, jj) ∈ X.blockRow I →
        dropSmall drop (red (blkEntries X jj)) ≠ 0 → I ∈ (out.getD I []).map Prod.fst) := by
  obtain ⟨red, hred, rfl⟩ := classicalBlock_some nrm nsq re real norm tiny drop θ X out h
  constructor
  · have : ∀ rows : List Row, (pubClassicalNorm norm tiny θ rows).length = rows.length := by
      intro rows; unfold pubClassicalNorm pubClassical; split <;> simp [mapRows]
    rw [this, redRows_length]
  · intro I hI
    have hlen : I < (redRows X fun b => dropSmall drop (red b)).length := by rw [redRows_length]; exact hI
    have hrow : (redRows X fun b => dropSmall drop (red b)).getD I [] = redRow X (fun b => dropSmall drop (red b)) I := by
      rw [List.getD_eq_getElem?_getD, redRows_getElem? X _ I hI, Option.getD_some]
    rw [pubClassicalNorm_getD norm tiny θ _ I hlen, hrow]
    have hsub : ∀ cv ∈ redRow X (fun b => dropSmall drop (red b)) I, absQ cv.2 = 0 ∨ tiny ≤ absQ cv.2 := by
      intro cv hcv
      obtain ⟨jj, _, hv⟩ := (mem_redRow X _ I cv).1 hcv
      rw [hv]
      rcases dropSmall_normal drop (red (blkEntries X jj)) with h0 | h0
      · left; rw [h0]; simp [absQ]
      · right; exact le_trans htd h0
    have hc := pubClassicalRow_contract (kNorm norm) absQ absQ_nonneg (kTiny norm tiny) tiny θ ht I _ hsub
    refine ⟨?_, hc.1, hc.2, ?_⟩
    · rw [← redRow_cols X (fun b => dropSmall drop (red b)) I]
      exact pubClassicalRow_cols_sublist _ _ _ _ _ _ _
    · intro red' jj hred' hjj hnz
      have : red' = red := Option.some.inj (hred'.symm.trans hred)
      subst this
      refine pubClassicalRow_diag (kNorm norm) absQ (kTiny norm tiny) tiny θ ht I _
        (dropSmall drop (red' (blkEntries X jj))) ((mem_redRow X _ I _).2 ⟨jj, hjj, rfl⟩) ?_
      intro h0
      exact hnz (absQ_isMulModulus.toIsModulus.eq_zero_iff _ |>.1 h0)

end PyamgV.C14X
