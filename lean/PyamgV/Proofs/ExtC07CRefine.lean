import PyamgV.Model.C07Krylov
import PyamgV.Proofs.ExtC07CSim

/-! PyamgV (extension E37, property C07): the executable recurrence models of `Model/C07Krylov.lean`, instantiated
with the operations of a `K`-module carrying a Hermitian form (`Ops.ofHerm`: `dot u v = ⟨u, v⟩`, conjugate-linear
in `u` -- the `np.inner(u.conjugate(), v)` of the code), *are* the abstract sequences of
`Proofs/ExtC07CPcg.lean` / `ExtC07CSim.lean`, including the periodic recomputation `r = b − A x`.  Hence the
Hermitian optimality theorems hold for the model definitions themselves (`cg_cmodel_optimal`, `cgnr_…`, `cgne_…`,
`cr_cmodel_optimal` with a commuting preconditioner), and the steps of steepest descent / minimal residual are exact
line searches over the whole complex line (`sd_cstep_optimal`, `mr_cstep_optimal`).
Complex counterpart of `Proofs/C07Refine.lean`. -/
set_option linter.unusedSectionVars false
namespace PyamgV.C07.CH
open PyamgV.CHerm PyamgV.C07

variable {K F : Type} [Field K] [StarRing K] [Field F] [LinearOrder F] [IsStrictOrderedRing F]
variable {V : Type} [AddCommGroup V] [Module K V]

/-- the vector operations of a `K`-module with a Hermitian form `E` -/
def Ops.ofHerm (A AH M : V →ₗ[K] V) (E : HForm K F V) : Ops K V :=
  { add := fun u v => u + v, sub := fun u v => u - v, smul := fun c v => c • v,
    dot := fun u v => E.h u v, A := fun v => A v, AH := fun v => AH v, M := fun v => M v }

variable (A AH M : V →ₗ[K] V) (E : HForm K F V) (b x0 : V)

/-- both forms of the residual update agree when `r = b − A x` -/
theorem resid_update (c : Bool) (x r p : V) (α : K) (h : r = b - A x) :
    (if c then r - α • A p else b - A (x + α • p)) = r - α • A p := by
  cases c
  · simp only [Bool.false_eq_true, if_false]; rw [h, map_add, map_smul]; abel
  · simp

/-! ### CG -/
def cgSeq (k : Nat) : CgSt K V :=
  iter (cgStep (Ops.ofHerm A AH M E) b) k (cgInit (Ops.ofHerm A AH M E) b x0)

theorem cgSeq_succ (k : Nat) :
    cgSeq A AH M E b x0 (k+1) = cgStep (Ops.ofHerm A AH M E) b (cgSeq A AH M E b x0 k) := rfl

theorem cg_refines (k : Nat) :
    (cgSeq A AH M E b x0 k).x = (CPCG.seq A M E b x0 k).x ∧
    (cgSeq A AH M E b x0 k).r = (CPCG.seq A M E b x0 k).r ∧
    (cgSeq A AH M E b x0 k).p = (CPCG.seq A M E b x0 k).p ∧
    (cgSeq A AH M E b x0 k).rz = (CPCG.seq A M E b x0 k).rz ∧
    (cgSeq A AH M E b x0 k).r = b - A (cgSeq A AH M E b x0 k).x := by
  induction k with
  | zero => simp [cgSeq, iter, cgInit, CPCG.seq, CPCG.init, Ops.ofHerm]
  | succ k ih =>
    obtain ⟨hx, hr, hp, hrz, hres⟩ := ih
    rw [cgSeq_succ]
    generalize cgSeq A AH M E b x0 k = s at *
    have hPs : CPCG.seq A M E b x0 (k+1) = CPCG.step A M E (CPCG.seq A M E b x0 k) := rfl
    rw [hPs]
    generalize CPCG.seq A M E b x0 k = t at *
    obtain ⟨sx, sr, sz, sp, srz, sit⟩ := s
    obtain ⟨tx, tr, tp, trz⟩ := t
    simp only at hx hr hp hrz hres
    subst hx hr hp hrz
    have hu := resid_update A b (recur sit 8) sx sr sp (srz / E.h (A sp) sp) hres
    simp only [cgStep, Ops.ofHerm, CPCG.step, hu]
    refine ⟨trivial, trivial, trivial, trivial, ?_⟩
    rw [hres, map_add, map_smul]; abel

/-- **CG, model level, Hermitian case**: the `k`-th iterate of the recurrence model minimises the energy norm of
the error over `x₀ + K_k(MA, M r₀)` -/
theorem cg_cmodel_optimal (hA : CPCG.Hyp A M E) (xs : V) (hxs : A xs = b) (k : Nat)
    (hnb : ∀ j, j < k → (cgSeq A AH M E b x0 j).rz ≠ 0) :
    (cgSeq A AH M E b x0 k).x - x0 ∈ CPCG.kry A M E b x0 k ∧
    ∀ y, y - x0 ∈ CPCG.kry A M E b x0 k →
      CPCG.enA A E (xs - (cgSeq A AH M E b x0 k).x) ≤ CPCG.enA A E (xs - y) := by
  have h := CPCG.cpcg_optimal_krylov (b := b) (x0 := x0) hA xs hxs k
    (fun j hj => by rw [← (cg_refines A AH M E b x0 j).2.2.2.1]; exact hnb j hj)
  rw [← (cg_refines A AH M E b x0 k).1] at h
  exact h

/-- … hence the energy norm of the error does not increase from one iterate to the next -/
theorem cg_cmodel_monotone (hA : CPCG.Hyp A M E) (xs : V) (hxs : A xs = b) (k : Nat)
    (hnb : ∀ j, j < k + 1 → (cgSeq A AH M E b x0 j).rz ≠ 0) :
    CPCG.enA A E (xs - (cgSeq A AH M E b x0 (k+1)).x) ≤ CPCG.enA A E (xs - (cgSeq A AH M E b x0 k).x) := by
  have h := CPCG.cpcg_monotone (b := b) (x0 := x0) hA xs hxs k
    (fun j hj => by rw [← (cg_refines A AH M E b x0 j).2.2.2.1]; exact hnb j hj)
  rw [← (cg_refines A AH M E b x0 k).1, ← (cg_refines A AH M E b x0 (k+1)).1] at h
  exact h

/-! ### CGNR -/
def cgnrSeq (k : Nat) : NrSt K V :=
  iter (cgnrStep (Ops.ofHerm A AH M E) b) k (cgnrInit (Ops.ofHerm A AH M E) b x0)

theorem cgnrSeq_succ (k : Nat) :
    cgnrSeq A AH M E b x0 (k+1) = cgnrStep (Ops.ofHerm A AH M E) b (cgnrSeq A AH M E b x0 k) := rfl

theorem cgnr_refines (k : Nat) :
    (cgnrSeq A AH M E b x0 k).x = (CKSim.nrSeq A AH M E b x0 k).x ∧
    (cgnrSeq A AH M E b x0 k).r = (CKSim.nrSeq A AH M E b x0 k).r ∧
    (cgnrSeq A AH M E b x0 k).p = (CKSim.nrSeq A AH M E b x0 k).p ∧
    (cgnrSeq A AH M E b x0 k).zr = (CKSim.nrSeq A AH M E b x0 k).zr ∧
    (cgnrSeq A AH M E b x0 k).r = b - A (cgnrSeq A AH M E b x0 k).x := by
  induction k with
  | zero => simp [cgnrSeq, iter, cgnrInit, CKSim.nrSeq, CKSim.nrInit, Ops.ofHerm]
  | succ k ih =>
    obtain ⟨hx, hr, hp, hzr, hres⟩ := ih
    rw [cgnrSeq_succ]
    generalize cgnrSeq A AH M E b x0 k = s at *
    have hPs : CKSim.nrSeq A AH M E b x0 (k+1) = CKSim.nrStep A AH M E (CKSim.nrSeq A AH M E b x0 k) := rfl
    rw [hPs]
    generalize CKSim.nrSeq A AH M E b x0 k = t at *
    obtain ⟨sx, sr, srh, sz, sp, szr, sit⟩ := s
    obtain ⟨tx, tr, tp, tzr⟩ := t
    simp only at hx hr hp hzr hres
    subst hx hr hp hzr
    have hu := resid_update A b (recur sit 8) sx sr sp (szr / E.h (A sp) (A sp)) hres
    simp only [cgnrStep, Ops.ofHerm, CKSim.nrStep, hu]
    refine ⟨trivial, trivial, trivial, trivial, ?_⟩
    rw [hres, map_add, map_smul]; abel

/-- **CGNR, model level, Hermitian case**: the `k`-th iterate minimises the residual norm over
`x₀ + K_k(M AᴴA, M Aᴴ r₀)` -/
theorem cgnr_cmodel_optimal (hadj : CKSim.Adj E A AH) (hM : ∀ u v, E.h (M u) v = E.h u (M v))
    (hdef : ∀ v, E.h v v = 0 → v = 0) (hinj : ∀ v, A v = 0 → v = 0)
    (xs : V) (hxs : A xs = b) (k : Nat)
    (hnb : ∀ j, j < k → (cgnrSeq A AH M E b x0 j).zr ≠ 0) :
    (cgnrSeq A AH M E b x0 k).x - x0 ∈ CPCG.kry (AH ∘ₗ A) M E (AH b) x0 k ∧
    ∀ y, y - x0 ∈ CPCG.kry (AH ∘ₗ A) M E (AH b) x0 k →
      E.en (b - A (cgnrSeq A AH M E b x0 k).x) ≤ E.en (b - A y) := by
  have h := CKSim.cgnr_optimal hadj hM hdef hinj b x0 xs hxs k
    (fun j hj => by rw [← (cgnr_refines A AH M E b x0 j).2.2.2.1]; exact hnb j hj)
  rw [← (cgnr_refines A AH M E b x0 k).1] at h
  exact h

/-! ### CGNE -/
def cgneSeq (k : Nat) : NeSt K V :=
  iter (cgneStep (Ops.ofHerm A AH M E) b) k (cgneInit (Ops.ofHerm A AH M E) b x0)

theorem cgneSeq_succ (k : Nat) :
    cgneSeq A AH M E b x0 (k+1) = cgneStep (Ops.ofHerm A AH M E) b (cgneSeq A AH M E b x0 k) := rfl

theorem cgne_refines (k : Nat) :
    (cgneSeq A AH M E b x0 k).x = (CKSim.neSeq A AH M E b x0 k).x ∧
    (cgneSeq A AH M E b x0 k).r = (CKSim.neSeq A AH M E b x0 k).r ∧
    (cgneSeq A AH M E b x0 k).p = (CKSim.neSeq A AH M E b x0 k).p ∧
    (cgneSeq A AH M E b x0 k).zr = (CKSim.neSeq A AH M E b x0 k).zr ∧
    (cgneSeq A AH M E b x0 k).r = b - A (cgneSeq A AH M E b x0 k).x := by
  induction k with
  | zero => simp [cgneSeq, iter, cgneInit, CKSim.neSeq, CKSim.neInit, Ops.ofHerm]
  | succ k ih =>
    obtain ⟨hx, hr, hp, hzr, hres⟩ := ih
    rw [cgneSeq_succ]
    generalize cgneSeq A AH M E b x0 k = s at *
    have hPs : CKSim.neSeq A AH M E b x0 (k+1) = CKSim.neStep A AH M E (CKSim.neSeq A AH M E b x0 k) := rfl
    rw [hPs]
    generalize CKSim.neSeq A AH M E b x0 k = t at *
    obtain ⟨sx, sr, sz, sp, szr, sit⟩ := s
    obtain ⟨tx, tr, tp, tzr⟩ := t
    simp only at hx hr hp hzr hres
    subst hx hr hp hzr
    have hu := resid_update A b (recur sit 8) sx sr sp (szr / E.h sp sp) hres
    simp only [cgneStep, Ops.ofHerm, CKSim.neStep, hu]
    refine ⟨trivial, trivial, trivial, trivial, ?_⟩
    rw [hres, map_add, map_smul]; abel

/-- **CGNE, model level, Hermitian case**: the `k`-th iterate lies in `x₀ + Aᴴ K_k(M A Aᴴ, M r₀)` and minimises the
2-norm of the error over it -/
theorem cgne_cmodel_optimal (hadj : CKSim.Adj E A AH) (hM : ∀ u v, E.h (M u) v = E.h u (M v))
    (hdef : ∀ v, E.h v v = 0 → v = 0) (hinj : ∀ v, AH v = 0 → v = 0)
    (ys : V) (hys : A (AH ys) = b - A x0) (k : Nat)
    (hnb : ∀ j, j < k → (cgneSeq A AH M E b x0 j).zr ≠ 0) :
    (∃ y, y ∈ CPCG.kry (A ∘ₗ AH) M E (b - A x0) 0 k ∧ (cgneSeq A AH M E b x0 k).x = x0 + AH y) ∧
    ∀ y, y ∈ CPCG.kry (A ∘ₗ AH) M E (b - A x0) 0 k →
      E.en ((x0 + AH ys) - (cgneSeq A AH M E b x0 k).x) ≤ E.en ((x0 + AH ys) - (x0 + AH y)) := by
  have h := CKSim.cgne_optimal hadj hM hdef hinj b x0 ys hys k
    (fun j hj => by rw [← (cgne_refines A AH M E b x0 j).2.2.2.1]; exact hnb j hj)
  rw [← (cgne_refines A AH M E b x0 k).1] at h
  exact h

/-! ### CR -/
def crSeq (k : Nat) : CrSt K V :=
  iter (crStep (Ops.ofHerm A AH M E) b) k (crInit (Ops.ofHerm A AH M E) b x0)

theorem crSeq_succ (k : Nat) :
    crSeq A AH M E b x0 (k+1) = crStep (Ops.ofHerm A AH M E) b (crSeq A AH M E b x0 k) := rfl

theorem cr_refines (k : Nat) :
    (crSeq A AH M E b x0 k).x = (CKSim.crSeq A M E b x0 k).x ∧
    (crSeq A AH M E b x0 k).r = (CKSim.crSeq A M E b x0 k).r ∧
    (crSeq A AH M E b x0 k).p = (CKSim.crSeq A M E b x0 k).p ∧
    (crSeq A AH M E b x0 k).Ap = (CKSim.crSeq A M E b x0 k).Ap ∧
    (crSeq A AH M E b x0 k).rAz = (CKSim.crSeq A M E b x0 k).rAz ∧
    (crSeq A AH M E b x0 k).Ap = A (crSeq A AH M E b x0 k).p ∧
    (crSeq A AH M E b x0 k).r = b - A (crSeq A AH M E b x0 k).x := by
  induction k with
  | zero => simp [crSeq, iter, crInit, CKSim.crSeq, CKSim.crInit, Ops.ofHerm]
  | succ k ih =>
    obtain ⟨hx, hr, hp, hAp, hrAz, hApp, hres⟩ := ih
    rw [crSeq_succ]
    generalize crSeq A AH M E b x0 k = s at *
    have hPs : CKSim.crSeq A M E b x0 (k+1) = CKSim.crStep A M E (CKSim.crSeq A M E b x0 k) := rfl
    rw [hPs]
    generalize CKSim.crSeq A M E b x0 k = t at *
    obtain ⟨sx, sr, sz, sp, sAp, srAz, sit⟩ := s
    obtain ⟨tx, tr, tp, tAp, trAz⟩ := t
    simp only at hx hr hp hAp hrAz hApp hres
    subst hx hr hp hAp hrAz
    have hu := resid_update A b (recur sit 8) sx sr sp (srAz / E.h sAp sAp) hres
    rw [← hApp] at hu
    simp only [crStep, Ops.ofHerm, CKSim.crStep, hu]
    refine ⟨trivial, trivial, trivial, trivial, trivial, ?_, ?_⟩
    · rw [map_add, map_smul, hApp]
    · rw [hres, map_add, map_smul, hApp]; abel

/-- **CR, model level, Hermitian case, preconditioner commuting with `A`**: the `k`-th iterate minimises the
residual norm over `x₀ + K_k(MA, M r₀)` -/
theorem cr_cmodel_optimal (hs : ∀ u v, E.h (A u) v = E.h u (A v))
    (hp : ∀ v, 0 ≤ E.re (E.h (A v) v)) (hM : ∀ u v, E.h (M u) v = E.h u (M v))
    (hcomm : ∀ v, M (A v) = A (M v))
    (hdef : ∀ v, E.h v v = 0 → v = 0) (hinj : ∀ v, A v = 0 → v = 0)
    (xs : V) (hxs : A xs = b) (k : Nat)
    (hnb : ∀ j, j < k → (crSeq A AH M E b x0 j).rAz ≠ 0) :
    (crSeq A AH M E b x0 k).x - x0 ∈ CPCG.kry A M E b x0 k ∧
    ∀ y, y - x0 ∈ CPCG.kry A M E b x0 k →
      E.en (b - A (crSeq A AH M E b x0 k).x) ≤ E.en (b - A y) := by
  have h := CKSim.cr_optimal hs hp hM hcomm hdef hinj b x0 xs hxs k
    (fun j hj => by rw [← (cr_refines A AH M E b x0 j).2.2.2.2.1]; exact hnb j hj)
  rw [← (cr_refines A AH M E b x0 k).1] at h
  exact h

/-! ### steepest descent and minimal residual: every step is an exact line search over the complex line -/

/-- one step of `_steepest_descent.py` from a state with `r = b − A x`, `z = M r`, `rz = ⟨r, z⟩` (`M` Hermitian, so
that `rz` is real) minimises the energy norm of the error on the whole line `x + t z`, `t ∈ K` -/
theorem sd_cstep_optimal (hs : ∀ u v, E.h (A u) v = E.h u (A v)) (hp : ∀ v, 0 ≤ E.re (E.h (A v) v))
    (hM : ∀ u v, E.h (M u) v = E.h u (M v))
    (xs : V) (hxs : A xs = b) (s : SdSt K V) (hr : s.r = b - A s.x) (hz : s.z = M s.r) (hrz : s.rz = E.h s.r s.z)
    (hden : E.h s.z (A s.z) ≠ 0) (t : K) :
    CPCG.enA A E (xs - (sdStep (Ops.ofHerm A AH M E) b s).x) ≤ CPCG.enA A E (xs - (s.x + t • s.z)) := by
  obtain ⟨x, r, z, rz, it⟩ := s
  simp only at hr hz hrz hden
  subst hrz
  simp only [sdStep, Ops.ofHerm]
  have hreal : E.h r z = E.h z r := by
    rw [hz, ← hM]
  have hd : (E.aForm A hs hp).h z z ≠ 0 := by rw [HForm.aForm_h, hs]; exact hden
  have key := line_search_optimal (E.aForm A hs hp) (xs - x) z hd t
  have hα : (E.aForm A hs hp).h z (xs - x) / (E.aForm A hs hp).h z z = E.h r z / E.h z (A z) := by
    rw [HForm.aForm_h, HForm.aForm_h, hs z z, hs z (xs - x), map_sub, hxs, ← hr, hreal]
  rw [hα] at key
  have e1 : ∀ c : K, xs - (x + c • z) = xs - x - c • z := by intro c; abel
  unfold CPCG.enA
  rw [e1, e1]
  exact key

/-- one step of `_minimal_residual.py` from a state with `z = M (b − A x)` minimises the norm of the
preconditioned residual `M (b − A y)` on the whole line `y = x + t z`, `t ∈ K` (no symmetry needed) -/
theorem mr_cstep_optimal (s : MrSt K V) (hz : s.z = M (b - A s.x))
    (hden : E.h (M (A s.z)) (M (A s.z)) ≠ 0) (t : K) :
    E.en (M (b - A (mrStep (Ops.ofHerm A AH M E) b s).x)) ≤ E.en (M (b - A (s.x + t • s.z))) := by
  obtain ⟨x, z, it⟩ := s
  simp only at hz hden
  simp only [mrStep, Ops.ofHerm]
  set p := M (A z) with hp
  have e1 : ∀ c : K, M (b - A (x + c • z)) = z - c • p := by
    intro c; rw [map_add, map_smul, sub_add_eq_sub_sub, map_sub, ← hz, map_smul]
  rw [e1, e1]
  exact line_search_optimal E z p hden t

#print axioms cg_cmodel_optimal
#print axioms cgnr_cmodel_optimal
#print axioms cgne_cmodel_optimal
#print axioms cr_cmodel_optimal
#print axioms sd_cstep_optimal
#print axioms mr_cstep_optimal
end PyamgV.C07.CH
