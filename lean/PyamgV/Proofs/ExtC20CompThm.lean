import PyamgV.Proofs.ExtC20Comp
import PyamgV.Model.ExtC20CompIdx

/-! PyamgV (C20, extension E45): **the closed-form eigenpairs of the Poisson matrices of the `stencil_grid` model
exhaust the spectrum, with multiplicities** — statements on the model's matrices
(`rowdotK (stencilGrid grid (poissonFD/FE grid.length))`, real vectors), 1-D and N-D, FD and FE.

Notation: `kidx grid m` = the `m`-th index tuple `(k_1..k_N)`, `1 ≤ k_i ≤ g_i` (`m < prod grid`; a bijection:
`kidx_valid`, `kidx_surj`, `kidx_inj`); `tuples grid` = all of them; `Vnd grid m` = E21's product eigenvector
`tvec grid ((cosList grid (kidx grid m)).map chebU)`; `eigFD grid ks = Σ_i (2 - 2 cos(k_i π/(g_i+1)))`,
`eigFE grid ks = 3^N - Π_i (1 + 2 cos(k_i π/(g_i+1)))`; `ip n` = Euclidean inner product of the first `n`
components; `toMat n M` = the `n × n` real matrix `(M i j)`. -/
namespace PyamgV.C20.Comp
open Finset PyamgV.C20 PyamgV.Stencil

/-! ## index tuples -/

theorem kidxQ_eq : ∀ (grid : List Nat) (m : Nat), kidxQ grid m = kidx grid m := by
  intro grid
  induction grid with
  | nil => intro m; rfl
  | cons g gs ih =>
    intro m
    rw [kidx_cons, ← ih]
    rfl

/-- all index tuples, in the order of their numbers -/
def tuples (grid : List Nat) : List (List Nat) := (List.range (prod grid)).map (kidx grid)

theorem tuplesQ_eq (grid : List Nat) : tuplesQ grid = tuples grid := by
  unfold tuplesQ tuples
  have : prodQ grid = prod grid := rfl
  rw [this]
  exact List.map_congr_left fun m _ => kidxQ_eq grid m

/-- `tuples grid` = exactly the tuples `1 ≤ k_i ≤ g_i` -/
theorem mem_tuples (grid ks : List Nat) :
    ks ∈ tuples grid ↔ List.Forall₂ (fun g k => 1 ≤ k ∧ k ≤ g) grid ks := by
  unfold tuples
  rw [List.mem_map]
  constructor
  · rintro ⟨m, hm, rfl⟩
    exact kidx_valid grid m (List.mem_range.1 hm)
  · intro h
    obtain ⟨m, hm, e⟩ := kidx_surj grid ks h
    exact ⟨m, List.mem_range.2 hm, e⟩

/-- ... each once -/
theorem tuples_nodup (grid : List Nat) : (tuples grid).Nodup := by
  unfold tuples
  rw [List.nodup_map_iff_inj_on List.nodup_range]
  intro m hm m' hm' e
  exact kidx_inj grid m m' (List.mem_range.1 hm) (List.mem_range.1 hm') e

/-- there are `prod grid` = (size of the matrix) of them -/
theorem tuples_length (grid : List Nat) : (tuples grid).length = prod grid := by
  unfold tuples; simp

theorem Vnd_eq (grid : List Nat) (m : Nat) : Vnd grid m = tvec grid ((cosList grid (kidx grid m)).map chebU) := rfl

theorem card_filter_range (n : Nat) (p : Nat → Prop) [DecidablePred p] :
    ((range n).filter p).card = ((List.range n).filter fun m => decide (p m)).length := by
  induction n with
  | zero => simp
  | succ n ih =>
    rw [Finset.range_add_one, Finset.filter_insert, List.range_succ, List.filter_append, List.length_append, ← ih]
    by_cases h : p n
    · rw [if_pos h, Finset.card_insert_of_notMem (by simp)]; simp [h]
    · rw [if_neg h]; simp [h]

theorem count_tuples (grid : List Nat) (f : List Nat → ℝ) (mu : ℝ) :
    ((range (prod grid)).filter fun m => f (kidx grid m) = mu).card =
      ((tuples grid).filter fun ks => decide (f ks = mu)).length := by
  rw [card_filter_range]
  unfold tuples
  rw [List.filter_map, List.length_map]
  rfl

/-! ## what holds for both matrices: the product vectors are an orthogonal basis of `ℝ^(prod grid)` -/

/-- the product vectors of two different index tuples are orthogonal -/
theorem poisson_tensor_orth (grid : List Nat) (m m' : Nat) (hm : m < prod grid) (hm' : m' < prod grid) (h : m ≠ m') :
    ip (prod grid) (Vnd grid m) (Vnd grid m') = 0 := Vnd_orth grid m hm m' hm' h

/-- their squared norms are positive -/
theorem poisson_tensor_norm_pos (grid : List Nat) (m : Nat) (hm : m < prod grid) :
    0 < ip (prod grid) (Vnd grid m) (Vnd grid m) := ip_self_pos _ _ (by omega) (Vnd_zero grid m)

/-- completeness relation `Σ_m V_m(i) V_m(j) / ‖V_m‖² = δ_ij` -/
theorem poisson_tensor_complete (grid : List Nat) (i j : Nat) (hi : i < prod grid) (hj : j < prod grid) :
    (∑ m ∈ range (prod grid), Vnd grid m i * (Vnd grid m j / ip (prod grid) (Vnd grid m) (Vnd grid m))) =
      if i = j then 1 else 0 :=
  complete_rel (Vnd_orth grid) (Vnd_nz grid) i j hi hj

/-- **the `prod grid` product vectors span `ℝ^(prod grid)`**: every vector is the combination with the
coefficients `⟨V_m, x⟩ / ‖V_m‖²` -/
theorem poisson_tensor_span (grid : List Nat) (x : Nat → ℝ) (p : Nat) (hp : p < prod grid) :
    x p = ∑ m ∈ range (prod grid),
      (ip (prod grid) (Vnd grid m) x / ip (prod grid) (Vnd grid m) (Vnd grid m)) * Vnd grid m p :=
  expansion (Vnd_orth grid) (Vnd_nz grid) x p hp

/-- **they are linearly independent** -/
theorem poisson_tensor_linindep (grid : List Nat) (a : Nat → ℝ)
    (h : ∀ p < prod grid, (∑ m ∈ range (prod grid), a m * Vnd grid m p) = 0) : ∀ m < prod grid, a m = 0 :=
  linindep (Vnd_orth grid) (Vnd_nz grid) a h

/-! ## FD -/

/-- **FD, every eigenvalue is a closed-form value**: if `A w = mu w` on the grid for a `w` that is not zero on
the grid, then `mu = Σ_i (2 - 2 cos(k_i π/(g_i+1)))` for some index tuple `1 ≤ k_i ≤ g_i` -/
theorem poissonFD_eigenvalue_complete (grid : List Nat) (mu : ℝ) (w : Nat → ℝ) (hne : ∃ p < prod grid, w p ≠ 0)
    (h : ∀ p < prod grid, rowdotK (stencilGrid grid (poissonFD grid.length)) w p = mu * w p) :
    ∃ ks, List.Forall₂ (fun g k => 1 ≤ k ∧ k ≤ g) grid ks ∧
      mu = ((cosList grid ks).map fun c => 2 - 2 * c).sum := by
  obtain ⟨m, hm, e⟩ := (fd_ortho grid).eigenvalue_mem mu w hne (fun p hp => by rw [← rowdotK_fd]; exact h p hp)
  exact ⟨kidx grid m, kidx_valid grid m hm, e.symm⟩

/-- **FD, eigenspaces**: every `w` with `A w = mu w` is the combination of the product vectors whose closed-form
value is `mu` (coefficients `⟨V_m, w⟩ / ‖V_m‖²`); with `poisson_tensor_linindep` these are a basis of the eigenspace -/
theorem poissonFD_eigenspace (grid : List Nat) (mu : ℝ) (w : Nat → ℝ)
    (h : ∀ p < prod grid, rowdotK (stencilGrid grid (poissonFD grid.length)) w p = mu * w p)
    (p : Nat) (hp : p < prod grid) :
    w p = ∑ m ∈ (range (prod grid)).filter (fun m => eigFD grid (kidx grid m) = mu),
      (ip (prod grid) (Vnd grid m) w / ip (prod grid) (Vnd grid m) (Vnd grid m)) * Vnd grid m p :=
  (fd_ortho grid).eigenspace mu w (fun p hp => by rw [← rowdotK_fd]; exact h p hp) p hp

open Polynomial in
/-- **FD, characteristic polynomial** of the model's matrix: `Π_tuples (X - Σ_i (2 - 2 cos(k_i π/(g_i+1))))` -/
theorem poissonFD_charpoly (grid : List Nat) :
    (toMat (prod grid) (fdR grid)).charpoly = ∏ m : Fin (prod grid), (X - C (eigFD grid (kidx grid m.1))) :=
  (fd_ortho grid).charpoly_eq

/-- **FD, multiplicities**: the algebraic multiplicity of `mu` (root multiplicity in the characteristic polynomial;
`0` when `mu` is not an eigenvalue) is the number of index tuples whose closed-form value is `mu` -/
theorem poissonFD_multiplicity (grid : List Nat) (mu : ℝ) :
    (toMat (prod grid) (fdR grid)).charpoly.rootMultiplicity mu =
      ((tuples grid).filter fun ks => decide (eigFD grid ks = mu)).length := by
  rw [(fd_ortho grid).rootMultiplicity_eq mu]
  exact count_tuples grid (eigFD grid) mu

/-! ## FE -/

/-- **FE, every eigenvalue is a closed-form value** `3^N - Π_i (1 + 2 cos(k_i π/(g_i+1)))` -/
theorem poissonFE_eigenvalue_complete (grid : List Nat) (mu : ℝ) (w : Nat → ℝ) (hne : ∃ p < prod grid, w p ≠ 0)
    (h : ∀ p < prod grid, rowdotK (stencilGrid grid (poissonFE grid.length)) w p = mu * w p) :
    ∃ ks, List.Forall₂ (fun g k => 1 ≤ k ∧ k ≤ g) grid ks ∧
      mu = (3 : ℝ) ^ grid.length - ((cosList grid ks).map fun c => 1 + 2 * c).prod := by
  obtain ⟨m, hm, e⟩ := (fe_ortho grid).eigenvalue_mem mu w hne (fun p hp => by rw [← rowdotK_fe]; exact h p hp)
  exact ⟨kidx grid m, kidx_valid grid m hm, e.symm⟩

/-- **FE, eigenspaces** -/
theorem poissonFE_eigenspace (grid : List Nat) (mu : ℝ) (w : Nat → ℝ)
    (h : ∀ p < prod grid, rowdotK (stencilGrid grid (poissonFE grid.length)) w p = mu * w p)
    (p : Nat) (hp : p < prod grid) :
    w p = ∑ m ∈ (range (prod grid)).filter (fun m => eigFE grid (kidx grid m) = mu),
      (ip (prod grid) (Vnd grid m) w / ip (prod grid) (Vnd grid m) (Vnd grid m)) * Vnd grid m p :=
  (fe_ortho grid).eigenspace mu w (fun p hp => by rw [← rowdotK_fe]; exact h p hp) p hp

open Polynomial in
/-- **FE, characteristic polynomial** -/
theorem poissonFE_charpoly (grid : List Nat) :
    (toMat (prod grid) (feR grid)).charpoly = ∏ m : Fin (prod grid), (X - C (eigFE grid (kidx grid m.1))) :=
  (fe_ortho grid).charpoly_eq

/-- **FE, multiplicities** -/
theorem poissonFE_multiplicity (grid : List Nat) (mu : ℝ) :
    (toMat (prod grid) (feR grid)).charpoly.rootMultiplicity mu =
      ((tuples grid).filter fun ks => decide (eigFE grid ks = mu)).length := by
  rw [(fe_ortho grid).rootMultiplicity_eq mu]
  exact count_tuples grid (eigFE grid) mu

/-- what `toMat` of the model matrices is: the rational entries of the triple list (duplicates added), cast -/
theorem toMat_fd_apply (grid : List Nat) (i j : Fin (prod grid)) :
    toMat (prod grid) (fdR grid) i j = ((entry (stencilGrid grid (poissonFD grid.length)) i.1 j.1 : Rat) : ℝ) := rfl
theorem toMat_fe_apply (grid : List Nat) (i j : Fin (prod grid)) :
    toMat (prod grid) (feR grid) i j = ((entry (stencilGrid grid (poissonFE grid.length)) i.1 j.1 : Rat) : ℝ) := rfl

/-! ## 1-D: `tridiag(-1, 2, -1)`, simple spectrum -/

theorem prod_one (n : Nat) : prod [n] = n := by simp [prod]

theorem fdEntry_one (n p q : Nat) (hp : p < n) (hq : q < n) : fdEntry [n] p q = tri p q := by
  have := poissonFD_kron n [] p q 0 0 hp hq (by simp [prod]) (by simp [prod])
  have h0 : entry (stencilGrid [] (poissonFD 0)) 0 0 = 0 := by
    have := poisson_diag [] false 0 (by simp [prod])
    simpa [centre, poissonStencil] using this
  simp only [prod, List.foldl_nil, Nat.mul_one, Nat.add_zero, List.length_nil, Nat.zero_add, if_true, h0] at this
  show entry (stencilGrid [n] (poissonFD 1)) p q = tri p q
  rw [this]
  split <;> simp

/-- the model's 1-D matrix with the Chebyshev vectors `V1 n m = U_·(cos((m+1) π/(n+1)))` -/
theorem ortho1d_model (n : Nat) : OrthoEigen n (fdR [n]) (V1 n) (lam1 n) :=
  (ortho1d n).congr_mat fun p hp q hq => by
    unfold fdR castM
    rw [fdEntry_one n p q hp hq]
    exact triR_cast p q

theorem rowdotK_1d (n : Nat) (w : Nat → ℝ) (j : Nat) :
    rowdotK (stencilGrid [n] (poissonFD 1)) w j = mv n (fdR [n]) w j := by
  have := rowdotK_fd [n] w j
  rw [prod_one] at this
  exact this

/-- **1-D, the closed-form eigenvalues are pairwise distinct** (strictly increasing in `k`) -/
theorem poisson1d_eigenvalues_strictMono (n k k' : Nat) (h : k < k') (hk' : k' ≤ n) :
    2 - 2 * Real.cos ((k : ℝ) * Real.pi / ((n : ℝ) + 1)) < 2 - 2 * Real.cos ((k' : ℝ) * Real.pi / ((n : ℝ) + 1)) := by
  have := cosk_lt n k k' h (by omega)
  unfold cosk at this
  linarith

/-- **1-D, every eigenvalue is a closed-form value**: if `A w = mu w`, `w ≠ 0`, then `mu = 2 - 2 cos(k π/(n+1))`
for some `1 ≤ k ≤ n` -/
theorem poisson1d_eigenvalue_complete (n : Nat) (mu : ℝ) (w : Nat → ℝ) (hne : ∃ j < n, w j ≠ 0)
    (h : ∀ j < n, rowdotK (stencilGrid [n] (poissonFD 1)) w j = mu * w j) :
    ∃ k, 1 ≤ k ∧ k ≤ n ∧ mu = 2 - 2 * Real.cos ((k : ℝ) * Real.pi / ((n : ℝ) + 1)) := by
  obtain ⟨m, hm, e⟩ := (ortho1d_model n).eigenvalue_mem mu w hne (fun p hp => by rw [← rowdotK_1d]; exact h p hp)
  exact ⟨m + 1, by omega, by omega, e.symm⟩

/-- **1-D, the Chebyshev vectors span `ℝ^n`** -/
theorem poisson1d_span (n : Nat) (x : Nat → ℝ) (j : Nat) (hj : j < n) :
    x j = ∑ m ∈ range n, (ip n (V1 n m) x / ip n (V1 n m) (V1 n m)) * V1 n m j :=
  expansion (ortho1d n).orth (ortho1d n).nz x j hj

/-- **1-D, every eigenvalue is simple (geometrically)**: an eigenvector for `2 - 2 cos(k π/(n+1))` is a multiple
of `v_k = U_·(cos(k π/(n+1)))` -/
theorem poisson1d_eigvec_unique (n k : Nat) (hk : 1 ≤ k) (hkn : k ≤ n) (w : Nat → ℝ)
    (h : ∀ j < n, rowdotK (stencilGrid [n] (poissonFD 1)) w j =
      (2 - 2 * Real.cos ((k : ℝ) * Real.pi / ((n : ℝ) + 1))) * w j) :
    ∃ a : ℝ, ∀ j < n, w j = a * chebU (Real.cos ((k : ℝ) * Real.pi / ((n : ℝ) + 1))) j := by
  obtain ⟨m, rfl⟩ : ∃ m, k = m + 1 := ⟨k - 1, by omega⟩
  have hm : m < n := by omega
  refine ⟨ip n (V1 n m) w / ip n (V1 n m) (V1 n m), fun j hj => ?_⟩
  have e : (range n).filter (fun m' => lam1 n m' = lam1 n m) = {m} := by
    ext m'
    simp only [Finset.mem_filter, Finset.mem_range, Finset.mem_singleton]
    constructor
    · rintro ⟨hm', he⟩
      by_contra hne
      exact lam1_ne n m' m hm' hm hne he
    · rintro rfl
      exact ⟨hm, rfl⟩
  have := (ortho1d_model n).eigenspace (lam1 n m) w (fun p hp => by rw [← rowdotK_1d]; exact h p hp) j hj
  rw [e, Finset.sum_singleton] at this
  exact this

open Polynomial in
/-- **1-D, characteristic polynomial**: `Π_{k=1..n} (X - (2 - 2 cos(k π/(n+1))))` -/
theorem poisson1d_charpoly (n : Nat) :
    (toMat n (fdR [n])).charpoly =
      ∏ m : Fin n, (X - C (2 - 2 * Real.cos (((m.1 + 1 : Nat) : ℝ) * Real.pi / ((n : ℝ) + 1)))) :=
  (ortho1d_model n).charpoly_eq

/-- **1-D, every eigenvalue is simple (algebraically)** -/
theorem poisson1d_simple (n k : Nat) (hk : 1 ≤ k) (hkn : k ≤ n) :
    (toMat n (fdR [n])).charpoly.rootMultiplicity (2 - 2 * Real.cos ((k : ℝ) * Real.pi / ((n : ℝ) + 1))) = 1 := by
  obtain ⟨m, rfl⟩ : ∃ m, k = m + 1 := ⟨k - 1, by omega⟩
  have hm : m < n := by omega
  have e : (range n).filter (fun m' => lam1 n m' = lam1 n m) = {m} := by
    ext m'
    simp only [Finset.mem_filter, Finset.mem_range, Finset.mem_singleton]
    constructor
    · rintro ⟨hm', he⟩
      by_contra hne
      exact lam1_ne n m' m hm' hm hne he
    · rintro rfl
      exact ⟨hm, rfl⟩
  have := (ortho1d_model n).rootMultiplicity_eq (lam1 n m)
  rw [e, Finset.card_singleton] at this
  exact this

end PyamgV.C20.Comp
