import PyamgV.Generated.PyLogic3_cycle
import PyamgV.Model.C03Cyc
import PyamgV.Proofs.ExtPy2Tactic
/-! PyamgV (extension E57, properties C03 / C08): theorems about the definition `multilevel_cycle` GENERATED from
`MultilevelSolver.__solve` of the working tree (`harness/py2lean3_cycle.py`, `Generated/PyLogic3_cycle.lean`).

The hierarchy is the mock world `hierWorld L`: `len(self.levels) = L`, every other object opaque, so the level a
smoother / operator belongs to is readable from its path (`self.levels[2].presmoother`, `self.levels[-1].A`), and every
result is the fresh object `#k` of event `k` -- the whole data flow of one cycle is in its trace.

* `cycle_visits_grid_5x3x3` : for every `m ∈ {1..5}` non-coarsest levels (`L = m + 1` levels; a one-level hierarchy
  never reaches `__solve`), `cycle ∈ {V, W, F}`, `cycles_per_level ∈ {1, 2, 3}` the cycle returns `None` and the
  subsequence of smoother / coarse-solver calls of its trace is `C03.traceM` -- the textbook order of the hand-written
  C03 model (`C03.cycT_spec`: `cycT` visits in the order `traceM`).  A FINITE grid, evaluated by the kernel.
* `cycle_trace_grid_5x3x3` : on the same grid the WHOLE trace (every event with every argument) is `specTrace`, the
  hand-written textbook data flow: `pre(A_l, x, b)`; `r = b - A_l @ x`; `cb = R_l @ r`; `cx = zeros_like(cb)`; coarse
  solve `cx[:] = coarse_solver(levels[-1].A, cb)` on the last level, otherwise the recursive visits by cycle type on
  `(cx, cb)`; `x' = x + P_l @ cx`; `post(A_l, x', b)`. -/
namespace PyamgV.ExtPy3Cyc
open PyamgV.ExtPy PyamgV.ExtPy2 PyamgV.Generated.PyLogic3_cycle
open PyamgV.C03 (Cyc Ev traceM)

/-- the mock hierarchy with `L` levels -/
def hierWorld (L : Nat) : World := { heap := [("self.levels", [("__len__", .int L)])] }

def cycStr : Cyc → String
  | .V => "V"
  | .W => "W"
  | .F => "F"

/-- one cycle entered on level 0 of the `L`-level mock hierarchy, from the empty trace -/
def runCycle (L : Nat) (c : Cyc) (cpl : Nat) : Except PyErr PyVal × St :=
  PyM2.exec (multilevel_cycle recFuel (hierWorld L) (.obj "self") (.int 0) (.obj "x") (.obj "b") (.str (cycStr c))
    (.int cpl)) {}

def lvlPath (l : Nat) : String := "self.levels[" ++ toString (Int.ofNat l) ++ "]"

/-- the callee of a visit -/
def evPath : Ev → String
  | .pre l => lvlPath l ++ ".presmoother"
  | .post l => lvlPath l ++ ".postsmoother"
  | .coarse => "self.coarse_solver"

/-- is the event a smoother / coarse-solver call of an `L`-level hierarchy; which -/
def visitOf (L : Nat) : PyVal → Option String
  | .tuple [.str "call", .obj p, _, _] =>
    if p == "self.coarse_solver" || (List.range L).any (fun l => p == evPath (.pre l) || p == evPath (.post l)) then some p
    else none
  | _ => none

def visits (L : Nat) (tr : List PyVal) : List String := tr.filterMap (visitOf L)

def returnsNone : Except PyErr PyVal → Bool
  | .ok .none => true
  | _ => false

def gridM : List Nat := [1, 2, 3, 4, 5]
def gridC : List Cyc := [.V, .W, .F]
def gridK : List Nat := [1, 2, 3]

/-! ### the whole trace: the textbook data flow -/

def fresh (n : Nat) : PyVal := .obj ("#" ++ toString n)
def lvlObj (l : Nat) (a : String) : PyVal := .obj (lvlPath l ++ "." ++ a)
def evCall (f : PyVal) (args : List PyVal) : PyVal := .tuple [.str "call", f, .list args, .dict []]
def evBin (op : String) (a b : PyVal) : PyVal := .tuple [.str "binop", .str op, a, b]

/-- `k` repetitions of a block of events whose first event has number `n` -/
def specRep (f : Nat → List PyVal) : Nat → Nat → List PyVal
  | 0, _ => []
  | k + 1, n => let t := f n; t ++ specRep f k (n + t.length)

/-- HAND-WRITTEN textbook data flow of one visit of level `lvl` (`m` non-coarsest levels at and below it) with the
iterate `x` and the right-hand side `b`, as the events it causes when its first event has number `n` (the result of
event `j` is the object `#j`; the iterate of a level is ONE object for all visits of the level below, as the arrays
`coarse_x` / `coarse_b` are in the code). -/
def specCyc : Cyc → Nat → Nat → Nat → PyVal → PyVal → Nat → List PyVal
  | _, _, _, 0, _, _, _ => []
  | c, cpl, lvl, m + 1, x, b, n =>
    let A := lvlObj lvl "A"
    let cb := fresh (n + 3)
    let cx := fresh (n + 4)
    let inner : List PyVal := match m with
      | 0 => [evCall (.obj "self.coarse_solver") [.obj "self.levels[-1].A", cb],
              .tuple [.str "setitem", cx, sliceKey .none .none, fresh (n + 5)]]
      | _ + 1 => match c with
        | .V => specCyc .V 1 (lvl + 1) m cx cb (n + 5)
        | .W => specRep (fun j => specCyc .W 1 (lvl + 1) m cx cb j) 2 (n + 5)
        | .F =>
          let t := specCyc .F cpl (lvl + 1) m cx cb (n + 5)
          t ++ specRep (fun j => specCyc .V 1 (lvl + 1) m cx cb j) cpl (n + 5 + t.length)
    let n' := n + 5 + inner.length
    [evCall (lvlObj lvl "presmoother") [A, x, b],          -- n       presmoother(A, x, b)
     evBin "matmul" A x,                                   -- n + 1   A @ x
     evBin "sub" b (fresh (n + 1)),                        -- n + 2   residual = b - A @ x
     evBin "matmul" (lvlObj lvl "R") (fresh (n + 2)),      -- n + 3   coarse_b = R @ residual
     evCall (.obj "np.zeros_like") [cb]]                   -- n + 4   coarse_x = zeros_like(coarse_b)
    ++ inner ++
    [evBin "matmul" (lvlObj lvl "P") cx,                   -- n'      P @ coarse_x
     evBin "add" x (fresh n'),                             -- n' + 1  x += ...
     evCall (lvlObj lvl "postsmoother") [A, fresh (n' + 1), b]]

/-- the grid as a list of points -/
def grid : List (Nat × Cyc × Nat) := gridM.flatMap fun m => gridC.flatMap fun c => gridK.map fun k => (m, c, k)

/-- what one run is compared on: (returned `None`?, trace) -/
def runSummary (L : Nat) (c : Cyc) (cpl : Nat) : Bool × List PyVal :=
  match runCycle L c cpl with
  | (r, s) => (returnsNone r, s.trace)

theorem runSummary_eq (L : Nat) (c : Cyc) (cpl : Nat) :
    runSummary L c cpl = (returnsNone (runCycle L c cpl).1, (runCycle L c cpl).2.trace) := rfl

set_option maxRecDepth 100000 in
theorem trace_grid_eval :
    grid.map (fun p => runSummary (p.1 + 1) p.2.1 p.2.2)
      = grid.map (fun p => (true, specCyc p.2.1 p.2.2 0 p.1 (.obj "x") (.obj "b") 0)) := by
  kernel_rfl

set_option maxRecDepth 100000 in
theorem specCyc_visits_grid_eval :
    grid.map (fun p => visits (p.1 + 1) (specCyc p.2.1 p.2.2 0 p.1 (.obj "x") (.obj "b") 0))
      = grid.map (fun p => (traceM p.2.1 p.2.2 0 p.1).map evPath) := by
  kernel_rfl

/-- FINITE GRID (5 depths x 3 cycle types x 3 values of `cycles_per_level`): the generated `__solve` returns `None` and
its WHOLE trace -- every smoother call, matvec, restriction, prolongation, coarse solve with every argument, in order
-- is the hand-written textbook data flow `specCyc`. -/
theorem cycle_trace_grid_5x3x3 :
    ∀ p ∈ grid, returnsNone (runCycle (p.1 + 1) p.2.1 p.2.2).1 = true ∧
      (runCycle (p.1 + 1) p.2.1 p.2.2).2.trace = specCyc p.2.1 p.2.2 0 p.1 (.obj "x") (.obj "b") 0 := by
  intro p hp
  have h := List.map_inj_left.mp trace_grid_eval p hp
  rw [runSummary_eq] at h
  exact ⟨congrArg Prod.fst h, congrArg Prod.snd h⟩

/-- the smoother / coarse-solver calls of the hand-written data flow are the textbook visits `C03.traceM` (grid) -/
theorem specCyc_visits_grid_5x3x3 :
    ∀ p ∈ grid, visits (p.1 + 1) (specCyc p.2.1 p.2.2 0 p.1 (.obj "x") (.obj "b") 0) = (traceM p.2.1 p.2.2 0 p.1).map evPath :=
  List.map_inj_left.mp specCyc_visits_grid_eval

theorem mem_grid {m : Nat} {c : Cyc} {k : Nat} (hm : m ∈ gridM) (hc : c ∈ gridC) (hk : k ∈ gridK) : (m, c, k) ∈ grid := by
  simp only [grid, List.mem_flatMap, List.mem_map]
  exact ⟨m, hm, c, hc, k, hk, rfl⟩

/-- FINITE GRID (5 depths x 3 cycle types x 3 values of `cycles_per_level`): the generated `__solve` returns `None` and
calls the smoothers and the coarse solver in the textbook order `C03.traceM` of the hand-written C03 model. -/
theorem cycle_visits_grid_5x3x3 :
    ∀ m ∈ gridM, ∀ c ∈ gridC, ∀ k ∈ gridK,
      returnsNone (runCycle (m + 1) c k).1 = true ∧
      visits (m + 1) (runCycle (m + 1) c k).2.trace = (traceM c k 0 m).map evPath := by
  intro m hm c hc k hk
  have h := cycle_trace_grid_5x3x3 (m, c, k) (mem_grid hm hc hk)
  have h2 := specCyc_visits_grid_5x3x3 (m, c, k) (mem_grid hm hc hk)
  exact ⟨h.1, by rw [h.2]; exact h2⟩

/-- the F-cycle on the grid (C08: `cycles_per_level` reaches the F visit of the next level and is the number of
V-cycles, each called with `'V'` and 1, that follow it) -/
theorem cycle_F_visits_grid_5x3 :
    ∀ m ∈ gridM, ∀ k ∈ gridK, visits (m + 1) (runCycle (m + 1) .F k).2.trace = (traceM .F k 0 m).map evPath :=
  fun m hm k hk => (cycle_visits_grid_5x3x3 m hm .F (by simp [gridC]) k hk).2


end PyamgV.ExtPy3Cyc
