import PyamgV.Proofs.RsDom
import PyamgV.Proofs.CountSort

/-! PyamgV (C13/C17): the counting-sort initialisation of `rs_cf_splitting` establishes the
bucket invariant. -/
namespace PyamgV.RS
open PyamgV.CS

def histFold (lam : Array Nat) (L : Nat) : Array Nat :=
  lam.foldl (fun c l => wrN c l (rdN c l + 1)) (Array.replicate L 0)

def prefixFold (icnt0 : Array Nat) (L : Nat) : Array Nat × Nat :=
  (List.range L).foldl (fun (acc : Array Nat × Nat) v =>
      (wrN acc.1 v acc.2, acc.2 + rdN icnt0 v)) (Array.replicate L 0, 0)

def placeFold (lam iptr : Array Nat) (n L : Nat) : Array Nat × Array Nat × Array Nat :=
  (List.range n).foldl (fun (acc : Array Nat × Array Nat × Array Nat) i =>
      let l := rdN lam i
      let idx := rdN iptr l + rdN acc.2.2 l
      (wrN acc.1 idx i, wrN acc.2.1 i idx, wrN acc.2.2 l (rdN acc.2.2 l + 1)))
      (Array.replicate n 0, Array.replicate n 0, Array.replicate L 0)

def lamArr (S T : Csr) : Array Nat := (Array.range S.n).map (fun i => rdN T.ap (i+1) - rdN T.ap i)
def lmaxOf (S T : Csr) : Nat := max (2 * (lamArr S T).foldl max 0) (S.n+1)

theorem init_eq (S T : Csr) :
    (init S T).lam = lamArr S T ∧
    (init S T).iptr = (prefixFold (histFold (lamArr S T) (lmaxOf S T)) (lmaxOf S T)).1 ∧
    (init S T).i2n = (placeFold (lamArr S T) (prefixFold (histFold (lamArr S T) (lmaxOf S T)) (lmaxOf S T)).1 S.n (lmaxOf S T)).1 ∧
    (init S T).n2i = (placeFold (lamArr S T) (prefixFold (histFold (lamArr S T) (lmaxOf S T)) (lmaxOf S T)).1 S.n (lmaxOf S T)).2.1 ∧
    (init S T).icnt = (placeFold (lamArr S T) (prefixFold (histFold (lamArr S T) (lmaxOf S T)) (lmaxOf S T)).1 S.n (lmaxOf S T)).2.2 := by
  refine ⟨rfl, rfl, rfl, rfl, rfl⟩

/-- folding over the array `lamArr` = folding over the node indices -/
theorem histFold_list (S T : Csr) (L : Nat) :
    histFold (lamArr S T) L =
      (List.range S.n).foldl (fun c i => wrN c (rdN T.ap (i+1) - rdN T.ap i) (rdN c (rdN T.ap (i+1) - rdN T.ap i) + 1))
        (Array.replicate L 0) := by
  unfold histFold lamArr
  rw [← Array.foldl_toList, Array.toList_map, Array.toList_range, List.foldl_map]

theorem hist_spec (lamf : Nat → Nat) (L : Nat) : ∀ t, (∀ i, i < t → lamf i < L) →
    let c := (List.range t).foldl (fun c i => wrN c (lamf i) (rdN c (lamf i) + 1)) (Array.replicate L 0)
    c.size = L ∧ ∀ v, rdN c v = if v < L then cnt lamf v t else 0 := by
  intro t
  induction t with
  | zero =>
    intro _
    refine ⟨by simp, ?_⟩
    intro v
    by_cases hv : v < L <;> simp [rdN, Array.getD, hv, cnt]
  | succ t ih =>
    intro h
    obtain ⟨s1, s2⟩ := ih (fun i hi => h i (by omega))
    rw [List.range_succ, List.foldl_append]
    simp only [List.foldl_cons, List.foldl_nil]
    generalize (List.range t).foldl (fun c i => wrN c (lamf i) (rdN c (lamf i) + 1)) (Array.replicate L 0) = c at s1 s2
    refine ⟨by simp [s1], ?_⟩
    intro v
    have hl := h t (by omega)
    rw [rdN_wrN, s1]
    by_cases hv : lamf t = v
    · subst hv
      rw [if_pos ⟨rfl, hl⟩, s2, if_pos hl, if_pos hl]; simp [cnt]
    · rw [if_neg (fun hh => hv hh.1), s2]
      by_cases hvL : v < L
      · simp [hvL, cnt, hv]
      · simp [hvL]

theorem prefix_spec (lamf : Nat → Nat) (n L : Nat) (icnt0 : Array Nat)
    (h0 : ∀ v, v < L → rdN icnt0 v = cnt lamf v n) : ∀ m, m ≤ L →
    let acc := (List.range m).foldl (fun (acc : Array Nat × Nat) v =>
      (wrN acc.1 v acc.2, acc.2 + rdN icnt0 v)) (Array.replicate L 0, 0)
    acc.1.size = L ∧ acc.2 = P lamf n m ∧ ∀ v, v < m → rdN acc.1 v = P lamf n v := by
  intro m
  induction m with
  | zero => intro _; simp [P]
  | succ m ih =>
    intro hm
    obtain ⟨s1, s2, s3⟩ := ih (by omega)
    rw [List.range_succ, List.foldl_append]
    simp only [List.foldl_cons, List.foldl_nil]
    generalize (List.range m).foldl (fun (acc : Array Nat × Nat) v =>
      (wrN acc.1 v acc.2, acc.2 + rdN icnt0 v)) (Array.replicate L 0, 0) = acc at s1 s2 s3
    refine ⟨by simp [s1], ?_, ?_⟩
    · simp only [P]; rw [s2, h0 m (by omega)]
    · intro v hv
      rw [rdN_wrN, s1]
      by_cases hvm : m = v
      · subst hvm; rw [if_pos ⟨rfl, by omega⟩]; exact s2
      · rw [if_neg (fun hh => hvm hh.1)]; exact s3 v (by omega)

#print axioms hist_spec
#print axioms prefix_spec
end PyamgV.RS

namespace PyamgV.RS
open PyamgV.CS

theorem place_spec (lamf : Nat → Nat) (n L : Nat) (lam iptr : Array Nat)
    (hlam : ∀ i, i < n → rdN lam i = lamf i) (hL : ∀ i, i < n → lamf i < L)
    (hiptr : ∀ v, v < L → rdN iptr v = P lamf n v) : ∀ t, t ≤ n →
    let acc := (List.range t).foldl (fun (acc : Array Nat × Array Nat × Array Nat) i =>
      let l := rdN lam i
      let idx := rdN iptr l + rdN acc.2.2 l
      (wrN acc.1 idx i, wrN acc.2.1 i idx, wrN acc.2.2 l (rdN acc.2.2 l + 1)))
      (Array.replicate n 0, Array.replicate n 0, Array.replicate L 0)
    acc.1.size = n ∧ acc.2.1.size = n ∧ acc.2.2.size = L ∧
    (∀ v, rdN acc.2.2 v = if v < L then cnt lamf v t else 0) ∧
    (∀ i, i < t → rdN acc.2.1 i = pos lamf n i ∧ rdN acc.1 (pos lamf n i) = i) := by
  intro t
  induction t with
  | zero =>
    intro _
    refine ⟨by simp, by simp, by simp, ?_, fun i hi => by omega⟩
    intro v; by_cases hv : v < L <;> simp [rdN, Array.getD, hv, cnt]
  | succ t ih =>
    intro ht
    obtain ⟨s1, s2, s3, s4, s5⟩ := ih (by omega)
    rw [List.range_succ, List.foldl_append]
    simp only [List.foldl_cons, List.foldl_nil]
    generalize (List.range t).foldl (fun (acc : Array Nat × Array Nat × Array Nat) i =>
      let l := rdN lam i
      let idx := rdN iptr l + rdN acc.2.2 l
      (wrN acc.1 idx i, wrN acc.2.1 i idx, wrN acc.2.2 l (rdN acc.2.2 l + 1)))
      (Array.replicate n 0, Array.replicate n 0, Array.replicate L 0) = acc at s1 s2 s3 s4 s5
    have htn : t < n := by omega
    have hl : rdN lam t = lamf t := hlam t htn
    have hlL := hL t htn
    have hidx : rdN iptr (rdN lam t) + rdN acc.2.2 (rdN lam t) = pos lamf n t := by
      rw [hl, hiptr _ hlL, s4, if_pos hlL]; rfl
    have hpt := pos_lt lamf n L hL t htn
    rw [hidx, hl]
    refine ⟨by simp [s1], by simp [s2], by simp [s3], ?_, ?_⟩
    · intro v
      show rdN (wrN acc.2.2 (lamf t) (rdN acc.2.2 (lamf t) + 1)) v = _
      rw [rdN_wrN, s3]
      by_cases hv : lamf t = v
      · subst hv; rw [if_pos ⟨rfl, hlL⟩, s4, if_pos hlL, if_pos hlL]; simp [cnt]
      · rw [if_neg (fun hh => hv hh.1), s4]
        by_cases hvL : v < L
        · simp [hvL, cnt, hv]
        · simp [hvL]
    · intro i hi
      show rdN (wrN acc.2.1 t (pos lamf n t)) i = pos lamf n i ∧
        rdN (wrN acc.1 (pos lamf n t) t) (pos lamf n i) = i
      by_cases hit : i = t
      · subst hit
        rw [rdN_wrN, if_pos ⟨rfl, by rw [s2]; exact htn⟩, rdN_wrN, if_pos ⟨rfl, by rw [s1]; exact hpt⟩]
        exact ⟨rfl, rfl⟩
      · have hi' : i < t := by omega
        obtain ⟨e1, e2⟩ := s5 i hi'
        have hne : pos lamf n t ≠ pos lamf n i := by
          intro e; exact hit (pos_inj lamf n t i htn (by omega) e).symm
        rw [rdN_wrN, if_neg (fun hh => hit hh.1.symm), rdN_wrN, if_neg (fun hh => hne hh.1)]
        exact ⟨e1, e2⟩

#print axioms place_spec
end PyamgV.RS

namespace PyamgV.RS
open PyamgV.CS

theorem list_foldl_max_ge : ∀ (l : List Nat) (a : Nat), a ≤ l.foldl max a ∧ ∀ x ∈ l, x ≤ l.foldl max a := by
  intro l; induction l with
  | nil => intro a; simp
  | cons y ys ih =>
    intro a
    simp only [List.foldl_cons]
    obtain ⟨h1, h2⟩ := ih (max a y)
    refine ⟨Nat.le_trans (Nat.le_max_left a y) h1, ?_⟩
    intro x hx
    rcases List.mem_cons.1 hx with rfl | hx
    · exact Nat.le_trans (Nat.le_max_right a x) h1
    · exact h2 x hx

theorem lam_lt_lmax (S T : Csr) (i : Nat) (hi : i < S.n) :
    rdN T.ap (i+1) - rdN T.ap i < lmaxOf S T := by
  unfold lmaxOf
  have hM : rdN T.ap (i+1) - rdN T.ap i ≤ (lamArr S T).foldl max 0 := by
    unfold lamArr
    rw [← Array.foldl_toList, Array.toList_map, Array.toList_range]
    apply (list_foldl_max_ge _ 0).2
    exact List.mem_map.2 ⟨i, List.mem_range.2 hi, rfl⟩
  omega

/-- **the counting-sort initialisation establishes the bucket invariant** -/
theorem init_BInv (S T : Csr) : BInv S.n (lmaxOf S T) S.n (init S T) := by
  obtain ⟨e1, e2, e3, e4, e5⟩ := init_eq S T
  let lamf : Nat → Nat := fun i => rdN T.ap (i+1) - rdN T.ap i
  have hL : ∀ i, i < S.n → lamf i < lmaxOf S T := fun i hi => lam_lt_lmax S T i hi
  have hlam : ∀ i, i < S.n → rdN (lamArr S T) i = lamf i := by
    intro i hi
    simp only [lamArr, rdN, Array.getD_eq_getD_getElem?, Array.getElem?_map, Array.getElem?_range, hi,
      if_true, Option.map_some, Option.getD_some, lamf]
  -- histogram
  obtain ⟨hs1, hs2⟩ := hist_spec lamf (lmaxOf S T) S.n hL
  rw [← histFold_list S T (lmaxOf S T)] at hs1 hs2
  -- prefix sums
  obtain ⟨ps1, _, ps3⟩ := prefix_spec lamf S.n (lmaxOf S T) (histFold (lamArr S T) (lmaxOf S T))
    (fun v hv => by rw [hs2 v, if_pos hv]) (lmaxOf S T) (Nat.le_refl _)
  have hiptr : ∀ v, v < lmaxOf S T → rdN (prefixFold (histFold (lamArr S T) (lmaxOf S T)) (lmaxOf S T)).1 v = P lamf S.n v :=
    fun v hv => ps3 v hv
  -- placement
  obtain ⟨q1, q2, q3, q4, q5⟩ := place_spec lamf S.n (lmaxOf S T) (lamArr S T)
    (prefixFold (histFold (lamArr S T) (lmaxOf S T)) (lmaxOf S T)).1 hlam hL hiptr S.n (Nat.le_refl _)
  have hi2n : ∀ i, i < S.n → rdN (init S T).i2n (pos lamf S.n i) = i := by
    intro i hi; rw [e3]; exact (q5 i hi).2
  have hn2i : ∀ i, i < S.n → rdN (init S T).n2i i = pos lamf S.n i := by
    intro i hi; rw [e4]; exact (q5 i hi).1
  have hicnt : ∀ v, v < lmaxOf S T → rdN (init S T).icnt v = cnt lamf v S.n := by
    intro v hv; rw [e5]; have := q4 v; rw [if_pos hv] at this; exact this
  have hipt : ∀ v, v < lmaxOf S T → rdN (init S T).iptr v = P lamf S.n v := by
    intro v hv; rw [e2]; exact hiptr v hv
  have hlamI : ∀ i, i < S.n → rdN (init S T).lam i = lamf i := by
    intro i hi; rw [e1]; exact hlam i hi
  have hposlt := pos_lt lamf S.n (lmaxOf S T) hL
  refine ⟨by rw [e1]; simp [lamArr], by rw [e3]; exact q1, by rw [e4]; exact q2, by rw [e2]; exact ps1,
    by rw [e5]; exact q3, Nat.le_refl _, ?_, ?_, ?_, ?_, ?_, ?_⟩
  · intro p hp
    obtain ⟨i, hi, hpi⟩ := pos_surj lamf S.n (lmaxOf S T) hL p hp
    rw [← hpi, hi2n i hi]
    exact ⟨hi, hn2i i hi⟩
  · intro v hv
    rw [hn2i v hv]
    exact ⟨hposlt v hv, hi2n v hv⟩
  · intro v hv; rw [hlamI v hv]; exact hL v hv
  · intro p hp
    obtain ⟨i, hi, hpi⟩ := pos_surj lamf S.n (lmaxOf S T) hL p hp
    have hla : lamAt (init S T) p = lamf i := by
      unfold lamAt; rw [← hpi, hi2n i hi, hlamI i hi]
    rw [hla, hipt _ (hL i hi), hicnt _ (hL i hi), ← hpi]
    unfold pos
    have := cnt_lt lamf S.n i hi
    omega
  · intro v hv p h1 h2
    rw [hipt v hv] at h1 h2
    rw [hicnt v hv] at h2
    obtain ⟨i, hi, hvi, hpi⟩ := block_surj lamf S.n v p h1 h2
    refine ⟨by rw [← hpi]; exact hposlt i hi, ?_⟩
    unfold lamAt; rw [← hpi, hi2n i hi, hlamI i hi]; exact hvi
  · intro p q hpq hq
    obtain ⟨i, hi, hpi⟩ := pos_surj lamf S.n (lmaxOf S T) hL p (by omega)
    obtain ⟨j, hj, hqj⟩ := pos_surj lamf S.n (lmaxOf S T) hL q hq
    have hla : lamAt (init S T) p = lamf i := by unfold lamAt; rw [← hpi, hi2n i hi, hlamI i hi]
    have hlb : lamAt (init S T) q = lamf j := by unfold lamAt; rw [← hqj, hi2n j hj, hlamI j hj]
    rw [hla, hlb]
    by_cases hle : lamf i ≤ lamf j
    · exact hle
    · exfalso
      have h1 := cnt_lt lamf S.n j hj
      have h2 : P lamf S.n (lamf j) + cnt lamf (lamf j) S.n = P lamf S.n (lamf j + 1) := rfl
      have h3 := P_mono lamf S.n (show lamf j + 1 ≤ lamf i by omega)
      have hp' : p = P lamf S.n (lamf i) + cnt lamf (lamf i) i := hpi.symm
      have hq' : q = P lamf S.n (lamf j) + cnt lamf (lamf j) j := hqj.symm
      omega

theorem init_AllInv (S T : Csr) : AllInv S.n (lmaxOf S T) S.n (init S T) := by
  refine ⟨init_BInv S T, ?_, by simp [init]⟩
  intro p h1 h2; omega

/-- **C13, Ruge–Stüben first pass, domination — unconditional** (symmetric pattern, n ≥ 1) -/
theorem rs_dominating' (S T : Csr) (hn : 1 ≤ S.n) (hTn : T.n = S.n)
    (hS : SOK S S.n) (hTb : SOK T S.n) (hT : TOK T) (hsym : Sym S T S.n) :
    ∀ k, k < S.n → rdI (run S T) k = F →
      (∀ j ∈ T.row k, j = k) ∨ ∃ i ∈ T.row k, i ≠ k ∧ rdI (run S T) i = C := by
  have hnL : S.n + 1 ≤ lmaxOf S T := by unfold lmaxOf; omega
  exact rs_dominating S T S.n (lmaxOf S T) hn rfl hTn hS hTb hT hsym hnL (init_AllInv S T)

#print axioms init_BInv
#print axioms rs_dominating'
end PyamgV.RS
