import PyamgV.Proofs.C05Sym
import PyamgV.Proofs.GsStrict
import PyamgV.Proofs.Pd
import PyamgV.Proofs.C02Thm
import PyamgV.Proofs.ExtSmoothers

/-! PyamgV (extension E36, property C05, definiteness clause): **strict energy reduction derived from the
smoother parameters**, so that `precond_pd` applies without an observed hypothesis.

* `StrictOn E A f`      the iteration `f` strictly reduces the energy of every error of non-zero energy.
* `sorRow_energy_eq`    `‖e'‖² = ‖e‖² − ω(2−ω) rᵢ²/dᵢ` for one SOR row update (Gauss–Seidel: `ω = 1`).
* `sorSweep_strictOn`   a full SOR sweep in any row order with `0 < ω < 2` on a symmetric positive semidefinite
                        matrix with positive diagonal is `StrictOn`.
* `jac_strictOn`        damped Jacobi with `0 < ω` and `ω ⟨A z, z⟩ < 2 ⟨D z, z⟩` for `z ≠ 0` is `StrictOn`.
* `smFn_strict`         the smoothers of the cycle model whose parameters satisfy `StrictSm` (Gauss–Seidel / SOR in the
                        three sweep modes with `0 < ω < 2`, damped Jacobi under the bound, `iterations ≥ 1`) are `StrictOn`;
                        `smFn_nonexp` the non-strict companion.
* `cyc_strict`          a V/W/F cycle whose finest pre- **or** post-smoother is `StrictOn` (everything else
                        non-expansive: `WFH'`) is `StrictOn`.
* `cycle_precond_pd`    hence `⟨M A v, v⟩_E > 0`, i.e. `⟨M r, r⟩ > 0` for `r = A v`, for every `v` of non-zero energy.
* `flag_cycle_spd`      flag `True` ⇒ `M` symmetric **and** positive definite on such a hierarchy (V and W). -/
namespace PyamgV.C05Y
open PyamgV PyamgV.C05 Finset

section abstract
variable {K : Type*} [Field K] [LinearOrder K] [IsStrictOrderedRing K]
variable {V : Type*} [AddCommGroup V] [Module K V]

/-- the iteration strictly reduces the energy of every error whose energy is not zero -/
def StrictOn (E : EForm K V) (A : V →ₗ[K] V) (f : V → V → V) : Prop :=
  ∀ x b xs, A xs = b → E.en (xs - x) ≠ 0 → E.en (xs - f x b) < E.en (xs - x)

theorem en_pos_of_ne (E : EForm K V) (v : V) (h : E.en v ≠ 0) : 0 < E.en v :=
  lt_of_le_of_ne (E.nonneg v) (Ne.symm h)

/-- strict step first, then anything non-expansive -/
theorem StrictOn.then_nonexp {E : EForm K V} {A : V →ₗ[K] V} {f g : V → V → V}
    (hf : StrictOn E A f) (hg : NonExp E A g) : StrictOn E A (fun x b => g (f x b) b) := by
  intro x b xs hb hne
  exact lt_of_le_of_lt (hg (f x b) b xs hb) (hf x b xs hb hne)

/-- anything non-expansive first, then a strict (and non-expansive) step -/
theorem StrictOn.after_nonexp {E : EForm K V} {A : V →ₗ[K] V} {f g : V → V → V}
    (hf : NonExp E A f) (hg : StrictOn E A g) (hgn : NonExp E A g) :
    StrictOn E A (fun x b => g (f x b) b) := by
  intro x b xs hb hne
  by_cases h0 : E.en (xs - f x b) = 0
  · have h1 := hgn (f x b) b xs hb
    rw [h0] at h1
    exact lt_of_le_of_lt h1 (en_pos_of_ne E _ hne)
  · exact lt_of_lt_of_le (hg (f x b) b xs hb h0) (hf x b xs hb)

/-- `iterations = k ≥ 1` of a strict non-expansive step -/
theorem StrictOn.iter {E : EForm K V} {A : V →ₗ[K] V} {f : V → V → V}
    (hs : StrictOn E A f) (hn : NonExp E A f) (k : Nat) (hk : 1 ≤ k) :
    StrictOn E A (fun x b => PyamgV.iter f b k x) := by
  obtain ⟨k', rfl⟩ : ∃ k', k = k' + 1 := ⟨k - 1, by omega⟩
  intro x b xs hb hne
  show E.en (xs - PyamgV.iter f b k' (f x b)) < _
  exact lt_of_le_of_lt (hn.iter k' (f x b) b xs hb) (hs x b xs hb hne)

/-- a linear iteration is strict iff `‖Q A v‖² < 2 ⟨Q A v, v⟩` (energy form) for every `v` of non-zero energy -/
theorem linIter_strict_of (E : EForm K V) {A Q : V →ₗ[K] V} {f : V → V → V} (hf : IsLinIter A f Q)
    (h : ∀ v, E.en v ≠ 0 → E.en (Q (A v)) < 2 * E.a (Q (A v)) v) : StrictOn E A f := by
  intro x b xs hb hne
  rw [hf.error x xs b hb, en_sub_expand]
  have := h (xs - x) hne
  linarith

/-! ### the cycle -/

/-- the cycle with the finest pre-smoother taken out: `cyc (L :: rest) x b = cyc (L' :: rest) (L.pre x b) b` -/
theorem cyc_pre_out (solve : V → V) (c : CType) (L : Level K V) (rest : List (Level K V)) (x b : V) :
    cyc solve c (L :: rest) x b = cyc solve c ({ L with pre := fun x _ => x } :: rest) (L.pre x b) b := by
  cases c <;> rfl

/-- the cycle with the finest post-smoother taken out -/
theorem cyc_post_out (solve : V → V) (c : CType) (L : Level K V) (rest : List (Level K V)) (x b : V) :
    cyc solve c (L :: rest) x b = L.post (cyc solve c ({ L with post := fun x _ => x } :: rest) x b) b := by
  cases c <;> rfl

/-- **a cycle (V, W, F) whose finest pre-smoother or post-smoother strictly reduces the energy, on a hierarchy
with non-expansive smoothers, Galerkin coarse matrices and an energy-exact coarsest solve, strictly reduces the
energy of every error of non-zero energy** -/
theorem cyc_strict (solve : V → V) (c : CType) (L : Level K V) (rest : List (Level K V))
    (A : V →ₗ[K] V) (E : EForm K V) (hwf : WFH' solve A E (L :: rest))
    (h : StrictOn E A L.pre ∨ StrictOn E A L.post) : StrictOn E A (cyc solve c (L :: rest)) := by
  obtain ⟨hA, hpre, hpost, horth, hsolv, hrest⟩ := hwf
  rcases h with h | h
  · have hwf' : WFH' solve A E ({ L with pre := fun x _ => x } :: rest) :=
      ⟨hA, NonExp.id E A, hpost, horth, hsolv, hrest⟩
    have hne := cyc_nonexp' solve c _ A E hwf'
    have := h.then_nonexp hne
    intro x b xs hb hv
    rw [cyc_pre_out]
    exact this x b xs hb hv
  · have hwf' : WFH' solve A E ({ L with post := fun x _ => x } :: rest) :=
      ⟨hA, hpre, NonExp.id E A, horth, hsolv, hrest⟩
    have hne := cyc_nonexp' solve c _ A E hwf'
    have := StrictOn.after_nonexp hne h hpost
    intro x b xs hb hv
    rw [cyc_post_out]
    exact this x b xs hb hv

/-- **positive definiteness with no observed hypothesis**: if the cycle is the linear iteration with operator `M`
and its finest pre- or post-smoother is strict, then `E(M A v, v) > 0` -- for the energy form `E = ⟨A·,·⟩` this is
`⟨M r, r⟩ > 0` with `r = A v` -- for every `v` of non-zero energy -/
theorem cycle_precond_pd (solve : V → V) (c : CType) (L : Level K V) (rest : List (Level K V))
    (A M : V →ₗ[K] V) (E : EForm K V) (hwf : WFH' solve A E (L :: rest))
    (hlin : IsLinIter A (cyc solve c (L :: rest)) M)
    (h : StrictOn E A L.pre ∨ StrictOn E A L.post) (v : V) (hv : E.en v ≠ 0) :
    0 < E.a (M (A v)) v := by
  apply precond_pd E A M _ hlin v
  have := cyc_strict solve c L rest A E hwf h 0 (A v) v rfl (by simpa using hv)
  simpa using this

end abstract

/-! ## the smoothers of the cycle model on a CSR level -/

section concrete
variable {K : Type*} [Field K] [LinearOrder K] [IsStrictOrderedRing K] [DecidableEq K]

/-- energy of the Gauss–Seidel correction of row `i`: `rᵢ²/dᵢ` -/
theorem gsCorr_energy (n : Nat) (rows : Nat → Row K) (hsym) (hpsd) (i : Nat) (hi : i < n)
    (d : K) (hd : HasDiag i (rows i) d) (hd0 : d ≠ 0) (b x xs : Nat → K)
    (hxs : ∀ j, j < n → csrOp n rows xs j = b j) :
    (energy n rows hsym hpsd).en (gsRowFn i (rows i) b x - x) = resid rows b x i * resid rows b x i / d := by
  have h1 := gsRow_energy_eq n rows hsym hpsd i hi d hd hd0 b x xs hxs
  have horth := gsRow_orth n rows hsym hpsd i hi d hd hd0 b x xs hxs
  have h2 := (energy n rows hsym hpsd).en_sub_eq (xs - x) (gsRowFn i (rows i) b x - x) horth
  have : (xs - x) - (gsRowFn i (rows i) b x - x) = xs - gsRowFn i (rows i) b x := by abel
  rw [this] at h2
  linarith

/-- **SOR row update, energy identity**: `‖e'‖² = ‖e‖² − ω(2−ω) rᵢ²/dᵢ` -/
theorem sorRow_energy_eq (n : Nat) (rows : Nat → Row K) (hsym) (hpsd) (i : Nat) (hi : i < n)
    (d : K) (hd : HasDiag i (rows i) d) (hd0 : d ≠ 0) (ω : K) (b x xs : Nat → K)
    (hxs : ∀ j, j < n → csrOp n rows xs j = b j) :
    (energy n rows hsym hpsd).en (xs - sorRowFn ω i (rows i) b x) =
      (energy n rows hsym hpsd).en (xs - x) - ω * (2 - ω) * (resid rows b x i * resid rows b x i / d) := by
  rw [sorRow_eq]
  have horth := gsRow_orth n rows hsym hpsd i hi d hd hd0 b x xs hxs
  have : xs - (x + ω • (gsRowFn i (rows i) b x - x)) = (xs - x) - ω • (gsRowFn i (rows i) b x - x) := by abel
  rw [this, EForm.en_sub_smul _ _ _ ω horth, gsCorr_energy n rows hsym hpsd i hi d hd hd0 b x xs hxs]

theorem sorRow_fixed (ω : K) (i : Nat) (rows : Nat → Row K) (b x : Nat → K) (d : K)
    (hd : HasDiag i (rows i) d) (hd0 : d ≠ 0) (h : resid rows b x i = 0) :
    sorRowFn ω i (rows i) b x = x := by
  rw [sorRow_eq, gsRow_fixed i rows b x d hd hd0 h]; simp

/-- an error of non-zero energy has a non-zero residual in some row -/
theorem exists_resid_ne (n : Nat) (rows : Nat → Row K) (hsym) (hpsd) (b xs x : Nat → K)
    (hb : csrOp n rows xs = b) (hne : (energy n rows hsym hpsd).en (xs - x) ≠ 0) :
    ∃ i, i < n ∧ resid rows b x i ≠ 0 := by
  apply Classical.byContradiction
  intro hall
  apply hne
  have hz : ∀ i, i < n → csrOp n rows (xs - x) i = 0 := by
    intro i hi
    have h0 : resid rows b x i = 0 := by
      apply Classical.byContradiction
      intro h; exact hall ⟨i, hi, h⟩
    unfold resid at h0
    rw [map_sub]
    simp only [Pi.sub_apply, csrOp_apply n rows _ i hi]
    have hxi : rowDot (rows i) xs = b i := by
      have : csrOp n rows xs i = b i := by rw [hb]
      rwa [csrOp_apply n rows xs i hi] at this
    rw [hxi]; exact h0
  show (euc K n).a (csrOp n rows (xs - x)) (xs - x) = 0
  rw [euc_apply]
  apply Finset.sum_eq_zero
  intro i hi
  rw [hz i (Finset.mem_range.1 hi)]; ring

/-- strict decrease of an SOR sweep that meets a row with non-zero residual (`0 < ω < 2`) -/
theorem sorSweep_strict (ω : K) (h0 : 0 < ω) (h2 : ω < 2) (n : Nat) (rows : Nat → Row K) (hsym) (hpsd)
    (diag : Nat → K) (hdiag : ∀ i, i < n → HasDiag i (rows i) (diag i))
    (hpos : ∀ i, i < n → 0 < diag i) (b xs : Nat → K) (hb : csrOp n rows xs = b) :
    ∀ (order : List Nat), (∀ i ∈ order, i < n) → ∀ x : Nat → K,
      (∃ i ∈ order, resid rows b x i ≠ 0) →
      (energy n rows hsym hpsd).en (xs - sorSweepFn ω rows b order x) <
        (energy n rows hsym hpsd).en (xs - x) := by
  have hxs : ∀ j, j < n → csrOp n rows xs j = b j := fun j _ => by rw [hb]
  intro order
  induction order with
  | nil => intro _ x ⟨i, hi, _⟩; simp at hi
  | cons i rest ih =>
    intro horder x hex
    have hi : i < n := horder i (by simp)
    have hd0 : diag i ≠ 0 := ne_of_gt (hpos i hi)
    have hrest : ∀ j ∈ rest, j < n := fun j hj => horder j (by simp [hj])
    have hne := sorSweep_nonexp ω (le_of_lt h0) (le_of_lt h2) n rows hsym hpsd diag hdiag rest hrest
      (sorRowFn ω i (rows i) b x) b xs hb
    have heq := sorRow_energy_eq n rows hsym hpsd i hi (diag i) (hdiag i hi) hd0 ω b x xs hxs
    have hstep : sorSweepFn ω rows b (i :: rest) x = sorSweepFn ω rows b rest (sorRowFn ω i (rows i) b x) := rfl
    rw [hstep]
    by_cases hri : resid rows b x i = 0
    · rw [sorRow_fixed ω i rows b x (diag i) (hdiag i hi) hd0 hri]
      obtain ⟨j, hj, hjr⟩ := hex
      rcases List.mem_cons.1 hj with rfl | hj'
      · exact absurd hri hjr
      · exact ih hrest x ⟨j, hj', hjr⟩
    · have hsq : 0 < resid rows b x i * resid rows b x i / diag i :=
        div_pos (mul_self_pos.2 hri) (hpos i hi)
      have hw : 0 < ω * (2 - ω) := mul_pos h0 (by linarith)
      have : (energy n rows hsym hpsd).en (xs - sorRowFn ω i (rows i) b x) <
          (energy n rows hsym hpsd).en (xs - x) := by
        rw [heq]; nlinarith [mul_pos hw hsq]
      exact lt_of_le_of_lt hne this

/-- **a full SOR sweep (any order that visits every row), `0 < ω < 2`, symmetric positive semidefinite matrix with
positive diagonal: strict reduction of every error of non-zero energy** -/
theorem sorSweep_strictOn (ω : K) (h0 : 0 < ω) (h2 : ω < 2) (n : Nat) (rows : Nat → Row K) (hsym) (hpsd)
    (diag : Nat → K) (hdiag : ∀ i, i < n → HasDiag i (rows i) (diag i))
    (hpos : ∀ i, i < n → 0 < diag i) (order : List Nat) (horder : ∀ i ∈ order, i < n)
    (hcover : ∀ i, i < n → i ∈ order) :
    StrictOn (energy n rows hsym hpsd) (csrOp n rows) (fun x b => sorSweepFn ω rows b order x) := by
  intro x b xs hb hne
  obtain ⟨i, hi, hr⟩ := exists_resid_ne n rows hsym hpsd b xs x hb hne
  exact sorSweep_strict ω h0 h2 n rows hsym hpsd diag hdiag hpos b xs hb order horder x ⟨i, hcover i hi, hr⟩

/-- one pass of `gauss_seidel` / `sor` in any of the three sweep modes: non-expansive for `0 ≤ ω ≤ 2` … -/
theorem gsFn_nonexp (ω : K) (h0 : 0 ≤ ω) (h2 : ω ≤ 2) (n : Nat) (rows : Nat → Row K) (hsym) (hpsd)
    (diag : Nat → K) (hdiag : ∀ i, i < n → HasDiag i (rows i) (diag i)) (sw : PyamgV.K.Sweep) :
    NonExp (energy n rows hsym hpsd) (csrOp n rows) (gsFn ω rows n sw) := by
  have hr : ∀ i ∈ List.range n, i < n := fun i hi => List.mem_range.1 hi
  have hr' : ∀ i ∈ (List.range n).reverse, i < n := fun i hi => List.mem_range.1 (List.mem_reverse.1 hi)
  have hf := sorSweep_nonexp ω h0 h2 n rows hsym hpsd diag hdiag (List.range n) hr
  have hb := sorSweep_nonexp ω h0 h2 n rows hsym hpsd diag hdiag (List.range n).reverse hr'
  cases sw with
  | forward => exact hf
  | backward => exact hb
  | symmetric =>
    exact NonExp.comp (f := fun x b => sorSweepFn ω rows b (List.range n) x)
      (g := fun x b => sorSweepFn ω rows b (List.range n).reverse x) hf hb

/-- … and strict for `0 < ω < 2` -/
theorem gsFn_strict (ω : K) (h0 : 0 < ω) (h2 : ω < 2) (n : Nat) (rows : Nat → Row K) (hsym) (hpsd)
    (diag : Nat → K) (hdiag : ∀ i, i < n → HasDiag i (rows i) (diag i))
    (hpos : ∀ i, i < n → 0 < diag i) (sw : PyamgV.K.Sweep) :
    StrictOn (energy n rows hsym hpsd) (csrOp n rows) (gsFn ω rows n sw) := by
  have hr : ∀ i ∈ List.range n, i < n := fun i hi => List.mem_range.1 hi
  have hr' : ∀ i ∈ (List.range n).reverse, i < n := fun i hi => List.mem_range.1 (List.mem_reverse.1 hi)
  have hf := sorSweep_strictOn ω h0 h2 n rows hsym hpsd diag hdiag hpos (List.range n) hr
    (fun i hi => List.mem_range.2 hi)
  have hb := sorSweep_strictOn ω h0 h2 n rows hsym hpsd diag hdiag hpos (List.range n).reverse hr'
    (fun i hi => List.mem_reverse.2 (List.mem_range.2 hi))
  have hbn := sorSweep_nonexp ω (le_of_lt h0) (le_of_lt h2) n rows hsym hpsd diag hdiag (List.range n).reverse hr'
  cases sw with
  | forward => exact hf
  | backward => exact hb
  | symmetric =>
    exact StrictOn.then_nonexp (f := fun x b => sorSweepFn ω rows b (List.range n) x)
      (g := fun x b => sorSweepFn ω rows b (List.range n).reverse x) hf hbn

/-! ### damped Jacobi -/

/-- the bound `ω A < 2 D` as quadratic forms on the vectors that do not vanish on the first `n` coordinates -/
def JacBound (n : Nat) (rows : Nat → Row K) (diag : Nat → K) (ω : K) : Prop :=
  ∀ z : Nat → K, (∃ j, j < n ∧ z j ≠ 0) →
    ω * (euc K n).a (csrOp n rows z) z < 2 * ∑ j ∈ range n, diag j * (z j * z j)

theorem jacOp_range_apply (n : Nat) (diag : Nat → K) (ω : K) (r : Nat → K) (j : Nat) :
    jacOp diag ω (List.range n) r j = if j < n then ω * (r j / diag j) else 0 := by
  rw [jacOp_apply diag ω (List.range n) List.nodup_range]
  simp [List.mem_range]

/-- the two quantities of `linIter_strict_of` for the Jacobi operator -/
theorem jac_quantities (n : Nat) (rows : Nat → Row K) (hsym) (hpsd) (diag : Nat → K)
    (hd0 : ∀ i, i < n → diag i ≠ 0) (ω : K) (v : Nat → K) :
    let z := jacOp diag ω (List.range n) (csrOp n rows v)
    ω * (energy n rows hsym hpsd).a z v = ∑ j ∈ range n, diag j * (z j * z j) := by
  intro z
  show ω * (euc K n).a (csrOp n rows z) v = _
  rw [hsym z v, euc_apply, Finset.mul_sum]
  apply Finset.sum_congr rfl
  intro j hj
  have hjn := Finset.mem_range.1 hj
  have : z j = ω * (csrOp n rows v j / diag j) := by
    show jacOp diag ω (List.range n) (csrOp n rows v) j = _
    rw [jacOp_range_apply]; simp [hjn]
  rw [this]
  have := hd0 j hjn
  field_simp

/-- **damped Jacobi, `0 < ω`, `ω A < 2 D`: strict reduction** -/
theorem jac_strictOn (n : Nat) (rows : Nat → Row K) (hsym) (hpsd) (diag : Nat → K)
    (hdiag : ∀ i, i < n → HasDiag i (rows i) (diag i) ∧ diag i ≠ 0) (ω : K) (h0 : 0 < ω)
    (hb : JacBound n rows diag ω) :
    StrictOn (energy n rows hsym hpsd) (csrOp n rows) (fun x b => jacSweepFn ω rows b (List.range n) x) := by
  have hlin := jac_isLinIter ω n rows diag hdiag (List.range n) (fun i hi => List.mem_range.1 hi) List.nodup_range
  apply linIter_strict_of _ hlin
  intro v hv
  set z := jacOp diag ω (List.range n) (csrOp n rows v) with hz
  have hq := jac_quantities n rows hsym hpsd diag (fun i hi => (hdiag i hi).2) ω v
  simp only at hq
  rw [← hz] at hq
  -- some component of z is non-zero
  have hex : ∃ j, j < n ∧ z j ≠ 0 := by
    apply Classical.byContradiction
    intro hall
    apply hv
    show (euc K n).a (csrOp n rows v) v = 0
    rw [euc_apply]
    apply Finset.sum_eq_zero
    intro j hj
    have hjn := Finset.mem_range.1 hj
    have hzj : z j = 0 := by
      apply Classical.byContradiction
      intro h; exact hall ⟨j, hjn, h⟩
    rw [hz, jacOp_range_apply] at hzj
    simp only [hjn, if_true] at hzj
    have hd := (hdiag j hjn).2
    have : csrOp n rows v j = 0 := by
      rcases mul_eq_zero.1 hzj with h | h
      · exact absurd h (ne_of_gt h0)
      · rcases div_eq_zero_iff.1 h with h | h
        · exact h
        · exact absurd h hd
    rw [this]; ring
  have hbz := hb z hex
  have hen : (energy n rows hsym hpsd).en z = (euc K n).a (csrOp n rows z) z := rfl
  rw [hen]
  rw [← hq] at hbz
  -- ω en z < 2 ω a(z, v), ω > 0
  by_contra hcon
  have hcon := not_lt.1 hcon
  have := mul_le_mul_of_nonneg_left hcon (le_of_lt h0)
  linarith

/-- damped Jacobi under the same bound is non-expansive -/
theorem jac_nonexp (n : Nat) (rows : Nat → Row K) (hsym) (hpsd) (diag : Nat → K)
    (hdiag : ∀ i, i < n → HasDiag i (rows i) (diag i) ∧ diag i ≠ 0) (ω : K) (h0 : 0 < ω)
    (hb : JacBound n rows diag ω) :
    NonExp (energy n rows hsym hpsd) (csrOp n rows) (fun x b => jacSweepFn ω rows b (List.range n) x) := by
  have hst := jac_strictOn n rows hsym hpsd diag hdiag ω h0 hb
  have hlin := jac_isLinIter ω n rows diag hdiag (List.range n) (fun i hi => List.mem_range.1 hi) List.nodup_range
  intro x b xs hxs
  by_cases hv : (energy n rows hsym hpsd).en (xs - x) = 0
  · -- zero energy: the residual vanishes on the first n coordinates, nothing moves there
    have hres : ∀ i, i < n → csrOp n rows (xs - x) i = 0 := by
      intro i hi
      apply Classical.byContradiction
      intro hne
      have : ∃ j, j < n ∧ resid rows b x j ≠ 0 := by
        refine ⟨i, hi, ?_⟩
        unfold resid
        have hxi : rowDot (rows i) xs = b i := by
          have : csrOp n rows xs i = b i := by rw [hxs]
          rwa [csrOp_apply n rows xs i hi] at this
        rw [← hxi]
        rw [map_sub] at hne
        simpa [csrOp_apply n rows _ i hi] using hne
      -- a non-zero residual gives non-zero energy through a Gauss–Seidel step; argue directly instead:
      obtain ⟨j, hj, hrj⟩ := this
      have hd := hdiag j hj
      -- one Gauss–Seidel row update would strictly reduce a zero energy: impossible
      have hxs' : ∀ k, k < n → csrOp n rows xs k = b k := fun k _ => by rw [hxs]
      have heq := gsRow_energy_eq n rows hsym hpsd j hj (diag j) hd.1 hd.2 b x xs hxs'
      have hnn := (energy n rows hsym hpsd).nonneg (xs - gsRowFn j (rows j) b x)
      have hqn := (energy n rows hsym hpsd).nonneg (gsRowFn j (rows j) b x - x)
      have hce := gsCorr_energy n rows hsym hpsd j hj (diag j) hd.1 hd.2 b x xs hxs'
      unfold EForm.en at hnn hqn hce heq hv
      have h1 : resid rows b x j * resid rows b x j / diag j = 0 := by linarith
      rcases div_eq_zero_iff.1 h1 with h | h
      · exact hrj (mul_self_eq_zero.1 h)
      · exact hd.2 h
    have hfix : xs - jacSweepFn ω rows b (List.range n) x = xs - x := by
      have := hlin.error x xs b hxs
      rw [this]
      have hz : jacOp diag ω (List.range n) (csrOp n rows (xs - x)) = 0 := by
        funext j
        rw [jacOp_range_apply]
        by_cases hj : j < n
        · simp [hj, hres j hj]
        · simp [hj]
      rw [hz]; simp
    rw [hfix]
  · exact le_of_lt (hst x b xs hxs hv)

/-! ### the family -/

/-- parameters from which strict reduction follows: Gauss–Seidel / SOR with `0 < ω < 2` (any sweep mode), damped
Jacobi with `0 < ω` under `ω A < 2 D`; at least one iteration -/
def StrictSm (n : Nat) (rows : Nat → Row K) (diag : Nat → K) : Sm → Prop
  | .gs ω _ k => 0 < (ω : K) ∧ (ω : K) < 2 ∧ 1 ≤ k
  | .jac ω k => 0 < (ω : K) ∧ 1 ≤ k ∧ JacBound n rows diag (ω : K)
  | _ => False

/-- parameters from which non-expansiveness follows -/
def NonExpSm (n : Nat) (rows : Nat → Row K) (diag : Nat → K) : Sm → Prop
  | .none => True
  | .gs ω _ _ => 0 ≤ (ω : K) ∧ (ω : K) ≤ 2
  | .jac ω _ => 0 < (ω : K) ∧ JacBound n rows diag (ω : K)
  | _ => False

omit [DecidableEq K] in
theorem nonexp_iter {V : Type*} [AddCommGroup V] [Module K V] {E : EForm K V} {A : V →ₗ[K] V} {f : V → V → V}
    (h : NonExp E A f) (k : Nat) : NonExp E A (fun x b => PyamgV.iter f b k x) :=
  fun x b xs hb => h.iter k x b xs hb

/-- **the smoothers of the cycle model with `NonExpSm` parameters never increase the energy of the error** -/
theorem smFn_nonexp (n : Nat) (rows : Nat → Row K) (hsym) (hpsd) (diag : Nat → K)
    (hdiag : ∀ i, i < n → HasDiag i (rows i) (diag i) ∧ diag i ≠ 0)
    (C F : List Nat) (s : Sm) (hs : NonExpSm n rows diag s) :
    NonExp (energy n rows hsym hpsd) (csrOp n rows) (smFn rows n C F s) := by
  cases s with
  | none => exact NonExp.id _ _
  | gs ω sw k =>
    exact nonexp_iter (gsFn_nonexp (ω : K) hs.1 hs.2 n rows hsym hpsd diag (fun i hi => (hdiag i hi).1) sw) k
  | jac ω k => exact nonexp_iter (jac_nonexp n rows hsym hpsd diag hdiag (ω : K) hs.1 hs.2) k
  | cfjac c ω it fi ci => exact absurd hs (by simp [NonExpSm])

/-- **the smoothers of the cycle model with `StrictSm` parameters strictly reduce the energy of every error of
non-zero energy** (symmetric positive semidefinite level matrix with positive diagonal) -/
theorem smFn_strict (n : Nat) (rows : Nat → Row K) (hsym) (hpsd) (diag : Nat → K)
    (hdiag : ∀ i, i < n → HasDiag i (rows i) (diag i)) (hpos : ∀ i, i < n → 0 < diag i)
    (C F : List Nat) (s : Sm) (hs : StrictSm n rows diag s) :
    StrictOn (energy n rows hsym hpsd) (csrOp n rows) (smFn rows n C F s) := by
  have hdiag' : ∀ i, i < n → HasDiag i (rows i) (diag i) ∧ diag i ≠ 0 :=
    fun i hi => ⟨hdiag i hi, ne_of_gt (hpos i hi)⟩
  cases s with
  | none => exact absurd hs (by simp [StrictSm])
  | gs ω sw k =>
    obtain ⟨h0, h2, hk⟩ := hs
    exact (gsFn_strict (ω : K) h0 h2 n rows hsym hpsd diag hdiag hpos sw).iter
      (gsFn_nonexp (ω : K) (le_of_lt h0) (le_of_lt h2) n rows hsym hpsd diag hdiag sw) k hk
  | jac ω k =>
    obtain ⟨h0, hk, hb⟩ := hs
    exact (jac_strictOn n rows hsym hpsd diag hdiag' (ω : K) h0 hb).iter
      (jac_nonexp n rows hsym hpsd diag hdiag' (ω : K) h0 hb) k hk
  | cfjac c ω it fi ci => exact absurd hs (by simp [StrictSm])

/-- every strict parameter set is a non-expansive one -/
theorem StrictSm.nonExpSm (n : Nat) (rows : Nat → Row K) (diag : Nat → K) (s : Sm) (h : StrictSm n rows diag s) :
    NonExpSm n rows diag s := by
  cases s with
  | none => exact trivial
  | gs ω sw k => exact ⟨le_of_lt h.1, le_of_lt h.2.1⟩
  | jac ω k => exact ⟨h.1, h.2.2⟩
  | cfjac c ω it fi ci => exact absurd h (by simp [StrictSm])

/-! ### flag `True` ⇒ symmetric positive definite preconditioner -/

/-- **C05 with the definiteness clause proved**: `change_smoothers` reports `symmetric_smoothing = True`; the hierarchy
carries the installed smoothers (`WFL`, `WFFlag`: symmetric level matrices, `R = Pᵀ`, symmetric coarsest solve) and
is a Galerkin hierarchy with non-expansive smoothers for the energy form `E` of the finest matrix (`WFH'`); the
finest pre- or post-smoother is strict.  Then the V- and the W-cycle are `x ↦ x + M (b − A x)` with `M`
**symmetric** and **positive definite**: `E(M A v, v) > 0` for every `v` of non-zero energy. -/
theorem flag_cycle_spd (S : Op K) (pre post : List Cfg) (nl : Nat)
    (hp : 1 ≤ pre.length) (hq : 1 ≤ post.length) (hflag : flag pre post nl = some true)
    (L : LinLevel K (Nat → K)) (Ls : List (LinLevel K (Nat → K))) (hlen : (L :: Ls).length = nl)
    (A : Op K) (hwl : WFL A (L :: Ls))
    (d : LvlData K) (ds : List (LvlData K)) (hwf : WFFlag S pre post 0 d ds (L :: Ls))
    (E : EForm K (Nat → K)) (hE : WFH' (fun b => S b) A E ((L :: Ls).map (·.toLevel)))
    (hst : StrictOn E A L.pre ∨ StrictOn E A L.post) :
    ((∀ u v, (euc K d.n).a (Mop S .V (L :: Ls) u) v = (euc K d.n).a u (Mop S .V (L :: Ls) v)) ∧
      ∀ v, E.en v ≠ 0 → 0 < E.a (Mop S .V (L :: Ls) (A v)) v) ∧
    ((∀ u v, (euc K d.n).a (Mop S .W (L :: Ls) u) v = (euc K d.n).a u (Mop S .W (L :: Ls) v)) ∧
      ∀ v, E.en v ≠ 0 → 0 < E.a (Mop S .W (L :: Ls) (A v)) v) := by
  obtain ⟨⟨hVl, hVs⟩, ⟨hWl, hWs⟩⟩ :=
    flag_cycle_preconditioner S pre post nl hp hq hflag L Ls hlen A hwl d ds hwf
  refine ⟨⟨hVs, ?_⟩, ⟨hWs, ?_⟩⟩
  · intro v hv
    exact cycle_precond_pd (fun b => S b) .V L.toLevel (Ls.map (fun (x : LinLevel K (Nat → K)) => x.toLevel)) A _ E
      hE hVl hst v hv
  · intro v hv
    exact cycle_precond_pd (fun b => S b) .W L.toLevel (Ls.map (fun (x : LinLevel K (Nat → K)) => x.toLevel)) A _ E
      hE hWl hst v hv

/-- the strictness hypothesis of `flag_cycle_spd` from the parameters: the finest level is the CSR level `rows` and
its pre-smoother is the one `change_smoothers` installs, with `StrictSm` parameters -/
theorem strict_of_installed (n : Nat) (rows : Nat → Row K) (hsym) (hpsd) (diag : Nat → K)
    (hdiag : ∀ i, i < n → HasDiag i (rows i) (diag i)) (hpos : ∀ i, i < n → 0 < diag i)
    (C F : List Nat) (pre : List Cfg) (s : Sm) (_hs : smOf (preAt pre 0) = some s) (hst : StrictSm n rows diag s)
    (L : LinLevel K (Nat → K)) (hpre : L.pre = smFn rows n C F s) :
    StrictOn (energy n rows hsym hpsd) (csrOp n rows) L.pre := by
  rw [hpre]; exact smFn_strict n rows hsym hpsd diag hdiag hpos C F s hst

end concrete
end PyamgV.C05Y
