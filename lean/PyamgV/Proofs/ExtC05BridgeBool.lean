import PyamgV.Proofs.ExtC05BridgeC3

/-! PyamgV (C05, extension E23): the Boolean `herm` the driver prints for `c05_cyc`
(`M == mconjT conj M n n` with `n = M.size`) is `true` whenever the flag is `True` and the checker
`c05Check` is `true` -- the consistency the check `props/c05.py` enforces on every evaluated hierarchy, as a
theorem about the driver's own output (real: `conj = id`; complex: `conj = CRat.conj`). -/
namespace PyamgV.C05
open PyamgV PyamgV.K

section model
variable {α : Type} [Add α] [Sub α] [Mul α] [Div α] [OfNat α 0] [OfNat α 1] [DecidableEq α]

theorem denseM_unfold' (ofRat : Rat → α) (Ac : Csr α) (c : Cyc) (Ls : List (Lvl α)) :
    denseM ofRat Ac c Ls =
      ((List.range (topSize Ac Ls)).mapM (fun j =>
        solveLvl ofRat Ac c Ls (zeros (topSize Ac Ls)) (unit (topSize Ac Ls) j))).map
          (mOfCols (topSize Ac Ls)) := by
  cases Ls <;> rfl

/-- `denseM` returns a square array of arrays -/
theorem denseM_rows (ofRat : Rat → α) (Ac : Csr α) (c : Cyc) (Ls : List (Lvl α)) (M : Mat α)
    (h : denseM ofRat Ac c Ls = some M) :
    M.size = topSize Ac Ls ∧ ∀ i, i < topSize Ac Ls → (M.getD i #[]).size = topSize Ac Ls := by
  rw [denseM_unfold'] at h
  cases hm : (List.range (topSize Ac Ls)).mapM (fun j =>
      solveLvl ofRat Ac c Ls (zeros (topSize Ac Ls)) (unit (topSize Ac Ls) j)) with
  | none => rw [hm] at h; exact absurd h (by simp)
  | some cols =>
    rw [hm] at h
    have hM : M = mOfCols (topSize Ac Ls) cols := by simpa using h.symm
    obtain ⟨hlen, _⟩ := mapM_some _ (#[] : Array α) 0 _ _ hm
    rw [List.length_range] at hlen
    subst hM
    refine ⟨by simp [mOfCols], ?_⟩
    intro i hi
    unfold mOfCols
    rw [getD_map_range _ _ i #[] hi]
    simp [hlen]

theorem rd_eq_getElem (a : Array α) (i : Nat) (h : i < a.size) : rd a i = a[i] := by
  unfold rd
  simp [Array.getD_eq_getD_getElem?, h]

/-- entrywise `M i j = conj (M j i)` on a square array of arrays is the driver's Boolean `herm` -/
theorem herm_bool_of_entries (conj : α → α) (n : Nat) (M : Mat α) (hsz : M.size = n)
    (hrow : ∀ i, i < n → (M.getD i #[]).size = n)
    (h : ∀ i j, i < n → j < n → mget M i j = conj (mget M j i)) :
    (M == mconjT conj M n n) = true := by
  rw [beq_iff_eq]
  apply Array.ext
  · simp [mconjT, hsz]
  · intro i hi1 hi2
    have hi : i < n := by rw [← hsz]; exact hi1
    have hMi : M.getD i #[] = M[i] := by simp [Array.getD_eq_getD_getElem?, hi1]
    have hr := hrow i hi
    rw [hMi] at hr
    apply Array.ext
    · simp [mconjT, hr]
    · intro j hj1 hj2
      have hj : j < n := by rw [← hr]; exact hj1
      have h1 : M[i][j] = mget M i j := by
        unfold mget
        rw [hMi, rd_eq_getElem _ _ hj1]
      rw [h1, h i j hi hj]
      simp [mconjT]

end model

/-- real case: the `herm` Boolean of `c05_cyc r …` is `true` when the flag is `True` and `c05Check id` holds -/
theorem herm_bool_rat (pre post : List Cfg) (Ac : K.Csr ℚ) (Ls : List (Lvl ℚ))
    (hflag : flag pre post Ls.length = some true) (hchk : c05Check id pre post Ac Ls = true)
    (c : Cyc) (M : Mat ℚ) (h : denseM id Ac c Ls = some M) :
    (M == mconjT id M M.size M.size) = true := by
  obtain ⟨hsz, hrow⟩ := denseM_rows id Ac c Ls M h
  obtain ⟨_, hent⟩ := flag_denseM_symmetric_checked_rat pre post Ac Ls hflag hchk c M h
  rw [hsz]
  exact herm_bool_of_entries id _ M hsz hrow (fun i j hi hj => hent i j hi hj)

/-- complex case: the `herm` Boolean of `c05_cyc c …` is `true` when the flag is `True` and
`c05Check CRat.conj` holds -/
theorem herm_bool_crat (pre post : List Cfg) (Ac : K.Csr CRat) (Ls : List (Lvl CRat))
    (hflag : flag pre post Ls.length = some true) (hchk : c05Check CRat.conj pre post Ac Ls = true)
    (c : Cyc) (M : Mat CRat) (h : denseM CRat.ofRat Ac c Ls = some M) :
    (M == mconjT CRat.conj M M.size M.size) = true := by
  obtain ⟨hsz, hrow⟩ := denseM_rows CRat.ofRat Ac c Ls M h
  obtain ⟨_, hent⟩ := PyamgV.CF.C05.flag_denseM_hermitian_checked_crat pre post Ac Ls hflag hchk c M h
  rw [hsz]
  exact herm_bool_of_entries CRat.conj _ M hsz hrow (fun i j hi hj => hent i j hi hj)

#print axioms herm_bool_rat
#print axioms herm_bool_crat
end PyamgV.C05
