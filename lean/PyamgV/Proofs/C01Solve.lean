import PyamgV.Model.C01Solve
/-! PyamgV: C01 — the Python-level model `C01.solvePy` is the bookkeeping loop `PyamgV.solve` seen
through the caller's options; the property in the caller's observables. Core only. -/
namespace PyamgV.C01
open PyamgV

variable {X R : Type}

/-- one cycle as the loop body performs it: the one-level branch ignores the current iterate -/
def cyc (cycleML : X → X) (coarse : X) (oneLevel : Bool) : X → X :=
  fun x => if oneLevel then coarse else cycleML x

/-- what the caller can see of the loop's full record -/
def view (hasRes hasCb returnInfo : Bool) (o : Out X R) : PyOut X R :=
  ⟨o.x, if returnInfo then some o.status else none, if hasRes then some o.residuals else none,
   if hasCb then o.cb else []⟩

theorem loopPy_eq (cycleML : X → X) (coarse : X) (oneLevel : Bool) (resnorm : X → R) (below : R → Bool)
    (maxiter : Nat) (hasRes hasCb returnInfo : Bool) :
    ∀ (rem it : Nat) (x : X) (res : List R) (cb : List X),
      loopPy cycleML coarse oneLevel resnorm below maxiter hasRes hasCb returnInfo rem it x
          (if hasRes then res else []) (if hasCb then cb else []) =
        (loop (cyc cycleML coarse oneLevel) resnorm below maxiter rem it x res cb).map
          (view hasRes hasCb returnInfo) := by
  intro rem
  induction rem with
  | zero => intro it x res cb; simp [loopPy, loop]
  | succ rem ih =>
    intro it x res cb
    have h := ih (it+1) (cyc cycleML coarse oneLevel x)
      (res ++ [resnorm (cyc cycleML coarse oneLevel x)]) (cb ++ [cyc cycleML coarse oneLevel x])
    simp only [loopPy, loop]
    have hx : (if oneLevel then coarse else cycleML x) = cyc cycleML coarse oneLevel x := rfl
    rw [hx]
    cases hb : below (resnorm (cyc cycleML coarse oneLevel x))
    · simp only [Bool.false_eq_true, ↓reduceIte]
      by_cases hm : it + 1 = maxiter
      · simp only [if_pos hm, Option.map_some, view]
        cases hasRes <;> cases hasCb <;> simp
      · simp only [if_neg hm]
        rw [← h]
        cases hasRes <;> cases hasCb <;> simp
    · simp only [↓reduceIte, Option.map_some, view]
      cases hasRes <;> cases hasCb <;> simp

/-- the Python function is the bookkeeping loop, seen through the options.  The previous content of
the caller's `residuals` list has no influence. -/
theorem solvePy_eq (zeros : X) (cycleML : X → X) (coarse : X) (oneLevel : Bool) (resnorm : X → R)
    (below : R → Bool) (maxiter : Nat) (x0 : Option X) (residuals : Option (List R))
    (hasCb returnInfo : Bool) :
    solvePy zeros cycleML coarse oneLevel resnorm below maxiter x0 residuals hasCb returnInfo =
      (solve (cyc cycleML coarse oneLevel) resnorm below maxiter (x0.getD zeros)).map
        (view residuals.isSome hasCb returnInfo) := by
  have h := loopPy_eq cycleML coarse oneLevel resnorm below maxiter residuals.isSome hasCb returnInfo
    maxiter 0 (x0.getD zeros) [resnorm (x0.getD zeros)] []
  simp only [solvePy, solve]
  rw [← h]
  cases x0 <;> cases residuals <;> cases hasCb <;> simp

/-- **C01 in the caller's observables.**  For `maxiter ≥ 1` the call returns; with `k` the number of
cycles performed and `xs` the starting vector (`x0`, or zeros when omitted):
`1 ≤ k ≤ maxiter`; the returned vector is the `k`-th iterate; `info` (when requested) is `0` exactly
when the returned iterate's residual norm is below the threshold and `k` otherwise, and then
`k = maxiter`; the caller's list (when passed, whatever it held) ends up holding the residual norms of
iterates `0..k`; the callback (when passed) saw iterates `1..k` in order; no earlier iterate met the
threshold. -/
theorem solvePy_spec (zeros : X) (cycleML : X → X) (coarse : X) (oneLevel : Bool) (resnorm : X → R)
    (below : R → Bool) (maxiter : Nat) (x0 : Option X) (residuals : Option (List R))
    (hasCb returnInfo : Bool) (hm : maxiter ≥ 1) :
    ∃ p k, solvePy zeros cycleML coarse oneLevel resnorm below maxiter x0 residuals hasCb returnInfo = some p ∧
      1 ≤ k ∧ k ≤ maxiter ∧
      p.x = iterate (cyc cycleML coarse oneLevel) k (x0.getD zeros) ∧
      p.info = (if returnInfo then some (if below (resnorm p.x) then 0 else k) else none) ∧
      (below (resnorm p.x) = false → k = maxiter) ∧
      p.residuals = (if residuals.isSome then
          some ((List.range (k+1)).map (fun j => resnorm (iterate (cyc cycleML coarse oneLevel) j (x0.getD zeros))))
        else none) ∧
      p.cb = (if hasCb then
          (List.range k).map (fun j => iterate (cyc cycleML coarse oneLevel) (j+1) (x0.getD zeros))
        else []) ∧
      (∀ j, 1 ≤ j → j < k → below (resnorm (iterate (cyc cycleML coarse oneLevel) j (x0.getD zeros))) = false) := by
  obtain ⟨o, k, hs, h1, h2, hx, hr, hc, hst, hne, hprev⟩ :=
    solve_spec (cyc cycleML coarse oneLevel) resnorm below maxiter (x0.getD zeros) hm
  refine ⟨view residuals.isSome hasCb returnInfo o, k, ?_, h1, h2, hx, ?_, ?_, ?_, ?_, hprev⟩
  · rw [solvePy_eq, hs]; rfl
  · show (if returnInfo then some o.status else none) = _
    by_cases hb : below (resnorm o.x) = true
    · have : o.status = 0 := hst.mpr hb
      simp [view, this, hb]
    · have hs0 : o.status ≠ 0 := fun h => hb (hst.mp h)
      have := (hne hs0).1
      simp [view, this, hb]
  · intro hb
    have hs0 : o.status ≠ 0 := fun h => by
      have := hst.mp h
      simp [view] at hb
      rw [hb] at this; exact Bool.false_ne_true this
    exact (hne hs0).2
  · simp [view, hr]
  · simp [view, hc]

/-- one-level hierarchies: every iterate after the initial guess is the direct solve -/
theorem iterate_oneLevel (cycleML : X → X) (coarse : X) (xs : X) :
    ∀ j, 1 ≤ j → iterate (cyc cycleML coarse true) j xs = coarse := by
  intro j hj
  cases j with
  | zero => omega
  | succ j => rw [iterate_succ']; rfl

/-- **one-level branch**: the call returns the direct solve `coarse`; every callback argument is
`coarse`; every history entry after the first is its residual norm; and it performs exactly one
solve when that norm meets the threshold, exactly `maxiter` otherwise (reporting `maxiter`). -/
theorem solvePy_oneLevel (zeros : X) (cycleML : X → X) (coarse : X) (resnorm : X → R)
    (below : R → Bool) (maxiter : Nat) (x0 : Option X) (residuals : Option (List R))
    (hasCb returnInfo : Bool) (hm : maxiter ≥ 1) :
    ∃ p, solvePy zeros cycleML coarse true resnorm below maxiter x0 residuals hasCb returnInfo = some p ∧
      p.x = coarse ∧
      p.info = (if returnInfo then some (if below (resnorm coarse) then 0 else maxiter) else none) ∧
      p.residuals = (if residuals.isSome then
          some (resnorm (x0.getD zeros) ::
            List.replicate (if below (resnorm coarse) then 1 else maxiter) (resnorm coarse))
        else none) ∧
      p.cb = (if hasCb then List.replicate (if below (resnorm coarse) then 1 else maxiter) coarse else []) := by
  obtain ⟨p, k, hs, h1, h2, hx, hi, hk, hr, hc, hprev⟩ :=
    solvePy_spec zeros cycleML coarse true resnorm below maxiter x0 residuals hasCb returnInfo hm
  have hxc : p.x = coarse := by rw [hx]; exact iterate_oneLevel cycleML coarse _ k h1
  have hkk : k = (if below (resnorm coarse) then 1 else maxiter) := by
    by_cases hb : below (resnorm coarse) = true
    · simp only [hb, if_true]
      -- an earlier iterate (the first) would already have met the threshold
      by_cases hk1 : k = 1
      · exact hk1
      · have := hprev 1 (by omega) (by omega)
        rw [iterate_oneLevel cycleML coarse _ 1 (by omega)] at this
        rw [hb] at this; exact absurd this (by simp)
    · have hb' : below (resnorm coarse) = false := by simpa using hb
      simp only [hb', Bool.false_eq_true, if_false]
      exact hk (by rw [hxc]; exact hb')
  refine ⟨p, hs, hxc, ?_, ?_, ?_⟩
  · rw [hi, hxc]
    by_cases hb : below (resnorm coarse) = true
    · simp [hb]
    · have hb' : below (resnorm coarse) = false := by simpa using hb
      simp only [hb', Bool.false_eq_true, if_false] at hkk ⊢
      rw [hkk]
  · rw [hr, ← hkk]
    cases residuals with
    | none => rfl
    | some l =>
      simp only [Option.isSome_some, if_true, Option.some.injEq]
      rw [List.range_succ_eq_map, List.map_cons, List.map_map]
      congr 1
      · apply List.ext_getElem
        · simp
        · intro i h1' h2'
          simp only [List.getElem_map, List.getElem_range, Function.comp, List.getElem_replicate]
          rw [iterate_oneLevel cycleML coarse _ (i+1) (by omega)]
  · rw [hc, ← hkk]
    cases hasCb with
    | false => rfl
    | true =>
      simp only [if_true]
      apply List.ext_getElem
      · simp
      · intro i h1' h2'
        simp only [List.getElem_map, List.getElem_range, List.getElem_replicate]
        exact iterate_oneLevel cycleML coarse _ (i+1) (by omega)

/-- the threshold test on rationals is the property's: strictly below `tol·‖b‖`, `‖b‖ = 0 ↦ 1` -/
theorem belowRat_iff (tol normb r : Rat) :
    belowRat tol normb r = true ↔ r < tol * (if normb = 0 then 1 else normb) := by
  unfold belowRat normbEff
  exact decide_eq_true_iff

end PyamgV.C01
