import PyamgV.Model.ExtC05YCycle
import PyamgV.Proofs.ExtC05ZCheck

/-! PyamgV (C05, extension E47): **Boolean certificates for the executed block smoothers** (`block_gauss_seidel` /
`block_jacobi` with block size > 1 of the extended cycle model `Model/ExtC05YCycle.lean`), import-free apart from the
models; evaluated by the driver op `ext_c05z_blk`.  `Proofs/ExtC05ZBlk.lean` proves them sound.

* `leftInvB B Dinv`: `Dinv_i B_ii = I` for every block row (`B_ii` = the dense diagonal block `diagBlock`, duplicates summed);
* `dinvSymB B Dinv`: every stored inverse block is symmetric;
* `blkSizeB`, `blkColsB`: `Dinv` has `nb · bs²` entries, block column indices are `< nb`;
* `blkSmCheck A bs`: `A.tobsr(bs)` and `blockDinv` succeed and all of the above hold for what they return. -/
namespace PyamgV.C05ZB
open PyamgV.K PyamgV.C05 PyamgV.C05Y PyamgV.C05Z

variable {α : Type} [Add α] [Sub α] [Mul α] [Div α] [OfNat α 0] [OfNat α 1] [DecidableEq α]

/-- `Dinv_i B_ii = I` on every block row -/
def leftInvB (B : Bsr α) (Dinv : Array α) : Bool :=
  (List.range B.nb).all (fun i =>
    (List.range B.bs).all (fun k => (List.range B.bs).all (fun m =>
      decide (sumTo B.bs (fun l => rd Dinv (i * (B.bs * B.bs) + k * B.bs + l) * mget (diagBlock B i) l m) =
        (if k = m then (1:α) else 0)))))

/-- the stored inverse blocks are symmetric -/
def dinvSymB (B : Bsr α) (Dinv : Array α) : Bool :=
  (List.range B.nb).all (fun i =>
    (List.range B.bs).all (fun k => (List.range B.bs).all (fun l =>
      decide (rd Dinv (i * (B.bs * B.bs) + k * B.bs + l) = rd Dinv (i * (B.bs * B.bs) + l * B.bs + k)))))

def blkSizeB (B : Bsr α) (Dinv : Array α) : Bool := decide (Dinv.size = B.nb * (B.bs * B.bs))

def blkColsB (B : Bsr α) : Bool :=
  (List.range B.nb).all (fun i => (B.jjs i).all (fun jj => decide (rdN B.bj jj < B.nb)))

/-- everything the executed block-smoother theorems assume, on what `tobsr` / `blockDinv` return -/
def blkSmCheck (A : Csr α) (bs : Nat) : Bool :=
  match A.toBsr bs with
  | none => false
  | some B =>
    match blockDinv B with
    | none => false
    | some D => leftInvB B D && dinvSymB B D && blkSizeB B D && blkColsB B

/-- the components: conversion, inversion, `Dinv B_ii = I`, symmetric blocks, size, block columns -/
def blkSmParts (A : Csr α) (bs : Nat) : List Bool :=
  match A.toBsr bs with
  | none => [false]
  | some B =>
    match blockDinv B with
    | none => [true, false]
    | some D => [true, true, leftInvB B D, dinvSymB B D, blkSizeB B D, blkColsB B]

end PyamgV.C05ZB
