import PyamgV.Proofs.ExtC05RefineGJ

/-! PyamgV (C05, extension E12, part 2b): when the coarsest solve of the executable model succeeds
once, the coarsest matrix is invertible.

* `solveDense_sound`: what `solveDense` returns solves the system (the row operations are
  invertible: `gjStep_sol_bwd`);
* `solveDense_indep`: success does not depend on the right-hand side (the pivot search reads the left
  block only);
* `coarseInv_of_success`: if `solveDense` succeeds for one right-hand side, the operator `invOp`
  assembled from the solutions for the unit vectors is a right inverse of the coarsest matrix
  (`CoarseInv`), hence the map the coarsest solve of the cycle model computes (`solveDense_csr`);
* `solveLvl_coarse_success`: a successful cycle has called the coarsest solve successfully. -/
namespace PyamgV.C05
open PyamgV Finset

set_option linter.unusedSectionVars false
variable {R : Type} [Field R] [LinearOrder R] [IsStrictOrderedRing R] [DecidableEq R]

/-- the augmented matrix `[A | b]` -/
def augM (n : Nat) (A : Mat R) (b : Array R) : Mat R :=
  (Array.range n).map (fun i => (A.getD i #[]).push (K.rd b i))

theorem augM_size (n : Nat) (A : Mat R) (b : Array R) : (augM n A b).size = n := by simp [augM]

theorem augM_entries (n : Nat) (A : Mat R) (hA : ∀ i, i < n → (A.getD i #[]).size = n) (b : Array R)
    (i j : Nat) (hi : i < n) :
    mget (augM n A b) i j = if j = n then K.rd b i else if j < n then mget A i j else 0 := by
  unfold mget augM
  rw [getD_map_range n _ i #[] hi]
  unfold K.rd
  have hsz := hA i hi
  rw [Array.getD_eq_getD_getElem?, Array.getElem?_push, hsz]
  by_cases hjn : j = n
  · rw [if_pos hjn, if_pos hjn]; simp
  · rw [if_neg hjn, if_neg hjn]
    by_cases hj : j < n
    · rw [if_pos hj]; simp [Array.getD_eq_getD_getElem?]
    · rw [if_neg hj]
      have : (A.getD i #[])[j]? = none := by
        apply Array.getElem?_eq_none; omega
      rw [this]; rfl

theorem sol_augM (n : Nat) (A : Mat R) (hA : ∀ i, i < n → (A.getD i #[]).size = n) (b : Array R)
    (x : Nat → R) :
    Sol n x (augM n A b) ↔ ∀ i, i < n → ∑ j ∈ range n, mget A i j * x j = K.rd b i := by
  have key : ∀ i, i < n →
      (∑ j ∈ range n, mget (augM n A b) i j * x j = mget (augM n A b) i n ↔
       ∑ j ∈ range n, mget A i j * x j = K.rd b i) := by
    intro i hi
    rw [augM_entries n A hA b i n hi, if_pos rfl]
    have : ∑ j ∈ range n, mget (augM n A b) i j * x j = ∑ j ∈ range n, mget A i j * x j := by
      apply Finset.sum_congr rfl
      intro j hj
      have hjn := Finset.mem_range.1 hj
      rw [augM_entries n A hA b i j hi, if_neg (by omega), if_pos hjn]
    rw [this]
  exact ⟨fun h i hi => (key i hi).1 (h i hi), fun h i hi => (key i hi).2 (h i hi)⟩

theorem solveDense_eq' (n : Nat) (A : Mat R) (b : Array R) :
    solveDense n A b =
      ((List.range n).foldl (fun (st : Option (Mat R)) k => st.bind (gjStep n k))
        (some (augM n A b))).map (fun M => (Array.range n).map (fun i => mget M i n)) :=
  solveDense_eq n A b

/-- **soundness of the coarsest solve**: the vector `solveDense` returns solves `A y = b` -/
theorem solveDense_sound (n : Nat) (A : Mat R) (hA : ∀ i, i < n → (A.getD i #[]).size = n)
    (b y : Array R) (h : solveDense n A b = some y) :
    y.size = n ∧ ∀ i, i < n → ∑ j ∈ range n, mget A i j * K.rd y j = K.rd b i := by
  rw [solveDense_eq'] at h
  cases hst : (List.range n).foldl (fun (st : Option (Mat R)) k => st.bind (gjStep n k))
      (some (augM n A b)) with
  | none => rw [hst] at h; exact absurd h (by simp)
  | some N =>
    rw [hst] at h
    simp only [Option.map_some, Option.some.injEq] at h
    subst h
    obtain ⟨_, h2, h3⟩ := gjFold_inv n
      (fun j => K.rd ((Array.range n).map (fun i => mget N i n)) j) (augM n A b) (augM_size n A b)
      n (Nat.le_refl n) N hst
    refine ⟨by simp, ?_⟩
    apply (sol_augM n A hA b _).1
    apply h3.2
    intro i hi
    rw [Finset.sum_eq_single i]
    · rw [h2 i i hi hi, if_pos rfl, one_mul]
      exact rd_map_range n _ i hi
    · intro j hj hji
      rw [h2 i j hi (Finset.mem_range.1 hj), if_neg (Ne.symm hji), zero_mul]
    · intro hni; exact absurd (Finset.mem_range.2 hi) hni

/-! ### success does not depend on the right-hand side -/

/-- equal left blocks -/
def LeftEq (n : Nat) (M M' : Mat R) : Prop :=
  M.size = n ∧ M'.size = n ∧ ∀ i j, i < n → j < n → mget M i j = mget M' i j

theorem find?_congr' {α : Type} (p q : α → Bool) : ∀ (l : List α), (∀ a ∈ l, p a = q a) →
    l.find? p = l.find? q := by
  intro l
  induction l with
  | nil => intro _; rfl
  | cons a rest ih =>
    intro h
    rw [List.find?_cons, List.find?_cons, h a (by simp), ih (fun b hb => h b (by simp [hb]))]

theorem gjStep_leftEq (n k : Nat) (M M' N : Mat R) (hk : k < n) (hL : LeftEq n M M')
    (h : gjStep n k M = some N) : ∃ N', gjStep n k M' = some N' ∧ LeftEq n N N' := by
  obtain ⟨hM, hM', hE⟩ := hL
  obtain ⟨p, hf, hkp, hpn, hpiv, hNs, hN⟩ := gjStep_entries n k M N hk hM h
  have hfind : (List.range' k (n - k)).find? (fun r => mget M' r k ≠ 0) = some p := by
    rw [← hf]
    apply find?_congr'
    intro r hr
    rw [List.mem_range'_1] at hr
    rw [hE r k (by omega) hk]
  cases h' : gjStep n k M' with
  | none =>
    unfold gjStep at h'
    rw [hfind] at h'
    exact absurd h' (by simp)
  | some N' =>
    obtain ⟨p', hf', _, _, _, hNs', hN'⟩ := gjStep_entries n k M' N' hk hM' h'
    have hpp : p' = p := by
      rw [hfind] at hf'
      exact (Option.some.inj hf').symm
    subst hpp
    refine ⟨N', rfl, hNs, hNs', ?_⟩
    intro i j hi hj
    have hsw : swp p' k i < n := by unfold swp; split <;> omega
    rw [hN i j hi (by omega), hN' i j hi (by omega), hE p' j hpn hj, hE p' k hpn hk,
      hE _ j hsw hj, hE _ k hsw hk]

theorem gjFold_leftEq (n : Nat) (M0 M0' : Mat R) (hL : LeftEq n M0 M0') :
    ∀ k, k ≤ n → ∀ N,
      (List.range k).foldl (fun (st : Option (Mat R)) k => st.bind (gjStep n k)) (some M0) = some N →
      ∃ N', (List.range k).foldl (fun (st : Option (Mat R)) k => st.bind (gjStep n k)) (some M0') = some N' ∧
        LeftEq n N N' := by
  intro k
  induction k with
  | zero =>
    intro _ N h
    simp only [List.range_zero, List.foldl_nil, Option.some.injEq] at h
    subst h
    exact ⟨M0', rfl, hL⟩
  | succ k ih =>
    intro hk N h
    rw [List.range_succ, List.foldl_append] at h
    simp only [List.foldl_cons, List.foldl_nil] at h
    cases hst : (List.range k).foldl (fun (st : Option (Mat R)) k => st.bind (gjStep n k)) (some M0) with
    | none => rw [hst] at h; exact absurd h (by simp)
    | some M =>
      rw [hst] at h
      obtain ⟨M', hM', hLM⟩ := ih (by omega) M hst
      have hstep : gjStep n k M = some N := by simpa using h
      obtain ⟨N', hN', hLN⟩ := gjStep_leftEq n k M M' N (by omega) hLM hstep
      refine ⟨N', ?_, hLN⟩
      rw [List.range_succ, List.foldl_append, hM']
      simpa using hN'

/-- **the elimination succeeds for every right-hand side as soon as it succeeds for one** -/
theorem solveDense_indep (n : Nat) (A : Mat R) (hA : ∀ i, i < n → (A.getD i #[]).size = n)
    (b y b' : Array R) (h : solveDense n A b = some y) : ∃ y', solveDense n A b' = some y' := by
  rw [solveDense_eq'] at h
  cases hst : (List.range n).foldl (fun (st : Option (Mat R)) k => st.bind (gjStep n k))
      (some (augM n A b)) with
  | none => rw [hst] at h; exact absurd h (by simp)
  | some N =>
    have hL : LeftEq n (augM n A b) (augM n A b') := by
      refine ⟨augM_size n A b, augM_size n A b', ?_⟩
      intro i j hi hj
      have hjn : ¬ j = n := by omega
      rw [augM_entries n A hA b i j hi, augM_entries n A hA b' i j hi, if_neg hjn, if_neg hjn]
    obtain ⟨N', hN', _⟩ := gjFold_leftEq n _ _ hL n (Nat.le_refl n) N hst
    rw [solveDense_eq', hN']
    exact ⟨_, rfl⟩

/-! ### the inverse assembled from the solutions for the unit vectors -/

/-- `b ↦ Σ_j b_j · solveDense(e_j)` on the first `n` coordinates -/
def invOp (n : Nat) (A : Mat R) : (Nat → R) →ₗ[R] (Nat → R) where
  toFun b := fun i => if i < n then
    ∑ j ∈ range n, b j * K.rd ((solveDense n A (unit n j)).getD #[]) i else 0
  map_add' u v := by
    funext i
    by_cases hi : i < n
    · simp only [Pi.add_apply, if_pos hi, ← Finset.sum_add_distrib]
      apply Finset.sum_congr rfl
      intro j _
      ring
    · simp [hi]
  map_smul' c u := by
    funext i
    by_cases hi : i < n
    · simp only [Pi.smul_apply, smul_eq_mul, RingHom.id_apply, if_pos hi, Finset.mul_sum]
      apply Finset.sum_congr rfl
      intro j _
      ring
    · simp [hi]

theorem rd_unit (n j i : Nat) (hi : i < n) : K.rd (unit n j : Array R) i = if i = j then 1 else 0 := by
  unfold unit
  rw [rd_map_range n _ i hi]

/-- **one successful coarsest solve makes the coarsest matrix invertible**, with the inverse
`invOp` the elimination itself computes -/
theorem coarseInv_of_success (Ac : K.Csr R) (b y : Array R)
    (h : solveDense Ac.n (denseOfCsr Ac Ac.n) b = some y) :
    CoarseInv Ac (invOp Ac.n (denseOfCsr Ac Ac.n)) := by
  have hA := fun i hi => denseOfCsr_size Ac Ac.n i hi
  -- the solutions for the unit vectors
  have hcol : ∀ j, ∀ i, i < Ac.n →
      ∑ k ∈ range Ac.n, mget (denseOfCsr Ac Ac.n) i k *
        K.rd ((solveDense Ac.n (denseOfCsr Ac Ac.n) (unit Ac.n j)).getD #[]) k = K.rd (unit Ac.n j : Array R) i := by
    intro j
    obtain ⟨yj, hyj⟩ := solveDense_indep Ac.n _ hA b y (unit Ac.n j) h
    rw [hyj]
    exact (solveDense_sound Ac.n _ hA _ yj hyj).2
  have hsupp : ∀ (u : Nat → R) i, Ac.n ≤ i → invOp Ac.n (denseOfCsr Ac Ac.n) u i = 0 := by
    intro u i hi
    show (if i < Ac.n then _ else 0) = 0
    rw [if_neg (by omega)]
  refine ⟨?_, hsupp⟩
  intro u i hi
  rw [← denseOfCsr_dot Ac Ac.n _ (hsupp u) i hi]
  have e1 : ∀ k ∈ range Ac.n, mget (denseOfCsr Ac Ac.n) i k * invOp Ac.n (denseOfCsr Ac Ac.n) u k =
      ∑ j ∈ range Ac.n, u j * (mget (denseOfCsr Ac Ac.n) i k *
        K.rd ((solveDense Ac.n (denseOfCsr Ac Ac.n) (unit Ac.n j)).getD #[]) k) := by
    intro k hk
    show _ * (if k < Ac.n then _ else 0) = _
    rw [if_pos (Finset.mem_range.1 hk), Finset.mul_sum]
    apply Finset.sum_congr rfl
    intro j _
    ring
  rw [Finset.sum_congr rfl e1, Finset.sum_comm]
  have e2 : ∀ j ∈ range Ac.n, ∑ k ∈ range Ac.n, u j * (mget (denseOfCsr Ac Ac.n) i k *
        K.rd ((solveDense Ac.n (denseOfCsr Ac Ac.n) (unit Ac.n j)).getD #[]) k) =
      if i = j then u j else 0 := by
    intro j _
    rw [← Finset.mul_sum, hcol j i hi, rd_unit Ac.n j i hi]
    by_cases hij : i = j
    · rw [if_pos hij, if_pos hij, mul_one]
    · rw [if_neg hij, if_neg hij, mul_zero]
  rw [Finset.sum_congr rfl e2, Finset.sum_ite_eq (range Ac.n) i, if_pos (Finset.mem_range.2 hi)]

/-! ### a successful cycle has solved the coarsest problem -/

theorem solveLvl_coarse_success (ofRat : Rat → R) (Ac : K.Csr R) :
    ∀ (Ls : List (Lvl R)) (c : Cyc) (x b y : Array R), solveLvl ofRat Ac c Ls x b = some y →
      ∃ b' y', solveDense Ac.n (denseOfCsr Ac Ac.n) b' = some y' := by
  intro Ls
  induction Ls with
  | nil =>
    intro c x b y h
    exact ⟨b, y, by cases c <;> exact h⟩
  | cons L rest ih =>
    intro c x b y h
    rw [solveLvl_cons] at h
    generalize spmv L.R (vsub b (spmv L.A (applySm ofRat L.pre L.A L.C x b))) = cb at h
    cases hco : coarseStep ofRat Ac c rest cb with
    | none => rw [hco] at h; exact absurd h (by simp)
    | some cx =>
      cases rest with
      | nil =>
        have h0 : solveLvl ofRat Ac c [] (zeros cb.size) cb = some cx := by cases c <;> exact hco
        exact ih c _ _ cx h0
      | cons L' rest' =>
        cases c with
        | V =>
          have h0 : solveLvl ofRat Ac .V (L' :: rest') (zeros cb.size) cb = some cx := hco
          exact ih .V _ _ cx h0
        | W =>
          have h0 : (solveLvl ofRat Ac .W (L' :: rest') (zeros cb.size) cb).bind
              (fun c1 => solveLvl ofRat Ac .W (L' :: rest') c1 cb) = some cx := hco
          cases hc1 : solveLvl ofRat Ac .W (L' :: rest') (zeros cb.size) cb with
          | none => rw [hc1] at h0; exact absurd h0 (by simp)
          | some c1 => exact ih .W _ _ c1 hc1

#print axioms solveDense_sound
#print axioms solveDense_indep
#print axioms coarseInv_of_success
#print axioms solveLvl_coarse_success
end PyamgV.C05
