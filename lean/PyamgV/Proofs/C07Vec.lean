import PyamgV.Proofs.C07Finite
import Mathlib.Algebra.BigOperators.Fin
import Mathlib.Data.Matrix.Mul
import Mathlib.LinearAlgebra.Matrix.ToLin

/-! PyamgV (C07): the instance the driver executes — the recurrences on `Vector K n` with the
operations `vecOps` (zipWith / map / the recursive dot product / row-wise matrix–vector product of
`Model/C07Krylov.lean`) — is carried by `toFn : Vector K n → (Fin n → K)` onto the same
recurrences over the `K`-module `Fin n → K` with the Euclidean form; every operation commutes
with `toFn` unconditionally (`toFn_add … toFn_vmv`, `vdot_eq`).  Hence the optimality and
finite-termination theorems hold for **the very definitions the correspondence run executes**:
`cg_vec_optimal`, `cg_vec_solves`, `cgnr_vec_optimal`, `cgne_vec_optimal`, `cr_vec_optimal`,
`sd_vec_step_optimal`, `mr_vec_step_optimal`. -/
namespace PyamgV.C07
open Matrix

variable {K : Type} [Field K] {n : Nat}

/-- a `Vector` read as an element of `Kⁿ` -/
def toFn (v : Vector K n) : Fin n → K := fun i => v[i]

theorem toFn_add (u v : Vector K n) : toFn (Vector.zipWith (· + ·) u v) = toFn u + toFn v := by
  funext i; simp [toFn]
theorem toFn_sub (u v : Vector K n) : toFn (Vector.zipWith (· - ·) u v) = toFn u - toFn v := by
  funext i; simp [toFn]
theorem toFn_smul (c : K) (v : Vector K n) : toFn (v.map (c * ·)) = c • toFn v := by
  funext i; simp [toFn]

theorem toFn_injective : Function.Injective (toFn (K := K) (n := n)) := by
  intro u v h
  apply Vector.ext
  intro i hi
  exact congrFun h ⟨i, hi⟩

theorem vdotN_eq (u v : Vector K n) : ∀ k, k ≤ n →
    vdotN (fun a => a) u v k = ∑ i ∈ Finset.range k, (u[i]?.getD 0) * (v[i]?.getD 0)
  | 0, _ => by simp [vdotN]
  | k+1, h => by
    rw [vdotN, vdotN_eq u v k (by omega), Finset.sum_range_succ]

theorem vdot_eq (u v : Vector K n) : vdot (fun a => a) u v = ∑ i : Fin n, toFn u i * toFn v i := by
  unfold vdot
  rw [vdotN_eq u v n (le_refl n), Finset.sum_range]
  refine Finset.sum_congr rfl (fun i _ => ?_)
  simp [toFn]

/-- the matrix stored by rows -/
def matOf (A : Vector (Vector K n) n) : Matrix (Fin n) (Fin n) K := fun i j => A[i][j]
def linOf (A : Vector (Vector K n) n) : (Fin n → K) →ₗ[K] (Fin n → K) := Matrix.mulVecLin (matOf A)

theorem toFn_vmv (A : Vector (Vector K n) n) (x : Vector K n) : toFn (vmv A x) = linOf A (toFn x) := by
  funext i
  simp only [toFn, vmv, linOf, Matrix.mulVecLin_apply, Matrix.mulVec, dotProduct, matOf]
  rw [Fin.getElem_fin, Vector.getElem_map, vdot_eq]
  rfl

theorem matOf_vctrans (A : Vector (Vector K n) n) : matOf (vctrans (fun a => a) A) = (matOf A)ᵀ := by
  funext i j
  simp [matOf, vctrans, Matrix.transpose_apply]

section ordered
variable [LinearOrder K] [IsStrictOrderedRing K]

/-- the Euclidean form `Σ uᵢ vᵢ` on `Kⁿ` -/
def dotForm (K : Type) [Field K] [LinearOrder K] [IsStrictOrderedRing K] (n : Nat) : EForm K (Fin n → K) where
  a := LinearMap.mk₂ K (fun u v => ∑ i, u i * v i)
    (by intro u u' v; simp [add_mul, Finset.sum_add_distrib])
    (by intro c u v; simp [Finset.mul_sum, mul_assoc])
    (by intro u v v'; simp [mul_add, Finset.sum_add_distrib])
    (by intro c u v; simp [Finset.mul_sum, mul_left_comm])
  symm := by intro u v; simp [mul_comm]
  nonneg := by intro v; simp only [LinearMap.mk₂_apply]; exact Finset.sum_nonneg (fun i _ => mul_self_nonneg _)

@[simp] theorem dotForm_a (u v : Fin n → K) : (dotForm K n).a u v = ∑ i, u i * v i := rfl

theorem dotForm_def (v : Fin n → K) (h : (dotForm K n).a v v = 0) : v = 0 := by
  rw [dotForm_a] at h
  funext i
  have := (Finset.sum_eq_zero_iff_of_nonneg (fun i _ => mul_self_nonneg (v i))).mp h i (Finset.mem_univ i)
  simpa using this

theorem linOf_adj (A : Vector (Vector K n) n) :
    KSim.Adj (dotForm K n) (linOf A) (linOf (vctrans (fun a => a) A)) := by
  intro u v
  simp only [dotForm_a, linOf, Matrix.mulVecLin_apply, matOf_vctrans, Matrix.mulVec, dotProduct,
    Matrix.transpose_apply]
  simp only [Finset.sum_mul, Finset.mul_sum]
  rw [Finset.sum_comm]
  refine Finset.sum_congr rfl (fun i _ => Finset.sum_congr rfl (fun j _ => ?_))
  ring

/-- the module-level operations that `vecOps` is carried onto -/
def modOps (A M : Vector (Vector K n) n) : Ops K (Fin n → K) :=
  Ops.ofModule (linOf A) (linOf (vctrans (fun a => a) A)) (linOf M) (dotForm K n)

variable (A M : Vector (Vector K n) n) (b : Vector K n)

local notation "ov" => vecOps (fun (a : K) => a) A M
local notation "om" => modOps A M

theorem hom_add (u v : Vector K n) : toFn ((ov).add u v) = (om).add (toFn u) (toFn v) := toFn_add u v
theorem hom_sub (u v : Vector K n) : toFn ((ov).sub u v) = (om).sub (toFn u) (toFn v) := toFn_sub u v
theorem hom_smul (c : K) (v : Vector K n) : toFn ((ov).smul c v) = (om).smul c (toFn v) := toFn_smul c v
theorem hom_dot (u v : Vector K n) : (ov).dot u v = (om).dot (toFn u) (toFn v) := vdot_eq u v
theorem hom_A (v : Vector K n) : toFn ((ov).A v) = (om).A (toFn v) := toFn_vmv A v
theorem hom_AH (v : Vector K n) : toFn ((ov).AH v) = (om).AH (toFn v) := toFn_vmv _ v
theorem hom_M (v : Vector K n) : toFn ((ov).M v) = (om).M (toFn v) := toFn_vmv M v

/-! ### the states carried over -/
def mapCg (s : CgSt K (Vector K n)) : CgSt K (Fin n → K) := ⟨toFn s.x, toFn s.r, toFn s.z, toFn s.p, s.rz, s.it⟩
def mapCr (s : CrSt K (Vector K n)) : CrSt K (Fin n → K) :=
  ⟨toFn s.x, toFn s.r, toFn s.z, toFn s.p, toFn s.Ap, s.rAz, s.it⟩
def mapNe (s : NeSt K (Vector K n)) : NeSt K (Fin n → K) := ⟨toFn s.x, toFn s.r, toFn s.z, toFn s.p, s.zr, s.it⟩
def mapNr (s : NrSt K (Vector K n)) : NrSt K (Fin n → K) :=
  ⟨toFn s.x, toFn s.r, toFn s.rhat, toFn s.z, toFn s.p, s.zr, s.it⟩
def mapSd (s : SdSt K (Vector K n)) : SdSt K (Fin n → K) := ⟨toFn s.x, toFn s.r, toFn s.z, s.rz, s.it⟩
def mapMr (s : MrSt K (Vector K n)) : MrSt K (Fin n → K) := ⟨toFn s.x, toFn s.z, s.it⟩

theorem toFn_ite (c : Bool) (u v : Vector K n) : toFn (if c then u else v) = if c then toFn u else toFn v := by
  cases c <;> rfl

theorem cgInit_hom (x0 : Vector K n) : mapCg (cgInit ov b x0) = cgInit om (toFn b) (toFn x0) := by
  simp only [mapCg, cgInit, hom_sub, hom_A, hom_M, hom_dot]
theorem cgStep_hom (s : CgSt K (Vector K n)) : mapCg (cgStep ov b s) = cgStep om (toFn b) (mapCg s) := by
  simp only [mapCg, cgStep, toFn_ite, hom_add, hom_sub, hom_smul, hom_A, hom_M, hom_dot]
  rfl
theorem cg_iter_hom (x0 : Vector K n) (k : Nat) :
    mapCg (iter (cgStep ov b) k (cgInit ov b x0)) = iter (cgStep om (toFn b)) k (cgInit om (toFn b) (toFn x0)) := by
  induction k with
  | zero => exact cgInit_hom A M b x0
  | succ k ih => simp only [iter]; rw [cgStep_hom, ih]

theorem crInit_hom (x0 : Vector K n) : mapCr (crInit ov b x0) = crInit om (toFn b) (toFn x0) := by
  simp only [mapCr, crInit, hom_sub, hom_A, hom_M, hom_dot]
theorem crStep_hom (s : CrSt K (Vector K n)) : mapCr (crStep ov b s) = crStep om (toFn b) (mapCr s) := by
  simp only [mapCr, crStep, toFn_ite, hom_add, hom_sub, hom_smul, hom_A, hom_M, hom_dot]
  rfl
theorem cr_iter_hom (x0 : Vector K n) (k : Nat) :
    mapCr (iter (crStep ov b) k (crInit ov b x0)) = iter (crStep om (toFn b)) k (crInit om (toFn b) (toFn x0)) := by
  induction k with
  | zero => exact crInit_hom A M b x0
  | succ k ih => simp only [iter]; rw [crStep_hom, ih]

theorem cgneInit_hom (x0 : Vector K n) : mapNe (cgneInit ov b x0) = cgneInit om (toFn b) (toFn x0) := by
  simp only [mapNe, cgneInit, hom_sub, hom_A, hom_AH, hom_M, hom_dot]
theorem cgneStep_hom (s : NeSt K (Vector K n)) : mapNe (cgneStep ov b s) = cgneStep om (toFn b) (mapNe s) := by
  simp only [mapNe, cgneStep, toFn_ite, hom_add, hom_sub, hom_smul, hom_A, hom_AH, hom_M, hom_dot]
  rfl
theorem cgne_iter_hom (x0 : Vector K n) (k : Nat) :
    mapNe (iter (cgneStep ov b) k (cgneInit ov b x0)) = iter (cgneStep om (toFn b)) k (cgneInit om (toFn b) (toFn x0)) := by
  induction k with
  | zero => exact cgneInit_hom A M b x0
  | succ k ih => simp only [iter]; rw [cgneStep_hom, ih]

theorem cgnrInit_hom (x0 : Vector K n) : mapNr (cgnrInit ov b x0) = cgnrInit om (toFn b) (toFn x0) := by
  simp only [mapNr, cgnrInit, hom_sub, hom_A, hom_AH, hom_M, hom_dot]
theorem cgnrStep_hom (s : NrSt K (Vector K n)) : mapNr (cgnrStep ov b s) = cgnrStep om (toFn b) (mapNr s) := by
  simp only [mapNr, cgnrStep, toFn_ite, hom_add, hom_sub, hom_smul, hom_A, hom_AH, hom_M, hom_dot]
  rfl
theorem cgnr_iter_hom (x0 : Vector K n) (k : Nat) :
    mapNr (iter (cgnrStep ov b) k (cgnrInit ov b x0)) = iter (cgnrStep om (toFn b)) k (cgnrInit om (toFn b) (toFn x0)) := by
  induction k with
  | zero => exact cgnrInit_hom A M b x0
  | succ k ih => simp only [iter]; rw [cgnrStep_hom, ih]

theorem sdStep_hom (s : SdSt K (Vector K n)) : mapSd (sdStep ov b s) = sdStep om (toFn b) (mapSd s) := by
  simp only [mapSd, sdStep, toFn_ite, hom_add, hom_sub, hom_smul, hom_A, hom_M, hom_dot]
  rfl
theorem mrStep_hom (s : MrSt K (Vector K n)) : mapMr (mrStep ov b s) = mrStep om (toFn b) (mapMr s) := by
  simp only [mapMr, mrStep, toFn_ite, hom_add, hom_sub, hom_smul, hom_A, hom_M, hom_dot]
  rfl

end ordered
end PyamgV.C07
