import PyamgV.Proofs.C07Finite
import Mathlib.Algebra.BigOperators.Fin
import Mathlib.Data.Matrix.Mul
import Mathlib.LinearAlgebra.Matrix.ToLin

/-! PyamgV (C07): the instance the driver executes — the recurrences on `Vector K n` with the
operations `vecOps` (zipWith / map / the recursive dot product / row-wise matrix–vector product of
`Model/C07Krylov.lean`) — is carried by `toFn : Vector K n → (Fin n → K)` onto the same
recurrences over the `K`-module `Fin n → K` with the Euclidean form; every operation commutes
with `toFn` unconditionally (`toFn_add … toFn_vmv`, `vdot_eq`).  Hence the optimality and
finite-termination theorems hold for **the very definitions the correspondence run executes**:
`cg_vec_optimal`, `cg_vec_solves`, `cgnr_vec_optimal`, `cgne_vec_optimal`, `cr_vec_optimal`,
`sd_vec_step_optimal`, `mr_vec_step_optimal`. -/
namespace PyamgV.C07
open Matrix

variable {K : Type} [Field K] {n : Nat}

/-- a `Vector` read as an element of `Kⁿ` -/
def toFn (v : Vector K n) : Fin n → K := fun i => v[i]

theorem toFn_add (u v : Vector K n) : toFn (Vector.zipWith (· + ·) u v) = toFn u + toFn v := by
  funext i; simp [toFn]
theorem toFn_sub (u v : Vector K n) : toFn (Vector.zipWith (· - ·) u v) = toFn u - toFn v := by
  funext i; simp [toFn]
theorem toFn_smul (c : K) (v : Vector K n) : toFn (v.map (c * ·)) = c • toFn v := by
  funext i; simp [toFn]

theorem toFn_injective : Function.Injective (toFn (K := K) (n := n)) := by
  intro u v h
  apply Vector.ext
  intro i hi
  exact congrFun h ⟨i, hi⟩

theorem vdotN_eq (u v : Vector K n) : ∀ k, k ≤ n →
    vdotN (fun a => a) u v k = ∑ i ∈ Finset.range k, (u[i]?.getD 0) * (v[i]?.getD 0)
  | 0, _ => by simp [vdotN]
  | k+1, h => by
    rw [vdotN, vdotN_eq u v k (by omega), Finset.sum_range_succ]

theorem vdot_eq (u v : Vector K n) : vdot (fun a => a) u v = ∑ i : Fin n, toFn u i * toFn v i := by
  unfold vdot
  rw [vdotN_eq u v n (le_refl n), Finset.sum_range]
  refine Finset.sum_congr rfl (fun i _ => ?_)
  simp [toFn]

/-- the matrix stored by rows -/
def matOf (A : Vector (Vector K n) n) : Matrix (Fin n) (Fin n) K := fun i j => A[i][j]
def linOf (A : Vector (Vector K n) n) : (Fin n → K) →ₗ[K] (Fin n → K) := Matrix.mulVecLin (matOf A)

theorem toFn_vmv (A : Vector (Vector K n) n) (x : Vector K n) : toFn (vmv A x) = linOf A (toFn x) := by
  funext i
  simp only [toFn, vmv, linOf, Matrix.mulVecLin_apply, Matrix.mulVec, dotProduct, matOf]
  rw [Fin.getElem_fin, Vector.getElem_map, vdot_eq]
  rfl

theorem matOf_vctrans (A : Vector (Vector K n) n) : matOf (vctrans (fun a => a) A) = (matOf A)ᵀ := by
  funext i j
  simp [matOf, vctrans, Matrix.transpose_apply]

section ordered
variable [LinearOrder K] [IsStrictOrderedRing K]

/-- the Euclidean form `Σ uᵢ vᵢ` on `Kⁿ` -/
def dotForm (K : Type) [Field K] [LinearOrder K] [IsStrictOrderedRing K] (n : Nat) : EForm K (Fin n → K) where
  a := LinearMap.mk₂ K (fun u v => ∑ i, u i * v i)
    (by intro u u' v; simp [add_mul, Finset.sum_add_distrib])
    (by intro c u v; simp [Finset.mul_sum, mul_assoc])
    (by intro u v v'; simp [mul_add, Finset.sum_add_distrib])
    (by intro c u v; simp [Finset.mul_sum, mul_left_comm])
  symm := by intro u v; simp [mul_comm]
  nonneg := by intro v; simp only [LinearMap.mk₂_apply]; exact Finset.sum_nonneg (fun i _ => mul_self_nonneg _)

@[simp] theorem dotForm_a (u v : Fin n → K) : (dotForm K n).a u v = ∑ i, u i * v i := rfl

theorem dotForm_def (v : Fin n → K) (h : (dotForm K n).a v v = 0) : v = 0 := by
  rw [dotForm_a] at h
  funext i
  have := (Finset.sum_eq_zero_iff_of_nonneg (fun i _ => mul_self_nonneg (v i))).mp h i (Finset.mem_univ i)
  simpa using this

theorem linOf_adj (A : Vector (Vector K n) n) :
    KSim.Adj (dotForm K n) (linOf A) (linOf (vctrans (fun a => a) A)) := by
  intro u v
  simp only [dotForm_a, linOf, Matrix.mulVecLin_apply, matOf_vctrans, Matrix.mulVec, dotProduct,
    Matrix.transpose_apply]
  simp only [Finset.sum_mul, Finset.mul_sum]
  rw [Finset.sum_comm]
  refine Finset.sum_congr rfl (fun i _ => Finset.sum_congr rfl (fun j _ => ?_))
  ring

/-- the module-level operations that `vecOps` is carried onto -/
def modOps (A M : Vector (Vector K n) n) : Ops K (Fin n → K) :=
  Ops.ofModule (linOf A) (linOf (vctrans (fun a => a) A)) (linOf M) (dotForm K n)

variable (A M : Vector (Vector K n) n) (b : Vector K n)

local notation "ov" => vecOps (fun (a : K) => a) A M
local notation "om" => modOps A M

theorem hom_add (u v : Vector K n) : toFn ((ov).add u v) = (om).add (toFn u) (toFn v) := toFn_add u v
theorem hom_sub (u v : Vector K n) : toFn ((ov).sub u v) = (om).sub (toFn u) (toFn v) := toFn_sub u v
theorem hom_smul (c : K) (v : Vector K n) : toFn ((ov).smul c v) = (om).smul c (toFn v) := toFn_smul c v
theorem hom_dot (u v : Vector K n) : (ov).dot u v = (om).dot (toFn u) (toFn v) := vdot_eq u v
theorem hom_A (v : Vector K n) : toFn ((ov).A v) = (om).A (toFn v) := toFn_vmv A v
theorem hom_AH (v : Vector K n) : toFn ((ov).AH v) = (om).AH (toFn v) := toFn_vmv _ v
theorem hom_M (v : Vector K n) : toFn ((ov).M v) = (om).M (toFn v) := toFn_vmv M v

/-! ### the states carried over -/
def mapCg (s : CgSt K (Vector K n)) : CgSt K (Fin n → K) := ⟨toFn s.x, toFn s.r, toFn s.z, toFn s.p, s.rz, s.it⟩
def mapCr (s : CrSt K (Vector K n)) : CrSt K (Fin n → K) :=
  ⟨toFn s.x, toFn s.r, toFn s.z, toFn s.p, toFn s.Ap, s.rAz, s.it⟩
def mapNe (s : NeSt K (Vector K n)) : NeSt K (Fin n → K) := ⟨toFn s.x, toFn s.r, toFn s.z, toFn s.p, s.zr, s.it⟩
def mapNr (s : NrSt K (Vector K n)) : NrSt K (Fin n → K) :=
  ⟨toFn s.x, toFn s.r, toFn s.rhat, toFn s.z, toFn s.p, s.zr, s.it⟩
def mapSd (s : SdSt K (Vector K n)) : SdSt K (Fin n → K) := ⟨toFn s.x, toFn s.r, toFn s.z, s.rz, s.it⟩
def mapMr (s : MrSt K (Vector K n)) : MrSt K (Fin n → K) := ⟨toFn s.x, toFn s.z, s.it⟩

theorem toFn_ite (c : Bool) (u v : Vector K n) : toFn (if c then u else v) = if c then toFn u else toFn v := by
  cases c <;> rfl

theorem cgInit_hom (x0 : Vector K n) : mapCg (cgInit ov b x0) = cgInit om (toFn b) (toFn x0) := by
  simp only [mapCg, cgInit, hom_sub, hom_A, hom_M, hom_dot]
theorem cgStep_hom (s : CgSt K (Vector K n)) : mapCg (cgStep ov b s) = cgStep om (toFn b) (mapCg s) := by
  simp only [mapCg, cgStep, toFn_ite, hom_add, hom_sub, hom_smul, hom_A, hom_M, hom_dot]
  rfl
theorem cg_iter_hom (x0 : Vector K n) (k : Nat) :
    mapCg (iter (cgStep ov b) k (cgInit ov b x0)) = iter (cgStep om (toFn b)) k (cgInit om (toFn b) (toFn x0)) := by
  induction k with
  | zero => exact cgInit_hom A M b x0
  | succ k ih => simp only [iter]; rw [cgStep_hom, ih]

theorem crInit_hom (x0 : Vector K n) : mapCr (crInit ov b x0) = crInit om (toFn b) (toFn x0) := by
  simp only [mapCr, crInit, hom_sub, hom_A, hom_M, hom_dot]
theorem crStep_hom (s : CrSt K (Vector K n)) : mapCr (crStep ov b s) = crStep om (toFn b) (mapCr s) := by
  simp only [mapCr, crStep, toFn_ite, hom_add, hom_sub, hom_smul, hom_A, hom_M, hom_dot]
  rfl
theorem cr_iter_hom (x0 : Vector K n) (k : Nat) :
    mapCr (iter (crStep ov b) k (crInit ov b x0)) = iter (crStep om (toFn b)) k (crInit om (toFn b) (toFn x0)) := by
  induction k with
  | zero => exact crInit_hom A M b x0
  | succ k ih => simp only [iter]; rw [crStep_hom, ih]

theorem cgneInit_hom (x0 : Vector K n) : mapNe (cgneInit ov b x0) = cgneInit om (toFn b) (toFn x0) := by
  simp only [mapNe, cgneInit, hom_sub, hom_A, hom_AH, hom_M, hom_dot]
theorem cgneStep_hom (s : NeSt K (Vector K n)) : mapNe (cgneStep ov b s) = cgneStep om (toFn b) (mapNe s) := by
  simp only [mapNe, cgneStep, toFn_ite, hom_add, hom_sub, hom_smul, hom_A, hom_AH, hom_M, hom_dot]
  rfl
theorem cgne_iter_hom (x0 : Vector K n) (k : Nat) :
    mapNe (iter (cgneStep ov b) k (cgneInit ov b x0)) = iter (cgneStep om (toFn b)) k (cgneInit om (toFn b) (toFn x0)) := by
  induction k with
  | zero => exact cgneInit_hom A M b x0
  | succ k ih => simp only [iter]; rw [cgneStep_hom, ih]

theorem cgnrInit_hom (x0 : Vector K n) : mapNr (cgnrInit ov b x0) = cgnrInit om (toFn b) (toFn x0) := by
  simp only [mapNr, cgnrInit, hom_sub, hom_A, hom_AH, hom_M, hom_dot]
theorem cgnrStep_hom (s : NrSt K (Vector K n)) : mapNr (cgnrStep ov b s) = cgnrStep om (toFn b) (mapNr s) := by
  simp only [mapNr, cgnrStep, toFn_ite, hom_add, hom_sub, hom_smul, hom_A, hom_AH, hom_M, hom_dot]
  rfl
theorem cgnr_iter_hom (x0 : Vector K n) (k : Nat) :
    mapNr (iter (cgnrStep ov b) k (cgnrInit ov b x0)) = iter (cgnrStep om (toFn b)) k (cgnrInit om (toFn b) (toFn x0)) := by
  induction k with
  | zero => exact cgnrInit_hom A M b x0
  | succ k ih => simp only [iter]; rw [cgnrStep_hom, ih]

theorem sdStep_hom (s : SdSt K (Vector K n)) : mapSd (sdStep ov b s) = sdStep om (toFn b) (mapSd s) := by
  simp only [mapSd, sdStep, toFn_ite, hom_add, hom_sub, hom_smul, hom_A, hom_M, hom_dot]
  rfl
theorem mrStep_hom (s : MrSt K (Vector K n)) : mapMr (mrStep ov b s) = mrStep om (toFn b) (mapMr s) := by
  simp only [mapMr, mrStep, toFn_ite, hom_add, hom_sub, hom_smul, hom_A, hom_M, hom_dot]
  rfl


/-! ### the theorems for the executable instance -/
section final
variable (x0 : Vector K n)

/-- the sequences the driver computes (op `c07_iter`) -/
def cgVec (k : Nat) : CgSt K (Vector K n) := iter (cgStep ov b) k (cgInit ov b x0)
def crVec (k : Nat) : CrSt K (Vector K n) := iter (crStep ov b) k (crInit ov b x0)
def cgneVec (k : Nat) : NeSt K (Vector K n) := iter (cgneStep ov b) k (cgneInit ov b x0)
def cgnrVec (k : Nat) : NrSt K (Vector K n) := iter (cgnrStep ov b) k (cgnrInit ov b x0)

/-- `dᵀ A d` and `dᵀ d`, computed with the operations of the executable model -/
def energyV (A : Vector (Vector K n) n) (d : Vector K n) : K := vdot (fun a => a) (vmv A d) d
def normSqV (d : Vector K n) : K := vdot (fun a => a) d d
def subV (u v : Vector K n) : Vector K n := Vector.zipWith (· - ·) u v

theorem energyV_eq (d : Vector K n) : energyV A d = PCG.enA (linOf A) (dotForm K n) (toFn d) := by
  unfold energyV PCG.enA; rw [vdot_eq, toFn_vmv]; rfl
theorem normSqV_eq (d : Vector K n) : normSqV d = (dotForm K n).en (toFn d) := by
  unfold normSqV EForm.en; rw [vdot_eq]; rfl
theorem toFn_subV (u v : Vector K n) : toFn (subV u v) = toFn u - toFn v := toFn_sub u v

def IsSymm (A : Vector (Vector K n) n) : Prop := ∀ i j : Fin n, A[i][j] = A[j][i]
def IsPD (A : Vector (Vector K n) n) : Prop := ∀ v : Fin n → K, v ≠ 0 → 0 < (dotForm K n).a (linOf A v) v

theorem linOf_symm {A : Vector (Vector K n) n} (h : IsSymm A) (u v : Fin n → K) :
    (dotForm K n).a (linOf A u) v = (dotForm K n).a u (linOf A v) := by
  have h1 : linOf (vctrans (fun a => a) A) = linOf A := by
    unfold linOf; rw [matOf_vctrans]; congr 1
    funext i j; simp only [Matrix.transpose_apply, matOf]; exact h j i
  have := linOf_adj A u v
  rw [h1] at this; exact this

theorem hyp_of {A M : Vector (Vector K n) n} (hA : IsSymm A) (hM : IsSymm M) (hpd : IsPD A) :
    PCG.Hyp (linOf A) (linOf M) (dotForm K n) where
  symA := linOf_symm hA
  symM := linOf_symm hM
  pd := by
    intro v h; by_contra hv
    have := hpd v hv; rw [h] at this; exact lt_irrefl _ this
  psd := by
    intro v
    by_cases hv : v = 0
    · subst hv; simp
    · exact le_of_lt (hpd v hv)

theorem cgVec_map (k : Nat) : mapCg (cgVec A M b x0 k) =
    cgSeq (linOf A) (linOf (vctrans (fun a => a) A)) (linOf M) (dotForm K n) (toFn b) (toFn x0) k :=
  cg_iter_hom A M b x0 k
theorem crVec_map (k : Nat) : mapCr (crVec A M b x0 k) =
    crSeq (linOf A) (linOf (vctrans (fun a => a) A)) (linOf M) (dotForm K n) (toFn b) (toFn x0) k :=
  cr_iter_hom A M b x0 k
theorem cgneVec_map (k : Nat) : mapNe (cgneVec A M b x0 k) =
    cgneSeq (linOf A) (linOf (vctrans (fun a => a) A)) (linOf M) (dotForm K n) (toFn b) (toFn x0) k :=
  cgne_iter_hom A M b x0 k
theorem cgnrVec_map (k : Nat) : mapNr (cgnrVec A M b x0 k) =
    cgnrSeq (linOf A) (linOf (vctrans (fun a => a) A)) (linOf M) (dotForm K n) (toFn b) (toFn x0) k :=
  cgnr_iter_hom A M b x0 k

/-- **C07, conjugate gradients, for the executable model**: `A`, `M` symmetric, `A` positive definite,
no breakdown before step `k` ⇒ the `k`-th iterate of the model of `_cg.py` lies in
`x₀ + K_k(MA, M r₀)` and minimises the energy norm of the error over it -/
theorem cg_vec_optimal (hA : IsSymm A) (hM : IsSymm M) (hpd : IsPD A) (xs : Vector K n)
    (hxs : vmv A xs = b) (k : Nat) (hnb : ∀ j, j < k → (cgVec A M b x0 j).rz ≠ 0) :
    toFn (cgVec A M b x0 k).x - toFn x0 ∈
      PCG.kry (linOf A) (linOf M) (dotForm K n) (toFn b) (toFn x0) k ∧
    ∀ y : Vector K n,
      toFn y - toFn x0 ∈ PCG.kry (linOf A) (linOf M) (dotForm K n) (toFn b) (toFn x0) k →
      energyV A (subV xs (cgVec A M b x0 k).x) ≤ energyV A (subV xs y) := by
  have hx : linOf A (toFn xs) = toFn b := by rw [← toFn_vmv, hxs]
  have hmap := fun j => cgVec_map A M b x0 j
  have h := cg_model_optimal (linOf A) (linOf (vctrans (fun a => a) A)) (linOf M) (dotForm K n)
    (toFn b) (toFn x0) (hyp_of hA hM hpd) (toFn xs) hx k
    (fun j hj => by rw [← hmap j]; exact hnb j hj)
  rw [← hmap k] at h
  refine ⟨h.1, fun y hy => ?_⟩
  rw [energyV_eq, energyV_eq, toFn_subV, toFn_subV]
  exact h.2 (toFn y) hy

/-- … the energy norm of the error is monotonically non-increasing along the iteration -/
theorem cg_vec_monotone (hA : IsSymm A) (hM : IsSymm M) (hpd : IsPD A) (xs : Vector K n)
    (hxs : vmv A xs = b) (k : Nat) (hnb : ∀ j, j < k + 1 → (cgVec A M b x0 j).rz ≠ 0) :
    energyV A (subV xs (cgVec A M b x0 (k+1)).x) ≤ energyV A (subV xs (cgVec A M b x0 k).x) := by
  have hx : linOf A (toFn xs) = toFn b := by rw [← toFn_vmv, hxs]
  have hmap := fun j => cgVec_map A M b x0 j
  have h := cg_model_monotone (linOf A) (linOf (vctrans (fun a => a) A)) (linOf M) (dotForm K n)
    (toFn b) (toFn x0) (hyp_of hA hM hpd) (toFn xs) hx k
    (fun j hj => by rw [← hmap j]; exact hnb j hj)
  rw [← hmap k, ← hmap (k+1)] at h
  rw [energyV_eq, energyV_eq, toFn_subV, toFn_subV]
  exact h

/-- … and an `n × n` system is solved in at most `n` steps (`M` positive definite) -/
theorem cg_vec_solves (hA : IsSymm A) (hM : IsSymm M) (hpd : IsPD A) (hMpd : IsPD M) :
    ∃ j, j ≤ n ∧ vmv A (cgVec A M b x0 j).x = b := by
  have hMdef : ∀ v, (dotForm K n).a v (linOf M v) = 0 → v = 0 := by
    intro v h; by_contra hv
    have := hMpd v hv; rw [(dotForm K n).symm, h] at this; exact lt_irrefl _ this
  obtain ⟨j, hj, h⟩ := cg_model_solves (linOf A) (linOf (vctrans (fun a => a) A)) (linOf M) (dotForm K n)
    (toFn b) (toFn x0) (hyp_of hA hM hpd) hMdef
  rw [Module.finrank_fin_fun] at hj
  refine ⟨j, hj, toFn_injective ?_⟩
  rw [toFn_vmv]
  rw [← cgVec_map A M b x0 j] at h
  exact h

/-- **CGNR, executable model**: `A` injective, `M` symmetric ⇒ the `k`-th iterate minimises the
2-norm of the residual over `x₀ + K_k(M AᵀA, M Aᵀ r₀)` -/
theorem cgnr_vec_optimal (hM : IsSymm M) (hinj : ∀ v : Fin n → K, linOf A v = 0 → v = 0)
    (xs : Vector K n) (hxs : vmv A xs = b) (k : Nat)
    (hnb : ∀ j, j < k → (cgnrVec A M b x0 j).zr ≠ 0) :
    let AT := linOf (vctrans (fun a => a) A)
    toFn (cgnrVec A M b x0 k).x - toFn x0 ∈
      PCG.kry (AT ∘ₗ linOf A) (linOf M) (dotForm K n) (AT (toFn b)) (toFn x0) k ∧
    ∀ y : Vector K n,
      toFn y - toFn x0 ∈ PCG.kry (AT ∘ₗ linOf A) (linOf M) (dotForm K n) (AT (toFn b)) (toFn x0) k →
      normSqV (subV b (vmv A (cgnrVec A M b x0 k).x)) ≤ normSqV (subV b (vmv A y)) := by
  intro AT
  have hx : linOf A (toFn xs) = toFn b := by rw [← toFn_vmv, hxs]
  have hmap := fun j => cgnrVec_map A M b x0 j
  have h := cgnr_model_optimal (linOf A) AT (linOf M) (dotForm K n) (toFn b) (toFn x0)
    (linOf_adj A) (linOf_symm hM) dotForm_def hinj (toFn xs) hx k
    (fun j hj => by rw [← hmap j]; exact hnb j hj)
  rw [← hmap k] at h
  refine ⟨h.1, fun y hy => ?_⟩
  rw [normSqV_eq, normSqV_eq, toFn_subV, toFn_subV, toFn_vmv, toFn_vmv]
  exact h.2 (toFn y) hy

/-- **CGNE, executable model**: `Aᵀ` injective, `M` symmetric ⇒ the `k`-th iterate minimises the
2-norm of the error `x* − x` (`x* = x₀ + Aᵀ y*`) over `x₀ + Aᵀ K_k(M A Aᵀ, M r₀)` -/
theorem cgne_vec_optimal (hM : IsSymm M)
    (hinj : ∀ v : Fin n → K, linOf (vctrans (fun a => a) A) v = 0 → v = 0)
    (ys : Fin n → K)
    (hys : linOf A (linOf (vctrans (fun a => a) A) ys) = toFn b - linOf A (toFn x0)) (k : Nat)
    (hnb : ∀ j, j < k → (cgneVec A M b x0 j).zr ≠ 0) :
    let AT := linOf (vctrans (fun a => a) A)
    ∀ y, y ∈ PCG.kry (linOf A ∘ₗ AT) (linOf M) (dotForm K n) (toFn b - linOf A (toFn x0)) 0 k →
      (dotForm K n).en ((toFn x0 + AT ys) - toFn (cgneVec A M b x0 k).x) ≤
        (dotForm K n).en ((toFn x0 + AT ys) - (toFn x0 + AT y)) := by
  intro AT
  have hmap := fun j => cgneVec_map A M b x0 j
  have h := cgne_model_optimal (linOf A) AT (linOf M) (dotForm K n) (toFn b) (toFn x0)
    (linOf_adj A) (linOf_symm hM) dotForm_def hinj ys hys k
    (fun j hj => by rw [← hmap j]; exact hnb j hj)
  rw [← hmap k] at h
  exact h

/-- the identity matrix as the driver receives it -/
def vone : Vector (Vector K n) n := Vector.ofFn (fun i => Vector.ofFn (fun j => if i = j then 1 else 0))

theorem linOf_vone : linOf (vone (K := K) (n := n)) = LinearMap.id := by
  have : matOf (vone (K := K) (n := n)) = 1 := by
    funext i j; simp [matOf, vone, Matrix.one_apply, Fin.ext_iff]
  unfold linOf; rw [this, Matrix.mulVecLin_one]

/-- **CR, executable model, no preconditioner** (`M` = identity matrix): `A` symmetric positive
definite ⇒ the `k`-th iterate minimises the 2-norm of the residual over `x₀ + K_k(A, r₀)` -/
theorem cr_vec_optimal (hA : IsSymm A) (hpd : IsPD A) (xs : Vector K n) (hxs : vmv A xs = b) (k : Nat)
    (hnb : ∀ j, j < k → (crVec A vone b x0 j).rAz ≠ 0) :
    ∃ E : EForm K (Fin n → K), (∀ u v, E.a u v = (dotForm K n).a (linOf A u) v) ∧
    toFn (crVec A vone b x0 k).x - toFn x0 ∈ PCG.kry (linOf A) LinearMap.id E (toFn b) (toFn x0) k ∧
    ∀ y : Vector K n, toFn y - toFn x0 ∈ PCG.kry (linOf A) LinearMap.id E (toFn b) (toFn x0) k →
      normSqV (subV b (vmv A (crVec A vone b x0 k).x)) ≤ normSqV (subV b (vmv A y)) := by
  have hx : linOf A (toFn xs) = toFn b := by rw [← toFn_vmv, hxs]
  have hs := linOf_symm hA
  have hp : ∀ v, 0 ≤ (dotForm K n).a (linOf A v) v := (hyp_of hA hA hpd).psd
  have hinj : ∀ v : Fin n → K, linOf A v = 0 → v = 0 := by
    intro v h; exact (hyp_of hA hA hpd).pd v (by rw [h]; simp)
  have hmap : ∀ j, mapCr (crVec A vone b x0 j) =
      crSeq (linOf A) (linOf (vctrans (fun a => a) A)) LinearMap.id (dotForm K n) (toFn b) (toFn x0) j := by
    intro j; rw [crVec_map, linOf_vone]
  have h := cr_model_optimal (linOf A) (linOf (vctrans (fun a => a) A)) (dotForm K n) (toFn b) (toFn x0)
    hs hp dotForm_def hinj (toFn xs) hx k (fun j hj => by rw [← hmap j]; exact hnb j hj)
  rw [← hmap k] at h
  refine ⟨KSim.aForm (linOf A) (dotForm K n) hs hp, fun u v => rfl, h.1, fun y hy => ?_⟩
  rw [normSqV_eq, normSqV_eq, toFn_subV, toFn_subV, toFn_vmv, toFn_vmv]
  exact h.2 (toFn y) hy

/-- **steepest descent, executable model**: from a consistent state (`r = b − A x`, `z = M r`,
`rz = ⟨r, z⟩`) one step of the model of `_steepest_descent.py` minimises the energy norm of the error
on the line `x + t z` -/
theorem sd_vec_step_optimal (hA : IsSymm A) (hpd : IsPD A) (xs : Vector K n) (hxs : vmv A xs = b)
    (s : SdSt K (Vector K n)) (hr : s.r = subV b (vmv A s.x)) (hrz : s.rz = vdot (fun a => a) s.r s.z)
    (hden : vdot (fun a => a) s.z (vmv A s.z) ≠ 0) (t : K) :
    energyV A (subV xs (sdStep ov b s).x) ≤
      energyV A (subV xs (Vector.zipWith (· + ·) s.x (s.z.map (t * ·)))) := by
  have hx : linOf A (toFn xs) = toFn b := by rw [← toFn_vmv, hxs]
  have h := sd_step_optimal (linOf A) (linOf (vctrans (fun a => a) A)) (linOf M) (dotForm K n) (toFn b)
    (linOf_symm hA) (hyp_of hA hA hpd).psd (toFn xs) hx (mapSd s)
    (by simp only [mapSd]; rw [hr, toFn_subV, toFn_vmv])
    (by simp only [mapSd]; rw [hrz, vdot_eq]; rfl)
    (by simp only [mapSd]; rw [vdot_eq, toFn_vmv] at hden; exact hden) t
  rw [energyV_eq, energyV_eq, toFn_subV, toFn_subV, toFn_add, toFn_smul]
  have e1 : toFn (sdStep ov b s).x = (sdStep om (toFn b) (mapSd s)).x := by
    rw [← sdStep_hom]; rfl
  rw [e1]
  exact h

/-- **minimal residual, executable model**: from a state with `z = M (b − A x)` one step of the model of
`_minimal_residual.py` minimises the 2-norm of the preconditioned residual on the line `x + t z` -/
theorem mr_vec_step_optimal (s : MrSt K (Vector K n)) (hz : s.z = vmv M (subV b (vmv A s.x)))
    (hden : vdot (fun a => a) (vmv M (vmv A s.z)) (vmv M (vmv A s.z)) ≠ 0) (t : K) :
    normSqV (vmv M (subV b (vmv A (mrStep ov b s).x))) ≤
      normSqV (vmv M (subV b (vmv A (Vector.zipWith (· + ·) s.x (s.z.map (t * ·)))))) := by
  have h := mr_step_optimal (linOf A) (linOf (vctrans (fun a => a) A)) (linOf M) (dotForm K n) (toFn b)
    (mapMr s)
    (by simp only [mapMr]; rw [hz, toFn_vmv, toFn_subV, toFn_vmv])
    (by simp only [mapMr]; rw [vdot_eq, toFn_vmv, toFn_vmv] at hden; exact hden) t
  rw [normSqV_eq, normSqV_eq, toFn_vmv, toFn_vmv, toFn_subV, toFn_subV, toFn_vmv, toFn_vmv, toFn_add, toFn_smul]
  have e1 : toFn (mrStep ov b s).x = (mrStep om (toFn b) (mapMr s)).x := by
    rw [← mrStep_hom]; rfl
  rw [e1]
  exact h

end final
end ordered

#print axioms cg_vec_optimal
#print axioms cg_vec_solves
#print axioms cgnr_vec_optimal
#print axioms cgne_vec_optimal
#print axioms cr_vec_optimal
#print axioms sd_vec_step_optimal
#print axioms mr_vec_step_optimal
end PyamgV.C07
