import PyamgV.Proofs.ExtC20SpectrumFE
import PyamgV.Model.ExtC20Spec

/-! PyamgV (C20, extension E21): over `K = Rat` the objects of the spectrum theorems are the executable twins
of `Model/ExtC20Spec.lean` (run by the driver against the real `poisson` matrices on the rational roots
`c = 0` (odd `n`) and `c = ±1/2` (`3 | n+1`) of `U_n`), and the spectrum theorems in that form. -/
namespace PyamgV.C20
open PyamgV.Stencil

theorem chebPair_eq (c : Rat) (n : Nat) : chebPair c n = (chebU c n, chebU c (n + 1)) := by
  induction n with
  | zero => rfl
  | succ n ih => simp only [chebPair, ih]; rfl

theorem chebUQ_eq (c : Rat) : chebUQ c = chebU c := by
  funext n; simp [chebUQ, chebPair_eq]

theorem tvecQ_eq : ∀ (grid : List Nat) (us : List (Nat → Rat)), tvecQ grid us = tvec grid us := by
  intro grid
  induction grid with
  | nil => intro us; funext p; cases us <;> rfl
  | cons g gs ih =>
    intro us
    cases us with
    | nil => funext p; rfl
    | cons u us =>
      funext p
      show u (p / prod gs) * tvecQ gs us (p % prod gs) = u (p / prod gs) * tvec gs us (p % prod gs)
      rw [ih us]

theorem foldl_add_eq_sum (l : List Rat) (a : Rat) : l.foldl (· + ·) a = a + l.sum := by
  induction l generalizing a with
  | nil => simp
  | cons x xs ih => simp only [List.foldl_cons, List.sum_cons, ih]; ring

theorem foldl_mul_eq_prod (l : List Rat) (a : Rat) : l.foldl (· * ·) a = a * l.prod := by
  induction l generalizing a with
  | nil => simp
  | cons x xs ih => simp only [List.foldl_cons, List.prod_cons, ih]; ring

/-- **closed-form spectrum, executable rational form** (FD and FE): for rational roots `c_i` of `U_{g_i}` the
driver-evaluated vector `tvecQ grid (cs.map chebUQ)` is an eigenvector of the model's Poisson matrix for the
driver-evaluated eigenvalue `eigQ fe cs` -/
theorem poisson_spectrum_rat (grid : List Nat) (fe : Bool) (cs : List Rat)
    (h : List.Forall₂ (fun g c => chebUQ c g = 0) grid cs) (p : Nat) (hp : p < prod grid) :
    rowdot (stencilGrid grid (poissonStencil fe grid.length)) (tvecQ grid (cs.map chebUQ)) p =
      eigQ fe cs * tvecQ grid (cs.map chebUQ) p := by
  have h' : List.Forall₂ (fun g c => chebU c g = 0) grid cs := by
    have e : (fun (g : Nat) (c : Rat) => chebUQ c g = 0) = fun g c => chebU c g = 0 := by
      funext g c; rw [chebUQ_eq]
    rw [e] at h; exact h
  have hlen : cs.length = grid.length := (List.Forall₂.length_eq h').symm
  have e1 : cs.map chebUQ = cs.map chebU := by
    apply List.map_congr_left; intro c _; exact chebUQ_eq c
  rw [e1, tvecQ_eq, ← rowdotK_rat]
  cases fe
  · have := poissonFD_spectrum grid cs h' p hp
    simp only [poissonStencil, eigQ, Bool.false_eq_true, if_false]
    rw [foldl_add_eq_sum, zero_add]
    exact this
  · have := poissonFE_spectrum grid cs h' p hp
    simp only [poissonStencil, eigQ, if_true]
    rw [foldl_mul_eq_prod, one_mul, hlen]
    exact this

/-- 1-D residual form on the model's matrix, executable: `(A v)_j = (2 - 2c) v_j + [j = n-1] U_n(c)` for
`v_j = U_j(c)` and EVERY rational `c` -/
theorem poisson1d_residual_rat (n : Nat) (c : Rat) (j : Nat) (hj : j < n) :
    rowdot (stencilGrid [n] (poissonFD 1)) (chebUQ c) j =
      (2 - 2 * c) * chebUQ c j + (if j + 1 = n then chebUQ c n else 0) := by
  rw [chebUQ_eq]
  have hT : ∀ t ∈ stencilGrid [n] (poissonFD 1), t.2.1 < n := by
    intro t ht
    have := (poissonFD_inrange [n] t ht).2
    simpa [prod] using this
  rw [rowdot_eq_mv n _ hT]
  have e : ∀ p q, p < n → q < n → entry (stencilGrid [n] (poissonFD 1)) p q = triR p q := by
    intro p q hp hq
    have := poissonFD_kron n [] p q 0 0 hp hq (by simp [prod]) (by simp [prod])
    have h0 : entry (stencilGrid [] (poissonFD 0)) 0 0 = 0 := by
      have := poisson_diag [] false 0 (by simp [prod])
      simpa [centre, poissonStencil] using this
    simp only [prod, List.foldl_nil, Nat.mul_one, Nat.add_zero, List.length_nil, Nat.zero_add, if_true, h0] at this
    rw [this, tri_eq_triR]
    split <;> simp
  have : mv n (entry (stencilGrid [n] (poissonFD 1))) (chebU c) j = mv n triR (chebU c) j := by
    unfold mv
    apply Finset.sum_congr rfl
    intro q hq
    rw [e j q hj (Finset.mem_range.1 hq)]
  rw [this, mv_triR_cheb n c j hj]

end PyamgV.C20
