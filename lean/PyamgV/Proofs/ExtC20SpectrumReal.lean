import PyamgV.Proofs.ExtC20SpectrumFE
import Mathlib.Analysis.SpecialFunctions.Trigonometric.Basic

/-! PyamgV (C20, extension E21): the algebraic spectrum statement of `ExtC20Spectrum` instantiated over the
reals: `U_j(cos θ) sin θ = sin((j+1) θ)`, so `c = cos(k π / (n+1))`, `1 ≤ k ≤ n`, are roots of `U_n`, and the
FD Poisson matrices of the model have the eigenvalues `Σ_i (2 - 2 cos(k_i π / (g_i + 1)))` documented for
`pyamg.gallery.poisson` (eigenvectors: products of `sin((j+1) k π / (n+1)) / sin(k π / (n+1))`). -/
namespace PyamgV.C20
open PyamgV.Stencil

theorem chebU_cos (θ : ℝ) (n : Nat) :
    chebU (Real.cos θ) n * Real.sin θ = Real.sin (((n : ℝ) + 1) * θ) ∧
      chebU (Real.cos θ) (n + 1) * Real.sin θ = Real.sin (((n : ℝ) + 2) * θ) := by
  induction n with
  | zero =>
    refine ⟨by simp [chebU], ?_⟩
    simp only [chebU, Nat.cast_zero, zero_add]
    rw [Real.sin_two_mul]; ring
  | succ n ih =>
    obtain ⟨h1, h2⟩ := ih
    refine ⟨by push_cast; rw [h2]; ring_nf, ?_⟩
    show (2 * Real.cos θ * chebU (Real.cos θ) (n + 1) - chebU (Real.cos θ) n) * Real.sin θ = _
    have e1 : ((((n + 1 : Nat) : ℝ)) + 2) * θ = ((n : ℝ) + 2) * θ + θ := by push_cast; ring
    have e2 : ((n : ℝ) + 1) * θ = ((n : ℝ) + 2) * θ - θ := by ring
    rw [sub_mul, mul_assoc, h2, h1, e1, e2, Real.sin_add, Real.sin_sub]
    ring

/-- `cos(k π / (n+1))`, `1 ≤ k ≤ n`, is a root of `U_n` -/
theorem chebU_root_cos (n k : Nat) (hk : 1 ≤ k) (hkn : k ≤ n) :
    chebU (Real.cos ((k : ℝ) * Real.pi / ((n : ℝ) + 1))) n = 0 := by
  have hn : (0 : ℝ) < (n : ℝ) + 1 := by positivity
  have h := (chebU_cos ((k : ℝ) * Real.pi / ((n : ℝ) + 1)) n).1
  have e : ((n : ℝ) + 1) * ((k : ℝ) * Real.pi / ((n : ℝ) + 1)) = (k : ℝ) * Real.pi := by
    field_simp
  rw [e, Real.sin_nat_mul_pi] at h
  have hpos : 0 < Real.sin ((k : ℝ) * Real.pi / ((n : ℝ) + 1)) := by
    apply Real.sin_pos_of_pos_of_lt_pi
    · have : (0 : ℝ) < k := by exact_mod_cast hk
      positivity
    · rw [div_lt_iff₀ hn]
      have : (k : ℝ) < (n : ℝ) + 1 := by exact_mod_cast Nat.lt_succ_of_le hkn
      nlinarith [Real.pi_pos]
  rcases mul_eq_zero.1 h with h0 | h0
  · exact h0
  · exact absurd h0 (ne_of_gt hpos)

/-- **1-D closed form over the reals**: `λ_k = 2 - 2 cos(k π / (n+1))`, `k = 1..n`, with eigenvector
`v_j = U_j(cos θ_k) = sin((j+1) θ_k) / sin θ_k` -/
theorem poisson1d_spectrum_real (n k : Nat) (hk : 1 ≤ k) (hkn : k ≤ n) (j : Nat) (hj : j < n) :
    rowdotK (stencilGrid [n] (poissonFD 1)) (chebU (Real.cos ((k : ℝ) * Real.pi / ((n : ℝ) + 1)))) j =
      (2 - 2 * Real.cos ((k : ℝ) * Real.pi / ((n : ℝ) + 1))) *
        chebU (Real.cos ((k : ℝ) * Real.pi / ((n : ℝ) + 1))) j :=
  poisson1d_spectrum n _ (chebU_root_cos n k hk hkn) j hj

/-- the angles `cos(k_i π / (g_i + 1))` of a multi-index `ks` -/
noncomputable def cosList (grid ks : List Nat) : List ℝ :=
  List.zipWith (fun g k => Real.cos ((k : ℝ) * Real.pi / ((g : ℝ) + 1))) grid ks

theorem cosList_roots (grid ks : List Nat) (h : List.Forall₂ (fun g k => 1 ≤ k ∧ k ≤ g) grid ks) :
    List.Forall₂ (fun g c => chebU c g = 0) grid (cosList grid ks) := by
  induction h with
  | nil => exact List.Forall₂.nil
  | cons h _ ih => exact List.Forall₂.cons (chebU_root_cos _ _ h.1 h.2) ih

/-- **N-D closed form over the reals** for the FD Poisson matrix of the `stencil_grid` model: for every
multi-index `1 ≤ k_i ≤ g_i` the eigenvalue `Σ_i (2 - 2 cos(k_i π / (g_i + 1)))` with the product eigenvector -/
theorem poissonFD_spectrum_real (grid ks : List Nat) (h : List.Forall₂ (fun g k => 1 ≤ k ∧ k ≤ g) grid ks)
    (p : Nat) (hp : p < prod grid) :
    rowdotK (stencilGrid grid (poissonFD grid.length)) (tvec grid ((cosList grid ks).map chebU)) p =
      ((cosList grid ks).map fun c => 2 - 2 * c).sum * tvec grid ((cosList grid ks).map chebU) p :=
  poissonFD_spectrum grid _ (cosList_roots grid ks h) p hp

/-- the same for the FE Poisson matrix: eigenvalue `3^N - Π_i (1 + 2 cos(k_i π / (g_i + 1)))` -/
theorem poissonFE_spectrum_real (grid ks : List Nat) (h : List.Forall₂ (fun g k => 1 ≤ k ∧ k ≤ g) grid ks)
    (p : Nat) (hp : p < prod grid) :
    rowdotK (stencilGrid grid (poissonFE grid.length)) (tvec grid ((cosList grid ks).map chebU)) p =
      ((3 : ℝ) ^ grid.length - ((cosList grid ks).map fun c => 1 + 2 * c).prod) *
        tvec grid ((cosList grid ks).map chebU) p :=
  poissonFE_spectrum grid _ (cosList_roots grid ks h) p hp

/-- the eigenvector entries in the familiar form: `U_j(cos θ) sin θ = sin((j+1) θ)` -/
theorem chebU_cos_sin (θ : ℝ) (j : Nat) : chebU (Real.cos θ) j * Real.sin θ = Real.sin (((j : ℝ) + 1) * θ) :=
  (chebU_cos θ j).1

end PyamgV.C20
