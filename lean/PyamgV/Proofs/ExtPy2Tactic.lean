import Lean
/-! PyamgV (extension E42): `kernel_rfl` closes a goal `a = b` with the proof term `Eq.refl a` WITHOUT asking the
elaborator to check that `a` and `b` are definitionally equal: the check is done by the kernel when the theorem is
added to the environment (exactly what `decide +kernel` does for decidable propositions).  Used for equations between
runs of generated definitions that contain universally quantified pass-through values (the elaborator's `rfl` cannot
evaluate string functions such as `String.toList`; the kernel can).  No axioms are involved; a false equation is
rejected by the kernel ("declaration type mismatch"). -/
namespace PyamgV.ExtPy2
open Lean Elab Tactic Meta

elab "kernel_rfl" : tactic => do
  let g ← getMainGoal
  let t ← instantiateMVars (← g.getType)
  match t.eq? with
  | some (_, a, _) => g.assign (← mkEqRefl a)
  | none => throwError "kernel_rfl: the goal is not an equation"

end PyamgV.ExtPy2
