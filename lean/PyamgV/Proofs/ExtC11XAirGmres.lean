import PyamgV.Proofs.ExtC11XGmresVec
import PyamgV.Proofs.C11Air
import Mathlib.Data.Rat.Cast.Defs

/-! PyamgV (C11, extension E49): the exact-solve hypothesis of the AIR row, discharged.

* `air_row_of_exact_solve` (over `Rat`): any exact solution `x` of the local system
  `Σ_j A[N_j, N_i] x_j = -A[c, N_i]` (the system `approx_ideal_restriction_pass2` assembles, whichever dense
  solver is used) passes `C11M.airCheck`: the row `N ↦ x, c ↦ 1` satisfies `(R A)[c, f] = 0` on `N`;
* `air_row_of_gmres`: the local system of the C-point `c`, with entries cast to an ordered field `K` with an
  exact square root, handed to the `dense_GMRES` model run to full length without breakdown: the assembled
  row satisfies `(R A)[c, f] = 0` on the neighbourhood — the `use_gmres = 1` path of the kernel in exact
  arithmetic. -/
namespace PyamgV.C11XG
open PyamgV PyamgV.N PyamgV.C11M PyamgV.C07 Finset

/-- the check of `airRow` passes on every exact solution of the local system -/
theorem air_row_of_exact_solve (A : Csr) (c : Nat) (nf : List Nat) (x : List Rat) (hl : x.length = nf.length)
    (hx : ∀ f ∈ nf, ((nf.zip x).map (fun kv => kv.2 * entry A kv.1 f)).sum = -(entry A c f)) :
    airCheck A c nf x = true ∧ ∀ f ∈ nf, raEntry A (airAssemble c nf x) f = 0 := by
  have h2 : ∀ f ∈ nf, raEntry A (airAssemble c nf x) f = 0 := by
    intro f hf
    rw [raEntry_eq, hx f hf]; ring
  refine ⟨?_, h2⟩
  unfold airCheck
  simp only [Bool.and_eq_true, beq_iff_eq, List.all_eq_true]
  exact ⟨hl, h2⟩

variable {K : Type} [Field K] [LinearOrder K] [IsStrictOrderedRing K]

/-- `(R A)[., f]` for a row with entries in `K` (`C11M.raEntry` with the matrix entries cast to `K`) -/
def raEntryK (A : Csr) (r : List (Nat × K)) (f : Nat) : K :=
  (r.map (fun cv => cv.2 * ((entry A cv.1 f : Rat) : K))).sum

/-- the local system of `approx_ideal_restriction_pass2` for the C-point `c` with neighbourhood `nf`, as
`dense_GMRES` indexes it (`A0` column-major): row `i`, column `j` is `A[N_j, N_i]`; `b_i = -A[c, N_i]` -/
def airLocal (A : Csr) (c : Nat) (nf : List Nat) :
    Vector (Vector K nf.length) nf.length × Vector K nf.length :=
  (Vector.ofFn (fun i : Fin nf.length => Vector.ofFn (fun j : Fin nf.length =>
      ((entry A (nf.getD j.val 0) (nf.getD i.val 0) : Rat) : K))),
   Vector.ofFn (fun i : Fin nf.length => -((entry A c (nf.getD i.val 0) : Rat) : K)))

theorem list_sum_range (f : Nat → K) : ∀ N, ((List.range N).map f).sum = ∑ i ∈ range N, f i
  | 0 => by simp
  | N+1 => by
    rw [List.range_succ, List.map_append, List.sum_append, list_sum_range f N, Finset.sum_range_succ]; simp

theorem zip_toList {n : Nat} (nf : List Nat) (hn : nf.length = n) (x : Vector K n) (g : Nat × K → K) :
    ((nf.zip x.toList).map g).sum = ∑ j : Fin n, g (nf.getD j.val 0, x[j]) := by
  have hz : nf.zip x.toList = (List.range n).map (fun i => (nf.getD i 0, x.toList.getD i 0)) := by
    apply List.ext_getElem
    · simp [hn]
    · intro i h1 h2
      have hi : i < n := by simpa using h2
      simp [List.getD_eq_getElem?_getD, List.getElem?_eq_getElem (show i < nf.length by omega), hi]
  rw [hz, List.map_map, list_sum_range, Finset.sum_range]
  refine Finset.sum_congr rfl (fun j _ => ?_)
  simp [List.getD_eq_getElem?_getD, j.2]

/-- a solution of the local system (entries in `K`) gives a row with `(R A)[c, f] = 0` on the neighbourhood -/
theorem air_row_of_solution (A : Csr) (c : Nat) (nf : List Nat) (x : Vector K nf.length)
    (hsolves : linOf (airLocal (K := K) A c nf).1 (toFn x) = toFn (airLocal (K := K) A c nf).2) :
    ∀ f ∈ nf, raEntryK A (nf.zip x.toList ++ [(c, 1)]) f = 0 := by
  intro f hf
  obtain ⟨i, hi, rfl⟩ := List.getElem_of_mem hf
  have h := congrFun hsolves ⟨i, hi⟩
  rw [linOf_apply] at h
  unfold airLocal at h
  simp only [toFn, Fin.getElem_fin, Vector.getElem_ofFn] at h
  unfold raEntryK
  rw [List.map_append, List.sum_append, zip_toList nf rfl x]
  simp only [List.map_cons, List.map_nil, List.sum_cons, List.sum_nil, add_zero, one_mul]
  rw [List.getD_eq_getElem nf 0 hi] at h
  simp only [Fin.getElem_fin] at h ⊢
  rw [Finset.sum_congr rfl (fun j _ => mul_comm _ _), h]
  ring

variable (sqrt : K → K) (tol : K) (hsq : ∀ a, 0 ≤ a → sqrt a * sqrt a = a) (hsq0 : ∀ a, 0 ≤ sqrt a)
  (htol : 0 < tol)

include hsq hsq0 htol in
/-- **the GMRES path of the AIR kernel in exact arithmetic**: the row assembled from the result of the
`dense_GMRES` model on the local system of the C-point `c`, run to full length without breakdown,
satisfies `(R A)[c, f] = 0` for every `f` of the neighbourhood -/
theorem air_row_of_gmres (A : Csr) (c : Nat) (nf : List Nat) (maxiter : Nat) (pc : Bool) (hn : 1 ≤ nf.length)
    (h : NoBreakdown (airLocal (K := K) A c nf).1 (airLocal (K := K) A c nf).2 sqrt tol maxiter pc) :
    ∀ f ∈ nf, raEntryK A (nf.zip (denseGmres sqrt (fun a => |a|) (smallK tol) isZ (airLocal (K := K) A c nf).1
        (airLocal (K := K) A c nf).2 maxiter pc).toList ++ [(c, 1)]) f = 0 :=
  air_row_of_solution A c nf _
    (denseGmres_exact (airLocal (K := K) A c nf).1 (airLocal (K := K) A c nf).2 sqrt tol hsq hsq0 htol maxiter pc hn h)

end PyamgV.C11XG
