import PyamgV.Model.C04Model
/-! PyamgV (C04): what `levelize_strength_or_aggregation` does to the limits. Core only. -/
namespace PyamgV.C04

/-- options without a `'predefined'` entry leave the user's limits alone -/
theorem levelize_plain (ml mc : Nat) :
    (levelize .plain ml mc).1 = ml ∧ (levelize .plain ml mc).2.1 = mc ∧
    ∀ len, (levelize (.listPlain len) ml mc).1 = ml ∧ (levelize (.listPlain len) ml mc).2.1 = mc := by
  refine ⟨rfl, rfl, fun _ => ⟨rfl, rfl⟩⟩

/-- a predefined list of `len` operators defines `len + 1` levels and switches `max_coarse` off
(documented: "to predefine a three-level hierarchy, use [two tuples]") -/
theorem levelize_predef (len ml mc : Nat) :
    levelize (.listPredef len) ml mc = (len + 1, 0, len) ∧ levelize .predefTuple ml mc = (2, 0, 1) :=
  ⟨rfl, rfl⟩

/-- after one `levelize` the list is long enough for every index `len(levels) - 1` the loop uses
(`len(levels) < max_levels'` inside the loop) -/
theorem levelize_index_safe (k : OptKind) (ml mc : Nat) :
    (levelize k ml mc).1 - 1 ≤ (levelize k ml mc).2.2 := by
  cases k with
  | plain => exact Nat.le_refl _
  | predefTuple => exact Nat.le_refl _
  | listPredef len => show len + 1 - 1 ≤ len; omega
  | listPlain len =>
    show ml - 1 ≤ max len (ml - 1)
    omega

/-- the limits used by the smoothed-aggregation / root-node loops when neither option is predefined -/
theorem effLimits_plain (ml mc : Nat) (a s : OptKind)
    (ha : a = .plain ∨ ∃ n, a = .listPlain n) (hs : s = .plain ∨ ∃ n, s = .listPlain n) :
    effLimits a s ml mc = (ml, mc) := by
  rcases ha with rfl | ⟨n, rfl⟩ <;> rcases hs with rfl | ⟨m, rfl⟩ <;> rfl

/-- a predefined aggregation list (levelized last) decides the limits whatever `strength` is -/
theorem effLimits_predef_aggregate (ml mc len : Nat) (s : OptKind) :
    effLimits (.listPredef len) s ml mc = (len + 1, 0) := by
  cases s <;> rfl

/-- a predefined strength list decides the limits when the aggregation is not predefined -/
theorem effLimits_predef_strength (ml mc len : Nat) (a : OptKind)
    (ha : a = .plain ∨ ∃ n, a = .listPlain n) :
    effLimits a (.listPredef len) ml mc = (len + 1, 0) := by
  rcases ha with rfl | ⟨n, rfl⟩ <;> rfl

def OptKind.isPredef : OptKind → Bool
  | .predefTuple => true
  | .listPredef _ => true
  | _ => false

/-- the levelized lists after the three calls `aggregate, strength, aggregate` -/
def levelized3 (a s : OptKind) (ml mc : Nat) : (Nat × Nat) × Nat × Nat :=
  let l1 := levelize a ml mc
  let l2 := levelize s l1.1 l1.2.1
  let l3 := levelize a l2.1 l2.2.1
  ((l3.1, l3.2.1), l2.2.2, l3.2.2)

/-- **no IndexError**: when at most one of `strength`, `aggregate` is predefined, after the calls
`aggregate, strength, aggregate` both levelized lists are long enough for every level index
`len(levels) - 1 ≤ max_levels' - 2` the loop uses (the defect fixed by 346a828 + 8ab2b56 was a
too short list here) -/
theorem levelized3_long_enough (a s : OptKind) (ml mc : Nat) (h : ¬ (a.isPredef = true ∧ s.isPredef = true)) :
    let r := levelized3 a s ml mc
    r.1.1 - 1 ≤ r.2.1 ∧ r.1.1 - 1 ≤ r.2.2 := by
  cases a <;> cases s <;> simp [OptKind.isPredef] at h <;> simp only [levelized3, levelize] <;>
    constructor <;> omega

theorem levelized3_limits (a s : OptKind) (ml mc : Nat) :
    (levelized3 a s ml mc).1 = effLimits a s ml mc := rfl

#print axioms levelize_index_safe
#print axioms effLimits_plain
end PyamgV.C04
