import PyamgV.Proofs.C07GmresBack
import PyamgV.Proofs.GmresGivens

/-! PyamgV (C07, GMRES with modified Gram–Schmidt, end to end): the iterate the executable model
`gmresStep` (`Model/C07Gmres.lean`) produces after `m < n` inner iterations — Arnoldi with modified
Gram–Schmidt, incremental Givens rotations, back substitution — minimises the 2-norm of the
*preconditioned* residual `M (b − A x)` over `x₀ + span{v_0 … v_{m-1}}` (the Arnoldi basis of
`K_m(MA, M r₀)`), over any ordered field with an exact square root, provided there is no breakdown
(all basis vectors non-zero, triangular factor non-singular): `gmres_mgs_model_optimal`. -/
namespace PyamgV.C07
open Finset

variable {K : Type} [Field K] [LinearOrder K] [IsStrictOrderedRing K]
variable {V : Type} [AddCommGroup V] [Module K V]

/-! ### list facts -/
theorem onz_pairwise (e : EForm K V) : ∀ (vs : List V), GS.ONZ e vs → ∀ i j, i < j → j < vs.length →
    e.a (vs.getD i 0) (vs.getD j 0) = 0
  | [], _, _, _, _, hj => by simp at hj
  | q :: qs, h, i, j, hij, hj => by
    obtain ⟨_, h2, h3⟩ := h
    cases j with
    | zero => omega
    | succ j =>
      cases i with
      | zero =>
        simp only [List.getD_cons_zero, List.getD_cons_succ]
        apply h2
        rw [List.getD_eq_getElem _ _ (by simpa using hj)]
        exact List.getElem_mem _
      | succ i =>
        simp only [List.getD_cons_succ]
        exact onz_pairwise e qs h3 i j (by omega) (by simpa using hj)

theorem onz_diag (e : EForm K V) : ∀ (vs : List V), GS.ONZ e vs → ∀ i, i < vs.length →
    e.a (vs.getD i 0) (vs.getD i 0) = 0 ∨ e.a (vs.getD i 0) (vs.getD i 0) = 1
  | [], _, _, hi => by simp at hi
  | q :: qs, h, i, hi => by
    cases i with
    | zero => exact h.1
    | succ i => simp only [List.getD_cons_succ]; exact onz_diag e qs h.2.2 i (by simpa using hi)

theorem comb_eq_sum : ∀ (c : List K) (vs : List V), c.length ≤ vs.length →
    GS.comb c vs = ∑ l ∈ range vs.length, F c l • vs.getD l 0
  | [], vs, _ => by simp [GS.comb, F]
  | a :: as, [], h => by simp at h
  | a :: as, q :: qs, h => by
    simp only [GS.comb, List.length_cons]
    rw [comb_eq_sum as qs (by simpa using h), Finset.sum_range_succ']
    simp only [F, List.getD_cons_succ, List.getD_cons_zero]
    abel

/-- rotations `p, p+1, …` do not touch the rows below `p` -/
theorem Q_low (c s : Nat → K) (p : Nat) (u : Nat → K) (l : Nat) (hl : l < p) :
    ∀ m, p ≤ m → Givens.Q c s m u l = Givens.Q c s p u l := by
  intro m hm
  induction m with
  | zero => have : p = 0 := by omega
            subst this; rfl
  | succ m ih =>
    by_cases hpm : p = m + 1
    · subst hpm; rfl
    · simp only [Givens.Q, Givens.rot]
      have h1 : ¬ l = m := by omega
      have h2 : ¬ l = m + 1 := by omega
      rw [if_neg h1, if_neg h2]
      exact ih (by omega)

variable (A AH M : V →ₗ[K] V) (e : EForm K V) (sqrt : K → K) (n : Nat) (b x0 : V)

/-- the iterate recorded by step `m` of the model -/
theorem gmSeq_xs_succ (m : Nat) (hl : (gmSeq A AH M e sqrt nzK n b x0 m).cols.length = m) :
    (gmSeq A AH M e sqrt nzK n b x0 (m+1)).xs = (gmSeq A AH M e sqrt nzK n b x0 m).xs ++
      [combO (Ops.ofModule A AH M e) x0
        (backSub (gmSeq A AH M e sqrt nzK n b x0 (m+1)).rcols (gmSeq A AH M e sqrt nzK n b x0 (m+1)).g (m+1) [])
        (gmSeq A AH M e sqrt nzK n b x0 m).vs] := by
  have hstep : gmSeq A AH M e sqrt nzK n b x0 (m+1) =
      gmresStep (Ops.ofModule A AH M e) sqrt posK nzK n x0 (gmSeq A AH M e sqrt nzK n b x0 m) := rfl
  rw [hstep]
  simp only [gmresStep, hl]

theorem gmSeq_vs_succ (m : Nat) :
    ∃ v, (gmSeq A AH M e sqrt nzK n b x0 (m+1)).vs = (gmSeq A AH M e sqrt nzK n b x0 m).vs ++ [v] := by
  have hstep : gmSeq A AH M e sqrt nzK n b x0 (m+1) =
      gmresStep (Ops.ofModule A AH M e) sqrt posK nzK n x0 (gmSeq A AH M e sqrt nzK n b x0 m) := rfl
  rw [hstep]
  exact ⟨_, rfl⟩

/-- **GMRES (MGS), executable model, end to end**: after `m+1 < n` inner iterations without breakdown the
recorded iterate `x₀ + Σ_j y_j v_j` minimises `‖M (b − A x)‖₂` over `x₀ + span{v_0 … v_m}` -/
theorem gmres_mgs_model_optimal (hdef : ∀ v, e.a v v = 0 → v = 0)
    (hsq : ∀ a, 0 ≤ a → sqrt a * sqrt a = a) (hsq0 : ∀ a, 0 ≤ sqrt a) (m : Nat) (hmn : m + 1 < n)
    (hbeta : sqrt (e.a (M (b - A x0)) (M (b - A x0))) ≠ 0)
    (hnbv : ∀ i, i ≤ m + 1 →
      e.a ((gmSeq A AH M e sqrt nzK n b x0 (m+1)).vs.getD i 0) ((gmSeq A AH M e sqrt nzK n b x0 (m+1)).vs.getD i 0) ≠ 0)
    (hnbr : ∀ i, i < m + 1 → Rent (gmSeq A AH M e sqrt nzK n b x0 (m+1)).rcols i i ≠ 0) :
    ∃ xk, (gmSeq A AH M e sqrt nzK n b x0 (m+1)).xs.getLast? = some xk ∧
      xk - x0 ∈ Submodule.span K
          (Set.range (fun j : Fin (m+1) => (gmSeq A AH M e sqrt nzK n b x0 (m+1)).vs.getD j 0)) ∧
      ∀ x', x' - x0 ∈ Submodule.span K
          (Set.range (fun j : Fin (m+1) => (gmSeq A AH M e sqrt nzK n b x0 (m+1)).vs.getD j 0)) →
        e.en (M b - (M ∘ₗ A) xk) ≤ e.en (M b - (M ∘ₗ A) x') := by
  set s := gmSeq A AH M e sqrt nzK n b x0 (m+1) with hs
  set β := sqrt (e.a (M (b - A x0)) (M (b - A x0))) with hβ
  have hA := gmres_model_arnoldi A AH M e sqrt nzK n b x0 hdef hsq hsq0 (m+1)
  have hG := givInv_all A AH M e sqrt n b x0 hsq (m+1)
  rw [← hs] at hA hG
  rw [← hβ] at hG
  set k := m + 1 with hk
  -- the Arnoldi data
  have horth : ∀ i j : Fin (k+1), e.a (s.vs.getD i 0) (s.vs.getD j 0) = if i = j then 1 else 0 := by
    intro i j
    by_cases hij : i = j
    · subst hij
      rw [if_pos rfl]
      rcases onz_diag e s.vs hA.onz i (by rw [hG.lvs]; exact i.2) with h | h
      · exact absurd h (hnbv i (by have := i.2; omega))
      · exact h
    · rw [if_neg hij]
      rcases Nat.lt_or_gt_of_ne (fun h => hij (Fin.ext h)) with h | h
      · exact onz_pairwise e s.vs hA.onz i j h (by rw [hG.lvs]; exact j.2)
      · rw [e.symm]; exact onz_pairwise e s.vs hA.onz j i h (by rw [hG.lvs]; exact i.2)
  let Ar : Gmres.Arnoldi e (M ∘ₗ A) k :=
    { v := fun i => s.vs.getD i 0
      z := fun j => s.vs.getD j 0
      H := fun l j => F (s.cols.getD j []) l
      orth := horth
      rel := by
        intro j
        have hj : (j : Nat) < s.cols.length := by rw [hG.lcols]; exact j.2
        rw [hA.rel j hj, comb_eq_sum _ _ (hA.clen j hj), hG.lvs]
        rw [← Fin.sum_univ_eq_sum_range (fun l => F (s.cols.getD j []) l • s.vs.getD l 0) (k+1)] }
  have hfun : ∀ j, Gmres.hfun Ar j = F (s.cols.getD j []) := by
    intro j
    funext l
    unfold Gmres.hfun
    by_cases hl : l < k + 1
    · rw [dif_pos hl]
      by_cases hj : j < k
      · rw [dif_pos hj]
      · rw [dif_neg hj]
        have : s.cols.getD j [] = [] := by
          rw [List.getD_eq_getElem?_getD, List.getElem?_eq_none (by rw [hG.lcols]; omega)]; rfl
        rw [this]; simp [F]
    · rw [dif_neg hl]
      by_cases hj : j < k
      · have := hG.collen j hj
        simp only [F]
        rw [List.getD_eq_getElem?_getD, List.getElem?_eq_none (by omega)]; rfl
      · have : s.cols.getD j [] = [] := by
          rw [List.getD_eq_getElem?_getD, List.getElem?_eq_none (by rw [hG.lcols]; omega)]; rfl
        rw [this]; simp [F]
  have hhess : ∀ j l, j + 1 < l → Gmres.hfun Ar j l = 0 := by
    intro j l hjl
    rw [hfun]
    by_cases hj : j < k
    · have := hG.collen j hj
      simp only [F]
      rw [List.getD_eq_getElem?_getD, List.getElem?_eq_none (by omega)]; rfl
    · have : s.cols.getD j [] = [] := by
        rw [List.getD_eq_getElem?_getD, List.getElem?_eq_none (by rw [hG.lcols]; omega)]; rfl
      rw [this]; simp [F]
  have hzero : ∀ j, j < k → Givens.rot j (F s.cs j) (F s.sn j)
      (Givens.Q (F s.cs) (F s.sn) j (Gmres.hfun Ar j)) (j+1) = 0 := by
    intro j hj; rw [hfun]; exact hG.zero j hj (by omega)
  -- the solved triangular system
  set y := backSub s.rcols s.g k [] with hy
  let S : Givens.Sweep K k := ⟨Gmres.hfun Ar, F s.cs, F s.sn, hhess, hG.unit, hzero⟩
  have hsolve : ∀ l, l < k → ∑ i ∈ range k, F y i * Givens.Q (F s.cs) (F s.sn) k (Gmres.hfun Ar i) l =
      Givens.Q (F s.cs) (F s.sn) k (fun r => if r = 0 then β else 0) l := by
    intro l hl
    rw [← hG.g]
    have hrows := backSub_rows s.rcols s.g (by rw [hG.lrcols]; exact hnbr) k [] (by rw [hG.lrcols])
      (by rw [hG.lrcols]; simp) l hl
    rw [hrows, hG.lrcols, ← hy]
    rw [← Finset.sum_range_add_sum_Ico _ (le_of_lt hl), Finset.sum_Ico_eq_sum_range]
    have hlow : ∑ i ∈ range l, F y i * Givens.Q (F s.cs) (F s.sn) k (Gmres.hfun Ar i) l = 0 := by
      apply Finset.sum_eq_zero
      intro i hi
      have hil : i < l := Finset.mem_range.mp hi
      have := Givens.col_upper S i (by omega) l hil
      simp only [S] at this
      rw [this, mul_zero]
    rw [hlow, zero_add]
    refine Finset.sum_congr rfl (fun d _ => ?_)
    have hd : l + d < k ∨ k ≤ l + d := by omega
    rw [Q_low (F s.cs) (F s.sn) (l + d + 1) _ l (by omega) k (by
      have : d < k - l := by
        rename_i hd'; exact Finset.mem_range.mp hd'
      omega)]
    rw [hfun]
    have hld : l + d < k := by
      rename_i hd'; have := Finset.mem_range.mp hd'; omega
    rw [← hG.rc (l + d) hld]
    simp only [Rent, F]
    ring
  -- the iterate
  have hcl : (gmSeq A AH M e sqrt nzK n b x0 m).cols.length = m :=
    (givInv_all A AH M e sqrt n b x0 hsq m).lcols
  have hxs := gmSeq_xs_succ A AH M e sqrt n b x0 m hcl
  rw [← hs] at hxs
  obtain ⟨vnew, hvs⟩ := gmSeq_vs_succ A AH M e sqrt n b x0 m
  rw [← hs] at hvs
  have hlvm : (gmSeq A AH M e sqrt nzK n b x0 m).vs.length = m + 1 :=
    (givInv_all A AH M e sqrt n b x0 hsq m).lvs
  have hylen : y.length = k := by
    obtain ⟨pre, hl, he⟩ := backSub_suffix s.rcols s.g k []
    rw [hy, he]; simp [hl]
  refine ⟨combO (Ops.ofModule A AH M e) x0 y (gmSeq A AH M e sqrt nzK n b x0 m).vs, ?_, ?_⟩
  · rw [hxs, List.getLast?_append]; rfl
  rw [combO_eq A AH M e y _ x0 (by rw [hylen, hlvm])]
  suffices hmain : (x0 + ∑ j ∈ range y.length, F y j • (gmSeq A AH M e sqrt nzK n b x0 m).vs.getD j 0) - x0 ∈
      Submodule.span K (Set.range (fun j : Fin k => s.vs.getD j 0)) ∧
      ∀ x', x' - x0 ∈ Submodule.span K (Set.range (fun j : Fin k => s.vs.getD j 0)) →
        e.en (M b - (M ∘ₗ A) (x0 + ∑ j ∈ range y.length, F y j • (gmSeq A AH M e sqrt nzK n b x0 m).vs.getD j 0)) ≤
          e.en (M b - (M ∘ₗ A) x') from hmain
  have hsum : ∑ j ∈ range y.length, F y j • (gmSeq A AH M e sqrt nzK n b x0 m).vs.getD j 0 =
      ∑ j : Fin k, F y j • Ar.z j := by
    rw [hylen, ← Fin.sum_univ_eq_sum_range (fun j => F y j • (gmSeq A AH M e sqrt nzK n b x0 m).vs.getD j 0) k]
    refine Finset.sum_congr rfl (fun j _ => ?_)
    show F y j • (gmSeq A AH M e sqrt nzK n b x0 m).vs.getD j 0 = F y j • s.vs.getD j 0
    rw [hvs, getD_append_lt _ _ _ _ (by rw [hlvm]; exact j.2)]
  rw [hsum]
  refine ⟨by
    rw [add_sub_cancel_left]
    exact Submodule.sum_mem _ (fun j _ => Submodule.smul_mem _ _ (Submodule.subset_span ⟨j, rfl⟩)), ?_⟩
  have hr0 : M b - (M ∘ₗ A) x0 = β • Ar.v 0 := by
    show M b - (M ∘ₗ A) x0 = β • s.vs.getD ((0 : Fin (k+1)) : Nat) 0
    have h0 : s.vs.getD ((0 : Fin (k+1)) : Nat) 0 = (gmSeq A AH M e sqrt nzK n b x0 0).vs.getD 0 0 := by
      have : ∀ j, (gmSeq A AH M e sqrt nzK n b x0 j).vs.getD 0 0 =
          (gmSeq A AH M e sqrt nzK n b x0 0).vs.getD 0 0 := by
        intro j
        induction j with
        | zero => rfl
        | succ j ih =>
          obtain ⟨w, hw⟩ := gmSeq_vs_succ A AH M e sqrt n b x0 j
          rw [hw, getD_append_lt _ _ _ _ (by
            rw [(givInv_all A AH M e sqrt n b x0 hsq j).lvs]; omega), ih]
      exact this (m+1)
    rw [h0]
    simp only [gmSeq, iter, gmresInit, Ops.ofModule, List.getD_cons_zero]
    rw [smul_smul, LinearMap.comp_apply, ← map_sub]
    rw [mul_one_div_cancel hbeta, one_smul]
  exact Gmres.gmres_optimal_of_givens Ar β (M b) x0 hr0 (F s.cs) (F s.sn) (F y) hhess hG.unit hzero hsolve

#print axioms gmres_mgs_model_optimal
end PyamgV.C07
