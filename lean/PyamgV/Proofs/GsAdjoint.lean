import PyamgV.Proofs.GsSweep
import PyamgV.Proofs.Herm

/-! PyamgV (C03/C05): a Gauss–Seidel sweep is a linear iteration `x + M (b − A x)`, and the sweep
in reversed row order is its adjoint — the fact the `symmetric_smoothing` flag relies on for
(forward, backward) pairs. -/
namespace PyamgV
open Finset

variable {K : Type*} [Field K] [LinearOrder K] [IsStrictOrderedRing K] [DecidableEq K]

/-- operator of one row update: `r ↦ (r_i / d) e_i` -/
def rowQ (i : Nat) (d : K) : (Nat → K) →ₗ[K] (Nat → K) where
  toFun r := (r i / d) • Pi.single i 1
  map_add' u v := by simp [add_div, add_smul]
  map_smul' c u := by simp [mul_div_assoc, mul_smul]

theorem gsRow_isLinIter (n : Nat) (rows : Nat → Row K) (i : Nat) (hi : i < n) (d : K)
    (hd : HasDiag i (rows i) d) (hd0 : d ≠ 0) :
    IsLinIter (csrOp n rows) (fun x b => gsRowFn i (rows i) b x) (rowQ i d) := by
  intro x b
  obtain ⟨h1, h2⟩ := rowScan_spec i (rows i) x (0, 0)
  have hdiag : (rowScan i (rows i) x).2 = d := by
    unfold rowScan; rw [h2]; unfold HasDiag at hd; rw [hd]; simp
  have hrs : (rowScan i (rows i) x).1 =
      (((rows i).filter (fun cv => cv.1 ≠ i)).map (fun cv => cv.2 * x cv.1)).sum := by
    unfold rowScan; rw [h1]; simp
  show gsRowFn i (rows i) b x = x + rowQ i d (b - csrOp n rows x)
  unfold gsRowFn
  rw [show rowScan i (rows i) x = ((rowScan i (rows i) x).1, (rowScan i (rows i) x).2) from rfl]
  simp only [hdiag, hd0, if_false]
  funext j
  simp only [rowQ, LinearMap.coe_mk, AddHom.coe_mk, Pi.add_apply, Pi.smul_apply, Pi.sub_apply,
    smul_eq_mul, csrOp_apply n rows x i hi]
  by_cases hj : j = i
  · subst hj
    rw [Function.update_self, hrs, rowDot_split j (rows j) x d hd]
    simp only [Pi.single_eq_same]
    field_simp
    ring
  · rw [Function.update_of_ne hj]; simp [Pi.single_apply, hj]

theorem rowQ_selfadj (n i : Nat) (hi : i < n) (d : K) :
    IsAdj (euc K n) (euc K n) (rowQ i d) (rowQ i d) := by
  intro u v
  simp only [rowQ, LinearMap.coe_mk, AddHom.coe_mk]
  rw [(euc K n).symm, euc_single n i hi, euc_single n i hi]; ring

/-- operator of a sweep over the rows in `order` (first row first) -/
def sweepOp (A : (Nat → K) →ₗ[K] (Nat → K)) (diag : Nat → K) : List Nat → ((Nat → K) →ₗ[K] (Nat → K))
  | [] => 0
  | i :: rest => compM A (rowQ i (diag i)) (sweepOp A diag rest)

theorem isLinIter_id (A : (Nat → K) →ₗ[K] (Nat → K)) : IsLinIter A (fun x _ => x) 0 := by
  intro x b; simp

theorem gsSweep_isLinIter (n : Nat) (rows : Nat → Row K) (diag : Nat → K)
    (hdiag : ∀ i, i < n → HasDiag i (rows i) (diag i) ∧ diag i ≠ 0) :
    ∀ (order : List Nat), (∀ i ∈ order, i < n) →
      IsLinIter (csrOp n rows) (fun x b => gsSweepFn rows b order x) (sweepOp (csrOp n rows) diag order) := by
  intro order
  induction order with
  | nil => intro _; simpa [gsSweepFn, sweepOp] using isLinIter_id (csrOp n rows)
  | cons i rest ih =>
    intro h
    have hi := h i (by simp)
    have h1 := gsRow_isLinIter n rows i hi (diag i) (hdiag i hi).1 (hdiag i hi).2
    have h2 := ih (fun j hj => h j (by simp [hj]))
    have := h1.comp h2
    simpa [gsSweepFn, sweepOp] using this

/-- compM with reversed order: appending a row at the end -/
theorem sweepOp_append (A : (Nat → K) →ₗ[K] (Nat → K)) (diag : Nat → K) (l : List Nat) (i : Nat) :
    sweepOp A diag (l ++ [i]) = compM A (sweepOp A diag l) (rowQ i (diag i)) := by
  induction l with
  | nil =>
    simp only [List.nil_append, sweepOp, compM]
    ext x j; simp
  | cons a l ih =>
    simp only [List.cons_append, sweepOp, ih, compM]
    ext x j
    simp only [LinearMap.add_apply, LinearMap.sub_apply, LinearMap.comp_apply, map_add, map_sub,
      Pi.add_apply, Pi.sub_apply]
    ring

/-- **the backward sweep is the adjoint of the forward sweep** (A symmetric) -/
theorem sweepOp_reverse_adj (n : Nat) (A : (Nat → K) →ₗ[K] (Nat → K)) (diag : Nat → K)
    (hA : IsAdj (euc K n) (euc K n) A A) :
    ∀ (order : List Nat), (∀ i ∈ order, i < n) →
      IsAdj (euc K n) (euc K n) (sweepOp A diag order) (sweepOp A diag order.reverse) := by
  intro order
  induction order with
  | nil => intro _; intro u v; simp [sweepOp]
  | cons i rest ih =>
    intro h
    have hi := h i (by simp)
    have h2 := ih (fun j hj => h j (by simp [hj]))
    rw [List.reverse_cons, sweepOp_append]
    exact IsAdj.compM hA (rowQ_selfadj n i hi (diag i)) h2

#print axioms gsSweep_isLinIter
#print axioms sweepOp_reverse_adj
end PyamgV
