import PyamgV.Proofs.ExtC02XBlockCycle
import PyamgV.Proofs.C02Example
import Mathlib.Tactic.NormNum
import Mathlib.Tactic.IntervalCases

/-! PyamgV (extension E35, property C02): a concrete two-level hierarchy with a **BSR level and block smoothers** over
ℚ -- the 4-point Poisson matrix in `2 × 2` blocks, piecewise-constant interpolation over the two blocks, `R = Pᵀ`,
exact Galerkin matrix `[[2,−1],[−1,2]]`, a forward block Gauss-Seidel pre-smoothing sweep and two block Jacobi(ω = 1)
post-smoothing steps with the exact inverse diagonal blocks `(1/3)[[2,1],[1,2]]`, exact coarse solve -- satisfies every
hypothesis of `bmodel_cycle_nonexp`. -/
set_option linter.unusedSectionVars false
set_option linter.unusedVariables false
namespace PyamgV.C02X.BEx
open PyamgV PyamgV.K PyamgV.C02X PyamgV.ExtC09 Finset

def Ad4 : C02.Dense ℚ := #[#[2, -1, 0, 0], #[-1, 2, -1, 0], #[0, -1, 2, -1], #[0, 0, -1, 2]]
def Ac2 : C02.Dense ℚ := #[#[2, -1], #[-1, 2]]
def P4 : K.Csr ℚ := ⟨4, #[0, 1, 2, 3, 4], #[0, 0, 1, 1], #[1, 1, 1, 1]⟩
def R4 : K.Csr ℚ := ⟨2, #[0, 2, 4], #[0, 1, 2, 3], #[1, 1, 1, 1]⟩
def Dinv4 : Array ℚ := #[2/3, 1/3, 1/3, 2/3, 2/3, 1/3, 1/3, 2/3]
def L4 : BLvl ℚ := ⟨Ad4, 4, P4, R4, .bgs 2 Dinv4 .forward 1, .bjac 2 Dinv4 1 2⟩

def solveArr (b : Array ℚ) : Array ℚ :=
  #[2/3 * K.rd b 0 + 1/3 * K.rd b 1, 1/3 * K.rd b 0 + 2/3 * K.rd b 1]
def solveF (g : Nat → ℚ) : Nat → ℚ := fun i =>
  if i = 0 then 2/3 * g 0 + 1/3 * g 1 else if i = 1 then 1/3 * g 0 + 2/3 * g 1 else 0

theorem rowP0 : rowOf P4 0 = [(0, 1)] := by decide +kernel
theorem rowP1 : rowOf P4 1 = [(0, 1)] := by decide +kernel
theorem rowP2 : rowOf P4 2 = [(1, 1)] := by decide +kernel
theorem rowP3 : rowOf P4 3 = [(1, 1)] := by decide +kernel
theorem rowR0 : rowOf R4 0 = [(0, 1), (1, 1)] := by decide +kernel
theorem rowR1 : rowOf R4 1 = [(2, 1), (3, 1)] := by decide +kernel

theorem csr4 (rows : Nat → Row ℚ) (u : Nat → ℚ) (i : Nat) :
    csrOp 4 rows u i = if i = 0 then rowDot (rows 0) u else if i = 1 then rowDot (rows 1) u
      else if i = 2 then rowDot (rows 2) u else if i = 3 then rowDot (rows 3) u else 0 := by
  rcases i with _ | _ | _ | _ | i <;> simp [csrOp]

theorem opA (u : Nat → ℚ) (i : Nat) :
    denseOp Ad4 4 4 u i = if i = 0 then 2 * u 0 - u 1 else if i = 1 then - u 0 + 2 * u 1 - u 2
      else if i = 2 then - u 1 + 2 * u 2 - u 3 else if i = 3 then - u 2 + 2 * u 3 else 0 := by
  rcases i with _ | _ | _ | _ | i <;>
    simp [denseOp, Finset.sum_range_succ, C02.rdD, K.rd, Ad4] <;> ring

theorem opAc (u : Nat → ℚ) (i : Nat) :
    denseOp Ac2 2 2 u i = if i = 0 then 2 * u 0 - u 1 else if i = 1 then - u 0 + 2 * u 1 else 0 := by
  rcases i with _ | _ | i <;>
    simp [denseOp, Finset.sum_range_succ, C02.rdD, K.rd, Ac2] <;> ring

theorem opP (u : Nat → ℚ) (i : Nat) :
    csrOp 4 (rowOf P4) u i = if i = 0 then u 0 else if i = 1 then u 0 else if i = 2 then u 1
      else if i = 3 then u 1 else 0 := by
  rw [csr4, rowP0, rowP1, rowP2, rowP3]
  rcases i with _ | _ | _ | _ | i <;> simp [rowDot]

theorem opR (u : Nat → ℚ) (i : Nat) :
    csrOp 2 (rowOf R4) u i = if i = 0 then u 0 + u 1 else if i = 1 then u 2 + u 3 else 0 := by
  rw [C02Ex.csr2, rowR0, rowR1]
  rcases i with _ | _ | i <;> simp [rowDot]

theorem adjPR : IsAdj (euc ℚ 4) (euc ℚ 2) (csrOp 4 (rowOf P4)) (csrOp 2 (rowOf R4)) := by
  intro u v
  simp only [euc_apply, Finset.sum_range_succ, Finset.sum_range_zero, opP, opR]
  simp
  ring

theorem galerkin4 :
    denseOp Ac2 2 2 = csrOp 2 (rowOf R4) ∘ₗ denseOp Ad4 4 4 ∘ₗ csrOp 4 (rowOf P4) := by
  apply LinearMap.ext; intro u; funext i
  simp only [LinearMap.comp_apply, opAc, opR, opA, opP]
  rcases i with _ | _ | i <;> simp <;> ring

theorem symA : IsAdj (euc ℚ 4) (euc ℚ 4) (denseOp Ad4 4 4) (denseOp Ad4 4 4) := by
  intro u v
  simp only [euc_apply, Finset.sum_range_succ, Finset.sum_range_zero, opA]
  simp
  ring

theorem psdA : ∀ v, 0 ≤ (euc ℚ 4).a (denseOp Ad4 4 4 v) v := by
  intro v
  simp only [euc_apply, Finset.sum_range_succ, Finset.sum_range_zero, opA]
  simp
  nlinarith [sq_nonneg (v 0), sq_nonneg (v 0 - v 1), sq_nonneg (v 1 - v 2), sq_nonneg (v 2 - v 3), sq_nonneg (v 3)]

theorem solve_ok : ∀ b : Array ℚ, b.size = 2 →
    (solveArr b).size = 2 ∧ fn (solveArr b) = solveF (fn b) := by
  intro b _
  refine ⟨rfl, ?_⟩
  funext i
  rcases i with _ | _ | i <;> simp [solveArr, solveF, fn, K.rd]

theorem shaped4 : BShaped 2 (nextAd Ac2 2 [L4]).2 [L4] := ⟨rfl, rfl, rfl, rfl⟩

/-- entries of the diagonal blocks of the BSR copy and of the stored inverses -/
theorem diagBlk4 (i l m : Nat) (hi : i < 2) (hl : l < 2) (hm : m < 2) :
    diagBlk (bsrOfDense Ad4 2 2) i l m = if l = m then 2 else -1 := by
  interval_cases i <;> interval_cases l <;> interval_cases m <;> decide +kernel

theorem dinvAt4 (i k l : Nat) (hi : i < 2) (hk : k < 2) (hl : l < 2) :
    dinvAt 2 Dinv4 i k l = if k = l then 2/3 else 1/3 := by
  interval_cases i <;> interval_cases k <;> interval_cases l <;> decide +kernel

theorem rightInv4 : ∀ i, i < 2 → RightInv (bsrOfDense Ad4 2 2) Dinv4 i := by
  intro i hi l hl l' hl'
  have hl2 : l < 2 := hl
  have hl2' : l' < 2 := hl'
  show ∑ m ∈ range 2, diagBlk (bsrOfDense Ad4 2 2) i l m * dinvAt 2 Dinv4 i m l' = _
  rw [Finset.sum_range_succ, Finset.sum_range_succ, Finset.sum_range_zero,
    diagBlk4 i l 0 hi hl2 (by omega), diagBlk4 i l 1 hi hl2 (by omega),
    dinvAt4 i 0 l' hi (by omega) hl2', dinvAt4 i 1 l' hi (by omega) hl2']
  interval_cases l <;> interval_cases l' <;> norm_num

theorem leftInv4 : ∀ i, i < 2 → LeftInv (bsrOfDense Ad4 2 2) Dinv4 i := by
  intro i hi k hk m hm
  have hk2 : k < 2 := hk
  have hm2 : m < 2 := hm
  show ∑ l ∈ range 2, dinvAt 2 Dinv4 i k l * diagBlk (bsrOfDense Ad4 2 2) i l m = _
  rw [Finset.sum_range_succ, Finset.sum_range_succ, Finset.sum_range_zero,
    diagBlk4 i 0 m hi (by omega) hm2, diagBlk4 i 1 m hi (by omega) hm2,
    dinvAt4 i k 0 hi hk2 (by omega), dinvAt4 i k 1 hi hk2 (by omega)]
  interval_cases k <;> interval_cases m <;> norm_num

theorem opDinv (r : Nat → ℚ) (p : Nat) :
    bDinv 2 2 Dinv4 r p = if p = 0 then 2/3 * r 0 + 1/3 * r 1 else if p = 1 then 1/3 * r 0 + 2/3 * r 1
      else if p = 2 then 2/3 * r 2 + 1/3 * r 3 else if p = 3 then 1/3 * r 2 + 2/3 * r 3 else 0 := by
  rcases p with _ | _ | _ | _ | p
  · simp [bDinv, Finset.sum_range_succ, dinvAt4]
  · simp [bDinv, Finset.sum_range_succ, dinvAt4]
  · have h1 : (2 : Nat) / 2 = 1 := rfl
    have h2 : (2 : Nat) % 2 = 0 := rfl
    simp [bDinv, Finset.sum_range_succ, dinvAt4, h1, h2]
  · have h1 : (3 : Nat) / 2 = 1 := rfl
    have h2 : (3 : Nat) % 2 = 1 := rfl
    simp [bDinv, Finset.sum_range_succ, dinvAt4, h1, h2]
  · simp [bDinv]

theorem wf4 : BWFModel solveF Ac2 2 [L4] := by
  refine ⟨rfl, adjPR, rfl, galerkin4, ⟨2, by norm_num, rfl, rfl, rightInv4⟩,
    ⟨2, by norm_num, rfl, rfl, leftInv4, by norm_num, ?_⟩, ?_, ?_⟩
  · -- the damping bound of block Jacobi with ω = 1: A ≤ 2 D_B
    intro r
    show (1 : ℚ) * (euc ℚ 4).a (denseOp Ad4 4 4 (bDinv 2 2 Dinv4 r)) (bDinv 2 2 Dinv4 r) ≤
      2 * (euc ℚ 4).a (bDinv 2 2 Dinv4 r) r
    simp only [euc_apply, Finset.sum_range_succ, Finset.sum_range_zero, opA, opDinv]
    simp
    nlinarith [sq_nonneg (2/3 * r 0 + 1/3 * r 1), sq_nonneg (1/3 * r 0 - 1/3 * r 1),
      sq_nonneg (1/3 * r 0 + 2/3 * r 1 + (2/3 * r 2 + 1/3 * r 3)), sq_nonneg (1/3 * r 2 - 1/3 * r 3),
      sq_nonneg (1/3 * r 2 + 2/3 * r 3)]
  · intro r
    refine ⟨solveF (csrOp 2 (rowOf R4) r), ?_⟩
    show (csrOp 2 (rowOf R4) ∘ₗ denseOp Ad4 4 4 ∘ₗ csrOp 4 (rowOf P4)) _ = csrOp 2 (rowOf R4) r
    rw [← galerkin4]
    funext i
    simp only [opAc, opR, solveF]
    rcases i with _ | _ | i <;> simp <;> ring
  · intro b xs hb
    change denseOp Ac2 2 2 xs = b at hb
    show (euc ℚ 2).a (denseOp Ac2 2 2 (xs - solveF b)) (xs - solveF b) = 0
    have h0 : (xs - solveF b) 0 = 0 := by
      rw [← hb]; simp only [Pi.sub_apply, solveF, opAc]; simp; ring
    have h1 : (xs - solveF b) 1 = 0 := by
      rw [← hb]; simp only [Pi.sub_apply, solveF, opAc]; simp; ring
    simp only [euc_apply, Finset.sum_range_succ, Finset.sum_range_zero, opAc]
    simp [h0, h1]

/-- the instance of `bmodel_cycle_nonexp`: for **every** `x, b ∈ ℚ⁴`, every cycle type and every solution `x*`, one
cycle of the executable model with block Gauss-Seidel / block Jacobi smoothing on this hierarchy does not increase the
energy of the error -/
theorem example_bcycle_nonexp (c : C02.Cyc) (cpl : Nat) (x b : Array ℚ) (hx : x.size = 4) (hb : b.size = 4)
    (xs : Nat → ℚ) (hxs : denseOp Ad4 4 4 xs = fn b) :
    ((euc ℚ 4).ofOp _ symA psdA).en (xs - fn (cycleO solveArr c cpl ([L4].map BLvl.toO) x b)) ≤
    ((euc ℚ 4).ofOp _ symA psdA).en (xs - fn x) :=
  bmodel_cycle_nonexp solveArr solveF Ac2 2 [L4] solve_ok shaped4 wf4 symA psdA c cpl x b hx hb xs hxs

#print axioms example_bcycle_nonexp
end PyamgV.C02X.BEx
