import PyamgV.Proofs.ExtC10bProject
import PyamgV.Proofs.ExtC10bGmresFull

/-! PyamgV (extension E53, property C10): the dense projection `C10M.projectDense` with an arbitrary
right-hand side `Y` (`satisfy_constraints`: `Y = U·B`; `filter_operator`: `Y = A·B − Bf`), and from it the
executable `C10M.filterOperator` (dense model of `utils.filter_operator`): whenever it returns `A'`,

* every row whose pattern row is non-empty satisfies `(A'·B)_i = Bf_i`,
* every entry outside the block pattern is zero,
* `A'` has the shape of `A`.

No per-instance hypothesis: the local Gram matrices are inverted by `Mat.inv` (`inv_leftInv`). -/
namespace PyamgV.C10d
open PyamgV PyamgV.C10M PyamgV.C10b
set_option linter.unusedSectionVars false

variable {K : Type} [Field K] [DecidableEq K]

/-- **one projected row, any right-hand side**: `row·B` drops by `Y_i` when `Z` is a left inverse of the
local Gram matrix of the listed block columns -/
theorem row_general (conj : K → K) (cpb nd m : Nat) (B Y Z : Mat K) (J : List Nat) (row0 : Array K) (i : Nat)
    (hsz : row0.size = m) (hJ : ∀ jb ∈ J, (jb + 1) * cpb ≤ m)
    (hZ : ∀ a k, a < nd → k < nd →
      sumL ((List.range nd).map fun b => Z.get a b * gramM conj cpb B J b k) = if a = k then 1 else 0)
    (kk : Nat) (hkk : kk < nd) :
    ((List.range m).map fun q => (rowFold cpb (corrM conj nd B Y Z i) J row0).getD q 0 * B.get q kk).sum =
      ((List.range m).map fun q => row0.getD q 0 * B.get q kk).sum - Y.get i kk := by
  rw [rowFold_dot cpb m _ J row0 (fun q => B.get q kk) hsz hJ]
  have hcorr : ∀ c, corrM conj nd B Y Z i c =
      ∑ b ∈ Finset.range nd, (∑ a ∈ Finset.range nd, Y.get i a * Z.get a b) * conj (B.get c b) := by
    intro c
    unfold corrM
    rw [sumL_range_sum]
    apply Finset.sum_congr rfl
    intro b hb
    rw [Finset.mem_range] at hb
    rw [range_map_val _ _ b hb, sumL_range_sum]
  have hgram : ∀ b, gramM conj cpb B J b kk =
      (J.map fun jb => ((List.range cpb).map fun t => conj (B.get (jb * cpb + t) b) * B.get (jb * cpb + t) kk).sum).sum := by
    intro b
    unfold gramM
    rw [sumL_eq, sum_flatMap]
  have hsecond : (J.map fun jb => ((List.range cpb).map fun s =>
        corrM conj nd B Y Z i (jb * cpb + s) * B.get (jb * cpb + s) kk).sum).sum =
      ∑ b ∈ Finset.range nd, (∑ a ∈ Finset.range nd, Y.get i a * Z.get a b) * gramM conj cpb B J b kk := by
    have e1 : (J.map fun jb => ((List.range cpb).map fun s =>
          corrM conj nd B Y Z i (jb * cpb + s) * B.get (jb * cpb + s) kk).sum) =
        J.map fun jb => ∑ b ∈ Finset.range nd, ((List.range cpb).map fun s =>
          (∑ a ∈ Finset.range nd, Y.get i a * Z.get a b) * (conj (B.get (jb * cpb + s) b) * B.get (jb * cpb + s) kk)).sum := by
      apply List.map_congr_left
      intro jb _
      rw [← list_finset_comm]
      congr 1
      apply List.map_congr_left
      intro s _
      rw [hcorr, Finset.sum_mul]
      apply Finset.sum_congr rfl
      intro b _
      ring
    rw [e1, list_finset_comm]
    apply Finset.sum_congr rfl
    intro b _
    rw [hgram b, ← List.sum_map_mul_left]
    congr 1
    apply List.map_congr_left
    intro jb _
    rw [List.sum_map_mul_left]
  rw [hsecond]
  have : ∑ b ∈ Finset.range nd, (∑ a ∈ Finset.range nd, Y.get i a * Z.get a b) * gramM conj cpb B J b kk =
      Y.get i kk := by
    calc ∑ b ∈ Finset.range nd, (∑ a ∈ Finset.range nd, Y.get i a * Z.get a b) * gramM conj cpb B J b kk
        = ∑ b ∈ Finset.range nd, ∑ a ∈ Finset.range nd, Y.get i a * (Z.get a b * gramM conj cpb B J b kk) := by
          apply Finset.sum_congr rfl; intro b _
          rw [Finset.sum_mul]
          apply Finset.sum_congr rfl; intro a _
          ring
      _ = ∑ a ∈ Finset.range nd, ∑ b ∈ Finset.range nd, Y.get i a * (Z.get a b * gramM conj cpb B J b kk) :=
          Finset.sum_comm
      _ = ∑ a ∈ Finset.range nd, Y.get i a * (if a = kk then 1 else 0) := by
          apply Finset.sum_congr rfl; intro a ha
          rw [Finset.mem_range] at ha
          rw [← Finset.mul_sum, ← sumL_range_sum, hZ a kk ha hkk]
      _ = Y.get i kk := by
          rw [Finset.sum_eq_single kk]
          · rw [if_pos rfl, mul_one]
          · intro a _ hne; rw [if_neg hne, mul_zero]
          · intro h; exact absurd (Finset.mem_range.2 hkk) h
  rw [this]

/-- what `projectDense` does to row `i` -/
def RowSpec (rpb nd m : Nat) (pat : Pat) (U Y B : Mat K) (i : Nat) (row : Array K) : Prop :=
  row.size = m ∧
  (¬ (pat.getD (i / rpb) #[]).isEmpty = true → ∀ kk, kk < nd →
    ((List.range m).map fun q => row.getD q 0 * B.get q kk).sum =
      ((List.range m).map fun q => (U.getD i #[]).getD q 0 * B.get q kk).sum - Y.get i kk) ∧
  ((pat.getD (i / rpb) #[]).isEmpty = true → row = U.getD i #[])

/-- **`projectDense`, any right-hand side**: rows of a non-empty pattern row have `row·B` reduced by `Y_i`,
the other rows are untouched -/
theorem projectDense_rows (conj : K → K) (rpb cpb nd : Nat) (pat : Pat) (U Y B U' : Mat K) (n m : Nat)
    (hr : 0 < rpb) (hU : Shaped n m U)
    (hpat : ∀ ib, ib < pat.size → ∀ jb ∈ (pat.getD ib #[]).toList, (jb + 1) * cpb ≤ m)
    (h : projectDense conj rpb cpb nd pat U Y B = some U') :
    U'.size = n ∧ ∀ i, i < n → RowSpec rpb nd m pat U Y B i (U'.getD i #[]) := by
  rw [projectDense_eq] at h
  have untouched : ∀ i, i < n → (pat.getD (i / rpb) #[]).isEmpty = true →
      RowSpec rpb nd m pat U Y B i (U.getD i #[]) := by
    intro i hi hE
    exact ⟨hU.2 i hi, fun hne => absurd hE hne, fun _ => rfl⟩
  have key : ∀ (k : Nat) (M' : Mat K), k ≤ pat.size →
      (List.range k).foldl (projStep conj rpb cpb nd pat Y B) (some U) = some M' →
      M'.size = n ∧ (∀ i, i < n → i / rpb < k → RowSpec rpb nd m pat U Y B i (M'.getD i #[])) ∧
      (∀ i, i < n → k ≤ i / rpb → M'.getD i #[] = U.getD i #[]) := by
    intro k
    induction k with
    | zero =>
      intro M' _ h0
      simp only [List.range_zero, List.foldl_nil, Option.some.injEq] at h0
      rw [← h0]
      exact ⟨hU.1, fun i _ hlt => absurd hlt (Nat.not_lt_zero _), fun i _ _ => rfl⟩
    | succ k ih =>
      intro M' hk h0
      rw [List.range_succ, List.foldl_append, List.foldl_cons, List.foldl_nil] at h0
      cases hprev : (List.range k).foldl (projStep conj rpb cpb nd pat Y B) (some U) with
      | none => rw [hprev] at h0; simp [projStep] at h0
      | some M1 =>
        rw [hprev] at h0
        obtain ⟨i1, i2, i3⟩ := ih M1 (by omega) hprev
        by_cases hJ : (pat.getD k #[]).isEmpty = true
        · have : projStep conj rpb cpb nd pat Y B (some M1) k = some M1 := by
            unfold projStep; dsimp only; rw [if_pos hJ]
          rw [this] at h0
          simp only [Option.some.injEq] at h0
          rw [← h0]
          refine ⟨i1, ?_, fun i hi hge => i3 i hi (by omega)⟩
          intro i hi hlt
          rcases Nat.lt_or_ge (i / rpb) k with hl | hg
          · exact i2 i hi hl
          · have e : i / rpb = k := by omega
            rw [i3 i hi (by omega)]
            exact untouched i hi (by rw [e]; exact hJ)
        · cases hZ : (localBtB conj cpb nd B (pat.getD k #[])).inv with
          | none =>
            have : projStep conj rpb cpb nd pat Y B (some M1) k = none := by
              unfold projStep; dsimp only; rw [if_neg hJ, hZ]
            rw [this] at h0; cases h0
          | some Z =>
            rw [projStep_some conj rpb cpb nd pat Y B M1 Z k hJ hZ] at h0
            simp only [Option.some.injEq] at h0
            obtain ⟨b1, b2⟩ := blockGen_get
              (fun i row => rowFold cpb (corrM conj nd B Y Z i) (pat.getD k #[]).toList row) (k * rpb) rpb M1
            rw [h0] at b1 b2
            refine ⟨by rw [b1, i1], ?_, ?_⟩
            · intro i hi hlt
              rw [b2 i]
              rcases Nat.lt_or_ge (i / rpb) k with hl | hg
              · have : ¬ (k * rpb ≤ i ∧ i < k * rpb + rpb ∧ i < M1.size) := by
                  intro hc
                  have := (div_eq_iff_block rpb i k hr).2 ⟨hc.1, hc.2.1⟩
                  omega
                rw [if_neg this]
                exact i2 i hi hl
              · have e : i / rpb = k := by omega
                have hb := (div_eq_iff_block rpb i k hr).1 e
                rw [if_pos ⟨hb.1, hb.2, by rw [i1]; exact hi⟩, i3 i hi (by omega)]
                have hZl : ∀ a kk, a < nd → kk < nd →
                    sumL ((List.range nd).map fun b => Z.get a b * gramM conj cpb B (pat.getD k #[]).toList b kk) =
                      if a = kk then 1 else 0 := by
                  intro a kk ha hkk
                  have hrows : (localBtB conj cpb nd B (pat.getD k #[])).rows = nd := ofFn_size' _ _ _
                  have := inv_leftInv _ Z hZ a kk (by rw [hrows]; exact ha) (by rw [hrows]; exact hkk)
                  rw [hrows] at this
                  rw [← this]
                  congr 1
                  apply List.map_congr_left
                  intro b hb'
                  rw [List.mem_range] at hb'
                  unfold localBtB
                  rw [ofFn_get' _ _ _ b kk hb' hkk]
                  rfl
                refine ⟨?_, fun _ kk hkk => ?_, fun hE => absurd (by rw [← e]; exact hE) hJ⟩
                · rw [(rowFold_acc cpb _ _ _ (fun jb hjb => by
                    rw [hU.2 i hi]; exact hpat k (by omega) jb hjb)).1]
                  exact hU.2 i hi
                · exact row_general conj cpb nd m B Y Z (pat.getD k #[]).toList (U.getD i #[]) i
                    (hU.2 i hi) (hpat k (by omega)) hZl kk hkk
            · intro i hi hge
              rw [b2 i]
              have : ¬ (k * rpb ≤ i ∧ i < k * rpb + rpb ∧ i < M1.size) := by
                intro hc
                have := (div_eq_iff_block rpb i k hr).2 ⟨hc.1, hc.2.1⟩
                omega
              rw [if_neg this]
              exact i3 i hi (by omega)
  obtain ⟨k1, k2, k3⟩ := key pat.size U' (Nat.le_refl _) h
  refine ⟨k1, fun i hi => ?_⟩
  rcases Nat.lt_or_ge (i / rpb) pat.size with hl | hg
  · exact k2 i hi hl
  · rw [k3 i hi hg]
    apply untouched i hi
    have : pat.getD (i / rpb) #[] = #[] := by
      simp [Array.getD_eq_getD_getElem?, Array.getElem?_eq_none hg]
    rw [this]; rfl


/-! ### `filter_operator` -/

theorem shaped_dim {n m : Nat} (X : Mat K) (hn : 0 < n) (h : Shaped n m X) : Dim n m X := by
  refine ⟨h.1, ?_⟩
  unfold Mat.cols
  exact h.2 0 hn

theorem mask_shaped {n m : Nat} (rpb cpb : Nat) (pat : Pat) (A : Mat K) (hA : Dim n m A) :
    Shaped n m (maskDense rpb cpb pat A) := by
  unfold maskDense
  rw [hA.1, hA.2]
  exact shaped_ofFn n m _

theorem mask_get {n m : Nat} (rpb cpb : Nat) (pat : Pat) (A : Mat K) (hA : Dim n m A) (i j : Nat) (hi : i < n)
    (hj : j < m) : (maskDense rpb cpb pat A).get i j =
      if (pat.getD (i / rpb) #[]).contains (j / cpb) then A.get i j else 0 := by
  unfold maskDense
  rw [hA.1, hA.2, ofFn_get' _ _ _ i j hi hj]

/-- **`filter_operator`, executable model, every input on which it returns**: shape kept, `(A'·B)_i = Bf_i`
on every row with a non-empty pattern row, zero outside the pattern -/
theorem filterOperator_spec (conj : K → K) (rpb cpb nd : Nat) (pat : Pat) (A B Bf A' : Mat K) (n m : Nat)
    (hn : 0 < n) (hr : 0 < rpb) (hc : 0 < cpb) (hA : Dim n m A) (hB : B.cols = nd) (hpat : PatIn m cpb pat)
    (h : filterOperator conj rpb cpb nd pat A B Bf = some A') :
    Shaped n m A' ∧
    (∀ i, i < n → ¬ (pat.getD (i / rpb) #[]).isEmpty = true → ∀ kk, kk < nd →
      ((List.range m).map fun q => A'.get i q * B.get q kk).sum = Bf.get i kk) ∧
    (∀ i j, i < n → j < m → ¬ ((pat.getD (i / rpb) #[]).contains (j / cpb) = true) → A'.get i j = 0) := by
  unfold filterOperator at h
  have hM := mask_shaped rpb cpb pat A hA
  have hMd : Dim n m (maskDense rpb cpb pat A) := shaped_dim _ hn hM
  obtain ⟨s1, s2⟩ := projectDense_rows conj rpb cpb nd pat _ _ B A' n m hr hM hpat h
  refine ⟨⟨s1, fun i hi => (s2 i hi).1⟩, ?_, ?_⟩
  · intro i hi hne kk hkk
    have := (s2 i hi).2.1 hne kk hkk
    have e0 : ∀ q, (A'.getD i #[]).getD q 0 = A'.get i q := fun _ => rfl
    simp only [e0] at this
    rw [this]
    -- the right-hand side `A0·B − Bf` at `(i, kk)`
    have hmul : (Mat.mul (maskDense rpb cpb pat A) B).get i kk =
        ((List.range m).map fun q => ((maskDense rpb cpb pat A).getD i #[]).getD q 0 * B.get q kk).sum := by
      unfold Mat.mul
      rw [ofFn_get' _ _ _ i kk (by rw [hMd.1]; exact hi) (by rw [hB]; exact hkk), hMd.2, sumL_eq]
      rfl
    have hsub : (Mat.sub (Mat.mul (maskDense rpb cpb pat A) B) Bf).get i kk =
        (Mat.mul (maskDense rpb cpb pat A) B).get i kk - Bf.get i kk := by
      have d : Dim n nd (Mat.mul (maskDense rpb cpb pat A) B) := by
        unfold Mat.mul
        rw [hMd.1, hB]
        exact dim_ofFn n nd hn _
      unfold Mat.sub
      rw [d.1, d.2, ofFn_get' _ _ _ i kk hi hkk]
    rw [hsub, hmul]
    ring
  · intro i j hi hj hcont
    have := projectDense_off conj rpb cpb nd pat _ _ B A' n m hr hc hM hpat h i j hi hcont
    rw [this, mask_get rpb cpb pat A hA i j hi hj, if_neg hcont]

end PyamgV.C10d
