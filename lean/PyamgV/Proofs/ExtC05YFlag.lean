import PyamgV.Proofs.ExtC05YAdj
import PyamgV.Proofs.C05Sym
import PyamgV.Model.ExtC05YCycle

/-! PyamgV (extension E36, property C05): from the decision table to adjoint smoothers for the extended model
(`Model/ExtC05YCycle.lean`: `chebyshev`, `richardson`, `block_jacobi` / `block_gauss_seidel` with block size > 1,
`jacobi_ne`, `gauss_seidel_ne`, `gauss_seidel_nr`).

* `levelOk_partnerY`     `levelOk a b` and both specifications inside the extended model (same coefficient oracle: same
                         level) ⇒ the installed smoothers are partners: the same family with the same parameters (the
                         same coefficient list, block size, `omega`), equal iteration counts, and a forward/backward or
                         symmetric/symmetric sweep pair (no sweep for the polynomial family, block Jacobi, `jacobi_ne`).
* `partnerY_adjoint`     partners outside the normal-equation families have adjoint operators (`Q_post = Q_preᵀ`) whenever
                         the step operators of the family (`p(A)`; `ω Dinv`; the block steps `I S Iᵀ`) are symmetric.
* `partnerY_err_adjoint`, `partnerY_res_adjoint`
                         partners of a normal-equation family: the error (`gauss_seidel_ne`, `jacobi_ne`) resp. residual
                         (`gauss_seidel_nr`) propagators are adjoint for the Euclidean form.
* `flag_cycle_symmetricY` flag `True` and no normal-equation smoother installed ⇒ the V- and the W-cycle operators are
                         symmetric. -/
namespace PyamgV.C05Y
open PyamgV PyamgV.C05 PyamgV.K

/-! ## partners -/

/-- admissible sweep pairs; `SwP true` also accepts the (only) sweep of a family without a `sweep` argument -/
inductive SwP : Bool → Sweep → Sweep → Prop
  | fb (b) : SwP b .forward .backward
  | bf (b) : SwP b .backward .forward
  | ss (b) : SwP b .symmetric .symmetric
  | free : SwP true .forward .forward

inductive PartnerY : SmY → SmY → Prop
  | base {s t : Sm} : Partner s t → PartnerY (.base s) (.base t)
  | ext (f : Fam) (sw sw' : Sweep) (k : Nat) : SwP f.sweepFree sw sw' → PartnerY (.ext f sw k) (.ext f sw' k)

theorem pvOf_eq (a b : Cfg) (h : sameParameters a b = true) : pvOf a = pvOf b := by
  unfold pvOf
  rw [sameParameters_lookup a b h "iterations" (by decide), sameParameters_lookup a b h "omega" (by decide),
    sameParameters_lookup a b h "blocksize" (by decide), sameParameters_lookup a b h "withrho" (by decide),
    sameParameters_lookup a b h "Dinv" (by decide), sameParameters_lookup a b h "lower_bound" (by decide),
    sameParameters_lookup a b h "upper_bound" (by decide), sameParameters_lookup a b h "degree" (by decide)]

theorem isNewB_cf (nm : Option String) (pv : PV) (h : nm ∈ cfFcNames) : isNewB nm pv = false := by
  simp only [cfFcNames, List.mem_cons, List.mem_nil_iff, or_false] at h
  rcases h with rfl | rfl | rfl | rfl <;> rfl

theorem cfPairs_names (x y : Option String) (h : (x, y) ∈ cfPairs) : x ∈ cfFcNames ∧ y ∈ cfFcNames := by
  simp only [cfPairs, List.mem_cons, Prod.mk.injEq, List.mem_nil_iff, or_false] at h
  rcases h with ⟨rfl, rfl⟩ | ⟨rfl, rfl⟩ | ⟨rfl, rfl⟩ | ⟨rfl, rfl⟩ <;> exact ⟨by decide, by decide⟩

/-- a family with a `sweep` argument is never produced for a name of `SYMMETRIC_RELAXATION` -/
theorem famOf_not_symmetric (orc : Oracle) (nm : Option String) (pv : PV) (f : Fam) (k : Nat)
    (h : famOf orc nm pv = some (f, k)) (hf : f.sweepFree = false) : nm ∉ symmetricRelaxation := by
  intro hmem
  simp only [symmetricRelaxation, List.mem_cons, List.mem_nil_iff, or_false] at hmem
  rcases hmem with rfl | rfl | rfl | rfl | rfl | rfl
  · simp [famOf] at h
  · simp only [famOf, Option.bind_eq_bind, Option.bind_eq_some_iff] at h
    obtain ⟨_, _, c, _, hc⟩ := h
    cases hc; simp [Fam.sweepFree] at hf
  · simp only [famOf, Option.bind_eq_bind, Option.bind_eq_some_iff] at h
    obtain ⟨_, _, bs, _, ω, _, hc⟩ := h
    split at hc
    · cases hc; simp [Fam.sweepFree] at hf
    · exact absurd hc (by simp)
  · simp only [famOf, Option.bind_eq_bind, Option.bind_eq_some_iff] at h
    obtain ⟨_, _, ω, _, hc⟩ := h
    split at hc
    · cases hc; simp [Fam.sweepFree] at hf
    · exact absurd hc (by simp)
  · simp only [famOf, Option.bind_eq_bind, Option.bind_eq_some_iff] at h
    obtain ⟨_, _, c, _, hc⟩ := h
    cases hc; simp [Fam.sweepFree] at hf
  · simp [famOf] at h

theorem sweepPairs_swp (v w : Val) (h : (v, w) ∈ sweepPairs) (sw sw' : Sweep)
    (h1 : sweepOfVal v = some sw) (h2 : sweepOfVal w = some sw') (b : Bool) : SwP b sw sw' := by
  rcases sweepPairs_partner v w h sw sw' h1 h2 with ⟨rfl, rfl⟩ | ⟨rfl, rfl⟩ | ⟨rfl, rfl⟩
  · exact SwP.fb b
  · exact SwP.bf b
  · exact SwP.ss b

/-- **the decision table accepts only partner smoothers, extended model** (both specifications of one level: the
same coefficient oracle) -/
theorem levelOk_partnerY (orc : Oracle) (a b : Cfg) (h : levelOk a b = true) (s t : SmY)
    (hs : smOfY orc a = some s) (ht : smOfY orc b = some t) : PartnerY s t := by
  obtain ⟨_, hshape⟩ := levelOk_shape a b h
  unfold smOfY at hs ht
  have hva : valid a = true := by
    cases hv : valid a with
    | true => rfl
    | false => rw [hv] at hs; simp at hs
  have hvb : valid b = true := by
    cases hv : valid b with
    | true => rfl
    | false => rw [hv] at ht; simp at ht
  rw [hva] at hs; rw [hvb] at ht
  simp only [if_true] at hs ht
  -- the common tail: both sides in the first model
  have hbase : isNewB a.name (pvOf a) = false → isNewB b.name (pvOf b) = false → PartnerY s t := by
    intro ha hb
    rw [ha] at hs; rw [hb] at ht
    simp only [Bool.false_eq_true, if_false, Option.map_eq_some_iff] at hs ht
    obtain ⟨s', hs', rfl⟩ := hs
    obtain ⟨t', ht', rfl⟩ := ht
    exact PartnerY.base (levelOk_partner a b h s' t' hs' ht')
  rcases hshape with ⟨hpair, _, _, _⟩ | ⟨_, hname, hsame, _, hsym⟩
  · obtain ⟨h1, h2⟩ := cfPairs_names _ _ hpair
    exact hbase (isNewB_cf _ _ h1) (isNewB_cf _ _ h2)
  · have hpv := pvOf_eq a b hsame
    cases hnew : isNewB a.name (pvOf a) with
    | false => exact hbase hnew (by rw [← hname, ← hpv]; exact hnew)
    | true =>
      have hnewb : isNewB b.name (pvOf b) = true := by rw [← hname, ← hpv]; exact hnew
      rw [hnew] at hs; rw [hnewb] at ht
      simp only [if_true] at hs ht
      rw [← hname, ← hpv] at ht
      unfold buildY at hs ht
      cases hf : famOf orc a.name (pvOf a) with
      | none => rw [hf] at hs; simp at hs
      | some fk =>
        obtain ⟨f, k⟩ := fk
        rw [hf] at hs ht
        simp only at hs ht
        cases hfree : f.sweepFree with
        | true =>
          rw [hfree] at hs ht
          simp only [if_true, Option.some.injEq] at hs ht
          subst hs; subst ht
          exact PartnerY.ext f _ _ k (by rw [hfree]; exact SwP.free)
        | false =>
          rw [hfree] at hs ht
          simp only [Bool.false_eq_true, if_false, Option.map_eq_some_iff] at hs ht
          obtain ⟨sa, hsa, rfl⟩ := hs
          obtain ⟨sb, hsb, rfl⟩ := ht
          have hnot := famOf_not_symmetric orc a.name (pvOf a) f k hf hfree
          rcases hsym with hmem | ⟨_, hsw⟩
          · exact absurd hmem hnot
          · exact PartnerY.ext f sa sb k (sweepPairs_swp _ _ hsw sa sb hsa hsb _)

/-! ## operators -/

section ops
variable {K : Type*} [Field K] [LinearOrder K] [IsStrictOrderedRing K]
variable {V : Type*} [AddCommGroup V] [Module K V]

/-- the order in which a sweep mode visits a list of steps -/
def dirL {β : Type*} : Sweep → List β → List β
  | .forward, l => l
  | .backward, l => l.reverse
  | .symmetric, l => l ++ l.reverse

theorem dirL_map {β γ : Type*} (g : β → γ) (sw : Sweep) (l : List β) : (dirL sw l).map g = dirL sw (l.map g) := by
  cases sw <;> simp [dirL]

theorem reverse_of_short {β : Type*} (l : List β) (h : l.length ≤ 1) : l.reverse = l := by
  match l, h with
  | [], _ => rfl
  | [_], _ => rfl

/-- **partner sweeps over self-adjoint steps are adjoint** -/
theorem dirL_adj {e : EForm K V} {A : V →ₗ[K] V} (hA : IsAdj e e A A) (l : List (V →ₗ[K] V))
    (hl : ∀ Q ∈ l, IsAdj e e Q Q) (b : Bool) (hb : b = true → l.length ≤ 1) (sw sw' : Sweep) (h : SwP b sw sw') :
    IsAdj e e (sweepM A (dirL sw l)) (sweepM A (dirL sw' l)) := by
  cases h with
  | fb => exact sweepM_reverse_adj hA l hl
  | bf => exact (sweepM_reverse_adj hA l hl).flip
  | ss => exact sweepM_symmetric_selfadj hA l hl
  | free =>
    have := sweepM_reverse_adj hA l hl
    rw [reverse_of_short l (hb rfl)] at this
    exact this

end ops

section level
variable {K : Type*} [Field K] [LinearOrder K] [IsStrictOrderedRing K] [DecidableEq K]

/-- step operators of the families on a level (forward order) -/
abbrev Steps (K : Type*) [Field K] := Fam → List (Op K)

/-- the linear part of a smoother of the extended model: the first model's `smOp`, or `iterations` sweeps over the
family's steps in the order of the sweep mode -/
def smOpY (A : Op K) (diag : Nat → K) (n : Nat) (C F : List Nat) (st : Steps K) : SmY → Op K
  | .base s => smOp A diag n C F s
  | .ext f sw k => powM A (sweepM A (dirL sw (st f))) k

/-- **partners outside the normal-equation families are adjoint** -/
theorem partnerY_adjoint (n : Nat) (A : Op K) (diag : Nat → K) (C F : List Nat)
    (hA : IsAdj (euc K n) (euc K n) A A) (hC : ∀ i ∈ C, i < n) (hF : ∀ i ∈ F, i < n) (st : Steps K)
    (hst : ∀ f : Fam, f.isNE = false → ∀ Q ∈ st f, IsAdj (euc K n) (euc K n) Q Q)
    (hsingle : ∀ f : Fam, f.sweepFree = true → (st f).length ≤ 1)
    (s t : SmY) (h : PartnerY s t) (hne : s.isNE = false) :
    IsAdj (euc K n) (euc K n) (smOpY A diag n C F st s) (smOpY A diag n C F st t) := by
  cases h with
  | base hp => exact partner_adjoint n A diag C F hA hC hF _ _ hp
  | ext f sw sw' k hsw =>
    exact IsAdj.powM hA (dirL_adj hA (st f) (hst f hne) f.sweepFree (hsingle f) sw sw' hsw) k

omit [DecidableEq K] in
/-- **partners of `gauss_seidel_ne` / `jacobi_ne`: Euclidean-adjoint error propagators** (`Q_i A` symmetric for every
step; no symmetry of `A` needed) -/
theorem partnerY_err_adjoint (n : Nat) (A : Op K) (diag : Nat → K) (C F : List Nat) (st : Steps K)
    (f : Fam) (sw sw' : Sweep) (k : Nat) (h : PartnerY (.ext f sw k) (.ext f sw' k))
    (hst : ∀ Q ∈ st f, IsAdj (euc K n) (euc K n) (Q ∘ₗ A) (Q ∘ₗ A))
    (hsingle : f.sweepFree = true → (st f).length ≤ 1) :
    IsAdj (euc K n) (euc K n) (smOpY A diag n C F st (.ext f sw k) ∘ₗ A) (smOpY A diag n C F st (.ext f sw' k) ∘ₗ A) := by
  cases h with
  | ext _ _ _ _ hsw =>
    show IsAdj _ _ (powM A (sweepM A (dirL sw (st f))) k ∘ₗ A) (powM A (sweepM A (dirL sw' (st f))) k ∘ₗ A)
    rw [powM_comp_right, powM_comp_right, sweepM_comp_right, sweepM_comp_right, dirL_map, dirL_map]
    apply IsAdj.powM (isAdj_id _)
    apply dirL_adj (isAdj_id _) _ _ f.sweepFree _ sw sw' hsw
    · intro Q hQ
      obtain ⟨Q', hQ', rfl⟩ := List.mem_map.1 hQ
      exact hst Q' hQ'
    · intro hb; simpa using hsingle hb

omit [DecidableEq K] in
/-- **partners of `gauss_seidel_nr`: Euclidean-adjoint residual propagators** (`A Q_i` symmetric for every step) -/
theorem partnerY_res_adjoint (n : Nat) (A : Op K) (diag : Nat → K) (C F : List Nat) (st : Steps K)
    (f : Fam) (sw sw' : Sweep) (k : Nat) (h : PartnerY (.ext f sw k) (.ext f sw' k))
    (hst : ∀ Q ∈ st f, IsAdj (euc K n) (euc K n) (A ∘ₗ Q) (A ∘ₗ Q))
    (hsingle : f.sweepFree = true → (st f).length ≤ 1) :
    IsAdj (euc K n) (euc K n) (A ∘ₗ smOpY A diag n C F st (.ext f sw k)) (A ∘ₗ smOpY A diag n C F st (.ext f sw' k)) := by
  cases h with
  | ext _ _ _ _ hsw =>
    show IsAdj _ _ (A ∘ₗ powM A (sweepM A (dirL sw (st f))) k) (A ∘ₗ powM A (sweepM A (dirL sw' (st f))) k)
    rw [powM_comp_left, powM_comp_left, sweepM_comp_left, sweepM_comp_left, dirL_map, dirL_map]
    apply IsAdj.powM (isAdj_id _)
    apply dirL_adj (isAdj_id _) _ _ f.sweepFree _ sw sw' hsw
    · intro Q hQ
      obtain ⟨Q', hQ', rfl⟩ := List.mem_map.1 hQ
      exact hst Q' hQ'
    · intro hb; simpa using hsingle hb

/-- per-level data of the extended model: the data of the first model, the coefficient oracle of the level and
the step operators of the families -/
structure LvlDataY (K : Type*) [Field K] where
  n : Nat
  diag : Nat → K
  C : List Nat
  F : List Nat
  orc : Oracle
  st : Steps K

/-- hierarchy whose smoothers are the ones `change_smoothers(ml, pre, post)` installs (extended model), none of them
a normal-equation smoother; symmetric level matrices, symmetric step operators, `R` the adjoint of `P`, symmetric
coarsest solve -/
def WFFlagY (S : Op K) (pre post : List Cfg) :
    Nat → LvlDataY K → List (LvlDataY K) → List (LinLevel K (Nat → K)) → Prop
  | _, d, _, [] => IsAdj (euc K d.n) (euc K d.n) S S
  | i, d, dc :: ds, L :: rest =>
      IsAdj (euc K d.n) (euc K d.n) L.A L.A ∧
      (∀ j ∈ d.C, j < d.n) ∧ (∀ j ∈ d.F, j < d.n) ∧
      (∀ f : Fam, f.isNE = false → ∀ Q ∈ d.st f, IsAdj (euc K d.n) (euc K d.n) Q Q) ∧
      (∀ f : Fam, f.sweepFree = true → (d.st f).length ≤ 1) ∧
      (∃ s t, smOfY d.orc (preAt pre i) = some s ∧ smOfY d.orc (postAt post i) = some t ∧ s.isNE = false ∧
          L.Qpre = smOpY L.A d.diag d.n d.C d.F d.st s ∧ L.Qpost = smOpY L.A d.diag d.n d.C d.F d.st t) ∧
      IsAdj (euc K d.n) (euc K dc.n) L.P L.R ∧
      WFFlagY S pre post (i+1) dc ds rest
  | _, _, [], _ :: _ => False

theorem wfflagY_wfs (S : Op K) (pre post : List Cfg) :
    ∀ (Ls : List (LinLevel K (Nat → K))) (i : Nat) (d : LvlDataY K) (ds : List (LvlDataY K)),
      (∀ j, i ≤ j → j < i + Ls.length → levelOk (preAt pre j) (postAt post j) = true) →
      WFFlagY S pre post i d ds Ls →
      WFS S (euc K d.n) (ds.map (fun d => euc K d.n)) Ls := by
  intro Ls
  induction Ls with
  | nil =>
    intro i d ds _ h
    cases ds <;> simpa [WFFlagY, WFS] using h
  | cons L rest ih =>
    intro i d ds hok h
    cases ds with
    | nil => exact absurd h (by simp [WFFlagY])
    | cons dc ds =>
      obtain ⟨hA, hC, hF, hst, hsingle, ⟨s, t, hs, ht, hne, hQ1, hQ2⟩, hP, hrest⟩ := h
      have hl := hok i (Nat.le_refl i) (by simp)
      have hpart := levelOk_partnerY d.orc _ _ hl s t hs ht
      have hadj := partnerY_adjoint d.n L.A d.diag d.C d.F hA hC hF d.st hst hsingle s t hpart hne
      refine ⟨hA, ?_, hP, ?_⟩
      · rw [hQ1, hQ2]; exact hadj
      · exact ih (i+1) dc ds (fun j h1 h2 => hok j (by omega) (by simp only [List.length_cons]; omega)) hrest

/-- **C05, extended model**: `change_smoothers` reports `symmetric_smoothing = True`; the installed smoothers are those
of the extended model (Gauss–Seidel, SOR, Jacobi, cf/fc Jacobi, `chebyshev`, `richardson`, block Jacobi / block
Gauss–Seidel of any block size) and none of them is a normal-equation smoother.  Then the V- and the W-cycle operators
are symmetric. -/
theorem flag_cycle_symmetricY (S : Op K) (pre post : List Cfg) (nl : Nat)
    (hp : 1 ≤ pre.length) (hq : 1 ≤ post.length)
    (hflag : flag pre post nl = some true)
    (Ls : List (LinLevel K (Nat → K))) (hlen : Ls.length = nl)
    (d : LvlDataY K) (ds : List (LvlDataY K))
    (hwf : WFFlagY S pre post 0 d ds Ls) :
    (∀ u v, (euc K d.n).a (Mop S .V Ls u) v = (euc K d.n).a u (Mop S .V Ls v)) ∧
    (∀ u v, (euc K d.n).a (Mop S .W Ls u) v = (euc K d.n).a u (Mop S .W Ls v)) := by
  have hok := flag_sound pre post nl hp hq hflag
  have hwfs := wfflagY_wfs S pre post Ls 0 d ds
    (fun j _ h2 => hok j (by omega)) hwf
  exact Mop_sym S Ls (euc K d.n) _ hwfs

end level

/-! ## the decision table on the extended families (kernel evaluation) -/

/-- the table accepts equal `chebyshev` / `richardson` specifications and forward/backward block Gauss–Seidel with block
size 2, rejects different `degree`s, and the extended model produces the partner smoothers -/
theorem table_extended_families :
    flag [⟨some "chebyshev", [("degree", .num 2)]⟩] [⟨some "chebyshev", [("degree", .num 2)]⟩] 2 = some true ∧
    flag [⟨some "chebyshev", [("degree", .num 2)]⟩] [⟨some "chebyshev", [("degree", .num 3)]⟩] 2 = some false ∧
    flag [⟨some "richardson", []⟩] [⟨some "richardson", []⟩] 1 = some true ∧
    flag [⟨some "block_gauss_seidel", [("blocksize", .num 2), ("sweep", .str "forward")]⟩]
         [⟨some "block_gauss_seidel", [("sweep", .str "backward"), ("blocksize", .num 2)]⟩] 2 = some true ∧
    smOfY (fun _ _ => some (1, [2])) ⟨some "chebyshev", [("degree", .num 2)]⟩ = some (.ext (.poly 1 [2]) .forward 1) ∧
    smOfY (fun _ _ => none) ⟨some "block_gauss_seidel", [("sweep", .str "backward"), ("blocksize", .num 2)]⟩ =
      some (.ext (.bgs 2) .backward 1) ∧
    smOfY (fun _ _ => none) ⟨some "gauss_seidel", [("sweep", .str "backward")]⟩ = some (.base (.gs 1 .backward 1)) := by
  decide

end PyamgV.C05Y
