import PyamgV.Model.ExtC17CkR3Sa
import PyamgV.Proofs.ExtC17SafeBlock
import PyamgV.Proofs.ExtC17SafeInterp
import PyamgV.Proofs.ExtC17SafeR3Split

/-! PyamgV (C17, extension E19): bounds-safety for the `Ck` models of `Model/ExtC17CkR3Sa.lean`: `gemm` in
the modes `('F','F','T','T')` and `('F','T','F','F')`, `satisfy_constraints_helper`, `calc_BtB`,
`incomplete_mat_mult_bsr`.  Core Lean only. -/
namespace PyamgV.C17
open PyamgV.Ck

set_option linter.unusedSectionVars false
set_option linter.unusedVariables false
variable {α : Type} [Inhabited α]

/-! ### index arithmetic -/

/-- block `j` of `B` entries lies inside `N*B` entries -/
theorem vec_extI (N B j : Int) (hB : 0 ≤ B) (h0 : 0 ≤ j) (h1 : j < N) : 0 ≤ j * B ∧ j * B + B ≤ N * B := by
  have h2 : (j + 1) * B ≤ N * B := Int.mul_le_mul_of_nonneg_right (by omega) hB
  rw [Int.add_mul, Int.one_mul] at h2
  have h4 := Int.mul_nonneg h0 hB
  omega

/-- stored block `jj` of `blk` values lies inside an array holding at least `cnt*blk` values -/
theorem blk_ext_gen (cnt : Nat) (blk size : Int) (hb : 0 ≤ blk) (hsz : (cnt : Int) * blk ≤ size) (jj : Int)
    (h0 : 0 ≤ jj) (h1 : jj.toNat < cnt) : 0 ≤ jj * blk ∧ jj * blk + blk ≤ size := by
  have := vec_extI (cnt : Int) blk jj hb h0 (by omega)
  omega

/-! ### `gemm`, mode `('F','F','T','T')` -/

/-- **`gemm`** with a column-major result: `A` occupies `arows*acols` entries from offset `ao`, `B`
`brows*bcols` from `bo`, `S` `srows*scols` from `so`, with `brows ≤ acols`, `arows ≤ srows`, `bcols ≤ scols` -/
theorem gemmFT_safe (o : KOps α) (ax : Array α) (ao : Int) (arows acols : Nat) (bx : Array α) (bo : Int)
    (brows bcols : Nat) (sx : Array α) (so : Int) (srows scols : Nat)
    (ha0 : 0 ≤ ao) (ha : ao + (arows : Int) * (acols : Int) ≤ (ax.size : Int))
    (hb0 : 0 ≤ bo) (hb : bo + (bcols : Int) * (brows : Int) ≤ (bx.size : Int))
    (hs0 : 0 ≤ so) (hs : so + (srows : Int) * (scols : Int) ≤ (sx.size : Int))
    (hk : brows ≤ acols) (hr : arows ≤ srows) (hc : bcols ≤ scols) :
    Safe (gemmFT o ax ao arows acols bx bo brows bcols sx so srows scols) (fun s' => s'.size = sx.size) := by
  unfold gemmFT
  refine Safe.bind (P := fun s : Array α => s.size = sx.size) ?_ (fun sx0 hsx0 => ?_)
  · apply forRange_safe (fun s : Array α => s.size = sx.size) _ _ _ _ rfl
    intro t t0 t1 s hsz'
    exact Safe.mono (wr_ok s (so + t) _ (by omega) (by rw [hsz']; omega)) (fun a' h => by rw [h, hsz'])
  refine Safe.bind (P := fun st : Array α × Int => st.1.size = sx.size) ?_ (fun r hr => Safe.pure hr)
  refine Safe.mono (forRange_safe_idx
    (fun (i : Int) (st : Array α × Int) => st.1.size = sx.size ∧ st.2 = i * (acols : Int))
    0 (arows : Int) (by omega) _ _ ⟨hsx0, by show (0 : Int) = 0 * (acols : Int); omega⟩ ?_) (fun st h => h.1)
  intro i i0 i1 st hst
  obtain ⟨g1, g3⟩ := hst
  refine Safe.bind (P := fun st2 : Array α × Int × Int => st2.1.size = sx.size) ?_ (fun r hr => ?_)
  · refine Safe.mono (forRange_safe_idx
      (fun (j : Int) (st2 : Array α × Int × Int) =>
        st2.1.size = sx.size ∧ st2.2.1 = j * (srows : Int) + i ∧ st2.2.2 = j * (brows : Int))
      0 (bcols : Int) (by omega) _ _
      ⟨g1, by show i = 0 * (srows : Int) + i; omega, by show (0 : Int) = 0 * (brows : Int); omega⟩
      ?_) (fun st2 h => h.1)
    intro j j0 j1 st2 hst2
    obtain ⟨q1, q2, q3⟩ := hst2
    refine Safe.bind
      (P := fun st3 : Array α × Int × Int => st3.1.size = sx.size ∧ st3.2.2 = j * (brows : Int) + (brows : Int))
      ?_ (fun r hr => ?_)
    · refine Safe.mono (forRange_safe_idx
        (fun (k : Int) (st3 : Array α × Int × Int) =>
          st3.1.size = sx.size ∧ st3.2.1 = i * (acols : Int) + k ∧ st3.2.2 = j * (brows : Int) + k)
        0 (brows : Int) (by omega) _ _
        ⟨q1, by show st.2 = i * (acols : Int) + 0; omega, by show st2.2.2 = j * (brows : Int) + 0; omega⟩
        ?_) (fun st3 h => ⟨h.1, h.2.2⟩)
      intro k k0 k1 st3 hst3
      obtain ⟨p1, p2, p3⟩ := hst3
      have hS := idx_lt (A := (scols : Int)) (B := (srows : Int)) j0 (by omega) i0 (by omega)
      have hcm : (scols : Int) * (srows : Int) = (srows : Int) * (scols : Int) := Int.mul_comm _ _
      have hA := idx_lt (A := (arows : Int)) (B := (acols : Int)) i0 i1 k0 (by omega)
      have hB := idx_lt (A := (bcols : Int)) (B := (brows : Int)) j0 j1 k0 k1
      have hsi0 : 0 ≤ so + st2.2.1 := by rw [q2]; omega
      have hsi1 : so + st2.2.1 < (st3.1.size : Int) := by rw [q2, p1]; omega
      refine Safe.bind (rd_ok st3.1 _ hsi0 hsi1) (fun s _ => ?_)
      refine Safe.bind (rd_ok ax (ao + st3.2.1) (by rw [p2]; omega) (by rw [p2]; omega)) (fun a _ => ?_)
      refine Safe.bind (rd_ok bx (bo + st3.2.2) (by rw [p3]; omega) (by rw [p3]; omega)) (fun b _ => ?_)
      refine Safe.bind (wr_ok st3.1 _ _ hsi0 hsi1) (fun sx' hsx' => ?_)
      exact Safe.pure ⟨by show sx'.size = sx.size; rw [hsx', p1],
        by show st3.2.1 + 1 = i * (acols : Int) + (k + 1); omega,
        by show st3.2.2 + 1 = j * (brows : Int) + (k + 1); omega⟩
    · refine Safe.pure ⟨hr.1, ?_, ?_⟩
      · show st2.2.1 + (srows : Int) = (j + 1) * (srows : Int) + i; rw [q2, Int.add_mul, Int.one_mul]; omega
      · show r.2.2 = (j + 1) * (brows : Int); rw [hr.2, Int.add_mul, Int.one_mul]
  · refine Safe.pure ⟨hr, ?_⟩
    show st.2 + (acols : Int) = (i + 1) * (acols : Int); rw [g3, Int.add_mul, Int.one_mul]

/-! ### `gemm`, mode `('F','T','F','F')` -/

/-- **`gemm`** with a row-major `B`, accumulating: `A` occupies `arows*acols` entries from `ao`, `B`
`acols*bcols` from `bo`, `S` `arows*scols` from `so`, with `bcols ≤ scols` -/
theorem gemmTacc_safe (o : KOps α) (ax : Array α) (ao : Int) (arows acols : Nat) (bx : Array α) (bo : Int)
    (bcols : Nat) (sx : Array α) (so : Int) (scols : Nat)
    (ha0 : 0 ≤ ao) (ha : ao + (arows : Int) * (acols : Int) ≤ (ax.size : Int))
    (hb0 : 0 ≤ bo) (hb : bo + (acols : Int) * (bcols : Int) ≤ (bx.size : Int))
    (hs0 : 0 ≤ so) (hs : so + (arows : Int) * (scols : Int) ≤ (sx.size : Int))
    (hc : bcols ≤ scols) :
    Safe (gemmTacc o ax ao arows acols bx bo bcols sx so scols) (fun s' => s'.size = sx.size) := by
  unfold gemmTacc
  refine Safe.bind (P := fun st : Array α × Int => st.1.size = sx.size) ?_ (fun r hr => Safe.pure hr)
  refine Safe.mono (forRange_safe_idx
    (fun (i : Int) (st : Array α × Int) => st.1.size = sx.size ∧ st.2 = i * (acols : Int))
    0 (arows : Int) (by omega) _ _ ⟨rfl, by show (0 : Int) = 0 * (acols : Int); omega⟩ ?_) (fun st h => h.1)
  intro i i0 i1 st hst
  refine Safe.mono (forRange_safe_idx
    (fun (j : Int) (st2 : Array α × Int) => st2.1.size = sx.size ∧ st2.2 = i * (acols : Int) + j)
    0 (acols : Int) (by omega) _ _ ⟨hst.1, by rw [hst.2]; omega⟩ ?_)
    (fun st2 h => ⟨h.1, by rw [h.2, Int.add_mul, Int.one_mul]⟩)
  intro j j0 j1 st2 hst2
  obtain ⟨q1, q2⟩ := hst2
  refine Safe.bind (P := fun st3 : Array α × Int × Int => st3.1.size = sx.size) ?_
    (fun r hr => Safe.pure ⟨hr, by show st2.2 + 1 = i * (acols : Int) + (j + 1); omega⟩)
  refine Safe.mono (forRange_safe_idx
    (fun (k : Int) (st3 : Array α × Int × Int) =>
      st3.1.size = sx.size ∧ st3.2.1 = i * (scols : Int) + k ∧ st3.2.2 = j * (bcols : Int) + k)
    0 (bcols : Int) (by omega) _ _
    ⟨q1, by show i * (scols : Int) = i * (scols : Int) + 0; omega,
      by show j * (bcols : Int) = j * (bcols : Int) + 0; omega⟩ ?_) (fun st3 h => h.1)
  intro k k0 k1 st3 hst3
  obtain ⟨p1, p2, p3⟩ := hst3
  have hS := idx_lt (A := (arows : Int)) (B := (scols : Int)) i0 i1 k0 (by omega)
  have hA := idx_lt (A := (arows : Int)) (B := (acols : Int)) i0 i1 j0 j1
  have hB := idx_lt (A := (acols : Int)) (B := (bcols : Int)) j0 j1 k0 k1
  have hsi0 : 0 ≤ so + st3.2.1 := by rw [p2]; omega
  have hsi1 : so + st3.2.1 < (st3.1.size : Int) := by rw [p2, p1]; omega
  refine Safe.bind (rd_ok st3.1 _ hsi0 hsi1) (fun s _ => ?_)
  refine Safe.bind (rd_ok ax (ao + st2.2) (by rw [q2]; omega) (by rw [q2]; omega)) (fun a _ => ?_)
  refine Safe.bind (rd_ok bx (bo + st3.2.2) (by rw [p3]; omega) (by rw [p3]; omega)) (fun b _ => ?_)
  refine Safe.bind (wr_ok st3.1 _ _ hsi0 hsi1) (fun sx' hsx' => ?_)
  exact Safe.pure ⟨by show sx'.size = sx.size; rw [hsx', p1],
    by show st3.2.1 + 1 = i * (scols : Int) + (k + 1); omega,
    by show st3.2.2 + 1 = j * (bcols : Int) + (k + 1); omega⟩

/-! ### `satisfy_constraints_helper` -/

/-- the arrays of `satisfy_constraints_helper`: `S` a block pattern with `S.n` block rows and `nbc` block
columns holding `rpb*cpb` values per block; `Bt` has `nbc*cpb` rows of `nd` values, `UB` `S.n*rpb` rows of
`nd` values, `BtBinv` one `nd × nd` block per block row -/
structure WFsc (S : Csr α) (nbc rpb cpb nd : Nat) (bt ub btbinv : Array α) : Prop where
  pat : WFm (patS S.n S.ap S.aj) nbc
  data : (S.aj.size : Int) * ((rpb : Int) * (cpb : Int)) ≤ (S.ax.size : Int)
  bt : ((nbc : Int)) * ((nd : Int) * (cpb : Int)) ≤ (bt.size : Int)
  ub : (S.n : Int) * ((nd : Int) * (rpb : Int)) ≤ (ub.size : Int)
  btbinv : (S.n : Int) * ((nd : Int) * (nd : Int)) ≤ (btbinv.size : Int)

def SCInv (S : Csr α) (rpb cpb nd : Nat) (st : SCSt α) : Prop :=
  st.1.size = S.ax.size ∧ (st.2.1.size : Int) = (rpb : Int) * (cpb : Int) ∧
    (st.2.2.size : Int) = (nd : Int) * (cpb : Int)

theorem scBlock_safe (o : KOps α) (rpb cpb nd nbc : Nat) (bt ub btbinv : Array α) (S : Csr α)
    (h : WFsc S nbc rpb cpb nd bt ub btbinv) (i : Int) (i0 : 0 ≤ i) (i1 : i < (S.n : Int)) (j : Int)
    (j1 : S.ap.getD i.toNat 0 ≤ j) (j2 : j < S.ap.getD (i.toNat + 1) 0) (st : SCSt α)
    (hst : SCInv S rpb cpb nd st) :
    Safe (scBlock o rpb cpb nd bt ub btbinv S i j st) (SCInv S rpb cpb nd) := by
  obtain ⟨h1, h2, h3⟩ := hst
  have hr := row_range_m (patS S.n S.ap S.aj) h.pat i.toNat (by show i.toNat < S.n; omega) j j1 j2
  have hr1 : j.toNat < S.aj.size := hr.2.1
  have nn : 0 ≤ (nd : Int) * (nd : Int) := Int.mul_nonneg (by omega) (by omega)
  have nc : 0 ≤ (nd : Int) * (cpb : Int) := Int.mul_nonneg (by omega) (by omega)
  have nr : 0 ≤ (nd : Int) * (rpb : Int) := Int.mul_nonneg (by omega) (by omega)
  have rc : 0 ≤ (rpb : Int) * (cpb : Int) := Int.mul_nonneg (by omega) (by omega)
  have c1 : (cpb : Int) * (nd : Int) = (nd : Int) * (cpb : Int) := Int.mul_comm _ _
  have c2 : (rpb : Int) * (nd : Int) = (nd : Int) * (rpb : Int) := Int.mul_comm _ _
  have eI := blk_ext_gen S.n _ _ nn h.btbinv i i0 (by omega)
  have eU := blk_ext_gen S.n _ _ nr h.ub i i0 (by omega)
  have eS := blk_ext_gen S.aj.size _ _ rc h.data j hr.1 hr1
  unfold scBlock
  refine Safe.bind (rd_safe S.aj j hr.1 hr1) (fun col hcol => ?_)
  have hc := col_ok (patS S.n S.ap S.aj) h.pat j hr.1 hr1 col hcol
  have eB := blk_ext_gen nbc _ _ nc h.bt col hc.1 hc.2
  refine Safe.bind (gemmFT_safe o btbinv _ nd nd bt _ nd cpb st.2.2 0 nd cpb eI.1 eI.2 eB.1 (by omega)
    (Int.le_refl 0) (by omega) (Nat.le_refl _) (Nat.le_refl _) (Nat.le_refl _)) (fun c hcs => ?_)
  refine Safe.bind (gemmFF_safe o ub _ rpb nd c 0 nd cpb st.2.1 0 rpb cpb eU.1 (by omega) (Int.le_refl 0)
    (by rw [hcs]; omega) (Int.le_refl 0) (by omega) (Nat.le_refl _) (Int.le_refl _)) (fun upd hupd => ?_)
  refine Safe.bind (P := fun sx : Array α => sx.size = S.ax.size) ?_
    (fun sx hsx => Safe.pure ⟨hsx, by show (upd.size : Int) = _; rw [hupd]; exact h2,
      by show (c.size : Int) = _; rw [hcs]; exact h3⟩)
  apply forRange_safe (fun sx : Array α => sx.size = S.ax.size) _ _ _ _ h1
  intro k k0 k1 sx hsx
  refine Safe.bind (rd_ok sx _ (by omega) (by rw [hsx]; omega)) (fun v _ => ?_)
  refine Safe.bind (rd_ok upd k k0 (by rw [hupd]; omega)) (fun u _ => ?_)
  exact Safe.mono (wr_ok sx _ _ (by omega) (by rw [hsx]; omega)) (fun a' h' => by rw [h', hsx])

/-- **`satisfy_constraints_helper`**, any (non-square) block shape `rpb × cpb` and any `NullDim`: both `gemm`
calls (column-major `C`, then `Update`) and the update of `Sx` stay inside `x`, `y`, `z`, `Sx` and the
work vectors `Update`, `C` -/
theorem satisfyConstraints_safe (o : KOps α) (rpb cpb nd nbc : Nat) (bt ub btbinv : Array α) (S : Csr α)
    (h : WFsc S nbc rpb cpb nd bt ub btbinv) :
    Safe (satisfyConstraints o rpb cpb nd bt ub btbinv S) (fun st => st.1.size = S.ax.size) := by
  unfold satisfyConstraints
  have hcsz : ((Array.replicate (nd * cpb) o.zero : Array α).size : Int) = (nd : Int) * (cpb : Int) := by
    simp
  refine Safe.bind (P := fun c : Array α => (c.size : Int) = (nd : Int) * (cpb : Int)) ?_ (fun c hc => ?_)
  · apply forRange_safe (fun c : Array α => (c.size : Int) = (nd : Int) * (cpb : Int)) _ _ _ _ hcsz
    intro i i0 i1 c hc
    exact Safe.mono (wr_ok c i _ i0 (by omega)) (fun a' h' => by rw [h']; exact hc)
  refine Safe.mono (forRange_safe (SCInv S rpb cpb nd) _ _ _ _ ⟨rfl, by simp, hc⟩ ?_) (fun st hst => hst.1)
  intro i i0 i1 st hst
  obtain ⟨q1, q2⟩ := rd_ap_safe (patS S.n S.ap S.aj) h.pat i i0 i1
  refine Safe.bind q1 (fun s hs => ?_)
  refine Safe.bind q2 (fun e he => ?_)
  have hs' : s = S.ap.getD i.toNat 0 := hs
  have he' : e = S.ap.getD (i.toNat + 1) 0 := he
  subst hs'; subst he'
  apply forRange_safe (SCInv S rpb cpb nd) _ _ _ _ hst
  intro j j1 j2 st' hst'
  exact scBlock_safe o rpb cpb nd nbc bt ub btbinv S h i i0 i1 j j1 j2 st' hst'

/-! ### `calc_BtB` -/

/-- offset of row `m` in the packed upper triangle of an `nd × nd` matrix: `Σ_{m' < m} (nd - m')` -/
def tri (nd : Int) : Nat → Int
  | 0 => 0
  | m+1 => tri nd m + (nd - (m : Int))

theorem tri_mono (nd : Nat) (m : Nat) : ∀ d : Nat, m + d ≤ nd → tri nd m ≤ tri nd (m + d) := by
  intro d
  induction d with
  | zero => intro _; exact Int.le_refl _
  | succ d ih =>
    intro h
    have h1 := ih (by omega)
    have e : tri nd (m + (d + 1)) = tri nd (m + d) + ((nd : Int) - ((m + d : Nat) : Int)) := rfl
    rw [e]; omega

theorem tri_nonneg (nd m : Nat) (h : m ≤ nd) : 0 ≤ tri nd m := by
  have := tri_mono nd 0 m (by omega)
  rw [Nat.zero_add] at this
  exact this

/-- row `m < nd` of the packed triangle (`nd - m` entries from `tri m`) ends at or before `tri nd` -/
theorem tri_row (nd : Nat) (m : Int) (m0 : 0 ≤ m) (m1 : m < (nd : Int)) :
    0 ≤ tri nd m.toNat ∧ tri nd (m + 1).toNat = tri nd m.toNat + ((nd : Int) - m) ∧
      tri nd (m + 1).toNat ≤ tri nd nd := by
  have e1 : (m + 1).toNat = m.toNat + 1 := by omega
  have e2 : tri nd (m.toNat + 1) = tri nd m.toNat + ((nd : Int) - (m.toNat : Int)) := rfl
  have e3 : ((m.toNat : Nat) : Int) = m := by omega
  refine ⟨tri_nonneg nd m.toNat (by omega), by rw [e1, e2, e3], ?_⟩
  have := tri_mono nd (m.toNat + 1) (nd - (m.toNat + 1)) (by omega)
  have e4 : m.toNat + 1 + (nd - (m.toNat + 1)) = nd := by omega
  rw [e4] at this
  rw [e1]; exact this

/-- the closed form: `2·tri m = m·(2·nd - m + 1)`, so `tri nd = nd(nd+1)/2 = BsqCols` -/
theorem tri_closed (nd : Int) (m : Nat) : 2 * tri nd m = (m : Int) * (2 * nd - (m : Int) + 1) := by
  induction m with
  | zero => simp [tri]
  | succ m ih =>
    have e : tri nd (m + 1) = tri nd m + (nd - (m : Int)) := rfl
    rw [e, Int.mul_add, ih]
    push_cast
    grind

theorem tri_full (nd : Nat) : 2 * tri nd nd = (nd : Int) * ((nd : Int) + 1) := by
  rw [tri_closed]
  have : 2 * (nd : Int) - (nd : Int) + 1 = (nd : Int) + 1 := by omega
  rw [this]

theorem btbDiag_safe (o : KOps α) (bsq : Array α) (nd : Nat) (k bsqCols : Int) (loc : Array α)
    (hloc : (loc.size : Int) = (nd : Int) * (nd : Int)) (hb0 : 0 ≤ k * bsqCols)
    (hb1 : k * bsqCols + tri nd nd ≤ (bsq.size : Int)) :
    Safe (btbDiag o bsq nd k bsqCols loc) (fun l => l.size = loc.size) := by
  unfold btbDiag
  refine Safe.bind (P := fun st : Array α × Int × Int => st.1.size = loc.size) ?_ (fun r hr => Safe.pure hr)
  refine Safe.mono (forRange_safe_idx
    (fun (m : Int) (st : Array α × Int × Int) =>
      st.1.size = loc.size ∧ st.2.1 = m * (nd : Int) + m ∧ st.2.2 = k * bsqCols + tri nd m.toNat)
    0 (nd : Int) (by omega) _ _
    ⟨rfl, by show (0 : Int) = 0 * (nd : Int) + 0; omega, by show k * bsqCols = k * bsqCols + tri nd 0; simp [tri]⟩ ?_)
    (fun st h => h.1)
  intro m m0 m1 st hst
  obtain ⟨p1, p2, p3⟩ := hst
  have hix := idx_lt (A := (nd : Int)) (B := (nd : Int)) m0 m1 m0 m1
  obtain ⟨t0, t1, t2⟩ := tri_row nd m m0 m1
  refine Safe.bind (rd_ok st.1 _ (by rw [p2]; omega) (by rw [p2, p1, hloc]; omega)) (fun l _ => ?_)
  refine Safe.bind (rd_ok bsq _ (by rw [p3]; omega) (by rw [p3]; omega)) (fun v _ => ?_)
  refine Safe.bind (wr_ok st.1 _ _ (by rw [p2]; omega) (by rw [p2, p1, hloc]; omega)) (fun loc' hloc' => ?_)
  refine Safe.pure ⟨by show loc'.size = loc.size; rw [hloc', p1], ?_, ?_⟩
  · show st.2.1 + (nd : Int) + 1 = (m + 1) * (nd : Int) + (m + 1); rw [p2, Int.add_mul, Int.one_mul]; omega
  · show st.2.2 + ((nd : Int) - m) = k * bsqCols + tri nd (m + 1).toNat; rw [p3, t1]; omega

theorem btbOff_safe (o : KOps α) (bsq : Array α) (nd : Nat) (k bsqCols : Int) (loc : Array α)
    (hloc : (loc.size : Int) = (nd : Int) * (nd : Int)) (hb0 : 0 ≤ k * bsqCols)
    (hb1 : k * bsqCols + tri nd nd ≤ (bsq.size : Int)) :
    Safe (btbOff o bsq nd k bsqCols loc) (fun l => l.size = loc.size) := by
  unfold btbOff
  refine Safe.bind (P := fun st : Array α × Int => st.1.size = loc.size) ?_ (fun r hr => Safe.pure hr)
  refine Safe.mono (forRange_safe_idx
    (fun (m : Int) (st : Array α × Int) => st.1.size = loc.size ∧ st.2 = k * bsqCols + tri nd m.toNat)
    0 (nd : Int) (by omega) _ _ ⟨rfl, by show k * bsqCols = k * bsqCols + tri nd 0; simp [tri]⟩ ?_)
    (fun st h => h.1)
  intro m m0 m1 st hst
  obtain ⟨p1, p3⟩ := hst
  obtain ⟨t0, t1, t2⟩ := tri_row nd m m0 m1
  refine Safe.bind (P := fun st2 : Array α × Int => st2.1.size = loc.size) ?_
    (fun r hr => Safe.pure ⟨hr, by show st.2 + ((nd : Int) - m) = k * bsqCols + tri nd (m + 1).toNat; rw [p3, t1]; omega⟩)
  refine Safe.mono (forRange_safe_idx
    (fun (n : Int) (st2 : Array α × Int) => st2.1.size = loc.size ∧ st2.2 = n - m)
    (m + 1) (nd : Int) (by omega) _ _ ⟨p1, by show (1 : Int) = m + 1 - m; omega⟩ ?_) (fun st2 h => h.1)
  intro n n1 n2 st2 hst2
  obtain ⟨q1, q2⟩ := hst2
  have hmn := idx_lt (A := (nd : Int)) (B := (nd : Int)) m0 m1 (by omega : 0 ≤ n) n2
  have hnm := idx_lt (A := (nd : Int)) (B := (nd : Int)) (by omega : 0 ≤ n) n2 m0 m1
  refine Safe.bind (rd_ok bsq _ (by rw [p3, q2]; omega) (by rw [p3, q2]; omega)) (fun e _ => ?_)
  refine Safe.bind (rd_ok st2.1 _ hmn.1 (by rw [q1, hloc]; exact hmn.2)) (fun l1 _ => ?_)
  refine Safe.bind (wr_ok st2.1 _ _ hmn.1 (by rw [q1, hloc]; exact hmn.2)) (fun loc1 hloc1 => ?_)
  refine Safe.bind (rd_ok loc1 _ hnm.1 (by rw [hloc1, q1, hloc]; exact hnm.2)) (fun l2 _ => ?_)
  refine Safe.bind (wr_ok loc1 _ _ hnm.1 (by rw [hloc1, q1, hloc]; exact hnm.2)) (fun loc2 hloc2 => ?_)
  exact Safe.pure ⟨by show loc2.size = loc.size; rw [hloc2, hloc1, q1], by show st2.2 + 1 = n + 1 - m; omega⟩

/-- **`calc_BtB`**: `S` a structurally valid block pattern with `nnodes` block rows and `nbc` block columns
of `cpb` columns each, `Bsq` with `nbc*cpb` rows of `BsqCols ≥ NullDim(NullDim+1)/2` values (packed upper
triangles), `BtB` with `nnodes` blocks of `NullDim²` values.  The running counter `BsqCounter` stays inside
row `k` of `Bsq` because it is `k*BsqCols + Σ_{m' < m} (NullDim - m')`. -/
theorem calcBtB_safe (o : KOps α) (nd nnodes cpb nbc : Nat) (bsq : Array α) (bsqCols : Int) (x : Array α)
    (sp sj : Array Int) (hS : WFm (patS nnodes sp sj) nbc)
    (hcols : (nd : Int) * ((nd : Int) + 1) ≤ 2 * bsqCols)
    (hbsq : (nbc : Int) * (cpb : Int) * bsqCols ≤ (bsq.size : Int))
    (hx : (nnodes : Int) * ((nd : Int) * (nd : Int)) ≤ (x.size : Int)) :
    Safe (calcBtB o nd nnodes cpb bsq bsqCols x sp sj) (fun st => st.1.size = x.size) := by
  have htri : tri nd nd ≤ bsqCols := by have := tri_full nd; omega
  have hbc0 : 0 ≤ bsqCols := by have := tri_nonneg nd nd (Nat.le_refl _); omega
  have nn : 0 ≤ (nd : Int) * (nd : Int) := Int.mul_nonneg (by omega) (by omega)
  unfold calcBtB
  refine Safe.mono (forRange_safe
    (fun st : Array α × Array α => st.1.size = x.size ∧ (st.2.size : Int) = (nd : Int) * (nd : Int))
    _ _ _ _ ⟨rfl, by simp⟩ ?_) (fun st h => h.1)
  intro i i0 i1 st hst
  have hin : i.toNat < nnodes := by omega
  obtain ⟨q1, q2⟩ := rd_ap_safe (patS nnodes sp sj) hS i i0 i1
  refine Safe.bind q1 (fun s hs => ?_)
  refine Safe.bind q2 (fun e he => ?_)
  have hs' : s = sp.getD i.toNat 0 := hs
  have he' : e = sp.getD (i.toNat + 1) 0 := he
  subst hs'; subst he'
  refine Safe.bind (P := fun l : Array α => (l.size : Int) = (nd : Int) * (nd : Int)) ?_ (fun loc0 hloc0 => ?_)
  · apply forRange_safe (fun l : Array α => (l.size : Int) = (nd : Int) * (nd : Int)) _ _ _ _ hst.2
    intro k k0 k1 l hl
    exact Safe.mono (wr_ok l k _ k0 (by omega)) (fun a' h' => by rw [h']; exact hl)
  refine Safe.bind (P := fun l : Array α => (l.size : Int) = (nd : Int) * (nd : Int)) ?_ (fun loc1 hloc1 => ?_)
  · apply forRange_safe (fun l : Array α => (l.size : Int) = (nd : Int) * (nd : Int)) _ _ _ _ hloc0
    intro j j1 j2 l hl
    have hr := row_range_m (patS nnodes sp sj) hS i.toNat hin j j1 j2
    refine Safe.bind (rd_safe sj j hr.1 hr.2.1) (fun c hc => ?_)
    have hcc := col_ok (patS nnodes sp sj) hS j hr.1 hr.2.1 c hc
    have hce := vec_extI (nbc : Int) (cpb : Int) c (by omega) hcc.1 (by omega)
    apply forRange_safe (fun l : Array α => (l.size : Int) = (nd : Int) * (nd : Int)) _ _ _ _ hl
    intro k k1 k2 l' hl'
    have hke := vec_extI ((nbc : Int) * (cpb : Int)) bsqCols k hbc0 (by omega) (by omega)
    refine Safe.bind (btbDiag_safe o bsq nd k bsqCols l' hl' hke.1 (by omega)) (fun l2 hl2 => ?_)
    exact Safe.mono (btbOff_safe o bsq nd k bsqCols l2 (by rw [hl2]; exact hl') hke.1 (by omega))
      (fun l3 hl3 => by rw [hl3, hl2]; exact hl')
  have hie := vec_extI (nnodes : Int) _ i nn i0 i1
  refine Safe.bind (P := fun x' : Array α => x'.size = x.size) ?_ (fun x' hx' => Safe.pure ⟨hx', hloc1⟩)
  apply forRange_safe (fun x' : Array α => x'.size = x.size) _ _ _ _ hst.1
  intro k k0 k1 x' hx'
  refine Safe.bind (rd_ok loc1 k k0 (by omega)) (fun l _ => ?_)
  exact Safe.mono (wr_ok x' _ _ (by omega) (by rw [hx']; omega)) (fun a' h' => by rw [h', hx'])

/-! ### `incomplete_mat_mult_bsr` -/

/-- the pointer array `S`: every entry is `NULL` (`-1`) or the offset of a block of `blk` values inside `Sx` -/
def PtrOK (nbcol : Nat) (blk : Int) (sxsize : Nat) (ptr : Array Int) : Prop :=
  ptr.size = nbcol ∧ ∀ c, c < nbcol → ptr.getD c 0 = -1 ∨ (0 ≤ ptr.getD c 0 ∧ ptr.getD c 0 + blk ≤ (sxsize : Int))

theorem imbMark_safe (S : Csr α) (nbcol : Nat) (hS : WFm (patS S.n S.ap S.aj) nbcol) (blk : Int)
    (sxsize : Nat) (i : Int) (i0 : 0 ≤ i) (i1 : i < (S.n : Int)) (v : Int → Int)
    (hv : ∀ jj, 0 ≤ jj → jj.toNat < S.aj.size → v jj = -1 ∨ (0 ≤ v jj ∧ v jj + blk ≤ (sxsize : Int)))
    (ptr : Array Int) (hp : PtrOK nbcol blk sxsize ptr) :
    Safe (imbMark S (S.ap.getD i.toNat 0) (S.ap.getD (i.toNat + 1) 0) v ptr) (PtrOK nbcol blk sxsize) := by
  unfold imbMark
  apply forRange_safe (PtrOK nbcol blk sxsize) _ _ _ _ hp
  intro jj j1 j2 p hpp
  have hr := row_range_m (patS S.n S.ap S.aj) hS i.toNat (by show i.toNat < S.n; omega) jj j1 j2
  have hr1 : jj.toNat < S.aj.size := hr.2.1
  refine Safe.bind (rd_safe S.aj jj hr.1 hr1) (fun c hc => ?_)
  have hcc := col_ok (patS S.n S.ap S.aj) hS jj hr.1 hr1 c hc
  refine Safe.mono (wr_val p c (v jj) hcc.1 (by rw [hpp.1]; exact hcc.2)) (fun p' hp' => ?_)
  refine ⟨by rw [hp']; simp [hpp.1], fun c' hc' => ?_⟩
  rw [hp', getD_setInt]
  by_cases hcond : c.toNat = c' ∧ c.toNat < p.size
  · rw [if_pos hcond]; exact hv jj hr.1 hr1
  · rw [if_neg hcond]; exact hpp.2 c' hc'

/-- BSR operands of `incomplete_mat_mult_bsr`: `A` has `S.n` (or more) block rows and `B.n` block columns
of `browA × bcolA` blocks, `B` has `nbcol` block columns of `bcolA × bcolB` blocks, `S` is an
`S.n × nbcol` block pattern of `browA × bcolB` blocks -/
structure WFimb (A B S : Csr α) (nbcol browA bcolA bcolB : Nat) : Prop where
  patA : WFm (patS A.n A.ap A.aj) B.n
  patB : WFm (patS B.n B.ap B.aj) nbcol
  patSs : WFm (patS S.n S.ap S.aj) nbcol
  rows : S.n ≤ A.n
  dataA : (A.aj.size : Int) * ((browA : Int) * (bcolA : Int)) ≤ (A.ax.size : Int)
  dataB : (B.aj.size : Int) * ((bcolA : Int) * (bcolB : Int)) ≤ (B.ax.size : Int)
  dataS : (S.aj.size : Int) * ((browA : Int) * (bcolB : Int)) ≤ (S.ax.size : Int)

theorem imbAcc_safe (o : KOps α) (A B S : Csr α) (nbcol browA bcolA bcolB : Nat)
    (h : WFimb A B S nbcol browA bcolA bcolB) (ptr : Array Int)
    (hp : PtrOK nbcol ((browA : Int) * (bcolB : Int)) S.ax.size ptr) (one : Bool)
    (hone : one = true → browA * bcolA = 1 ∧ bcolA * bcolB = 1 ∧ browA * bcolB = 1)
    (jj : Int) (jj0 : 0 ≤ jj) (jj1 : jj.toNat < A.aj.size) (kk : Int) (kk0 : 0 ≤ kk)
    (kk1 : kk.toNat < B.aj.size) (sx : Array α) (hsx : sx.size = S.ax.size) :
    Safe (imbAcc o A B ptr one browA bcolA bcolB jj kk sx) (fun sx' => sx'.size = S.ax.size) := by
  have ab : 0 ≤ (browA : Int) * (bcolA : Int) := Int.mul_nonneg (by omega) (by omega)
  have bb : 0 ≤ (bcolA : Int) * (bcolB : Int) := Int.mul_nonneg (by omega) (by omega)
  have eA := blk_ext_gen A.aj.size _ _ ab h.dataA jj jj0 jj1
  have eB := blk_ext_gen B.aj.size _ _ bb h.dataB kk kk0 kk1
  unfold imbAcc
  refine Safe.bind (rd_safe B.aj kk kk0 kk1) (fun k hk => ?_)
  have hkc := col_ok (patS B.n B.ap B.aj) h.patB kk kk0 kk1 k hk
  refine Safe.bind (rd_safe ptr k hkc.1 (by rw [hp.1]; exact hkc.2)) (fun sk hsk => ?_)
  have hsk' : sk = ptr.getD k.toNat 0 := hsk
  by_cases hnull : sk ≠ -1
  · rw [if_pos hnull]
    have hv := hp.2 k.toNat hkc.2
    rw [← hsk'] at hv
    have hv' : 0 ≤ sk ∧ sk + (browA : Int) * (bcolB : Int) ≤ (S.ax.size : Int) := by
      rcases hv with hv | hv
      · exact absurd hv hnull
      · exact hv
    by_cases ho : one = true
    · rw [if_pos ho]
      obtain ⟨o1, o2, o3⟩ := hone ho
      have o1' : (browA : Int) * (bcolA : Int) = 1 := by rw [← Int.natCast_mul, o1]; rfl
      have o2' : (bcolA : Int) * (bcolB : Int) = 1 := by rw [← Int.natCast_mul, o2]; rfl
      have o3' : (browA : Int) * (bcolB : Int) = 1 := by rw [← Int.natCast_mul, o3]; rfl
      have hA1 : (A.aj.size : Int) ≤ (A.ax.size : Int) := by have := h.dataA; rw [o1', Int.mul_one] at this; exact this
      have hB1 : (B.aj.size : Int) ≤ (B.ax.size : Int) := by have := h.dataB; rw [o2', Int.mul_one] at this; exact this
      refine Safe.bind (rd_ok sx sk hv'.1 (by rw [hsx]; omega)) (fun s _ => ?_)
      refine Safe.bind (rd_ok A.ax jj jj0 (by omega)) (fun a _ => ?_)
      refine Safe.bind (rd_ok B.ax kk kk0 (by omega)) (fun b _ => ?_)
      exact Safe.mono (wr_ok sx sk _ hv'.1 (by rw [hsx]; omega)) (fun a' h' => by rw [h', hsx])
    · rw [if_neg ho]
      exact Safe.mono (gemmTacc_safe o A.ax _ browA bcolA B.ax _ bcolB sx sk bcolB eA.1 eA.2 eB.1 eB.2 hv'.1
        (by rw [hsx]; exact hv'.2) (Nat.le_refl _)) (fun a' h' => by rw [h', hsx])
  · rw [if_neg hnull]; exact Safe.pure hsx

/-- **`incomplete_mat_mult_bsr`**, any (non-square) block shapes including the scalar branch: the pointer
array `S` (offsets into `Sx`, `-1` = `NULL`) only ever holds `NULL` or the offset of a stored block of the
current row, so every `gemm` / scalar accumulation through `S[k]` stays inside `Sx` -/
theorem incompleteMatMultBsr_safe (o : KOps α) (A B S : Csr α) (nbcol browA bcolA bcolB : Nat)
    (h : WFimb A B S nbcol browA bcolA bcolB) :
    Safe (incompleteMatMultBsr o A B S nbcol browA bcolA bcolB) (fun st => st.1.size = S.ax.size) := by
  have sb : 0 ≤ (browA : Int) * (bcolB : Int) := Int.mul_nonneg (by omega) (by omega)
  unfold incompleteMatMultBsr
  refine Safe.mono (forRange_safe
    (fun st : Array α × Array Int => st.1.size = S.ax.size ∧ PtrOK nbcol ((browA : Int) * (bcolB : Int)) S.ax.size st.2)
    _ _ _ _ ⟨rfl, by simp, fun c hc => Or.inl (by simp [hc])⟩ ?_) (fun st hst => hst.1)
  intro i i0 i1 st hst
  obtain ⟨q1, q2⟩ := rd_ap_safe (patS S.n S.ap S.aj) h.patSs i i0 i1
  refine Safe.bind q1 (fun s hs => ?_)
  refine Safe.bind q2 (fun e he => ?_)
  have hs' : s = S.ap.getD i.toNat 0 := hs
  have he' : e = S.ap.getD (i.toNat + 1) 0 := he
  subst hs'; subst he'
  refine Safe.bind (imbMark_safe S nbcol h.patSs _ S.ax.size i i0 i1 _
    (fun jj j0 j1 => Or.inr (blk_ext_gen S.aj.size _ _ sb h.dataS jj j0 j1)) st.2 hst.2) (fun ptr hptr => ?_)
  have hiA : i < (A.n : Int) := by have := h.rows; omega
  obtain ⟨a1, a2⟩ := rd_ap_safe (patS A.n A.ap A.aj) h.patA i i0 hiA
  refine Safe.bind a1 (fun as has => ?_)
  refine Safe.bind a2 (fun ae hae => ?_)
  have has' : as = A.ap.getD i.toNat 0 := has
  have hae' : ae = A.ap.getD (i.toNat + 1) 0 := hae
  subst has'; subst hae'
  refine Safe.bind (P := fun sx : Array α => sx.size = S.ax.size) ?_ (fun sx hsx => ?_)
  · apply forRange_safe (fun sx : Array α => sx.size = S.ax.size) _ _ _ _ hst.1
    intro jj j1 j2 sx hsx
    have hr := row_range_m (patS A.n A.ap A.aj) h.patA i.toNat (by show i.toNat < A.n; omega) jj j1 j2
    have hr1 : jj.toNat < A.aj.size := hr.2.1
    refine Safe.bind (rd_safe A.aj jj hr.1 hr1) (fun j hj => ?_)
    have hjc := col_ok (patS A.n A.ap A.aj) h.patA jj hr.1 hr1 j hj
    obtain ⟨b1, b2⟩ := rd_ap_safe (patS B.n B.ap B.aj) h.patB j hjc.1 (by show j < (B.n : Int); omega)
    refine Safe.bind b1 (fun ks hks => ?_)
    refine Safe.bind b2 (fun ke hke => ?_)
    have hks' : ks = B.ap.getD j.toNat 0 := hks
    have hke' : ke = B.ap.getD (j.toNat + 1) 0 := hke
    subst hks'; subst hke'
    apply forRange_safe (fun sx : Array α => sx.size = S.ax.size) _ _ _ _ hsx
    intro kk k1 k2 sx' hsx'
    have hrk := row_range_m (patS B.n B.ap B.aj) h.patB j.toNat (by show j.toNat < B.n; exact hjc.2) kk k1 k2
    exact imbAcc_safe o A B S nbcol browA bcolA bcolB h ptr hptr _ (fun ho => of_decide_eq_true ho)
      jj hr.1 hr1 kk hrk.1 hrk.2.1 sx' hsx'
  refine Safe.bind (imbMark_safe S nbcol h.patSs _ S.ax.size i i0 i1 _ (fun jj j0 j1 => Or.inl rfl) ptr hptr)
    (fun ptr2 hptr2 => ?_)
  exact Safe.pure ⟨hsx, hptr2⟩

end PyamgV.C17
