import PyamgV.Proofs.ExtC05BridgeF3

/-! PyamgV (C05, extension E23, complex case, part F4): **the executed matrix `denseM` is the matrix of the
textbook operator `MopL (Ac⁻¹) c levels`, over an arbitrary field** (in particular the Gaussian rationals
`CRat` of the complex cycle model) -- the first half of `Proofs/ExtC05RefineSym.lean` re-proved without the
order instances; generated from the originals. `CF.C05.precOp` is the order-free twin of `C05.precOp`. -/
set_option linter.unusedSectionVars false
set_option linter.unusedVariables false
set_option linter.unusedSimpArgs false

/-! ### from ExtC05RefineSym.lean -/
namespace PyamgV.CF.C05
open PyamgV PyamgV.C05
open PyamgV Finset
set_option linter.unusedSectionVars false
variable {R : Type} [Field R] [DecidableEq R]
theorem wfls_abs (nc : Nat) : ∀ (Ls : List (Lvl R)) (n : Nat), PyamgV.C05.Shaped nc n Ls → (∀ L ∈ Ls, LvlOK L) →
    WFLs (Ls.map absLvl) := by
  intro Ls
  induction Ls with
  | nil => intro _ _ _; trivial
  | cons L rest ih =>
    intro n hs hok
    obtain ⟨hAn, _, hC, hrest⟩ := hs
    obtain ⟨hCn, hdiag⟩ := hok L (by simp)
    have hC' : ∀ i ∈ L.C, i < L.A.n := by rw [hAn]; exact hC
    have hlin := fun s => sm_isLinIter L.A.n (rowOf L.A) (diagFn L.A) hdiag L.C (fpts L.A L.C) hC'
      (fpts_lt L.A L.C) hCn (fpts_nodup L.A L.C) s
    exact ⟨hlin L.pre, hlin L.post, ih L.R.n hrest (fun L' hL' => hok L' (by simp [hL']))⟩
theorem map_toLevel (Ls : List (Lvl R)) :
    Ls.map (fun L => (absLvl L).toLevel) = (Ls.map absLvl).map (·.toLevel) := by
  simp [List.map_map]
/-- **one cycle of the executable model is `x ← x + M (b − A x)` with the textbook operator**
`M = MopL S c levels` composed from the smoother operators `smOp`, `P`, `R`, the level matrices and
the inverse `S` of the coarsest matrix -/
theorem solveLvl_affine (ofRat : Rat → R) (hof : ∀ q, ofRat q = (q : R)) (Ac : K.Csr R)
    (S : (Nat → R) →ₗ[R] (Nat → R)) (hS : CoarseInv Ac S) (c : Cyc) (L : Lvl R) (Ls : List (Lvl R))
    (n : Nat) (hshape : PyamgV.C05.Shaped Ac.n n (L :: Ls)) (hok : ∀ L' ∈ L :: Ls, LvlOK L')
    (x b y : Array R) (hx : x.size = n) (hb : b.size = n)
    (h : solveLvl ofRat Ac c (L :: Ls) x b = some y) :
    y.size = n ∧
    fn y = fn x + MopL S (PyamgV.C05.ctype c) ((L :: Ls).map absLvl) (fn b - csrOp L.A.n (rowOf L.A) (fn x)) := by
  obtain ⟨h1, h2⟩ := solveLvl_refines ofRat hof Ac (fun v => S v)
    (fun b y hb h => solveDense_csr Ac S hS b y hb h) (L :: Ls) c n x b y hshape hx hb h
  refine ⟨h1, ?_⟩
  rw [h2, map_toLevel]
  exact cycL_isLinIter S (Ls.map absLvl) (PyamgV.C05.ctype c) (absLvl L) (wfls_abs Ac.n (L :: Ls) n hshape hok)
    (fn x) (fn b)
/-- the operator of the preconditioner the model hierarchy defines -/
def precOp (S : (Nat → R) →ₗ[R] (Nat → R)) (c : Cyc) (Ls : List (Lvl R)) : (Nat → R) →ₗ[R] (Nat → R) :=
  MopL S (PyamgV.C05.ctype c) (Ls.map absLvl)
/-- one application of the preconditioner (zero initial guess) is `M b` -- also for the one-level
hierarchy, where `M = S` -/
theorem solveLvl_zero (ofRat : Rat → R) (hof : ∀ q, ofRat q = (q : R)) (Ac : K.Csr R)
    (S : (Nat → R) →ₗ[R] (Nat → R)) (hS : CoarseInv Ac S) (c : Cyc) (Ls : List (Lvl R))
    (n : Nat) (hshape : PyamgV.C05.Shaped Ac.n n Ls) (hok : ∀ L' ∈ Ls, LvlOK L')
    (b y : Array R) (hb : b.size = n)
    (h : solveLvl ofRat Ac c Ls (zeros n) b = some y) :
    y.size = n ∧ fn y = precOp S c Ls (fn b) := by
  have hz : (zeros n : Array R).size = n := by rw [zeros_eq, zeros_size]
  have hzf : fn (zeros n : Array R) = 0 := by rw [zeros_eq]; exact zeros_refines _
  cases Ls with
  | nil =>
    obtain ⟨h1, h2⟩ := solveLvl_refines ofRat hof Ac (fun v => S v)
      (fun b y hb h => solveDense_csr Ac S hS b y hb h) [] c n _ b y hshape hz hb h
    refine ⟨h1, ?_⟩
    rw [h2]
    cases c <;> rfl
  | cons L rest =>
    obtain ⟨h1, h2⟩ := solveLvl_affine ofRat hof Ac S hS c L rest n hshape hok _ b y hz hb h
    refine ⟨h1, ?_⟩
    rw [h2, hzf]
    simp [precOp]
theorem fn_unit (n j : Nat) (hj : j < n) : fn (unit n j : Array R) = Pi.single j 1 := by
  funext i
  unfold unit
  rw [fn_map_range, Pi.single_apply]
  by_cases hi : i < n
  · rw [if_pos hi]
  · rw [if_neg hi, if_neg (by omega)]
theorem unit_size (n j : Nat) : (unit n j : Array R).size = n := by simp [unit]
theorem mget_mOfCols (n : Nat) (cols : List (Array R)) (i j : Nat) (hi : i < n) (hj : j < cols.length) :
    mget (mOfCols n cols) i j = K.rd (cols.getD j #[]) i := by
  unfold mget mOfCols
  rw [getD_map_range n _ i #[] hi]
  unfold K.rd
  simp [Array.getD_eq_getD_getElem?, List.getD_eq_getElem?_getD, hj]
theorem denseM_unfold (ofRat : Rat → R) (Ac : K.Csr R) (c : Cyc) (Ls : List (Lvl R)) :
    denseM ofRat Ac c Ls =
      ((List.range (topN Ac Ls)).mapM (fun j =>
        solveLvl ofRat Ac c Ls (zeros (topN Ac Ls)) (unit (topN Ac Ls) j))).map (mOfCols (topN Ac Ls)) := by
  cases Ls <;> rfl
theorem topN_eq (Ac : K.Csr R) (n : Nat) (Ls : List (Lvl R)) (hs : PyamgV.C05.Shaped Ac.n n Ls) :
    topN Ac Ls = n := by
  cases Ls with
  | nil => exact Eq.symm hs
  | cons L _ => exact hs.1
/-- **the executed matrix `denseM` is the matrix of the textbook operator**: entry `(i, j)` is
`(M e_j)_i` with `M = MopL S c levels` -/
theorem denseM_entries (ofRat : Rat → R) (hof : ∀ q, ofRat q = (q : R)) (Ac : K.Csr R)
    (S : (Nat → R) →ₗ[R] (Nat → R)) (hS : CoarseInv Ac S) (c : Cyc) (Ls : List (Lvl R))
    (n : Nat) (hshape : PyamgV.C05.Shaped Ac.n n Ls) (hok : ∀ L' ∈ Ls, LvlOK L')
    (M : Mat R) (h : denseM ofRat Ac c Ls = some M) :
    M.size = n ∧ ∀ i j, i < n → j < n → mget M i j = precOp S c Ls (Pi.single j 1) i := by
  rw [denseM_unfold, topN_eq Ac n Ls hshape] at h
  cases hm : (List.range n).mapM (fun j => solveLvl ofRat Ac c Ls (zeros n) (unit n j)) with
  | none => rw [hm] at h; exact absurd h (by simp)
  | some cols =>
    rw [hm] at h
    have hM : M = mOfCols n cols := by simpa using h.symm
    obtain ⟨hlen, hcols⟩ := mapM_some _ (#[] : Array R) 0 _ _ hm
    rw [List.length_range] at hlen hcols
    subst hM
    refine ⟨by simp [mOfCols], ?_⟩
    intro i j hi hj
    have hcj := hcols j hj
    rw [List.getD_eq_getElem?_getD, List.getElem?_range hj] at hcj
    simp only [Option.getD_some] at hcj
    obtain ⟨_, h2⟩ := solveLvl_zero ofRat hof Ac S hS c Ls n hshape hok (unit n j) _ (unit_size n j) hcj
    rw [mget_mOfCols n cols i j hi (by rw [hlen]; exact hj)]
    have := congrFun h2 i
    rw [fn_unit n j hj] at this
    exact this
theorem denseM_size (ofRat : Rat → R) (Ac : K.Csr R) (c : Cyc) (Ls : List (Lvl R)) (n : Nat)
    (hshape : PyamgV.C05.Shaped Ac.n n Ls) (M : Mat R) (h : denseM ofRat Ac c Ls = some M) : M.size = n := by
  rw [denseM_unfold, topN_eq Ac n Ls hshape] at h
  cases hm : (List.range n).mapM (fun j => solveLvl ofRat Ac c Ls (zeros n) (unit n j)) with
  | none => rw [hm] at h; exact absurd h (by simp)
  | some cols =>
    rw [hm] at h
    have hM : M = mOfCols n cols := by simpa using h.symm
    rw [hM]; simp [mOfCols]
/-- a successful `denseM` of a non-empty problem has inverted the coarsest matrix -/
theorem denseM_coarseInv (ofRat : Rat → R) (Ac : K.Csr R) (c : Cyc) (Ls : List (Lvl R)) (n : Nat)
    (hn : 0 < n) (hshape : PyamgV.C05.Shaped Ac.n n Ls) (M : Mat R) (h : denseM ofRat Ac c Ls = some M) :
    CoarseInv Ac (coarseS Ac) := by
  rw [denseM_unfold, topN_eq Ac n Ls hshape] at h
  cases hm : (List.range n).mapM (fun j => solveLvl ofRat Ac c Ls (zeros n) (unit n j)) with
  | none => rw [hm] at h; exact absurd h (by simp)
  | some cols =>
    obtain ⟨_, hcols⟩ := mapM_some _ (#[] : Array R) 0 _ _ hm
    have h0 := hcols 0 (by rw [List.length_range]; exact hn)
    obtain ⟨b', y', hy'⟩ := solveLvl_coarse_success ofRat Ac Ls c _ _ _ h0
    exact coarseInv_of_success Ac b' y' hy'
/-- **`denseM` is the matrix of the textbook operator** `MopL (Ac⁻¹) c levels` over the smoother
operators `smOp` -- for every model hierarchy of the right shapes with one stored non-zero diagonal
entry per row, whenever `denseM` returns a matrix (no assumption on the coarsest matrix: its
inverse `coarseS Ac` is the one the elimination produces) -/
theorem denseM_is_operator (ofRat : Rat → R) (hof : ∀ q, ofRat q = (q : R)) (Ac : K.Csr R)
    (c : Cyc) (Ls : List (Lvl R)) (n : Nat) (hshape : PyamgV.C05.Shaped Ac.n n Ls) (hok : ∀ L' ∈ Ls, LvlOK L')
    (M : Mat R) (h : denseM ofRat Ac c Ls = some M) :
    M.size = n ∧ ∀ i j, i < n → j < n →
      mget M i j = MopL (coarseS Ac) (PyamgV.C05.ctype c) (Ls.map absLvl) (Pi.single j 1) i := by
  refine ⟨denseM_size ofRat Ac c Ls n hshape M h, ?_⟩
  intro i j hi hj
  have hS := denseM_coarseInv ofRat Ac c Ls n (by omega) hshape M h
  exact (denseM_entries ofRat hof Ac (coarseS Ac) hS c Ls n hshape hok M h).2 i j hi hj
end PyamgV.CF.C05

namespace PyamgV.CF.C05
#print axioms solveLvl_refines
#print axioms denseM_entries
#print axioms denseM_is_operator
end PyamgV.CF.C05
