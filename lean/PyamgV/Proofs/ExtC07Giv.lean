import PyamgV.Proofs.C07GmresOpt

/-! PyamgV (C07, extension E11): the Givens bookkeeping of the GMRES models (`givensUpdate`, `backSub`) at the
level of the lists it works on, independent of how the Hessenberg columns were produced (modified
Gram–Schmidt in `_gmres_mgs.py`, Householder reflections in `_fgmres.py` / `_gmres_householder.py`):

* `GivL` — the invariant (the list form of `GivInv`), `givL_init`, `givL_step`;
* `givL_optimal` — orthonormal vectors `v_0 … v_k`, directions `z_0 … z_{k-1}` with
  `B z_j = Σ_l H_{l j} v_l`, `c − B x₀ = β v_0`, the invariant and a non-singular triangular factor ⇒
  `x₀ + Σ_j y_j z_j` with `y = backSub …` minimises `‖c − B x‖` over `x₀ + span{z_j}`
  (through `Gmres.gmres_optimal_of_givens`). -/
namespace PyamgV.C07
open Finset

variable {K : Type} [Field K] [LinearOrder K] [IsStrictOrderedRing K]

structure GivL (n k : Nat) (β : K) (cols rcols : List (List K)) (cs sn g : List K) : Prop where
  lcols : cols.length = k
  lrcols : rcols.length = k
  lcs : cs.length = k
  lsn : sn.length = k
  lg : g.length = k + 1
  collen : ∀ i, i < k → (cols.getD i []).length = i + 2
  rc : ∀ i, i < k → F (rcols.getD i []) = Givens.Q (F cs) (F sn) (i + 1) (F (cols.getD i []))
  g : F g = Givens.Q (F cs) (F sn) k (fun r => if r = 0 then β else 0)
  unit : ∀ j, j < k → F cs j * F cs j + F sn j * F sn j = 1
  zero : ∀ j, j < k → j + 1 ≠ n →
    Givens.rot j (F cs j) (F sn j) (Givens.Q (F cs) (F sn) j (F (cols.getD j []))) (j + 1) = 0

theorem givL_init (n : Nat) (β : K) : GivL n 0 β [] [] [] [] [β] := by
  refine ⟨rfl, rfl, rfl, rfl, rfl, by simp, by simp, ?_, by simp, by simp⟩
  funext l
  simp only [Givens.Q, F]
  cases l <;> simp

/-- one inner iteration of the Givens bookkeeping keeps the invariant -/
theorem givL_step (sqrt : K → K) (hsq : ∀ a, 0 ≤ a → sqrt a * sqrt a = a) (n k : Nat) (β : K)
    (cols rcols : List (List K)) (cs sn g : List K) (ih : GivL n k β cols rcols cs sn g)
    (col : List K) (hcl : col.length = k + 2) :
    GivL n (k + 1) β (cols ++ [col]) (rcols ++ [(givensUpdate sqrt nzK (k + 1 == n) k cs sn g col).rc])
      (cs ++ [(givensUpdate sqrt nzK (k + 1 == n) k cs sn g col).c])
      (sn ++ [(givensUpdate sqrt nzK (k + 1 == n) k cs sn g col).s])
      (givensUpdate sqrt nzK (k + 1 == n) k cs sn g col).g := by
  have hspec := givensUpdate_spec sqrt nzK (k + 1 == n) cs sn g col k ih.lcs ih.lsn ih.lg hcl
  have hunit := givensUpdate_unit sqrt hsq nzK nzK_true (k + 1 == n) cs sn g col k
  set u := givensUpdate sqrt nzK (k + 1 == n) k cs sn g col with hu
  obtain ⟨hrc, hg, hrcl, hgl⟩ := hspec
  have hcs_lt : ∀ j, j < k → F (cs ++ [u.c]) j = F cs j := fun j hj =>
    F_append_lt cs [u.c] j (by rw [ih.lcs]; exact hj)
  have hsn_lt : ∀ j, j < k → F (sn ++ [u.s]) j = F sn j := fun j hj =>
    F_append_lt sn [u.s] j (by rw [ih.lsn]; exact hj)
  have hcs_k : F (cs ++ [u.c]) k = u.c := by rw [← ih.lcs]; exact F_append_len cs u.c
  have hsn_k : F (sn ++ [u.s]) k = u.s := by rw [← ih.lsn]; exact F_append_len sn u.s
  have hQ : ∀ m, m ≤ k → ∀ w : Nat → K,
      Givens.Q (F (cs ++ [u.c])) (F (sn ++ [u.s])) m w = Givens.Q (F cs) (F sn) m w := by
    intro m hm w
    exact Q_congr _ _ _ _ m (fun j hj => ⟨hcs_lt j (by omega), hsn_lt j (by omega)⟩) w
  refine ⟨by simp [ih.lcols], by simp [ih.lrcols], by simp [ih.lcs], by simp [ih.lsn], hgl, ?_, ?_, ?_, ?_, ?_⟩
  · intro i hi
    by_cases hik : i < k
    · rw [getD_append_lt _ _ _ _ (by rw [ih.lcols]; exact hik)]; exact ih.collen i hik
    · have : i = k := by omega
      subst this
      rw [← ih.lcols, getD_append_len, ih.lcols]; exact hcl
  · intro i hi
    by_cases hik : i < k
    · rw [getD_append_lt _ _ _ _ (by rw [ih.lrcols]; exact hik),
        getD_append_lt _ _ _ _ (by rw [ih.lcols]; exact hik), hQ (i+1) (by omega)]
      exact ih.rc i hik
    · have : i = k := by omega
      subst this
      have e1 : (rcols ++ [u.rc]).getD i [] = u.rc := by rw [← ih.lrcols]; exact getD_append_len _ _ _
      have e2 : (cols ++ [col]).getD i [] = col := by rw [← ih.lcols]; exact getD_append_len _ _ _
      rw [e1, e2, hrc]
      simp only [Givens.Q]
      rw [hcs_k, hsn_k, hQ i (le_refl i)]
  · rw [hg, ih.g]
    simp only [Givens.Q]
    rw [hcs_k, hsn_k, hQ k (le_refl k)]
  · intro j hj
    by_cases hjk : j < k
    · rw [hcs_lt j hjk, hsn_lt j hjk]; exact ih.unit j hjk
    · have : j = k := by omega
      subst this
      rw [hcs_k, hsn_k]; exact hunit
  · intro j hj hjn
    by_cases hjk : j < k
    · rw [hcs_lt j hjk, hsn_lt j hjk, hQ j (by omega),
        getD_append_lt _ _ _ _ (by rw [ih.lcols]; exact hjk)]
      exact ih.zero j hjk hjn
    · have : j = k := by omega
      subst this
      have e2 : (cols ++ [col]).getD j [] = col := by rw [← ih.lcols]; exact getD_append_len _ _ _
      rw [hcs_k, hsn_k, hQ j (le_refl j), e2]
      have hb : (j + 1 == n) = false := by simpa using hjn
      have hz := givensUpdate_zero sqrt nzK nzK_false cs sn g col j ih.lcs ih.lsn hcl
      simp only [hu, hb]
      exact hz

variable {V : Type} [AddCommGroup V] [Module K V]

/-- **from the list-level Givens data to optimality** -/
theorem givL_optimal (e : EForm K V) (B : V →ₗ[K] V) (n k : Nat) (hkn : k < n) (β : K)
    (cols rcols : List (List K)) (cs sn g : List K) (hG : GivL n k β cols rcols cs sn g)
    (v : Nat → V) (zs : List V)
    (horth : ∀ i j, i ≤ k → j ≤ k → e.a (v i) (v j) = if i = j then 1 else 0)
    (hrel : ∀ j, j < k → B (zs.getD j 0) = ∑ l ∈ range (k + 1), F (cols.getD j []) l • v l)
    (c x0 : V) (hr0 : c - B x0 = β • v 0)
    (hnbr : ∀ i, i < k → Rent rcols i i ≠ 0) :
    ∀ x', x' - x0 ∈ Submodule.span K (Set.range (fun j : Fin k => zs.getD j 0)) →
      e.en (c - B (x0 + ∑ j ∈ range k, F (backSub rcols g k []) j • zs.getD j 0)) ≤ e.en (c - B x') := by
  let Ar : Gmres.Arnoldi e B k :=
    { v := fun i => v i
      z := fun j => zs.getD j 0
      H := fun l j => F (cols.getD j []) l
      orth := by
        intro i j
        rw [horth i j (by have := i.2; omega) (by have := j.2; omega)]
        by_cases hij : i = j
        · rw [if_pos hij, if_pos (by rw [hij])]
        · rw [if_neg hij, if_neg (fun h => hij (Fin.ext h))]
      rel := by
        intro j
        rw [hrel j j.2, ← Fin.sum_univ_eq_sum_range (fun l => F (cols.getD j []) l • v l) (k+1)] }
  have hfun : ∀ j, Gmres.hfun Ar j = F (cols.getD j []) := by
    intro j
    funext l
    unfold Gmres.hfun
    by_cases hl : l < k + 1
    · rw [dif_pos hl]
      by_cases hj : j < k
      · rw [dif_pos hj]
      · rw [dif_neg hj]
        have : cols.getD j [] = [] := by
          rw [List.getD_eq_getElem?_getD, List.getElem?_eq_none (by rw [hG.lcols]; omega)]; rfl
        rw [this]; simp [F]
    · rw [dif_neg hl]
      by_cases hj : j < k
      · have := hG.collen j hj
        simp only [F]
        rw [List.getD_eq_getElem?_getD, List.getElem?_eq_none (by omega)]; rfl
      · have : cols.getD j [] = [] := by
          rw [List.getD_eq_getElem?_getD, List.getElem?_eq_none (by rw [hG.lcols]; omega)]; rfl
        rw [this]; simp [F]
  have hhess : ∀ j l, j + 1 < l → Gmres.hfun Ar j l = 0 := by
    intro j l hjl
    rw [hfun]
    by_cases hj : j < k
    · have := hG.collen j hj
      simp only [F]
      rw [List.getD_eq_getElem?_getD, List.getElem?_eq_none (by omega)]; rfl
    · have : cols.getD j [] = [] := by
        rw [List.getD_eq_getElem?_getD, List.getElem?_eq_none (by rw [hG.lcols]; omega)]; rfl
      rw [this]; simp [F]
  have hzero : ∀ j, j < k → Givens.rot j (F cs j) (F sn j)
      (Givens.Q (F cs) (F sn) j (Gmres.hfun Ar j)) (j+1) = 0 := by
    intro j hj; rw [hfun]; exact hG.zero j hj (by omega)
  set y := backSub rcols g k [] with hy
  let S : Givens.Sweep K k := ⟨Gmres.hfun Ar, F cs, F sn, hhess, hG.unit, hzero⟩
  have hsolve : ∀ l, l < k → ∑ i ∈ range k, F y i * Givens.Q (F cs) (F sn) k (Gmres.hfun Ar i) l =
      Givens.Q (F cs) (F sn) k (fun r => if r = 0 then β else 0) l := by
    intro l hl
    rw [← hG.g]
    have hrows := backSub_rows rcols g (by rw [hG.lrcols]; exact hnbr) k [] (by rw [hG.lrcols])
      (by rw [hG.lrcols]; simp) l hl
    rw [hrows, hG.lrcols, ← hy]
    rw [← Finset.sum_range_add_sum_Ico _ (le_of_lt hl), Finset.sum_Ico_eq_sum_range]
    have hlow : ∑ i ∈ range l, F y i * Givens.Q (F cs) (F sn) k (Gmres.hfun Ar i) l = 0 := by
      apply Finset.sum_eq_zero
      intro i hi
      have hil : i < l := Finset.mem_range.mp hi
      have := Givens.col_upper S i (by omega) l hil
      simp only [S] at this
      rw [this, mul_zero]
    rw [hlow, zero_add]
    refine Finset.sum_congr rfl (fun d hd' => ?_)
    have hld : l + d < k := by have := Finset.mem_range.mp hd'; omega
    rw [Q_low (F cs) (F sn) (l + d + 1) _ l (by omega) k (by omega)]
    rw [hfun]
    rw [← hG.rc (l + d) hld]
    simp only [Rent, F]
    ring
  have hsum : ∑ j ∈ range k, F y j • zs.getD j 0 = ∑ j : Fin k, F y j • Ar.z j := by
    rw [← Fin.sum_univ_eq_sum_range (fun j => F y j • zs.getD j 0) k]
  rw [hsum]
  exact Gmres.gmres_optimal_of_givens Ar β c x0 hr0 (F cs) (F sn) (F y) hhess hG.unit hzero hsolve

#print axioms givL_optimal
end PyamgV.C07
