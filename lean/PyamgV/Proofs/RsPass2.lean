import PyamgV.Proofs.RsBucket4
import PyamgV.Proofs.Mis

/-! PyamgV (C13): `rs_cf_splitting_pass2` — model and the cover theorem: after the second pass every
F-point that strongly depends on some node strongly depends on a C-point, whatever 0/1 splitting
the first pass produced and for any (nonsymmetric) pattern without self loops. Core only. -/
namespace PyamgV.RS

/-- dependence test: rows `row` and `j` share a strongly connected C-point -/
def depends (S : Csr) (sp : Array Int) (row j : Nat) : Bool :=
  (S.row row).any (fun c => decide (rdI sp c = C) && (S.row j).contains c)

/-- inner loop over the strong connections of `row`; state = (marks, Cpt0) with Cpt0 = none for -1 -/
def p2Inner (S : Csr) (row : Nat) : List Nat → Array Int × Option Nat → Array Int × Option Nat
  | [], st => st
  | j :: js, (sp, c0) =>
    if rdI sp j = F then
      if depends S sp row j then p2Inner S row js (sp, c0)
      else
        match c0 with
        | none => p2Inner S row js (wrI sp j C, some j)
        | some c => p2Inner S row js (wrI (wrI sp c F) j C, some j)
    else p2Inner S row js (sp, c0)

def p2Step (S : Csr) (sp : Array Int) (row : Nat) : Array Int :=
  if rdI sp row = F then (p2Inner S row (S.row row) (sp, none)).1 else sp

def pass2 (S : Csr) (sp : Array Int) : Array Int := (List.range S.n).foldl (p2Step S) sp

end PyamgV.RS

namespace PyamgV.RS

theorem depends_true (S : Csr) (sp : Array Int) (row j : Nat) (h : depends S sp row j = true) :
    ∃ c ∈ S.row row, rdI sp c = C := by
  unfold depends at h
  rw [List.any_eq_true] at h
  obtain ⟨c, hc, h2⟩ := h
  simp only [Bool.and_eq_true, decide_eq_true_eq] at h2
  exact ⟨c, hc, h2.1⟩

structure FC (n : Nat) (sp : Array Int) : Prop where
  size : sp.size = n
  vals : ∀ k, k < n → rdI sp k = F ∨ rdI sp k = C

/-- invariant of the inner loop of pass 2 (`sp0` = marks when the row was entered) -/
structure J (S : Csr) (n t : Nat) (sp0 : Array Int) (done : List Nat) (st : Array Int × Option Nat) : Prop where
  fc : FC n st.1
  keep : ∀ k, rdI sp0 k = C → rdI st.1 k = C
  self : rdI st.1 t = rdI sp0 t
  tent : ∀ c, st.2 = some c → c ∈ S.row t ∧ rdI st.1 c = C ∧ rdI sp0 c = F
  none' : st.2 = none → ∀ j ∈ done, ∃ c ∈ S.row t, rdI st.1 c = C

theorem p2Inner_inv (S : Csr) (n t : Nat) (hb : ∀ j ∈ S.row t, j < n) (hns : t ∉ S.row t)
    (sp0 : Array Int) (h0 : FC n sp0) : ∀ (js done : List Nat) (st : Array Int × Option Nat),
    (∀ j ∈ js, j ∈ S.row t) → J S n t sp0 done st → J S n t sp0 (done ++ js) (p2Inner S t js st) := by
  intro js
  induction js with
  | nil => intro done st _ h; simpa [p2Inner] using h
  | cons j js ih =>
    intro done st hjs h
    obtain ⟨sp, c0⟩ := st
    have hjrow : j ∈ S.row t := hjs j (by simp)
    have hjn : j < n := hb j hjrow
    have hjt : j ≠ t := fun e => hns (e ▸ hjrow)
    have happ : done ++ j :: js = (done ++ [j]) ++ js := by simp
    rw [happ]
    simp only [p2Inner]
    by_cases hF : rdI sp j = F
    · rw [if_pos hF]
      have hj0 : rdI sp0 j = F := by
        rcases h0.vals j hjn with e | e
        · exact e
        · have := h.keep j e; rw [hF] at this; exact absurd this (by decide)
      have hjsz : j < sp.size := by rw [h.fc.size]; exact hjn
      by_cases hd : depends S sp t j = true
      · rw [if_pos hd]
        apply ih _ _ (fun a ha => hjs a (by simp [ha]))
        refine ⟨h.fc, h.keep, h.self, h.tent, ?_⟩
        intro hn a ha
        rcases List.mem_append.1 ha with ha | ha
        · exact h.none' hn a ha
        · exact depends_true S sp t j hd
      · rw [if_neg hd]
        cases c0 with
        | none =>
          apply ih _ _ (fun a ha => hjs a (by simp [ha]))
          have hnew : ∀ k, rdI (wrI sp j C) k = if k = j then C else rdI sp k := by
            intro k; rw [rdI_wrI]
            by_cases hk : j = k
            · subst hk; simp [hjsz]
            · have : k ≠ j := fun e => hk e.symm
              simp [hk, this]
          refine ⟨⟨by simp [wrI, h.fc.size], ?_⟩, ?_, ?_, ?_, ?_⟩
          · intro k hk; show rdI (wrI sp j C) k = F ∨ _
            rw [hnew]; split
            · exact Or.inr rfl
            · exact h.fc.vals k hk
          · intro k hk; show rdI (wrI sp j C) k = C
            rw [hnew]; split
            · rfl
            · exact h.keep k hk
          · show rdI (wrI sp j C) t = _
            rw [hnew, if_neg (fun e => hjt e.symm)]; exact h.self
          · intro c hc
            simp only [Option.some.injEq] at hc
            subst hc
            exact ⟨hjrow, by show rdI (wrI sp j C) j = C; rw [hnew, if_pos rfl], hj0⟩
          · intro hn; exact absurd hn (by simp)
        | some c =>
          apply ih _ _ (fun a ha => hjs a (by simp [ha]))
          obtain ⟨hcrow, hcC, hc0⟩ := h.tent c rfl
          have hcn : c < n := hb c hcrow
          have hcj : c ≠ j := by intro e; rw [e, hF] at hcC; exact absurd hcC (by decide)
          have hct : c ≠ t := fun e => hns (e ▸ hcrow)
          have hcsz : c < sp.size := by rw [h.fc.size]; exact hcn
          have hnew : ∀ k, rdI (wrI (wrI sp c F) j C) k =
              if k = j then C else if k = c then F else rdI sp k := by
            intro k; rw [rdI_wrI]
            have hsz : (wrI sp c F).size = sp.size := by simp [wrI]
            rw [hsz]
            by_cases hk : j = k
            · subst hk; simp [hjsz]
            · have hk' : k ≠ j := fun e => hk e.symm
              rw [if_neg (fun hh => hk hh.1), if_neg hk', rdI_wrI]
              by_cases hkc : c = k
              · subst hkc; simp [hcsz]
              · have : k ≠ c := fun e => hkc e.symm
                simp [hkc, this]
          refine ⟨⟨by simp [wrI, h.fc.size], ?_⟩, ?_, ?_, ?_, ?_⟩
          · intro k hk; show rdI (wrI (wrI sp c F) j C) k = F ∨ _
            rw [hnew]; split
            · exact Or.inr rfl
            · split
              · exact Or.inl rfl
              · exact h.fc.vals k hk
          · intro k hk; show rdI (wrI (wrI sp c F) j C) k = C
            rw [hnew]; split
            · rfl
            · have hkc : k ≠ c := by intro e; rw [e, hc0] at hk; exact absurd hk (by decide)
              rw [if_neg hkc]; exact h.keep k hk
          · show rdI (wrI (wrI sp c F) j C) t = _
            rw [hnew, if_neg (fun e => hjt e.symm), if_neg (fun e => hct e.symm)]; exact h.self
          · intro c' hc'
            simp only [Option.some.injEq] at hc'
            subst hc'
            exact ⟨hjrow, by show rdI (wrI (wrI sp c F) j C) j = C; rw [hnew, if_pos rfl], hj0⟩
          · intro hn; exact absurd hn (by simp)
    · rw [if_neg hF]
      apply ih _ _ (fun a ha => hjs a (by simp [ha]))
      refine ⟨h.fc, h.keep, h.self, h.tent, ?_⟩
      intro hn a ha
      rcases List.mem_append.1 ha with ha | ha
      · exact h.none' hn a ha
      · have : a = j := by simpa using ha
        subst this
        rcases h.fc.vals a hjn with e | e
        · exact absurd e hF
        · exact ⟨a, hjrow, e⟩

/-- outer invariant: every already processed F-row with a strong connection is covered -/
structure Q (S : Csr) (n t : Nat) (sp : Array Int) : Prop where
  fc : FC n sp
  cov : ∀ r, r < t → r < n → rdI sp r = F → S.row r ≠ [] → ∃ c ∈ S.row r, rdI sp c = C

theorem p2Step_inv (S : Csr) (n : Nat) (hS : SOK S n) (hns : ∀ i, i < n → i ∉ S.row i)
    (t : Nat) (ht : t < n) (sp : Array Int) (h : Q S n t sp) : Q S n (t+1) (p2Step S sp t) := by
  unfold p2Step
  by_cases hF : rdI sp t = F
  · rw [if_pos hF]
    have hJ0 : J S n t sp [] (sp, none) :=
      ⟨h.fc, fun _ hk => hk, rfl, fun c hc => absurd hc (by simp), fun _ j hj => absurd hj (by simp)⟩
    have hJ := p2Inner_inv S n t (hS.bound t ht) (hns t ht) sp h.fc (S.row t) [] (sp, none)
      (fun _ hj => hj) hJ0
    simp only [List.nil_append] at hJ
    refine ⟨hJ.fc, ?_⟩
    intro r hr hrn hrF hrow
    by_cases hrt : r = t
    · subst hrt
      -- the row itself: either a tentative C-point survives, or every strong connection had one
      cases hc : (p2Inner S r (S.row r) (sp, none)).2 with
      | some c => obtain ⟨h1, h2, _⟩ := hJ.tent c hc; exact ⟨c, h1, h2⟩
      | none =>
        obtain ⟨j, hj⟩ := List.exists_mem_of_ne_nil _ hrow
        exact hJ.none' hc j hj
    · -- earlier rows keep their C-point; a row that was C stays C
      have hr' : r < t := by omega
      rcases h.fc.vals r hrn with e | e
      · obtain ⟨c, hc1, hc2⟩ := h.cov r hr' hrn e hrow
        exact ⟨c, hc1, hJ.keep c hc2⟩
      · have := hJ.keep r e; rw [hrF] at this; exact absurd this (by decide)
  · rw [if_neg hF]
    refine ⟨h.fc, ?_⟩
    intro r hr hrn hrF hrow
    by_cases hrt : r = t
    · subst hrt; exact absurd hrF hF
    · exact h.cov r (by omega) hrn hrF hrow

/-- **C13, second pass of Ruge–Stüben**: for any pattern without self loops and any 0/1 splitting
coming out of the first pass, afterwards every F-point that strongly depends on some node strongly
depends on at least one C-point. -/
theorem pass2_cover (S : Csr) (hS : SOK S S.n) (hns : ∀ i, i < S.n → i ∉ S.row i)
    (sp0 : Array Int) (h0 : FC S.n sp0) :
    ∀ r, r < S.n → rdI (pass2 S sp0) r = F → S.row r ≠ [] → ∃ c ∈ S.row r, rdI (pass2 S sp0) c = C := by
  have hQ : Q S S.n S.n (pass2 S sp0) := by
    unfold pass2
    refine PyamgV.foldl_range_inv (fun k sp => Q S S.n k sp) _ S.n sp0 ⟨h0, fun r hr => by omega⟩ ?_
    intro k sp hk hp; exact p2Step_inv S S.n hS hns k hk sp hp
  intro r hr hF hrow
  exact hQ.cov r hr hr hF hrow

#print axioms pass2_cover

end PyamgV.RS
