import PyamgV.Model.ExtCGComplex
import PyamgV.Proofs.ExtC07CVec
import Mathlib.Algebra.Field.Defs
import Mathlib.Algebra.Star.Basic
import Mathlib.Algebra.Order.Field.Basic
import Mathlib.Tactic.Ring
import Mathlib.Tactic.FieldSimp
import Mathlib.Tactic.Linarith
import Mathlib.Tactic.Positivity

/-! PyamgV (extension E43): the pairs `CP F` over an ordered field `F`, **with the operations of
`Model/ExtCGComplex.lean`** (the ones the driver computes with in binary64), are a field with the involution
`CP.conj`; `cpRe : ReMap (CP F) F` is the real part.  `CP.sqrtRe sqrt` is an exact "square root of the non-negative
reals of `CP F`" when `sqrt` is one of `F` (`sqrtRe_sq`, `sqrtRe_star`): the hypotheses of the GMRES theorems. -/
namespace PyamgV.ExtCG
namespace CP

variable {F : Type} [Field F] [LinearOrder F] [IsStrictOrderedRing F]

theorem ext' {a b : CP F} (h1 : a.re = b.re) (h2 : a.im = b.im) : a = b := by
  cases a; cases b; simp_all

@[simp] theorem add_re (a b : CP F) : (a + b).re = a.re + b.re := rfl
@[simp] theorem add_im (a b : CP F) : (a + b).im = a.im + b.im := rfl
@[simp] theorem sub_re (a b : CP F) : (a - b).re = a.re - b.re := rfl
@[simp] theorem sub_im (a b : CP F) : (a - b).im = a.im - b.im := rfl
@[simp] theorem neg_re (a : CP F) : (-a).re = -a.re := rfl
@[simp] theorem neg_im (a : CP F) : (-a).im = -a.im := rfl
@[simp] theorem mul_re (a b : CP F) : (a * b).re = a.re * b.re - a.im * b.im := rfl
@[simp] theorem mul_im (a b : CP F) : (a * b).im = a.re * b.im + a.im * b.re := rfl
@[simp] theorem zero_re : (0 : CP F).re = 0 := rfl
@[simp] theorem zero_im : (0 : CP F).im = 0 := rfl
@[simp] theorem one_re : (1 : CP F).re = 1 := rfl
@[simp] theorem one_im : (1 : CP F).im = 0 := rfl
theorem div_re (a b : CP F) : (a / b).re = (a.re * b.re + a.im * b.im) / normSq b := rfl
theorem div_im (a b : CP F) : (a / b).im = (a.im * b.re - a.re * b.im) / normSq b := rfl

instance : CommRing (CP F) where
  add := (· + ·)
  zero := 0
  neg := Neg.neg
  sub := (· - ·)
  mul := (· * ·)
  one := 1
  add_assoc a b c := by apply ext' <;> simp <;> ring
  zero_add a := by apply ext' <;> simp
  add_zero a := by apply ext' <;> simp
  add_comm a b := by apply ext' <;> simp <;> ring
  neg_add_cancel a := by apply ext' <;> simp
  sub_eq_add_neg a b := by apply ext' <;> simp <;> ring
  mul_assoc a b c := by apply ext' <;> simp <;> ring
  one_mul a := by apply ext' <;> simp
  mul_one a := by apply ext' <;> simp
  left_distrib a b c := by apply ext' <;> simp <;> ring
  right_distrib a b c := by apply ext' <;> simp <;> ring
  mul_comm a b := by apply ext' <;> simp <;> ring
  zero_mul a := by apply ext' <;> simp
  mul_zero a := by apply ext' <;> simp
  nsmul := nsmulRec
  zsmul := zsmulRec
  natCast := fun k => ⟨(k : F), 0⟩
  natCast_zero := by apply ext' <;> simp
  natCast_succ k := by apply ext' <;> simp

instance : Inv (CP F) := ⟨fun a => ⟨a.re / normSq a, -a.im / normSq a⟩⟩

theorem inv_re (a : CP F) : (a⁻¹).re = a.re / normSq a := rfl
theorem inv_im (a : CP F) : (a⁻¹).im = -a.im / normSq a := rfl

theorem normSq_nonneg (a : CP F) : 0 ≤ normSq a := add_nonneg (mul_self_nonneg _) (mul_self_nonneg _)

theorem normSq_eq_zero {a : CP F} (h : normSq a = 0) : a = 0 := by
  unfold normSq at h
  have hre : a.re = 0 := by nlinarith [mul_self_nonneg a.re, mul_self_nonneg a.im]
  have him : a.im = 0 := by nlinarith [mul_self_nonneg a.re, mul_self_nonneg a.im]
  exact ext' hre him

theorem normSq_pos_of_ne {a : CP F} (h : a ≠ 0) : 0 < normSq a :=
  lt_of_le_of_ne (normSq_nonneg a) (fun h0 => h (normSq_eq_zero h0.symm))

instance : Field (CP F) where
  inv := Inv.inv
  div := (· / ·)
  div_eq_mul_inv a b := by
    apply ext'
    · rw [div_re, mul_re, inv_re, inv_im]; ring
    · rw [div_im, mul_im, inv_re, inv_im]; ring
  exists_pair_ne := ⟨0, 1, fun h => by
    have := congrArg CP.re h
    simp at this⟩
  mul_inv_cancel a ha := by
    have hp := normSq_pos_of_ne ha
    have hne : normSq a ≠ 0 := ne_of_gt hp
    apply ext'
    · rw [mul_re, inv_re, inv_im, one_re]
      field_simp
      unfold normSq; ring
    · rw [mul_im, inv_re, inv_im, one_im]
      field_simp
      ring
  inv_zero := by
    apply ext'
    · rw [inv_re]; simp
    · rw [inv_im]; simp
  nnqsmul := _
  nnqsmul_def := fun _ _ => rfl
  qsmul := _
  qsmul_def := fun _ _ => rfl

theorem conj_re (a : CP F) : (conj a).re = a.re := rfl
theorem conj_im (a : CP F) : (conj a).im = -a.im := rfl

instance : StarRing (CP F) where
  star := conj
  star_involutive a := by apply ext' <;> simp [conj_re, conj_im]
  star_mul a b := by apply ext' <;> simp [conj_re, conj_im] <;> ring
  star_add a b := by apply ext' <;> simp [conj_re, conj_im] <;> ring

theorem star_eq_conj : (star : CP F → CP F) = conj := rfl
@[simp] theorem star_re (a : CP F) : (star a).re = a.re := rfl
@[simp] theorem star_im (a : CP F) : (star a).im = -a.im := rfl

/-- the instances found for `CP F` in a Mathlib context are the ones of `Model/ExtCGComplex.lean` -/
theorem cp_instances :
    (HAdd.hAdd : CP F → CP F → CP F) = (fun a b => ⟨a.re + b.re, a.im + b.im⟩) ∧
    (HMul.hMul : CP F → CP F → CP F) = (fun a b => ⟨a.re * b.re - a.im * b.im, a.re * b.im + a.im * b.re⟩) ∧
    (HDiv.hDiv : CP F → CP F → CP F) =
      (fun a b => ⟨(a.re * b.re + a.im * b.im) / normSq b, (a.im * b.re - a.re * b.im) / normSq b⟩) ∧
    (0 : CP F) = ⟨0, 0⟩ ∧ (1 : CP F) = ⟨1, 0⟩ ∧ (2 : CP F) = ⟨2, 0⟩ :=
  ⟨rfl, rfl, rfl, rfl, rfl, rfl⟩

end CP

open PyamgV.C07.CH in
/-- the real part as a `ReMap` -/
def cpRe {F : Type} [Field F] [LinearOrder F] [IsStrictOrderedRing F] : ReMap (CP F) F where
  re := { toFun := CP.re, map_zero' := rfl, map_add' := fun _ _ => rfl }
  re_star _ := rfl
  sq_nonneg z := by
    show 0 ≤ (star z * z).re
    simp only [CP.mul_re, CP.star_re, CP.star_im]
    nlinarith [mul_self_nonneg z.re, mul_self_nonneg z.im]
  sq_def z h := by
    have h' : (star z * z).re = 0 := h
    simp only [CP.mul_re, CP.star_re, CP.star_im] at h'
    apply CP.normSq_eq_zero
    unfold CP.normSq
    linarith

section sqrt
variable {F : Type} [Field F] [LinearOrder F] [IsStrictOrderedRing F]

@[simp] theorem cpRe_re (z : CP F) : (cpRe (F := F)).re z = z.re := rfl

/-- a star-fixed element has zero imaginary part -/
theorem CP.im_zero_of_star {z : CP F} (h : star z = z) : z.im = 0 := by
  have := congrArg CP.im h
  simp only [CP.star_im] at this
  linarith

theorem CP.sqrtRe_sq (sqrt : F → F) (hsq : ∀ a, 0 ≤ a → sqrt a * sqrt a = a) (z : CP F) (hz : star z = z)
    (h0 : 0 ≤ (cpRe (F := F)).re z) : CP.sqrtRe sqrt z * CP.sqrtRe sqrt z = z := by
  have him := CP.im_zero_of_star hz
  apply CP.ext'
  · simp only [CP.mul_re, CP.sqrtRe]
    rw [hsq z.re h0]; ring
  · simp only [CP.mul_im, CP.sqrtRe, him]; ring

theorem CP.sqrtRe_star (sqrt : F → F) (z : CP F) : star (CP.sqrtRe sqrt z) = CP.sqrtRe sqrt z := by
  apply CP.ext' <;> simp [CP.sqrtRe]

/-- the modulus of the model is the square root of `re (conj z · z)` -/
theorem CP.mod_eq (sqrt : F → F) (z : CP F) : CP.mod sqrt z = sqrt ((cpRe (F := F)).re (star z * z)) := by
  unfold CP.mod CP.normSq
  congr 1
  simp only [cpRe_re, CP.mul_re, CP.star_re, CP.star_im]; ring
end sqrt

end PyamgV.ExtCG
