import PyamgV.Proofs.ExtC15Canon

/-! PyamgV (extension E41, C15): which conversions to CSR return the canonical form, and what their stored
pattern is in terms of the input.

format | `.tocsr()` returns strictly sorted rows when        | stored pattern of the result
-------|------------------------------------------------------|--------------------------------------------------
COO    | always (`sum_duplicates`)                            | every `(row[n], col[n])`, explicit / cancelled zeros kept
CSC    | no row index occurs twice in a column (any order)    | the stored pattern of the CSC arrays
dense  | always                                               | the non-zero entries
BSR    | the block columns of every block row strictly sorted | every entry of every stored block, zeros kept
CSR    | the rows are strictly sorted already (taken as it is)| its own

(LIL and DIA inputs are not modelled; SciPy brings LIL rows, which are kept sorted and duplicate-free, to CSR as
they are and converts DIA through COO.)  Consequence `toCsr_arrays_unique`: two inputs in these formats with the
same dense meaning and the same stored pattern are converted to IDENTICAL `indptr`, `indices`, `data`. -/
namespace PyamgV.Canon
open PyamgV.Spmm

variable {α : Type}

/-! ### rows -/
section rows
variable [AddCommMonoid α]

omit [AddCommMonoid α] in
theorem keys_insAdd [Add α] (c : Nat) (v : α) (l : List (Nat × α)) (k : Nat) :
    k ∈ keys (insAdd c v l) ↔ k = c ∨ k ∈ keys l := by
  induction l with
  | nil => simp [insAdd, keys]
  | cons e t ih =>
    unfold insAdd
    by_cases h1 : c < e.1
    · rw [if_pos h1]; simp [keys]
    · by_cases h2 : c = e.1
      · rw [if_neg h1, if_pos h2]
        simp only [keys, List.map_cons, List.mem_cons]
        constructor
        · rintro (h | h)
          · exact Or.inr (Or.inl h)
          · exact Or.inr (Or.inr h)
        · rintro (h | h | h)
          · exact Or.inl (h.trans h2)
          · exact Or.inl h
          · exact Or.inr h
      · rw [if_neg h1, if_neg h2]
        have : k ∈ keys (e :: insAdd c v t) ↔ k = e.1 ∨ k ∈ keys (insAdd c v t) := by simp [keys]
        rw [this, ih]
        simp only [keys, List.map_cons, List.mem_cons]
        constructor
        · rintro (h | h | h)
          · exact Or.inr (Or.inl h)
          · exact Or.inl h
          · exact Or.inr (Or.inr h)
        · rintro (h | h | h)
          · exact Or.inr (Or.inl h)
          · exact Or.inl h
          · exact Or.inr (Or.inr h)

omit [AddCommMonoid α] in
theorem keys_canon_aux [Add α] (l acc : List (Nat × α)) (k : Nat) :
    k ∈ keys (l.foldl (fun acc e => insAdd e.1 e.2 acc) acc) ↔ k ∈ keys acc ∨ k ∈ keys l := by
  induction l generalizing acc with
  | nil => simp [keys]
  | cons e t ih =>
    rw [List.foldl_cons, ih, keys_insAdd]
    simp only [keys, List.map_cons, List.mem_cons]
    constructor
    · rintro ((h | h) | h)
      · exact Or.inr (Or.inl h)
      · exact Or.inl h
      · exact Or.inr (Or.inr h)
    · rintro (h | h | h)
      · exact Or.inl (Or.inr h)
      · exact Or.inl (Or.inl h)
      · exact Or.inr h

omit [AddCommMonoid α] in
/-- `sum_duplicates()` keeps the set of stored columns of a row (zeros that arise by cancellation stay stored) -/
theorem keys_canon [Add α] (l : List (Nat × α)) (k : Nat) : k ∈ keys (canon l) ↔ k ∈ keys l := by
  unfold canon
  rw [keys_canon_aux]
  simp [keys]

end rows

/-! ### COO -/
section coo
variable [Semiring α]

theorem cooToCsr_canonical (X : Coo α) (h : X.wf = true) : Canonical (cooToCsr X) :=
  ⟨cooToCsr_wf X h, cooToCsr_sorted X⟩

theorem cooToCsr_row (X : Coo α) (i : Nat) :
    (cooToCsr X).row i = if i < X.rows then canon (X.rowEntries i) else [] := by
  unfold cooToCsr
  exact ofRows_range_row _ _ _ i

/-- the result stores `(i, j)` iff some COO triple sits there -/
theorem stored_cooToCsr (X : Coo α) (i j : Nat) (hi : i < X.rows) :
    stored (cooToCsr X) i j ↔ ∃ n, n < X.x.size ∧ rdN X.ri n = i ∧ rdN X.ci n = j := by
  unfold stored
  rw [cooToCsr_row, if_pos hi, keys_canon]
  unfold Coo.rowEntries
  simp only [keys, List.mem_map, List.mem_filterMap, List.mem_range]
  constructor
  · rintro ⟨e, ⟨n, hn, hh⟩, hej⟩
    by_cases hr : rdN X.ri n = i
    · simp only [hr, if_true, Option.some.injEq] at hh
      refine ⟨n, hn, hr, ?_⟩
      rw [← hej, ← hh]
    · simp [hr] at hh
  · rintro ⟨n, hn, hr, hc⟩
    exact ⟨(rdN X.ci n, rd X.x n), ⟨n, hn, by simp [hr]⟩, hc⟩

end coo

/-! ### dense -/
section dense
variable [Semiring α] [DecidableEq α]

theorem denseToCsr_row (D : Dense α) (i : Nat) :
    (denseToCsr D).row i = if i < D.rows then
      (List.range D.cols).filterMap fun j => if D.val i j = 0 then none else some (j, D.val i j) else [] := by
  unfold denseToCsr
  exact ofRows_range_row _ _ _ i

omit [Semiring α] in
theorem range_filterMap_sorted [OfNat α 0] (n : Nat) (g : Nat → α) :
    Sorted ((List.range n).filterMap fun j => if g j = 0 then none else some (j, g j)) := by
  apply List.Pairwise.filterMap (R := fun a b : Nat => a < b) _ _ List.pairwise_lt_range
  intro a a' haa b hb b' hb'
  by_cases h1 : g a = 0
  · simp [h1] at hb
  · by_cases h2 : g a' = 0
    · simp [h2] at hb'
    · simp only [h1, h2, if_false, Option.some.injEq] at hb hb'
      rw [← hb, ← hb']
      exact haa

theorem denseToCsr_canonical (D : Dense α) : Canonical (denseToCsr D) ∧ NoZeros (denseToCsr D) := by
  refine ⟨⟨denseToCsr_wf D, ?_⟩, ?_⟩
  · intro i
    rw [denseToCsr_row]
    by_cases hi : i < D.rows
    · simp only [hi, if_true]
      exact range_filterMap_sorted D.cols (fun j => D.val i j)
    · simp only [hi, if_false]; exact List.Pairwise.nil
  · intro i e he
    rw [denseToCsr_row] at he
    by_cases hi : i < D.rows
    · simp only [hi, if_true, List.mem_filterMap] at he
      obtain ⟨j, _, hh⟩ := he
      by_cases hz : D.val i j = 0
      · simp [hz] at hh
      · simp only [hz, if_false, Option.some.injEq] at hh
        rw [← hh]; exact hz
    · simp only [hi, if_false] at he; cases he

/-- the result stores exactly the non-zero entries -/
theorem stored_denseToCsr (D : Dense α) (h : D.wf = true) (i j : Nat) (hi : i < D.rows) :
    stored (denseToCsr D) i j ↔ D.val i j ≠ 0 := by
  obtain ⟨c, z⟩ := denseToCsr_canonical D
  rw [stored_iff_val_ne _ c z i j hi, val_denseToCsr D h]

end dense

/-! ### CSC -/
section csc
variable [Semiring α]

theorem keys_transposeRow (A : Csr α) (c k : Nat) :
    k ∈ keys (transposeRow A c) ↔ k < A.rows ∧ c ∈ keys (A.row k) := by
  unfold transposeRow
  simp only [keys, List.mem_map, List.mem_flatMap, List.mem_range, List.mem_filterMap]
  constructor
  · rintro ⟨e, ⟨i, hi, e', he', hh⟩, hek⟩
    by_cases hc : e'.1 = c
    · simp only [hc, if_true, Option.some.injEq] at hh
      have : i = k := by rw [← hek, ← hh]
      subst this
      exact ⟨hi, e', he', hc⟩
    · simp [hc] at hh
  · rintro ⟨hk, e', he', hc⟩
    exact ⟨(k, e'.2), ⟨k, hk, e', he', by simp [hc]⟩, rfl⟩

/-- the rows of the transpose are strictly sorted iff no column index occurs twice in a row of the operand
(the order inside the rows of the operand is irrelevant: `csr_tocsc` is a counting sort) -/
theorem transposeRow_sorted (A : Csr α) (hnd : ∀ i, (keys (A.row i)).Nodup) (c : Nat) : Sorted (transposeRow A c) := by
  unfold transposeRow
  show List.Pairwise _ _
  rw [List.pairwise_flatMap]
  have key : ∀ i, ∀ x ∈ (A.row i).filterMap (fun e => if e.1 = c then some (i, e.2) else none), x.1 = i := by
    intro i x hx
    rw [List.mem_filterMap] at hx
    obtain ⟨e, _, hh⟩ := hx
    by_cases hc : e.1 = c
    · simp only [hc, if_true, Option.some.injEq] at hh
      rw [← hh]
    · simp [hc] at hh
  constructor
  · intro i _
    have hp : (A.row i).Pairwise (fun a b => a.1 ≠ b.1) := List.pairwise_map.1 (hnd i)
    apply List.Pairwise.filterMap _ _ hp
    intro a a' haa b hb b' hb'
    by_cases h1 : a.1 = c
    · by_cases h2 : a'.1 = c
      · exact absurd (h1.trans h2.symm) haa
      · simp [h2] at hb'
    · simp [h1] at hb
  · apply List.pairwise_lt_range.imp
    intro i1 i2 hlt x hx y hy
    rw [key i1 x hx, key i2 y hy]
    exact hlt

theorem cscToCsr_row (X : Csc α) (i : Nat) :
    (cscToCsr X).row i = if i < X.rows then transposeRow X.asCsrT i else [] :=
  transpose_row X.asCsrT i

/-- CSC -> CSR returns strictly sorted rows iff no row index occurs twice in a column of the input; the input need
not have sorted columns -/
theorem cscToCsr_canonical (X : Csc α) (hnd : ∀ c, (keys (X.asCsrT.row c)).Nodup) : Canonical (cscToCsr X) := by
  refine ⟨cscToCsr_wf X, ?_⟩
  intro i
  rw [cscToCsr_row]
  by_cases hi : i < X.rows
  · simp only [hi, if_true]; exact transposeRow_sorted _ hnd i
  · simp only [hi, if_false]; exact List.Pairwise.nil

/-- the result stores `(i, j)` iff column `j` of the CSC arrays stores row index `i` (zeros included) -/
theorem stored_cscToCsr (X : Csc α) (i j : Nat) (hi : i < X.rows) :
    stored (cscToCsr X) i j ↔ j < X.cols ∧ stored X.asCsrT j i := by
  unfold stored
  rw [cscToCsr_row, if_pos hi, keys_transposeRow]
  rfl

end csc

/-! ### BSR -/
section bsr
variable [Semiring α]

theorem bsrToCsr_row (X : Bsr α) (i : Nat) :
    (bsrToCsr X).row i = if i < X.rows then (X.blockRow (i / X.br)).flatMap fun b =>
      (List.range X.bc).map fun c => (b.1 * X.bc + c, X.blk b.2 (i % X.br) c) else [] := by
  unfold bsrToCsr
  exact ofRows_range_row _ _ _ i

/-- BSR -> CSR returns strictly sorted rows iff the block columns of every block row are strictly sorted -/
theorem bsrToCsr_canonical (X : Bsr α) (h : X.wf = true)
    (hs : ∀ I, (X.blockRow I).Pairwise (fun a b => a.1 < b.1)) : Canonical (bsrToCsr X) := by
  refine ⟨bsrToCsr_wf X h, ?_⟩
  intro i
  rw [bsrToCsr_row]
  by_cases hi : i < X.rows
  · simp only [hi, if_true]
    show List.Pairwise _ _
    rw [List.pairwise_flatMap]
    constructor
    · intro b _
      rw [List.pairwise_map]
      apply List.pairwise_lt_range.imp
      intro c1 c2 hlt
      show b.1 * X.bc + c1 < b.1 * X.bc + c2
      omega
    · apply (hs (i / X.br)).imp
      intro b1 b2 hlt x hx y hy
      simp only [List.mem_map, List.mem_range] at hx hy
      obtain ⟨c1, hc1, rfl⟩ := hx
      obtain ⟨c2, _, rfl⟩ := hy
      show b1.1 * X.bc + c1 < b2.1 * X.bc + c2
      have h2 : (b1.1 + 1) * X.bc ≤ b2.1 * X.bc := Nat.mul_le_mul_right _ hlt
      rw [Nat.add_mul, Nat.one_mul] at h2
      omega
  · simp only [hi, if_false]; exact List.Pairwise.nil

/-- the result stores every entry of every stored block (zeros included) -/
theorem stored_bsrToCsr (X : Bsr α) (hbc : 0 < X.bc) (i j : Nat) (hi : i < X.rows) :
    stored (bsrToCsr X) i j ↔ j / X.bc ∈ (X.blockRow (i / X.br)).map (·.1) := by
  unfold stored
  rw [bsrToCsr_row, if_pos hi]
  simp only [keys, List.mem_map, List.mem_flatMap, List.mem_range]
  constructor
  · rintro ⟨e, ⟨b, hb, c, hc, rfl⟩, hej⟩
    refine ⟨b, hb, ?_⟩
    apply (block_col_iff b.1 X.bc j hbc).1
    have : b.1 * X.bc + c = j := hej
    omega
  · rintro ⟨b, hb, hbj⟩
    have := (block_col_iff b.1 X.bc j hbc).2 hbj
    refine ⟨(b.1 * X.bc + (j - b.1 * X.bc), X.blk b.2 (i % X.br) (j - b.1 * X.bc)), ⟨b, hb, j - b.1 * X.bc, by omega, rfl⟩, ?_⟩
    show b.1 * X.bc + (j - b.1 * X.bc) = j
    omega

end bsr

/-! ### any input format -/
section input
variable [Semiring α] [DecidableEq α]

/-- the condition under which `.tocsr()` of the input has strictly sorted, duplicate-free rows -/
def inputCanonOK : Input α → Prop
  | .csr A => ∀ i, Sorted (A.row i)
  | .csc X => ∀ c, (keys (X.asCsrT.row c)).Nodup
  | .coo _ => True
  | .dense _ => True
  | .bsr X => ∀ I, (X.blockRow I).Pairwise (fun a b => a.1 < b.1)

/-- the stored pattern of the input as `.tocsr()` keeps it (explicit zeros are entries, except for dense input) -/
def inputStored : Input α → Nat → Nat → Prop
  | .csr A => fun i j => Canon.stored A i j
  | .csc X => fun i j => j < X.cols ∧ Canon.stored X.asCsrT j i
  | .coo X => fun i j => ∃ n, n < X.x.size ∧ rdN X.ri n = i ∧ rdN X.ci n = j
  | .dense D => fun i j => D.val i j ≠ 0
  | .bsr X => fun i j => j / X.bc ∈ (X.blockRow (i / X.br)).map (·.1)

/-- **which conversions return canonical CSR** -/
theorem toCsr_canonical (X : Input α) (h : X.wf = true) (hok : inputCanonOK X) : Canonical X.toCsr := by
  cases X with
  | csr A => exact ⟨h, hok⟩
  | csc X => exact cscToCsr_canonical X hok
  | coo X => exact cooToCsr_canonical X h
  | dense D => exact (denseToCsr_canonical D).1
  | bsr X => exact bsrToCsr_canonical X h hok

/-- the stored pattern of the converted matrix in terms of the input -/
theorem stored_toCsr (X : Input α) (h : X.wf = true) (i j : Nat) (hi : i < X.rows) :
    stored X.toCsr i j ↔ inputStored X i j := by
  cases X with
  | csr A => exact Iff.rfl
  | csc X => exact stored_cscToCsr X i j hi
  | coo X => exact stored_cooToCsr X i j hi
  | dense D => exact stored_denseToCsr D h i j hi
  | bsr X => exact stored_bsrToCsr X (X.wf_spec h).2.1 i j hi

/-- **same meaning + same stored pattern => identical arrays**: two inputs in any of the formats (each satisfying
the condition under which its conversion is canonical) that represent the same matrix and store the same positions
are converted to the same `indptr`, `indices`, `data` -/
theorem toCsr_arrays_unique (X Y : Input α) (hX : X.wf = true) (hY : Y.wf = true) (cX : inputCanonOK X) (cY : inputCanonOK Y)
    (hrows : X.rows = Y.rows) (hcols : X.cols = Y.cols) (hval : ∀ i j, X.val i j = Y.val i j)
    (hpat : ∀ i j, i < X.rows → (inputStored X i j ↔ inputStored Y i j)) : X.toCsr = Y.toCsr := by
  apply canonical_unique _ _ (toCsr_canonical X hX cX) (toCsr_canonical Y hY cY)
  · refine ⟨by rw [X.toCsr_rows, Y.toCsr_rows, hrows], by rw [X.toCsr_cols, Y.toCsr_cols, hcols], ?_⟩
    intro i j
    rw [X.val_toCsr hX, Y.val_toCsr hY, hval]
  · intro i j hi
    rw [X.toCsr_rows] at hi
    rw [stored_toCsr X hX i j hi, stored_toCsr Y hY i j (hrows ▸ hi)]
    exact hpat i j hi

/-- for inputs that store no zeros the pattern is determined by the meaning: e.g. a dense array against a COO
list without zero entries and without cancelling duplicates -/
theorem toCsr_arrays_unique_nz (X Y : Input α) (hX : X.wf = true) (hY : Y.wf = true) (cX : inputCanonOK X) (cY : inputCanonOK Y)
    (zX : NoZeros X.toCsr) (zY : NoZeros Y.toCsr)
    (hrows : X.rows = Y.rows) (hcols : X.cols = Y.cols) (hval : ∀ i j, X.val i j = Y.val i j) : X.toCsr = Y.toCsr := by
  apply canonical_unique_nz _ _ (toCsr_canonical X hX cX) (toCsr_canonical Y hY cY) zX zY
  refine ⟨by rw [X.toCsr_rows, Y.toCsr_rows, hrows], by rw [X.toCsr_cols, Y.toCsr_cols, hcols], ?_⟩
  intro i j
  rw [X.val_toCsr hX, Y.val_toCsr hY, hval]

end input

end PyamgV.Canon
