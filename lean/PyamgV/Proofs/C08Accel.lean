import PyamgV.Model.C08Accel
import PyamgV.Proofs.KrylovLoop
import PyamgV.Proofs.SolveLoop

/-! PyamgV (C08): facts about the decision model `C08.plan` of the `accel` branch of
`MultilevelSolver.solve`, the recording wrapper, the composition with the control skeleton of the
native Krylov solvers (`KL.solve`, Proofs/KrylovLoop.lean) and with the cycling loop
(`PyamgV.solve`, Proofs/SolveLoop.lean), and the dispatch of `pyamg.blackbox.solve`. Core Lean only. -/
namespace PyamgV.C08

/-- anatomy of a plan that reaches the accelerator -/
theorem plan_run (T : Tables) (r : Req) (w : Bool) (cs : List Call) (p t : Bool)
    (h : plan T r = .run w cs p t) :
    ∃ tg conv, resolve T r.accel = some (tg, conv) ∧
      w = (decide (r.accel = .name "cg") && !r.symSmoothing) ∧ t = r.returnInfo ∧
      ((conv = .pyamg ∧ cs = [firstCall r tg (upper r.cycle)] ∧ p = false) ∨
       (∃ a, conv = .scipy a ∧
          cs = [firstCall r tg (upper r.cycle), secondCall r tg (upper r.cycle) a] ∧ p = r.residuals)) ∧
      ¬ ((upper r.cycle) = "AMLI" ∧ amliBadSymmetry r.symmetry = true) ∧
      ¬ (r.accel ≠ .name "fgmres" ∧ (upper r.cycle) = "AMLI") := by
  unfold plan at h
  simp only at h
  split at h
  · cases h
  · rename_i h1
    split at h
    · cases h
    · rename_i h2
      split at h
      · cases h
      · rename_i tg hres
        injection h with hw hc hp ht
        exact ⟨tg, .pyamg, hres, hw.symm, ht.symm, Or.inl ⟨rfl, hc.symm, hp.symm⟩, h1, h2⟩
      · rename_i tg a hres
        injection h with hw hc hp ht
        exact ⟨tg, .scipy a, hres, hw.symm, ht.symm, Or.inr ⟨a, rfl, hc.symm, hp.symm⟩, h1, h2⟩

/-- **wiring**: every call the accelerator receives carries the caller's `x0` and `maxiter` and a
preconditioner built for the requested cycle (upper-cased); the PyAMG-convention call carries the
caller's `tol`, callback and residual list; the SciPy-convention call carries `rtol = tol`, `atol`
either `0` or absent, no `tol`/`residuals` keyword, and as callback the recording wrapper exactly when a
list was given, otherwise the caller's callback -/
theorem accel_wiring (T : Tables) (r : Req) (w : Bool) (cs : List Call) (p t : Bool)
    (h : plan T r = .run w cs p t) (c : Call) (hc : c ∈ cs) :
    c.precond = (upper r.cycle) ∧ c.maxiter = r.maxiter ∧ c.x0 = r.x0 ∧
    (c.pyamgStyle = true → c.tol = some r.tol ∧ c.rtol = none ∧ c.atol = none ∧
        c.callback = (if r.callback then .user else .none) ∧ c.residualsKw = some r.residuals) ∧
    (c.pyamgStyle = false → c.tol = none ∧ c.rtol = some r.tol ∧ (c.atol = some 0 ∨ c.atol = none) ∧
        c.residualsKw = none ∧
        c.callback = (if r.residuals then .wrapper else if r.callback then .user else .none)) := by
  obtain ⟨tg, conv, _, _, _, hcs, _, _⟩ := plan_run T r w cs p t h
  have first : ∀ c, c = firstCall r tg (upper r.cycle) → _ := fun c (e : c = firstCall r tg (upper r.cycle)) =>
    show c.precond = (upper r.cycle) ∧ c.maxiter = r.maxiter ∧ c.x0 = r.x0 ∧
      (c.pyamgStyle = true → c.tol = some r.tol ∧ c.rtol = none ∧ c.atol = none ∧
        c.callback = (if r.callback then .user else .none) ∧ c.residualsKw = some r.residuals) ∧
      (c.pyamgStyle = false → c.tol = none ∧ c.rtol = some r.tol ∧ (c.atol = some 0 ∨ c.atol = none) ∧
        c.residualsKw = none ∧
        c.callback = (if r.residuals then .wrapper else if r.callback then .user else .none)) by
      subst e
      exact ⟨rfl, rfl, rfl, fun _ => ⟨rfl, rfl, rfl, rfl, rfl⟩, fun hf => by simp [firstCall] at hf⟩
  rcases hcs with ⟨_, e, _⟩ | ⟨a, _, e, _⟩
  · rw [e] at hc
    exact first c (by simpa using hc)
  · rw [e] at hc
    rcases List.mem_cons.1 hc with e1 | e2
    · exact first c e1
    · have e2 : c = secondCall r tg (upper r.cycle) a := by simpa using e2
      subst e2
      refine ⟨rfl, rfl, rfl, fun hf => by simp [secondCall] at hf, fun _ => ⟨rfl, rfl, ?_, rfl, rfl⟩⟩
      unfold secondCall
      by_cases ha : a.getD true = true
      · simp [ha]
      · simp [ha]

/-- the first call is always in the PyAMG convention, a second call exists exactly for accelerators of
the SciPy convention and is the last one; the caller's list is re-initialised (`[‖b − A x‖]`) exactly
when a second call is made and a list was given -/
theorem accel_calls (T : Tables) (r : Req) (w : Bool) (cs : List Call) (p t : Bool)
    (h : plan T r = .run w cs p t) :
    ∃ tg conv, resolve T r.accel = some (tg, conv) ∧ (∀ c ∈ cs, c.target = tg) ∧
      (conv = .pyamg → cs.length = 1 ∧ p = false) ∧
      (∀ a, conv = .scipy a → cs.length = 2 ∧ p = r.residuals ∧
          (cs.getLast?.map (·.atol)) = some (if a.getD true then some 0 else none)) ∧
      (cs.head?.map (·.pyamgStyle)) = some true ∧ t = r.returnInfo := by
  obtain ⟨tg, conv, hres, _, ht, hcs, _, _⟩ := plan_run T r w cs p t h
  refine ⟨tg, conv, hres, ?_, ?_, ?_, ?_, ht⟩
  · rcases hcs with ⟨_, e, _⟩ | ⟨a, _, e, _⟩ <;> subst e <;> intro c hc <;> simp at hc
    · rw [hc]; rfl
    · rcases hc with hc | hc <;> rw [hc] <;> rfl
  · intro hp
    rcases hcs with ⟨_, e, e2⟩ | ⟨a, ha, _, _⟩
    · subst e; exact ⟨rfl, e2⟩
    · rw [ha] at hp; cases hp
  · intro a ha
    rcases hcs with ⟨hp, _, _⟩ | ⟨a', ha', e, e2⟩
    · rw [hp] at ha; cases ha
    · rw [ha'] at ha
      injection ha with ha
      subst ha; subst e
      exact ⟨rfl, e2, rfl⟩
  · rcases hcs with ⟨_, e, _⟩ | ⟨a, _, e, _⟩ <;> subst e <;> rfl

/-- **AMLI guard**: an AMLI cycle reaches an accelerator only under the name `'fgmres'` and only when
the finest matrix is not marked non-Hermitian -/
theorem amli_guard (T : Tables) (r : Req) (w : Bool) (cs : List Call) (p t : Bool)
    (h : plan T r = .run w cs p t) (hc : (upper r.cycle) = "AMLI") :
    r.accel = .name "fgmres" ∧ (r.symmetry = none ∨ r.symmetry = some "hermitian") := by
  obtain ⟨_, _, _, _, _, _, h1, h2⟩ := plan_run T r w cs p t h
  constructor
  · by_cases e : r.accel = .name "fgmres"
    · exact e
    · exact absurd ⟨e, hc⟩ h2
  · cases hs : r.symmetry with
    | none => exact Or.inl rfl
    | some s =>
      right
      by_cases e : s = "hermitian"
      · rw [e]
      · exfalso
        apply h1
        refine ⟨hc, ?_⟩
        rw [hs]
        simp [amliBadSymmetry, e]

/-- **CG warning**: issued exactly for the *name* `'cg'` on a hierarchy whose smoothing is not flagged
symmetric -/
theorem cg_warning_iff (T : Tables) (r : Req) (w : Bool) (cs : List Call) (p t : Bool)
    (h : plan T r = .run w cs p t) :
    w = true ↔ (r.accel = .name "cg" ∧ r.symSmoothing = false) := by
  obtain ⟨_, _, _, hw, _, _, _, _⟩ := plan_run T r w cs p t h
  rw [hw]
  simp

/-- **lookup order**: a name that `pyamg.krylov` has is resolved there (PyAMG convention, one call),
whatever `scipy.sparse.linalg` offers under the same name -/
theorem native_first (T : Tables) (s : String) (hs : s ∈ T.krylov) :
    resolve T (.name s) = some (.krylov s, .pyamg) := by
  simp [resolve, hs]

theorem scipy_second (T : Tables) (s : String) (a : Bool) (hs : s ∉ T.krylov)
    (ha : T.scipy.lookup s = some a) :
    resolve T (.name s) = some (.scipy s, .scipy (some a)) := by
  simp [resolve, hs, ha]

theorem unknown_name (T : Tables) (s : String) (hs : s ∉ T.krylov) (ha : T.scipy.lookup s = none) :
    resolve T (.name s) = none := by
  simp [resolve, hs, ha]

/-! ### residual history of the SciPy convention -/

variable {X R : Type}

/-- one entry for the start vector plus one per callback invocation -/
theorem history_length (nrm : X → R) (start : X) (evs : List (Ev X R)) :
    (scipyHistory nrm start evs).length = evs.length + 1 := by
  simp [scipyHistory]

/-- the first entry is `‖b − A x₀‖` -/
theorem history_head (nrm : X → R) (start : X) (evs : List (Ev X R)) :
    (scipyHistory nrm start evs).head? = some (nrm start) := rfl

/-- entry `k+1` is the residual norm of the `k`-th iterate handed to the callback (or the scalar the
accelerator reported) -/
theorem history_entry (nrm : X → R) (start : X) (evs : List (Ev X R)) (k : Nat) :
    (scipyHistory nrm start evs)[k+1]? = (evs[k]?).map (entry nrm) := by
  simp [scipyHistory]

/-- the caller's callback still sees every invocation, unchanged and in order -/
theorem user_callback (r : Req) (evs : List (Ev X R)) (h : r.callback = true) :
    userSees r evs = evs := by
  simp [userSees, h]

/-! ### the caller's observables -/

/-- anatomy of a run seen from outside -/
theorem accelRun_some (T : Tables) (r : Req) (nrm : X → R) (start : X) (beh : Beh X R) (v : Visible X R)
    (h : accelRun T r nrm start beh = some v) :
    ∃ w cs p, plan T r = .run w cs p r.returnInfo ∧
      ((∃ x info res its, beh = .native x info res its ∧ cs.length = 1 ∧
          v = { x := x, info := if r.returnInfo then some info else none,
                residuals := if r.residuals then some res else none,
                userCb := if r.callback then its.map .vec else [] }) ∨
       (∃ x info evs, beh = .scipy x info evs ∧ cs.length = 2 ∧
          v = { x := x, info := if r.returnInfo then some info else none,
                residuals := if r.residuals then some (scipyHistory nrm start evs) else none,
                userCb := userSees r evs })) := by
  unfold accelRun at h
  cases hp : plan T r with
  | raise w e => rw [hp] at h; cases h
  | run w cs p t =>
    rw [hp] at h
    obtain ⟨_, _, _, _, ht, _⟩ := plan_run T r w cs p t hp
    subst ht
    refine ⟨w, cs, p, rfl, ?_⟩
    cases beh with
    | native x info res its =>
      simp only at h
      by_cases hl : cs.length = 1
      · rw [if_pos hl] at h
        injection h with h
        exact Or.inl ⟨x, info, res, its, rfl, hl, h.symm⟩
      · rw [if_neg hl] at h; cases h
    | scipy x info evs =>
      simp only at h
      by_cases hl : cs.length = 2
      · rw [if_pos hl] at h
        injection h with h
        exact Or.inr ⟨x, info, evs, rfl, hl, h.symm⟩
      · rw [if_neg hl] at h; cases h

/-- the returned vector and status are the accelerator's own; `info` is returned exactly when
`return_info` was set -/
theorem run_passthrough (T : Tables) (r : Req) (nrm : X → R) (start : X) (beh : Beh X R) (v : Visible X R)
    (h : accelRun T r nrm start beh = some v) :
    (∀ x info res its, beh = .native x info res its →
        v.x = x ∧ v.info = (if r.returnInfo then some info else none)) ∧
    (∀ x info evs, beh = .scipy x info evs →
        v.x = x ∧ v.info = (if r.returnInfo then some info else none)) := by
  obtain ⟨_, _, _, _, hv⟩ := accelRun_some T r nrm start beh v h
  rcases hv with ⟨x, info, res, its, hb, _, hv⟩ | ⟨x, info, evs, hb, _, hv⟩
  · subst hb; subst hv
    constructor
    · intro x' info' res' its' e
      injection e with e1 e2 e3 e4
      subst e1; subst e2
      exact ⟨rfl, rfl⟩
    · intro _ _ _ e; cases e
  · subst hb; subst hv
    constructor
    · intro _ _ _ _ e; cases e
    · intro x' info' evs' e
      injection e with e1 e2 e3
      subst e1; subst e2
      exact ⟨rfl, rfl⟩

/-- **history populated for native and SciPy accelerators alike**: when a list and a callback are
given, the caller's list ends with one entry more than the number of callback invocations -- for a
SciPy-convention accelerator unconditionally (the wrapper), for a native one whenever the accelerator
itself keeps that discipline (it does: `KL.solve_spec`, `nres = ncb + 1`) -- and for the SciPy
convention it starts with `‖b − A x₀‖` -/
theorem history_alike (T : Tables) (r : Req) (nrm : X → R) (start : X) (beh : Beh X R) (v : Visible X R)
    (h : accelRun T r nrm start beh = some v) (hres : r.residuals = true) (hcb : r.callback = true)
    (hnat : ∀ x info res its, beh = .native x info res its → res.length = its.length + 1) :
    ∃ l, v.residuals = some l ∧ l.length = v.userCb.length + 1 ∧
      (∀ x info evs, beh = .scipy x info evs → l.head? = some (nrm start)) := by
  obtain ⟨_, _, _, _, hv⟩ := accelRun_some T r nrm start beh v h
  rcases hv with ⟨x, info, res, its, hb, _, hv⟩ | ⟨x, info, evs, hb, _, hv⟩
  · subst hv
    refine ⟨res, by simp [hres], ?_, ?_⟩
    · simp [hcb, hnat x info res its hb]
    · intro _ _ _ e; rw [hb] at e; cases e
  · subst hv
    refine ⟨scipyHistory nrm start evs, by simp [hres], ?_, fun _ _ _ _ => rfl⟩
    simp [userSees, hcb, scipyHistory]

/-- the convention of the run is the accelerator's: names of `pyamg.krylov` and PyAMG-style callables
run natively (one call), everything else through the SciPy fallback (two calls) -/
theorem run_convention (T : Tables) (r : Req) (nrm : X → R) (start : X) (beh : Beh X R) (v : Visible X R)
    (h : accelRun T r nrm start beh = some v) :
    ∃ tg conv, resolve T r.accel = some (tg, conv) ∧
      ((∃ x info res its, beh = .native x info res its) ↔ conv = .pyamg) := by
  obtain ⟨w, cs, p, hp, hv⟩ := accelRun_some T r nrm start beh v h
  obtain ⟨tg, conv, hr, _, _, hcs, _, _⟩ := plan_run T r w cs p r.returnInfo hp
  refine ⟨tg, conv, hr, ?_⟩
  rcases hv with ⟨x, info, res, its, hb, hl, _⟩ | ⟨x, info, evs, hb, hl, _⟩
  · rcases hcs with ⟨hc, _, _⟩ | ⟨a, _, e, _⟩
    · exact ⟨fun _ => hc, fun _ => ⟨x, info, res, its, hb⟩⟩
    · rw [e] at hl; simp at hl
  · rcases hcs with ⟨_, e, _⟩ | ⟨a, ha, _, _⟩
    · rw [e] at hl; simp at hl
    · constructor
      · rintro ⟨_, _, _, _, e⟩; rw [hb] at e; cases e
      · intro hc; rw [ha] at hc; cases hc

/-! ### honesty of native accelerators: composition with the shared control skeleton -/

variable {σ : Type}

/-- an accelerated solve through a native accelerator: the skeleton `KL.solve` run with the tolerance
and iteration limit *of the call `plan` issues*; `crit tol s` is the accelerator's stopping rule -/
def nativeSolve (T : Tables) (r : Req) (body : σ → Option σ) (crit : Rat → σ → Bool) (s0 : σ) :
    Option (KL.Out σ) :=
  match plan T r with
  | .run _ [c] _ _ =>
    match c.tol with
    | some tol => KL.solve body (crit tol) c.maxiter.toNat s0
    | none => none
  | _ => none

/-- **honest**: the accelerated solve stops; status `0` means the returned state meets the
accelerator's rule *for the tolerance the caller asked for*; otherwise the status is `-1` (breakdown)
or the caller's `maxiter` (then the rule is not met); the history has one entry more than there were
callbacks -/
theorem honest_native (T : Tables) (r : Req) (body : σ → Option σ) (crit : Rat → σ → Bool) (s0 : σ)
    (w : Bool) (c : Call) (p t : Bool) (h : plan T r = .run w [c] p t) (hm : 1 ≤ r.maxiter) :
    ∃ o, nativeSolve T r body crit s0 = some o ∧
      (o.status = 0 → crit r.tol o.s = true) ∧
      (o.status = 0 ∨ o.status = -1 ∨ (o.status = r.maxiter ∧ crit r.tol o.s = false)) ∧
      o.nres = o.ncb + 1 := by
  have hw := accel_wiring T r w [c] p t h c (by simp)
  obtain ⟨_, hmx, _, hpy, _⟩ := hw
  obtain ⟨_, _, _, _, _, _, hhead, _⟩ := accel_calls T r w [c] p t h
  have hstyle : c.pyamgStyle = true := by simpa using hhead
  have htol := (hpy hstyle).1
  have hn : 1 ≤ r.maxiter.toNat := by omega
  obtain ⟨o, ho, h1, h2, h3, h4, _, _⟩ := KL.solve_spec body (crit r.tol) r.maxiter.toNat s0 hn
  refine ⟨o, ?_, h2, ?_, h4⟩
  · unfold nativeSolve
    rw [h]
    simp only [htol, hmx]
    exact ho
  · rcases h1 with h0 | hneg | ⟨hmax, _⟩
    · exact Or.inl h0
    · exact Or.inr (Or.inl hneg)
    · right; right
      have : (o.status : Int) = r.maxiter := by rw [hmax]; omega
      exact ⟨this, h3 (by omega)⟩

/-! ### the preconditioner is one cycle -/

/-- `aspreconditioner`'s `matvec` is `solve(b, maxiter=1, cycle=cycle, tol=1e-12)` without `x0`: the
cycling loop with `maxiter = 1` returns exactly one cycle applied to the start vector, whatever the
tolerance test says -/
theorem precond_one_cycle (cycle : X → X) (resnorm : X → R) (below : R → Bool) (x0 : X) :
    (PyamgV.solve cycle resnorm below 1 x0).map (·.x) = some (cycle x0) := by
  simp only [PyamgV.solve, PyamgV.loop]
  by_cases hb : below (resnorm (cycle x0)) = true
  · simp [hb]
  · simp [hb]

/-! ### `pyamg.blackbox.solve` -/

/-- the accelerator of the black-box call is `cg` for a solver marked Hermitian and `gmres` otherwise -/
theorem bb_accel (symmetry : String) :
    (symmetry = "hermitian" → bbAccel symmetry = "cg") ∧ (symmetry ≠ "hermitian" → bbAccel symmetry = "gmres") := by
  unfold bbAccel
  constructor
  · intro h; simp [h]
  · intro h; simp [h]

theorem upperV : upper "V" = "V" := by decide

/-- anatomy of a black-box call that reaches the solve -/
theorem bbPlan_run (r : BBReq) (setup : Option String) (inner : Req) (rnd : Bool) (shape : List Nat)
    (tuple : Bool) (h : bbPlan r = .run setup inner rnd shape tuple) :
    ∃ s, inner = bbInner r s ∧ rnd = !r.x0 ∧ shape = r.bShape ∧ tuple = r.returnSolver ∧
      ((r.existing = none ∧ setup = some s ∧ s = (if r.hermitian then "hermitian" else "nonsymmetric")) ∨
       (r.existing = some (r.n, some s) ∧ setup = none)) := by
  unfold bbPlan at h
  split at h
  · rename_i he
    injection h with h1 h2 h3 h4 h5
    exact ⟨_, h2.symm, h3.symm, h4.symm, h5.symm, Or.inl ⟨he, h1.symm, rfl⟩⟩
  · rename_i m sym he
    split at h
    · cases h
    · rename_i hm
      have hm : m = r.n := by simpa using hm
      split at h
      · cases h
      · rename_i s
        injection h with h1 h2 h3 h4 h5
        subst hm
        exact ⟨s, h2.symm, h3.symm, h4.symm, h5.symm, Or.inr ⟨he, h1.symm⟩⟩

/-- **black-box wiring**: the inner solve always runs a *native* accelerator (`pyamg.krylov.cg` for a
Hermitian solver, `pyamg.krylov.gmres` otherwise) in one PyAMG-convention call that carries the
caller's `tol` and `maxiter`, a V-cycle preconditioner and the caller's residual list; the result is
reshaped to the shape of `b`; a new solver is built exactly when none was handed in, with the symmetry
detected from the matrix -/
theorem bb_wiring (r : BBReq) (setup : Option String) (inner : Req) (rnd : Bool) (shape : List Nat)
    (tuple : Bool) (h : bbPlan r = .run setup inner rnd shape tuple) :
    ∃ s c, inner.symmetry = some s ∧
      plan tables inner = .run (decide (s = "hermitian") && !r.symSmoothing) [c] false false ∧
      c.target = .krylov (if s = "hermitian" then "cg" else "gmres") ∧
      c.pyamgStyle = true ∧ c.tol = some r.tol ∧ c.maxiter = r.maxiter ∧ c.precond = "V" ∧ c.x0 = true ∧
      c.residualsKw = some r.residuals ∧ c.callback = (if r.verb then .user else .none) ∧
      shape = r.bShape ∧ (setup.isSome = r.existing.isNone) := by
  obtain ⟨s, hin, _, hshape, _, hsetup⟩ := bbPlan_run r setup inner rnd shape tuple h
  have hset : setup.isSome = r.existing.isNone := by
    rcases hsetup with ⟨h1, h2, _⟩ | ⟨h1, h2⟩ <;> rw [h1, h2] <;> rfl
  by_cases hs : s = "hermitian"
  · refine ⟨s, firstCall inner (.krylov "cg") "V", by rw [hin]; rfl, ?_, by simp [hs, firstCall], rfl,
      by rw [hin]; rfl, by rw [hin]; rfl, rfl, by rw [hin]; rfl, by rw [hin]; rfl, by rw [hin]; rfl, hshape, hset⟩
    subst hin; subst hs
    simp [plan, bbInner, bbAccel, amliBadSymmetry, resolve, tables, upperV]
  · refine ⟨s, firstCall inner (.krylov "gmres") "V", by rw [hin]; rfl, ?_, by simp [hs, firstCall], rfl,
      by rw [hin]; rfl, by rw [hin]; rfl, rfl, by rw [hin]; rfl, by rw [hin]; rfl, by rw [hin]; rfl, hshape, hset⟩
    subst hin
    simp [plan, bbInner, bbAccel, amliBadSymmetry, resolve, tables, hs, upperV]

end PyamgV.C08
