import PyamgV.Proofs.ExtSpmmMat
import PyamgV.Proofs.Coarsen

/-! PyamgV (extension E27, C15): format independence of a whole hierarchy reduces to format independence
of the construction of `P`.  The loop is `Coarsen.build` (the loop of the five constructors), a step is
"construct `P` from the level matrix, `R = conj(P)ᵀ`, `A_c = R @ A @ P`" with the sparse model for the last
two; what the step that constructs `P` does is a parameter. -/
namespace PyamgV.Spmm

/-- two runs of the coarsening loop whose states are related, whose sizes agree on related states and whose
steps map related states to related states (or stall together) return related level lists -/
theorem build_sim {L L' : Type} (Rel : L → L' → Prop) (size : L → Nat) (size' : L' → Nat)
    (ext : L → Option L) (ext' : L' → Option L')
    (hsize : ∀ a b, Rel a b → size a = size' b)
    (hext : ∀ a b, Rel a b → (ext a = none ∧ ext' b = none) ∨ ∃ x y, ext a = some x ∧ ext' b = some y ∧ Rel x y)
    (ml mc : Nat) : ∀ (fuel : Nat) (lv : List L) (lv' : List L'), List.Forall₂ Rel lv lv' →
      List.Forall₂ Rel (Coarsen.build size ext ml mc fuel lv) (Coarsen.build size' ext' ml mc fuel lv') := by
  intro fuel
  induction fuel with
  | zero => intro lv lv' h; simpa [Coarsen.build] using h
  | succ fuel ih =>
    intro lv lv' h
    cases h with
    | nil => simp [Coarsen.build]
    | @cons a b rest rest' hab hrest =>
      have hlen : rest.length = rest'.length := hrest.length_eq
      simp only [Coarsen.build]
      have hiff : ((a :: rest).length < ml ∧ size a > mc) ↔ ((b :: rest').length < ml ∧ size' b > mc) := by
        simp only [List.length_cons, hsize a b hab, hlen]
      by_cases hc : (a :: rest).length < ml ∧ size a > mc
      · rw [if_pos hc, if_pos (hiff.1 hc)]
        rcases hext a b hab with ⟨h1, h2⟩ | ⟨x, y, h1, h2, hxy⟩
        · rw [h1, h2]; exact List.Forall₂.cons hab hrest
        · rw [h1, h2]
          exact ih _ _ (List.Forall₂.cons hxy (List.Forall₂.cons hab hrest))
      · rw [if_neg hc, if_neg (fun h => hc (hiff.2 h))]; exact List.Forall₂.cons hab hrest

variable {α : Type} [Semiring α] [DecidableEq α]

/-- two stored forms of one level matrix: both well formed, square, same dense meaning -/
structure LevelRel (A A' : Csr α) : Prop where
  wf : A.wf = true
  wf' : A'.wf = true
  sq : A.rows = A.cols
  same : A.SameMeaning A'

/-- one step of a constructor: `P` from the level matrix (`none` = the step stalls), `R = conj(P)ᵀ`
(`g = id`: `R = Pᵀ`), `A_c = R @ A @ P` -/
def gstep (g : α → α) (pstep : Csr α → Option (Csr α)) (A : Csr α) : Option (Csr α) :=
  (pstep A).map fun P => galerkin (conjT g P) A P

/-- the construction of `P` sees the dense meaning only: on two stored forms of one matrix the two code
paths stall together or return well-formed prolongators with the same dense meaning -/
def PStepOK (pstep pstep' : Csr α → Option (Csr α)) : Prop :=
  ∀ A A', LevelRel A A' → (pstep A = none ∧ pstep' A' = none) ∨
    ∃ P P', pstep A = some P ∧ pstep' A' = some P' ∧ P.wf = true ∧ P'.wf = true ∧ P.rows = A.rows ∧ P.SameMeaning P'

omit [DecidableEq α] in
theorem conjT_sameMeaning (g : α → α) (hg : g 0 = 0) (hadd : ∀ a b, g (a + b) = g a + g b) (P P' : Csr α)
    (hP : P.wf = true) (hP' : P'.wf = true) (h : P.SameMeaning P') : (conjT g P).SameMeaning (conjT g P') := by
  obtain ⟨h1, h2, h3⟩ := h
  refine ⟨h2, h1, ?_⟩
  intro i j
  rw [val_conjT g hg hadd P hP, val_conjT g hg hadd P' hP', h3]

/-- the Galerkin step maps related levels to related levels -/
theorem gstep_rel (g : α → α) (hg : g 0 = 0) (hadd : ∀ a b, g (a + b) = g a + g b)
    (pstep pstep' : Csr α → Option (Csr α)) (hp : PStepOK pstep pstep') (A A' : Csr α) (hrel : LevelRel A A') :
    (gstep g pstep A = none ∧ gstep g pstep' A' = none) ∨
      ∃ x y, gstep g pstep A = some x ∧ gstep g pstep' A' = some y ∧ LevelRel x y := by
  rcases hp A A' hrel with ⟨h1, h2⟩ | ⟨P, P', h1, h2, hP, hP', hrows, hsame⟩
  · left; simp [gstep, h1, h2]
  · right
    refine ⟨galerkin (conjT g P) A P, galerkin (conjT g P') A' P', by simp [gstep, h1], by simp [gstep, h2], ?_⟩
    have hR : (conjT g P).wf = true := conjT_wf g P
    have hR' : (conjT g P').wf = true := conjT_wf g P'
    refine ⟨galerkin_wf _ _ _ hP, galerkin_wf _ _ _ hP', rfl, ?_⟩
    apply galerkin_congr (conjT g P) A P (conjT g P') A' P' hR hrel.wf hP hR' hrel.wf' hP'
    · show P.rows = A.rows; exact hrows
    · rw [← hrel.sq]; exact hrows.symm
    · exact conjT_sameMeaning g hg hadd P P' hP hP' hsame
    · exact hrel.same
    · exact hsame

/-- **format independence of the hierarchy, reduced to the construction of `P`**: started on two stored
forms of one matrix (any limits, any fuel), the loop of the constructors with the sparse Galerkin step
returns the same number of levels, and level by level matrices with the same dense meaning, provided the
construction of `P` sees the dense meaning only -/
theorem hierarchy_format_independent (g : α → α) (hg : g 0 = 0) (hadd : ∀ a b, g (a + b) = g a + g b)
    (pstep pstep' : Csr α → Option (Csr α)) (hp : PStepOK pstep pstep') (ml mc fuel : Nat)
    (A A' : Csr α) (hrel : LevelRel A A') :
    List.Forall₂ LevelRel (Coarsen.build (fun A => A.rows) (gstep g pstep) ml mc fuel [A])
      (Coarsen.build (fun A => A.rows) (gstep g pstep') ml mc fuel [A']) := by
  apply build_sim LevelRel _ _ _ _ (fun a b h => h.same.1) (gstep_rel g hg hadd pstep pstep' hp)
  exact List.Forall₂.cons hrel List.Forall₂.nil

/-- in particular for an input given in two formats -/
theorem hierarchy_input_independent (g : α → α) (hg : g 0 = 0) (hadd : ∀ a b, g (a + b) = g a + g b)
    (pstep pstep' : Csr α → Option (Csr α)) (hp : PStepOK pstep pstep') (ml mc fuel : Nat)
    (X Y : Input α) (hX : X.wf = true) (hY : Y.wf = true) (hsq : X.rows = X.cols)
    (hrows : X.rows = Y.rows) (hcols : X.cols = Y.cols) (hval : ∀ i j, X.val i j = Y.val i j) :
    List.Forall₂ LevelRel (Coarsen.build (fun A => A.rows) (gstep g pstep) ml mc fuel [X.toCsr])
      (Coarsen.build (fun A => A.rows) (gstep g pstep') ml mc fuel [Y.toCsr]) := by
  apply hierarchy_format_independent g hg hadd pstep pstep' hp
  refine ⟨X.toCsr_wf hX, Y.toCsr_wf hY, by rw [X.toCsr_rows, X.toCsr_cols]; exact hsq, ?_⟩
  refine ⟨by rw [X.toCsr_rows, Y.toCsr_rows, hrows], by rw [X.toCsr_cols, Y.toCsr_cols, hcols], ?_⟩
  intro i j
  rw [X.val_toCsr hX, Y.val_toCsr hY, hval]

/-! ### the hypothesis is satisfiable: pairwise aggregation by index, which looks at the shape only -/

/-- `n x ceil(n/2)` aggregation of the unknowns `2k`, `2k + 1` -/
def pairP (n : Nat) : Csr α := ofRows n ((n + 1) / 2) ((List.range n).map fun i => [(i / 2, 1)])

/-- stalls on a single unknown -/
def pairStep (A : Csr α) : Option (Csr α) := if A.rows ≤ 1 then none else some (pairP A.rows)

omit [DecidableEq α] in
theorem pairP_wf (n : Nat) : (pairP n : Csr α).wf = true := by
  unfold pairP
  apply ofRows_wf
  · simp
  · intro l hl e he
    rw [List.mem_map] at hl
    obtain ⟨i, hi, rfl⟩ := hl
    have hi' : i < n := List.mem_range.1 hi
    have : e = (i / 2, 1) := by simpa using he
    rw [this]
    show i / 2 < (n + 1) / 2
    omega

theorem pairStep_ok : PStepOK (pairStep (α := α)) pairStep := by
  intro A A' hrel
  have hrows : A.rows = A'.rows := hrel.same.1
  unfold pairStep
  by_cases h : A.rows ≤ 1
  · left; rw [if_pos h, if_pos (hrows ▸ h)]; exact ⟨rfl, rfl⟩
  · right
    refine ⟨pairP A.rows, pairP A'.rows, by rw [if_neg h], by rw [if_neg (hrows ▸ h)], pairP_wf _, pairP_wf _, rfl, ?_⟩
    rw [← hrows]
    exact ⟨rfl, rfl, fun _ _ => rfl⟩

end PyamgV.Spmm
