import PyamgV.Proofs.ExtC06GmresEstMgs
import PyamgV.Proofs.ExtC06GmresEstHh
import PyamgV.Proofs.ExtC07Vec

/-! PyamgV (C06, extension E16): **GMRES family -- status, residual history and callback tell the truth.**

For the executable models of the complete functions `gmres_mgs`, `gmres_householder`, `fgmres`
(`Model/ExtC06Gmres.lean`: `gRun` with the engines `mgsEng`, `hhEng`, `fgEng`), over an ordered field with an exact
square root, a positive threshold `thr = tol · ‖M b‖` and `max_inner ≤ n` (what `gmresDims` guarantees): the C06
clauses `GTruthful` with history function `‖M (b − A x)‖₂` (`fgmres`: `‖b − A x‖₂`) and criterion `‖…‖₂ < thr`
evaluated from the *true* residual of the iterate -- every entry of `residuals` is the residual norm of the
corresponding callback iterate (the Givens estimate `|g[inner+1]|` for the inner iterations, by
`gmres_mgs_estimate` / `gmres_hh_estimate` / `fgmres_estimate`), the last one belongs to the returned `x`, status `0`
only if the recomputed residual meets the criterion.

* over a `K`-module: `gmres_mgs_run_truthful`, `gmres_hh_run_truthful`, `fgmres_run_truthful`;
* for the `Vector K n` instance the driver executes (`vecOps` / `hopsVec`; in binary64 there): `…_vec_truthful`. -/
namespace PyamgV.ExtC06
open PyamgV.C07

theorem gmresDims_inner_le (n : Nat) (restart maxiter : Option Nat) :
    (C06.gmresDims n restart maxiter).maxInner ≤ n := by
  unfold C06.gmresDims
  split
  · simp only; split <;> omega
  · simp only; split
    · exact Nat.min_le_left _ _
    · split <;> omega

section module
variable {K : Type} [Field K] [LinearOrder K] [IsStrictOrderedRing K]
variable {V : Type} [AddCommGroup V] [Module K V]
variable (A AH M : V →ₗ[K] V) (e : EForm K V) (E : Nat → V) (sqrt : K → K) (n : Nat) (pre : Nat → V → V) (b : V)
variable (hdef : ∀ v, e.a v v = 0 → v = 0) (hsq : ∀ a, 0 ≤ a → sqrt a * sqrt a = a) (hsq0 : ∀ a, 0 ≤ sqrt a)

include hdef hsq hsq0 in
/-- **`gmres_mgs`**: history = `‖M (b − A ·)‖₂` of `x0` and of every callback iterate, … (`GTruthful`) -/
theorem gmres_mgs_run_truthful (thr : K) (hthr : 0 < thr) (stag : V → V → Bool) (d : C06.GDims)
    (hI : 1 ≤ d.maxInner) (hO : 1 ≤ d.maxOuter) (hmax : d.maxInner ≤ n) (x0 : V) :
    GTruthful (gRun (mgsEng (Ops.ofModule A AH M e) sqrt posK nzK n b) ltK absK thr stag d x0) x0
      (fun x => sqrt (e.a (M (b - A x)) (M (b - A x))))
      (fun x => ltK (sqrt (e.a (M (b - A x)) (M (b - A x)))) thr) d :=
  gRun_truthful _ ltK absK thr stag d hI hO
    (mgs_estInv A AH M e sqrt n b hdef hsq hsq0 thr hthr d.maxInner hmax) x0

variable (hE : OrthoFam e E n)

include hdef hsq hsq0 hE in
/-- **`gmres_householder`** -/
theorem gmres_hh_run_truthful (thr : K) (hthr : 0 < thr) (stag : V → V → Bool) (d : C06.GDims)
    (hI : 1 ≤ d.maxInner) (hO : 1 ≤ d.maxOuter) (hmax : d.maxInner ≤ n) (x0 : V) :
    GTruthful (gRun (hhEng (HOps.ofModule A AH M e E) sqrt sgnK nzK n b) ltK absK thr stag d x0) x0
      (fun x => sqrt (e.a (M (b - A x)) (M (b - A x))))
      (fun x => ltK (sqrt (e.a (M (b - A x)) (M (b - A x)))) thr) d :=
  gRun_truthful _ ltK absK thr stag d hI hO
    (hh_estInv A AH M e E sqrt n b hdef hsq hsq0 hE thr hthr d.maxInner hmax) x0

include hdef hsq hsq0 hE in
/-- **`fgmres`** (any maps `pre j` as preconditioner): history and criterion in the norm of the true residual -/
theorem fgmres_run_truthful (thr : K) (hthr : 0 < thr) (stag : V → V → Bool) (d : C06.GDims)
    (hI : 1 ≤ d.maxInner) (hO : 1 ≤ d.maxOuter) (hmax : d.maxInner ≤ n) (x0 : V) :
    GTruthful (gRun (fgEng (HOps.ofModule A AH M e E) sqrt sgnK nzK n pre b) ltK absK thr stag d x0) x0
      (fun x => sqrt (e.a (b - A x) (b - A x)))
      (fun x => ltK (sqrt (e.a (b - A x) (b - A x))) thr) d :=
  gRun_truthful _ ltK absK thr stag d hI hO
    (fg_estInv A AH M e E sqrt n pre b hdef hsq hsq0 hE thr hthr d.maxInner hmax) x0
end module

/-! ### the `Vector K n` instance the driver executes -/
section vectors
variable {K : Type} [Field K] [LinearOrder K] [IsStrictOrderedRing K] {n : Nat}
variable (A M : Vector (Vector K n) n) (sqrt : K → K) (b : Vector K n)
variable (hsq : ∀ a, 0 ≤ a → sqrt a * sqrt a = a) (hsq0 : ∀ a, 0 ≤ sqrt a)

theorem mgsEng_hom :
    EngHom toFn (mapGm toFn) (mgsEng (vecOps (fun (a : K) => a) A M) sqrt posK nzK n b)
      (mgsEng (modOps A M) sqrt posK nzK n (toFn b)) where
  start x := gmresInit_hom toFn _ _ (opsHom_vec A M) sqrt b x
  step x s := gmresStep_hom toFn _ _ (opsHom_vec A M) sqrt posK nzK n x s
  est _ := rfl
  cur x s := (getLast_map toFn s.xs x).symm
  resn x := by
    have H := opsHom_vec A M
    show sqrt _ = sqrt _
    rw [H.dot, H.M, H.sub, H.A]

theorem hhEng_hom :
    EngHom toFn (mapHh toFn) (hhEng (hopsVec (fun (a : K) => a) A M) sqrt sgnK nzK n b)
      (hhEng (modHOps A M) sqrt sgnK nzK n (toFn b)) where
  start x := by
    have H := hopsHom_vec A M
    show mapHh toFn (hhInit _ sqrt sgnK _) = hhInit _ sqrt sgnK _
    rw [hhInit_hom toFn _ _ H, H.o.M, H.o.sub, H.o.A]
  step x s := ghStep_hom toFn _ _ (hopsHom_vec A M) sqrt sgnK nzK n x s
  est _ := rfl
  cur x s := (getLast_map toFn s.xs x).symm
  resn x := by
    have H := (hopsHom_vec A M).o
    show sqrt _ = sqrt _
    rw [H.dot, H.M, H.sub, H.A]

theorem fgEng_hom (pre : Nat → Vector K n → Vector K n) :
    EngHom toFn (mapHh toFn) (fgEng (hopsVec (fun (a : K) => a) A M) sqrt sgnK nzK n pre b)
      (fgEng (modHOps A M) sqrt sgnK nzK n (preFn pre) (toFn b)) where
  start x := by
    have H := hopsHom_vec A M
    show mapHh toFn (hhInit _ sqrt sgnK _) = hhInit _ sqrt sgnK _
    rw [hhInit_hom toFn _ _ H, H.o.sub, H.o.A]
  step x s := fgStep_hom toFn _ _ (hopsHom_vec A M) sqrt sgnK nzK n pre (preFn pre) (preFn_hom pre) x s
  est _ := rfl
  cur x s := (getLast_map toFn s.xs x).symm
  resn x := by
    have H := (hopsHom_vec A M).o
    show sqrt _ = sqrt _
    rw [H.dot, H.sub, H.A]

include hsq hsq0 in
/-- **`gmres_mgs` on `Vector K n`** (the definition the driver runs, op `ext_c06_gmres mgs`) -/
theorem gmres_mgs_vec_truthful (thr : K) (hthr : 0 < thr) (stag : Vector K n → Vector K n → Bool) (d : C06.GDims)
    (hI : 1 ≤ d.maxInner) (hO : 1 ≤ d.maxOuter) (hmax : d.maxInner ≤ n) (x0 : Vector K n) :
    GTruthful (gRun (mgsEng (vecOps (fun (a : K) => a) A M) sqrt posK nzK n b) ltK absK thr stag d x0) x0
      (mgsEng (vecOps (fun (a : K) => a) A M) sqrt posK nzK n b).resn
      (fun x => ltK ((mgsEng (vecOps (fun (a : K) => a) A M) sqrt posK nzK n b).resn x) thr) d :=
  gRun_truthful _ ltK absK thr stag d hI hO
    (estInv_hom ltK absK thr (mgsEng_hom A M sqrt b) d.maxInner
      (mgs_estInv (linOf A) (linOf (vctrans (fun a => a) A)) (linOf M) (dotForm K n) sqrt n (toFn b)
        dotForm_def hsq hsq0 thr hthr d.maxInner hmax)) x0

include hsq hsq0 in
/-- **`gmres_householder` on `Vector K n`** (op `ext_c06_gmres hh`) -/
theorem gmres_hh_vec_truthful (thr : K) (hthr : 0 < thr) (stag : Vector K n → Vector K n → Bool) (d : C06.GDims)
    (hI : 1 ≤ d.maxInner) (hO : 1 ≤ d.maxOuter) (hmax : d.maxInner ≤ n) (x0 : Vector K n) :
    GTruthful (gRun (hhEng (hopsVec (fun (a : K) => a) A M) sqrt sgnK nzK n b) ltK absK thr stag d x0) x0
      (hhEng (hopsVec (fun (a : K) => a) A M) sqrt sgnK nzK n b).resn
      (fun x => ltK ((hhEng (hopsVec (fun (a : K) => a) A M) sqrt sgnK nzK n b).resn x) thr) d :=
  gRun_truthful _ ltK absK thr stag d hI hO
    (estInv_hom ltK absK thr (hhEng_hom A M sqrt b) d.maxInner
      (hh_estInv (linOf A) (linOf (vctrans (fun a => a) A)) (linOf M) (dotForm K n) (stdE n) sqrt n (toFn b)
        dotForm_def hsq hsq0 stdE_ortho thr hthr d.maxInner hmax)) x0

include hsq hsq0 in
/-- **`fgmres` on `Vector K n`** (op `ext_c06_gmres fg`), any preconditioner maps -/
theorem fgmres_vec_truthful (pre : Nat → Vector K n → Vector K n) (thr : K) (hthr : 0 < thr)
    (stag : Vector K n → Vector K n → Bool) (d : C06.GDims)
    (hI : 1 ≤ d.maxInner) (hO : 1 ≤ d.maxOuter) (hmax : d.maxInner ≤ n) (x0 : Vector K n) :
    GTruthful (gRun (fgEng (hopsVec (fun (a : K) => a) A M) sqrt sgnK nzK n pre b) ltK absK thr stag d x0) x0
      (fgEng (hopsVec (fun (a : K) => a) A M) sqrt sgnK nzK n pre b).resn
      (fun x => ltK ((fgEng (hopsVec (fun (a : K) => a) A M) sqrt sgnK nzK n pre b).resn x) thr) d :=
  gRun_truthful _ ltK absK thr stag d hI hO
    (estInv_hom ltK absK thr (fgEng_hom A M sqrt b pre) d.maxInner
      (fg_estInv (linOf A) (linOf (vctrans (fun a => a) A)) (linOf M) (dotForm K n) (stdE n) sqrt n (preFn pre)
        (toFn b) dotForm_def hsq hsq0 stdE_ortho thr hthr d.maxInner hmax)) x0

/-- what the history function of the vector engines is: the Euclidean norm of `M (b − A x)` computed with
`vmv` / `vdot` -/
theorem mgs_vec_resn (x : Vector K n) :
    (mgsEng (vecOps (fun (a : K) => a) A M) sqrt posK nzK n b).resn x =
      sqrt (vdot (fun a => a) (vmv M (Vector.zipWith (· - ·) b (vmv A x)))
        (vmv M (Vector.zipWith (· - ·) b (vmv A x)))) := rfl
end vectors

#print axioms gmres_mgs_run_truthful
#print axioms gmres_hh_run_truthful
#print axioms fgmres_run_truthful
#print axioms gmres_mgs_vec_truthful
#print axioms gmres_hh_vec_truthful
#print axioms fgmres_vec_truthful
end PyamgV.ExtC06
