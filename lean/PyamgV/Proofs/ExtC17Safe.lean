import PyamgV.Model.ExtC17Ck
import PyamgV.Proofs.C17Safe2

/-! PyamgV (C17, extension E7): bounds-safety (+ termination of the `while` loop) for the `Ck` models of
`Model/ExtC17Ck.lean`: `filter_matrix_rows`, `remove_strong_FF_connections`, `incomplete_mat_mult_csr`.
Core Lean only. -/
namespace PyamgV.C17
open PyamgV.Ck

set_option linter.unusedSectionVars false
set_option linter.unusedVariables false
variable {α : Type} [Inhabited α]

/-- `Safe.bind` when the continuation is only known to be safe at the value actually produced -/
theorem Safe.bind_val {β γ : Type} {x : Ck β} {f : β → Ck γ} {Q : γ → Prop} (hx : x.ok = true)
    (hf : Safe (f x.val) Q) : Safe (x >>= f) Q :=
  ⟨by show (x.ok && (f x.val).ok) = true; rw [hx, hf.1]; rfl, hf.2⟩

/-- row pointer reads of row `i` with their values -/
theorem rd_ap_safe {m : Nat} (G : Csr α) (hG : WFm G m) (i : Int) (i0 : 0 ≤ i) (i1 : i < (G.n : Int)) :
    Safe (rd G.ap i) (fun s => s = G.ap.getD i.toNat 0) ∧
    Safe (rd G.ap (i+1)) (fun e => e = G.ap.getD (i.toNat + 1) 0) := by
  have hs1 : (i+1).toNat = i.toNat + 1 := by omega
  refine ⟨rd_safe G.ap i i0 (by rw [hG.ap_size]; omega), ?_⟩
  have := rd_safe G.ap (i+1) (by omega) (by rw [hG.ap_size]; omega)
  rw [hs1] at this
  exact this

/-- a column index read inside a row is a column number -/
theorem col_ok {m : Nat} (G : Csr α) (hG : WFm G m) (jj : Int) (h0 : 0 ≤ jj) (h1 : jj.toNat < G.aj.size)
    (j : Int) (hj : j = G.aj.getD jj.toNat default) : 0 ≤ j ∧ j.toNat < m := by
  have hc := hG.cols jj.toNat h1
  have hj' : j = G.aj.getD jj.toNat 0 := hj
  rw [← hj'] at hc
  omega

/-! ### `filter_matrix_rows` -/

theorem fmDiag_safe (o : KOps α) (G : Csr α) {m : Nat} (hG : WFm G m) (ax : Array α)
    (hax : ax.size = G.ax.size) (i : Int) (i0 : 0 ≤ i) (i1 : i < (G.n : Int)) :
    Safe (fmDiag o G ax i (G.ap.getD i.toNat 0) (G.ap.getD (i.toNat + 1) 0))
      (fun acc => (acc.2.2 = true → G.ap.getD i.toNat 0 ≤ acc.1 ∧ acc.1 < G.ap.getD (i.toNat + 1) 0) ∧
        (acc.2.2 = false → acc.2.1 = o.zero)) := by
  have hin : i.toNat < G.n := by omega
  unfold fmDiag
  apply forRange_safe _ _ _ _ _ ⟨fun h => (by cases h), fun _ => rfl⟩
  intro jj j1 j2 acc hacc
  by_cases hb : acc.2.2 = true
  · rw [if_pos hb]; exact Safe.pure hacc
  · rw [if_neg hb]
    have hr := row_range_m G hG i.toNat hin jj j1 j2
    refine Safe.bind (rd_safe G.aj jj hr.1 hr.2.1) (fun j _ => ?_)
    by_cases hji : j = i
    · rw [if_pos hji]
      refine Safe.bind (rd_safe ax jj hr.1 (by rw [hax]; exact hr.2.2)) (fun a _ => ?_)
      exact Safe.pure ⟨fun _ => ⟨j1, j2⟩, fun h => (by cases h)⟩
    · rw [if_neg hji]; exact Safe.pure hacc

theorem fmRow_safe (o : KOps α) (lt : α → α → Bool) (theta : α) (lump : Bool) (G : Csr α) {m : Nat}
    (hG : WFm G m) (hlt : lump = true → ∀ a, lt (o.norm a) (o.mul theta o.zero) = false)
    (i : Int) (i0 : 0 ≤ i) (i1 : i < (G.n : Int)) (ax : Array α) (hax : ax.size = G.ax.size) :
    Safe (fmRow o lt theta lump G i ax) (fun ax' => ax'.size = G.ax.size) := by
  have hin : i.toNat < G.n := by omega
  obtain ⟨r1, r2⟩ := rd_ap_safe G hG i i0 i1
  unfold fmRow
  refine Safe.bind r1 (fun s hs => ?_)
  refine Safe.bind r2 (fun e he => ?_)
  subst hs; subst he
  refine Safe.bind (fmDiag_safe o G hG ax hax i i0 i1) (fun d hd => ?_)
  apply forRange_safe (fun ax' : Array α => ax'.size = G.ax.size) _ _ _ _ hax
  intro jj j1 j2 ax' hax'
  have hr := row_range_m G hG i.toNat hin jj j1 j2
  have hw : jj.toNat < ax'.size := by rw [hax']; exact hr.2.2
  refine Safe.bind (rd_safe ax' jj hr.1 hw) (fun a _ => ?_)
  by_cases hc : lt (o.norm a) (o.mul theta d.2.1) = true
  · rw [if_pos hc]
    by_cases hl : lump = true
    · rw [if_pos hl]
      refine Safe.bind (rd_safe G.aj jj hr.1 hr.2.1) (fun j _ => ?_)
      by_cases hji : j ≠ i
      · rw [if_pos hji]
        -- the diagonal was found: otherwise the threshold is `theta*0` and nothing is below it
        have hfound : d.2.2 = true := by
          cases hb : d.2.2 with
          | true => rfl
          | false =>
            have hz := hd.2 hb
            rw [hz, hlt hl a] at hc
            cases hc
        have hdr := hd.1 hfound
        have hrd := row_range_m G hG i.toNat hin d.1 hdr.1 hdr.2
        refine Safe.bind (rd_safe ax' d.1 hrd.1 (by rw [hax']; exact hrd.2.2)) (fun dv _ => ?_)
        refine Safe.bind (wr_safe ax' d.1 _ hrd.1 (by rw [hax']; exact hrd.2.2)) (fun ax2 hax2 => ?_)
        exact Safe.mono (wr_safe ax2 jj _ hr.1 (by rw [hax2]; exact hw)) (fun a' h => by rw [h, hax2, hax'])
      · rw [if_neg hji]; exact Safe.pure hax'
    · rw [if_neg hl]
      exact Safe.mono (wr_safe ax' jj _ hr.1 hw) (fun a' h => by rw [h, hax'])
  · rw [if_neg hc]; exact Safe.pure hax'

/-- **`filter_matrix_rows`**, both values of `lump`, any structurally valid `n × m` CSR matrix (diagonal
present, missing or repeated).  With `lump` the write `Ax[diag_ind] += ..` needs `diag_ind ≠ -1`: a row
without diagonal has threshold `theta*0`, and no norm is below that (`hlt`; true for IEEE doubles and
any `theta`, including `inf`/`nan`, and for exact arithmetic). -/
theorem filterRows_safe (o : KOps α) (lt : α → α → Bool) (theta : α) (lump : Bool) (G : Csr α) {m : Nat}
    (hG : WFm G m) (hlt : lump = true → ∀ a, lt (o.norm a) (o.mul theta o.zero) = false) :
    Safe (filterRows o lt theta lump G) (fun ax => ax.size = G.ax.size) := by
  unfold filterRows
  apply forRange_safe (fun ax : Array α => ax.size = G.ax.size) 0 (G.n : Int) _ _ rfl
  intro i i0 i1 ax hax
  exact fmRow_safe o lt theta lump G hG hlt i i0 i1 ax hax

/-! ### `remove_strong_FF_connections` -/

theorem ffDep_safe (S : Csr α) (hS : WFm S S.n) (splitting : Array Int) (hsp : splitting.size = S.n)
    (row : Int) (r0 : 0 ≤ row) (r1 : row < (S.n : Int)) (j : Int) (j0 : 0 ≤ j) (j1 : j < (S.n : Int)) :
    Safe (ffDep S splitting (S.ap.getD row.toNat 0) (S.ap.getD (row.toNat + 1) 0) j) (fun _ => True) := by
  have hin : row.toNat < S.n := by omega
  have hjn : j.toNat < S.n := by omega
  unfold ffDep
  apply forRange_safe (fun _ => True) _ _ _ _ trivial
  intro ii i1 i2 dep _
  by_cases hd : dep = true
  · rw [if_pos hd]; exact Safe.pure trivial
  · rw [if_neg hd]
    have hr := row_range_m S hS row.toNat hin ii i1 i2
    refine Safe.bind (rd_safe S.aj ii hr.1 hr.2.1) (fun ri hri => ?_)
    have hc := col_ok S hS ii hr.1 hr.2.1 ri hri
    refine Safe.bind (rd_safe splitting ri hc.1 (by rw [hsp]; exact hc.2)) (fun sri _ => ?_)
    by_cases h1 : sri = 1
    · rw [if_pos h1]
      obtain ⟨q1, q2⟩ := rd_ap_safe S hS j j0 j1
      refine Safe.bind q1 (fun js hjs => ?_)
      refine Safe.bind q2 (fun je hje => ?_)
      subst hjs; subst hje
      apply forRange_safe (fun _ => True) _ _ _ _ trivial
      intro kk k1 k2 dep' _
      have hk := row_range_m S hS j.toNat hjn kk k1 k2
      refine Safe.bind (rd_safe S.aj kk hk.1 hk.2.1) (fun c _ => ?_)
      by_cases hcr : c = ri
      · rw [if_pos hcr]; exact Safe.pure trivial
      · rw [if_neg hcr]; exact Safe.pure trivial
    · rw [if_neg h1]; exact Safe.pure trivial

/-- **`remove_strong_FF_connections`**: `S` a structurally valid `n × n` pattern with values, `splitting`
of length `n` (any integer entries) -/
theorem removeFF_safe (o : KOps α) (S : Csr α) (hS : WFm S S.n) (splitting : Array Int)
    (hsp : splitting.size = S.n) :
    Safe (removeFF o S splitting) (fun sx => sx.size = S.ax.size) := by
  unfold removeFF
  apply forRange_safe (fun sx : Array α => sx.size = S.ax.size) 0 (S.n : Int) _ _ rfl
  intro row r0 r1 sx hsx
  have hin : row.toNat < S.n := by omega
  refine Safe.bind (rd_safe splitting row r0 (by rw [hsp]; exact hin)) (fun sr _ => ?_)
  by_cases hf : sr = 0
  · rw [if_pos hf]
    obtain ⟨q1, q2⟩ := rd_ap_safe S hS row r0 r1
    refine Safe.bind q1 (fun s hs => ?_)
    refine Safe.bind q2 (fun e he => ?_)
    subst hs; subst he
    apply forRange_safe (fun sx : Array α => sx.size = S.ax.size) _ _ _ _ hsx
    intro jj j1 j2 sx' hsx'
    have hr := row_range_m S hS row.toNat hin jj j1 j2
    refine Safe.bind (rd_safe S.aj jj hr.1 hr.2.1) (fun j hj => ?_)
    have hc := col_ok S hS jj hr.1 hr.2.1 j hj
    refine Safe.bind (rd_safe splitting j hc.1 (by rw [hsp]; exact hc.2)) (fun sj _ => ?_)
    by_cases hfj : sj = 0
    · rw [if_pos hfj]
      refine Safe.bind (ffDep_safe S hS splitting hsp row r0 r1 j hc.1 (by omega)) (fun dep _ => ?_)
      by_cases hd : dep = true
      · rw [if_pos hd]; exact Safe.pure hsx'
      · rw [if_neg hd]
        exact Safe.mono (wr_safe sx' jj _ hr.1 (by rw [hsx']; exact hr.2.2)) (fun a' h => by rw [h, hsx'])
    · rw [if_neg hfj]; exact Safe.pure hsx'
  · rw [if_neg hf]; exact Safe.pure hsx

/-! ### `incomplete_mat_mult_csr` -/

/-- positions stay at or after the row starts; the distance to the row ends is the loop measure -/
def IMInv (A B : Csr α) (row col : Nat) (st : IM α) : Prop :=
  A.ap.getD row 0 ≤ st.2.1 ∧ B.ap.getD col 0 ≤ st.2.2

def imMeasure (A B : Csr α) (row col : Nat) (st : IM α) : Nat :=
  (A.ap.getD (row+1) 0 - st.2.1).toNat + (B.ap.getD (col+1) 0 - st.2.2).toNat

theorem imStep_safe (o : KOps α) (A B : Csr α) {ka kb : Nat} (hA : WFm A ka) (hB : WFm B kb)
    (row col : Nat) (hr : row < A.n) (hc : col < B.n) (st : IM α) (hst : IMInv A B row col st)
    (hcond : st.2.1 < A.ap.getD (row+1) 0 ∧ st.2.2 < B.ap.getD (col+1) 0) :
    Safe (imStep o A B st)
      (fun st' => IMInv A B row col st' ∧ imMeasure A B row col st' + 1 ≤ imMeasure A B row col st) := by
  obtain ⟨h1, h2⟩ := hst
  have ra := row_range_m A hA row hr st.2.1 h1 hcond.1
  have rb := row_range_m B hB col hc st.2.2 h2 hcond.2
  unfold imStep
  refine Safe.bind (rd_safe A.aj st.2.1 ra.1 ra.2.1) (fun aj _ => ?_)
  refine Safe.bind (rd_safe B.aj st.2.2 rb.1 rb.2.1) (fun bj _ => ?_)
  by_cases he : aj = bj
  · rw [if_pos he]
    refine Safe.bind (rd_safe A.ax st.2.1 ra.1 ra.2.2) (fun a _ => ?_)
    refine Safe.bind (rd_safe B.ax st.2.2 rb.1 rb.2.2) (fun b _ => ?_)
    refine Safe.pure ⟨⟨?_, ?_⟩, ?_⟩
    · show A.ap.getD row 0 ≤ st.2.1 + 1; omega
    · show B.ap.getD col 0 ≤ st.2.2 + 1; omega
    · show (A.ap.getD (row+1) 0 - (st.2.1 + 1)).toNat + (B.ap.getD (col+1) 0 - (st.2.2 + 1)).toNat + 1
        ≤ (A.ap.getD (row+1) 0 - st.2.1).toNat + (B.ap.getD (col+1) 0 - st.2.2).toNat
      omega
  · rw [if_neg he]
    by_cases hl : aj < bj
    · rw [if_pos hl]
      refine Safe.pure ⟨⟨?_, h2⟩, ?_⟩
      · show A.ap.getD row 0 ≤ st.2.1 + 1; omega
      · show (A.ap.getD (row+1) 0 - (st.2.1 + 1)).toNat + (B.ap.getD (col+1) 0 - st.2.2).toNat + 1
          ≤ (A.ap.getD (row+1) 0 - st.2.1).toNat + (B.ap.getD (col+1) 0 - st.2.2).toNat
        omega
    · rw [if_neg hl]
      refine Safe.pure ⟨⟨h1, ?_⟩, ?_⟩
      · show B.ap.getD col 0 ≤ st.2.2 + 1; omega
      · show (A.ap.getD (row+1) 0 - st.2.1).toNat + (B.ap.getD (col+1) 0 - (st.2.2 + 1)).toNat + 1
          ≤ (A.ap.getD (row+1) 0 - st.2.1).toNat + (B.ap.getD (col+1) 0 - st.2.2).toNat
        omega

/-- the two-pointer `while` loop terminates within `(A_end - A_pos) + (B_end - B_pos)` iterations and
stays inside `Aj`, `Ax`, `Bj`, `Bx` -/
theorem imWhile_safe (o : KOps α) (A B : Csr α) {ka kb : Nat} (hA : WFm A ka) (hB : WFm B kb)
    (row col : Nat) (hr : row < A.n) (hc : col < B.n) :
    ∀ (fuel : Nat) (st : Ck (IM α)), Safe st (IMInv A B row col) →
      imMeasure A B row col st.val ≤ fuel →
      ∃ r, imWhile o A B (A.ap.getD (row+1) 0) (B.ap.getD (col+1) 0) fuel st = some r ∧
        Safe r (fun _ => True) := by
  intro fuel
  induction fuel with
  | zero =>
    intro st hst hm
    have hn : ¬ (st.val.2.1 < A.ap.getD (row+1) 0 ∧ st.val.2.2 < B.ap.getD (col+1) 0) := by
      unfold imMeasure at hm; omega
    exact ⟨st, by unfold imWhile; rw [if_neg hn], ⟨hst.1, trivial⟩⟩
  | succ f ih =>
    intro st hst hm
    unfold imWhile
    by_cases hcnd : st.val.2.1 < A.ap.getD (row+1) 0 ∧ st.val.2.2 < B.ap.getD (col+1) 0
    · rw [if_pos hcnd]
      have hb := Safe.bind_val hst.1 (imStep_safe o A B hA hB row col hr hc st.val hst.2 hcnd)
      exact ih (st >>= imStep o A B) (Safe.mono hb (fun _ h => h.1)) (by have := hb.2.2; omega)
    · rw [if_neg hcnd]; exact ⟨st, rfl, ⟨hst.1, trivial⟩⟩

theorem orFault_safe {σ : Type} [Inhabited σ] {x : Option (Ck σ)} {P : σ → Prop}
    (h : ∃ r, x = some r ∧ Safe r P) : Safe (orFault x) P := by
  obtain ⟨r, e, hr⟩ := h
  rw [e]; exact hr

theorem imInner_safe (o : KOps α) (A B : Csr α) {ka kb : Nat} (hA : WFm A ka) (hB : WFm B kb)
    (row col : Int) (r0 : 0 ≤ row) (r1 : row < (A.n : Int)) (c0 : 0 ≤ col) (c1 : col < (B.n : Int)) :
    Safe (imInner o A B row col) (fun _ => True) := by
  obtain ⟨a1, a2⟩ := rd_ap_safe A hA row r0 r1
  obtain ⟨b1, b2⟩ := rd_ap_safe B hB col c0 c1
  unfold imInner
  refine Safe.bind a1 (fun s hs => ?_)
  refine Safe.bind a2 (fun e he => ?_)
  refine Safe.bind b1 (fun s' hs' => ?_)
  refine Safe.bind b2 (fun e' he' => ?_)
  subst hs; subst he; subst hs'; subst he'
  refine Safe.bind (P := fun _ => True) ?_ (fun _ _ => Safe.pure trivial)
  apply orFault_safe
  exact imWhile_safe o A B hA hB row.toNat col.toNat (by omega) (by omega) _ (pure (o.zero, _, _))
    (Safe.pure ⟨Int.le_refl _, Int.le_refl _⟩) (Nat.le_refl _)

/-- **`incomplete_mat_mult_csr`**: `A` (CSR) and `B` (CSC) structurally valid with any inner dimension
(sorted or not: sortedness matters for the value only), `S` a structurally valid pattern with at most
`A.n` rows and column indices below `B.n`, `Sx` as long as `Sp` says.  Every `my_inner` merge loop
terminates within `(A_end - A_pos) + (B_end - B_pos)` iterations. -/
theorem incompleteMatMult_safe (o : KOps α) (A B S : Csr α) {ka kb : Nat} (hA : WFm A ka)
    (hB : WFm B kb) (hS : WFm S B.n) (hrows : S.n ≤ A.n) :
    Safe (incompleteMatMult o A B S) (fun sx => sx.size = S.ax.size) := by
  unfold incompleteMatMult
  apply forRange_safe (fun sx : Array α => sx.size = S.ax.size) 0 (S.n : Int) _ _ rfl
  intro row r0 r1 sx hsx
  have hin : row.toNat < S.n := by omega
  obtain ⟨q1, q2⟩ := rd_ap_safe S hS row r0 r1
  refine Safe.bind q1 (fun s hs => ?_)
  refine Safe.bind q2 (fun e he => ?_)
  subst hs; subst he
  apply forRange_safe (fun sx : Array α => sx.size = S.ax.size) _ _ _ _ hsx
  intro ptr p1 p2 sx' hsx'
  have hr := row_range_m S hS row.toNat hin ptr p1 p2
  refine Safe.bind (rd_safe S.aj ptr hr.1 hr.2.1) (fun col hcol => ?_)
  have hc := col_ok S hS ptr hr.1 hr.2.1 col hcol
  refine Safe.bind (imInner_safe o A B hA hB row col r0 (by omega) hc.1 (by omega)) (fun v _ => ?_)
  exact Safe.mono (wr_safe sx' ptr v hr.1 (by rw [hsx']; exact hr.2.2)) (fun a' h => by rw [h, hsx'])

end PyamgV.C17
