import PyamgV.Proofs.ExtC17R4Dense
import PyamgV.Proofs.ExtC17SafeR3Split
import PyamgV.Proofs.ExtC17R4Pairwise

/-! PyamgV (C17, extension E32, round 4): bounds-safety of the `Ck` model of `approx_ideal_restriction_pass2`
(`Model/ExtC17R4Air.lean`).  The row pointer `Rp` must be the one the first pass computes (`RpOK`: `Rp[row+1] - Rp[row]` is one
more than the size of the neighbourhood set of the row; `airPass1_establishes_RpOK`), `Rj` and `Rx` hold `Rp[last]` entries. -/
namespace PyamgV.C17R4
open PyamgV.Ck PyamgV.C17

set_option linter.unusedSectionVars false
set_option linter.unusedVariables false

variable {α : Type} [Inhabited α]

/-! ### the neighbourhood set -/

theorem setIns_mem {l : List Int} {x c : Int} (h : c ∈ setIns l x) : c = x ∨ c ∈ l := by
  unfold setIns at h
  split at h
  · exact Or.inr h
  · rcases List.mem_cons.mp h with e | e
    · exact Or.inl e
    · exact Or.inr e

/-- the neighbourhood of a C-point consists of nodes -/
theorem airP1Row_nodes (n : Nat) (cp cj : Array Int) (hC : WFm (patS n cp cj) n) (splitting : Array Int)
    (hsp : splitting.size = n) (distance : Int) (cpoint : Int) (c0 : 0 ≤ cpoint) (c1 : cpoint < (n : Int)) :
    Safe (airP1Row cp cj splitting distance cpoint) (fun set => ∀ c ∈ set, 0 ≤ c ∧ c < (n : Int)) := by
  obtain ⟨q1, q2, hrow⟩ := row_facts hC cpoint c0 c1
  unfold airP1Row
  refine Safe.bind q1 (fun s hs => ?_)
  refine Safe.bind q2 (fun e he => ?_)
  subst hs; subst he
  apply forRange_safe (fun set : List Int => ∀ c ∈ set, 0 ≤ c ∧ c < (n : Int)) _ _ _ _ (fun c hc => by simp at hc)
  intro i i1 i2 set hset
  refine Safe.bind (hrow i i1 i2) (fun tp htp => ?_)
  obtain ⟨_, t0, t1⟩ := htp
  refine Safe.bind (rd_safe splitting tp t0 (by rw [hsp]; omega)) (fun stp _ => ?_)
  by_cases h : stp = 0
  · rw [if_pos h]
    have hset1 : ∀ c ∈ setIns set tp, 0 ≤ c ∧ c < (n : Int) := by
      intro c hc
      rcases setIns_mem hc with e | e
      · rw [e]; exact ⟨t0, t1⟩
      · exact hset c e
    by_cases hd : distance = 2
    · simp only [if_pos hd]
      obtain ⟨p1, p2, hrow2⟩ := row_facts hC tp t0 t1
      unfold airP1Dist2
      refine Safe.bind p1 (fun s2 hs2 => ?_)
      refine Safe.bind p2 (fun e2 he2 => ?_)
      subst hs2; subst he2
      apply forRange_safe (fun set : List Int => ∀ c ∈ set, 0 ≤ c ∧ c < (n : Int)) _ _ _ _ hset1
      intro kk k1 k2 set' hset'
      refine Safe.bind (hrow2 kk k1 k2) (fun c hc => ?_)
      refine Safe.bind (rd_safe splitting c hc.2.1 (by rw [hsp]; omega)) (fun sc _ => ?_)
      by_cases h2 : sc = 0
      · rw [if_pos h2]
        refine Safe.pure (fun d hd' => ?_)
        rcases setIns_mem hd' with e | e
        · rw [e]; exact ⟨hc.2.1, hc.2.2⟩
        · exact hset' d e
      · rw [if_neg h2]; exact Safe.pure hset'
    · simp only [if_neg hd]; exact Safe.pure hset1
  · rw [if_neg h]; exact Safe.pure hset

/-- the length of the neighbourhood list of row `row` -/
def nbLen (cp cj cpts splitting : Array Int) (distance : Int) (row : Nat) : Int :=
  ((airP1Row cp cj splitting distance (cpts.getD row 0)).val.length : Int)

/-- `Rp` as the first pass computes it -/
structure RpOK (rp cp cj cpts splitting : Array Int) (distance : Int) : Prop where
  size : rp.size = cpts.size + 1
  rp0 : 0 ≤ rp.getD 0 0
  step : ∀ row : Nat, row < cpts.size → rp.getD (row + 1) 0 = rp.getD row 0 + nbLen cp cj cpts splitting distance row + 1

theorem RpOK.le_last {rp cp cj cpts splitting : Array Int} {distance : Int} (h : RpOK rp cp cj cpts splitting distance) :
    ∀ row : Nat, row ≤ cpts.size → 0 ≤ rp.getD row 0 ∧ rp.getD row 0 ≤ rp.getD cpts.size 0 := by
  have hmono : ∀ row : Nat, row < cpts.size → rp.getD row 0 ≤ rp.getD (row + 1) 0 := by
    intro row hr
    have := h.step row hr
    have : 0 ≤ nbLen cp cj cpts splitting distance row := by unfold nbLen; omega
    omega
  have hnn : ∀ row : Nat, row ≤ cpts.size → 0 ≤ rp.getD row 0 := by
    intro row
    induction row with
    | zero => intro _; exact h.rp0
    | succ r ih => intro hr; have := ih (by omega); have := hmono r (by omega); omega
  intro row hr
  refine ⟨hnn row hr, ?_⟩
  induction hd : cpts.size - row generalizing row with
  | zero =>
    have : row = cpts.size := by omega
    subst this; exact Int.le_refl _
  | succ d ih =>
    have := ih (row + 1) (by omega) (by omega)
    have := hmono row (by omega)
    omega

/-! ### the loop over the set -/

/-- `for (const I cc : colinds){ Rj[ind] = cc; ind += 1; }`: `ind` advances by the size of the set, the written entries are nodes -/
theorem writeSet_safe (n : Nat) (r0 : Int) (hr0 : 0 ≤ r0) (l : List Int) (hl : ∀ c ∈ l, 0 ≤ c ∧ c < (n : Int)) :
    ∀ (done : Nat) (acc : Ck (Array Int × Int)) (rsz : Nat), r0 + (done : Int) + (l.length : Int) ≤ (rsz : Int) →
      Safe acc (fun s => s.1.size = rsz ∧ s.2 = r0 + (done : Int) ∧
        ∀ t : Nat, t < done → 0 ≤ s.1.getD (r0 + (t : Int)).toNat 0 ∧ s.1.getD (r0 + (t : Int)).toNat 0 < (n : Int)) →
      Safe (l.foldl (fun (acc : Ck (Array Int × Int)) cc => do
          let s ← acc
          let rj ← wr s.1 s.2 cc
          pure (rj, s.2 + 1)) acc)
        (fun s => s.1.size = rsz ∧ s.2 = r0 + (done : Int) + (l.length : Int) ∧
          ∀ t : Nat, t < done + l.length → 0 ≤ s.1.getD (r0 + (t : Int)).toNat 0 ∧ s.1.getD (r0 + (t : Int)).toNat 0 < (n : Int)) := by
  induction l with
  | nil =>
    intro done acc rsz _ hacc
    simp only [List.foldl_nil, List.length_nil]
    exact Safe.mono hacc (fun s h => ⟨h.1, by rw [h.2.1]; simp, fun t ht => h.2.2 t (by omega)⟩)
  | cons c cs ih =>
    intro done acc rsz hroom hacc
    simp only [List.foldl_cons, List.length_cons]
    have hc := hl c (by simp)
    have hroom' : r0 + (done : Int) + ((cs.length : Int) + 1) ≤ (rsz : Int) := by
      simp only [List.length_cons] at hroom; push_cast at hroom; exact hroom
    have step : Safe (do
        let s ← acc
        let rj ← wr s.1 s.2 c
        pure (rj, s.2 + 1)) (fun s => s.1.size = rsz ∧ s.2 = r0 + ((done + 1 : Nat) : Int) ∧
          ∀ t : Nat, t < done + 1 → 0 ≤ s.1.getD (r0 + (t : Int)).toNat 0 ∧ s.1.getD (r0 + (t : Int)).toNat 0 < (n : Int)) := by
      refine Safe.bind hacc (fun s hs => ?_)
      obtain ⟨s1, s2, s3⟩ := hs
      have hpos : s.2.toNat < s.1.size := by rw [s1, s2]; omega
      refine Safe.bind (wr_val s.1 s.2 c (by rw [s2]; omega) hpos) (fun rj hrj => ?_)
      refine Safe.pure ⟨by show rj.size = rsz; rw [hrj]; simp [s1], by show s.2 + 1 = _; rw [s2]; push_cast; ring, fun t ht => ?_⟩
      show 0 ≤ rj.getD (r0 + (t : Int)).toNat 0 ∧ rj.getD (r0 + (t : Int)).toNat 0 < (n : Int)
      rw [hrj, getD_setInt]
      by_cases htd : s.2.toNat = (r0 + (t : Int)).toNat
      · rw [if_pos ⟨htd, hpos⟩]; exact hc
      · rw [if_neg (fun h => htd h.1)]
        have : t < done := by
          by_contra hh
          have : t = done := by omega
          subst this
          exact htd (by rw [s2])
        exact s3 t this
    have := ih (fun d hd => hl d (by simp [hd])) (done + 1) _ rsz (by push_cast; omega) step
    refine Safe.mono this (fun s h => ⟨h.1, by rw [h.2.1]; push_cast; ring, fun t ht => h.2.2 t (by omega)⟩)

/-! ### one row -/

/-- **one row of `approx_ideal_restriction_pass2`**, both local solvers -/
theorem airP2Row_safe (o : AirOps α) (rp : Array Int) (G : Csr α) (hG : WFm G G.n) (cp cj cpts splitting : Array Int)
    (hC : WFm (patS G.n cp cj) G.n) (hsp : splitting.size = G.n) (hcpts : IdxIn cpts G.n) (distance : Int)
    (hrp : RpOK rp cp cj cpts splitting distance) (useGmres : Bool) (maxiter : Int) (hmi : 0 ≤ maxiter) (precond : Bool)
    {jsz xsz : Nat} (hj : rp.getD cpts.size 0 ≤ (jsz : Int)) (hx : rp.getD cpts.size 0 ≤ (xsz : Int)) (row : Int) (row0 : 0 ≤ row)
    (row1 : row < (cpts.size : Int)) (st : Array Int × Array α) (h1 : st.1.size = jsz) (h2 : st.2.size = xsz) :
    Safe (airP2Row o rp G cp cj cpts splitting distance useGmres maxiter precond row st)
      (fun r => r.1.size = jsz ∧ r.2.size = xsz) := by
  have hA : WFm (patS G.n G.ap G.aj) G.n := ⟨hG.ap_size, hG.ap0, hG.mono, hG.last_j, hG.last_j, hG.cols⟩
  unfold airP2Row
  simp only
  refine Safe.bind (rd_safe cpts row row0 (by omega)) (fun cpoint hcpt => ?_)
  have hcpt' : cpoint = cpts.getD row.toNat 0 := hcpt
  have hcn := hcpts row.toNat (by omega)
  rw [← hcpt'] at hcn
  refine Safe.bind (rd_safe rp row row0 (by rw [hrp.size]; omega)) (fun r0 hr0 => ?_)
  have hr0' : r0 = rp.getD row.toNat 0 := hr0
  have hstep := hrp.step row.toNat (by omega)
  have hlast := hrp.le_last (row.toNat + 1) (by omega)
  have hfirst := hrp.le_last row.toNat (by omega)
  refine Safe.bind (Safe.and_val (airP1Row_nodes G.n cp cj hC splitting hsp distance cpoint hcn.1 hcn.2)) (fun colinds hcol => ?_)
  obtain ⟨hnodes, hval⟩ := hcol
  have hlen : (colinds.length : Int) = nbLen cp cj cpts splitting distance row.toNat := by
    unfold nbLen; rw [hval, hcpt']
  -- the sorted traversal
  have hsl : ((colinds.mergeSort (fun a b => decide (a ≤ b))).length : Int) = (colinds.length : Int) := by
    rw [List.length_mergeSort]
  have hsn : ∀ c ∈ colinds.mergeSort (fun a b => decide (a ≤ b)), 0 ≤ c ∧ c < (G.n : Int) :=
    fun c hc => hnodes c (List.mem_mergeSort.mp hc)
  have hroom : r0 + ((0 : Nat) : Int) + ((colinds.mergeSort (fun a b => decide (a ≤ b))).length : Int) ≤ (jsz : Int) := by
    rw [hsl, hlen]; simp only [Nat.cast_zero]; omega
  refine Safe.bind (writeSet_safe G.n r0 (by rw [hr0']; exact hfirst.1) _ hsn 0 (pure (st.1, r0)) jsz hroom
    (Safe.pure ⟨h1, by simp, fun t ht => by omega⟩)) (fun ri hri => ?_)
  obtain ⟨i1, i2, i3⟩ := hri
  simp only [Nat.cast_zero, Int.add_zero, Nat.zero_add] at i2 i3
  rw [hsl] at i2
  rw [List.length_mergeSort] at i3
  have hind : ri.2 = r0 + (colinds.length : Int) := i2
  -- the entries `Rj[r0 .. ind)` are nodes
  have hent : ∀ j : Int, r0 ≤ j → j < ri.2 → 0 ≤ ri.1.getD j.toNat 0 ∧ ri.1.getD j.toNat 0 < (G.n : Int) := by
    intro j j1 j2
    have := i3 (j - r0).toNat (by omega)
    have e : r0 + (((j - r0).toNat : Nat) : Int) = j := by omega
    rw [e] at this; exact this
  have hr00 : 0 ≤ r0 := by rw [hr0']; exact hfirst.1
  have hindj : ri.2 < (jsz : Int) := by rw [hind, hlen]; omega
  have hindx : ri.2 < (xsz : Int) := by rw [hind, hlen]; omega
  refine Safe.bind (rd_safe rp (row + 1) (by omega) (by rw [hrp.size]; omega)) (fun _ _ => ?_)
  generalize hN : ri.2 - r0 = N
  have hN0 : 0 ≤ N := by rw [← hN, hind]; omega
  have hNN : 0 ≤ N * N := Int.mul_nonneg hN0 hN0
  have eA0 : ((Array.replicate (N * N).toNat o.sv.zero : Array α).size : Int) = N * N := by simp <;> omega
  have eb0 : ((Array.replicate N.toNat o.sv.zero : Array α).size : Int) = N := by simp <;> omega
  -- `A0`
  refine Safe.bind (P := fun a0 : Array α × Int => (a0.1.size : Int) = N * N) ?_ (fun a0 ha0 => ?_)
  · refine Safe.mono (forRange_safe_idx
      (fun (j : Int) (s : Array α × Int) => (s.1.size : Int) = N * N ∧ s.2 = (j - r0) * N)
      r0 ri.2 (by omega) _ _ ⟨eA0, by simp⟩ ?_) (fun s h => h.1)
    intro j j1 j2 s hs
    refine Safe.bind (rd_safe ri.1 j (by omega) (by rw [i1]; omega)) (fun thisInd hti => ?_)
    have hti' : thisInd = ri.1.getD j.toNat 0 := hti
    have htn := hent j j1 j2
    rw [← hti'] at htn
    obtain ⟨q1, q2, hrowA⟩ := row_factsG G hG thisInd htn.1 htn.2
    refine Safe.mono (forRange_safe_idx
      (fun (i : Int) (s : Array α × Int) => (s.1.size : Int) = N * N ∧ s.2 = (j - r0) * N + (i - r0))
      r0 ri.2 (by omega) _ _ ⟨hs.1, by rw [hs.2]; ring⟩ ?_)
      (fun s h => ⟨h.1, by rw [h.2, ← hN]; ring⟩)
    intro i i1' i2' s2 hs2
    have hbase := idx_lt (i := j - r0) (j := i - r0) (A := N) (B := N) (by omega) (by omega) (by omega) (by omega)
    refine Safe.bind q1 (fun ks hks => ?_)
    refine Safe.bind q2 (fun ke hke => ?_)
    subst hks; subst hke
    refine Safe.bind (P := fun f : (Array α × Int) × Bool => (f.1.1.size : Int) = N * N ∧
        (f.2 = false → f.1.2 = (j - r0) * N + (i - r0)) ∧ (f.2 = true → f.1.2 = (j - r0) * N + (i - r0) + 1)) ?_ (fun f hf => ?_)
    · apply forRange_safe (fun f : (Array α × Int) × Bool => (f.1.1.size : Int) = N * N ∧
        (f.2 = false → f.1.2 = (j - r0) * N + (i - r0)) ∧ (f.2 = true → f.1.2 = (j - r0) * N + (i - r0) + 1)) _ _ _ _
        ⟨hs2.1, fun _ => hs2.2, fun h => by cases h⟩
      intro k k1 k2 q hq
      by_cases hb : q.2 = true
      · rw [if_pos hb]; exact Safe.pure hq
      rw [if_neg hb]
      have hb' : q.2 = false := by
        cases hh : q.2 with
        | true => exact absurd hh hb
        | false => rfl
      obtain ⟨hkx, hkj⟩ := hrowA k k1 k2
      refine Safe.bind (rd_safe ri.1 i (by omega) (by rw [i1]; omega)) (fun rii _ => ?_)
      refine Safe.bind hkj (fun ajk _ => ?_)
      split
      · refine Safe.bind (rd_ok G.ax k hkx.1 (by omega)) (fun a _ => ?_)
        have hq2 := hq.2.1 hb'
        refine Safe.bind (wr_ok q.1.1 q.1.2 a (by rw [hq2]; omega) (by rw [hq.1, hq2]; omega)) (fun A0 hA0 => ?_)
        have e1 : (A0.size : Int) = N * N := by rw [hA0]; exact hq.1
        exact Safe.pure ⟨e1, (fun h => by cases h), (fun _ => by show q.1.2 + 1 = _; rw [hq2])⟩
      · exact Safe.pure hq
    by_cases hfb : f.2 = true
    · rw [if_pos hfb]
      exact Safe.pure ⟨hf.1, by rw [hf.2.2 hfb]; ring⟩
    · rw [if_neg hfb]
      have hfb' : f.2 = false := by
        cases hh : f.2 with
        | true => exact absurd hh hfb
        | false => rfl
      have hf2 := hf.2.1 hfb'
      refine Safe.bind (wr_ok f.1.1 f.1.2 _ (by rw [hf2]; omega) (by rw [hf.1, hf2]; omega)) (fun A0 hA0 => ?_)
      exact Safe.pure ⟨by show (A0.size : Int) = _; rw [hA0]; exact hf.1, by show f.1.2 + 1 = _; rw [hf2]; ring⟩
  -- `b0`
  obtain ⟨c1, c2, hrowC⟩ := row_factsG G hG cpoint hcn.1 hcn.2
  refine Safe.bind (P := fun b0 : Array α × Int => (b0.1.size : Int) = N) ?_ (fun b0 hb0 => ?_)
  · refine Safe.mono (forRange_safe_idx
      (fun (i : Int) (s : Array α × Int) => (s.1.size : Int) = N ∧ s.2 = i - r0)
      r0 ri.2 (by omega) _ _ ⟨eb0, by simp⟩ ?_) (fun s h => h.1)
    intro i i1' i2' s hs
    refine Safe.bind c1 (fun ks hks => ?_)
    refine Safe.bind c2 (fun ke hke => ?_)
    subst hks; subst hke
    refine Safe.bind (P := fun f : Array α × Bool => (f.1.size : Int) = N) ?_
      (fun f hf => Safe.pure ⟨hf, by show s.2 + 1 = i + 1 - r0; rw [hs.2]; ring⟩)
    apply forRange_safe (fun f : Array α × Bool => (f.1.size : Int) = N) _ _ _ _ hs.1
    intro k k1 k2 q hq
    by_cases hb : q.2 = true
    · rw [if_pos hb]; exact Safe.pure hq
    rw [if_neg hb]
    obtain ⟨hkx, hkj⟩ := hrowC k k1 k2
    refine Safe.bind (rd_safe ri.1 i (by omega) (by rw [i1]; omega)) (fun rii _ => ?_)
    refine Safe.bind hkj (fun ajk _ => ?_)
    split
    · refine Safe.bind (rd_ok G.ax k hkx.1 (by omega)) (fun a _ => ?_)
      refine Safe.bind (wr_ok q.1 s.2 _ (by rw [hs.2]; omega) (by rw [hq, hs.2]; omega)) (fun b hb' => ?_)
      exact Safe.pure (by show (b.size : Int) = N; rw [hb']; exact hq)
    · exact Safe.pure hq
  -- the local solve
  have hNn : ((N.toNat : Nat) : Int) = N := by omega
  refine Safe.bind (P := fun rx : Array α => rx.size = xsz) ?_ (fun rx hrx => ?_)
  · by_cases hpos : N > 0
    · rw [if_pos hpos]
      cases useGmres with
      | true =>
        simp only [if_true]
        have hg := denseGmres_safe o a0.1 b0.1 st.2 r0 N.toNat true maxiter precond (by rw [hNn, ha0]) (by rw [hNn, hb0]) hr00
          (by rw [hNn, h2]; omega) hmi
        rw [hNn] at hg
        exact Safe.bind hg (fun r hr => Safe.pure (by rw [hr.2.2, h2]))
      | false =>
        simp only [Bool.false_eq_true, if_false]
        have hl := leastSquares_safe o a0.1 0 b0.1 st.2 r0 N.toNat N.toNat true (by omega) (by rw [hNn, ha0]; omega) (by rw [hNn, hb0])
          hr00 (by rw [hNn, h2]; omega)
        rw [hNn] at hl
        exact Safe.bind hl (fun r hr => Safe.pure (by rw [hr.2, h2]))
    · rw [if_neg hpos]; exact Safe.pure h2
  refine Safe.bind (wr_safe ri.1 ri.2 cpoint (by omega) (by rw [i1]; omega)) (fun rj hrj => ?_)
  refine Safe.bind (wr_ok rx ri.2 _ (by omega) (by rw [hrx]; omega)) (fun rx2 hrx2 => ?_)
  exact Safe.pure ⟨by rw [hrj, i1], by rw [hrx2, hrx]⟩

/-- **`approx_ideal_restriction_pass2`**: `A` any structurally valid `n × n` matrix, `C` any structurally valid `n × n` pattern,
`splitting` of length `n`, `Cpts` any list of nodes, `Rp` as computed by the first pass on the same `C`, `splitting`, `Cpts`,
`distance` (`RpOK`), `Rj` and `Rx` with `Rp[|Cpts|]` entries, `maxiter ≥ 0`, both local solvers (Householder QR / dense GMRES,
with or without preconditioning): no access leaves the arguments or the local vectors `A0`, `b0`, `Q`, `v`, `rhs`, `V`, `H`, `g` -/
theorem airPass2_safe (o : AirOps α) (rp rj : Array Int) (rx : Array α) (G : Csr α) (hG : WFm G G.n)
    (cp cj cpts splitting : Array Int) (hC : WFm (patS G.n cp cj) G.n) (hsp : splitting.size = G.n) (hcpts : IdxIn cpts G.n)
    (distance : Int) (hrp : RpOK rp cp cj cpts splitting distance) (useGmres : Bool) (maxiter : Int) (hmi : 0 ≤ maxiter)
    (precond : Bool) (hj : rp.getD cpts.size 0 ≤ (rj.size : Int)) (hx : rp.getD cpts.size 0 ≤ (rx.size : Int)) :
    Safe (airPass2 o rp rj rx G cp cj cpts splitting distance useGmres maxiter precond)
      (fun r => r.1.size = rj.size ∧ r.2.size = rx.size) := by
  unfold airPass2
  apply forRange_safe (fun r : Array Int × Array α => r.1.size = rj.size ∧ r.2.size = rx.size) _ _ _ _ ⟨rfl, rfl⟩
  intro row row0 row1 st hst
  exact airP2Row_safe o rp G hG cp cj cpts splitting hC hsp hcpts distance hrp useGmres maxiter hmi precond hj hx row row0 row1 st
    hst.1 hst.2

/-- the hypothesis `RpOK` is what the first-pass model returns -/
theorem airPass1_establishes_RpOK (n : Nat) (rp cp cj cpts splitting : Array Int) (hrp : rp.size = cpts.size + 1) (distance : Int) :
    RpOK (airPass1 rp cp cj cpts splitting distance).val cp cj cpts splitting distance := by
  -- the value of the first pass, entry by entry (the `ok` flag plays no role here)
  have key : ∀ (m : Nat), m ≤ cpts.size →
      let r := ((List.range m).foldl (fun (acc : Ck (Array Int × Int)) (k : Nat) => acc >>= fun st => do
          let cpoint ← rd cpts (0 + (k : Int))
          let colinds ← airP1Row cp cj splitting distance cpoint
          let nnz := st.2 + (colinds.length : Int) + 1
          let rp ← wr st.1 (0 + (k : Int) + 1) nnz
          pure (rp, nnz)) (pure ((wr rp 0 0).val, 0))).val
      r.1.size = cpts.size + 1 ∧ r.1.getD 0 0 = 0 ∧ r.2 = r.1.getD m 0 ∧
        ∀ row : Nat, row < m → r.1.getD (row + 1) 0 = r.1.getD row 0 + nbLen cp cj cpts splitting distance row + 1 := by
    intro m
    induction m with
    | zero =>
      intro _
      have hw : (wr rp 0 0).val = rp.setIfInBounds 0 0 := by
        unfold Ck.wr; rw [if_pos ⟨Int.le_refl 0, by show (0 : Int).toNat < rp.size; rw [hrp]; simp⟩]; rfl
      refine ⟨by show ((wr rp 0 0).val).size = _; rw [hw]; simp [hrp], ?_, ?_, fun row hr => by omega⟩
      · show ((wr rp 0 0).val).getD 0 0 = 0
        rw [hw, getD_setInt, if_pos ⟨rfl, by rw [hrp]; omega⟩]
      · show (0 : Int) = ((wr rp 0 0).val).getD 0 0
        rw [hw, getD_setInt, if_pos ⟨rfl, by rw [hrp]; omega⟩]
    | succ m ih =>
      intro hm
      have ih' := ih (by omega)
      simp only at ih' ⊢
      rw [List.range_succ, List.foldl_append]
      simp only [List.foldl_cons, List.foldl_nil]
      generalize hprev : ((List.range m).foldl (fun (acc : Ck (Array Int × Int)) (k : Nat) => acc >>= fun st => do
          let cpoint ← rd cpts (0 + (k : Int))
          let colinds ← airP1Row cp cj splitting distance cpoint
          let nnz := st.2 + (colinds.length : Int) + 1
          let rp ← wr st.1 (0 + (k : Int) + 1) nnz
          pure (rp, nnz)) (pure ((wr rp 0 0).val, 0))) = prev at ih' ⊢
      obtain ⟨p1, p2, p3, p4⟩ := ih'
      -- the value of one more step
      have hcp : (rd cpts (0 + (m : Int))).val = cpts.getD m 0 := by
        unfold Ck.rd
        rw [if_pos ⟨by omega, by show (0 + (m : Int)).toNat < cpts.size; omega⟩]
        show cpts.getD (0 + (m : Int)).toNat default = _
        have : (0 + (m : Int)).toNat = m := by omega
        rw [this]; rfl
      have hpos : (0 + (m : Int) + 1).toNat < prev.val.1.size := by rw [p1]; omega
      have hval : (prev >>= fun st => do
          let cpoint ← rd cpts (0 + (m : Int))
          let colinds ← airP1Row cp cj splitting distance cpoint
          let nnz := st.2 + (colinds.length : Int) + 1
          let rp ← wr st.1 (0 + (m : Int) + 1) nnz
          pure (rp, nnz)).val =
          (prev.val.1.setIfInBounds (m + 1) (prev.val.2 + nbLen cp cj cpts splitting distance m + 1),
            prev.val.2 + nbLen cp cj cpts splitting distance m + 1) := by
        show ((fun st : Array Int × Int => (do
          let cpoint ← rd cpts (0 + (m : Int))
          let colinds ← airP1Row cp cj splitting distance cpoint
          let nnz := st.2 + (colinds.length : Int) + 1
          let rp ← wr st.1 (0 + (m : Int) + 1) nnz
          pure (rp, nnz) : Ck (Array Int × Int))) prev.val).val = _
        show (((wr prev.val.1 (0 + (m : Int) + 1)
          (prev.val.2 + ((airP1Row cp cj splitting distance (rd cpts (0 + (m : Int))).val).val.length : Int) + 1)).val),
          prev.val.2 + ((airP1Row cp cj splitting distance (rd cpts (0 + (m : Int))).val).val.length : Int) + 1) = _
        rw [hcp]
        have hw : (wr prev.val.1 (0 + (m : Int) + 1)
            (prev.val.2 + ((airP1Row cp cj splitting distance (cpts.getD m 0)).val.length : Int) + 1)).val =
            prev.val.1.setIfInBounds (m + 1) (prev.val.2 + ((airP1Row cp cj splitting distance (cpts.getD m 0)).val.length : Int) + 1) := by
          unfold Ck.wr
          rw [if_pos ⟨by omega, hpos⟩]
          have : (0 + (m : Int) + 1).toNat = m + 1 := by omega
          rw [this]
        rw [hw]; rfl
      rw [hval]
      have hms : m + 1 < prev.val.1.size := by rw [p1]; omega
      refine ⟨by simp [p1], ?_, ?_, fun row hr => ?_⟩
      · show (prev.val.1.setIfInBounds (m + 1) _).getD 0 0 = 0
        rw [getD_setInt, if_neg (fun h => by omega)]; exact p2
      · show _ = (prev.val.1.setIfInBounds (m + 1) _).getD (m + 1) 0
        rw [getD_setInt, if_pos ⟨rfl, hms⟩]
      · show (prev.val.1.setIfInBounds (m + 1) _).getD (row + 1) 0 = (prev.val.1.setIfInBounds (m + 1) _).getD row 0 + _ + 1
        by_cases hrm : row = m
        · subst hrm
          rw [getD_setInt, if_pos ⟨rfl, hms⟩, getD_setInt, if_neg (fun h => by omega), p3]
        · rw [getD_setInt, if_neg (fun h => by omega), getD_setInt, if_neg (fun h => by omega)]
          exact p4 row (by omega)
  have hk := key cpts.size (Nat.le_refl _)
  simp only at hk
  have hunf : (airPass1 rp cp cj cpts splitting distance).val =
      ((List.range cpts.size).foldl (fun (acc : Ck (Array Int × Int)) (k : Nat) => acc >>= fun st => do
          let cpoint ← rd cpts (0 + (k : Int))
          let colinds ← airP1Row cp cj splitting distance cpoint
          let nnz := st.2 + (colinds.length : Int) + 1
          let rp ← wr st.1 (0 + (k : Int) + 1) nnz
          pure (rp, nnz)) (pure ((wr rp 0 0).val, 0))).val.1 := by
    unfold airPass1 forRange
    have e : ((cpts.size : Int) - 0).toNat = cpts.size := by omega
    rw [e]
    rfl
  rw [hunf]
  exact ⟨hk.1, by rw [hk.2.1], hk.2.2.2⟩

end PyamgV.C17R4
