import PyamgV.Model.C15Store

/-! # C15: no constructor step writes into the user's objects (store model)

`store_pure`: for *every* sequence of the modelled steps, the objects written in place are objects the
constructor allocated itself (ids >= 2) -- in particular AIR's in-place operator filtering hits a deep
copy on the first level and a Galerkin product later.  `finest_alias_iff`: the finest level *is* the
user's object exactly when the format is accepted and the dtype is floating point, so the purity of
setup really rests on "never written", not on "always copied".  Core Lean only. -/
namespace PyamgV.C15.Store

def Inv (s : St) : Prop :=
  2 ≤ s.next ∧ (∀ w ∈ s.written, 2 ≤ w) ∧ (∀ l ∈ s.levels.tail, 2 ≤ l)

theorem init_inv : Inv init := by
  refine ⟨Nat.le_refl 2, ?_, ?_⟩ <;> intro x hx <;> simp [init] at hx

theorem mem_tail_append_singleton {a x : Nat} : ∀ {xs : List Nat}, x ∈ (xs ++ [a]).tail → x ∈ xs.tail ∨ x = a
  | [], h => by simp at h
  | _ :: ys, h => by
    simp only [List.cons_append, List.tail_cons, List.mem_append, List.mem_singleton] at h
    simpa using h

theorem step_inv (s : St) (st : Step) (h : Inv s) : Inv (step s st) := by
  obtain ⟨hn, hw, hl⟩ := h
  cases st with
  | convert => exact ⟨Nat.le_succ_of_le hn, hw, hl⟩
  | upcast => exact ⟨Nat.le_succ_of_le hn, hw, hl⟩
  | bind => exact ⟨hn, hw, by intro l hl'; simp [step] at hl'⟩
  | coarsen =>
    refine ⟨Nat.le_succ_of_le hn, hw, ?_⟩
    intro l hl'
    rcases mem_tail_append_singleton (by simpa [step] using hl') with h1 | h1
    · exact hl l h1
    · rw [h1]; exact hn
  | sortLevel i =>
    show Inv (match s.levels[i]? with | some a => { s with layout := a :: s.layout } | none => s)
    split
    · exact ⟨hn, hw, hl⟩
    · exact ⟨hn, hw, hl⟩
  | filter =>
    show Inv (filterStep s)
    unfold filterStep
    split
    · exact ⟨hn, hw, hl⟩
    · refine ⟨Nat.le_succ_of_le hn, ?_, hl⟩
      intro w hw'
      rcases List.mem_cons.1 hw' with h1 | h1
      · rw [h1]; exact hn
      · exact hw w h1
    · rename_i a l rest hlev
      refine ⟨hn, ?_, hl⟩
      intro w hw'
      rcases List.mem_cons.1 hw' with h1 | h1
      · rw [h1]
        apply hl
        rw [hlev]
        exact List.getLast_mem _
      · exact hw w h1

theorem run_inv : ∀ (steps : List Step) (s : St), Inv s → Inv (run s steps) := by
  intro steps
  induction steps with
  | nil => intro s h; exact h
  | cons st rest ih => intro s h; exact ih (step s st) (step_inv s st h)

/-- **Setup is pure (store model)**: whatever sequence of prologue / coarsening / filtering steps a
constructor performs, neither the user's matrix (object 0) nor the user's candidates (object 1)
receives an in-place write -/
theorem store_pure (steps : List Step) :
    0 ∉ (run init steps).written ∧ 1 ∉ (run init steps).written := by
  have h := (run_inv steps init init_inv).2.1
  constructor
  · intro h0; have := h 0 h0; omega
  · intro h1; have := h 1 h1; omega

/-- re-ordering of index arrays reaches only objects that are bound to a level; objects `≥ 2` or the
finest level.  Consequence: the user's index arrays can be re-ordered only when the finest level *is*
the user's object (`finest_alias_iff`), and then the represented matrix is unchanged (`store_pure`). -/
def LInv (s : St) : Prop := ∀ a ∈ s.layout, 2 ≤ a ∨ s.levels.head? = some a

theorem layout_step (s : St) (st : Step) (hi : Inv s) (h : LInv s) (hb : st ≠ .bind ∨ s.layout = []) :
    LInv (step s st) := by
  cases st with
  | convert => exact h
  | upcast => exact h
  | bind =>
    rcases hb with hb | hb
    · exact absurd rfl hb
    · intro a ha
      have : a ∈ s.layout := ha
      rw [hb] at this; simp at this
  | coarsen =>
    intro a ha
    rcases h a ha with h1 | h1
    · exact Or.inl h1
    · right
      show (s.levels ++ [s.next]).head? = some a
      cases hs : s.levels with
      | nil => rw [hs] at h1; simp at h1
      | cons x r => rw [hs] at h1; simpa using h1
  | sortLevel i =>
    show LInv (match s.levels[i]? with | some a => { s with layout := a :: s.layout } | none => s)
    split
    · rename_i a ha
      intro b hb'
      rcases List.mem_cons.1 hb' with rfl | hb'
      · cases i with
        | zero =>
          right
          cases hs : s.levels with
          | nil => rw [hs] at ha; simp at ha
          | cons x r => rw [hs] at ha; simp at ha; simp [ha]
        | succ j =>
          left
          apply hi.2.2
          cases hs : s.levels with
          | nil => rw [hs] at ha; simp at ha
          | cons x r =>
            rw [hs] at ha
            simp only [List.getElem?_cons_succ] at ha
            simp only [List.tail_cons]
            exact List.mem_of_getElem? ha
      · exact h b hb'
    · exact h
  | filter =>
    show LInv (filterStep s)
    unfold filterStep
    split
    · exact h
    · exact h
    · exact h

/-! the finest level is the user's own object iff nothing forced a conversion -/

theorem step_head (s : St) (st : Step) (hne : s.levels ≠ []) (hst : st ≠ .bind) :
    (step s st).levels.head? = s.levels.head? ∧ (step s st).levels ≠ [] := by
  cases st with
  | bind => exact absurd rfl hst
  | convert => exact ⟨rfl, hne⟩
  | upcast => exact ⟨rfl, hne⟩
  | coarsen =>
    cases hs : s.levels with
    | nil => exact absurd hs hne
    | cons a r => simp [step, hs]
  | sortLevel i =>
    show (match s.levels[i]? with | some a => { s with layout := a :: s.layout } | none => s).levels.head? = _ ∧
      (match s.levels[i]? with | some a => { s with layout := a :: s.layout } | none => s).levels ≠ []
    split
    · exact ⟨rfl, hne⟩
    · exact ⟨rfl, hne⟩
  | filter =>
    show (filterStep s).levels.head? = s.levels.head? ∧ (filterStep s).levels ≠ []
    unfold filterStep
    split
    · exact ⟨rfl, hne⟩
    · exact ⟨rfl, hne⟩
    · exact ⟨rfl, hne⟩

theorem run_head : ∀ (steps : List Step) (s : St), s.levels ≠ [] → (∀ st ∈ steps, st ≠ .bind) →
    (run s steps).levels.head? = s.levels.head? := by
  intro steps
  induction steps with
  | nil => intro s _ _; rfl
  | cons st rest ih =>
    intro s hne hb
    have h := step_head s st hne (hb st (by simp))
    have h2 := ih (step s st) h.2 (fun st' hs => hb st' (by simp [hs]))
    show (run (step s st) rest).levels.head? = _
    rw [h2, h.1]

theorem extend_no_bind (c : Ctor) (filt : Bool) : ∀ (k : Nat), ∀ st ∈ extend c filt k, st ≠ .bind := by
  intro k
  induction k with
  | zero => intro st h; simp [extend] at h
  | succ k ih =>
    intro st h
    simp only [extend, List.mem_append] at h
    rcases h with h | h
    · split at h
      · simp only [List.mem_cons, List.not_mem_nil, or_false] at h
        rcases h with h | h <;> rw [h] <;> simp
      · simp only [List.mem_cons, List.not_mem_nil, or_false] at h
        rw [h]; simp
    · exact ih st h

/-- the object bound to `levels[0].A` after the whole build -/
theorem finest_alias_iff (c : Ctor) (f : Fmt) (fp filt : Bool) (ext : Nat) :
    (run init (build c f fp filt ext)).levels.head? = some 0 ↔ (accepts c f = true ∧ fp = true) := by
  unfold build run
  rw [List.foldl_append]
  have hp : ((prologue c f fp).foldl step init).levels =
      [if accepts c f then (if fp then 0 else 2) else (if fp then 2 else 3)] := by
    unfold prologue
    cases accepts c f <;> cases fp <;> rfl
  have h := run_head (extend c filt ext) ((prologue c f fp).foldl step init)
    (by rw [hp]; simp) (extend_no_bind c filt ext)
  unfold run at h
  rw [h, hp]
  cases accepts c f <;> cases fp <;> simp

theorem run_linv : ∀ (steps : List Step) (s : St), Inv s → LInv s → (∀ st ∈ steps, st ≠ .bind) →
    LInv (run s steps) := by
  intro steps
  induction steps with
  | nil => intro s _ h _; exact h
  | cons st rest ih =>
    intro s hi h hb
    exact ih (step s st) (step_inv s st hi) (layout_step s st hi h (Or.inl (hb st (by simp))))
      (fun st' hs => hb st' (by simp [hs]))

/-- **Layout writes**: whatever coarsening / filtering / `sort_indices()` steps follow the prologue, the
user's index arrays are re-ordered only if the finest level is the user's own object, i.e. only for an
accepted format with a floating-point dtype -/
theorem layout_user_only_if_alias (c : Ctor) (f : Fmt) (fp : Bool) (rest : List Step)
    (hnb : ∀ st ∈ rest, st ≠ .bind) :
    0 ∈ (run init (prologue c f fp ++ rest)).layout → (accepts c f = true ∧ fp = true) := by
  intro h0
  unfold run at h0
  rw [List.foldl_append] at h0
  have hp : ((prologue c f fp).foldl step init).levels =
      [if accepts c f then (if fp then 0 else 2) else (if fp then 2 else 3)] := by
    unfold prologue
    cases accepts c f <;> cases fp <;> rfl
  have hl0 : ((prologue c f fp).foldl step init).layout = [] := by
    unfold prologue
    cases accepts c f <;> cases fp <;> rfl
  have hi := run_inv (prologue c f fp) init init_inv
  unfold run at hi
  have hL := run_linv rest ((prologue c f fp).foldl step init) hi
    (by intro a ha; rw [hl0] at ha; simp at ha) hnb
  have hh := run_head rest ((prologue c f fp).foldl step init) (by rw [hp]; simp) hnb
  unfold run at hL hh
  rcases hL 0 h0 with h2 | h2
  · omega
  · rw [hh, hp] at h2
    cases hA : accepts c f <;> cases hF : fp <;> simp [hA, hF] at h2 ⊢

end PyamgV.C15.Store
