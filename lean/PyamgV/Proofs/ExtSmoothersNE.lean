import PyamgV.Proofs.ExtSmoothers
import PyamgV.Proofs.Kaczmarz

/-! PyamgV (extension E22, C02/C03): the normal-equation smoothers `gauss_seidel_ne` (Kaczmarz),
`gauss_seidel_nr` and `jacobi_ne` at the function level.

`e` is the Euclidean form.  A *row* of the NE sweep is the row vector `a = Aᴴ e_i`, the coordinate functional
`π = (·)_i` (so `⟨a, x⟩ = (A x)_i`) and the stored `Dinv[i]`; the kernel step is
`x += ((b_i − ⟨a, x⟩) · Dinv[i] · ω) · a`.  A *column* of the NR sweep is the unit vector `u = e_i` and `Dinv[i]`;
the kernel carries the pair `(x, r)` and does `δ = ⟨A u, r⟩ · (Dinv[i] · ω); x += δ u; r −= δ A u`.

* one step and one **full sweep over any list of rows/columns** (forward, backward, symmetric, repeated) is a linear
  iteration `IsLinIter A f Q` with `Q` the `compM`-fold of the rank-one row operators (`ne_sweep_isLinIter`,
  `nr_sweep_isLinIter`);
* for `0 ≤ ω ≤ 2` the NE sweep never increases the 2-norm of the **error** (`ne_sweep_nonexp`: `NonExp e A`), the NR
  sweep never increases the 2-norm of the **residual** (`nr_sweep_residual_nonexp`, any `b`; as
  `NonExp (e.pull A) A` in `nr_sweep_nonexp`);
* the pair-carrying NR loop is the `x`-only iteration and keeps `r = b − A x` (`nrLoop_eq`). -/
namespace PyamgV

variable {K : Type*} [Field K] [LinearOrder K] [IsStrictOrderedRing K]
variable {V : Type*} [AddCommGroup V] [Module K V]

/-! ## NE (Kaczmarz) -/

/-- row data of `gauss_seidel_ne`: the row as a vector, the coordinate functional, `Dinv[i]` -/
structure NERow (K V : Type*) [Field K] [AddCommGroup V] [Module K V] where
  a : V
  π : V →ₗ[K] K
  dinv : K

/-- `⟨a, x⟩ = (A x)_i` -/
def NERow.IsRow (e : EForm K V) (A : V →ₗ[K] V) (r : NERow K V) : Prop := ∀ x, e.a r.a x = r.π (A x)

/-- `Dinv[i] = 1/‖a‖²` (`get_diagonal(A, norm_eq=2, inv=True)`); for a zero row the value is irrelevant -/
def NERow.Scaled (e : EForm K V) (r : NERow K V) : Prop :=
  r.a = 0 ∨ (e.a r.a r.a ≠ 0 ∧ r.dinv = 1 / e.a r.a r.a)

/-- one row of the kernel loop: `delta = (b[i] − Σ A_ij x_j) · Dinv[i] · ω; x_j += conj(A_ij) · delta` -/
def neRowFn (e : EForm K V) (ω : K) (r : NERow K V) (x b : V) : V :=
  x + ((r.π b - e.a r.a x) * r.dinv * ω) • r.a

/-- rank-one operator of the row step -/
def neRowOp (ω : K) (r : NERow K V) : V →ₗ[K] V := (r.dinv * ω) • r.π.smulRight r.a

/-- a sweep over a list of rows -/
def neSweepFn (e : EForm K V) (ω : K) (rows : List (NERow K V)) (x b : V) : V :=
  rows.foldl (fun x r => neRowFn e ω r x b) x

theorem ne_row_isLinIter (e : EForm K V) (A : V →ₗ[K] V) (ω : K) (r : NERow K V) (hr : r.IsRow e A) :
    IsLinIter A (neRowFn e ω r) (neRowOp ω r) := by
  intro x b
  show x + ((r.π b - e.a r.a x) * r.dinv * ω) • r.a = x + ((r.dinv * ω) • r.π.smulRight r.a) (b - A x)
  rw [LinearMap.smul_apply, LinearMap.smulRight_apply, map_sub, ← hr x, smul_smul]
  congr 2; ring

/-- **one full Kaczmarz sweep (any row order) is `x ← x + Q (b − A x)`**, `Q` composed from the row projections -/
theorem ne_sweep_isLinIter (e : EForm K V) (A : V →ₗ[K] V) (ω : K) (rows : List (NERow K V))
    (hr : ∀ r ∈ rows, r.IsRow e A) :
    IsLinIter A (neSweepFn e ω rows) (sweepM A (rows.map (neRowOp ω))) := by
  have := IsLinIter.foldl A (rows.map (fun r => (neRowFn e ω r, neRowOp ω r)))
    (by
      intro s hs
      obtain ⟨r, hrm, rfl⟩ := List.mem_map.1 hs
      exact ne_row_isLinIter e A ω r (hr r hrm))
  intro x b
  have h2 := this x b
  simp only [List.foldl_map, List.map_map] at h2
  exact h2

theorem ne_sweep_fixed_point (e : EForm K V) (A : V →ₗ[K] V) (ω : K) (rows : List (NERow K V))
    (hr : ∀ r ∈ rows, r.IsRow e A) (xs b : V) (hb : A xs = b) : neSweepFn e ω rows xs b = xs :=
  (ne_sweep_isLinIter e A ω rows hr).fixed_point xs b hb

/-- one row, `0 ≤ ω ≤ 2`: the 2-norm of the error does not increase -/
theorem ne_row_nonexp (e : EForm K V) (A : V →ₗ[K] V) (ω : K) (h0 : 0 ≤ ω) (h2 : ω ≤ 2) (r : NERow K V)
    (hr : r.IsRow e A) (hd : r.Scaled e) : NonExp e A (neRowFn e ω r) := by
  intro x b xs hb
  unfold neRowFn
  rcases hd with ha | ⟨haa, hdinv⟩
  · rw [ha]; simp
  · have hbi : e.a r.a xs = r.π b := by rw [hr xs, hb]
    rw [hdinv, ne_row_error e r.a x xs (r.π b) ω hbi]
    exact proj_step_nonexp e r.a (xs - x) ω h0 h2 haa

/-- **one full Kaczmarz sweep over any list of rows, any `ω ∈ [0, 2]`, is non-expansive in the 2-norm of the error** -/
theorem ne_sweep_nonexp (e : EForm K V) (A : V →ₗ[K] V) (ω : K) (h0 : 0 ≤ ω) (h2 : ω ≤ 2)
    (rows : List (NERow K V)) (hr : ∀ r ∈ rows, r.IsRow e A ∧ r.Scaled e) :
    NonExp e A (neSweepFn e ω rows) := by
  have := NonExp.foldl (E := e) (A := A) (rows.map (fun r => neRowFn e ω r))
    (by
      intro s hs
      obtain ⟨r, hrm, rfl⟩ := List.mem_map.1 hs
      exact ne_row_nonexp e A ω h0 h2 r (hr r hrm).1 (hr r hrm).2)
  intro x b xs hb
  have h3 := this x b xs hb
  simp only [List.foldl_map] at h3
  exact h3

/-! ## NR -/

/-- column data of `gauss_seidel_nr`: the unit vector `e_i` and `Dinv[i]` -/
structure NRCol (K V : Type*) [Field K] [AddCommGroup V] [Module K V] where
  u : V
  dinv : K

/-- `Dinv[i] = 1/‖A e_i‖²`; irrelevant for a zero column -/
def NRCol.Scaled (e : EForm K V) (A : V →ₗ[K] V) (c : NRCol K V) : Prop :=
  A c.u = 0 ∨ (e.a (A c.u) (A c.u) ≠ 0 ∧ c.dinv = 1 / e.a (A c.u) (A c.u))

/-- one column of the kernel loop on the pair `(x, r)` -/
def nrStep (e : EForm K V) (ω : K) (A : V →ₗ[K] V) (c : NRCol K V) (xr : V × V) : V × V :=
  let δ := e.a (A c.u) xr.2 * (c.dinv * ω)
  (xr.1 + δ • c.u, xr.2 - δ • A c.u)

/-- `gauss_seidel_nr(A, x, b)`: `r = b − A x`, then the kernel loop; returns `x` -/
def nrLoopFn (e : EForm K V) (ω : K) (A : V →ₗ[K] V) (cols : List (NRCol K V)) (x b : V) : V :=
  (cols.foldl (fun xr c => nrStep e ω A c xr) (x, b - A x)).1

/-- the same step with the residual recomputed -/
def nrColFn (e : EForm K V) (ω : K) (A : V →ₗ[K] V) (c : NRCol K V) (x b : V) : V :=
  x + (e.a (A c.u) (b - A x) * (c.dinv * ω)) • c.u

def nrColOp (e : EForm K V) (ω : K) (A : V →ₗ[K] V) (c : NRCol K V) : V →ₗ[K] V :=
  (c.dinv * ω) • (e.a (A c.u)).smulRight c.u

def nrSweepFn (e : EForm K V) (ω : K) (A : V →ₗ[K] V) (cols : List (NRCol K V)) (x b : V) : V :=
  cols.foldl (fun x c => nrColFn e ω A c x b) x

/-- the kernel's incrementally updated `r` stays `b − A x`, and its `x` is the `x`-only iteration -/
theorem nrLoop_eq (e : EForm K V) (ω : K) (A : V →ₗ[K] V) (cols : List (NRCol K V)) (x b : V) :
    cols.foldl (fun xr c => nrStep e ω A c xr) (x, b - A x) =
      (nrSweepFn e ω A cols x b, b - A (nrSweepFn e ω A cols x b)) := by
  induction cols generalizing x with
  | nil => rfl
  | cons c rest ih =>
    simp only [List.foldl_cons, nrSweepFn]
    have : nrStep e ω A c (x, b - A x) = (nrColFn e ω A c x b, b - A (nrColFn e ω A c x b)) := by
      simp only [nrStep, nrColFn, map_add, map_smul]
      congr 1; abel
    rw [this, ih]; rfl

theorem nrLoopFn_eq (e : EForm K V) (ω : K) (A : V →ₗ[K] V) (cols : List (NRCol K V)) (x b : V) :
    nrLoopFn e ω A cols x b = nrSweepFn e ω A cols x b := by
  unfold nrLoopFn; rw [nrLoop_eq]

theorem nr_col_isLinIter (e : EForm K V) (A : V →ₗ[K] V) (ω : K) (c : NRCol K V) :
    IsLinIter A (nrColFn e ω A c) (nrColOp e ω A c) := by
  intro x b
  unfold nrColFn nrColOp
  simp only [LinearMap.smul_apply, LinearMap.smulRight_apply, smul_smul]
  congr 2; ring

/-- **one full NR sweep (any column order) is `x ← x + Q (b − A x)`** -/
theorem nr_sweep_isLinIter (e : EForm K V) (A : V →ₗ[K] V) (ω : K) (cols : List (NRCol K V)) :
    IsLinIter A (nrLoopFn e ω A cols) (sweepM A (cols.map (nrColOp e ω A))) := by
  have := IsLinIter.foldl A (cols.map (fun c => (nrColFn e ω A c, nrColOp e ω A c)))
    (by
      intro s hs
      obtain ⟨c, _, rfl⟩ := List.mem_map.1 hs
      exact nr_col_isLinIter e A ω c)
  intro x b
  have h2 := this x b
  simp only [List.foldl_map, List.map_map] at h2
  rw [nrLoopFn_eq]
  exact h2

theorem nr_sweep_fixed_point (e : EForm K V) (A : V →ₗ[K] V) (ω : K) (cols : List (NRCol K V))
    (xs b : V) (hb : A xs = b) : nrLoopFn e ω A cols xs b = xs :=
  (nr_sweep_isLinIter e A ω cols).fixed_point xs b hb

/-- one column, `0 ≤ ω ≤ 2`: the 2-norm of the residual does not increase (any `b`) -/
theorem nr_col_residual_nonexp (e : EForm K V) (A : V →ₗ[K] V) (ω : K) (h0 : 0 ≤ ω) (h2 : ω ≤ 2)
    (c : NRCol K V) (hd : c.Scaled e A) (x b : V) :
    e.en (b - A (nrColFn e ω A c x b)) ≤ e.en (b - A x) := by
  unfold nrColFn
  rcases hd with ha | ⟨haa, hdinv⟩
  · rw [map_add, map_smul, ha]; simp
  · have : b - A (x + (e.a (A c.u) (b - A x) * (c.dinv * ω)) • c.u) =
        (b - A x) - (ω * e.a (A c.u) (b - A x) / e.a (A c.u) (A c.u)) • A c.u := by
      rw [map_add, map_smul, hdinv]
      have : e.a (A c.u) (b - A x) * (1 / e.a (A c.u) (A c.u) * ω) =
          ω * e.a (A c.u) (b - A x) / e.a (A c.u) (A c.u) := by ring
      rw [this]; abel
    rw [this]
    exact proj_step_nonexp e (A c.u) (b - A x) ω h0 h2 haa

/-- **one full NR sweep over any list of columns, any `ω ∈ [0, 2]`, never increases the 2-norm of the residual** -/
theorem nr_sweep_residual_nonexp (e : EForm K V) (A : V →ₗ[K] V) (ω : K) (h0 : 0 ≤ ω) (h2 : ω ≤ 2)
    (cols : List (NRCol K V)) (hd : ∀ c ∈ cols, c.Scaled e A) (x b : V) :
    e.en (b - A (nrLoopFn e ω A cols x b)) ≤ e.en (b - A x) := by
  rw [nrLoopFn_eq]
  induction cols generalizing x with
  | nil => exact le_refl _
  | cons c rest ih =>
    simp only [nrSweepFn, List.foldl_cons]
    exact le_trans (ih (fun t ht => hd t (by simp [ht])) (nrColFn e ω A c x b))
      (nr_col_residual_nonexp e A ω h0 h2 c (hd c (by simp)) x b)

/-- the same as `NonExp` for the form `⟨A·, A·⟩` (the 2-norm of the residual is the `AᴴA`-norm of the error) -/
theorem nr_sweep_nonexp (e : EForm K V) (A : V →ₗ[K] V) (ω : K) (h0 : 0 ≤ ω) (h2 : ω ≤ 2)
    (cols : List (NRCol K V)) (hd : ∀ c ∈ cols, c.Scaled e A) :
    NonExp (e.pull A) A (nrLoopFn e ω A cols) := by
  intro x b xs hb
  rw [EForm.pull_en, EForm.pull_en, map_sub, map_sub, hb]
  exact nr_sweep_residual_nonexp e A ω h0 h2 cols hd x b

/-! ## `jacobi_ne`: `x ← x + ω Aᴴ Dinv (b − A x)` -/

theorem jacobi_ne_isLinIter (A At Dinv : V →ₗ[K] V) (ω : K) :
    IsLinIter A (fun x b => x + ω • At (Dinv (b - A x))) (ω • (At ∘ₗ Dinv)) := by
  intro x b; simp

/-- non-expansive in the 2-norm of the error when `ω ‖Aᴴ Dinv r‖² ≤ 2 ⟨Dinv r, r⟩` for all `r`
(`ω λ_max(Dinv A Aᴴ) ≤ 2`) -/
theorem jacobi_ne_nonexp (e : EForm K V) (A At Dinv : V →ₗ[K] V) (hadj : IsAdj e e A At) (ω : K) (h0 : 0 ≤ ω)
    (hD : ∀ r, ω * e.en (At (Dinv r)) ≤ 2 * e.a (Dinv r) r) :
    NonExp e A (fun x b => x + ω • At (Dinv (b - A x))) := by
  apply (linIter_nonexp_iff e (jacobi_ne_isLinIter A At Dinv ω)).2
  intro v
  simp only [LinearMap.smul_apply, LinearMap.comp_apply, map_smul, smul_eq_mul]
  have h1 := hD (A v)
  have h3 : e.a (At (Dinv (A v))) v = e.a (Dinv (A v)) (A v) := by
    rw [e.symm, ← hadj v (Dinv (A v)), e.symm]
  unfold EForm.en at *
  simp only [map_smul, LinearMap.smul_apply, smul_eq_mul]
  rw [h3]
  nlinarith [mul_le_mul_of_nonneg_left h1 h0]

#print axioms ne_sweep_isLinIter
#print axioms ne_sweep_nonexp
#print axioms nr_sweep_isLinIter
#print axioms nr_sweep_nonexp
#print axioms jacobi_ne_nonexp
end PyamgV
