import PyamgV.Proofs.ExtC17R4Par

/-! PyamgV (C17, extension E32, round 4): bounds-safety of the `Ck` models of `vertex_coloring_first_fit`,
`vertex_coloring_jones_plassmann`, `vertex_coloring_LDF` (`Model/ExtC17R4Graph.lean`), any structurally valid pattern
(symmetric or not), any weights, any number of rounds.  Core Lean only. -/
namespace PyamgV.C17R4
open PyamgV.Ck PyamgV.C17

set_option linter.unusedSectionVars false
set_option linter.unusedVariables false

variable {ρ : Type} [Inhabited ρ]

/-! ### `vertex_coloring_first_fit` -/

/-- a node coloured `K` has no other neighbour coloured `K` -/
def SepK (n : Nat) (ap aj : Array Int) (K : Int) (x : Array Int) : Prop :=
  ∀ k : Nat, k < n → x.getD k 0 = K → ∀ jj, ap.getD k 0 ≤ jj → jj < ap.getD (k+1) 0 →
    (aj.getD jj.toNat 0).toNat ≠ k → x.getD (aj.getD jj.toNat 0).toNat 0 ≠ K

theorem findFalse_range (mask : Array Bool) : 0 ≤ findFalse mask ∧ findFalse mask ≤ (mask.size : Int) := by
  unfold findFalse
  have h := List.findIdx_le_length (p := fun b => !b) (xs := mask.toList)
  rw [Array.length_toList] at h
  omega

/-- **`vertex_coloring_first_fit`**: `K ≥ 0`, no entry of `x` above `K`, and the nodes coloured `K` separated: the accesses
`mask[x[j]]` into the `K` bits of `mask` are in range; the nodes coloured `K` get a colour in `0..K`, nothing else changes -/
theorem firstFit_safe {n : Nat} {ap aj : Array Int} (hA : WFm (patS n ap aj) n) (K : Int) (hK : 0 ≤ K) (x : Array Int)
    (hx : x.size = n) (hle : ∀ k, k < n → x.getD k 0 ≤ K) (hsep : SepK n ap aj K x) :
    Safe (firstFit n ap aj K x) (fun x' => x'.size = n ∧
      ∀ k, k < n → x'.getD k 0 = x.getD k 0 ∨ (x.getD k 0 = K ∧ 0 ≤ x'.getD k 0 ∧ x'.getD k 0 ≤ K)) := by
  unfold firstFit
  refine Safe.mono (forRange_safe
    (fun x' : Array Int => x'.size = n ∧
      (∀ k, k < n → x'.getD k 0 = x.getD k 0 ∨ (x.getD k 0 = K ∧ 0 ≤ x'.getD k 0 ∧ x'.getD k 0 ≤ K)) ∧
      SepK n ap aj K x') 0 (n : Int) _ _ ⟨hx, fun k hk => Or.inl rfl, hsep⟩ ?_) (fun x' h => ⟨h.1, h.2.1⟩)
  intro i i0 i1 x' hx'
  obtain ⟨h1, h2, h3⟩ := hx'
  have hle' : ∀ k, k < n → x'.getD k 0 ≤ K := by
    intro k hk
    rcases h2 k hk with e | ⟨_, _, e⟩
    · rw [e]; exact hle k hk
    · exact e
  have his : i.toNat < x'.size := by rw [h1]; omega
  refine Safe.bind (rd_safe x' i i0 his) (fun xi hxi => ?_)
  have hxi' : xi = x'.getD i.toNat 0 := hxi
  by_cases hnk : xi ≠ K
  · rw [if_pos hnk]; exact Safe.pure ⟨h1, h2, h3⟩
  · rw [if_neg hnk]
    have hxK : x'.getD i.toNat 0 = K := by rw [← hxi']; exact Classical.not_not.mp hnk
    obtain ⟨q1, q2, hrow⟩ := row_facts hA i i0 i1
    refine Safe.bind q1 (fun s hs => ?_)
    refine Safe.bind q2 (fun e he => ?_)
    subst hs; subst he
    refine Safe.bind (P := fun mask : Array Bool => mask.size = K.toNat) ?_ (fun mask hm => ?_)
    · apply forRange_safe (fun mask : Array Bool => mask.size = K.toNat) _ _ _ _ (by simp)
      intro jj j1 j2 mask hm
      refine Safe.bind (hrow jj j1 j2) (fun j hj => ?_)
      obtain ⟨hje, hj0, hj1⟩ := hj
      by_cases hij : i = j
      · rw [if_pos hij]; exact Safe.pure hm
      · rw [if_neg hij]
        refine Safe.bind (rd_safe x' j hj0 (by rw [h1]; omega)) (fun xj hxj => ?_)
        have hxj' : xj = x'.getD j.toNat 0 := hxj
        by_cases hneg : xj < 0
        · rw [if_pos hneg]; exact Safe.pure hm
        · rw [if_neg hneg]
          have hne : (aj.getD jj.toNat 0).toNat ≠ i.toNat := by rw [← hje]; omega
          have h4 := h3 i.toNat (by omega) hxK jj j1 j2 hne
          rw [← hje, ← hxj'] at h4
          have h5 : xj ≤ K := by rw [hxj']; exact hle' j.toNat (by omega)
          exact Safe.mono (wr_safe mask xj true (by omega) (by rw [hm]; omega)) (fun m' h => by rw [h, hm])
    · have hc := findFalse_range mask
      rw [hm] at hc
      refine Safe.mono (wr_val x' i (findFalse mask) i0 his) (fun x'' hx'' => ?_)
      have hv : ∀ k, x''.getD k 0 = if i.toNat = k then findFalse mask else x'.getD k 0 := by
        intro k
        rw [hx'', getD_setInt]
        by_cases hk : i.toNat = k
        · rw [if_pos ⟨hk, his⟩, if_pos hk]
        · rw [if_neg (fun h => hk h.1), if_neg hk]
      refine ⟨by rw [hx'']; simp [h1], fun k hk => ?_, fun k hk hkK jj j1 j2 hne => ?_⟩
      · rw [hv k]
        by_cases hki : i.toNat = k
        · rw [if_pos hki]
          subst hki
          refine Or.inr ⟨?_, hc.1, by omega⟩
          rcases h2 i.toNat hk with e | ⟨e, _⟩
          · rw [← e]; exact hxK
          · exact e
        · rw [if_neg hki]; exact h2 k hk
      · have hkK' : (if i.toNat = k then findFalse mask else x'.getD k 0) = K := by rw [← hv k]; exact hkK
        by_cases hki : i.toNat = k
        · subst hki
          rw [hv, if_neg (fun h => hne h.symm)]
          exact h3 i.toNat hk hxK jj j1 j2 hne
        · rw [if_neg hki] at hkK'
          have h4 := h3 k hk hkK' jj j1 j2 hne
          have hji : i.toNat ≠ (aj.getD jj.toNat 0).toNat := by
            intro h; rw [← h] at h4; exact h4 hxK
          rw [hv, if_neg hji]; exact h4

/-! ### the pieces of a round -/

theorem resetF_safe (n : Nat) (x : Array Int) (hx : x.size = n) :
    Safe (resetF n x) (fun x' => x'.size = n ∧ ∀ k, k < n → x'.getD k 0 = if x.getD k 0 = -2 then -1 else x.getD k 0) := by
  unfold resetF
  refine Safe.mono (forRange_safe_idx
    (fun (i : Int) (x' : Array Int) => x'.size = n ∧
      (∀ k : Nat, (k : Int) < i → x'.getD k 0 = if x.getD k 0 = -2 then -1 else x.getD k 0) ∧
      (∀ k : Nat, i ≤ (k : Int) → x'.getD k 0 = x.getD k 0))
    0 (n : Int) (by omega) _ _ ⟨hx, fun k hk => by omega, fun k hk => rfl⟩ ?_)
    (fun x' h => ⟨h.1, fun k hk => h.2.1 k (by omega)⟩)
  intro i i0 i1 x' hx'
  obtain ⟨h1, h2, h3⟩ := hx'
  have his : i.toNat < x'.size := by rw [h1]; omega
  refine Safe.bind (rd_safe x' i i0 his) (fun xi hxi => ?_)
  have hxi' : xi = x.getD i.toNat 0 := by rw [← h3 i.toNat (by omega)]; exact hxi
  by_cases h2m : xi = -2
  · rw [if_pos h2m]
    refine Safe.mono (wr_val x' i (-1) i0 his) (fun x'' hx'' => ?_)
    refine ⟨by rw [hx'']; simp [h1], fun k hk => ?_, fun k hk => ?_⟩
    · rw [hx'', getD_setInt]
      by_cases hki : i.toNat = k
      · rw [if_pos ⟨hki, his⟩]; subst hki; rw [← hxi', if_pos h2m]
      · rw [if_neg (fun h => hki h.1)]; exact h2 k (by omega)
    · rw [hx'', getD_setInt, if_neg (fun h => by omega)]; exact h3 k (by omega)
  · rw [if_neg h2m]
    refine Safe.pure ⟨h1, fun k hk => ?_, fun k hk => h3 k (by omega)⟩
    by_cases hl : (k : Int) < i
    · exact h2 k hl
    · have : k = i.toNat := by omega
      subst this
      rw [h3 i.toNat (by omega), ← hxi', if_neg h2m]

theorem maxElem_safe (n : Nat) (hn : 0 < n) (x : Array Int) (hx : x.size = n) : Safe (maxElem n x) (fun _ => True) := by
  unfold maxElem
  refine Safe.bind (rd_safe x 0 (Int.le_refl 0) (by rw [hx]; exact hn)) (fun m _ => ?_)
  apply forRange_safe (fun _ => True) _ _ _ _ trivial
  intro i i0 i1 m _
  exact Safe.bind (rd_safe x i (by omega) (by rw [hx]; omega)) (fun _ _ => Safe.pure trivial)

/-- the state between two rounds of a parallel colouring: uncoloured nodes carry `-1`, the colours are below `K` -/
def RInv (n : Nat) (st : VC) : Prop :=
  st.1.size = n ∧ 0 ≤ st.2.2 ∧ ∀ k, k < n → st.1.getD k 0 = -1 ∨ (0 ≤ st.1.getD k 0 ∧ st.1.getD k 0 < st.2.2)

/-- one round, given what the call of the parallel independent set delivers (`E` is an extra fact about its result that is handed
through): the state invariant, and the coloured nodes of the new state are those with a non-negative mark after the call -/
theorem parRound_gen (w : WOps ρ) {n : Nat} {ap aj : Array Int} (hA : WFm (patS n ap aj) n) (y : Array ρ) (hy : y.size = n)
    (st : VC) (hst : RInv n st) (E : Array Int × Int → Prop)
    (hmis : Safe (orFault (misParallel w n ap aj (-1) st.2.2 (-2) st.1 y 1 1)) (fun out =>
      (out.1.size = n ∧ Upd2 (-1) (-2) st.2.2 st.1 out.1 ∧ Sep n ap aj (-1) st.2.2 out.1) ∧ E out)) :
    Safe (parRound w n ap aj y st) (fun st' => RInv n st' ∧ ∃ out : Array Int × Int, E out ∧ st'.2.1 = st.2.1 + out.2 ∧
      ∀ k, k < n → nonneg (st'.1.getD k 0) = nonneg (out.1.getD k 0)) := by
  obtain ⟨h1, h2, h3⟩ := hst
  unfold parRound
  refine Safe.bind hmis (fun r hr => ?_)
  obtain ⟨⟨r1, r2, r3⟩, hE⟩ := hr
  refine Safe.bind (resetF_safe n r.1 r1) (fun x2 hx2 => ?_)
  obtain ⟨s2, v2⟩ := hx2
  -- values after the un-marking
  have hval : ∀ k, k < n → x2.getD k 0 = -1 ∨ x2.getD k 0 = st.2.2 ∨ (0 ≤ x2.getD k 0 ∧ x2.getD k 0 < st.2.2) := by
    intro k hk
    rw [v2 k hk]
    by_cases hm : r.1.getD k 0 = -2
    · rw [if_pos hm]; exact Or.inl rfl
    · rw [if_neg hm]
      rcases r2.2 k with e | ⟨_, e | e⟩
      · rw [e]; exact (h3 k hk).elim Or.inl (fun h => Or.inr (Or.inr h))
      · exact absurd e hm
      · exact Or.inr (Or.inl e)
  have hle : ∀ k, k < n → x2.getD k 0 ≤ st.2.2 := by
    intro k hk
    rcases hval k hk with e | e | e <;> omega
  have hK : ∀ k, k < n → x2.getD k 0 = st.2.2 → r.1.getD k 0 = st.2.2 := by
    intro k hk e
    rw [v2 k hk] at e
    by_cases hm : r.1.getD k 0 = -2
    · rw [if_pos hm] at e; omega
    · rw [if_neg hm] at e; exact e
  have hsepK : SepK n ap aj st.2.2 x2 := by
    intro k hk hkK jj j1 j2 hne
    have hcol := hA.cols jj.toNat (by
      have hr := row_range_m (patS n ap aj) hA k hk jj j1 j2
      exact hr.2.1)
    have hcol' : 0 ≤ aj.getD jj.toNat 0 ∧ aj.getD jj.toNat 0 < (n : Int) := hcol
    have hjn : (aj.getD jj.toNat 0).toNat < n := by omega
    intro hbad
    exact (r3 k hk (hK k hk hkK) jj j1 j2 hne).1 (hK _ hjn hbad)
  refine Safe.bind (firstFit_safe hA st.2.2 h2 x2 s2 hle hsepK) (fun x3 hx3 => ?_)
  refine Safe.pure ⟨⟨hx3.1, by show 0 ≤ st.2.2 + 1; omega, fun k hk => ?_⟩, ⟨r, hE, rfl, fun k hk => ?_⟩⟩
  · show x3.getD k 0 = -1 ∨ (0 ≤ x3.getD k 0 ∧ x3.getD k 0 < st.2.2 + 1)
    rcases hx3.2 k hk with e | ⟨_, e1, e2⟩
    · rw [e]
      rcases hval k hk with e' | e' | e'
      · exact Or.inl e'
      · exact Or.inr (by omega)
      · exact Or.inr (by omega)
    · exact Or.inr (by omega)
  · show nonneg (x3.getD k 0) = nonneg (r.1.getD k 0)
    have e2 : nonneg (x2.getD k 0) = nonneg (r.1.getD k 0) := by
      rw [v2 k hk]
      by_cases hm : r.1.getD k 0 = -2
      · rw [if_pos hm, hm]; rfl
      · rw [if_neg hm]
    rcases hx3.2 k hk with e | ⟨e0, e1, _⟩
    · rw [e]; exact e2
    · rw [← e2, e0]
      unfold nonneg
      rw [decide_eq_true e1, decide_eq_true h2]

/-- **one round** (parallel independent set with `max_iters = 1`, un-marking, first fit) with any weights `y` -/
theorem parRound_safe (w : WOps ρ) {n : Nat} {ap aj : Array Int} (hA : WFm (patS n ap aj) n) (y : Array ρ) (hy : y.size = n)
    (st : VC) (hst : RInv n st) : Safe (parRound w n ap aj y st) (RInv n) := by
  have hsep0 : Sep n ap aj (-1) st.2.2 st.1 := by
    intro k hk hkK
    rcases hst.2.2 k hk with e | ⟨_, e⟩ <;> (have := hst.2.1; omega)
  refine Safe.mono (parRound_gen w hA y hy st hst (fun _ => True) ?_) (fun _ h => h.1)
  apply orFault_safe
  obtain ⟨r, e, hr⟩ := misParallel_bounded w hA (-1) st.2.2 (-2) st.1 hst.1 y hy 1 (by omega)
  exact ⟨r, e, Safe.mono hr (fun out h => ⟨⟨h.1, h.2.1, h.2.2 (by have := hst.2.1; omega) (by omega) hsep0⟩, trivial⟩)⟩

/-! ### `vertex_coloring_jones_plassmann` -/

theorem jpWhile_safe (w : WOps ρ) {n : Nat} {ap aj : Array Int} (hA : WFm (patS n ap aj) n) (z : Array ρ) (hz : z.size = n) :
    ∀ (fuel : Nat) (st : Ck VC), Safe st (RInv n) → ∀ r, jpWhile w n ap aj z fuel st = some r → Safe r (RInv n) := by
  intro fuel
  induction fuel with
  | zero =>
    intro st hst r hr
    unfold jpWhile at hr
    split at hr
    · cases hr
    · cases hr; exact hst
  | succ f ih =>
    intro st hst r hr
    unfold jpWhile at hr
    split at hr
    · exact ih _ (Safe.bind hst (fun s hs => parRound_safe w hA z hz s hs)) r hr
    · cases hr; exact hst

theorem jpWeights_safe (w : WOps ρ) {n : Nat} {ap aj : Array Int} (hA : WFm (patS n ap aj) n) (z : Array ρ) (hz : z.size = n) :
    Safe (jpWeights w n ap z) (fun z' => z'.size = n) := by
  unfold jpWeights
  apply forRange_safe (fun z' : Array ρ => z'.size = n) _ _ _ _ hz
  intro i i0 i1 z' hz'
  have hsz : ap.size = n + 1 := hA.ap_size
  refine Safe.bind (rd_safe z' i i0 (by rw [hz']; omega)) (fun zi _ => ?_)
  refine Safe.bind (rd_safe ap (i+1) (by omega) (by rw [hsz]; omega)) (fun a1 _ => ?_)
  refine Safe.bind (rd_safe ap i i0 (by rw [hsz]; omega)) (fun a0 _ => ?_)
  exact Safe.mono (wr_safe z' i _ i0 (by rw [hz']; omega)) (fun z'' h => by rw [h, hz'])

/-- **`vertex_coloring_jones_plassmann`**: any structurally valid `n × n` pattern, `n = 0` included (symmetric or not, self loops,
duplicates), `x`, `z` of length `n`, any weights, any number of rounds: a run that returns made no access outside `Ap`,
`Aj`, `x`, `z` and the bits of `mask` (termination within `n` rounds: `vertexColoringJP_total` in `Proofs/ExtC17R4Term.lean`).  For `n = 0` the kernel
returns `-1` before `*std::max_element(x, x)`. -/
theorem vertexColoringJP_safe (w : WOps ρ) {n : Nat} {ap aj : Array Int} (hA : WFm (patS n ap aj) n)
    (x : Array Int) (hx : x.size = n) (z : Array ρ) (hz : z.size = n) (fuel : Nat) :
    ∀ r, vertexColoringJP w n ap aj x z fuel = some r → Safe r (fun out => out.1.size = n ∧ out.2.1.size = n) := by
  intro r hr
  unfold vertexColoringJP at hr
  have hpre : Safe (do
      let x ← fillN n (-1) x
      let z ← jpWeights w n ap z
      pure (x, z) : Ck (Array Int × Array ρ)) (fun p => (p.1.size = n ∧ ∀ k, k < n → p.1.getD k 0 = -1) ∧ p.2.size = n) :=
    Safe.bind (fillN_safe n (-1) x hx) (fun x0 hx0 => Safe.bind (jpWeights_safe w hA z hz) (fun z0 hz0 => Safe.pure ⟨hx0, hz0⟩))
  simp only at hr
  generalize hp : (do
      let x ← fillN n (-1) x
      let z ← jpWeights w n ap z
      pure (x, z) : Ck (Array Int × Array ρ)) = pre at hr hpre
  cases hw : jpWhile w n ap aj pre.val.2 fuel (pre >>= fun p => pure (p.1, 0, 0)) with
  | none => rw [hw] at hr; cases hr
  | some r0 =>
    rw [hw] at hr
    simp only [Option.map_some] at hr
    have e := (Option.some.inj hr).symm
    rw [e]
    have h0 : Safe (pre >>= fun p => pure ((p.1, 0, 0) : VC)) (RInv n) :=
      Safe.bind hpre (fun p hp' => Safe.pure ⟨hp'.1.1, Int.le_refl 0, fun k hk => Or.inl (hp'.1.2 k hk)⟩)
    refine Safe.bind (jpWhile_safe w hA pre.val.2 hpre.2.2 fuel _ h0 r0 hw) (fun st hst => ?_)
    by_cases hn0 : n = 0
    · rw [if_pos hn0]; exact Safe.pure ⟨hst.1, hpre.2.2⟩
    · rw [if_neg hn0]
      exact Safe.bind (maxElem_safe n (by omega) st.1 hst.1) (fun m _ => Safe.pure ⟨hst.1, hpre.2.2⟩)

/-! ### `vertex_coloring_LDF` -/

theorem ldfWeights_safe (w : WOps ρ) {n : Nat} {ap aj : Array Int} (hA : WFm (patS n ap aj) n) (y : Array ρ) (hy : y.size = n)
    (x : Array Int) (hx : x.size = n) (wt : Array ρ) (hwt : wt.size = n) :
    Safe (ldfWeights w n ap aj y x wt) (fun wt' => wt'.size = n) := by
  unfold ldfWeights
  apply forRange_safe (fun wt' : Array ρ => wt'.size = n) _ _ _ _ hwt
  intro i i0 i1 wt' hwt'
  refine Safe.bind (rd_safe x i i0 (by rw [hx]; omega)) (fun xi _ => ?_)
  by_cases hu : xi ≠ -1
  · rw [if_pos hu]; exact Safe.pure hwt'
  · rw [if_neg hu]
    obtain ⟨q1, q2, hrow⟩ := row_facts hA i i0 i1
    refine Safe.bind q1 (fun s hs => ?_)
    refine Safe.bind q2 (fun e he => ?_)
    subst hs; subst he
    refine Safe.bind (P := fun _ => True) ?_ (fun nn _ => ?_)
    · apply forRange_safe (fun _ => True) _ _ _ _ trivial
      intro jj j1 j2 nn _
      refine Safe.bind (hrow jj j1 j2) (fun j hj => ?_)
      refine Safe.bind (rd_safe x j hj.2.1 (by rw [hx]; omega)) (fun xj _ => ?_)
      by_cases hc : xj = -1 ∧ i ≠ j
      · rw [if_pos hc]; exact Safe.pure trivial
      · rw [if_neg hc]; exact Safe.pure trivial
    · refine Safe.bind (rd_safe y i i0 (by rw [hy]; omega)) (fun yi _ => ?_)
      exact Safe.mono (wr_safe wt' i _ i0 (by rw [hwt']; omega)) (fun w' h => by rw [h, hwt'])

def LInv (n : Nat) (st : LDF ρ) : Prop := RInv n st.1 ∧ st.2.size = n

theorem ldfWhile_safe (w : WOps ρ) {n : Nat} {ap aj : Array Int} (hA : WFm (patS n ap aj) n) (y : Array ρ) (hy : y.size = n) :
    ∀ (fuel : Nat) (st : Ck (LDF ρ)), Safe st (LInv n) → ∀ r, ldfWhile w n ap aj y fuel st = some r → Safe r (LInv n) := by
  intro fuel
  induction fuel with
  | zero =>
    intro st hst r hr
    unfold ldfWhile at hr
    split at hr
    · cases hr
    · cases hr; exact hst
  | succ f ih =>
    intro st hst r hr
    unfold ldfWhile at hr
    split at hr
    · refine ih _ (Safe.bind hst (fun s hs => ?_)) r hr
      unfold ldfRound
      refine Safe.bind (ldfWeights_safe w hA y hy s.1.1 hs.1.1 s.2 hs.2) (fun wt hwt => ?_)
      exact Safe.bind (parRound_safe w hA wt hwt s.1 hs.1) (fun v hv => Safe.pure ⟨hv, hwt⟩)
    · cases hr; exact hst

/-- **`vertex_coloring_LDF`**: as for Jones-Plassmann; the private vector `weights` has `n` entries (termination:
`vertexColoringLDF_total` in `Proofs/ExtC17R4Term.lean`) -/
theorem vertexColoringLDF_safe (w : WOps ρ) {n : Nat} {ap aj : Array Int} (hA : WFm (patS n ap aj) n)
    (x : Array Int) (hx : x.size = n) (y : Array ρ) (hy : y.size = n) (fuel : Nat) :
    ∀ r, vertexColoringLDF w n ap aj x y fuel = some r → Safe r (fun out => out.1.size = n) := by
  intro r hr
  unfold vertexColoringLDF at hr
  cases hw : ldfWhile w n ap aj y fuel
      (fillN n (-1) x >>= fun x => pure (((x, 0, 0), Array.replicate n (w.ofInt 0)) : LDF ρ)) with
  | none => rw [hw] at hr; cases hr
  | some r0 =>
    rw [hw] at hr
    simp only [Option.map_some] at hr
    have e := (Option.some.inj hr).symm
    rw [e]
    have h0 : Safe (fillN n (-1) x >>= fun x => pure (((x, 0, 0), Array.replicate n (w.ofInt 0)) : LDF ρ)) (LInv n) :=
      Safe.bind (fillN_safe n (-1) x hx) (fun x0 hx0 =>
        Safe.pure ⟨⟨hx0.1, Int.le_refl 0, fun k hk => Or.inl (hx0.2 k hk)⟩, by simp⟩)
    refine Safe.bind (ldfWhile_safe w hA y hy fuel _ h0 r0 hw) (fun st hst => ?_)
    by_cases hn0 : n = 0
    · rw [if_pos hn0]; exact Safe.pure hst.1.1
    · rw [if_neg hn0]
      exact Safe.bind (maxElem_safe n (by omega) st.1.1 hst.1.1) (fun m _ => Safe.pure hst.1.1)

end PyamgV.C17R4
