import PyamgV.Model.C11
import PyamgV.Proofs.C11Kernel
import PyamgV.Proofs.C11Thm
import Mathlib.Tactic.Linarith
import Mathlib.Algebra.Order.Ring.Rat
import Mathlib.Algebra.Field.Rat

/-! PyamgV (C11): links between the array models (Model/C11.lean) and the proof-side definitions:
the coarse numbering array `cmapArr` (`map[]` of both pass-2 kernels) is `cidx` on every valid
0/1 splitting, and the index arithmetic of `injection_interpolation` is the prefix-sum form of the
same numbering. -/
namespace PyamgV.C11M
open PyamgV.N PyamgV.C11

def cstep (split : Array Int) (acc : Array Int × Int) (i : Nat) : Array Int × Int :=
  (acc.1.push acc.2, acc.2 + rdI split i)

theorem cmapArr_eq (n : Nat) (split : Array Int) :
    cmapArr n split = ((List.range n).foldl (cstep split) ((#[] : Array Int), (0 : Int))).1 := rfl

/-- a valid C/F splitting on the first `n` points -/
def Valid (split : Array Int) (n : Nat) : Prop := ∀ i < n, rdI split i = 0 ∨ rdI split i = 1

theorem cmap_state (split : Array Int) (n : Nat) (hv : Valid split n) :
    let r := (List.range n).foldl (cstep split) ((#[] : Array Int), (0 : Int))
    r.1.size = n ∧ r.2 = (cidx (isC split) n : Int) ∧
      ∀ j < n, r.1.getD j (-1) = (cidx (isC split) j : Int) := by
  induction n with
  | zero => simp [cidx]
  | succ n ih =>
    have hv' : Valid split n := fun i hi => hv i (Nat.lt_succ_of_lt hi)
    obtain ⟨h1, h2, h3⟩ := ih hv'
    simp only [List.range_succ, List.foldl_append, List.foldl_cons, List.foldl_nil]
    refine ⟨?_, ?_, ?_⟩
    · simp [cstep, h1]
    · simp only [cstep, h2, cidx_succ]
      rcases hv n (Nat.lt_succ_self n) with h | h
      · have : isC split n = false := by simp [isC, h]
        simp [this, h]
      · have : isC split n = true := by simp [isC, h]
        simp [this, h]
    · intro j hj
      generalize (List.range n).foldl (cstep split) ((#[] : Array Int), (0 : Int)) = r at h1 h2 h3 ⊢
      obtain ⟨arr, sm⟩ := r
      simp only [cstep] at *
      rw [Array.getD_eq_getD_getElem?, Array.getElem?_push]
      rcases Nat.lt_succ_iff_lt_or_eq.1 hj with hlt | heq
      · have h := h3 j hlt
        rw [Array.getD_eq_getD_getElem?] at h
        have hne : j ≠ arr.size := by omega
        simp only [hne, if_false]
        exact h
      · have he : j = arr.size := by omega
        simp only [he, if_true, Option.getD_some]
        rw [h2, h1]

/-- **the renumbering array of the kernels is `cidx`** (valid splittings) -/
theorem cmapArr_spec (split : Array Int) (n : Nat) (hv : Valid split n) {j : Nat} (hj : j < n) :
    (cmapArr n split).getD j (-1) = (cidx (isC split) j : Int) := by
  rw [cmapArr_eq]
  exact (cmap_state split n hv).2.2 j hj

/-! injection: `P_rowptr = [0] ++ cumsum(splitting)`, `P_colinds = arange(nc)` -/

def istep (split : Array Int) (a : Array Int) (i : Nat) : Array Int := a.push (a.getD i 0 + rdI split i)

theorem inj_state (split : Array Int) (n : Nat) (hv : Valid split n) :
    let a := (List.range n).foldl (istep split) (#[0] : Array Int)
    a.size = n + 1 ∧ ∀ j ≤ n, a.getD j 0 = (cidx (isC split) j : Int) := by
  induction n with
  | zero =>
    refine ⟨by simp, ?_⟩
    intro j hj
    have : j = 0 := by omega
    subst this; simp [cidx]
  | succ n ih =>
    have hv' : Valid split n := fun i hi => hv i (Nat.lt_succ_of_lt hi)
    obtain ⟨h1, h3⟩ := ih hv'
    simp only [List.range_succ, List.foldl_append, List.foldl_cons, List.foldl_nil]
    generalize (List.range n).foldl (istep split) (#[0] : Array Int) = a at h1 h3 ⊢
    refine ⟨by simp [istep, h1], ?_⟩
    intro j hj
    simp only [istep]
    rw [Array.getD_eq_getD_getElem?, Array.getElem?_push]
    rcases Nat.lt_succ_iff_lt_or_eq.1 (Nat.lt_succ_of_le hj) with hlt | heq
    · have h := h3 j (by omega)
      rw [Array.getD_eq_getD_getElem?] at h
      have hne : j ≠ a.size := by omega
      simp only [hne, if_false]
      exact h
    · have he : j = a.size := by omega
      simp only [he, if_true, Option.getD_some]
      rw [h1, h3 n (Nat.le_refl n), cidx_succ]
      rcases hv n (Nat.lt_succ_self n) with h | h
      · have : isC split n = false := by simp [isC, h]
        simp [this, h]
      · have : isC split n = true := by simp [isC, h]
        simp [this, h]

/-- **row pointer of injection = coarse numbering; columns = `0..nc-1`**: row `i` of the CSR
matrix `(rowptr, colinds, ones)` holds the columns `rowptr[i] .. rowptr[i+1]-1`, i.e. `cidx i`
alone when `i` is a C-point and nothing otherwise — the operator `injectionP` -/
theorem injection_spec (split : Array Int) (n : Nat) (hv : Valid split n) :
    (∀ j ≤ n, (injection n split).1.getD j 0 = (cidx (isC split) j : Int)) ∧
    (injection n split).2 = (Array.range (cidx (isC split) n)).map Int.ofNat := by
  have h := inj_state split n hv
  simp only at h
  unfold injection
  simp only
  refine ⟨h.2, ?_⟩
  have := h.2 n (Nat.le_refl n)
  show (Array.range (((List.range n).foldl (istep split) (#[0] : Array Int)).getD n 0).toNat).map Int.ofNat = _
  rw [this]; simp

/-! pass 1: the row pointer is the prefix sum of the row lengths of the proof-side operators -/

theorem count_fold (l : List Nat) (p : Nat → Bool) (c0 : Nat) :
    l.foldl (fun c x => if p x = true then c + 1 else c) c0 = c0 + (l.filter p).length := by
  induction l generalizing c0 with
  | nil => simp
  | cons a rest ih =>
    simp only [List.foldl_cons]
    rw [ih]
    by_cases h : p a = true
    · simp [h]; omega
    · simp [h]

/-- predicate of the pass-1 inner loop -/
def strongCjj (S : Csr) (split : Array Int) (i : Nat) (jj : Nat) : Bool :=
  isC split (rdN S.aj jj) && decide (rdN S.aj jj ≠ i)

/-- number of entries pass 1 reserves for row `i` -/
def rowLen (S : Csr) (split : Array Int) (i : Nat) : Nat :=
  if isC split i then 1 else ((S.jjs i).filter (strongCjj S split i)).length

def p1step (S : Csr) (split : Array Int) (acc : Array Nat × Nat) (i : Nat) : Array Nat × Nat :=
  let nnz := if isC split i then acc.2 + 1 else
    (S.jjs i).foldl (fun nnz jj => if isC split (rdN S.aj jj) ∧ rdN S.aj jj ≠ i then nnz + 1 else nnz) acc.2
  (acc.1.push nnz, nnz)

theorem classicalPass1_eq (n : Nat) (S : Csr) (split : Array Int) :
    classicalPass1 n S split = ((List.range n).foldl (p1step S split) (#[0], 0)).1 := rfl

theorem p1step_eq (S : Csr) (split : Array Int) (acc : Array Nat × Nat) (i : Nat) :
    p1step S split acc i = (acc.1.push (acc.2 + rowLen S split i), acc.2 + rowLen S split i) := by
  unfold p1step rowLen
  by_cases hC : isC split i = true
  · simp [hC]
  · have hC' : isC split i = false := by simpa using hC
    simp only [hC', Bool.false_eq_true, if_false]
    have := count_fold (S.jjs i) (strongCjj S split i) acc.2
    have heq : (fun (nnz : Nat) (jj : Nat) => if isC split (rdN S.aj jj) = true ∧ rdN S.aj jj ≠ i then nnz + 1 else nnz) =
        (fun c x => if strongCjj S split i x = true then c + 1 else c) := by
      funext c x
      simp [strongCjj]
    rw [heq, this]

theorem pass1_state (S : Csr) (split : Array Int) (n : Nat) :
    let r := (List.range n).foldl (p1step S split) ((#[0] : Array Nat), 0)
    r.1.size = n + 1 ∧ r.2 = ((List.range n).map (rowLen S split)).sum ∧
      ∀ j ≤ n, r.1.getD j 0 = ((List.range j).map (rowLen S split)).sum := by
  induction n with
  | zero =>
    refine ⟨by simp, by simp, ?_⟩
    intro j hj
    have : j = 0 := by omega
    subst this; simp
  | succ n ih =>
    obtain ⟨h1, h2, h3⟩ := ih
    simp only [List.range_succ, List.foldl_append, List.foldl_cons, List.foldl_nil, List.map_append,
      List.sum_append, List.map_cons, List.map_nil, List.sum_cons, List.sum_nil, Nat.add_zero]
    generalize (List.range n).foldl (p1step S split) ((#[0] : Array Nat), 0) = r at h1 h2 h3 ⊢
    rw [p1step_eq]
    refine ⟨by simp [h1], by simp [h2], ?_⟩
    intro j hj
    simp only
    rw [Array.getD_eq_getD_getElem?, Array.getElem?_push]
    rcases Nat.lt_succ_iff_lt_or_eq.1 (Nat.lt_succ_of_le hj) with hlt | heq
    · have h := h3 j (by omega)
      rw [Array.getD_eq_getD_getElem?] at h
      have hne : j ≠ r.1.size := by omega
      simp only [hne, if_false]
      exact h
    · have he : j = r.1.size := by omega
      simp only [he, if_true, Option.getD_some]
      rw [h2, h1]
      simp [List.range_succ]

/-- **pass 1**: `Pp[j] = Σ_{i<j} rowLen i`, `Pp` has `n+1` entries -/
theorem classicalPass1_spec (S : Csr) (split : Array Int) (n : Nat) :
    (classicalPass1 n S split).size = n + 1 ∧
    ∀ j ≤ n, (classicalPass1 n S split).getD j 0 = ((List.range j).map (rowLen S split)).sum := by
  rw [classicalPass1_eq]
  have := pass1_state S split n
  exact ⟨this.1, this.2.2⟩

/-- rows of a CSR matrix as (column, value) lists in storage order (what the driver feeds to the
proof-side operators) -/
def rowOf (A : Csr) (i : Nat) : List (Nat × Rat) := (A.jjs i).map (fun jj => (rdN A.aj jj, rdQ A.ax jj))

/-- … and `rowLen` is the length of the row that the proof-side classical / direct operators
produce: pass 1 and pass 2 agree on the sizes -/
theorem rowLen_classical (eps : Rat) (A S : Csr) (split : Array Int) (n : Nat) {i : Nat} (hi : i < n) :
    ((classicalP eps (isC split) n (rowOf A) (rowOf S)).getD i []).length = rowLen S split i ∧
    ((directP (isC split) n (rowOf A) (rowOf S)).getD i []).length = rowLen S split i := by
  rw [classicalP_row eps (isC split) n _ _ hi, directP_row (isC split) n _ _ hi]
  unfold rowLen
  by_cases hC : isC split i = true
  · simp [hC]
  · have hC' : isC split i = false := by simpa using hC
    simp only [hC', Bool.false_eq_true, if_false]
    constructor
    · simp only [renum, Classical.classicalRow, Classical.strongC, List.length_map, rowOf, List.filter_map,
        Function.comp_def]
      congr 1
      apply List.filter_congr
      intro jj _
      simp only [strongCjj]
      by_cases h : rdN S.aj jj = i
      · simp [h, hC']
      · simp [h]
    · simp only [renum, Direct.directRow, Direct.strongC, List.length_map, rowOf, List.filter_map,
        Function.comp_def]
      congr 1

end PyamgV.C11M
