import PyamgV.Proofs.C20Assembly

/-! PyamgV (C20): Dirichlet elimination `P.T @ A @ P` in `q12d` = interior principal part with the
nodes renumbered by `cumsum(mask)`; on a row that is not coupled to a boundary node the reduced
operator applied to the restricted rigid-body modes equals the free operator applied to the modes. -/
namespace PyamgV.C20

theorem ren_succ (X Y k : Nat) : ren X Y (k + 1) = ren X Y k + (if interior X Y k then 1 else 0) := by
  unfold ren
  rw [List.range_succ, List.filter_append, List.length_append]
  by_cases h : interior X Y k = true <;> simp [h]

theorem ren_mono (X Y k : Nat) : ∀ d, ren X Y k ≤ ren X Y (k + d) := by
  intro d
  induction d with
  | zero => exact Nat.le_refl _
  | succ d ih => rw [← Nat.add_assoc, ren_succ]; omega

theorem ren_lt (X Y k k' : Nat) (h : k < k') (hk : interior X Y k = true) : ren X Y k < ren X Y k' := by
  have h1 := ren_succ X Y k
  rw [if_pos hk] at h1
  have h2 := ren_mono X Y (k + 1) (k' - (k + 1))
  have e : k + 1 + (k' - (k + 1)) = k' := by omega
  rw [e] at h2
  omega

theorem ren_inj (X Y k k' : Nat) (hk : interior X Y k = true) (hk' : interior X Y k' = true)
    (h : ren X Y k = ren X Y k') : k = k' := by
  rcases Nat.lt_trichotomy k k' with h1 | h1 | h1
  · have := ren_lt X Y k k' h1 hk; omega
  · exact h1
  · have := ren_lt X Y k' k h1 hk'; omega

theorem renDof_inj (X Y t r : Nat) (ht : interior X Y (t / 2) = true) (hr : interior X Y (r / 2) = true)
    (h : renDof X Y t = renDof X Y r) : t = r := by
  unfold renDof at h
  have hp1 : t % 2 < 2 := Nat.mod_lt _ (by decide)
  have hp2 : r % 2 < 2 := Nat.mod_lt _ (by decide)
  have h1 : ren X Y (t / 2) = ren X Y (r / 2) := by omega
  have h2 := ren_inj X Y _ _ ht hr h1
  omega

theorem sum_filter' {α : Type} (l : List α) (p : α → Bool) (f : α → Rat) :
    ((l.filter p).map f).sum = (l.map fun t => if p t then f t else 0).sum := by
  induction l with
  | nil => rfl
  | cons a l ih =>
    by_cases h : p a = true
    · simp [List.filter_cons, h, ih]
    · simp [List.filter_cons, h, ih]

/-- **Dirichlet elimination keeps uncoupled rows**: if no triple of row `r` has a boundary column, then
component `renDof r` of `(P.T A P) w` equals component `r` of `A v`, `w` being `v` at the kept dofs -/
theorem restrict_rowdot (X Y : Nat) (T : List Triple) (v w : Nat → Rat) (r : Nat)
    (hr : interior X Y (r / 2) = true)
    (hun : ∀ t ∈ T, t.1 = r → interior X Y (t.2.1 / 2) = true)
    (hw : ∀ t, interior X Y (t / 2) = true → w (renDof X Y t) = v t) :
    rowdot (restrict X Y T) w (renDof X Y r) = rowdot T v r := by
  unfold rowdot restrict
  rw [List.map_map, sum_filter']
  congr 1
  apply List.map_congr_left
  intro t ht
  simp only [Function.comp]
  by_cases hrow : t.1 = r
  · have hc := hun t ht hrow
    have hri : interior X Y (t.1 / 2) = true := by rw [hrow]; exact hr
    simp [hc, hrow, hr, hw t.2.1 hc]
  · rw [if_neg hrow]
    by_cases hb : (interior X Y (t.1 / 2) && interior X Y (t.2.1 / 2)) = true
    · rw [if_pos hb, if_neg]
      intro he
      simp only [Bool.and_eq_true] at hb
      exact hrow (renDof_inj X Y _ _ hb.1 hr he)
    · rw [if_neg hb]

/-! ## the candidate array as a list of rows -/

theorem getD_filter_range (p : Nat → Bool) (n k : Nat) (hk : k < n) (hp : p k = true) :
    ((List.range n).filter p).getD ((List.range k).filter p).length 0 = k := by
  obtain ⟨e, rfl⟩ : ∃ e, n = k + (e + 1) := ⟨n - k - 1, by omega⟩
  rw [List.range_add, List.filter_append, List.range_succ_eq_map, List.map_cons, List.filter_cons, if_pos (by simpa using hp)]
  rw [List.getD_eq_getElem?_getD, List.getElem?_append_right (Nat.le_refl _), Nat.sub_self]
  simp

theorem modeRows_getD (X Y : Nat) (DX DY : Rat) : ∀ (l : List Nat) (idx c : Nat), c < 2 → idx < l.length →
    (modeRows X Y DX DY l).getD (2 * idx + c) [] =
      [mode X Y DX DY 0 (2 * l.getD idx 0 + c), mode X Y DX DY 1 (2 * l.getD idx 0 + c),
       mode X Y DX DY 2 (2 * l.getD idx 0 + c)] := by
  intro l
  induction l with
  | nil => intro idx c _ h; simp at h
  | cons a l ih =>
    intro idx c hc hidx
    unfold modeRows
    rw [List.flatMap_cons]
    cases idx with
    | zero =>
      interval_cases c <;> simp
    | succ idx =>
      have e : 2 * (idx + 1) + c = (2 * idx + c) + 2 := by ring
      rw [e]
      simp only [List.cons_append, List.nil_append, List.getD_cons_succ]
      have := ih idx c hc (by simpa using hidx)
      unfold modeRows at this
      rw [this]

theorem interior_lt (X Y k : Nat) (h : interior X Y k = true) : k < (X + 1) * (Y + 1) := by
  unfold interior at h
  simp only [Bool.and_eq_true, decide_eq_true_eq] at h
  have h1 : k / (X + 1) < Y + 1 := by omega
  rw [Nat.mul_comm]
  exact (Nat.div_lt_iff_lt_mul (by omega)).1 h1

/-- row `renDof t` of the reduced candidate array holds the modes at the kept dof `t` -/
theorem dirichlet_B (X Y : Nat) (DX DY : Rat) (t m : Nat) (ht : interior X Y (t / 2) = true) (hm : m < 3) :
    ((modeRows X Y DX DY ((List.range ((X + 1) * (Y + 1))).filter (interior X Y))).getD (renDof X Y t) []).getD m 0 =
      mode X Y DX DY m t := by
  have hlt := interior_lt X Y _ ht
  have hlen : ren X Y (t / 2) < ((List.range ((X + 1) * (Y + 1))).filter (interior X Y)).length :=
    ren_lt X Y _ _ hlt ht
  unfold renDof
  rw [modeRows_getD X Y DX DY _ _ _ (Nat.mod_lt _ (by decide)) hlen]
  have hk : ((List.range ((X + 1) * (Y + 1))).filter (interior X Y)).getD (ren X Y (t / 2)) 0 = t / 2 :=
    getD_filter_range (interior X Y) _ _ hlt ht
  rw [hk, Nat.div_add_mod]
  interval_cases m <;> simp

theorem free_B (X Y : Nat) (DX DY : Rat) (t m : Nat) (ht : t / 2 < (X + 1) * (Y + 1)) (hm : m < 3) :
    ((modeRows X Y DX DY (List.range ((X + 1) * (Y + 1)))).getD t []).getD m 0 = mode X Y DX DY m t := by
  have e : t = 2 * (t / 2) + t % 2 := (Nat.div_add_mod t 2).symm
  rw [e, modeRows_getD X Y DX DY _ _ _ (Nat.mod_lt _ (by decide)) (by simpa using ht)]
  have hg : (List.range ((X + 1) * (Y + 1))).getD (t / 2) 0 = t / 2 := by
    rw [List.getD_eq_getElem?_getD, List.getElem?_range ht]; rfl
  rw [hg]
  interval_cases m <;> simp

/-! ## which rows are coupled to the boundary -/

def dxN (a : Nat) : Nat := [0, 0, 1, 1, 1, 1, 0, 0].getD a 0
def dyN (a : Nat) : Nat := [0, 0, 0, 0, 1, 1, 1, 1].getD a 0

theorem off_node (X i j a : Nat) (ha : a < 8) :
    (2 * (j * (X + 1) + i) + off X a) / 2 = (j + dyN a) * (X + 1) + (i + dxN a) ∧ dxN a ≤ 1 ∧ dyN a ≤ 1 := by
  have e : (j + 1) * (X + 1) = j * (X + 1) + X + 1 := by ring
  interval_cases a <;> simp [off, offs, dxN, dyN] <;> omega

/-- every triple of the assembled operator couples two nodes of one element -/
theorem mem_assemble (X Y : Nat) (K : Nat → Nat → Rat) (t : Triple) (h : t ∈ assemble X Y K) :
    ∃ j i a b, j < Y ∧ i < X ∧ a < 8 ∧ b < 8 ∧
      t = (2 * (j * (X + 1) + i) + off X b, 2 * (j * (X + 1) + i) + off X a, K a b) := by
  unfold assemble elemTriples at h
  simp only [List.mem_flatMap, List.mem_map, List.mem_range] at h
  obtain ⟨base, hbase, a, ha, b, hb, rfl⟩ := h
  obtain ⟨j, i, hj, hi, rfl⟩ := mem_elems X Y base hbase
  exact ⟨j, i, a, b, hj, hi, ha, hb, rfl⟩

/-- node `k` and all its eight neighbours are interior nodes -/
def inner (X Y k : Nat) : Prop :=
  2 ≤ k % (X + 1) ∧ k % (X + 1) + 2 ≤ X ∧ 2 ≤ k / (X + 1) ∧ k / (X + 1) + 2 ≤ Y

theorem inner_interior (X Y k : Nat) (h : inner X Y k) : interior X Y k = true := by
  unfold inner at h; unfold interior
  simp only [Bool.and_eq_true, decide_eq_true_eq]; omega

/-- rows of nodes whose neighbours are all interior have no entry in a boundary column -/
theorem uncoupled_of_inner (X Y : Nat) (K : Nat → Nat → Rat) (r : Nat) (hr : inner X Y (r / 2)) :
    ∀ t ∈ assemble X Y K, t.1 = r → interior X Y (t.2.1 / 2) = true := by
  intro t ht hrow
  obtain ⟨j, i, a, b, hj, hi, ha, hb, rfl⟩ := mem_assemble X Y K t ht
  simp only at hrow ⊢
  obtain ⟨nb, hxb, hyb⟩ := off_node X i j b hb
  obtain ⟨na, hxa, hya⟩ := off_node X i j a ha
  rw [← hrow, nb] at hr
  unfold inner at hr
  rw [node_mod X _ _ (by omega), node_div X _ _ (by omega)] at hr
  rw [na]
  unfold interior
  rw [node_mod X _ _ (by omega), node_div X _ _ (by omega)]
  simp only [Bool.and_eq_true, decide_eq_true_eq]
  omega

theorem col_lt (X Y : Nat) (K : Nat → Nat → Rat) (t : Triple) (h : t ∈ assemble X Y K) :
    t.2.1 / 2 < (X + 1) * (Y + 1) ∧ t.1 / 2 < (X + 1) * (Y + 1) := by
  obtain ⟨j, i, a, b, hj, hi, ha, hb, rfl⟩ := mem_assemble X Y K t h
  obtain ⟨nb, hxb, hyb⟩ := off_node X i j b hb
  obtain ⟨na, hxa, hya⟩ := off_node X i j a ha
  simp only
  rw [na, nb]
  have key : ∀ jj ii, jj ≤ Y → ii ≤ X → jj * (X + 1) + ii < (X + 1) * (Y + 1) := by
    intro jj ii h1 h2
    have : jj * (X + 1) ≤ Y * (X + 1) := Nat.mul_le_mul_right _ h1
    have e : (X + 1) * (Y + 1) = Y * (X + 1) + X + 1 := by ring
    omega
  exact ⟨key _ _ (by omega) (by omega), key _ _ (by omega) (by omega)⟩

theorem rowdot_congr (T : List Triple) (v v' : Nat → Rat) (r : Nat) (h : ∀ t ∈ T, v t.2.1 = v' t.2.1) :
    rowdot T v r = rowdot T v' r := by
  unfold rowdot
  congr 1
  apply List.map_congr_left
  intro t ht
  rw [h t ht]

/-! ## the two clauses about the modes, for the output of the model -/

/-- **free operator**: the returned candidates lie in its nullspace (`A_free B = 0`, every component) -/
theorem q12dCore_free_nullspace (X Y : Nat) (DX DY lame mu : Rat) (hDX : DX ≠ 0) (hDY : DY ≠ 0)
    (m : Nat) (hm : m < 3) (r : Nat) :
    rowdot (q12dCore X Y DX DY lame mu false).A
      (colOf (q12dCore X Y DX DY lame mu false).B m) r = 0 := by
  show rowdot (assemble X Y _) (fun t => ((modeRows X Y DX DY (List.range ((X + 1) * (Y + 1)))).getD t []).getD m 0) r = 0
  rw [rowdot_congr _ _ (mode X Y DX DY m) r]
  · exact assemble_rigid X Y DX DY lame mu hDX hDY m hm r
  · intro t ht
    exact free_B X Y DX DY _ m (col_lt X Y _ t ht).1 hm

/-- **Dirichlet operator**: `(A B)` vanishes in the rows of the nodes all of whose neighbours are kept -/
theorem q12dCore_dirichlet_inner (X Y : Nat) (DX DY lame mu : Rat) (hDX : DX ≠ 0) (hDY : DY ≠ 0)
    (m : Nat) (hm : m < 3) (r : Nat) (hr : inner X Y (r / 2)) :
    rowdot (q12dCore X Y DX DY lame mu true).A
      (colOf (q12dCore X Y DX DY lame mu true).B m) (renDof X Y r) = 0 := by
  show rowdot (restrict X Y (assemble X Y _))
    (fun t => ((modeRows X Y DX DY ((List.range ((X + 1) * (Y + 1))).filter (interior X Y))).getD t []).getD m 0)
    (renDof X Y r) = 0
  rw [restrict_rowdot X Y _ (mode X Y DX DY m) _ r (inner_interior X Y _ hr) (uncoupled_of_inner X Y _ r hr)
    (fun t ht => dirichlet_B X Y DX DY t m ht hm)]
  exact assemble_rigid X Y DX DY lame mu hDX hDY m hm r

end PyamgV.C20
