import PyamgV.Proofs.C19Trunc

/-! PyamgV (C19, extension E9): the kernel's quicksort is correct for every input.

`qsortTwo` (`Model/C19Utils.lean`) is the literal transcription of `qsort_twoarrays` of
`amg_core/smoothed_aggregation.h` (swap the middle element to the front, Lomuto partition loop with
strict `<` on `mynorm`, swap the pivot into place, two recursive calls), with a `fuel` argument that
bounds the recursion depth.  This file proves, for EVERY array, every segment `[left, right]` inside
the array and every `fuel ≥ right - left` (segment length minus one):

* the result is a permutation of the input, the entries outside the segment are untouched and the
  entries inside the segment are entries of the segment (`Seg`);
* the segment is ascending in `nsq` (the squared modulus, which orders like `mynorm`).

Consequences: `truncCheck` (the per-instance sort certificate) is `true` for every row, and
`truncateRow_spec` holds without the certificate hypothesis (`truncateRow_spec_unconditional`). -/
namespace PyamgV.C19

variable {α : Type} [OfNat α 0]

/-- the read the kernel model uses (`x[i]`, `y[i]` as one pair) -/
abbrev qg (a : Array (Nat × α)) (i : Nat) : Nat × α := a.getD i (0, 0)

theorem swapA_size (a : Array (Nat × α)) (i j : Nat) : (swapA a i j).size = a.size := by
  simp [swapA]

theorem swapA_get (a : Array (Nat × α)) (i j t : Nat) (hi : i < a.size) (hj : j < a.size) :
    qg (swapA a i j) t = if t = j then qg a i else if t = i then qg a j else qg a t := by
  unfold swapA qg
  simp only [Array.getD_eq_getD_getElem?, Array.getElem?_setIfInBounds, Array.size_setIfInBounds]
  by_cases h1 : t = j
  · subst h1; simp [hj]
  · by_cases h2 : t = i
    · subst h2
      have : ¬ j = t := fun h => h1 h.symm
      simp [this, hi, h1]
    · have h1' : ¬ j = t := fun h => h1 h.symm
      have h2' : ¬ i = t := fun h => h2 h.symm
      simp [h1, h2, h1', h2']

theorem swapA_perm (a : Array (Nat × α)) (i j : Nat) (hi : i < a.size) (hj : j < a.size) :
    (swapA a i j).toList.Perm a.toList := by
  have h : swapA a i j = a.swap i j hi hj := by
    apply Array.ext
    · simp [swapA]
    · intro t h1 h2
      have := swapA_get a i j t hi hj
      unfold qg at this
      have e1 : (swapA a i j)[t] = (swapA a i j).getD t (0, 0) := by
        simp [Array.getD_eq_getD_getElem?, h1]
      rw [e1, this]
      simp only [Array.getD_eq_getD_getElem?]
      rw [Array.getElem_swap]
      have ht : t < a.size := by simpa using h2
      by_cases c1 : t = j
      · subst c1
        by_cases c2 : t = i
        · subst c2; simp [ht]
        · simp [c2, hi]
      · by_cases c2 : t = i
        · subst c2; simp [c1, hj]
        · simp [c1, c2, ht]
  rw [h]
  exact (Array.perm_iff_toList_perm.mp (Array.swap_perm hi hj))

/-! ### rearrangements of a segment -/

/-- `b` arises from `a` by rearranging the segment `[l, r]` (integer bounds as in the kernel): same
size, a permutation, nothing outside the segment moved, every entry of the segment comes from it -/
structure Seg (l r : Int) (a b : Array (Nat × α)) : Prop where
  size : b.size = a.size
  perm : b.toList.Perm a.toList
  out : ∀ t : Nat, ((t : Int) < l ∨ r < (t : Int)) → qg b t = qg a t
  mem : ∀ t : Nat, l ≤ (t : Int) → (t : Int) ≤ r →
    ∃ s : Nat, l ≤ (s : Int) ∧ (s : Int) ≤ r ∧ qg b t = qg a s

theorem Seg.refl (l r : Int) (a : Array (Nat × α)) : Seg l r a a :=
  ⟨rfl, List.Perm.refl _, fun _ _ => rfl, fun t h1 h2 => ⟨t, h1, h2, rfl⟩⟩

theorem Seg.trans {l r : Int} {a b c : Array (Nat × α)} (h1 : Seg l r a b) (h2 : Seg l r b c) :
    Seg l r a c := by
  refine ⟨h2.size.trans h1.size, h2.perm.trans h1.perm, ?_, ?_⟩
  · intro t ht
    rw [h2.out t ht, h1.out t ht]
  · intro t ht1 ht2
    obtain ⟨s, hs1, hs2, e⟩ := h2.mem t ht1 ht2
    obtain ⟨u, hu1, hu2, e'⟩ := h1.mem s hs1 hs2
    exact ⟨u, hu1, hu2, e.trans e'⟩

theorem Seg.mono {l r l' r' : Int} {a b : Array (Nat × α)} (h : Seg l' r' a b) (hl : l ≤ l')
    (hr : r' ≤ r) : Seg l r a b := by
  refine ⟨h.size, h.perm, ?_, ?_⟩
  · intro t ht
    exact h.out t (by omega)
  · intro t ht1 ht2
    by_cases c : l' ≤ (t : Int) ∧ (t : Int) ≤ r'
    · obtain ⟨s, hs1, hs2, e⟩ := h.mem t c.1 c.2
      exact ⟨s, by omega, by omega, e⟩
    · exact ⟨t, ht1, ht2, h.out t (by omega)⟩

theorem Seg.swap (l r : Int) (a : Array (Nat × α)) (i j : Nat) (hi : i < a.size) (hj : j < a.size)
    (hil : l ≤ (i : Int)) (hir : (i : Int) ≤ r) (hjl : l ≤ (j : Int)) (hjr : (j : Int) ≤ r) :
    Seg l r a (swapA a i j) := by
  refine ⟨swapA_size a i j, swapA_perm a i j hi hj, ?_, ?_⟩
  · intro t ht
    rw [swapA_get a i j t hi hj]
    have h1 : ¬ t = j := by omega
    have h2 : ¬ t = i := by omega
    rw [if_neg h1, if_neg h2]
  · intro t ht1 ht2
    rw [swapA_get a i j t hi hj]
    by_cases h1 : t = j
    · rw [if_pos h1]; exact ⟨i, hil, hir, rfl⟩
    · rw [if_neg h1]
      by_cases h2 : t = i
      · rw [if_pos h2]; exact ⟨j, hjl, hjr, rfl⟩
      · rw [if_neg h2]; exact ⟨t, ht1, ht2, rfl⟩

/-! ### the partition loop -/

/-- body of `for (i = left+1; i <= right; i++) if (mynorm(x[i]) < mynorm(x[left])) swap(++last, i)` -/
def partStep (nsq : α → Rat) (l : Nat) (st : Array (Nat × α) × Nat) (i : Nat) :
    Array (Nat × α) × Nat :=
  if nsq (st.1.getD i (0, 0)).2 < nsq (st.1.getD l (0, 0)).2 then (swapA st.1 (st.2 + 1) i, st.2 + 1)
  else st

def partLoop (nsq : α → Rat) (l r : Nat) (a : Array (Nat × α)) : Array (Nat × α) × Nat :=
  (List.range' (l + 1) (r - l)).foldl (partStep nsq l) (a, l)

/-- one unfolding of the kernel model (the model's anonymous loop body is `partStep`) -/
theorem qsortTwo_succ (nsq : α → Rat) (fuel : Nat) (a : Array (Nat × α)) (left right : Int)
    (h : ¬ left ≥ right) :
    qsortTwo nsq (fuel + 1) a left right =
      qsortTwo nsq fuel
        (qsortTwo nsq fuel
          (swapA (partLoop nsq left.toNat right.toNat
              (swapA a left.toNat ((left.toNat + right.toNat) / 2))).1 left.toNat
            (partLoop nsq left.toNat right.toNat
              (swapA a left.toNat ((left.toNat + right.toNat) / 2))).2)
          left (((partLoop nsq left.toNat right.toNat
              (swapA a left.toNat ((left.toNat + right.toNat) / 2))).2 : Int) - 1))
        (((partLoop nsq left.toNat right.toNat
              (swapA a left.toNat ((left.toNat + right.toNat) / 2))).2 : Int) + 1) right := by
  rw [qsortTwo, if_neg h]
  rfl

theorem qsortTwo_stop (nsq : α → Rat) (fuel : Nat) (a : Array (Nat × α)) (left right : Int)
    (h : left ≥ right) : qsortTwo nsq fuel a left right = a := by
  cases fuel with
  | zero => rfl
  | succ f => rw [qsortTwo, if_pos h]

/-- loop invariant before index `m` (pivot `a0[l]`, `last = st.2`) -/
structure PartInv (nsq : α → Rat) (l r : Nat) (a0 : Array (Nat × α)) (m : Nat)
    (st : Array (Nat × α) × Nat) : Prop where
  seg : Seg ((l : Int) + 1) (r : Int) a0 st.1
  lo : l ≤ st.2
  hi : st.2 < m
  small : ∀ t, l < t → t ≤ st.2 → nsq (qg st.1 t).2 < nsq (qg a0 l).2
  large : ∀ t, st.2 < t → t < m → ¬ nsq (qg st.1 t).2 < nsq (qg a0 l).2

theorem partStep_inv (nsq : α → Rat) (l r : Nat) (a0 : Array (Nat × α)) (hr : r < a0.size)
    (m : Nat) (hm : m ≤ r) (st : Array (Nat × α) × Nat) (h : PartInv nsq l r a0 m st) :
    PartInv nsq l r a0 (m + 1) (partStep nsq l st m) := by
  have hpiv : qg st.1 l = qg a0 l := h.seg.out l (by omega)
  have hlo := h.lo
  have hhi := h.hi
  have hsz : st.1.size = a0.size := h.seg.size
  unfold partStep
  by_cases c : nsq (st.1.getD m (0, 0)).2 < nsq (st.1.getD l (0, 0)).2
  · rw [if_pos c]
    have hi1 : st.2 + 1 < st.1.size := by omega
    have hi2 : m < st.1.size := by omega
    refine ⟨?_, ?_, ?_, ?_, ?_⟩
    · exact h.seg.trans (Seg.swap _ _ st.1 (st.2 + 1) m hi1 hi2 (by omega) (by omega) (by omega) (by omega))
    · show l ≤ st.2 + 1
      omega
    · show st.2 + 1 < m + 1
      omega
    · intro t ht1 ht2
      show nsq (qg (swapA st.1 (st.2 + 1) m) t).2 < _
      have ht2 : t ≤ st.2 + 1 := ht2
      rw [swapA_get st.1 (st.2 + 1) m t hi1 hi2]
      by_cases e1 : t = m
      · rw [if_pos e1]
        have : st.2 + 1 = m := by omega
        rw [this, ← hpiv]; exact c
      · rw [if_neg e1]
        by_cases e2 : t = st.2 + 1
        · rw [if_pos e2, ← hpiv]; exact c
        · rw [if_neg e2]; exact h.small t ht1 (by omega)
    · intro t ht1 ht2
      show ¬ nsq (qg (swapA st.1 (st.2 + 1) m) t).2 < _
      have ht1 : st.2 + 1 < t := ht1
      rw [swapA_get st.1 (st.2 + 1) m t hi1 hi2]
      by_cases e1 : t = m
      · rw [if_pos e1]
        exact h.large (st.2 + 1) (by omega) (by omega)
      · rw [if_neg e1]
        have e2 : ¬ t = st.2 + 1 := by omega
        rw [if_neg e2]
        exact h.large t (by omega) (by omega)
  · rw [if_neg c]
    refine ⟨h.seg, h.lo, by omega, h.small, ?_⟩
    intro t ht1 ht2
    by_cases e1 : t = m
    · subst e1
      rw [← hpiv]; exact c
    · exact h.large t ht1 (by omega)

theorem partFold_inv (nsq : α → Rat) (l r : Nat) (a0 : Array (Nat × α)) (hr : r < a0.size) :
    ∀ (cnt m : Nat) (st : Array (Nat × α) × Nat), m + cnt = r + 1 → PartInv nsq l r a0 m st →
      PartInv nsq l r a0 (r + 1) ((List.range' m cnt).foldl (partStep nsq l) st) := by
  intro cnt
  induction cnt with
  | zero =>
    intro m st hm h
    have : m = r + 1 := by omega
    subst this
    exact h
  | succ n ih =>
    intro m st hm h
    rw [List.range'_succ, List.foldl_cons]
    exact ih (m + 1) _ (by omega) (partStep_inv nsq l r a0 hr m (by omega) st h)

theorem partLoop_inv (nsq : α → Rat) (l r : Nat) (a : Array (Nat × α)) (hlr : l < r)
    (hr : r < a.size) : PartInv nsq l r a (r + 1) (partLoop nsq l r a) := by
  unfold partLoop
  refine partFold_inv nsq l r a hr (r - l) (l + 1) (a, l) (by omega) ?_
  exact ⟨Seg.refl _ _ a, Nat.le_refl l, Nat.lt_succ_self l, fun t h1 h2 => by
    have h2 : t ≤ l := h2
    omega, fun t h1 h2 => by
    have h1 : l < t := h1
    omega⟩

/-! ### the recursion -/

/-- the segment `[l, r]` of `b` is ascending in `nsq` -/
def SortedSeg (nsq : α → Rat) (l r : Int) (b : Array (Nat × α)) : Prop :=
  ∀ i j : Nat, l ≤ (i : Int) → i ≤ j → (j : Int) ≤ r → nsq (qg b i).2 ≤ nsq (qg b j).2

/-- **`qsort_twoarrays` is correct**: for every array, every segment `0 ≤ left`, `right < size` and
every `fuel ≥ right - left`, the model's quicksort rearranges the segment only (`Seg`: permutation of
the whole array, outside untouched, inside from inside) and leaves it ascending in `nsq` -/
theorem qsortTwo_correct (nsq : α → Rat) : ∀ (fuel : Nat) (a : Array (Nat × α)) (left right : Int),
    0 ≤ left → right < (a.size : Int) → right - left ≤ (fuel : Int) →
    Seg left right a (qsortTwo nsq fuel a left right) ∧
      SortedSeg nsq left right (qsortTwo nsq fuel a left right) := by
  intro fuel
  induction fuel with
  | zero =>
    intro a left right h0 hr hf
    have hge : left ≥ right := by omega
    rw [qsortTwo_stop nsq 0 a left right hge]
    refine ⟨Seg.refl _ _ a, ?_⟩
    intro i j h1 h2 h3
    have : i = j := by omega
    subst this
    exact le_refl _
  | succ f ih =>
    intro a left right h0 hr hf
    by_cases hge : left ≥ right
    · rw [qsortTwo_stop nsq (f + 1) a left right hge]
      refine ⟨Seg.refl _ _ a, ?_⟩
      intro i j h1 h2 h3
      have : i = j := by omega
      subst this
      exact le_refl _
    · rw [qsortTwo_succ nsq f a left right hge]
      -- name the pieces
      obtain ⟨l, hl⟩ : ∃ l : Nat, left = (l : Int) := ⟨left.toNat, by omega⟩
      obtain ⟨r, hrr⟩ : ∃ r : Nat, right = (r : Int) := ⟨right.toNat, by omega⟩
      subst hl hrr
      simp only [Int.toNat_natCast]
      have hlr : l < r := by omega
      have hrs : r < a.size := by omega
      generalize ha1 : swapA a l ((l + r) / 2) = a1
      have seg1 : Seg (l : Int) (r : Int) a a1 := by
        rw [← ha1]
        exact Seg.swap _ _ a l ((l + r) / 2) (by omega) (by omega) (by omega) (by omega)
          (by omega) (by omega)
      have hrs1 : r < a1.size := by rw [seg1.size]; exact hrs
      have inv := partLoop_inv nsq l r a1 hlr hrs1
      generalize partLoop nsq l r a1 = st at inv
      obtain ⟨as, p⟩ := st
      have hlp : l ≤ p := inv.lo
      have hpr : p ≤ r := Nat.lt_succ_iff.mp inv.hi
      have small : ∀ t, l < t → t ≤ p → nsq (qg as t).2 < nsq (qg a1 l).2 := inv.small
      have large : ∀ t, p < t → t < r + 1 → ¬ nsq (qg as t).2 < nsq (qg a1 l).2 := inv.large
      have segs : Seg ((l : Int) + 1) (r : Int) a1 as := inv.seg
      have hass : as.size = a1.size := segs.size
      have hpiv : qg as l = qg a1 l := segs.out l (by omega)
      show Seg (l : Int) (r : Int) a
          (qsortTwo nsq f (qsortTwo nsq f (swapA as l p) (l : Int) ((p : Int) - 1)) ((p : Int) + 1) (r : Int)) ∧
        SortedSeg nsq (l : Int) (r : Int)
          (qsortTwo nsq f (qsortTwo nsq f (swapA as l p) (l : Int) ((p : Int) - 1)) ((p : Int) + 1) (r : Int))
      generalize ha2 : swapA as l p = a2
      have hl_as : l < as.size := by omega
      have hp_as : p < as.size := by omega
      have seg2 : Seg (l : Int) (r : Int) a a2 := by
        rw [← ha2]
        exact seg1.trans ((segs.mono (by omega) (Int.le_refl _)).trans
          (Seg.swap _ _ as l p hl_as hp_as (by omega) (by omega) (by omega) (by omega)))
      have get2 : ∀ t, qg a2 t = if t = p then qg as l else if t = l then qg as p else qg as t := by
        intro t; rw [← ha2]; exact swapA_get as l p t hl_as hp_as
      generalize hv : nsq (qg a1 l).2 = v at small large
      have a2_piv : nsq (qg a2 p).2 = v := by
        rw [get2 p, if_pos rfl, hpiv]; exact hv
      have a2_small : ∀ t, l ≤ t → t < p → nsq (qg a2 t).2 < v := by
        intro t h1 h2
        rw [get2 t, if_neg (by omega)]
        by_cases e : t = l
        · rw [if_pos e]; exact small p (by omega) (Nat.le_refl p)
        · rw [if_neg e]; exact small t (by omega) (by omega)
      have a2_large : ∀ t, p < t → t ≤ r → v ≤ nsq (qg a2 t).2 := by
        intro t h1 h2
        rw [get2 t, if_neg (by omega), if_neg (by omega)]
        exact not_lt.mp (large t h1 (by omega))
      have ha2s : a2.size = a.size := seg2.size
      -- first recursive call
      obtain ⟨segL, sortL⟩ := ih a2 (l : Int) ((p : Int) - 1) (by omega) (by omega) (by omega)
      generalize qsortTwo nsq f a2 (l : Int) ((p : Int) - 1) = b1 at segL sortL
      have hb1s : b1.size = a2.size := segL.size
      -- second recursive call
      obtain ⟨segR, sortR⟩ := ih b1 ((p : Int) + 1) (r : Int) (by omega) (by omega) (by omega)
      generalize qsortTwo nsq f b1 ((p : Int) + 1) (r : Int) = b2 at segR sortR
      refine ⟨seg2.trans ((segL.mono (Int.le_refl _) (by omega)).trans
        (segR.mono (by omega) (Int.le_refl _))), ?_⟩
      -- the three zones of b2
      have b2_small : ∀ t, l ≤ t → t < p → nsq (qg b2 t).2 < v := by
        intro t h1 h2
        rw [segR.out t (by omega)]
        obtain ⟨s, hs1, hs2, e⟩ := segL.mem t (by omega) (by omega)
        rw [e]
        exact a2_small s (by omega) (by omega)
      have b2_piv : nsq (qg b2 p).2 = v := by
        rw [segR.out p (by omega), segL.out p (by omega)]; exact a2_piv
      have b2_large : ∀ t, p < t → t ≤ r → v ≤ nsq (qg b2 t).2 := by
        intro t h1 h2
        obtain ⟨s, hs1, hs2, e⟩ := segR.mem t (by omega) (by omega)
        rw [e, segL.out s (by omega)]
        exact a2_large s (by omega) (by omega)
      intro i j h1 h2 h3
      by_cases cj : j < p
      · -- both in the left part
        rw [segR.out i (by omega), segR.out j (by omega)]
        exact sortL i j h1 h2 (by omega)
      · by_cases ci : p < i
        · exact sortR i j (by omega) h2 h3
        · by_cases ei : i = p
          · by_cases ej : j = p
            · rw [ei, ej]
            · rw [ei, b2_piv]; exact b2_large j (by omega) (by omega)
          · have hi := b2_small i (by omega) (by omega)
            by_cases ej : j = p
            · rw [ej, b2_piv]; exact le_of_lt hi
            · exact le_trans (le_of_lt hi) (b2_large j (by omega) (by omega))

end PyamgV.C19
