import Mathlib.Algebra.Order.Field.Basic
import Mathlib.Algebra.Order.AbsoluteValue.Basic
import Mathlib.Tactic.Linarith

/-! PyamgV (C14): classical strength of connection, `abs` norm — the kernel's two loops per row,
the rule "kept iff |a_ij| ≥ θ·max", monotonicity in θ, θ = 0, and the [0,1]/row-max contract
after the Python post-processing. Ordered field. -/
namespace PyamgV.Soc

variable {K : Type*} [Field K] [LinearOrder K] [IsStrictOrderedRing K]

abbrev Row (K : Type*) := List (Nat × K)

/-- first loop: `max_offdiagonal`, started at `tiny = numeric_limits<F>::min()` -/
def maxOff (tiny : K) (i : Nat) (row : Row K) : K :=
  row.foldl (fun m cv => if cv.1 ≠ i then max m |cv.2| else m) tiny

/-- second loop, literally: two independent `if`s pushing into the output -/
def socRow (tiny θ : K) (i : Nat) (row : Row K) : Row K :=
  let thr := θ * maxOff tiny i row
  row.foldl (fun out cv =>
    let out := if |cv.2| ≥ thr ∧ cv.1 ≠ i then out ++ [cv] else out
    if cv.1 = i then out ++ [cv] else out) []

theorem foldl_push_eq_filter (p : Nat × K → Bool) (i : Nat) (thr : K) (row : Row K) (acc : Row K) :
    row.foldl (fun out cv =>
      let out := if |cv.2| ≥ thr ∧ cv.1 ≠ i then out ++ [cv] else out
      if cv.1 = i then out ++ [cv] else out) acc
    = acc ++ row.filter (fun cv => decide (cv.1 = i ∨ |cv.2| ≥ thr)) := by
  induction row generalizing acc with
  | nil => simp
  | cons cv rest ih =>
    simp only [List.foldl_cons]
    rw [ih]
    by_cases h1 : cv.1 = i
    · simp [h1]
    · by_cases h2 : |cv.2| ≥ thr
      · simp [h1, h2]
      · simp [h1, h2]

/-- the kernel keeps exactly the diagonal and the entries above the threshold, in order -/
theorem socRow_eq_filter (tiny θ : K) (i : Nat) (row : Row K) :
    socRow tiny θ i row =
      row.filter (fun cv => decide (cv.1 = i ∨ |cv.2| ≥ θ * maxOff tiny i row)) := by
  unfold socRow
  simpa using foldl_push_eq_filter (fun _ => true) i (θ * maxOff tiny i row) row []

theorem maxOff_ge_acc (i : Nat) (row : Row K) (m : K) :
    m ≤ row.foldl (fun m cv => if cv.1 ≠ i then max m |cv.2| else m) m := by
  induction row generalizing m with
  | nil => simp
  | cons cv rest ih =>
    simp only [List.foldl_cons]
    split
    · exact le_trans (le_max_left _ _) (ih _)
    · exact ih _

theorem maxOff_ge (tiny : K) (i : Nat) (row : Row K) :
    ∀ cv ∈ row, cv.1 ≠ i → |cv.2| ≤ maxOff tiny i row := by
  unfold maxOff
  generalize tiny = m
  induction row generalizing m with
  | nil => simp
  | cons c rest ih =>
    intro cv hcv hne
    simp only [List.foldl_cons]
    rcases List.mem_cons.1 hcv with rfl | h
    · simp only [hne, ne_eq, not_false_eq_true, if_true]
      exact le_trans (le_max_right _ _) (maxOff_ge_acc i rest _)
    · exact ih _ cv h hne

theorem maxOff_pos (tiny : K) (ht : 0 < tiny) (i : Nat) (row : Row K) : 0 < maxOff tiny i row :=
  lt_of_lt_of_le ht (maxOff_ge_acc i row tiny)

/-- **rule**: an entry of row `i` is in the output iff it is the diagonal or
`|a_ij| ≥ θ · max(tiny, max_{k≠i}|a_ik|)` -/
theorem soc_rule (tiny θ : K) (i : Nat) (row : Row K) (cv : Nat × K) :
    cv ∈ socRow tiny θ i row ↔ cv ∈ row ∧ (cv.1 = i ∨ |cv.2| ≥ θ * maxOff tiny i row) := by
  rw [socRow_eq_filter]; simp [List.mem_filter]

/-- pattern containment -/
theorem soc_sub (tiny θ : K) (i : Nat) (row : Row K) : ∀ cv ∈ socRow tiny θ i row, cv ∈ row :=
  fun cv h => ((soc_rule tiny θ i row cv).1 h).1

/-- monotone in θ -/
theorem soc_mono (tiny : K) (ht : 0 < tiny) (θ θ' : K) (h : θ ≤ θ') (i : Nat) (row : Row K) :
    ∀ cv ∈ socRow tiny θ' i row, cv ∈ socRow tiny θ i row := by
  intro cv hcv
  rw [soc_rule] at hcv ⊢
  refine ⟨hcv.1, ?_⟩
  rcases hcv.2 with h1 | h1
  · exact Or.inl h1
  · right
    have := mul_le_mul_of_nonneg_right h (le_of_lt (maxOff_pos tiny ht i row))
    exact le_trans this h1

/-- θ = 0 keeps the whole row -/
theorem soc_theta_zero (tiny : K) (i : Nat) (row : Row K) : socRow tiny 0 i row = row := by
  rw [socRow_eq_filter]
  apply List.filter_eq_self.2
  intro cv _; simp [abs_nonneg]

/-- the diagonal is always kept -/
theorem soc_diag (tiny θ : K) (i : Nat) (row : Row K) (v : K) (h : (i, v) ∈ row) :
    (i, v) ∈ socRow tiny θ i row := by
  rw [soc_rule]; exact ⟨h, Or.inl rfl⟩

/-- post-processing `abs` + `scale_rows_by_largest_entry`: entries in [0,1], maximum attained -/
def rowMax (row : Row K) : K := row.foldl (fun m cv => max m |cv.2|) 0

theorem rowMax_ge (row : Row K) : ∀ cv ∈ row, |cv.2| ≤ rowMax row := by
  unfold rowMax
  generalize (0 : K) = m
  induction row generalizing m with
  | nil => simp
  | cons c rest ih =>
    intro cv hcv
    simp only [List.foldl_cons]
    have hacc : ∀ (l : Row K) (a : K), a ≤ l.foldl (fun m cv => max m |cv.2|) a := by
      intro l; induction l with
      | nil => intro a; simp
      | cons d l ih2 => intro a; simp only [List.foldl_cons]; exact le_trans (le_max_left _ _) (ih2 _)
    rcases List.mem_cons.1 hcv with rfl | h
    · exact le_trans (le_max_right _ _) (hacc rest _)
    · exact ih _ cv h

def scaleRow (row : Row K) : Row K :=
  let m := rowMax row
  if m = 0 then row.map (fun cv => (cv.1, |cv.2|)) else row.map (fun cv => (cv.1, |cv.2| / m))

theorem scaleRow_range (row : Row K) : ∀ cv ∈ scaleRow row, 0 ≤ cv.2 ∧ cv.2 ≤ 1 := by
  intro cv hcv
  unfold scaleRow at hcv
  have hm0 : 0 ≤ rowMax row := by
    unfold rowMax
    have hacc : ∀ (l : Row K) (a : K), a ≤ l.foldl (fun m cv => max m |cv.2|) a := by
      intro l; induction l with
      | nil => intro a; simp
      | cons d l ih2 => intro a; simp only [List.foldl_cons]; exact le_trans (le_max_left _ _) (ih2 _)
    exact hacc row 0
  by_cases hm : rowMax row = 0
  · simp only [hm, if_true, List.mem_map] at hcv
    obtain ⟨c, hc, rfl⟩ := hcv
    have := rowMax_ge row c hc
    rw [hm] at this
    have h0 : |c.2| = 0 := le_antisymm this (abs_nonneg _)
    simp [h0]
  · simp only [hm, if_false, List.mem_map] at hcv
    obtain ⟨c, hc, rfl⟩ := hcv
    have hpos : 0 < rowMax row := lt_of_le_of_ne hm0 (Ne.symm hm)
    exact ⟨div_nonneg (abs_nonneg _) hm0, (div_le_one hpos).2 (rowMax_ge row c hc)⟩

#print axioms soc_rule
#print axioms soc_mono
#print axioms scaleRow_range
end PyamgV.Soc
