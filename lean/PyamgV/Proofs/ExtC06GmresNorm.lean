import PyamgV.Proofs.ExtC07Giv

/-! PyamgV (C06, extension E16): **the Givens estimate is the residual norm.**

`Gmres.resnorm_of_givens` -- Arnoldi data (orthonormal `v_0 … v_k`, `B z_j = Σ_l H_{lj} v_l`, `c − B x₀ = β v_0`), a
Givens sweep of unit rotations zeroing the subdiagonal, and a solution `y` of the rotated triangular system: the
squared norm of the residual of `x₀ + Σ_j y_j z_j` is the square of entry `k` of the rotated right-hand side
`Q_k (β e₀)` -- the number `g[inner+1]` whose absolute value `_gmres_mgs.py`, `_gmres_householder.py`, `_fgmres.py`
append to `residuals`.

`givL_resnorm` -- the same from the list-level invariant `GivL` of the executable Givens bookkeeping
(`givensUpdate`, `backSub`), `sqrt_eq_abs` turns it into `sqrt ‖r‖² = |g_k|` for an exact square root. -/
namespace PyamgV.Gmres
open PyamgV Finset

variable {K : Type*} [Field K] [LinearOrder K] [IsStrictOrderedRing K]
variable {V : Type*} [AddCommGroup V] [Module K V]
variable {e : EForm K V} {B : V →ₗ[K] V} {k : Nat}

/-- squared norm of a combination of orthonormal vectors -/
theorem en_expand (Ar : Arnoldi e B k) (c : Fin (k+1) → K) :
    e.en (∑ l, c l • Ar.v l) = ∑ l, c l * c l := by
  unfold EForm.en
  simp only [map_sum, LinearMap.sum_apply, map_smul, LinearMap.smul_apply, smul_eq_mul, Ar.orth]
  refine Finset.sum_congr rfl (fun l _ => ?_)
  simp

theorem resnorm_of_givens (Ar : Arnoldi e B k) (β : K) (c x0 : V)
    (hr0 : c - B x0 = β • Ar.v 0)
    (cs sn : Nat → K) (y : Nat → K)
    (hhess : ∀ j l, j + 1 < l → hfun Ar j l = 0)
    (hunit : ∀ j, j < k → cs j * cs j + sn j * sn j = 1)
    (hzero : ∀ j, j < k → Givens.rot j (cs j) (sn j) (Givens.Q cs sn j (hfun Ar j)) (j+1) = 0)
    (hsolve : ∀ l, l < k → ∑ i ∈ range k, y i * Givens.Q cs sn k (hfun Ar i) l =
      Givens.Q cs sn k (fun r => if r = 0 then β else 0) l) :
    e.en (c - B (x0 + ∑ j : Fin k, y j • Ar.z j)) =
      Givens.Q cs sn k (fun r => if r = 0 then β else 0) k * Givens.Q cs sn k (fun r => if r = 0 then β else 0) k := by
  let S : Givens.Sweep K k := ⟨hfun Ar, cs, sn, hhess, hunit, hzero⟩
  -- the residual in the basis `v`
  have hres : c - B (x0 + ∑ j : Fin k, y j • Ar.z j) = ∑ l, rho Ar β (fun j : Fin k => y j) l • Ar.v l := by
    rw [← resid_expand Ar β (fun j : Fin k => y j) (c - B x0) hr0, map_add]; abel
  rw [hres, en_expand]
  -- as a sum over the first `k+1` naturals
  set ρ : Nat → K := fun l => (if l = 0 then β else 0) - ∑ i ∈ range k, y i * hfun Ar i l with hρ
  have hrho : ∀ l : Fin (k+1), rho Ar β (fun j : Fin k => y j) l = ρ l := by
    intro l
    unfold rho
    simp only [hρ]
    have h2 : (∑ i ∈ range k, y i * hfun Ar i l) = ∑ i : Fin k, Ar.H l i * y i := by
      rw [← Fin.sum_univ_eq_sum_range (fun i => y i * hfun Ar i l) k]
      refine Finset.sum_congr rfl (fun i _ => ?_)
      unfold hfun; rw [dif_pos l.2, dif_pos i.2]; ring
    rw [h2]
    by_cases hl0 : l = 0
    · rw [if_pos hl0, if_pos (by rw [hl0]; rfl)]
    · have hl0' : ¬ ((l : Nat) = 0) := fun h => hl0 (Fin.ext (by simpa using h))
      rw [if_neg hl0, if_neg hl0']
  have hsum : ∑ l : Fin (k+1), rho Ar β (fun j : Fin k => y j) l * rho Ar β (fun j : Fin k => y j) l =
      Givens.dotN (k+1) ρ ρ := by
    unfold Givens.dotN
    rw [← Fin.sum_univ_eq_sum_range (fun l => ρ l * ρ l) (k+1)]
    exact Finset.sum_congr rfl (fun l _ => by rw [hrho])
  rw [hsum, ← Givens.Q_dot cs sn (k+1) k (by omega) hunit]
  have hlin : Givens.Q cs sn k ρ =
      fun l => Givens.Q cs sn k (fun r => if r = 0 then β else 0) l - ∑ i ∈ range k, y i * Givens.Q cs sn k (hfun Ar i) l := by
    have h1 : ρ = (fun r => if r = 0 then β else 0) + (-1 : K) • (fun l => ∑ i ∈ range k, y i * hfun Ar i l) := by
      funext l; simp [hρ, sub_eq_add_neg]
    rw [h1, Givens.Q_add, Givens.Q_smul, Givens.Q_sum]
    funext l; simp [sub_eq_add_neg]
  rw [hlin]
  unfold Givens.dotN
  rw [Finset.sum_range_succ, Finset.sum_eq_zero, zero_add]
  · have hk : ∑ i ∈ range k, y i * Givens.Q cs sn k (hfun Ar i) k = 0 := by
      apply Finset.sum_eq_zero
      intro i hi
      have := Givens.col_upper S i (Finset.mem_range.mp hi) k (Finset.mem_range.mp hi)
      simp only [S] at this
      rw [this, mul_zero]
    simp only [hk, sub_zero]
  · intro l hl
    simp only [hsolve l (Finset.mem_range.mp hl), sub_self, mul_zero]

#print axioms resnorm_of_givens
end PyamgV.Gmres

namespace PyamgV.C07
open Finset

variable {K : Type} [Field K] [LinearOrder K] [IsStrictOrderedRing K]
variable {V : Type} [AddCommGroup V] [Module K V]

/-- **from the list-level Givens data to the residual norm**: same hypotheses as `givL_optimal` -/
theorem givL_resnorm (e : EForm K V) (B : V →ₗ[K] V) (n k : Nat) (hkn : k < n) (β : K)
    (cols rcols : List (List K)) (cs sn g : List K) (hG : GivL n k β cols rcols cs sn g)
    (v : Nat → V) (zs : List V)
    (horth : ∀ i j, i ≤ k → j ≤ k → e.a (v i) (v j) = if i = j then 1 else 0)
    (hrel : ∀ j, j < k → B (zs.getD j 0) = ∑ l ∈ range (k + 1), F (cols.getD j []) l • v l)
    (c x0 : V) (hr0 : c - B x0 = β • v 0)
    (hnbr : ∀ i, i < k → Rent rcols i i ≠ 0) :
    e.en (c - B (x0 + ∑ j ∈ range k, F (backSub rcols g k []) j • zs.getD j 0)) = F g k * F g k := by
  let Ar : Gmres.Arnoldi e B k :=
    { v := fun i => v i
      z := fun j => zs.getD j 0
      H := fun l j => F (cols.getD j []) l
      orth := by
        intro i j
        rw [horth i j (by have := i.2; omega) (by have := j.2; omega)]
        by_cases hij : i = j
        · rw [if_pos hij, if_pos (by rw [hij])]
        · rw [if_neg hij, if_neg (fun h => hij (Fin.ext h))]
      rel := by
        intro j
        rw [hrel j j.2, ← Fin.sum_univ_eq_sum_range (fun l => F (cols.getD j []) l • v l) (k+1)] }
  have hfun : ∀ j, Gmres.hfun Ar j = F (cols.getD j []) := by
    intro j
    funext l
    unfold Gmres.hfun
    by_cases hl : l < k + 1
    · rw [dif_pos hl]
      by_cases hj : j < k
      · rw [dif_pos hj]
      · rw [dif_neg hj]
        have : cols.getD j [] = [] := by
          rw [List.getD_eq_getElem?_getD, List.getElem?_eq_none (by rw [hG.lcols]; omega)]; rfl
        rw [this]; simp [F]
    · rw [dif_neg hl]
      by_cases hj : j < k
      · have := hG.collen j hj
        simp only [F]
        rw [List.getD_eq_getElem?_getD, List.getElem?_eq_none (by omega)]; rfl
      · have : cols.getD j [] = [] := by
          rw [List.getD_eq_getElem?_getD, List.getElem?_eq_none (by rw [hG.lcols]; omega)]; rfl
        rw [this]; simp [F]
  have hhess : ∀ j l, j + 1 < l → Gmres.hfun Ar j l = 0 := by
    intro j l hjl
    rw [hfun]
    by_cases hj : j < k
    · have := hG.collen j hj
      simp only [F]
      rw [List.getD_eq_getElem?_getD, List.getElem?_eq_none (by omega)]; rfl
    · have : cols.getD j [] = [] := by
        rw [List.getD_eq_getElem?_getD, List.getElem?_eq_none (by rw [hG.lcols]; omega)]; rfl
      rw [this]; simp [F]
  have hzero : ∀ j, j < k → Givens.rot j (F cs j) (F sn j)
      (Givens.Q (F cs) (F sn) j (Gmres.hfun Ar j)) (j+1) = 0 := by
    intro j hj; rw [hfun]; exact hG.zero j hj (by omega)
  set y := backSub rcols g k [] with hy
  let S : Givens.Sweep K k := ⟨Gmres.hfun Ar, F cs, F sn, hhess, hG.unit, hzero⟩
  have hsolve : ∀ l, l < k → ∑ i ∈ range k, F y i * Givens.Q (F cs) (F sn) k (Gmres.hfun Ar i) l =
      Givens.Q (F cs) (F sn) k (fun r => if r = 0 then β else 0) l := by
    intro l hl
    rw [← hG.g]
    have hrows := backSub_rows rcols g (by rw [hG.lrcols]; exact hnbr) k [] (by rw [hG.lrcols])
      (by rw [hG.lrcols]; simp) l hl
    rw [hrows, hG.lrcols, ← hy]
    rw [← Finset.sum_range_add_sum_Ico _ (le_of_lt hl), Finset.sum_Ico_eq_sum_range]
    have hlow : ∑ i ∈ range l, F y i * Givens.Q (F cs) (F sn) k (Gmres.hfun Ar i) l = 0 := by
      apply Finset.sum_eq_zero
      intro i hi
      have hil : i < l := Finset.mem_range.mp hi
      have := Givens.col_upper S i (by omega) l hil
      simp only [S] at this
      rw [this, mul_zero]
    rw [hlow, zero_add]
    refine Finset.sum_congr rfl (fun d hd' => ?_)
    have hld : l + d < k := by have := Finset.mem_range.mp hd'; omega
    rw [Q_low (F cs) (F sn) (l + d + 1) _ l (by omega) k (by omega)]
    rw [hfun]
    rw [← hG.rc (l + d) hld]
    simp only [Rent, F]
    ring
  have hsum : ∑ j ∈ range k, F y j • zs.getD j 0 = ∑ j : Fin k, F y j • Ar.z j := by
    rw [← Fin.sum_univ_eq_sum_range (fun j => F y j • zs.getD j 0) k]
  rw [hsum, hG.g]
  exact Gmres.resnorm_of_givens Ar β c x0 hr0 (F cs) (F sn) (F y) hhess hG.unit hzero hsolve

/-- an exact square root of a square is the absolute value -/
theorem sqrt_eq_abs (sqrt : K → K) (hsq : ∀ a, 0 ≤ a → sqrt a * sqrt a = a) (hsq0 : ∀ a, 0 ≤ sqrt a)
    (a g : K) (h : a = g * g) : sqrt a = |g| := by
  have h1 := hsq a (by rw [h]; exact mul_self_nonneg g)
  have h2 : sqrt a * sqrt a = |g| * |g| := by rw [h1, h, abs_mul_abs_self]
  exact (mul_self_inj_of_nonneg (hsq0 a) (abs_nonneg g)).mp h2

#print axioms givL_resnorm
end PyamgV.C07
