import PyamgV.Proofs.ExtGraphBridge
import PyamgV.Proofs.C13Wrap
import PyamgV.Proofs.C13Rat

/-! PyamgV (C13 extension E10): the array form `pmisSplitK` of `PMIS`/`PMISc` — the validated model
of `maximal_independent_set_parallel` on the CSR arrays of `G = S + Sᵀ`, with the kernel's own
`while (active_nodes)` stopping rule (and the model's fuel `n + 2`) — *equals* the proof-side form
`pmisSplit` (`n` sweeps over the adjacency function) on every input, for every strictly totally
ordered weight type.  Consequently every theorem about `pmisSplit` (`pmisc_spec`, `pmis_spec`,
`pmis_has_coarse`) is a theorem about the function the driver compares with the real code.

Ingredients: `misParPass_fst` (one array sweep = one proof-side sweep), the meaning of the kernel's
`active_nodes` flag (`cfold_flag`: a sweep that leaves the flag `false` leaves no active node),
idle sweeps are the identity (`parPass_idle`), termination after `n` sweeps (`parIter_terminates`).
Core Lean + the listed PyamgV modules only. -/
namespace PyamgV.C13
open PyamgV PyamgV.Ext

variable {W : Type} [LT W] [DecidableRel (α := W) (· < ·)] [DecidableEq W]

/-! ### the sweep only looks at the rows `0 … n-1` of the graph -/

theorem foldl_congr_mem {α β : Type} (f g : α → β → α) :
    ∀ (l : List β) (a : α), (∀ a, ∀ b ∈ l, f a b = g a b) → l.foldl f a = l.foldl g a := by
  intro l
  induction l with
  | nil => intro a _; rfl
  | cons b bs ih =>
    intro a h
    rw [List.foldl_cons, List.foldl_cons, h a b (by simp)]
    exact ih _ (fun a c hc => h a c (by simp [hc]))

theorem parPass_congr (G1 G2 : Graph) (hn : G1.n = G2.n) (hadj : ∀ i, i < G1.n → G1.adj i = G2.adj i)
    (act C F : Int) (y : Nat → W) (x : Array Int) :
    parPass G1 act C F y x = parPass G2 act C F y x := by
  unfold parPass
  rw [← hn]
  apply foldl_congr_mem
  intro a i hi
  unfold parStep
  rw [hadj i (List.mem_range.1 hi)]

theorem parIter_congr (G1 G2 : Graph) (hn : G1.n = G2.n) (hadj : ∀ i, i < G1.n → G1.adj i = G2.adj i)
    (act C F : Int) (y : Nat → W) :
    ∀ (k : Nat) (x : Array Int), parIter G1 act C F y k x = parIter G2 act C F y k x := by
  intro k
  induction k with
  | zero => intro x; rfl
  | succ k ih =>
    intro x
    show parIter G1 act C F y k (parPass G1 act C F y x) = parIter G2 act C F y k (parPass G2 act C F y x)
    rw [parPass_congr G1 G2 hn hadj, ih]

theorem GraphOK_congr (G1 G2 : Graph) (hn : G1.n = G2.n) (hadj : ∀ i, i < G1.n → G1.adj i = G2.adj i)
    (h : GraphOK G2) : GraphOK G1 := by
  refine ⟨?_, ?_⟩
  · intro i hi j hj
    rw [hadj i hi] at hj
    rw [hn]; exact h.bound i (by omega) j hj
  · intro i j hi hj
    rw [hadj i hi, hadj j hj]
    exact h.symm i j (by omega) (by omega)

/-! ### idle sweeps -/

/-- a sweep over an array without active node changes nothing -/
theorem parPass_idle (G : Graph) (act C F : Int) (y : Nat → W) (x : Array Int)
    (h : ∀ m, m < G.n → rd x m ≠ act) : parPass G act C F y x = x := by
  unfold parPass
  refine foldl_range_inv (fun _ s => s = x) _ G.n x rfl ?_
  intro k s hk hs
  subst hs
  unfold parStep
  rw [if_pos (h k hk)]

theorem parIter_idle (G : Graph) (act C F : Int) (y : Nat → W) (x : Array Int)
    (h : ∀ m, m < G.n → rd x m ≠ act) : ∀ k, parIter G act C F y k x = x := by
  intro k
  induction k with
  | zero => rfl
  | succ k ih =>
    show parIter G act C F y k (parPass G act C F y x) = x
    rw [parPass_idle G act C F y x h, ih]

theorem parIter_add (G : Graph) (act C F : Int) (y : Nat → W) :
    ∀ (a b : Nat) (x : Array Int),
      parIter G act C F y (a + b) x = parIter G act C F y b (parIter G act C F y a x) := by
  intro a
  induction a with
  | zero => intro b x; rw [Nat.zero_add]; rfl
  | succ a ih =>
    intro b x
    rw [show a + 1 + b = (a + b) + 1 by omega]
    show parIter G act C F y (a + b) (parPass G act C F y x) = _
    rw [ih]; rfl

theorem parPass_size (G : Graph) (hG : GraphOK G) (act C F : Int) (hCA : C ≠ act) (hFA : F ≠ act)
    (y : Nat → W) (x : Array Int) (hx : x.size = G.n) : (parPass G act C F y x).size = G.n :=
  (steps_mono G hG act C F hCA hFA y (List.range G.n) (fun _ hi => List.mem_range.1 hi) x hx).1

theorem parIter_size (G : Graph) (hG : GraphOK G) (act C F : Int) (hCA : C ≠ act) (hFA : F ≠ act)
    (y : Nat → W) : ∀ (k : Nat) (x : Array Int), x.size = G.n → (parIter G act C F y k x).size = G.n := by
  intro k
  induction k with
  | zero => intro x hx; exact hx
  | succ k ih => intro x hx; exact ih _ (parPass_size G hG act C F hCA hFA y x hx)

/-! ### the kernel's `active_nodes` flag -/
variable [Inhabited W]

/-- **meaning of the flag**: if the sweep ends with `active_nodes == false`, every node that was
active when it was visited became a C-point, so no active node is left -/
theorem cfold_flag (Gc : G.Graph) (hG : GraphOK (pg Gc)) (act C F : Int) (hCA : C ≠ act)
    (hFA : F ≠ act) (y : Array W) (x : Array Int) (hsz : x.size = Gc.n)
    (hflag : (G.misParPass Gc act C F y x).2.2 = false) :
    ∀ m, m < Gc.n → rd (G.misParPass Gc act C F y x).1 m ≠ act := by
  rw [misParPass_eq] at hflag ⊢
  have key := foldl_range_inv
    (fun (k : Nat) (acc : Array Int × Nat × Bool) =>
      acc.1.size = Gc.n ∧ (acc.2.2 = false → ∀ m, m < k → rd acc.1 m ≠ act))
    (cstep Gc act C F y) Gc.n (x, 0, false) ⟨hsz, fun _ m hm => by omega⟩
    (by
      intro k acc hk ⟨h1, h2⟩
      have hb : ∀ j ∈ (pg Gc).adj k, j < acc.1.size := by
        intro j hj; rw [h1]; exact hG.bound k hk j hj
      have hsize : (cstep Gc act C F y acc k).1.size = Gc.n := by
        rw [cstep_fst, parStep_size (pg Gc) act C F hFA (look y) acc.1 k hb]; exact h1
      have hmono : ∀ m, rd acc.1 m ≠ act → rd (cstep Gc act C F y acc k).1 m ≠ act := by
        intro m hm
        rw [cstep_fst]
        exact parStep_mono (pg Gc) act C F hCA hFA (look y) acc.1 k m hb hm
      refine ⟨hsize, ?_⟩
      intro hf m hm
      -- the flag was false before the step as well, and node `k` itself is decided
      have hks : k < acc.1.size := by rw [h1]; exact hk
      have hstep : acc.2.2 = false ∧ rd (cstep Gc act C F y acc k).1 k ≠ act := by
        revert hf
        unfold cstep
        by_cases h : rd acc.1 k ≠ act
        · rw [if_pos h]; intro hf; exact ⟨hf, h⟩
        · rw [if_neg h]
          cases hs : scanP act C acc.1 (look y) k (Gc.row k) with
          | some b => cases b <;> (intro hf; exact absurd hf (by simp))
          | none =>
            intro hf
            refine ⟨hf, ?_⟩
            obtain ⟨hs', _⟩ := misInner_spec act F hFA (Gc.row k) acc.1 hb
            show rd (wr (misInner act F acc.1 (Gc.row k)) k C) k ≠ act
            rw [rd_wr, hs']
            simp [hks, hCA]
      by_cases hmk : m = k
      · subst hmk; exact hstep.2
      · exact hmono m (h2 hstep.1 m (by omega)))
  exact key.2 hflag

/-! ### the `while (active_nodes)` loop -/

/-- the loop of the array model performs `k ≤ fuel` proof-side sweeps and either used up its fuel or
stopped on an array without active node -/
theorem go_spec (Gc : G.Graph) (hG : GraphOK (pg Gc)) (act C F : Int) (hCA : C ≠ act)
    (hFA : F ≠ act) (y : Array W) :
    ∀ (fuel iters : Nat) (x : Array Int) (cnt : Nat), x.size = Gc.n →
      ∃ k, k ≤ fuel ∧
        (G.misParallel.go Gc act C F y none fuel iters x cnt).1 = parIter (pg Gc) act C F (look y) k x ∧
        (k = fuel ∨ ∀ m, m < Gc.n → rd (parIter (pg Gc) act C F (look y) k x) m ≠ act) := by
  intro fuel
  induction fuel with
  | zero => intro iters x cnt _; exact ⟨0, Nat.le_refl _, rfl, Or.inl rfl⟩
  | succ fuel ih =>
    intro iters x cnt hx
    have hfst := misParPass_fst Gc act C F y x
    have hflag := cfold_flag Gc hG act C F hCA hFA y x hx
    have hsz' : (parPass (pg Gc) act C F (look y) x).size = Gc.n :=
      parPass_size (pg Gc) hG act C F hCA hFA (look y) x hx
    simp only [G.misParallel.go]
    generalize G.misParPass Gc act C F y x = r at hfst hflag
    obtain ⟨x', c, a⟩ := r
    simp only at hfst hflag
    subst hfst
    cases a with
    | true =>
      obtain ⟨k, hk, he, hd⟩ := ih (iters + 1) _ (cnt + c) hsz'
      refine ⟨k + 1, by omega, ?_, ?_⟩
      · have hk1 : parIter (pg Gc) act C F (look y) (k + 1) x
            = parIter (pg Gc) act C F (look y) k (parPass (pg Gc) act C F (look y) x) := rfl
        rw [hk1]; simpa using he
      · rcases hd with hd | hd
        · exact Or.inl (by omega)
        · exact Or.inr hd
    | false =>
      refine ⟨1, by omega, by simp [parIter], Or.inr ?_⟩
      exact hflag rfl

/-- **the array MIS model with the kernel's stopping rule = `n` proof-side sweeps** (any graph with
symmetric in-range adjacency, any strictly totally ordered weights, any start vector of size `n`) -/
theorem misParallel_eq_parIter (hW : WOrd W) (Gc : G.Graph) (hG : GraphOK (pg Gc)) (act C F : Int)
    (hCA : C ≠ act) (hFA : F ≠ act) (y : Array W) (x : Array Int) (hx : x.size = Gc.n) :
    (G.misParallel Gc act C F y none x).1 = parIter (pg Gc) act C F (look y) Gc.n x := by
  have hle : nAct (pg Gc).n act x ≤ Gc.n := by
    unfold nAct
    have := List.countP_le_length (p := fun v => decide (rd x v = act)) (l := List.range (pg Gc).n)
    simpa [pg] using this
  have hterm : ∀ m, m < Gc.n → rd (parIter (pg Gc) act C F (look y) Gc.n x) m ≠ act :=
    parIter_terminates hW (pg Gc) hG act C F hCA hFA (look y) Gc.n x hx hle
  -- sweeps beyond the `n`-th are idle
  have hbeyond : ∀ j, parIter (pg Gc) act C F (look y) (Gc.n + j) x
      = parIter (pg Gc) act C F (look y) Gc.n x := by
    intro j
    rw [parIter_add]
    exact parIter_idle (pg Gc) act C F (look y) _ hterm j
  obtain ⟨k, hk, he, hd⟩ := go_spec Gc hG act C F hCA hFA y (Gc.n + 2) 0 x 0 hx
  unfold G.misParallel
  rw [he]
  rcases hd with hd | hd
  · rw [hd]; exact hbeyond 2
  · by_cases hkn : k ≤ Gc.n
    · have : Gc.n = k + (Gc.n - k) := by omega
      rw [this, parIter_add]
      exact (parIter_idle (pg Gc) act C F (look y) _ hd (Gc.n - k)).symm
    · have : k = Gc.n + (k - Gc.n) := by omega
      rw [this]; exact hbeyond _

/-! ### the wrapper -/

theorem toG_row (R : RS.Csr) (i : Nat) : (toG R).row i = R.row i := rfl

theorem symGraph_adj (S : Pat) (i : Nat) (hi : i < S.n) :
    (symGraph S).adj i = symRow S.n (rowFn (offRows S)) i := by
  show rowFn (symRows S.n (offRows S)) i = _
  unfold symRows
  exact rowFn_map _ _ _ hi

/-- the CSR arrays of `G = S + Sᵀ` handed to the kernel have the rows of the proof-side graph -/
theorem prepG_adj (S : Pat) (i : Nat) (hi : i < S.n) :
    (pg (toG (prepG S))).adj i = (symGraph S).adj i := by
  show (toG (prepG S)).row i = _
  rw [toG_row, prepG_row S i hi, symGraph_adj S i hi]

theorem prepG_OK (S : Pat) : GraphOK (pg (toG (prepG S))) :=
  GraphOK_congr (pg (toG (prepG S))) (symGraph S) rfl (fun i hi => prepG_adj S i hi) (symGraph_OK S)

/-- **`pmisSplitK = pmisSplit`**: the array form of `PMIS` / `PMISc` (kernel model on the CSR arrays of
`S + Sᵀ`, `while (active_nodes)` stopping rule) equals the proof-side form, for every pattern `S`
(no well-formedness hypothesis is needed: the preprocessing model builds well-formed arrays), every
weight array (read with the kernel model's out-of-range default) and both settings of `dirichlet`. -/
theorem pmisSplitK_eq (hW : WOrd W) (S : Pat) (w : Array W) (dirichlet : Bool) :
    pmisSplitK S w dirichlet = pmisSplit S (look w) dirichlet := by
  have hcore : (G.misParallel (toG (prepG S)) (-1) 1 0 w none (Array.replicate S.n (-1))).1
      = parIter (symGraph S) (-1) 1 0 (look w) S.n (Array.replicate S.n (-1)) := by
    rw [misParallel_eq_parIter hW (toG (prepG S)) (prepG_OK S) (-1) 1 0 (by decide) (by decide) w _
      (by simp [toG])]
    exact parIter_congr (pg (toG (prepG S))) (symGraph S) rfl (fun i hi => prepG_adj S i hi) (-1) 1 0 (look w) S.n _
  unfold pmisSplitK pmisSplit
  simp only [hcore]

/-- the instance the driver runs (`c13_pmis`): rational weights, proof-side weights `fun i => wa.getD i 0` -/
theorem pmisSplitK_eq_rat (S : Pat) (wa : Array Rat) (dirichlet : Bool) :
    pmisSplitK S wa dirichlet = pmisSplit S (fun i => wa.getD i 0) dirichlet :=
  pmisSplitK_eq ratOrd S wa dirichlet

/-! ### the specification, stated about the array form -/

/-- `PMISc`, array form: one 0/1 flag per node, independent and dominating in `S ∪ Sᵀ` -/
theorem pmiscK_spec (hW : WOrd W) (S : Pat) (w : Array W) :
    (pmisSplitK S w false).size = S.n ∧
    (∀ i, i < S.n → rd (pmisSplitK S w false) i = 0 ∨ rd (pmisSplitK S w false) i = 1) ∧
    (∀ i j, i < S.n → j < S.n → Conn S i j →
        rd (pmisSplitK S w false) i = 1 → rd (pmisSplitK S w false) j ≠ 1) ∧
    (∀ i, i < S.n → rd (pmisSplitK S w false) i = 0 →
        ∃ j, Conn S i j ∧ rd (pmisSplitK S w false) j = 1) := by
  rw [pmisSplitK_eq hW]; exact pmisc_spec hW S (look w)

/-- `PMIS`, array form: one 0/1 flag per node, independent, every F-point with a strong connection
has a strongly connected C-point -/
theorem pmisK_spec (hW : WOrd W) (S : Pat) (w : Array W) :
    (pmisSplitK S w true).size = S.n ∧
    (∀ i, i < S.n → rd (pmisSplitK S w true) i = 0 ∨ rd (pmisSplitK S w true) i = 1) ∧
    (∀ i j, i < S.n → j < S.n → Conn S i j →
        rd (pmisSplitK S w true) i = 1 → rd (pmisSplitK S w true) j ≠ 1) ∧
    (∀ i j, i < S.n → j < S.n → Conn S i j → rd (pmisSplitK S w true) i = 0 →
        ∃ c, Conn S i c ∧ rd (pmisSplitK S w true) c = 1) := by
  rw [pmisSplitK_eq hW]; exact pmis_spec hW S (look w)

/-- `PMIS`/`PMISc`, array form: a C-point whenever some node strongly depends on another -/
theorem pmisK_has_coarse (hW : WOrd W) (S : Pat) (w : Array W) (dirichlet : Bool) (i j : Nat)
    (hi : i < S.n) (hj : j ∈ offRow S i) : ∃ c, rd (pmisSplitK S w dirichlet) c = 1 := by
  rw [pmisSplitK_eq hW]; exact pmis_has_coarse hW S (look w) dirichlet i j hi hj

/-! ### Ruge–Stüben: the second pass only adds C-points -/

/-- `rs_cf_splitting_pass2` never demotes a C-point of its input (a tentative C-point that is taken
back was an F-point of the input) -/
theorem pass2_keep (S : RS.Csr) (hS : RS.SOK S S.n) (hns : ∀ i, i < S.n → i ∉ S.row i)
    (sp0 : Array Int) (h0 : RS.FC S.n sp0) :
    ∀ k, RS.rdI sp0 k = RS.C → RS.rdI (RS.pass2 S sp0) k = RS.C := by
  unfold RS.pass2
  have key := PyamgV.foldl_range_inv
    (fun t sp => RS.Q S S.n t sp ∧ ∀ k, RS.rdI sp0 k = RS.C → RS.rdI sp k = RS.C)
    (RS.p2Step S) S.n sp0 ⟨⟨h0, fun r hr => by omega⟩, fun _ hk => hk⟩
    (by
      intro t sp ht ⟨hQ, hkeep⟩
      refine ⟨RS.p2Step_inv S S.n hS hns t ht sp hQ, ?_⟩
      intro k hk
      unfold RS.p2Step
      by_cases hF : RS.rdI sp t = RS.F
      · rw [if_pos hF]
        have hJ0 : RS.J S S.n t sp [] (sp, none) :=
          ⟨hQ.fc, fun _ hk => hk, rfl, fun c hc => absurd hc (by simp),
           fun _ j hj => absurd hj (by simp)⟩
        have hJ := RS.p2Inner_inv S S.n t (hS.bound t ht) (hns t ht) sp hQ.fc (S.row t) []
          (sp, none) (fun _ hj => hj) hJ0
        exact hJ.keep k (hkeep k hk)
      · rw [if_neg hF]; exact hkeep k hk)
  exact key.2

/-- **`RS(S, second_pass=True)` ⊇ `RS(S)`**, any pattern: every C-point of the first pass is a C-point
of the two-pass splitting -/
theorem rs_two_pass_keeps_coarse (S : Pat) (k : Nat) (h : RS.rdI (rsSplit S false) k = 1) :
    RS.rdI (rsSplit S true) k = 1 := by
  simp only [rsSplit, if_true] at h ⊢
  exact pass2_keep (prepS S) (prepS_SOK S) (prepS_noself S) _ (rs_first_FC S) k h

end PyamgV.C13
