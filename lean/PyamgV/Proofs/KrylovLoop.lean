/-! PyamgV (C06): the control skeleton shared by the Krylov solvers of `pyamg/krylov`:
initial-criterion exit, per-iteration {step | breakdown}, append, callback, criterion test,
maxiter test. Core only. -/
namespace PyamgV.KL

structure Out (σ : Type) where
  s : σ
  status : Int
  nres : Nat        -- entries in the residual history
  ncb : Nat         -- callback invocations
deriving Repr

variable {σ : Type}

def loop (body : σ → Option σ) (conv : σ → Bool) (maxiter : Nat) :
    Nat → Nat → σ → Nat → Nat → Option (Out σ)
  | 0, _, _, _, _ => none
  | fuel+1, it, s, nres, ncb =>
    match body s with
    | none => some ⟨s, -1, nres, ncb⟩            -- breakdown: returned before anything is recorded
    | some s' =>
      let it' := it + 1
      if conv s' then some ⟨s', 0, nres + 1, ncb + 1⟩
      else if it' = maxiter then some ⟨s', it', nres + 1, ncb + 1⟩
      else loop body conv maxiter fuel it' s' (nres + 1) (ncb + 1)

def solve (body : σ → Option σ) (conv : σ → Bool) (maxiter : Nat) (s0 : σ) : Option (Out σ) :=
  if conv s0 then some ⟨s0, 0, 1, 0⟩ else loop body conv maxiter maxiter 0 s0 1 0

theorem loop_spec (body : σ → Option σ) (conv : σ → Bool) (maxiter : Nat) :
    ∀ (fuel it : Nat) (s : σ) (nres ncb : Nat), fuel ≥ 1 → it + fuel = maxiter →
      nres = it + 1 → ncb = it →
      ∃ o, loop body conv maxiter fuel it s nres ncb = some o ∧
        (o.status = 0 ∨ o.status = -1 ∨ (o.status = maxiter ∧ o.ncb = maxiter)) ∧
        (o.status = 0 → conv o.s = true) ∧
        (0 < o.status → conv o.s = false) ∧
        o.nres = o.ncb + 1 ∧ o.ncb ≤ maxiter ∧ it ≤ o.ncb := by
  intro fuel
  induction fuel with
  | zero => intro it s nres ncb h; omega
  | succ fuel ih =>
    intro it s nres ncb _ hsum hn hc
    simp only [loop]
    cases hb : body s with
    | none =>
      exact ⟨_, rfl, Or.inr (Or.inl rfl), by simp, by simp, by simp; omega, by simp; omega, by simp; omega⟩
    | some s' =>
      simp only
      by_cases hcv : conv s' = true
      · rw [if_pos hcv]
        exact ⟨_, rfl, Or.inl rfl, fun _ => hcv, by simp, by simp; omega, by simp; omega, by simp; omega⟩
      · rw [if_neg hcv]
        have hcf : conv s' = false := by simpa using hcv
        by_cases hm : it + 1 = maxiter
        · rw [if_pos hm]
          refine ⟨_, rfl, Or.inr (Or.inr ⟨by simp [hm], by simp; omega⟩), ?_, fun _ => hcf, by simp; omega,
            by simp; omega, by simp; omega⟩
          intro h0; simp at h0; omega
        · rw [if_neg hm]
          obtain ⟨o, h1, h2, h3, h4, h5, h6, h7⟩ :=
            ih (it+1) s' (nres+1) (ncb+1) (by omega) (by omega) (by omega) (by omega)
          exact ⟨o, h1, h2, h3, h4, h5, h6, by omega⟩

/-- **C06, bookkeeping**: for `maxiter ≥ 1` the solver stops; status is `0` (criterion met by the
returned state), `-1` (breakdown) or `maxiter` (exactly that many iterations, criterion not met);
the residual history has one entry more than the number of callbacks; a start state that already
meets the criterion is returned unchanged with one residual entry and no callback. -/
theorem solve_spec (body : σ → Option σ) (conv : σ → Bool) (maxiter : Nat) (s0 : σ) (hm : 1 ≤ maxiter) :
    ∃ o, solve body conv maxiter s0 = some o ∧
      (o.status = 0 ∨ o.status = -1 ∨ (o.status = maxiter ∧ o.ncb = maxiter)) ∧
      (o.status = 0 → conv o.s = true) ∧ (0 < o.status → conv o.s = false) ∧
      o.nres = o.ncb + 1 ∧ o.ncb ≤ maxiter ∧
      (conv s0 = true → o.s = s0 ∧ o.status = 0 ∧ o.nres = 1 ∧ o.ncb = 0) := by
  unfold solve
  by_cases h0 : conv s0 = true
  · rw [if_pos h0]
    exact ⟨_, rfl, Or.inl rfl, fun _ => h0, by simp, by simp, by simp, fun _ => ⟨rfl, rfl, rfl, rfl⟩⟩
  · rw [if_neg h0]
    obtain ⟨o, h1, h2, h3, h4, h5, h6, _⟩ := loop_spec body conv maxiter maxiter 0 s0 1 0 hm (by omega) rfl rfl
    exact ⟨o, h1, h2, h3, h4, h5, h6, fun h => absurd h h0⟩

#print axioms solve_spec
end PyamgV.KL
