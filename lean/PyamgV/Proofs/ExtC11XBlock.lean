import PyamgV.Model.ExtC11XBlock
import PyamgV.Proofs.C11Air
import Mathlib.Data.List.GetD

/-! PyamgV (C11, extension E49): the block row of the local approximate ideal restriction computed by
`C11XB.bairRow` (model of `block_approx_ideal_restriction_pass2`).  Whenever the model returns a block
row `row` for the C-point `c`:

* `row` = (neighbourhood ↦ `bs x bs` blocks) followed by `(c, I)`;
* every neighbourhood block column is an F-point within strength distance `distance` of `c`, so the
  only C-column is `c` itself and carries the identity block;
* every entry of every block `(R A)[c, f]`, `f` in the neighbourhood, is zero. -/
namespace PyamgV.C11XB
open PyamgV.N PyamgV.C11M

theorem ident_length (bs : Nat) : (ident bs).length = bs * bs := by
  unfold ident
  induction bs with
  | zero => simp
  | succ n _ => simp [List.length_flatMap]

theorem flat_getD {α : Type} (bs : Nat) (g : Nat → Nat → α) (d : α) (r cc : Nat) (hr : r < bs) (hc : cc < bs) :
    ((List.range bs).flatMap (fun r => (List.range bs).map (fun cc => g r cc))).getD (r * bs + cc) d = g r cc := by
  have key : ∀ m, m ≤ bs → ∀ r < m, ∀ cc < bs,
      ((List.range m).flatMap (fun r => (List.range bs).map (fun cc => g r cc))).getD (r * bs + cc) d = g r cc := by
    intro m
    induction m with
    | zero => intro _ r hr; omega
    | succ m ih =>
      intro hm r hr cc hc
      have hlen : ((List.range m).flatMap (fun r => (List.range bs).map (fun cc => g r cc))).length = m * bs := by
        clear ih hm hr
        induction m with
        | zero => simp
        | succ k ihk => rw [List.range_succ, List.flatMap_append, List.length_append, ihk]; simp; ring
      rw [List.range_succ, List.flatMap_append]
      by_cases hrm : r < m
      · have hlt : r * bs + cc < m * bs := by
          calc r * bs + cc < r * bs + bs := by omega
            _ = (r + 1) * bs := by ring
            _ ≤ m * bs := Nat.mul_le_mul_right _ hrm
        rw [List.getD_append _ _ _ _ (by rw [hlen]; exact hlt)]
        exact ih (by omega) r hrm cc hc
      · have hre : r = m := by omega
        subst hre
        rw [List.getD_append_right _ _ _ _ (by rw [hlen]; omega), hlen]
        simp only [List.flatMap_cons, List.flatMap_nil, List.append_nil]
        have : r * bs + cc - r * bs = cc := by omega
        rw [this, List.getD_eq_getElem _ _ (by simpa using hc)]
        simp
  exact key bs (Nat.le_refl _) r hr cc hc

/-- the identity block is the identity -/
theorem ident_getD (bs r cc : Nat) (hr : r < bs) (hc : cc < bs) :
    (ident bs).getD (r * bs + cc) 0 = if r = cc then 1 else 0 :=
  flat_getD bs (fun r cc => if r = cc then (1 : Rat) else 0) 0 r cc hr hc

theorem blockOf_getD (eps : Rat) (bs : Nat) (xs : List (List Rat)) (bi r cc : Nat) (hr : r < bs) (hc : cc < bs) :
    (blockOf eps bs xs bi).getD (r * bs + cc) 0 = thresh eps ((xs.getD r []).getD (bi * bs + cc) 0) :=
  flat_getD bs (fun r cc => thresh eps ((xs.getD r []).getD (bi * bs + cc) 0)) 0 r cc hr hc

theorem blockOf_length (eps : Rat) (bs : Nat) (xs : List (List Rat)) (bi : Nat) :
    (blockOf eps bs xs bi).length = bs * bs := by
  unfold blockOf
  generalize bs = m at *
  have : ∀ k, ((List.range k).flatMap (fun r => (List.range m).map
      (fun cc => thresh eps ((xs.getD r []).getD (bi * m + cc) 0)))).length = k * m := by
    intro k
    induction k with
    | zero => simp
    | succ k ih => rw [List.range_succ, List.flatMap_append, List.length_append, ih]; simp; ring
  exact this m

/-- **block AIR row**: structure, identity block on the C-point, `(R A)[c, f] = 0` (every entry of the
block) for every `f` of the neighbourhood -/
theorem bairRow_spec (eps : Rat) (A : BMat) (S : Csr) (split : Array Int) (distance c : Nat)
    (row : List (Nat × List Rat)) (h : bairRow eps A S split distance c = some row) :
    (∃ blocks : List (List Rat), blocks.length = (nbrF S split distance c).length ∧
        (∀ b ∈ blocks, b.length = A.bs * A.bs) ∧
        row = (nbrF S split distance c).zip blocks ++ [(c, ident A.bs)]) ∧
    (∀ cb ∈ row, cb = (c, ident A.bs) ∨ InNbhd S split distance c cb.1) ∧
    (∀ cb ∈ row, isC split cb.1 = true → cb = (c, ident A.bs)) ∧
    (∀ f ∈ nbrF S split distance c, ∀ r < A.bs, ∀ cc < A.bs, raBlk A row f r cc = 0) := by
  unfold bairRow at h
  simp only at h
  cases hs : bairSolve A c (nbrF S split distance c) with
  | none => rw [hs] at h; simp at h
  | some xs =>
    rw [hs] at h
    simp only at h
    by_cases hck : bairCheck A (nbrF S split distance c)
        (bairAssemble eps A.bs c (nbrF S split distance c) xs) = true
    · rw [if_pos hck] at h
      have hr : row = bairAssemble eps A.bs c (nbrF S split distance c) xs := by simpa using h.symm
      have hstruct : ∀ cb ∈ row, cb = (c, ident A.bs) ∨ InNbhd S split distance c cb.1 := by
        intro cb hcb
        rw [hr] at hcb
        unfold bairAssemble at hcb
        rcases List.mem_append.1 hcb with hz | hl
        · exact Or.inr (nbrF_sound S split distance c _ (mem_zip_fst hz))
        · exact Or.inl (by simpa using hl)
      refine ⟨⟨(List.range (nbrF S split distance c).length).map (blockOf eps A.bs xs), by simp, ?_,
        by rw [hr]; rfl⟩, hstruct, ?_, ?_⟩
      · intro b hb
        obtain ⟨bi, _, rfl⟩ := List.mem_map.1 hb
        exact blockOf_length eps A.bs xs bi
      · intro cb hcb hC
        rcases hstruct cb hcb with h1 | h1
        · exact h1
        · exfalso
          have hF := h1.1
          unfold isF at hF
          unfold isC at hC
          simp only [beq_iff_eq] at hF hC
          rw [hF] at hC
          exact absurd hC (by decide)
      · intro f hf r hr' cc hcc
        unfold bairCheck at hck
        simp only [List.all_eq_true, beq_iff_eq, List.mem_range] at hck
        rw [hr]
        exact hck f hf r hr' cc hcc
    · rw [if_neg hck] at h; simp at h

end PyamgV.C11XB
