import PyamgV.Proofs.ExtC19Inv

/-! PyamgV (C19, extension E26): the Gauss-Jordan reduction `Mat.rref` of the model, every input.

`rref_spec`: after reducing the first `w` columns of an `n x W` matrix `M` the result `E` with pivot
list `piv` (`r = piv.length <= n`) satisfies
* `E[i, piv k] = delta_ik` (pivot columns are unit vectors), `piv k < w`;
* rows `r..n-1` of `E` vanish on the first `w` columns;
* `M = L E` and `E = P M` for some `L`, `P` (the row operations are invertible).
This is the invariant behind the rank factorisation `M = C F` of `Mat.pinvCand` and behind the
totality of `Mat.inv` on regular matrices. -/
namespace PyamgV.C19
set_option linter.unusedSectionVars false

variable {K : Type} [Field K] [DecidableEq K]

/-- the rows of `X` are the combinations `L` of the rows of `Y` (`X = L Y` on `n x w`) -/
def RowComb (n w : Nat) (L : Nat → Nat → K) (X Y : Nat → Nat → K) : Prop :=
  ∀ i j, i < n → j < w → X i j = ∑ k ∈ Finset.range n, L i k * Y k j

theorem RowComb.trans {n w : Nat} {L T X Y Z : Nat → Nat → K} (h1 : RowComb n w L X Y)
    (h2 : RowComb n w T Y Z) :
    RowComb n w (fun i k' => ∑ k ∈ Finset.range n, L i k * T k k') X Z := by
  intro i j hi hj
  rw [h1 i j hi hj]
  have e : ∀ k ∈ Finset.range n, L i k * Y k j = ∑ k' ∈ Finset.range n, L i k * T k k' * Z k' j := by
    intro k hk
    rw [h2 k j (Finset.mem_range.mp hk) hj, Finset.mul_sum]
    exact Finset.sum_congr rfl fun _ _ => (mul_assoc _ _ _).symm
  rw [Finset.sum_congr rfl e, Finset.sum_comm]
  exact Finset.sum_congr rfl fun k' _ => by rw [Finset.sum_mul]

theorem RowComb.refl (n w : Nat) (X : Nat → Nat → K) :
    RowComb n w (fun i k => if k = i then 1 else 0) X X := by
  intro i j hi _
  have e : ∀ k ∈ Finset.range n, (if k = i then (1 : K) else 0) * X k j = if k = i then X k j else 0 := by
    intro k _
    by_cases h : k = i
    · rw [if_pos h, if_pos h, one_mul]
    · rw [if_neg h, if_neg h, zero_mul]
  rw [Finset.sum_congr rfl e, Finset.sum_ite_eq' (Finset.range n) i, if_pos (Finset.mem_range.mpr hi)]

/-- invariant of `Mat.rref` before column `c` (matrix `n x W`) -/
structure RRInv (n W : Nat) (M : Mat K) (c : Nat) (st : Mat K × Nat × List Nat) : Prop where
  shaped : Shaped n W st.1
  piv_len : st.2.2.length = st.2.1
  rk_le : st.2.1 ≤ n
  piv_lt : ∀ k, k < st.2.1 → st.2.2.getD k 0 < c
  unit : ∀ i k, i < n → k < st.2.1 → st.1.get i (st.2.2.getD k 0) = if i = k then 1 else 0
  zero : ∀ i j, st.2.1 ≤ i → i < n → j < c → st.1.get i j = 0
  comb : ∃ L, RowComb n W L M.get st.1.get
  back : ∃ P, RowComb n W P st.1.get M.get

theorem swRow_invol (rk p i : Nat) : swRow rk p (swRow rk p i) = i := by
  unfold swRow
  split_ifs <;> omega

theorem rrefStep_rr (n W : Nat) (M : Mat K) (c : Nat) (hc : c < W) (st : Mat K × Nat × List Nat)
    (h : RRInv n W M c st) : RRInv n W M (c + 1) (rrefStep n st c) := by
  obtain ⟨A, rk, piv⟩ := st
  obtain ⟨hsh, hpl, hrkn, hplt, hunit, hzero, ⟨L, hL⟩, ⟨P, hP⟩⟩ := h
  simp only at hsh hpl hrkn hplt hunit hzero hL hP
  unfold rrefStep
  simp only
  cases hf : (List.range' rk (n - rk)).find? (fun r => A.get r c ≠ 0) with
  | none =>
    rw [List.find?_eq_none] at hf
    refine ⟨hsh, hpl, hrkn, fun k hk => Nat.lt_succ_of_lt (hplt k hk), hunit, ?_, ⟨L, hL⟩, ⟨P, hP⟩⟩
    intro i j (hi : rk ≤ i) hin hj
    show A.get i j = 0
    by_cases e : j = c
    · have := hf i (List.mem_range'_1.mpr ⟨hi, by omega⟩)
      rw [e]
      simpa using this
    · exact hzero i j hi hin (by omega)
  | some p =>
    have hmem := List.mem_of_find?_eq_some hf
    have hpv : A.get p c ≠ 0 := by
      have := List.find?_some hf
      simpa using this
    rw [List.mem_range'_1] at hmem
    have hp : p < n := by omega
    have hrkp : rk ≤ p := hmem.1
    have hrk : rk < n := by omega
    obtain ⟨hsh', hget⟩ := pivStep_spec n W A rk p c hsh hrk hp
    have hpivold : ∀ k, k < rk → (piv ++ [c]).getD k 0 = piv.getD k 0 := by
      intro k hk
      simp only [List.getD_eq_getElem?_getD]
      rw [List.getElem?_append_left (by omega)]
    have hpivnew : (piv ++ [c]).getD rk 0 = c := by
      simp only [List.getD_eq_getElem?_getD]
      rw [List.getElem?_append_right (by omega)]
      simp [hpl]
    -- the pivot row vanishes on the processed columns
    have hprow : ∀ j, j < c → A.get p j = 0 := fun j hj => hzero p j hrkp hp hj
    have hswlt : ∀ i, i < n → swRow rk p i < n := fun i hi => swRow_lt n rk p i hrk hp hi
    refine ⟨hsh', by show (piv ++ [c]).length = rk + 1; simp [hpl], by show rk + 1 ≤ n; omega, ?_, ?_, ?_, ?_, ?_⟩
    · intro k (hk : k < rk + 1)
      show (piv ++ [c]).getD k 0 < c + 1
      by_cases e : k = rk
      · rw [e, hpivnew]; omega
      · rw [hpivold k (by omega)]
        exact Nat.lt_succ_of_lt (hplt k (by omega))
    · intro i k hi (hk : k < rk + 1)
      show (pivStep n A rk p c).get i ((piv ++ [c]).getD k 0) = _
      by_cases e : k = rk
      · rw [e, hpivnew, hget i c hi hc, div_self hpv]
        by_cases ei : i = rk
        · rw [if_pos ei, if_pos ei]
        · rw [if_neg ei, if_neg ei, mul_one, sub_self]
      · have hk' : k < rk := by omega
        rw [hpivold k hk']
        have hq := hplt k hk'
        have hpq : A.get p (piv.getD k 0) = 0 := by
          rw [hunit p k hp hk', if_neg (by omega)]
        rw [hget i _ hi (by omega), hpq, zero_div, mul_zero, sub_zero]
        by_cases ei : i = rk
        · rw [if_pos ei, if_neg (by omega)]
        · rw [if_neg ei, hunit _ k (hswlt i hi) hk']
          unfold swRow
          rw [if_neg ei]
          by_cases eip : i = p
          · rw [if_pos eip, if_neg (by omega), if_neg (by omega)]
          · rw [if_neg eip]
    · intro i j (hi : rk + 1 ≤ i) hin (hj : j < c + 1)
      show (pivStep n A rk p c).get i j = 0
      have hsw : rk ≤ swRow rk p i := by
        unfold swRow
        split_ifs <;> omega
      rw [hget i j hin (by omega), if_neg (by omega)]
      by_cases e : j = c
      · rw [e, div_self hpv, mul_one, sub_self]
      · rw [hprow j (by omega), zero_div, mul_zero, sub_zero]
        exact hzero _ j hsw (hswlt i hin) (by omega)
    · -- M = L A = (L T) A''
      refine ⟨_, hL.trans (T := fun k k' =>
        if k = p then (if k' = rk then A.get p c else 0)
        else ((if k' = swRow rk p k then 1 else 0) + (if k' = rk then A.get k c else 0))) ?_⟩
      intro k j hk hj
      show A.get k j = ∑ k' ∈ Finset.range n, _ * (pivStep n A rk p c).get k' j
      have hrkm : rk ∈ Finset.range n := Finset.mem_range.mpr hrk
      by_cases e : k = p
      · simp only [if_pos e, ite_mul, zero_mul]
        rw [Finset.sum_ite_eq' (Finset.range n) rk, if_pos hrkm, hget rk j hrk hj, if_pos rfl, e,
          mul_div_cancel₀ _ hpv]
      · simp only [if_neg e, add_mul, ite_mul, zero_mul, one_mul]
        rw [Finset.sum_add_distrib, Finset.sum_ite_eq' (Finset.range n) rk, if_pos hrkm,
          Finset.sum_ite_eq' (Finset.range n) (swRow rk p k), if_pos (Finset.mem_range.mpr (hswlt k hk)),
          hget rk j hrk hj, if_pos rfl, hget _ j (hswlt k hk) hj, swRow_invol]
        have hne : swRow rk p k ≠ rk := by
          unfold swRow
          split_ifs <;> omega
        rw [if_neg hne]
        ring
    · -- A'' = (S P) M
      refine ⟨fun i k => if i = rk then P p k / A.get p c
        else P (swRow rk p i) k - A.get (swRow rk p i) c * (P p k / A.get p c), ?_⟩
      intro i j hi hj
      show (pivStep n A rk p c).get i j = _
      rw [hget i j hi hj]
      by_cases e : i = rk
      · simp only [if_pos e]
        rw [hP p j hp hj, div_eq_mul_inv, Finset.sum_mul]
        refine Finset.sum_congr rfl fun k _ => ?_
        ring
      · simp only [if_neg e]
        rw [hP p j hp hj, hP _ j (hswlt i hi) hj, div_eq_mul_inv, Finset.sum_mul, Finset.mul_sum,
          ← Finset.sum_sub_distrib]
        refine Finset.sum_congr rfl fun k _ => ?_
        ring

theorem rrefFold_rr (n W : Nat) (M : Mat K) (st0 : Mat K × Nat × List Nat) (h0 : RRInv n W M 0 st0) :
    ∀ c, c ≤ W → RRInv n W M c ((List.range c).foldl (rrefStep n) st0) := by
  intro c
  induction c with
  | zero => intro _; exact h0
  | succ c ih =>
    intro hc
    rw [List.range_succ, List.foldl_append, List.foldl_cons, List.foldl_nil]
    exact rrefStep_rr n W M c (by omega) _ (ih (by omega))

/-- **`Mat.rref` on every shaped input**: pivot columns are unit vectors, the rows below the rank
vanish on the reduced columns, and the result is row equivalent to the input (both directions) -/
theorem rref_spec (n W w : Nat) (M : Mat K) (hM : Shaped n W M) (hw : w ≤ W) :
    let E := (Mat.rref M w).1
    let piv := (Mat.rref M w).2
    Shaped n W E ∧ piv.length ≤ n ∧
    (∀ k, k < piv.length → piv.getD k 0 < w) ∧
    (∀ i k, i < n → k < piv.length → E.get i (piv.getD k 0) = if i = k then 1 else 0) ∧
    (∀ i j, piv.length ≤ i → i < n → j < w → E.get i j = 0) ∧
    (∃ L, RowComb n W L M.get E.get) ∧ (∃ P, RowComb n W P E.get M.get) := by
  have hrows : M.rows = n := hM.1
  rw [rref_eq, hrows]
  have h0 : RRInv n W M 0 (M, 0, []) :=
    ⟨hM, rfl, Nat.zero_le n, fun k hk => absurd hk (Nat.not_lt_zero k),
      fun i k _ hk => absurd hk (Nat.not_lt_zero k), fun i j _ _ hj => absurd hj (Nat.not_lt_zero j),
      ⟨_, RowComb.refl n W M.get⟩, ⟨_, RowComb.refl n W M.get⟩⟩
  have hfin := rrefFold_rr n W M (M, 0, []) h0 w hw
  generalize (List.range w).foldl (rrefStep n) (M, 0, []) = st at hfin
  obtain ⟨A, rk, piv⟩ := st
  obtain ⟨hsh, hpl, hrkn, hplt, hunit, hzero, hL, hP⟩ := hfin
  simp only at hsh hpl hrkn hplt hunit hzero hL hP
  show Shaped n W A ∧ piv.length ≤ n ∧ _
  rw [hpl]
  exact ⟨hsh, hrkn, hplt, hunit, hzero, hL, hP⟩

#print axioms rref_spec

end PyamgV.C19
