import PyamgV.Model.ExtC17R4Air
import PyamgV.Proofs.ExtC17R4Svd

/-! PyamgV (C17, extension E32, round 4): bounds-safety of the `Ck` models of the dense helpers `QR`, `upper_tri_solve`,
`least_squares` (linalg.h) and `dense_GMRES` (krylov.h) of `Model/ExtC17R4Air.lean`, both storage orders. -/
namespace PyamgV.C17R4
open PyamgV.Ck PyamgV.C17

set_option linter.unusedSectionVars false
set_option linter.unusedVariables false

variable {α : Type} [Inhabited α]

/-- `get_ind(r, c, C)` of an `m × n` array with `C = m` (column major) resp. `C = n` (row major) is below `m·n` -/
theorem getInd_lt (cm : Bool) {r c m n : Int} (r0 : 0 ≤ r) (r1 : r < m) (c0 : 0 ≤ c) (c1 : c < n) :
    0 ≤ getInd cm r c (if cm then m else n) ∧ getInd cm r c (if cm then m else n) < m * n := by
  unfold getInd
  cases cm with
  | true =>
    simp only [if_true]
    have := idx_lt (i := c) (j := r) (A := n) (B := m) c0 c1 r0 r1
    have e : n * m = m * n := Int.mul_comm _ _
    omega
  | false =>
    simp only [Bool.false_eq_true, if_false]
    exact idx_lt (i := r) (j := c) (A := m) (B := n) r0 r1 c0 c1

/-- square case: `C = m` for both orders -/
theorem getInd_sq (cm : Bool) {r c m : Int} (r0 : 0 ≤ r) (r1 : r < m) (c0 : 0 ≤ c) (c1 : c < m) :
    0 ≤ getInd cm r c m ∧ getInd cm r c m < m * m := by
  have := getInd_lt cm (m := m) (n := m) r0 r1 c0 c1
  cases cm <;> simpa using this

/-! ### `QR` -/

/-- **`QR`** of the `m × n` block at offset `ao` of `A`: in range in `A`, in the local `Q` (`m²`) and `v` (`m - j`) -/
theorem qrM_safe (o : AirOps α) (A : Array α) (ao : Int) (m n : Nat) (cm : Bool) (ha0 : 0 ≤ ao)
    (ha : ao + (m : Int) * (n : Int) ≤ (A.size : Int)) :
    Safe (qrM o A ao (m : Int) (n : Int) cm) (fun r => r.1.size = A.size ∧ (r.2.size : Int) = (m : Int) * (m : Int)) := by
  have emm : (((m : Int) * (m : Int)).toNat : Int) = (m : Int) * (m : Int) := by
    have : 0 ≤ (m : Int) * (m : Int) := Int.mul_nonneg (by omega) (by omega)
    omega
  unfold qrM
  simp only
  refine Safe.bind (P := fun Q : Array α => (Q.size : Int) = (m : Int) * (m : Int)) ?_ (fun Q0 hQ0 => ?_)
  · apply forRange_safe (fun Q : Array α => (Q.size : Int) = (m : Int) * (m : Int)) _ _ _ _ (by simp [emm])
    intro i i0 i1 Q h
    have g := getInd_sq cm i0 i1 i0 i1
    exact Safe.mono (wr_ok Q _ _ g.1 (by rw [h]; exact g.2)) (fun a' h' => by rw [h', h])
  apply forRange_safe (fun r : Array α × Array α => r.1.size = A.size ∧ (r.2.size : Int) = (m : Int) * (m : Int)) _ _ _ _ ⟨rfl, hQ0⟩
  intro j j0 j1 st hst
  obtain ⟨s1, s2⟩ := hst
  by_cases hmj : (m : Int) ≤ j
  · rw [if_pos hmj]; exact Safe.pure ⟨s1, s2⟩
  rw [if_neg hmj]
  have hjm : j < (m : Int) := by omega
  -- an entry `(i, k)` of the block
  have hA : ∀ (i k : Int), 0 ≤ i → i < (m : Int) → 0 ≤ k → k < (n : Int) → ∀ X : Array α, X.size = A.size →
      0 ≤ ao + getInd cm i k (if cm then (m : Int) else (n : Int)) ∧
      ao + getInd cm i k (if cm then (m : Int) else (n : Int)) < (X.size : Int) := by
    intro i k i0 i1 k0 k1 X hX
    have g := getInd_lt cm i0 i1 k0 k1
    rw [hX]; omega
  refine Safe.bind (P := fun _ => True) ?_ (fun nx _ => ?_)
  · apply forRange_safe (fun _ => True) _ _ _ _ trivial
    intro i i0 i1 acc _
    have g := hA i j (by omega) i1 j0 j1 st.1 s1
    exact Safe.bind (rd_ok st.1 _ g.1 g.2) (fun _ _ => Safe.pure trivial)
  split
  · exact Safe.pure ⟨s1, s2⟩
  have gjj := hA j j j0 hjm j0 j1 st.1 s1
  refine Safe.bind (rd_ok st.1 _ gjj.1 gjj.2) (fun ajj _ => ?_)
  refine Safe.bind (rd_ok st.1 _ gjj.1 gjj.2) (fun ajj2 _ => ?_)
  have evs : ((Array.replicate ((m : Int) - j).toNat o.sv.zero : Array α).size : Int) = (m : Int) - j := by
    simp; omega
  refine Safe.bind (wr_ok _ 0 o.sv.one (by omega) (by rw [evs]; omega)) (fun vv0 hvv0 => ?_)
  have hv0 : (vv0.size : Int) = (m : Int) - j := by rw [hvv0]; exact evs
  refine Safe.bind (P := fun vv : Array α => (vv.size : Int) = (m : Int) - j) ?_ (fun vv hvv => ?_)
  · apply forRange_safe (fun vv : Array α => (vv.size : Int) = (m : Int) - j) _ _ _ _ hv0
    intro i i0 i1 vv h
    have g := hA (j + i) j (by omega) (by omega) j0 j1 st.1 s1
    refine Safe.bind (rd_ok st.1 _ g.1 g.2) (fun a _ => ?_)
    exact Safe.mono (wr_ok vv i _ (by omega) (by rw [h]; omega)) (fun a' h' => by rw [h', h])
  refine Safe.bind (P := fun A' : Array α => A'.size = A.size) ?_ (fun A1 hA1 => ?_)
  · apply forRange_safe (fun A' : Array α => A'.size = A.size) _ _ _ _ s1
    intro k k0 k1 A' hA'
    refine Safe.bind (P := fun _ => True) ?_ (fun vtR _ => ?_)
    · apply forRange_safe (fun _ => True) _ _ _ _ trivial
      intro i i0 i1 acc _
      have g := hA (j + i) k (by omega) (by omega) (by omega) k1 A' hA'
      refine Safe.bind (rd_ok vv i i0 (by rw [hvv]; exact i1)) (fun _ _ => ?_)
      exact Safe.bind (rd_ok A' _ g.1 g.2) (fun _ _ => Safe.pure trivial)
    · apply forRange_safe (fun A'' : Array α => A''.size = A.size) _ _ _ _ hA'
      intro i i0 i1 A'' hA''
      have g := hA (j + i) k (by omega) (by omega) (by omega) k1 A'' hA''
      refine Safe.bind (rd_ok A'' _ g.1 g.2) (fun _ _ => ?_)
      refine Safe.bind (rd_ok vv i i0 (by rw [hvv]; exact i1)) (fun _ _ => ?_)
      exact Safe.mono (wr_ok A'' _ _ g.1 g.2) (fun a' h' => by rw [h', hA''])
  refine Safe.bind (P := fun Q : Array α => (Q.size : Int) = (m : Int) * (m : Int)) ?_ (fun Q1 hQ1 => Safe.pure ⟨hA1, hQ1⟩)
  apply forRange_safe (fun Q : Array α => (Q.size : Int) = (m : Int) * (m : Int)) _ _ _ _ s2
  intro i i0 i1 Q hQ
  refine Safe.bind (P := fun _ => True) ?_ (fun qv _ => ?_)
  · apply forRange_safe (fun _ => True) _ _ _ _ trivial
    intro k k0 k1 acc _
    have g := getInd_sq cm (r := i) (c := k + j) (m := (m : Int)) i0 i1 (by omega) (by omega)
    refine Safe.bind (rd_ok vv k k0 (by rw [hvv]; exact k1)) (fun _ _ => ?_)
    exact Safe.bind (rd_ok Q _ g.1 (by rw [hQ]; exact g.2)) (fun _ _ => Safe.pure trivial)
  · apply forRange_safe (fun Q' : Array α => (Q'.size : Int) = (m : Int) * (m : Int)) _ _ _ _ hQ
    intro k k0 k1 Q' hQ'
    have g := getInd_sq cm (r := i) (c := k + j) (m := (m : Int)) i0 i1 (by omega) (by omega)
    refine Safe.bind (rd_ok Q' _ g.1 (by rw [hQ']; exact g.2)) (fun _ _ => ?_)
    refine Safe.bind (rd_ok vv k k0 (by rw [hvv]; exact k1)) (fun _ _ => ?_)
    exact Safe.mono (wr_ok Q' _ _ g.1 (by rw [hQ']; exact g.2)) (fun a' h' => by rw [h', hQ'])

/-! ### `upper_tri_solve`, `least_squares` -/

/-- **`upper_tri_solve`**: `R` an `m × n` block at offset `ro`, `rhs` with at least `min(m, n)` entries, `x` with `n` entries at `xo` -/
theorem upperTriSolve_safe (o : AirOps α) (R : Array α) (ro : Int) (rhs x : Array α) (xo : Int) (m n : Nat) (cm : Bool)
    (hr0 : 0 ≤ ro) (hr : ro + (m : Int) * (n : Int) ≤ (R.size : Int))
    (hrhs : (if (m : Int) < (n : Int) then (m : Int) else (n : Int)) ≤ (rhs.size : Int)) (hx0 : 0 ≤ xo)
    (hx : xo + (n : Int) ≤ (x.size : Int)) :
    Safe (upperTriSolve o R ro rhs x xo (m : Int) (n : Int) cm) (fun x' => x'.size = x.size) := by
  unfold upperTriSolve
  simp only
  generalize hrank : (if (m : Int) < (n : Int) then (m : Int) else (n : Int)) = rank at *
  have hrm : rank ≤ (m : Int) := by rw [← hrank]; split <;> omega
  have hrn : rank ≤ (n : Int) := by rw [← hrank]; split <;> omega
  refine Safe.bind (P := fun x' : Array α => x'.size = x.size) ?_ (fun x1 hx1 => ?_)
  · apply forRange_safe (fun x' : Array α => x'.size = x.size) _ _ _ _ rfl
    intro t t0 t1 x' hx'
    have hR : ∀ (i j : Int), 0 ≤ i → i < rank → 0 ≤ j → j < rank →
        0 ≤ ro + getInd cm i j (if cm then (m : Int) else (n : Int)) ∧
        ro + getInd cm i j (if cm then (m : Int) else (n : Int)) < (R.size : Int) := by
      intro i j i0 i1 j0 j1
      have g := getInd_lt cm (r := i) (c := j) (m := (m : Int)) (n := (n : Int)) i0 (by omega) j0 (by omega)
      omega
    refine Safe.bind (rd_ok rhs _ (by omega) (by omega)) (fun t00 _ => ?_)
    refine Safe.bind (P := fun _ => True) ?_ (fun temp _ => ?_)
    · apply forRange_safe (fun _ => True) _ _ _ _ trivial
      intro j j0 j1 acc _
      have g := hR (rank - 1 - t) j (by omega) (by omega) (by omega) j1
      refine Safe.bind (rd_ok R _ g.1 g.2) (fun _ _ => ?_)
      exact Safe.bind (rd_ok x' _ (by omega) (by rw [hx']; omega)) (fun _ _ => Safe.pure trivial)
    have g := hR (rank - 1 - t) (rank - 1 - t) (by omega) (by omega) (by omega) (by omega)
    refine Safe.bind (rd_ok R _ g.1 g.2) (fun rii _ => ?_)
    split
    · exact Safe.mono (wr_ok x' _ _ (by omega) (by rw [hx']; omega)) (fun a' h' => by rw [h', hx'])
    · refine Safe.bind (rd_ok R _ g.1 g.2) (fun rii2 _ => ?_)
      exact Safe.mono (wr_ok x' _ _ (by omega) (by rw [hx']; omega)) (fun a' h' => by rw [h', hx'])
  · apply forRange_safe (fun x' : Array α => x'.size = x.size) _ _ _ _ hx1
    intro i i0 i1 x' hx'
    exact Safe.mono (wr_ok x' _ _ (by omega) (by rw [hx']; omega)) (fun a' h' => by rw [h', hx'])

/-- **`least_squares`** on the `m × n` block at offset `ao` of `A`, `b` with `m`, `x` with `n` entries at `xo` -/
theorem leastSquares_safe (o : AirOps α) (A : Array α) (ao : Int) (b x : Array α) (xo : Int) (m n : Nat) (cm : Bool) (ha0 : 0 ≤ ao)
    (ha : ao + (m : Int) * (n : Int) ≤ (A.size : Int)) (hb : (m : Int) ≤ (b.size : Int)) (hx0 : 0 ≤ xo)
    (hx : xo + (n : Int) ≤ (x.size : Int)) :
    Safe (leastSquares o A ao b x xo (m : Int) (n : Int) cm) (fun r => r.1.size = A.size ∧ r.2.size = x.size) := by
  unfold leastSquares
  simp only
  refine Safe.bind (qrM_safe o A ao m n cm ha0 ha) (fun q hq => ?_)
  refine Safe.bind (P := fun rhs : Array α => rhs.size = m) ?_ (fun rhs hrhs => ?_)
  · apply forRange_safe (fun rhs : Array α => rhs.size = m) _ _ _ _ (by simp)
    intro i i0 i1 rhs h
    apply forRange_safe (fun rhs : Array α => rhs.size = m) _ _ _ _ h
    intro k k0 k1 rhs' h'
    have g := getInd_sq cm (r := k) (c := i) (m := (m : Int)) k0 k1 i0 i1
    refine Safe.bind (rd_ok rhs' i i0 (by rw [h']; omega)) (fun _ _ => ?_)
    refine Safe.bind (rd_ok b k k0 (by omega)) (fun _ _ => ?_)
    refine Safe.bind (rd_ok q.2 _ g.1 (by rw [hq.2]; exact g.2)) (fun _ _ => ?_)
    exact Safe.mono (wr_ok rhs' i _ i0 (by rw [h']; omega)) (fun a' h'' => by rw [h'', h'])
  refine Safe.bind (upperTriSolve_safe o q.1 ao rhs x xo m n cm ha0 (by rw [hq.1]; exact ha)
    (by rw [hrhs]; split <;> omega) hx0 hx) (fun x' hx' => ?_)
  exact Safe.pure ⟨hq.1, hx'⟩

/-! ### `dense_GMRES` -/

theorem normT_safe (o : SvOps α) (x : Array α) (n : Int) (hx : n ≤ (x.size : Int)) : Safe (normT o x n) (fun _ => True) := by
  unfold normT
  exact Safe.bind (dotProd_safe o x 0 x 0 n (by omega) (by omega) (by omega) (by omega)) (fun _ _ => Safe.pure trivial)

/-- the sizes of `b`, `V`, `H` and the range of `rank` in the Arnoldi loop -/
def ArnInv (bs n mi : Int) (st : Array α × Array α × Array α × Int × Bool) : Prop :=
  (st.1.size : Int) = bs ∧ (st.2.1.size : Int) = mi * n ∧ (st.2.2.1.size : Int) = mi * (mi + 1) ∧ 0 ≤ st.2.2.2.1 ∧ st.2.2.2.1 ≤ mi

theorem gmresArnoldi_safe (o : AirOps α) (A : Array α) (n : Nat) (mi : Int) (cm : Bool) (hA : (n : Int) * (n : Int) ≤ (A.size : Int))
    (hm0 : 0 ≤ mi) (hmn : mi ≤ (n : Int)) {bs : Int} (hbs : (n : Int) ≤ bs)
    (st : Array α × Array α × Array α × Int × Bool) (hst : ArnInv bs (n : Int) mi st) :
    Safe (gmresArnoldi o A (n : Int) mi (if cm then mi + 1 else mi) cm st) (ArnInv bs (n : Int) mi) := by
  unfold gmresArnoldi
  simp only
  apply forRange_safe (ArnInv bs (n : Int) mi) _ _ _ _ hst
  intro j j0 j1 s hs
  obtain ⟨s1, s2, s3, s4, s5⟩ := hs
  by_cases hb : s.2.2.2.2 = true
  · rw [if_pos hb]; exact Safe.pure ⟨s1, s2, s3, s4, s5⟩
  rw [if_neg hb]
  -- an entry `(r, c)` of `H` (`mi + 1` rows, `mi` columns)
  have hH : ∀ (r c : Int), 0 ≤ r → r < mi + 1 → 0 ≤ c → c < mi → ∀ H : Array α, (H.size : Int) = mi * (mi + 1) →
      0 ≤ getInd cm r c (if cm then mi + 1 else mi) ∧ getInd cm r c (if cm then mi + 1 else mi) < (H.size : Int) := by
    intro r c r0 r1 c0 c1 H hHs
    have g := getInd_lt cm (r := r) (c := c) (m := mi + 1) (n := mi) r0 r1 c0 c1
    have e : (mi + 1) * mi = mi * (mi + 1) := Int.mul_comm _ _
    rw [hHs]; omega
  -- column `c < mi` of `V`
  have hV : ∀ (c t : Int), 0 ≤ c → c < mi → 0 ≤ t → t < (n : Int) → 0 ≤ c * (n : Int) + t ∧ c * (n : Int) + t < mi * (n : Int) :=
    fun c t c0 c1 t0 t1 => idx_lt c0 c1 t0 t1
  refine Safe.bind (P := fun b : Array α => (b.size : Int) = bs) ?_ (fun b hb' => ?_)
  · apply forRange_safe (fun b : Array α => (b.size : Int) = bs) _ _ _ _ s1
    intro l l0 l1 b h
    refine Safe.bind (wr_ok b l _ l0 (by rw [h]; omega)) (fun b1 hb1 => ?_)
    apply forRange_safe (fun b : Array α => (b.size : Int) = bs) _ _ _ _ (by rw [hb1]; exact h)
    intro k k0 k1 b2 h2
    have gA := getInd_sq cm (r := l) (c := k) (m := (n : Int)) l0 l1 k0 k1
    have gV := hV j k j0 j1 k0 k1
    have e : (n : Int) * j = j * (n : Int) := Int.mul_comm _ _
    refine Safe.bind (rd_ok b2 l l0 (by rw [h2]; omega)) (fun _ _ => ?_)
    refine Safe.bind (rd_ok A _ gA.1 (by omega)) (fun _ _ => ?_)
    refine Safe.bind (rd_ok s.2.1 _ (by rw [e]; exact gV.1) (by rw [s2, e]; exact gV.2)) (fun _ _ => ?_)
    exact Safe.mono (wr_ok b2 l _ l0 (by rw [h2]; omega)) (fun a' h' => by rw [h', h2])
  refine Safe.bind (P := fun bh : Array α × Array α => (bh.1.size : Int) = bs ∧ (bh.2.size : Int) = mi * (mi + 1)) ?_ (fun bh hbh => ?_)
  · apply forRange_safe (fun bh : Array α × Array α => (bh.1.size : Int) = bs ∧ (bh.2.size : Int) = mi * (mi + 1)) _ _ _ _ ⟨hb', s3⟩
    intro i i0 i1 q hq
    have gV0 := hV i 0 i0 (by omega) (by omega)
    have hcol : 0 ≤ i * (n : Int) ∧ i * (n : Int) + (n : Int) ≤ (s.2.1.size : Int) := by
      have a1 : 0 ≤ i * (n : Int) := Int.mul_nonneg i0 (by omega)
      have a2 : (i + 1) * (n : Int) ≤ mi * (n : Int) := Int.mul_le_mul_of_nonneg_right (by omega) (by omega)
      have a3 : (i + 1) * (n : Int) = i * (n : Int) + (n : Int) := by ring
      rw [s2]; omega
    refine Safe.bind (dotProd_safe o.sv q.1 0 s.2.1 (i * (n : Int)) (n : Int) (by omega) (by rw [hq.1]; omega) hcol.1 hcol.2) (fun temp _ => ?_)
    have gH := hH i j i0 (by omega) j0 j1 q.2 hq.2
    refine Safe.bind (wr_ok q.2 _ temp gH.1 gH.2) (fun H1 hH1 => ?_)
    refine Safe.bind (P := fun b : Array α => (b.size : Int) = bs) ?_
      (fun b2 hb2 => Safe.pure ⟨hb2, by show (H1.size : Int) = _; rw [hH1]; exact hq.2⟩)
    apply forRange_safe (fun b : Array α => (b.size : Int) = bs) _ _ _ _ hq.1
    intro t t0 t1 b2 h2
    refine Safe.bind (rd_ok b2 t t0 (by rw [h2]; omega)) (fun _ _ => ?_)
    refine Safe.bind (rd_ok s.2.1 _ (by omega) (by omega)) (fun _ _ => ?_)
    exact Safe.mono (wr_ok b2 t _ t0 (by rw [h2]; omega)) (fun a' h' => by rw [h', h2])
  refine Safe.bind (normT_safe o.sv bh.1 (n : Int) (by rw [hbh.1]; exact hbs)) (fun nb _ => ?_)
  split
  · refine Safe.bind (P := fun H : Array α => (H.size : Int) = mi * (mi + 1)) ?_
      (fun H hHH => Safe.pure ⟨hbh.1, s2, hHH, by show 0 ≤ j + 1; omega, by show j + 1 ≤ mi; omega⟩)
    split
    · have gH := hH (j + 1) j (by omega) (by omega) j0 j1 bh.2 hbh.2
      exact Safe.mono (wr_ok bh.2 _ _ gH.1 gH.2) (fun a' h' => by rw [h']; exact hbh.2)
    · exact Safe.pure hbh.2
  · split
    · have gH := hH (j + 1) j (by omega) (by omega) j0 j1 bh.2 hbh.2
      refine Safe.bind (wr_ok bh.2 _ _ gH.1 gH.2) (fun H1 hH1 => ?_)
      refine Safe.bind (P := fun V : Array α => (V.size : Int) = mi * (n : Int)) ?_
        (fun V hVV => Safe.pure ⟨hbh.1, hVV, by show (H1.size : Int) = _; rw [hH1]; exact hbh.2, s4, s5⟩)
      apply forRange_safe (fun V : Array α => (V.size : Int) = mi * (n : Int)) _ _ _ _ s2
      intro i i0 i1 V hVs
      have gV := hV (j + 1) i (by omega) (by omega) i0 i1
      refine Safe.bind (rd_ok bh.1 i i0 (by rw [hbh.1]; omega)) (fun _ _ => ?_)
      exact Safe.mono (wr_ok V _ _ gV.1 (by rw [hVs]; exact gV.2)) (fun a' h' => by rw [h', hVs])
    · exact Safe.pure ⟨hbh.1, s2, hbh.2, s4, s5⟩

theorem gmresGivens_safe (o : AirOps α) (mi : Int) (cm : Bool) (hm0 : 0 ≤ mi) (st : Array α × Array α) {gs : Int}
    (hH : (st.1.size : Int) = mi * (mi + 1)) (hg : (st.2.size : Int) = gs) (hgs : mi + 1 ≤ gs) :
    Safe (gmresGivens o mi (if cm then mi + 1 else mi) cm st)
      (fun r => (r.1.size : Int) = mi * (mi + 1) ∧ (r.2.size : Int) = gs) := by
  unfold gmresGivens
  simp only
  apply forRange_safe (fun r : Array α × Array α => (r.1.size : Int) = mi * (mi + 1) ∧ (r.2.size : Int) = gs) _ _ _ _ ⟨hH, hg⟩
  intro j j0 j1 s hs
  have hHi : ∀ (r c : Int), 0 ≤ r → r < mi + 1 → 0 ≤ c → c < mi → ∀ H : Array α, (H.size : Int) = mi * (mi + 1) →
      0 ≤ getInd cm r c (if cm then mi + 1 else mi) ∧ getInd cm r c (if cm then mi + 1 else mi) < (H.size : Int) := by
    intro r c r0 r1 c0 c1 H hHs
    have g := getInd_lt cm (r := r) (c := c) (m := mi + 1) (n := mi) r0 r1 c0 c1
    have e : (mi + 1) * mi = mi * (mi + 1) := Int.mul_comm _ _
    rw [hHs]; omega
  have g1 := hHi (j - 1) (j - 1) (by omega) (by omega) (by omega) (by omega) s.1 hs.1
  have g2 := hHi j (j - 1) (by omega) (by omega) (by omega) (by omega) s.1 hs.1
  refine Safe.bind (rd_ok s.1 _ g1.1 g1.2) (fun h11 _ => ?_)
  refine Safe.bind (rd_ok s.1 _ g2.1 g2.2) (fun h21 _ => ?_)
  split
  · exact Safe.pure hs
  refine Safe.bind (rd_ok s.2 (j - 1) (by omega) (by rw [hs.2]; omega)) (fun temp _ => ?_)
  refine Safe.bind (rd_ok s.2 j (by omega) (by rw [hs.2]; omega)) (fun gj _ => ?_)
  refine Safe.bind (wr_ok s.2 (j - 1) _ (by omega) (by rw [hs.2]; omega)) (fun gA hgA => ?_)
  have hgA' : (gA.size : Int) = gs := by rw [hgA]; exact hs.2
  refine Safe.bind (rd_ok gA j (by omega) (by rw [hgA']; omega)) (fun gj2 _ => ?_)
  refine Safe.bind (wr_ok gA j _ (by omega) (by rw [hgA']; omega)) (fun gB hgB => ?_)
  refine Safe.bind (P := fun H : Array α => (H.size : Int) = mi * (mi + 1)) ?_ (fun H1 hH1 => ?_)
  · apply forRange_safe (fun H : Array α => (H.size : Int) = mi * (mi + 1)) _ _ _ _ hs.1
    intro k k0 k1 H hHs
    have k1g := hHi (j - 1) k (by omega) (by omega) (by omega) k1 H hHs
    have k2g := hHi j k (by omega) (by omega) (by omega) k1 H hHs
    refine Safe.bind (rd_ok H _ k1g.1 k1g.2) (fun _ _ => ?_)
    refine Safe.bind (rd_ok H _ k2g.1 k2g.2) (fun _ _ => ?_)
    refine Safe.bind (wr_ok H _ _ k1g.1 k1g.2) (fun Ha hHa => ?_)
    have hHa' : (Ha.size : Int) = mi * (mi + 1) := by rw [hHa]; exact hHs
    have k3g := hHi j k (by omega) (by omega) (by omega) k1 Ha hHa'
    refine Safe.bind (rd_ok Ha _ k3g.1 k3g.2) (fun _ _ => ?_)
    exact Safe.mono (wr_ok Ha _ _ k3g.1 k3g.2) (fun a' h' => by rw [h']; exact hHa')
  have g3 := hHi j (j - 1) (by omega) (by omega) (by omega) (by omega) H1 hH1
  refine Safe.bind (wr_ok H1 _ _ g3.1 g3.2) (fun H2 hH2 => ?_)
  exact Safe.pure ⟨by show (H2.size : Int) = _; rw [hH2]; exact hH1, by show (gB.size : Int) = gs; rw [hgB]; exact hgA'⟩

/-- **`dense_GMRES`** on an `n × n` system: `A` with `n²`, `b` with `n` entries, `x` with `n` entries at `xo`, `maxiter ≥ 0`, both
storage orders, with and without the diagonal preconditioning: in range in `A`, `b`, `x` and the local `V`, `H`, `g` -/
theorem denseGmres_safe (o : AirOps α) (A b x : Array α) (xo : Int) (n : Nat) (cm : Bool) (maxiter0 : Int) (precond : Bool)
    (hA : (n : Int) * (n : Int) ≤ (A.size : Int)) (hb : (n : Int) ≤ (b.size : Int)) (hx0 : 0 ≤ xo)
    (hx : xo + (n : Int) ≤ (x.size : Int)) (hm : 0 ≤ maxiter0) :
    Safe (denseGmres o A b x xo (n : Int) cm maxiter0 precond) (fun r => r.1.size = A.size ∧ r.2.1.size = b.size ∧ r.2.2.size = x.size) := by
  unfold denseGmres
  simp only
  generalize hmi : (if maxiter0 = 0 then (n : Int) else if maxiter0 < (n : Int) then maxiter0 else (n : Int)) = mi
  have hm0 : 0 ≤ mi := by rw [← hmi]; split; omega; split <;> omega
  have hmn : mi ≤ (n : Int) := by rw [← hmi]; split; omega; split <;> omega
  by_cases hn1 : (n : Int) = 1
  · rw [if_pos hn1]
    have e : (n : Int) * (n : Int) = 1 := by rw [hn1]; rfl
    refine Safe.bind (rd_ok b 0 (by omega) (by omega)) (fun b0 _ => ?_)
    refine Safe.bind (rd_ok A 0 (by omega) (by omega)) (fun a0 _ => ?_)
    refine Safe.bind (wr_ok x _ _ (by omega) (by omega)) (fun x' hx' => ?_)
    exact Safe.pure ⟨rfl, rfl, hx'⟩
  rw [if_neg hn1]
  refine Safe.bind (P := fun ab : Array α × Array α => ab.1.size = A.size ∧ ab.2.size = b.size) ?_ (fun ab hab => ?_)
  · cases precond with
    | false => simp only [Bool.false_eq_true, if_false]; exact Safe.pure ⟨rfl, rfl⟩
    | true =>
      simp only [if_true]
      apply forRange_safe (fun ab : Array α × Array α => ab.1.size = A.size ∧ ab.2.size = b.size) _ _ _ _ ⟨rfl, rfl⟩
      intro i i0 i1 st hst
      have g := getInd_sq cm (r := i) (c := i) (m := (n : Int)) i0 i1 i0 i1
      refine Safe.bind (rd_ok st.1 _ g.1 (by rw [hst.1]; omega)) (fun d _ => ?_)
      split
      · exact Safe.pure hst
      refine Safe.bind (rd_ok st.2 i i0 (by rw [hst.2]; omega)) (fun bi _ => ?_)
      refine Safe.bind (wr_ok st.2 i _ i0 (by rw [hst.2]; omega)) (fun b1 hb1 => ?_)
      refine Safe.bind (P := fun A' : Array α => A'.size = A.size) ?_
        (fun A1 hA1 => Safe.pure ⟨hA1, by show b1.size = b.size; rw [hb1, hst.2]⟩)
      apply forRange_safe (fun A' : Array α => A'.size = A.size) _ _ _ _ hst.1
      intro j j0 j1 A' hA'
      have g2 := getInd_sq cm (r := i) (c := j) (m := (n : Int)) i0 i1 j0 j1
      refine Safe.bind (rd_ok A' _ g2.1 (by rw [hA']; omega)) (fun _ _ => ?_)
      exact Safe.mono (wr_ok A' _ _ g2.1 (by rw [hA']; omega)) (fun a' h' => by rw [h', hA'])
  refine Safe.bind (normT_safe o.sv ab.2 (n : Int) (by rw [hab.2]; exact hb)) (fun nb _ => ?_)
  split
  · refine Safe.bind (P := fun x' : Array α => x'.size = x.size) ?_ (fun x' hx' => Safe.pure ⟨hab.1, hab.2, hx'⟩)
    apply forRange_safe (fun x' : Array α => x'.size = x.size) _ _ _ _ rfl
    intro i i0 i1 x' h
    exact Safe.mono (wr_ok x' _ _ (by omega) (by rw [h]; omega)) (fun a' h' => by rw [h', h])
  have egs : ((Array.replicate ((n : Int) + 1).toNat o.sv.zero : Array α).size : Int) = (n : Int) + 1 := by simp <;> omega
  refine Safe.bind (wr_ok _ 0 nb (by omega) (by rw [egs]; omega)) (fun g hg => ?_)
  have hgs : (g.size : Int) = (n : Int) + 1 := by rw [hg]; exact egs
  have hmin : 0 ≤ mi * (n : Int) := Int.mul_nonneg hm0 (by omega)
  have hmim : 0 ≤ mi * (mi + 1) := Int.mul_nonneg hm0 (by omega)
  have eVs : ((Array.replicate (mi * (n : Int)).toNat o.sv.zero : Array α).size : Int) = mi * (n : Int) := by simp <;> omega
  have eHs : ((Array.replicate (mi * (mi + 1)).toNat o.sv.zero : Array α).size : Int) = mi * (mi + 1) := by simp <;> omega
  refine Safe.bind (P := fun V : Array α => (V.size : Int) = mi * (n : Int)) ?_ (fun V hV => ?_)
  · apply forRange_safe (fun V : Array α => (V.size : Int) = mi * (n : Int)) _ _ _ _ eVs
    intro i i0 i1 V h
    -- this loop runs only for `n ≥ 1`, and then `maxiter ≥ 1`
    have hmi1 : 1 ≤ mi := by
      rw [← hmi]
      split
      · omega
      · split <;> omega
    have : (n : Int) ≤ mi * (n : Int) := by
      have := Int.mul_le_mul_of_nonneg_right hmi1 (show (0 : Int) ≤ (n : Int) by omega)
      omega
    refine Safe.bind (rd_ok ab.2 i i0 (by rw [hab.2]; omega)) (fun _ _ => ?_)
    exact Safe.mono (wr_ok V i _ i0 (by rw [h]; omega)) (fun a' h' => by rw [h', h])
  refine Safe.bind (gmresArnoldi_safe o ab.1 n mi cm (by rw [hab.1]; exact hA) hm0 hmn (bs := (b.size : Int)) hb _
    ⟨by show ((ab.2.size : Int)) = _; rw [hab.2], hV, eHs, hm0, Int.le_refl _⟩) (fun ar har => ?_)
  obtain ⟨r1, r2, r3, r4, r5⟩ := har
  refine Safe.bind (gmresGivens_safe o mi cm hm0 (ar.2.2.1, g) r3 hgs (by omega)) (fun hg' hhg => ?_)
  -- `upper_tri_solve(&H[0], &g[0], b, maxiter+1, maxiter, is_col_major)`
  have hmiN : ((mi.toNat : Nat) : Int) = mi := by omega
  have hmi1N : (((mi.toNat + 1 : Nat)) : Int) = mi + 1 := by push_cast; omega
  have hups := upperTriSolve_safe o hg'.1 0 hg'.2 ar.1 0 (mi.toNat + 1) mi.toNat cm (by omega)
    (by rw [hmi1N, hmiN, hhg.1]; have e : (mi + 1) * mi = mi * (mi + 1) := Int.mul_comm _ _; omega)
    (by rw [hmi1N, hmiN, hhg.2]; split <;> omega) (by omega) (by rw [hmiN]; omega)
  rw [hmi1N, hmiN] at hups
  refine Safe.bind hups (fun b2 hb2 => ?_)
  refine Safe.bind (P := fun x' : Array α => x'.size = x.size) ?_
    (fun x' hx' => Safe.pure ⟨hab.1, by rw [hb2]; omega, hx'⟩)
  apply forRange_safe (fun x' : Array α => x'.size = x.size) _ _ _ _ rfl
  intro l l0 l1 x' h
  refine Safe.bind (wr_ok x' _ _ (by omega) (by rw [h]; omega)) (fun x1 hx1 => ?_)
  apply forRange_safe (fun x' : Array α => x'.size = x.size) _ _ _ _ (by rw [hx1, h])
  intro k k0 k1 x2 h2
  have gV := idx_lt (i := k) (j := l) (A := mi) (B := (n : Int)) k0 (by omega) l0 l1
  refine Safe.bind (rd_ok x2 _ (by omega) (by rw [h2]; omega)) (fun _ _ => ?_)
  refine Safe.bind (rd_ok ar.2.1 (getInd true l k (n : Int)) (by unfold getInd; simp only [if_true]; exact gV.1)
    (by unfold getInd; simp only [if_true]; rw [r2]; exact gV.2)) (fun _ _ => ?_)
  refine Safe.bind (rd_ok b2 k k0 (by omega)) (fun _ _ => ?_)
  exact Safe.mono (wr_ok x2 _ _ (by omega) (by rw [h2]; omega)) (fun a' h' => by rw [h', h2])

end PyamgV.C17R4
