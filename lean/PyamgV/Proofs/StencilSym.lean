import PyamgV.Proofs.StencilPf

/-! PyamgV (C20): a stencil that is symmetric under negation of offsets gives a symmetric matrix
(e.g. the Poisson stencils): `(p,q,w)` is generated iff `(q,p,w)` is. Corollary of `contrib_mem`. -/
namespace PyamgV.Stencil

theorem shift_neg : ∀ (grid : List Nat) (off : List Int) (cp cq : List Nat),
    Shift grid off cp cq ↔ Shift grid (off.map (fun o => -o)) cq cp := by
  intro grid
  induction grid with
  | nil =>
    intro off cp cq
    cases off <;> cases cp <;> cases cq <;> simp [Shift]
  | cons g gs ih =>
    intro off cp cq
    cases off with
    | nil => cases cp <;> cases cq <;> simp [Shift]
    | cons o os =>
      cases cp with
      | nil => cases cq <;> simp [Shift]
      | cons p ps =>
        cases cq with
        | nil => simp [Shift]
        | cons q qs =>
          simp only [Shift, List.map_cons]
          rw [ih os ps qs]
          constructor
          · rintro ⟨h1, h2⟩; exact ⟨by omega, h2⟩
          · rintro ⟨h1, h2⟩; exact ⟨by omega, h2⟩

theorem contrib_symm (grid : List Nat) (off : List Int) (v : Rat) (hl : off.length = grid.length)
    (p q : Nat) (w : Rat) :
    (p, q, w) ∈ contrib grid off v ↔ (q, p, w) ∈ contrib grid (off.map (fun o => -o)) v := by
  rw [contrib_mem grid off v hl, contrib_mem grid _ v (by simpa using hl)]
  rw [shift_neg]
  constructor
  · rintro ⟨h1, h2, h3, h4⟩; exact ⟨h1, h3, h2, h4⟩
  · rintro ⟨h1, h2, h3, h4⟩; exact ⟨h1, h3, h2, h4⟩

/-- **symmetric stencil ⇒ symmetric matrix** -/
theorem stencilGrid_symm (grid : List Nat) (sten : List (List Int × Rat))
    (hlen : ∀ ov ∈ sten, ov.1.length = grid.length)
    (hsym : ∀ ov ∈ sten, (ov.1.map (fun o => -o), ov.2) ∈ sten)
    (p q : Nat) (w : Rat) :
    (p, q, w) ∈ stencilGrid grid sten → (q, p, w) ∈ stencilGrid grid sten := by
  rw [stencilGrid_eq]
  simp only [List.mem_flatMap]
  rintro ⟨ov, hov, hmem⟩
  refine ⟨(ov.1.map (fun o => -o), ov.2), hsym ov hov, ?_⟩
  exact (contrib_symm grid ov.1 ov.2 (hlen ov hov) p q w).1 hmem

#print axioms stencilGrid_symm
end PyamgV.Stencil
