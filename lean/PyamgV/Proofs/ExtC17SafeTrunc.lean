import PyamgV.Model.ExtC17CkTrunc
import PyamgV.Proofs.ExtC17Safe

/-! PyamgV (C17, extension E7): bounds-safety + termination of `truncate_rows_csr` including the recursive
`qsort_twoarrays` (`Model/ExtC17CkTrunc.lean`).  Core Lean only. -/
namespace PyamgV.C17
open PyamgV.Ck

set_option linter.unusedSectionVars false
set_option linter.unusedVariables false
variable {α : Type} [Inhabited α]

def XYInv (nx ny : Nat) (st : XY α) : Prop := st.1.size = nx ∧ st.2.size = ny

theorem qsSwap_safe (nx ny : Nat) (st : XY α) (hst : XYInv nx ny st) (i j : Int) (i0 : 0 ≤ i)
    (i1 : i < (nx : Int)) (i2 : i < (ny : Int)) (j0 : 0 ≤ j) (j1 : j < (nx : Int)) (j2 : j < (ny : Int)) :
    Safe (qsSwap st i j) (XYInv nx ny) := by
  obtain ⟨h1, h2⟩ := hst
  unfold qsSwap
  refine Safe.bind (rd_safe st.1 i i0 (by rw [h1]; omega)) (fun t _ => ?_)
  refine Safe.bind (rd_safe st.1 j j0 (by rw [h1]; omega)) (fun xj _ => ?_)
  refine Safe.bind (wr_safe st.1 i xj i0 (by rw [h1]; omega)) (fun x1 hx1 => ?_)
  refine Safe.bind (wr_safe x1 j t j0 (by rw [hx1, h1]; omega)) (fun x2 hx2 => ?_)
  refine Safe.bind (rd_safe st.2 i i0 (by rw [h2]; omega)) (fun ti _ => ?_)
  refine Safe.bind (rd_safe st.2 j j0 (by rw [h2]; omega)) (fun yj _ => ?_)
  refine Safe.bind (wr_safe st.2 i yj i0 (by rw [h2]; omega)) (fun y1 hy1 => ?_)
  refine Safe.bind (wr_safe y1 j ti j0 (by rw [hy1, h2]; omega)) (fun y2 hy2 => ?_)
  exact Safe.pure ⟨by show x2.size = nx; rw [hx2, hx1, h1], by show y2.size = ny; rw [hy2, hy1, h2]⟩

/-- **`qsort_twoarrays`**: on any range `0 ≤ left`, `right < min(|x|, |y|)` the recursion terminates within
fuel `right - left` and every access (including the four of each `swap`) stays in range -/
theorem qsortTwo_safe (o : KOps α) (lt : α → α → Bool) (nx ny : Nat) :
    ∀ (fuel : Nat) (left right : Int) (st : XY α), XYInv nx ny st → 0 ≤ left → right < (nx : Int) →
      right < (ny : Int) → (right - left).toNat ≤ fuel →
      Safe (qsortTwo o lt fuel left right st) (XYInv nx ny) := by
  intro fuel
  induction fuel with
  | zero =>
    intro left right st hst l0 r1 r2 hf
    unfold qsortTwo
    rw [if_pos (by omega)]; exact Safe.pure hst
  | succ f ih =>
    intro left right st hst l0 r1 r2 hf
    unfold qsortTwo
    by_cases hlr : left ≥ right
    · rw [if_pos hlr]; exact Safe.pure hst
    · rw [if_neg hlr]
      have hmid : left ≤ (left + right) / 2 ∧ (left + right) / 2 ≤ right := by omega
      refine Safe.bind (qsSwap_safe nx ny st hst left _ l0 (by omega) (by omega) (by omega) (by omega) (by omega))
        (fun st1 hst1 => ?_)
      refine Safe.bind (P := fun acc : XY α × Int => XYInv nx ny acc.1 ∧ left ≤ acc.2 ∧ acc.2 ≤ right) ?_
        (fun r hr => ?_)
      · refine Safe.mono (forRange_safe_idx
          (fun (i : Int) (acc : XY α × Int) => XYInv nx ny acc.1 ∧ left ≤ acc.2 ∧ acc.2 < i)
          (left + 1) (right + 1) (by omega) _ _ ⟨hst1, Int.le_refl _, by show left < left + 1; omega⟩ ?_)
          (fun acc h => ⟨h.1, h.2.1, by omega⟩)
        intro i i0 i1 acc hacc
        obtain ⟨g1, g2, g3⟩ := hacc
        refine Safe.bind (rd_safe acc.1.1 i (by omega) (by rw [g1.1]; omega)) (fun xi _ => ?_)
        refine Safe.bind (rd_safe acc.1.1 left l0 (by rw [g1.1]; omega)) (fun xl _ => ?_)
        by_cases hc : lt (o.norm xi) (o.norm xl) = true
        · rw [if_pos hc]
          refine Safe.bind (qsSwap_safe nx ny acc.1 g1 (acc.2 + 1) i (by omega) (by omega) (by omega) (by omega)
            (by omega) (by omega)) (fun st2 hst2 => ?_)
          exact Safe.pure ⟨hst2, by show left ≤ acc.2 + 1; omega, by show acc.2 + 1 < i + 1; omega⟩
        · rw [if_neg hc]; exact Safe.pure ⟨g1, g2, by omega⟩
      · obtain ⟨g1, g2, g3⟩ := hr
        refine Safe.bind (qsSwap_safe nx ny r.1 g1 left r.2 l0 (by omega) (by omega) (by omega) (by omega) (by omega))
          (fun st3 hst3 => ?_)
        refine Safe.bind (ih left (r.2 - 1) st3 hst3 l0 (by omega) (by omega) (by omega)) (fun st4 hst4 => ?_)
        exact ih (r.2 + 1) right st4 hst4 (by omega) r1 r2 (by omega)

/-- **`truncate_rows_csr`**: `S` a structurally valid `n × m` CSR matrix, `k ≥ 0`: every row longer than `k`
is sorted (terminating, in range) and its `rowlen - k` smallest entries are zeroed -/
theorem truncateRows_safe (o : KOps α) (lt : α → α → Bool) (k : Int) (hk : 0 ≤ k) (S : Csr α) {m : Nat}
    (hS : WFm S m) :
    Safe (truncateRows o lt k S) (fun st => st.1.size = S.ax.size ∧ st.2.size = S.aj.size) := by
  unfold truncateRows
  apply forRange_safe (XYInv S.ax.size S.aj.size) 0 (S.n : Int) _ _ ⟨rfl, rfl⟩
  intro i i0 i1 st hst
  have hin : i.toNat < S.n := by omega
  obtain ⟨q1, q2⟩ := rd_ap_safe S hS i i0 i1
  refine Safe.bind q1 (fun s hs => ?_)
  refine Safe.bind q2 (fun e he => ?_)
  subst hs; subst he
  by_cases hc : S.ap.getD (i.toNat + 1) 0 - S.ap.getD i.toNat 0 > k
  · rw [if_pos hc]
    have hlo := ap_nonneg_m S hS i.toNat (by omega)
    have hhi := ap_le_last_m S hS (i.toNat + 1) (by omega)
    have hlj := hS.last_j
    have hlx := hS.last_x
    refine Safe.bind (qsortTwo_safe o lt S.ax.size S.aj.size _ _ _ st hst hlo (by omega) (by omega) (by omega))
      (fun st1 hst1 => ?_)
    refine Safe.bind (P := fun sx : Array α => sx.size = S.ax.size) ?_ (fun sx hsx => Safe.pure ⟨hsx, hst1.2⟩)
    apply forRange_safe (fun sx : Array α => sx.size = S.ax.size) _ _ _ _ hst1.1
    intro jj j1 j2 sx hsx
    exact Safe.mono (wr_safe sx jj _ (by omega) (by rw [hsx]; omega)) (fun a' h => by rw [h, hsx])
  · rw [if_neg hc]; exact Safe.pure hst

end PyamgV.C17
