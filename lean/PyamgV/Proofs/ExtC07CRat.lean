import PyamgV.Proofs.ExtC07CVec
import PyamgV.Proofs.CRatStar

/-! PyamgV (extension E37, property C07): the complex optimality theorems **for what op `c07_iter … c …` returns**.

* `iterates_spec` -- the list `iterates step den getx k s` the driver prints (`runByName`) consists of the `x` of the
  states `iter step (i+1) s`, and before each of them every denominator was non-zero (no breakdown);
* `cg_hvec_iterates_optimal`, `cgnr_…`, `cgne_…`, `cr_…` -- entry `i` of that list is the minimiser over the
  `(i+1)`-dimensional Krylov space, for any field with involution and real part;
* `cratRe : ReMap CRat Rat` -- the Gaussian rationals with `star = CRat.conj`, `re = CRat.re`;
* `cg_crat_optimal` … `mr_crat_step_optimal` -- the instances for `vecOps CRat.conj A M` on `Vector CRat n`, the very
  terms `runByName CRat.conj` evaluates (the instances `Add CRat` … found here are the ones of `Model/CRat.lean`,
  `crat_instances`). -/
set_option linter.unusedSectionVars false
namespace PyamgV.C07.CH
open PyamgV.CHerm PyamgV.C07

/-! ### what `iterates` returns -/
section iterates
variable {σ K V : Type} [OfNat K 0] [DecidableEq K]

theorem iter_comm (f : σ → σ) : ∀ k s, iter f k (f s) = f (iter f k s)
  | 0, _ => rfl
  | k+1, s => by simp only [iter]; rw [iter_comm f k s]

theorem iterates_spec (step : σ → σ) (den : σ → List K) (getx : σ → V) :
    ∀ k s i, i < (iterates step den getx k s).length →
      (iterates step den getx k s)[i]? = some (getx (iter step (i+1) s)) ∧
      ∀ j, j ≤ i → ∀ d ∈ den (iter step j s), d ≠ 0
  | 0, s, i, h => by simp [iterates] at h
  | k+1, s, i, h => by
    unfold iterates at h ⊢
    by_cases hz : (den s).any (· == 0) = true
    · rw [if_pos hz] at h; simp at h
    · rw [if_neg hz] at h ⊢
      have hden : ∀ d ∈ den s, d ≠ 0 := by
        intro d hd h0
        apply hz
        rw [List.any_eq_true]
        exact ⟨d, hd, by simp [h0]⟩
      cases i with
      | zero =>
        refine ⟨rfl, ?_⟩
        intro j hj d hd
        have : j = 0 := by omega
        subst this
        exact hden d hd
      | succ i =>
        simp only [List.length_cons, Nat.add_lt_add_iff_right] at h
        obtain ⟨h1, h2⟩ := iterates_spec step den getx k (step s) i h
        refine ⟨?_, ?_⟩
        · simp only [List.getElem?_cons_succ]
          rw [h1, iter_comm]; rfl
        · intro j hj d hd
          cases j with
          | zero => exact hden d hd
          | succ j =>
            have := h2 j (by omega) d
            rw [iter_comm] at this
            exact this hd

end iterates

/-! ### the entries of the printed list are the minimisers (any field with involution and real part) -/
section generic
variable {K F : Type} [Field K] [StarRing K] [DecidableEq K] [Field F] [LinearOrder F] [IsStrictOrderedRing F] {n : Nat}
variable (R : ReMap K F) (A M : Vector (Vector K n) n) (b x0 : Vector K n)

local notation "ov" => vecOps (star : K → K) A M

/-- **CG**: entry `i` of the list of iterates lies in `x₀ + K_{i+1}(MA, M r₀)` and minimises the energy norm of the
error over it -/
theorem cg_hvec_iterates_optimal (hA : IsHerm A) (hM : IsHerm M) (hpd : IsHPD R A) (xs : Vector K n)
    (hxs : vmv A xs = b) (k i : Nat)
    (hi : i < (iterates (cgStep ov b) (cgDen ov) (·.x) k (cgInit ov b x0)).length) :
    ∃ x, (iterates (cgStep ov b) (cgDen ov) (·.x) k (cgInit ov b x0))[i]? = some x ∧
      toFn x - toFn x0 ∈ CPCG.kry (linOf A) (linOf M) (dotH R n) (toFn b) (toFn x0) (i+1) ∧
      ∀ y : Vector K n,
        toFn y - toFn x0 ∈ CPCG.kry (linOf A) (linOf M) (dotH R n) (toFn b) (toFn x0) (i+1) →
        energyH R A (subV xs x) ≤ energyH R A (subV xs y) := by
  obtain ⟨h1, h2⟩ := iterates_spec _ _ _ k _ i hi
  refine ⟨_, h1, ?_⟩
  exact cg_hvec_optimal R A M b x0 hA hM hpd xs hxs (i+1)
    (fun j hj => h2 j (by omega) _ (by simp [cgDen, cgVecH]))

/-- **CGNR**: entry `i` minimises `‖b − A x‖₂` over `x₀ + K_{i+1}(M AᴴA, M Aᴴ r₀)` -/
theorem cgnr_hvec_iterates_optimal (hM : IsHerm M) (hinj : ∀ v : Fin n → K, linOf A v = 0 → v = 0)
    (xs : Vector K n) (hxs : vmv A xs = b) (k i : Nat)
    (hi : i < (iterates (cgnrStep ov b) (cgnrDen ov) (·.x) k (cgnrInit ov b x0)).length) :
    let AT := linOf (vctrans star A)
    ∃ x, (iterates (cgnrStep ov b) (cgnrDen ov) (·.x) k (cgnrInit ov b x0))[i]? = some x ∧
      toFn x - toFn x0 ∈ CPCG.kry (AT ∘ₗ linOf A) (linOf M) (dotH R n) (AT (toFn b)) (toFn x0) (i+1) ∧
      ∀ y : Vector K n,
        toFn y - toFn x0 ∈ CPCG.kry (AT ∘ₗ linOf A) (linOf M) (dotH R n) (AT (toFn b)) (toFn x0) (i+1) →
        normSqH R (subV b (vmv A x)) ≤ normSqH R (subV b (vmv A y)) := by
  intro AT
  obtain ⟨h1, h2⟩ := iterates_spec _ _ _ k _ i hi
  refine ⟨_, h1, ?_⟩
  exact cgnr_hvec_optimal R A M b x0 hM hinj xs hxs (i+1)
    (fun j hj => h2 j (by omega) _ (by simp [cgnrDen, cgnrVecH]))

/-- **CGNE**: entry `i` lies in `x₀ + Aᴴ K_{i+1}(M A Aᴴ, M r₀)` and minimises `‖x* − x‖₂` over it -/
theorem cgne_hvec_iterates_optimal (hM : IsHerm M)
    (hinj : ∀ v : Fin n → K, linOf (vctrans star A) v = 0 → v = 0)
    (ys : Fin n → K)
    (hys : linOf A (linOf (vctrans star A) ys) = toFn b - linOf A (toFn x0)) (k i : Nat)
    (hi : i < (iterates (cgneStep ov b) (cgneDen ov) (·.x) k (cgneInit ov b x0)).length) :
    let AT := linOf (vctrans star A)
    ∃ x, (iterates (cgneStep ov b) (cgneDen ov) (·.x) k (cgneInit ov b x0))[i]? = some x ∧
      (∃ y, y ∈ CPCG.kry (linOf A ∘ₗ AT) (linOf M) (dotH R n) (toFn b - linOf A (toFn x0)) 0 (i+1) ∧
        toFn x = toFn x0 + AT y) ∧
      ∀ y, y ∈ CPCG.kry (linOf A ∘ₗ AT) (linOf M) (dotH R n) (toFn b - linOf A (toFn x0)) 0 (i+1) →
        (dotH R n).en ((toFn x0 + AT ys) - toFn x) ≤ (dotH R n).en ((toFn x0 + AT ys) - (toFn x0 + AT y)) := by
  intro AT
  obtain ⟨h1, h2⟩ := iterates_spec _ _ _ k _ i hi
  refine ⟨_, h1, ?_⟩
  exact cgne_hvec_optimal R A M b x0 hM hinj ys hys (i+1)
    (fun j hj => h2 j (by omega) _ (by simp [cgneDen, cgneVecH]))

/-- **CR with a preconditioner commuting with `A`**: entry `i` minimises `‖b − A x‖₂` over `x₀ + K_{i+1}(MA, M r₀)` -/
theorem cr_hvec_iterates_optimal (hA : IsHerm A) (hM : IsHerm M) (hpd : IsHPD R A)
    (hcomm : ∀ v : Fin n → K, linOf M (linOf A v) = linOf A (linOf M v))
    (xs : Vector K n) (hxs : vmv A xs = b) (k i : Nat)
    (hi : i < (iterates (crStep ov b) (crDen ov) (·.x) k (crInit ov b x0)).length) :
    ∃ x, (iterates (crStep ov b) (crDen ov) (·.x) k (crInit ov b x0))[i]? = some x ∧
      toFn x - toFn x0 ∈ CPCG.kry (linOf A) (linOf M) (dotH R n) (toFn b) (toFn x0) (i+1) ∧
      ∀ y : Vector K n, toFn y - toFn x0 ∈ CPCG.kry (linOf A) (linOf M) (dotH R n) (toFn b) (toFn x0) (i+1) →
        normSqH R (subV b (vmv A x)) ≤ normSqH R (subV b (vmv A y)) := by
  obtain ⟨h1, h2⟩ := iterates_spec _ _ _ k _ i hi
  refine ⟨_, h1, ?_⟩
  exact cr_hvec_optimal R A M b x0 hA hM hpd hcomm xs hxs (i+1)
    (fun j hj => h2 j (by omega) _ (by simp [crDen, crVecH]))

end generic

/-! ### the Gaussian rationals -/

/-- the instances found for `CRat` in a Mathlib context are the ones of `Model/CRat.lean` the driver computes with -/
theorem crat_instances :
    (inferInstance : Add CRat) = CRat.instAdd ∧ (inferInstance : Sub CRat) = CRat.instSub ∧
    (inferInstance : Mul CRat) = CRat.instMul ∧ (inferInstance : Div CRat) = CRat.instDiv ∧
    (star : CRat → CRat) = CRat.conj := ⟨rfl, rfl, rfl, rfl, rfl⟩

/-- `re : CRat → Rat` -/
def cratRe : ReMap CRat Rat where
  re := { toFun := CRat.re, map_zero' := rfl, map_add' := CRat.add_re }
  re_star z := rfl
  sq_nonneg z := by
    show 0 ≤ (star z * z).re
    rw [CRat.mul_re, CRat.star_re, CRat.star_im]
    nlinarith [mul_self_nonneg z.re, mul_self_nonneg z.im]
  sq_def z h := by
    have h' : (star z * z).re = 0 := h
    rw [CRat.mul_re, CRat.star_re, CRat.star_im] at h'
    have hre : z.re = 0 := by nlinarith [mul_self_nonneg z.re, mul_self_nonneg z.im]
    have him : z.im = 0 := by nlinarith [mul_self_nonneg z.re, mul_self_nonneg z.im]
    exact CRat.ext' hre him

@[simp] theorem cratRe_re (z : CRat) : cratRe.re z = z.re := rfl

section crat
variable {n : Nat} (A M : Vector (Vector CRat n) n) (b x0 : Vector CRat n)

local notation "oc" => vecOps CRat.conj A M

/-- `re (dᴴ A d)` / `re (dᴴ d)` with the model's operations -/
def energyC (A : Vector (Vector CRat n) n) (d : Vector CRat n) : Rat := (vdot CRat.conj (vmv A d) d).re
def normSqC (d : Vector CRat n) : Rat := (vdot CRat.conj d d).re

/-- the energy is a real number: the imaginary part of `dᴴ A d` vanishes for Hermitian `A` -/
theorem energyC_im_zero (hA : IsHerm A) (d : Vector CRat n) : (vdot CRat.conj (vmv A d) d).im = 0 := by
  have h := (dotH cratRe n).herm_star (T := linOf A) (linOf_herm cratRe hA) (toFn d)
  have e : vdot CRat.conj (vmv A d) d = (dotH cratRe n).h (linOf A (toFn d)) (toFn d) := by
    rw [show CRat.conj = (star : CRat → CRat) from rfl, vdot_conj_eq, toFn_vmv]; rfl
  rw [e]
  have := congrArg CRat.im h
  rw [CRat.star_im] at this
  linarith

/-- **CG on Gaussian rationals** (op `c07_iter cg c`): `A`, `M` Hermitian, `A` positive definite ⇒ entry `i` of the
list the driver returns lies in `x₀ + K_{i+1}(MA, M r₀)` and minimises `re (eᴴ A e)`, `e = x* − x`, over it -/
theorem cg_crat_optimal (hA : IsHerm A) (hM : IsHerm M) (hpd : IsHPD cratRe A) (xs : Vector CRat n)
    (hxs : vmv A xs = b) (k i : Nat)
    (hi : i < (iterates (cgStep oc b) (cgDen oc) (·.x) k (cgInit oc b x0)).length) :
    ∃ x, (iterates (cgStep oc b) (cgDen oc) (·.x) k (cgInit oc b x0))[i]? = some x ∧
      toFn x - toFn x0 ∈ CPCG.kry (linOf A) (linOf M) (dotH cratRe n) (toFn b) (toFn x0) (i+1) ∧
      ∀ y : Vector CRat n,
        toFn y - toFn x0 ∈ CPCG.kry (linOf A) (linOf M) (dotH cratRe n) (toFn b) (toFn x0) (i+1) →
        energyC A (subV xs x) ≤ energyC A (subV xs y) :=
  cg_hvec_iterates_optimal cratRe A M b x0 hA hM hpd xs hxs k i hi

/-- … and the energy norm of the error does not increase from state `k` to state `k+1` -/
theorem cg_crat_monotone (hA : IsHerm A) (hM : IsHerm M) (hpd : IsHPD cratRe A) (xs : Vector CRat n)
    (hxs : vmv A xs = b) (k : Nat)
    (hnb : ∀ j, j < k + 1 → (iter (cgStep oc b) j (cgInit oc b x0)).rz ≠ 0) :
    energyC A (subV xs (iter (cgStep oc b) (k+1) (cgInit oc b x0)).x) ≤
      energyC A (subV xs (iter (cgStep oc b) k (cgInit oc b x0)).x) :=
  cg_hvec_monotone cratRe A M b x0 hA hM hpd xs hxs k hnb

/-- **CGNR on Gaussian rationals** -/
theorem cgnr_crat_optimal (hM : IsHerm M) (hinj : ∀ v : Fin n → CRat, linOf A v = 0 → v = 0)
    (xs : Vector CRat n) (hxs : vmv A xs = b) (k i : Nat)
    (hi : i < (iterates (cgnrStep oc b) (cgnrDen oc) (·.x) k (cgnrInit oc b x0)).length) :
    let AT := linOf (vctrans CRat.conj A)
    ∃ x, (iterates (cgnrStep oc b) (cgnrDen oc) (·.x) k (cgnrInit oc b x0))[i]? = some x ∧
      toFn x - toFn x0 ∈ CPCG.kry (AT ∘ₗ linOf A) (linOf M) (dotH cratRe n) (AT (toFn b)) (toFn x0) (i+1) ∧
      ∀ y : Vector CRat n,
        toFn y - toFn x0 ∈ CPCG.kry (AT ∘ₗ linOf A) (linOf M) (dotH cratRe n) (AT (toFn b)) (toFn x0) (i+1) →
        normSqC (subV b (vmv A x)) ≤ normSqC (subV b (vmv A y)) :=
  cgnr_hvec_iterates_optimal cratRe A M b x0 hM hinj xs hxs k i hi

/-- **CGNE on Gaussian rationals** -/
theorem cgne_crat_optimal (hM : IsHerm M)
    (hinj : ∀ v : Fin n → CRat, linOf (vctrans CRat.conj A) v = 0 → v = 0)
    (ys : Fin n → CRat)
    (hys : linOf A (linOf (vctrans CRat.conj A) ys) = toFn b - linOf A (toFn x0)) (k i : Nat)
    (hi : i < (iterates (cgneStep oc b) (cgneDen oc) (·.x) k (cgneInit oc b x0)).length) :
    let AT := linOf (vctrans CRat.conj A)
    ∃ x, (iterates (cgneStep oc b) (cgneDen oc) (·.x) k (cgneInit oc b x0))[i]? = some x ∧
      (∃ y, y ∈ CPCG.kry (linOf A ∘ₗ AT) (linOf M) (dotH cratRe n) (toFn b - linOf A (toFn x0)) 0 (i+1) ∧
        toFn x = toFn x0 + AT y) ∧
      ∀ y, y ∈ CPCG.kry (linOf A ∘ₗ AT) (linOf M) (dotH cratRe n) (toFn b - linOf A (toFn x0)) 0 (i+1) →
        (dotH cratRe n).en ((toFn x0 + AT ys) - toFn x) ≤
          (dotH cratRe n).en ((toFn x0 + AT ys) - (toFn x0 + AT y)) :=
  cgne_hvec_iterates_optimal cratRe A M b x0 hM hinj ys hys k i hi

/-- **CR on Gaussian rationals, preconditioner commuting with `A`** (the identity, `c I + d A`, …) -/
theorem cr_crat_optimal (hA : IsHerm A) (hM : IsHerm M) (hpd : IsHPD cratRe A)
    (hcomm : ∀ v : Fin n → CRat, linOf M (linOf A v) = linOf A (linOf M v))
    (xs : Vector CRat n) (hxs : vmv A xs = b) (k i : Nat)
    (hi : i < (iterates (crStep oc b) (crDen oc) (·.x) k (crInit oc b x0)).length) :
    ∃ x, (iterates (crStep oc b) (crDen oc) (·.x) k (crInit oc b x0))[i]? = some x ∧
      toFn x - toFn x0 ∈ CPCG.kry (linOf A) (linOf M) (dotH cratRe n) (toFn b) (toFn x0) (i+1) ∧
      ∀ y : Vector CRat n,
        toFn y - toFn x0 ∈ CPCG.kry (linOf A) (linOf M) (dotH cratRe n) (toFn b) (toFn x0) (i+1) →
        normSqC (subV b (vmv A x)) ≤ normSqC (subV b (vmv A y)) :=
  cr_hvec_iterates_optimal cratRe A M b x0 hA hM hpd hcomm xs hxs k i hi

/-- **steepest descent on Gaussian rationals**: every step is the exact line search over `t ∈ CRat` -/
theorem sd_crat_step_optimal (hA : IsHerm A) (hM : IsHerm M) (hpd : IsHPD cratRe A) (xs : Vector CRat n)
    (hxs : vmv A xs = b)
    (s : SdSt CRat (Vector CRat n)) (hr : s.r = subV b (vmv A s.x)) (hz : s.z = vmv M s.r)
    (hrz : s.rz = vdot CRat.conj s.r s.z) (hden : vdot CRat.conj s.z (vmv A s.z) ≠ 0) (t : CRat) :
    energyC A (subV xs (sdStep oc b s).x) ≤
      energyC A (subV xs (Vector.zipWith (· + ·) s.x (s.z.map (t * ·)))) :=
  sd_hvec_step_optimal cratRe A M b hA hM hpd xs hxs s hr hz hrz hden t

/-- **minimal residual on Gaussian rationals**: every step is the exact line search over `t ∈ CRat` -/
theorem mr_crat_step_optimal (s : MrSt CRat (Vector CRat n)) (hz : s.z = vmv M (subV b (vmv A s.x)))
    (hden : vdot CRat.conj (vmv M (vmv A s.z)) (vmv M (vmv A s.z)) ≠ 0) (t : CRat) :
    normSqC (vmv M (subV b (vmv A (mrStep oc b s).x))) ≤
      normSqC (vmv M (subV b (vmv A (Vector.zipWith (· + ·) s.x (s.z.map (t * ·)))))) :=
  mr_hvec_step_optimal cratRe A M b s hz hden t

end crat

#print axioms iterates_spec
#print axioms cg_crat_optimal
#print axioms cg_crat_monotone
#print axioms cgnr_crat_optimal
#print axioms cgne_crat_optimal
#print axioms cr_crat_optimal
#print axioms sd_crat_step_optimal
#print axioms mr_crat_step_optimal
end PyamgV.C07.CH
