import PyamgV.Proofs.CljpRefine
import Mathlib.Data.List.Nodup

/-! PyamgV (reusable CSR fact, discharges three fields of `KCljp.SOK`): for a row pointer that is
non-decreasing, the stored entries `(row, position, column)` are pairwise distinct, a position
determines its entry, and every position is below `ap[n]`. Core Lean only. -/
namespace PyamgV.KCljp

structure ApMono (S : Csr) : Prop where
  mono : ∀ i, i < S.n → rdN S.ap i ≤ rdN S.ap (i+1)

theorem ap_le {S : Csr} (h : ApMono S) : ∀ d i, i + d ≤ S.n → rdN S.ap i ≤ rdN S.ap (i + d) := by
  intro d
  induction d with
  | zero => intro i _; exact Nat.le_refl _
  | succ d ih =>
    intro i hi
    have := ih i (by omega)
    have h2 := h.mono (i + d) (by omega)
    exact Nat.le_trans this h2

theorem ap_le' {S : Csr} (h : ApMono S) {i j : Nat} (hij : i ≤ j) (hj : j ≤ S.n) :
    rdN S.ap i ≤ rdN S.ap j := by
  have := ap_le h (j - i) i (by omega)
  have e : i + (j - i) = j := by omega
  rwa [e] at this

/-- an entry of row `i` sits at a position inside the row's range -/
theorem allE_pos {S : Csr} {e : Nat × Nat × Nat} (he : e ∈ allE S) :
    e.1 < S.n ∧ rdN S.ap e.1 ≤ e.2.1 ∧ e.2.1 < rdN S.ap (e.1 + 1) ∧ e.2.2 = rdN S.aj e.2.1 := by
  obtain ⟨h1, h2⟩ := allE_row he
  unfold Csr.rowPos at h2
  rw [List.mem_map] at h2
  obtain ⟨jj, hjj, heq⟩ := h2
  rw [List.mem_range'_1] at hjj
  have e1 : e.2.1 = jj := by have := congrArg Prod.fst heq; exact this.symm
  have e2 : e.2.2 = rdN S.aj jj := by have := congrArg Prod.snd heq; exact this.symm
  refine ⟨h1, by omega, by omega, by rw [e2, e1]⟩

theorem posInj_of_mono {S : Csr} (h : ApMono S) :
    ∀ e ∈ allE S, ∀ e' ∈ allE S, e.2.1 = e'.2.1 → e = e' := by
  intro e he e' he' hp
  obtain ⟨h1, h2, h3, h4⟩ := allE_pos he
  obtain ⟨g1, g2, g3, g4⟩ := allE_pos he'
  have hrow : e.1 = e'.1 := by
    apply Classical.byContradiction
    intro hne
    rcases Nat.lt_or_gt_of_ne hne with hlt | hlt
    · have := ap_le' h (show e.1 + 1 ≤ e'.1 by omega) (by omega)
      omega
    · have := ap_le' h (show e'.1 + 1 ≤ e.1 by omega) (by omega)
      omega
  have hcol : e.2.2 = e'.2.2 := by rw [h4, g4, hp]
  exact Prod.ext hrow (Prod.ext hp hcol)

theorem posLt_of_mono {S : Csr} (h : ApMono S) : ∀ e ∈ allE S, e.2.1 < rdN S.ap S.n := by
  intro e he
  obtain ⟨h1, _, h3, _⟩ := allE_pos he
  have := ap_le' h (show e.1 + 1 ≤ S.n by omega) (Nat.le_refl _)
  omega

theorem nodup_of_mono {S : Csr} (h : ApMono S) : (allE S).Nodup := by
  unfold allE
  rw [List.nodup_flatMap]
  refine ⟨?_, ?_⟩
  · intro i _
    apply List.Nodup.map
    · intro a b hab
      exact Prod.ext (by have := congrArg (fun t => t.2.1) hab; exact this)
        (by have := congrArg (fun t => t.2.2) hab; exact this)
    · unfold Csr.rowPos
      apply List.Nodup.map
      · intro a b hab; exact congrArg Prod.fst hab
      · exact List.nodup_range'
  · apply List.Pairwise.imp (R := fun a b : Nat => a ≠ b)
    · intro i i' hne
      intro x hx hx'
      rw [List.mem_map] at hx hx'
      obtain ⟨pm, _, rfl⟩ := hx
      obtain ⟨pm', _, heq⟩ := hx'
      exact hne (congrArg Prod.fst heq).symm
    · exact List.nodup_range

#print axioms posInj_of_mono
#print axioms nodup_of_mono
end PyamgV.KCljp
