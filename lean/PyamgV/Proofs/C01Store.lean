import PyamgV.Model.C01Store
/-! PyamgV: C01 — on the store model no buffer of the caller is written, and neither the returned
array nor any callback argument lives in a caller's buffer. Core only. -/
namespace PyamgV.C01.Store

variable {V : Type}

/-- `h` extends `h0` without touching it -/
def Pres (h0 h : Heap V) : Prop := h0.size ≤ h.size ∧ ∀ i, i < h0.size → h[i]? = h0[i]?

theorem pres_refl (h0 : Heap V) : Pres h0 h0 := ⟨Nat.le_refl _, fun _ _ => rfl⟩

theorem pres_alloc {h0 h : Heap V} (hp : Pres h0 h) (c : List V) :
    Pres h0 (alloc h c).1 ∧ h0.size ≤ (alloc h c).2 := by
  refine ⟨⟨?_, ?_⟩, hp.1⟩
  · simp only [alloc, Array.size_push]; have := hp.1; omega
  · intro i hi
    simp only [alloc]
    rw [Array.getElem?_push]
    have : i ≠ h.size := by have := hp.1; omega
    simp only [this, if_false]
    exact hp.2 i hi

theorem pres_maybeCopy {h0 h : Heap V} (hp : Pres h0 h) (copy : Bool) (f : List V → List V) (i : Nat) :
    Pres h0 (maybeCopy copy f h i).1 ∧
      ((maybeCopy copy f h i).2 = i ∧ copy = false ∨ h0.size ≤ (maybeCopy copy f h i).2) := by
  cases copy with
  | false => exact ⟨hp, Or.inl ⟨rfl, rfl⟩⟩
  | true =>
    have := pres_alloc hp (f (rd h i))
    exact ⟨this.1, Or.inr this.2⟩

theorem pres_set {h0 h : Heap V} (hp : Pres h0 h) (j : Nat) (hj : h0.size ≤ j) (c : List V) :
    Pres h0 (h.setIfInBounds j c) := by
  refine ⟨by simp only [Array.size_setIfInBounds]; exact hp.1, ?_⟩
  intro i hi
  rw [Array.getElem?_setIfInBounds]
  have : j ≠ i := by omega
  simp only [this, if_false]
  exact hp.2 i hi

theorem cycles_pres (cycle : List V → List V → List V) (coarse : List V → List V) (oneLevel : Bool)
    (bB : Nat) (h0 : Heap V) :
    ∀ (k : Nat) (h : Heap V) (xB : Nat) (cb wr : List Nat), Pres h0 h → h0.size ≤ xB →
      (∀ c ∈ cb, h0.size ≤ c) → (∀ w ∈ wr, h0.size ≤ w) →
      let r := cycles cycle coarse oneLevel bB k h xB cb wr
      Pres h0 r.1 ∧ h0.size ≤ r.2.1 ∧ (∀ c ∈ r.2.2.1, h0.size ≤ c) ∧ (∀ w ∈ r.2.2.2, h0.size ≤ w) := by
  intro k
  induction k with
  | zero => intro h xB cb wr hp hx hc hw; exact ⟨hp, hx, hc, hw⟩
  | succ k ih =>
    intro h xB cb wr hp hx hc hw
    cases oneLevel with
    | true =>
      have ha := pres_alloc hp (coarse (rd h bB))
      simp only [cycles, if_true]
      apply ih _ _ _ _ ha.1 ha.2
      · intro c hcm
        rcases List.mem_append.mp hcm with h1 | h1
        · exact hc c h1
        · have : c = (alloc h (coarse (rd h bB))).2 := by simpa using h1
          rw [this]; exact ha.2
      · exact hw
    | false =>
      simp only [cycles, Bool.false_eq_true, if_false]
      apply ih _ _ _ _ (pres_set hp xB hx _) hx
      · intro c hcm
        rcases List.mem_append.mp hcm with h1 | h1
        · exact hc c h1
        · have : c = xB := by simpa using h1
          rw [this]; exact hx
      · intro w hwm
        rcases List.mem_append.mp hwm with h1 | h1
        · exact hw w h1
        · have : w = xB := by simpa using h1
          rw [this]; exact hx

theorem prologue_pres (zerosLike conv : List V → List V) (f : Flags) (h0 : Heap V) (bB x0B : Nat) :
    Pres h0 (prologue zerosLike conv f h0 bB x0B).1 ∧ h0.size ≤ (prologue zerosLike conv f h0 bB x0B).2.2 ∧
      ((prologue zerosLike conv f h0 bB x0B).2.1 = bB ∧ f.bConv = false ∧ f.bRavelCopy = false ∨
        h0.size ≤ (prologue zerosLike conv f h0 bB x0B).2.1) := by
  unfold prologue
  dsimp only
  have a1 := pres_alloc (pres_refl h0) (if f.x0given then rd h0 x0B else zerosLike (rd h0 bB))
  generalize alloc h0 (if f.x0given then rd h0 x0B else zerosLike (rd h0 bB)) = a at a1 ⊢
  have a2 := pres_maybeCopy a1.1 f.bConv conv bB
  generalize maybeCopy f.bConv conv a.1 bB = b2 at a2 ⊢
  have a3 := pres_maybeCopy a2.1 f.xConv conv a.2
  generalize maybeCopy f.xConv conv b2.1 a.2 = x2 at a3 ⊢
  have a4 := pres_maybeCopy a3.1 f.bRavelCopy id b2.2
  generalize maybeCopy f.bRavelCopy id x2.1 b2.2 = b3 at a4 ⊢
  have a5 := pres_maybeCopy a4.1 f.xRavelCopy id x2.2
  generalize maybeCopy f.xRavelCopy id b3.1 x2.2 = x3 at a5 ⊢
  have hx2 : h0.size ≤ x2.2 := by
    rcases a3.2 with h | h
    · rw [h.1]; exact a1.2
    · exact h
  have hx3 : h0.size ≤ x3.2 := by
    rcases a5.2 with h | h
    · rw [h.1]; exact hx2
    · exact h
  refine ⟨a5.1, hx3, ?_⟩
  rcases a4.2 with h | h
  · rcases a2.2 with g | g
    · left; exact ⟨by rw [h.1]; exact g.1, g.2, h.2⟩
    · right; rw [h.1]; exact g
  · right; exact h

/-- **inputs unchanged (store model)**: whatever the flags, the number of cycles, the cycle and the
coarse solver, every buffer that existed before the call (the caller's `b`, `x0`, matrix arrays, …)
holds the same content afterwards; the returned array, every callback argument and every buffer
written in place were created during the call; and `b` as the cycles see it is the caller's own
buffer only when neither `to_type` nor `ravel` had to copy it (otherwise it is new as well). -/
theorem solveStore_inputs_unchanged (cycle : List V → List V → List V)
    (coarse zerosLike conv : List V → List V) (f : Flags) (k : Nat) (h0 : Heap V) (bB x0B : Nat) :
    let t := solveStore cycle coarse zerosLike conv f k h0 bB x0B
    (∀ i, i < h0.size → t.heap[i]? = h0[i]?) ∧ h0.size ≤ t.ret ∧
      (∀ c ∈ t.cb, h0.size ≤ c) ∧ (∀ w ∈ t.writes, h0.size ≤ w) ∧
      (t.bUsed = bB ∧ f.bConv = false ∧ f.bRavelCopy = false ∨ h0.size ≤ t.bUsed) := by
  intro t
  have hp := prologue_pres zerosLike conv f h0 bB x0B
  have c := cycles_pres cycle coarse f.oneLevel (prologue zerosLike conv f h0 bB x0B).2.1 h0 k
    (prologue zerosLike conv f h0 bB x0B).1 (prologue zerosLike conv f h0 bB x0B).2.2 [] []
    hp.1 hp.2.1 (by simp) (by simp)
  exact ⟨c.1.2, c.2.1, c.2.2.1, c.2.2.2, hp.2.2⟩

end PyamgV.C01.Store
