import PyamgV.Model.ExtC11XGmres
import PyamgV.Proofs.C07GmresBack
import Mathlib.Tactic.LinearCombination

/-! PyamgV (C11, extension E49): the Givens sweep and the triangular solve of `dense_GMRES`
(`C11XG.givStep`, `C11XG.utSolve`), on the lists the model works with.

Every rotation is an invertible row operation applied to the whole Hessenberg array and to `g` at once
(`c² + s² = 1`; the columns left of the rotated ones are zero in the two rows, the entry set to zero
explicitly is the one the rotation annihilates), so the sweep does not change the solution set of the
square system `H y = g`; after it the array is upper triangular and `upper_tri_solve` solves it.  Hence
the `y` the model computes satisfies the *unrotated* Hessenberg system `Σ_k H[i,k] y_k = β δ_{i0}`
(`sweep_solves`). -/
namespace PyamgV.C11XG
open PyamgV.C07 Finset

variable {K : Type} [Field K] [LinearOrder K] [IsStrictOrderedRing K]

theorem hent_eq (H : List (List K)) (i k : Nat) : hent H i k = F (H.getD k []) i := rfl

/-- `m` columns of length `m + 1` -/
def Shape (m : Nat) (H : List (List K)) : Prop := H.length = m ∧ ∀ k < m, (H.getD k []).length = m + 1

theorem getD_mapIdx {α : Type} (f : Nat → List α → List α) (H : List (List α)) (k : Nat) (hk : k < H.length) :
    (H.mapIdx f).getD k [] = f k (H.getD k []) := by
  rw [List.getD_eq_getElem?_getD, List.getElem?_mapIdx, List.getD_eq_getElem?_getD,
    List.getElem?_eq_getElem hk]
  rfl

theorem getD_set_list {α : Type} (H : List (List α)) (p k : Nat) (x : List α) (hp : p < H.length) :
    (H.set p x).getD k [] = if k = p then x else H.getD k [] := by
  rw [List.getD_eq_getElem?_getD, List.getElem?_set, List.getD_eq_getElem?_getD]
  by_cases h : p = k
  · subst h; simp [hp]
  · have : ¬ k = p := fun h' => h h'.symm
    simp [h, this]

theorem hent_padCols (m : Nat) (cols : List (List K)) (i k : Nat) (hi : i ≤ m) (hk : k < m) :
    hent (padCols m cols) i k = hent cols i k := by
  unfold padCols
  rw [hent_eq, List.getD_eq_getElem _ _ (by simpa using hk)]
  simp only [List.getElem_map, List.getElem_range, F]
  rw [List.getD_eq_getElem _ _ (by simp; omega)]
  simp

theorem shape_padCols (m : Nat) (cols : List (List K)) : Shape m (padCols m cols) := by
  refine ⟨by simp [padCols], ?_⟩
  intro k hk
  unfold padCols
  rw [List.getD_eq_getElem _ _ (by simpa using hk)]
  simp

/-- the rotated array, entry by entry -/
def rotH (p : Nat) (c s : K) (H : List (List K)) (i k : Nat) : K :=
  if k = p ∧ i = p + 1 then 0
  else if p ≤ k then Givens.rot p c s (fun i => hent H i k) i else hent H i k

theorem givStep_rot (sqrt : K → K) (isZero : K → Bool) (m p : Nat) (H : List (List K)) (g : List K)
    (hS : Shape m H) (hp : p < m) (hz : isZero (hent H (p + 1) p) = false) :
    let c0 := 1 / sqrt (hent H p p * hent H p p + hent H (p + 1) p * hent H (p + 1) p)
    let s1 := hent H (p + 1) p * c0
    let c1 := c0 * hent H p p
    Shape m (givStep sqrt isZero (H, g) p).1 ∧
    (∀ k < m, ∀ i, hent (givStep sqrt isZero (H, g) p).1 i k = rotH p c1 s1 H i k) ∧
    (givStep sqrt isZero (H, g) p).2 = rotL p c1 s1 g := by
  intro c0 s1 c1
  have hstep : givStep sqrt isZero (H, g) p =
      (((H.mapIdx (fun k col => if p ≤ k then rotL p c1 s1 col else col)).set p
        ((((H.mapIdx (fun k col => if p ≤ k then rotL p c1 s1 col else col))).getD p []).set (p + 1) 0)),
       rotL p c1 s1 g) := by
    unfold givStep
    simp only [hz, Bool.false_eq_true, if_false]
    rfl
  rw [hstep]
  obtain ⟨hlen, hcol⟩ := hS
  have hmap : ∀ k < m, (H.mapIdx (fun k col => if p ≤ k then rotL p c1 s1 col else col)).getD k [] =
      if p ≤ k then rotL p c1 s1 (H.getD k []) else H.getD k [] := by
    intro k hk
    rw [getD_mapIdx _ _ _ (by omega)]
  have hml : (H.mapIdx (fun k col => if p ≤ k then rotL p c1 s1 col else col)).length = m := by
    rw [List.length_mapIdx, hlen]
  refine ⟨⟨by simp [hlen], ?_⟩, ?_, rfl⟩
  · intro k hk
    simp only
    rw [getD_set_list _ _ _ _ (by omega), hmap p hp]
    by_cases hkp : k = p
    · subst hkp
      rw [if_pos rfl, if_pos (Nat.le_refl k), List.length_set, length_rotL]
      exact hcol k hk
    · rw [if_neg hkp, hmap k hk]
      split
      · rw [length_rotL]; exact hcol k hk
      · exact hcol k hk
  · intro k hk i
    simp only
    rw [hent_eq, getD_set_list _ _ _ _ (by omega), hmap p hp]
    unfold rotH
    by_cases hkp : k = p
    · subst hkp
      simp only [if_true, le_refl, true_and]
      rw [F_set _ _ _ (by rw [length_rotL, hcol k hk]; omega), F_rotL _ _ _ _ (by rw [hcol k hk]; omega)]
      by_cases hi : i = k + 1
      · simp [hi]
      · simp only [hi, if_false]; rfl
    · rw [if_neg hkp, hmap k hk]
      have : ¬ (k = p ∧ i = p + 1) := fun h => hkp h.1
      rw [if_neg this]
      by_cases hpk : p ≤ k
      · rw [if_pos hpk, if_pos hpk, F_rotL _ _ _ _ (by rw [hcol k hk]; omega)]; rfl
      · rw [if_neg hpk, if_neg hpk]; rfl

/-! ### the sweep keeps the solution set -/

/-- the square system: rows and columns `< m` -/
def Sys (m : Nat) (H : List (List K)) (g : List K) (y : Nat → K) : Prop :=
  ∀ i < m, ∑ k ∈ range m, hent H i k * y k = F g i

structure SwInv (m p : Nat) (H0 : List (List K)) (g0 : List K) (H : List (List K)) (g : List K) : Prop where
  shape : Shape m H
  glen : m < g.length
  hess : ∀ i k, k < m → k + 1 < i → hent H i k = 0
  sub : ∀ k, k < p → hent H (k + 1) k = 0
  last : hent H m (m - 1) = 0
  sol : ∀ y, Sys m H g y → Sys m H0 g0 y

def isZ (a : K) : Bool := decide (a = 0)

theorem sweep_step (sqrt : K → K) (hsq : ∀ a, 0 ≤ a → sqrt a * sqrt a = a) (m p : Nat)
    (H0 : List (List K)) (g0 : List K) (H : List (List K)) (g : List K) (hp : p < m)
    (h : SwInv m p H0 g0 H g) :
    SwInv m (p + 1) H0 g0 (givStep sqrt isZ (H, g) p).1 (givStep sqrt isZ (H, g) p).2 := by
  by_cases hz : isZ (hent H (p + 1) p) = true
  · have hst : givStep sqrt isZ (H, g) p = (H, g) := by unfold givStep; simp only [hz, if_true]
    rw [hst]
    have h21 : hent H (p + 1) p = 0 := by simpa [isZ] using hz
    refine ⟨h.shape, h.glen, h.hess, ?_, h.last, h.sol⟩
    intro k hk
    by_cases hkp : k = p
    · subst hkp; exact h21
    · exact h.sub k (by omega)
  · have hzf : isZ (hent H (p + 1) p) = false := by simpa using hz
    have h21 : hent H (p + 1) p ≠ 0 := by simpa [isZ] using hz
    have hpm : p + 1 < m := by
      by_contra hcon
      have hpe : p = m - 1 := by omega
      apply h21
      have := h.last
      rw [hpe]
      have hm1 : m - 1 + 1 = m := by omega
      rw [hm1]; exact this
    obtain ⟨hS', hrot, hg'⟩ := givStep_rot sqrt isZ m p H g h.shape hp hzf
    generalize hh11 : hent H p p = h11 at hrot hg'
    generalize hh21 : hent H (p + 1) p = h21v at hrot hg' h21
    have hr2 : 0 < h11 * h11 + h21v * h21v := by
      have h1 : 0 ≤ h11 * h11 := mul_self_nonneg _
      have h2 : 0 < h21v * h21v := mul_self_pos.2 h21
      linarith
    have ht := hsq _ (le_of_lt hr2)
    generalize sqrt (h11 * h11 + h21v * h21v) = t at hrot hg' ht
    have htne : t ≠ 0 := by
      intro h0; rw [h0] at ht; simp at ht; linarith
    generalize hc : 1 / t * h11 = c at hrot hg'
    generalize hs : h21v * (1 / t) = s at hrot hg'
    have hcs : c * c + s * s = 1 := by
      rw [← hc, ← hs]
      field_simp
      linarith
    have hann : -s * h11 + c * h21v = 0 := by
      rw [← hc, ← hs]; ring
    generalize (givStep sqrt isZ (H, g) p).1 = H' at hS' hrot
    generalize (givStep sqrt isZ (H, g) p).2 = g' at hg'
    -- zero entries left of the rotated columns
    have hz1 : ∀ k, k < p → hent H p k = 0 := by
      intro k hk
      by_cases hk1 : k + 1 = p
      · rw [← hk1]; exact h.sub k hk
      · exact h.hess p k (by omega) (by omega)
    have hz2 : ∀ k, k < p → hent H (p + 1) k = 0 := fun k hk => h.hess (p + 1) k (by omega) (by omega)
    have R1 : ∀ k < m, hent H' p k = c * hent H p k + s * hent H (p + 1) k := by
      intro k hk
      rw [hrot k hk p]
      unfold rotH
      have : ¬ (k = p ∧ p = p + 1) := fun hh => by omega
      rw [if_neg this]
      by_cases hpk : p ≤ k
      · rw [if_pos hpk]; simp [Givens.rot]
      · rw [if_neg hpk, hz1 k (by omega), hz2 k (by omega)]; ring
    have R2 : ∀ k < m, hent H' (p + 1) k = -s * hent H p k + c * hent H (p + 1) k := by
      intro k hk
      rw [hrot k hk (p + 1)]
      unfold rotH
      by_cases hkp : k = p
      · subst hkp
        simp only [and_self, if_true]
        rw [hh11, hh21]; exact hann.symm
      · have : ¬ (k = p ∧ p + 1 = p + 1) := fun hh => hkp hh.1
        rw [if_neg this]
        by_cases hpk : p ≤ k
        · rw [if_pos hpk]; simp [Givens.rot]
        · rw [if_neg hpk, hz1 k (by omega), hz2 k (by omega)]; ring
    have R3 : ∀ i, i ≠ p → i ≠ p + 1 → ∀ k < m, hent H' i k = hent H i k := by
      intro i hi1 hi2 k hk
      rw [hrot k hk i]
      unfold rotH
      have : ¬ (k = p ∧ i = p + 1) := fun hh => hi2 hh.2
      rw [if_neg this]
      by_cases hpk : p ≤ k
      · rw [if_pos hpk]; simp [Givens.rot, hi1, hi2]
      · rw [if_neg hpk]
    have hgF : F g' = Givens.rot p c s (F g) := by
      rw [hg']; exact F_rotL p c s g (by have := h.glen; omega)
    refine ⟨hS', by rw [hg', length_rotL]; exact h.glen, ?_, ?_, ?_, ?_⟩
    · intro i k hk hik
      by_cases hi1 : i = p
      · subst hi1
        rw [R1 k hk, h.hess i k hk hik, h.hess (i + 1) k hk (by omega)]; ring
      · by_cases hi2 : i = p + 1
        · subst hi2
          rw [R2 k hk, hz1 k (by omega), h.hess (p + 1) k hk hik]; ring
        · rw [R3 i hi1 hi2 k hk]; exact h.hess i k hk hik
    · intro k hk
      by_cases hkp : k = p
      · subst hkp
        rw [R2 k hp, hh11, hh21]; exact hann
      · by_cases hk1 : k + 1 = p
        · rw [hk1, R1 k (by omega), hz1 k (by omega), hz2 k (by omega)]; ring
        · rw [R3 (k + 1) hk1 (by omega) k (by omega)]
          exact h.sub k (by omega)
    · rw [R3 m (by omega) (by omega) (m - 1) (by omega)]; exact h.last
    · intro y hy
      apply h.sol
      have e1 := hy p hp
      have e2 := hy (p + 1) hpm
      rw [Finset.sum_congr rfl (fun k hk => by rw [R1 k (Finset.mem_range.1 hk)])] at e1
      rw [Finset.sum_congr rfl (fun k hk => by rw [R2 k (Finset.mem_range.1 hk)])] at e2
      simp only [add_mul, Finset.sum_add_distrib, mul_assoc, ← Finset.mul_sum] at e1 e2
      rw [hgF] at e1 e2
      simp only [Givens.rot, if_true, Nat.succ_ne_self, if_false] at e1 e2
      intro i hi
      by_cases hi1 : i = p
      · subst hi1
        linear_combination c * e1 - s * e2 -
          (∑ k ∈ range m, hent H i k * y k - F g i) * hcs
      · by_cases hi2 : i = p + 1
        · subst hi2
          linear_combination s * e1 + c * e2 -
            (∑ k ∈ range m, hent H (p + 1) k * y k - F g (p + 1)) * hcs
        · have := hy i hi
          rw [Finset.sum_congr rfl (fun k hk => by rw [R3 i hi1 hi2 k (Finset.mem_range.1 hk)])] at this
          rw [this, hgF]
          simp [Givens.rot, hi1, hi2]

theorem sweep_inv (sqrt : K → K) (hsq : ∀ a, 0 ≤ a → sqrt a * sqrt a = a) (m : Nat)
    (H0 : List (List K)) (g0 : List K) (h0 : SwInv m 0 H0 g0 H0 g0) :
    ∀ p, p ≤ m → SwInv m p H0 g0 ((List.range p).foldl (givStep sqrt isZ) (H0, g0)).1
      ((List.range p).foldl (givStep sqrt isZ) (H0, g0)).2
  | 0, _ => h0
  | p+1, hp => by
    rw [List.range_succ, List.foldl_append]
    simp only [List.foldl_cons, List.foldl_nil]
    have ih := sweep_inv sqrt hsq m H0 g0 h0 p (by omega)
    generalize (List.range p).foldl (givStep sqrt isZ) (H0, g0) = st at ih ⊢
    obtain ⟨H, g⟩ := st
    exact sweep_step sqrt hsq m p H0 g0 H g (by omega) ih

/-! ### `upper_tri_solve` -/

theorem foldl_range_sub (f : Nat → K) (a : K) :
    ∀ N, (List.range N).foldl (fun t d => t - f d) a = a - ∑ d ∈ range N, f d
  | 0 => by simp
  | N+1 => by
    rw [List.range_succ, List.foldl_append, foldl_range_sub f a N, Finset.sum_range_succ]
    simp only [List.foldl_cons, List.foldl_nil]; ring

theorem utSolve_suffix (absK : K → K) (small : K → Bool) (H : List (List K)) (g : List K) :
    ∀ (i : Nat) (acc : List K), ∃ pre : List K, pre.length = i ∧ utSolve absK small H g i acc = pre ++ acc
  | 0, acc => ⟨[], rfl, rfl⟩
  | i+1, acc => by
    have hx : ∃ x, utSolve absK small H g (i + 1) acc = utSolve absK small H g i (x :: acc) := ⟨_, rfl⟩
    obtain ⟨x, hx⟩ := hx
    rw [hx]
    obtain ⟨pre, hl, he⟩ := utSolve_suffix absK small H g i (x :: acc)
    exact ⟨pre ++ [x], by simp [hl], by rw [he]; simp⟩

theorem utSolve_length (absK : K → K) (small : K → Bool) (H : List (List K)) (g : List K) (i : Nat) (acc : List K) :
    (utSolve absK small H g i acc).length = i + acc.length := by
  obtain ⟨pre, hl, he⟩ := utSolve_suffix absK small H g i acc
  rw [he, List.length_append, hl]

/-- every row handled by the call is solved -/
theorem utSolve_rows (absK : K → K) (small : K → Bool) (H : List (List K)) (g : List K) (m : Nat)
    (hdiag : ∀ i, i < m → small (absK (hent H i i)) = false ∧ hent H i i ≠ 0) :
    ∀ (i : Nat) (acc : List K), i ≤ m → acc.length = m - i →
      ∀ r, r < i → F g r = ∑ d ∈ range (m - r), hent H r (r + d) * F (utSolve absK small H g i acc) (r + d)
  | 0, _, _, _ => by intro r hr; omega
  | i+1, acc, hi, hacc => by
    intro r hr
    simp only [utSolve]
    obtain ⟨hsm, hne⟩ := hdiag i (by omega)
    simp only [hsm, Bool.false_eq_true, if_false]
    set temp := (List.range acc.length).foldl (fun t d => t - hent H i (i + 1 + d) * acc.getD d 0) (g.getD i 0)
      with htemp
    by_cases hri : r < i
    · exact utSolve_rows absK small H g m hdiag i (temp / hent H i i :: acc) (by omega)
        (by simp [hacc]; omega) r hri
    · have : r = i := by omega
      subst this
      obtain ⟨pre, hl, he⟩ := utSolve_suffix absK small H g r (temp / hent H r r :: acc)
      rw [he]
      have hm : m - r = (m - (r + 1)) + 1 := by omega
      rw [hm, Finset.sum_range_succ']
      have h0 : F (pre ++ temp / hent H r r :: acc) (r + 0) = temp / hent H r r := by
        have := F_pre_append pre (temp / hent H r r :: acc) 0
        rw [hl] at this; rw [this]; simp [F]
      have hd : ∀ d, F (pre ++ temp / hent H r r :: acc) (r + (d + 1)) = F acc d := by
        intro d
        have := F_pre_append pre (temp / hent H r r :: acc) (d + 1)
        rw [hl] at this; rw [this]; simp [F]
      rw [h0]
      simp only [hd]
      have hsum : temp = F g r - ∑ d ∈ range (m - (r + 1)), hent H r (r + (d + 1)) * F acc d := by
        rw [htemp, foldl_range_sub, hacc]
        congr 1
        refine Finset.sum_congr rfl (fun d _ => ?_)
        simp only [F]
        congr 2; omega
      rw [Nat.add_zero, hsum]
      field_simp
      ring_nf

/-- **the `y` of the model solves the unrotated Hessenberg system** -/
theorem sweep_solves (sqrt : K → K) (hsq : ∀ a, 0 ≤ a → sqrt a * sqrt a = a) (absK : K → K) (small : K → Bool)
    (m : Nat) (H0 : List (List K)) (g0 : List K) (h0 : SwInv m 0 H0 g0 H0 g0)
    (hdiag : ∀ i, i < m →
      small (absK (hent ((List.range m).foldl (givStep sqrt isZ) (H0, g0)).1 i i)) = false ∧
      hent ((List.range m).foldl (givStep sqrt isZ) (H0, g0)).1 i i ≠ 0) :
    Sys m H0 g0 (F (utSolve absK small ((List.range m).foldl (givStep sqrt isZ) (H0, g0)).1
      ((List.range m).foldl (givStep sqrt isZ) (H0, g0)).2 m [])) := by
  have hI := sweep_inv sqrt hsq m H0 g0 h0 m (Nat.le_refl m)
  generalize (List.range m).foldl (givStep sqrt isZ) (H0, g0) = st at hI hdiag ⊢
  obtain ⟨H, g⟩ := st
  simp only at hI hdiag ⊢
  apply hI.sol
  intro r hr
  have hrow := utSolve_rows absK small H g m hdiag m [] (Nat.le_refl m) (by simp) r hr
  rw [hrow]
  have hsplit := Finset.sum_range_add (fun k => hent H r k * F (utSolve absK small H g m []) k) r (m - r)
  rw [Nat.add_sub_cancel' (le_of_lt hr)] at hsplit
  rw [hsplit]
  have hzero : ∑ k ∈ range r, hent H r k * F (utSolve absK small H g m []) k = 0 := by
    apply Finset.sum_eq_zero
    intro k hk
    have hk' := Finset.mem_range.1 hk
    have : hent H r k = 0 := by
      by_cases hk1 : k + 1 = r
      · rw [← hk1]; exact hI.sub k (by omega)
      · exact hI.hess r k (by omega) (by omega)
    rw [this]; ring
  rw [hzero, zero_add]

end PyamgV.C11XG
