import PyamgV.Proofs.ExtC06GmresNorm

/-! PyamgV (C06, extension E16): **a non-zero estimate certifies that there was no breakdown.**

In the Givens bookkeeping of the three GMRES files (`givensUpdate`) the new entry `g[k+1]` is `−s_k g[k]` when the
rotation is computed and `0` when it is skipped (`H[k, k+1] = 0`, or the last iteration of a full cycle).  Hence
`g[k+1] ≠ 0` implies: the rotation was computed (`givensUpdate_nb`), the previous estimate `g[k]` is non-zero too,
and the new diagonal entry of the triangular factor is `sqrt (h_k² + h_{k+1}²) ≠ 0`.  By induction
(`nb_step`): a non-zero estimate after `k` inner iterations implies that the triangular factor `R_k` is
non-singular -- the hypothesis `hnbr` of the optimality theorems of C07 and of `givL_resnorm`.  Since the code
appends an estimate to `residuals` only when it is not below the (positive) threshold, every *recorded* estimate is
non-zero, and no separate no-breakdown hypothesis is needed for the truthfulness of the history. -/
namespace PyamgV.C07
open Finset

variable {K : Type} [Field K] [LinearOrder K] [IsStrictOrderedRing K]

/-- rotations `0 … m-1` do not touch the rows above `m` -/
theorem Q_high (c s : Nat → K) (u : Nat → K) : ∀ m l, m < l → Givens.Q c s m u l = u l
  | 0, _, _ => rfl
  | m+1, l, h => by
    simp only [Givens.Q, Givens.rot]
    rw [if_neg (show ¬ l = m by omega), if_neg (show ¬ l = m + 1 by omega)]
    exact Q_high c s u m l (by omega)

/-- the diagonal entry produced by `lartg` is `sqrt (f² + g²)`, non-zero when `g ≠ 0` -/
theorem lartg_diag (sqrt : K → K) (hsq : ∀ a, 0 ≤ a → sqrt a * sqrt a = a) (f g : K) (hg : g ≠ 0) :
    (lartgO sqrt f g).1 * f + (lartgO sqrt f g).2 * g ≠ 0 := by
  have h := hsq (f * f + g * g) (add_nonneg (mul_self_nonneg f) (mul_self_nonneg g))
  have hpos : 0 < f * f + g * g := by
    have := mul_self_nonneg f
    have := mul_self_pos.mpr hg
    linarith
  simp only [lartgO]
  generalize sqrt (f * f + g * g) = r at h
  have hr : r ≠ 0 := by
    intro h0; rw [h0, mul_zero] at h; rw [← h] at hpos; exact lt_irrefl _ hpos
  have : f / r * f + g / r * g = r := by
    field_simp
    have h2 : r ^ 2 = r * r := by ring
    rw [h2, h]; ring
  rw [this]; exact hr

/-- a non-zero new entry of `g` ⇒ the rotation was computed (not the last iteration of a full cycle, non-zero
subdiagonal entry), the previous entry of `g` is non-zero, the new diagonal entry of `R` is non-zero -/
theorem givensUpdate_nb (sqrt : K → K) (hsq : ∀ a, 0 ≤ a → sqrt a * sqrt a = a) (lastFull : Bool)
    (cs sn g col : List K) (k : Nat) (hcs : cs.length = k) (hsn : sn.length = k) (hg : g.length = k + 1)
    (hcol : col.length = k + 2)
    (hne : F (givensUpdate sqrt nzK lastFull k cs sn g col).g (k + 1) ≠ 0) :
    lastFull = false ∧ F col (k + 1) ≠ 0 ∧ F g k ≠ 0 ∧
      F (givensUpdate sqrt nzK lastFull k cs sn g col).rc k ≠ 0 := by
  have hrcl : (applyRots 0 cs sn col).length = k + 2 := by rw [applyRots_length, hcol]
  have hFrc : F (applyRots 0 cs sn col) = Givens.Q (F cs) (F sn) k (F col) := by
    have := F_applyRots cs sn (by rw [hcs, hsn]) col (by rw [hcs, hcol]; omega)
    rw [hcs] at this; exact this
  have hgk1 : F g (k + 1) = 0 := by
    simp only [F]; rw [List.getD_eq_getElem?_getD, List.getElem?_eq_none (by omega)]; rfl
  by_cases hrot : (!lastFull && nzK ((applyRots 0 cs sn col).getD (k + 1) 0)) = true
  · have hlf : lastFull = false := by
      cases lastFull
      · rfl
      · simp at hrot
    have hnz : (applyRots 0 cs sn col).getD (k + 1) 0 ≠ 0 := by
      apply nzK_true
      rw [Bool.and_eq_true] at hrot; exact hrot.2
    have hcolk : F col (k + 1) ≠ 0 := by
      have : F (applyRots 0 cs sn col) (k + 1) = F col (k + 1) := by
        rw [hFrc]; exact Q_high _ _ _ k (k + 1) (by omega)
      rw [← this]; exact hnz
    simp only [givensUpdate, hrot, if_true] at hne ⊢
    refine ⟨hlf, hcolk, ?_, ?_⟩
    · intro h0
      apply hne
      rw [F_rotL _ _ _ _ (by simp [hg]), F_append_zero]
      simp only [Givens.rot]
      rw [if_neg (show ¬ k + 1 = k by omega), if_pos trivial, h0, hgk1]; ring
    · rw [F_set _ _ _ (by simp; omega), if_neg (show ¬ k = k + 1 by omega), F_set _ _ _ (by omega), if_pos rfl]
      exact lartg_diag sqrt hsq _ _ hnz
  · exfalso
    apply hne
    simp only [givensUpdate, hrot]
    rw [if_neg (by simp), F_append_zero]
    exact hgk1

/-- "a non-zero estimate ⇒ non-singular triangular factor" -/
def NB (k : Nat) (rcols : List (List K)) (g : List K) : Prop :=
  F g k ≠ 0 → ∀ j, j < k → Rent rcols j j ≠ 0

theorem nb_init (g : List K) : NB 0 ([] : List (List K)) g := fun _ j hj => absurd hj (by omega)

/-- one inner iteration of the Givens bookkeeping keeps `NB` -/
theorem nb_step (sqrt : K → K) (hsq : ∀ a, 0 ≤ a → sqrt a * sqrt a = a) (lastFull : Bool)
    (rcols : List (List K)) (cs sn g col : List K) (k : Nat) (hr : rcols.length = k) (hcs : cs.length = k)
    (hsn : sn.length = k) (hg : g.length = k + 1) (hcol : col.length = k + 2) (ih : NB k rcols g) :
    NB (k + 1) (rcols ++ [(givensUpdate sqrt nzK lastFull k cs sn g col).rc])
      (givensUpdate sqrt nzK lastFull k cs sn g col).g := by
  intro hne j hj
  obtain ⟨_, _, hgk, hrc⟩ := givensUpdate_nb sqrt hsq lastFull cs sn g col k hcs hsn hg hcol hne
  by_cases hjk : j < k
  · unfold Rent
    rw [getD_append_lt _ _ _ _ (by rw [hr]; exact hjk)]
    exact ih hgk j hjk
  · have : j = k := by omega
    subst this
    unfold Rent
    rw [← hr, getD_append_len, hr]
    exact hrc

#print axioms nb_step
end PyamgV.C07

namespace PyamgV.ExtC06
variable {K : Type} [Field K] [LinearOrder K] [IsStrictOrderedRing K]
/-- the comparison `normr < tol * normMb` over an ordered field -/
def ltK (a c : K) : Bool := decide (a < c)
/-- `np.abs` -/
def absK (a : K) : K := |a|
end PyamgV.ExtC06
