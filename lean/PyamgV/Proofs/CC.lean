import PyamgV.Proofs.Mis
import PyamgV.Proofs.Bfs

/-! PyamgV (C18): `connected_components` (graph.h:1141) labels the true components.

Model = the kernel's loops (outer scan over nodes, inner stack-based search that labels a node
when it is pushed), in the shape of the validated executable model `PyamgV.G.connectedComponents`.
Spec, for a symmetric graph: two nodes get the same label iff they are connected by a walk; the
labels are exactly `0..K-1` (no gaps), `K` being the returned count. Core Lean only. -/
namespace PyamgV.CC
open PyamgV

inductive Reach (G : Graph) : Nat → Nat → Prop
  | refl (u : Nat) : Reach G u u
  | step {u v w : Nat} : Reach G u v → w ∈ G.adj v → Reach G u w

structure GOK (G : Graph) : Prop where
  adj : ∀ i, i < G.n → ∀ j ∈ G.adj i, j < G.n
  sym : ∀ i, i < G.n → ∀ j ∈ G.adj i, i ∈ G.adj j

theorem reach_trans {G : Graph} {u v w : Nat} (h1 : Reach G u v) (h2 : Reach G v w) :
    Reach G u w := by
  induction h2 with
  | refl => exact h1
  | step _ hadj ih => exact Reach.step ih hadj

theorem reach_lt {G : Graph} (hG : GOK G) {u v : Nat} (hu : u < G.n) (h : Reach G u v) :
    v < G.n := by
  induction h with
  | refl => exact hu
  | step _ hadj ih => exact hG.adj _ ih _ hadj

theorem reach_symm {G : Graph} (hG : GOK G) {u v : Nat} (hu : u < G.n) (h : Reach G u v) :
    Reach G v u := by
  induction h with
  | refl => exact Reach.refl _
  | step hr hadj ih =>
    have hv := reach_lt hG hu hr
    have hback := hG.sym _ hv _ hadj
    exact reach_trans (Reach.step (Reach.refl _) hback) ih

/-! ### the model -/

def push (c : Int) (acc : Array Int × List Nat) (j : Nat) : Array Int × List Nat :=
  if rd acc.1 j = -1 then (wr acc.1 j c, j :: acc.2) else acc

/-- `while(!DFS.empty())`; the flag says the loop exited by itself -/
def dfs (G : Graph) (c : Int) : Nat → List Nat → Array Int → Array Int × Bool
  | 0, st, comp => (comp, st.isEmpty)
  | _+1, [], comp => (comp, true)
  | f+1, top :: rest, comp =>
    let r := (G.adj top).foldl (push c) (comp, rest)
    dfs G c f r.2 r.1

def outer (G : Graph) (fuel : Nat) (acc : Array Int × Nat × Bool) (i : Nat) :
    Array Int × Nat × Bool :=
  if rd acc.1 i = -1 then
    let r := dfs G (acc.2.1 : Int) fuel [i] (wr acc.1 i (acc.2.1 : Int))
    (r.1, acc.2.1 + 1, acc.2.2 && r.2)
  else acc

def cc (G : Graph) (fuel : Nat) : Array Int × Nat × Bool :=
  (List.range G.n).foldl (outer G fuel) (Array.replicate G.n (-1), 0, true)

/-! ### invariants -/

/-- after the outer loop has passed nodes `< k`, with `c` components closed -/
structure O (G : Graph) (k c : Nat) (comp : Array Int) : Prop where
  size : comp.size = G.n
  rng : ∀ v, v < G.n → rd comp v = -1 ∨ ∃ l : Nat, l < c ∧ rd comp v = (l : Int)
  pre : ∀ v, v < k → v < G.n → rd comp v ≠ -1
  closed : ∀ u, u < G.n → rd comp u ≠ -1 → ∀ j ∈ G.adj u, rd comp j = rd comp u
  root : ∀ l : Nat, l < c → ∃ r, r < G.n ∧ rd comp r = (l : Int) ∧
    ∀ v, v < G.n → rd comp v = (l : Int) → Reach G r v

/-- while component `c` (root `i`) is being explored; `S` = the nodes still to be expanded -/
structure D (G : Graph) (c i : Nat) (S : Nat → Prop) (comp : Array Int) : Prop where
  size : comp.size = G.n
  rng : ∀ v, v < G.n → rd comp v = -1 ∨ ∃ l : Nat, l ≤ c ∧ rd comp v = (l : Int)
  lab : ∀ v, v ≤ i → v < G.n → rd comp v ≠ -1
  old : ∀ u, u < G.n → rd comp u ≠ -1 → rd comp u ≠ (c : Int) →
    ∀ j ∈ G.adj u, rd comp j = rd comp u
  rootold : ∀ l : Nat, l < c → ∃ r, r < G.n ∧ rd comp r = (l : Int) ∧
    ∀ v, v < G.n → rd comp v = (l : Int) → Reach G r v
  ilt : i < G.n
  reach : ∀ v, v < G.n → rd comp v = (c : Int) → Reach G i v
  ilab : rd comp i = (c : Int)
  opn : ∀ u, u < G.n → rd comp u = (c : Int) → S u ∨ ∀ j ∈ G.adj u, rd comp j ≠ -1
  stk : ∀ u, S u → u < G.n ∧ rd comp u = (c : Int)

theorem D_weaken {G : Graph} {c i : Nat} {S S' : Nat → Prop} {comp : Array Int}
    (h : D G c i S comp) (h1 : ∀ u, S u → S' u)
    (h2 : ∀ u, S' u → u < G.n ∧ rd comp u = (c : Int)) : D G c i S' comp :=
  { h with
    opn := fun u hu hc => (h.opn u hu hc).imp (h1 u) id
    stk := h2 }

/-- one neighbour `j` of the node `top` being expanded -/
theorem push_inv {G : Graph} (hG : GOK G) {c i top : Nat} {comp : Array Int} {st : List Nat}
    {Dn : Nat → Prop}
    (hD : D G c i (fun u => u = top ∨ u ∈ st) comp)
    (hDn : ∀ v, Dn v → rd comp v ≠ -1)
    (j : Nat) (hj : j ∈ G.adj top) :
    D G c i (fun u => u = top ∨ u ∈ (push (c:Int) (comp, st) j).2) (push (c:Int) (comp, st) j).1 ∧
    (∀ v, (Dn v ∨ v = j) → rd (push (c:Int) (comp, st) j).1 v ≠ -1) := by
  have htop := hD.stk top (Or.inl rfl)
  have hjn : j < G.n := hG.adj top htop.1 j hj
  unfold push
  by_cases hneg : rd comp j = -1
  · rw [if_pos hneg]
    have hsz : j < comp.size := by rw [hD.size]; exact hjn
    have hrd : ∀ v, rd (wr comp j (c:Int)) v = if j = v then (c:Int) else rd comp v := by
      intro v
      rw [rd_wr]
      by_cases hv : j = v
      · rw [if_pos ⟨hv, hsz⟩, if_pos hv]
      · rw [if_neg (fun h => hv h.1), if_neg hv]
    have hkeep : ∀ v, rd comp v ≠ -1 → rd (wr comp j (c:Int)) v = rd comp v := by
      intro v hv
      rw [hrd]
      by_cases hjv : j = v
      · subst hjv; exact absurd hneg hv
      · rw [if_neg hjv]
    have hmono : ∀ v, rd comp v ≠ -1 → rd (wr comp j (c:Int)) v ≠ -1 := by
      intro v hv; rw [hkeep v hv]; exact hv
    have hnew : ∀ v, rd (wr comp j (c:Int)) v ≠ -1 → v = j ∨ rd comp v ≠ -1 := by
      intro v hv
      by_cases hjv : j = v
      · exact Or.inl hjv.symm
      · rw [hrd, if_neg hjv] at hv; exact Or.inr hv
    refine ⟨⟨by simpa using hD.size, ?_, ?_, ?_, ?_, hD.ilt, ?_, ?_, ?_, ?_⟩, ?_⟩
    · intro v hv
      show rd (wr comp j (c:Int)) v = -1 ∨ _
      rw [hrd]
      by_cases hjv : j = v
      · rw [if_pos hjv]; exact Or.inr ⟨c, Nat.le_refl c, rfl⟩
      · rw [if_neg hjv]; exact hD.rng v hv
    · intro v hvi hv
      exact hmono v (hD.lab v hvi hv)
    · intro u hu h1 h2 j' hj'
      show rd (wr comp j (c:Int)) j' = rd (wr comp j (c:Int)) u
      have hu' : rd comp u ≠ -1 := by
        rcases hnew u h1 with h | h
        · subst h
          exfalso; apply h2
          show rd (wr comp u (c:Int)) u = (c:Int)
          rw [hrd, if_pos rfl]
        · exact h
      rw [hkeep u hu'] at h2 ⊢
      have := hD.old u hu hu' h2 j' hj'
      rw [hkeep j' (by rw [this]; exact hu')]
      exact this
    · intro l hl
      obtain ⟨r, hr, hrl, hall⟩ := hD.rootold l hl
      refine ⟨r, hr, ?_, ?_⟩
      · show rd (wr comp j (c:Int)) r = (l:Int)
        rw [hkeep r (by rw [hrl]; omega)]; exact hrl
      · intro v hv hvl
        apply hall v hv
        have hvl' : rd (wr comp j (c:Int)) v = (l:Int) := hvl
        rw [hrd] at hvl'
        by_cases hjv : j = v
        · rw [if_pos hjv] at hvl'; omega
        · rw [if_neg hjv] at hvl'; exact hvl'
    · intro v hv hvc
      have hvc' : rd (wr comp j (c:Int)) v = (c:Int) := hvc
      rw [hrd] at hvc'
      by_cases hjv : j = v
      · subst hjv
        exact Reach.step (hD.reach top htop.1 htop.2) hj
      · rw [if_neg hjv] at hvc'; exact hD.reach v hv hvc'
    · show rd (wr comp j (c:Int)) i = (c:Int)
      rw [hkeep i (by rw [hD.ilab]; omega)]; exact hD.ilab
    · intro u hu huc
      have huc' : rd (wr comp j (c:Int)) u = (c:Int) := huc
      by_cases hju : j = u
      · subst hju
        left; right
        show j ∈ j :: st
        simp
      · rw [hrd, if_neg hju] at huc'
        rcases hD.opn u hu huc' with h | h
        · left
          rcases h with h | h
          · exact Or.inl h
          · right
            show u ∈ j :: st
            simp [h]
        · right
          intro j' hj'
          exact hmono j' (h j' hj')
    · intro u hu
      have hu' : u = top ∨ u ∈ j :: st := hu
      show u < G.n ∧ rd (wr comp j (c:Int)) u = (c:Int)
      rcases hu' with h | h
      · subst h
        refine ⟨htop.1, ?_⟩
        rw [hkeep u (by rw [htop.2]; omega)]; exact htop.2
      · rw [List.mem_cons] at h
        rcases h with h | h
        · subst h
          exact ⟨hjn, by rw [hrd, if_pos rfl]⟩
        · have := hD.stk u (Or.inr h)
          refine ⟨this.1, ?_⟩
          rw [hkeep u (by rw [this.2]; omega)]; exact this.2
    · intro v hv
      show rd (wr comp j (c:Int)) v ≠ -1
      rcases hv with h | h
      · exact hmono v (hDn v h)
      · subst h
        rw [hrd, if_pos rfl]; omega
  · rw [if_neg hneg]
    refine ⟨hD, ?_⟩
    intro v hv
    rcases hv with h | h
    · exact hDn v h
    · subst h; exact hneg

theorem scan_inv {G : Graph} (hG : GOK G) {c i top : Nat} :
    ∀ (l : List Nat), (∀ j ∈ l, j ∈ G.adj top) →
    ∀ (acc : Array Int × List Nat) (Dn : Nat → Prop),
      D G c i (fun u => u = top ∨ u ∈ acc.2) acc.1 → (∀ v, Dn v → rd acc.1 v ≠ -1) →
      D G c i (fun u => u = top ∨ u ∈ (l.foldl (push (c:Int)) acc).2)
        (l.foldl (push (c:Int)) acc).1 ∧
      (∀ v, (Dn v ∨ v ∈ l) → rd (l.foldl (push (c:Int)) acc).1 v ≠ -1) := by
  intro l
  induction l with
  | nil =>
    intro _ acc Dn hD hDn
    refine ⟨hD, ?_⟩
    intro v hv
    rcases hv with h | h
    · exact hDn v h
    · simp at h
  | cons j js ih =>
    intro hsub acc Dn hD hDn
    obtain ⟨h1, h2⟩ := push_inv hG (comp := acc.1) (st := acc.2) hD hDn j (hsub j (by simp))
    obtain ⟨h3, h4⟩ := ih (fun a ha => hsub a (by simp [ha])) _ _ h1 h2
    rw [List.foldl_cons]
    refine ⟨h3, ?_⟩
    intro v hv
    apply h4
    rcases hv with h | h
    · exact Or.inl (Or.inl h)
    · rw [List.mem_cons] at h
      rcases h with h | h
      · exact Or.inl (Or.inr h)
      · exact Or.inr h

/-- expanding `top` completely removes it from the open set -/
theorem expand_inv {G : Graph} (hG : GOK G) {c i top : Nat} {rest : List Nat}
    {comp : Array Int} (hD : D G c i (fun u => u ∈ top :: rest) comp) :
    D G c i (fun u => u ∈ ((G.adj top).foldl (push (c:Int)) (comp, rest)).2)
      ((G.adj top).foldl (push (c:Int)) (comp, rest)).1 := by
  have hD' : D G c i (fun u => u = top ∨ u ∈ (comp, rest).2) (comp, rest).1 := by
    refine D_weaken hD ?_ ?_
    · intro u hu; exact List.mem_cons.mp hu
    · intro u hu; exact hD.stk u (List.mem_cons.mpr hu)
  obtain ⟨h1, h2⟩ := scan_inv hG (G.adj top) (fun _ h => h) (comp, rest) (fun _ => False) hD'
    (fun v h => absurd h id)
  generalize (G.adj top).foldl (push (c:Int)) (comp, rest) = r at h1 h2
  refine ⟨h1.size, h1.rng, h1.lab, h1.old, h1.rootold, h1.ilt, h1.reach, h1.ilab, ?_, ?_⟩
  · intro u hu huc
    rcases h1.opn u hu huc with h | h
    · rcases h with h | h
      · subst h
        right
        intro j hj
        exact h2 j (Or.inr hj)
      · exact Or.inl h
    · exact Or.inr h
  · intro u hu; exact h1.stk u (Or.inr hu)

theorem dfs_inv {G : Graph} (hG : GOK G) {c i : Nat} :
    ∀ (fuel : Nat) (st : List Nat) (comp : Array Int), D G c i (fun u => u ∈ st) comp →
      (dfs G (c:Int) fuel st comp).2 = true →
      D G c i (fun _ => False) (dfs G (c:Int) fuel st comp).1 := by
  intro fuel
  induction fuel with
  | zero =>
    intro st comp hD hdone
    have : st = [] := by simpa [dfs] using hdone
    subst this
    exact D_weaken hD (fun u hu => by simp at hu) (fun u hu => absurd hu id)
  | succ f ih =>
    intro st comp hD hdone
    cases st with
    | nil =>
      exact D_weaken hD (fun u hu => by simp at hu) (fun u hu => absurd hu id)
    | cons top rest =>
      have hstep : dfs G (c:Int) (f+1) (top :: rest) comp =
          dfs G (c:Int) f ((G.adj top).foldl (push (c:Int)) (comp, rest)).2
            ((G.adj top).foldl (push (c:Int)) (comp, rest)).1 := rfl
      rw [hstep] at hdone ⊢
      exact ih _ _ (expand_inv hG hD) hdone

/-- closing a component: from the search invariant with nothing left to expand -/
theorem close_inv {G : Graph} (hG : GOK G) {c i : Nat} {comp : Array Int}
    (hD : D G c i (fun _ => False) comp) : O G (i+1) (c+1) comp := by
  refine ⟨hD.size, ?_, ?_, ?_, ?_⟩
  · intro v hv
    rcases hD.rng v hv with h | ⟨l, hl, h⟩
    · exact Or.inl h
    · exact Or.inr ⟨l, by omega, h⟩
  · intro v hv hvn; exact hD.lab v (by omega) hvn
  · intro u hu hlab j hj
    by_cases huc : rd comp u = (c:Int)
    · rcases hD.opn u hu huc with h | h
      · exact absurd h id
      · have hjn : j < G.n := hG.adj u hu j hj
        have hjl := h j hj
        by_cases hjc : rd comp j = (c:Int)
        · rw [hjc, huc]
        · -- j belongs to an older component, which is closed under adjacency: contradiction
          have := hD.old j hjn hjl hjc u (hG.sym u hu j hj)
          rw [this]
    · exact hD.old u hu hlab huc j hj
  · intro l hl
    by_cases hlc : l = c
    · subst hlc
      exact ⟨i, hD.ilt, hD.ilab, hD.reach⟩
    · exact hD.rootold l (by omega)

theorem open_inv {G : Graph} {k c : Nat} {comp : Array Int} (hO : O G k c comp)
    (hk : k < G.n) (hneg : rd comp k = -1) :
    D G c k (fun u => u ∈ [k]) (wr comp k (c:Int)) := by
  have hsz : k < comp.size := by rw [hO.size]; exact hk
  have hrd : ∀ v, rd (wr comp k (c:Int)) v = if k = v then (c:Int) else rd comp v := by
    intro v
    rw [rd_wr]
    by_cases hv : k = v
    · rw [if_pos ⟨hv, hsz⟩, if_pos hv]
    · rw [if_neg (fun h => hv h.1), if_neg hv]
  have hlt : ∀ v, v < G.n → rd comp v ≠ -1 → rd comp v ≠ (c:Int) := by
    intro v hv h1
    rcases hO.rng v hv with h | ⟨l, hl, h⟩
    · exact absurd h h1
    · rw [h]; omega
  refine ⟨by simpa using hO.size, ?_, ?_, ?_, ?_, hk, ?_, ?_, ?_, ?_⟩
  · intro v hv
    rw [hrd]
    by_cases hkv : k = v
    · rw [if_pos hkv]; exact Or.inr ⟨c, Nat.le_refl c, rfl⟩
    · rw [if_neg hkv]
      rcases hO.rng v hv with h | ⟨l, hl, h⟩
      · exact Or.inl h
      · exact Or.inr ⟨l, by omega, h⟩
  · intro v hvk hv
    rw [hrd]
    by_cases hkv : k = v
    · rw [if_pos hkv]; omega
    · rw [if_neg hkv]; exact hO.pre v (by omega) hv
  · intro u hu h1 h2 j hj
    rw [hrd] at h1 h2
    by_cases hku : k = u
    · rw [if_pos hku] at h2; exact absurd rfl h2
    · rw [if_neg hku] at h1 h2
      have := hO.closed u hu h1 j hj
      rw [hrd, hrd, if_neg hku]
      by_cases hkj : k = j
      · subst hkj; rw [hneg] at this; exact absurd this.symm h1
      · rw [if_neg hkj]; exact this
  · intro l hl
    obtain ⟨r, hr, hrl, hall⟩ := hO.root l hl
    refine ⟨r, hr, ?_, ?_⟩
    · rw [hrd]
      by_cases hkr : k = r
      · subst hkr; rw [hneg] at hrl; omega
      · rw [if_neg hkr]; exact hrl
    · intro v hv hvl
      rw [hrd] at hvl
      by_cases hkv : k = v
      · rw [if_pos hkv] at hvl; omega
      · rw [if_neg hkv] at hvl; exact hall v hv hvl
  · intro v hv hvc
    rw [hrd] at hvc
    by_cases hkv : k = v
    · subst hkv; exact Reach.refl _
    · rw [if_neg hkv] at hvc
      by_cases hl : rd comp v = -1
      · rw [hl] at hvc; omega
      · exact absurd hvc (hlt v hv hl)
  · rw [hrd, if_pos rfl]
  · intro u hu huc
    rw [hrd] at huc
    by_cases hku : k = u
    · subst hku; left; simp
    · rw [if_neg hku] at huc
      by_cases hl : rd comp u = -1
      · rw [hl] at huc; omega
      · exact absurd huc (hlt u hu hl)
  · intro u hu
    have : u = k := by simpa using hu
    subst this
    exact ⟨hk, by rw [hrd, if_pos rfl]⟩

theorem outer_inv {G : Graph} (hG : GOK G) (fuel : Nat) {k : Nat} (hk : k < G.n)
    (acc : Array Int × Nat × Bool) (hO : O G k acc.2.1 acc.1)
    (hdone : (outer G fuel acc k).2.2 = true) :
    O G (k+1) (outer G fuel acc k).2.1 (outer G fuel acc k).1 := by
  unfold outer at hdone ⊢
  by_cases hneg : rd acc.1 k = -1
  · rw [if_pos hneg] at hdone ⊢
    have hd : (dfs G (acc.2.1 : Int) fuel [k] (wr acc.1 k (acc.2.1 : Int))).2 = true := by
      simp only [Bool.and_eq_true] at hdone; exact hdone.2
    exact close_inv hG (dfs_inv hG fuel [k] _ (open_inv hO hk hneg) hd)
  · rw [if_neg hneg]
    refine ⟨hO.size, hO.rng, ?_, hO.closed, hO.root⟩
    intro v hv hvn
    by_cases hvk : v = k
    · subst hvk; exact hneg
    · exact hO.pre v (by omega) hvn

theorem outer_flag (G : Graph) (fuel : Nat) (acc : Array Int × Nat × Bool) (k : Nat)
    (h : (outer G fuel acc k).2.2 = true) : acc.2.2 = true := by
  unfold outer at h
  by_cases hneg : rd acc.1 k = -1
  · rw [if_pos hneg] at h
    simp only [Bool.and_eq_true] at h; exact h.1
  · rw [if_neg hneg] at h; exact h

theorem cc_inv {G : Graph} (hG : GOK G) (fuel : Nat) :
    ∀ k, k ≤ G.n →
      ((List.range k).foldl (outer G fuel) (Array.replicate G.n (-1), 0, true)).2.2 = true →
      O G k ((List.range k).foldl (outer G fuel) (Array.replicate G.n (-1), 0, true)).2.1
        ((List.range k).foldl (outer G fuel) (Array.replicate G.n (-1), 0, true)).1 := by
  intro k
  induction k with
  | zero =>
    intro _ _
    refine ⟨by simp, ?_, ?_, ?_, ?_⟩
    · intro v hv; left; simp [rd, hv]
    · intro v hv; omega
    · intro u hu h; exfalso; apply h; simp [rd, hu]
    · intro l hl; exact absurd hl (Nat.not_lt_zero l)
  | succ k ih =>
    intro hk hdone
    rw [List.range_succ, List.foldl_append] at hdone ⊢
    simp only [List.foldl_cons, List.foldl_nil] at hdone ⊢
    have hprev := outer_flag G fuel _ k hdone
    exact outer_inv hG fuel (by omega) _ (ih (by omega) hprev) hdone

/-- **C18, connected components**: if no inner search ran out of fuel, two nodes carry the same
label iff they are connected, every label lies in `0..K-1`, and every such label is used. -/
theorem cc_correct {G : Graph} (hG : GOK G) (fuel : Nat) (hdone : (cc G fuel).2.2 = true) :
    (∀ u v, u < G.n → v < G.n → (rd (cc G fuel).1 u = rd (cc G fuel).1 v ↔ Reach G u v)) ∧
    (∀ v, v < G.n → ∃ l : Nat, l < (cc G fuel).2.1 ∧ rd (cc G fuel).1 v = (l : Int)) ∧
    (∀ l : Nat, l < (cc G fuel).2.1 → ∃ r, r < G.n ∧ rd (cc G fuel).1 r = (l : Int)) := by
  have hO := cc_inv hG fuel G.n (Nat.le_refl _) hdone
  unfold cc
  generalize (List.range G.n).foldl (outer G fuel) (Array.replicate G.n (-1), 0, true) = r at hO
  have hlab : ∀ v, v < G.n → ∃ l : Nat, l < r.2.1 ∧ rd r.1 v = (l : Int) := by
    intro v hv
    rcases hO.rng v hv with h | h
    · exact absurd h (hO.pre v hv hv)
    · exact h
  refine ⟨?_, hlab, ?_⟩
  · intro u v hu hv
    constructor
    · intro heq
      obtain ⟨l, hl, hul⟩ := hlab u hu
      obtain ⟨rt, hrt, _, hall⟩ := hO.root l hl
      have h1 := hall u hu hul
      have h2 := hall v hv (by rw [← heq]; exact hul)
      exact reach_trans (reach_symm hG hrt h1) h2
    · intro hr
      induction hr with
      | refl => rfl
      | step hr' hadj ih =>
        have hmid := reach_lt hG hu hr'
        have := hO.closed _ hmid (hO.pre _ hmid hmid) _ hadj
        rw [this]; exact ih hmid
  · intro l hl
    obtain ⟨rt, hrt, hrl, _⟩ := hO.root l hl
    exact ⟨rt, hrt, hrl⟩

/-! ### termination: fuel `n` always suffices -/
open PyamgV.Bfs (unl countP_lt unl_le)

theorem wr_unl {n : Nat} {comp : Array Int} (hs : comp.size = n) {j : Nat} (hj : j < n)
    (hneg : rd comp j = -1) (c : Nat) : unl n (wr comp j (c:Int)) + 1 ≤ unl n comp := by
  have hrd : ∀ v, rd (wr comp j (c:Int)) v = if j = v then (c:Int) else rd comp v := by
    intro v
    rw [rd_wr]
    by_cases hv : j = v
    · rw [if_pos ⟨hv, by rw [hs]; exact hj⟩, if_pos hv]
    · rw [if_neg (fun h => hv h.1), if_neg hv]
  have : unl n (wr comp j (c:Int)) < unl n comp := by
    unfold unl
    apply countP_lt (v0 := j)
    · intro v _ hp
      have hp' : rd (wr comp j (c:Int)) v = -1 := by simpa using hp
      rw [hrd] at hp'
      by_cases hjv : j = v
      · rw [if_pos hjv] at hp'; omega
      · rw [if_neg hjv] at hp'; simpa using hp'
    · rw [List.mem_range]; exact hj
    · simpa using hneg
    · have : rd (wr comp j (c:Int)) j ≠ -1 := by rw [hrd, if_pos rfl]; omega
      simpa using this
  omega

theorem scan_measure {G : Graph} (c : Nat) :
    ∀ (l : List Nat), (∀ j ∈ l, j < G.n) → ∀ (acc : Array Int × List Nat), acc.1.size = G.n →
      (l.foldl (push (c:Int)) acc).1.size = G.n ∧
      (l.foldl (push (c:Int)) acc).2.length + unl G.n (l.foldl (push (c:Int)) acc).1 ≤
        acc.2.length + unl G.n acc.1 := by
  intro l
  induction l with
  | nil => intro _ acc hs; exact ⟨hs, Nat.le_refl _⟩
  | cons j js ih =>
    intro hl acc hs
    rw [List.foldl_cons]
    have hj : j < G.n := hl j (by simp)
    have hstep : (push (c:Int) acc j).1.size = G.n ∧
        (push (c:Int) acc j).2.length + unl G.n (push (c:Int) acc j).1 ≤
          acc.2.length + unl G.n acc.1 := by
      unfold push
      by_cases hneg : rd acc.1 j = -1
      · rw [if_pos hneg]
        refine ⟨by simpa using hs, ?_⟩
        have := wr_unl hs hj hneg c
        simp only [List.length_cons]
        omega
      · rw [if_neg hneg]; exact ⟨hs, Nat.le_refl _⟩
    obtain ⟨h1, h2⟩ := ih (fun a ha => hl a (by simp [ha])) _ hstep.1
    exact ⟨h1, Nat.le_trans h2 hstep.2⟩

theorem dfs_term {G : Graph} (hG : GOK G) {c i : Nat} :
    ∀ (fuel : Nat) (st : List Nat) (comp : Array Int), D G c i (fun u => u ∈ st) comp →
      st.length + unl G.n comp ≤ fuel → (dfs G (c:Int) fuel st comp).2 = true := by
  intro fuel
  induction fuel with
  | zero =>
    intro st comp _ h
    have : st.length = 0 := by omega
    have : st = [] := List.eq_nil_of_length_eq_zero this
    subst this; rfl
  | succ f ih =>
    intro st comp hD h
    cases st with
    | nil => rfl
    | cons top rest =>
      have hstep : dfs G (c:Int) (f+1) (top :: rest) comp =
          dfs G (c:Int) f ((G.adj top).foldl (push (c:Int)) (comp, rest)).2
            ((G.adj top).foldl (push (c:Int)) (comp, rest)).1 := rfl
      rw [hstep]
      have htop := hD.stk top (by simp)
      obtain ⟨_, hm⟩ := scan_measure (G := G) c (G.adj top) (hG.adj top htop.1) (comp, rest) hD.size
      apply ih _ _ (expand_inv hG hD)
      simp only [List.length_cons] at h
      simp only at hm
      omega

theorem cc_total_inv {G : Graph} (hG : GOK G) :
    ∀ k, k ≤ G.n →
      ((List.range k).foldl (outer G G.n) (Array.replicate G.n (-1), 0, true)).2.2 = true := by
  intro k
  induction k with
  | zero => intro _; rfl
  | succ k ih =>
    intro hk
    have hprev := ih (by omega)
    have hO := cc_inv hG G.n k (by omega) hprev
    rw [List.range_succ, List.foldl_append]
    simp only [List.foldl_cons, List.foldl_nil]
    generalize (List.range k).foldl (outer G G.n) (Array.replicate G.n (-1), 0, true) = acc
      at hprev hO
    unfold outer
    by_cases hneg : rd acc.1 k = -1
    · rw [if_pos hneg]
      have hD := open_inv hO (by omega) hneg
      have hu := wr_unl hO.size (show k < G.n by omega) hneg acc.2.1
      have hle := unl_le G.n acc.1
      have := dfs_term hG G.n [k] _ hD (by simp only [List.length_cons, List.length_nil]; omega)
      simp only [Bool.and_eq_true]
      exact ⟨hprev, this⟩
    · rw [if_neg hneg]; exact hprev

/-- **connected components, total**: with fuel `n` no inner search is cut short, so the labelling
is the true component labelling. -/
theorem cc_total {G : Graph} (hG : GOK G) :
    (cc G G.n).2.2 = true ∧
    (∀ u v, u < G.n → v < G.n → (rd (cc G G.n).1 u = rd (cc G G.n).1 v ↔ Reach G u v)) := by
  have h : (cc G G.n).2.2 = true := cc_total_inv hG G.n (Nat.le_refl _)
  exact ⟨h, (cc_correct hG G.n h).1⟩

#print axioms cc_correct
#print axioms cc_total
end PyamgV.CC
