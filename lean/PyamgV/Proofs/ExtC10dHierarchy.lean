import PyamgV.Model.ExtC10dHierarchy
import PyamgV.Proofs.ExtC10dEnergy
import PyamgV.Proofs.ExtC10RefineD
import PyamgV.Proofs.C10Proj

/-! PyamgV (extension E53, property C10): every level of the level-loop model `C10dM.hierarchy`
(`smoothed_aggregation_solver` / `rootnode_solver`) satisfies the clauses of property C10.

* `hierarchy_levels`: whatever holds for every successful `levelStep` holds for every level of a hierarchy
  (`List.Forall₂` over the level inputs and outputs); `hierarchy_chain`: the levels are chained by
  `A <- P^H A P` (rounded by `rnd`), `B <- B_c`;
* `levelStep_fit`: smoothed aggregation, any ordered field with an exact square root: on every aggregated
  unknown `(T·B_c)_i = B_i − drop` (`C10R.kernel_reproduces` for the level's own `A`, `B`, `AggOp`);
* `levelStep_smoothed`: the smoother's clause for the level's own `T`, `B_c`, `B`;
  `smoEnergyCG_spec` / `smoEnergyGmres_spec`: for the energy smoothers that clause is `C10d.FullProp`
  (`(P − T)·B_c = 0` + pattern, or `P·B_c = B` + pattern + identity rows);
* `levelStep_root`: root-node levels: the tentative prolongator has identity rows at the root dofs and the
  coarse candidates are the fine candidates at the root dofs; `fullProp_root_rows`: `P` keeps the identity rows. -/
namespace PyamgV.C10d
open PyamgV PyamgV.C10M PyamgV.C10bM PyamgV.C10b PyamgV.C10c PyamgV.C10dM PyamgV.C10R Matrix
set_option linter.unusedSectionVars false

section chain
variable {α δ : Type} [Add α] [Sub α] [Mul α] [Div α] [OfNat α 0] [OfNat α 1] [DecidableEq α]

/-- a level records the operator, candidates and block size it was built from -/
theorem levelStep_io (o : FitOps α α) (conj rnd : α → α) (root : Bool) (tol : α)
    (smo : LvlIn α → (K1 K2 : Nat) → (A T Bc Bf : Mat α) → Except String (Mat α × δ))
    (L : LvlIn α) (K1 : Nat) (A B : Mat α) (out : LvlOut α δ)
    (h : levelStep o conj rnd root tol smo L K1 A B = .ok out) : out.K1 = K1 ∧ out.A = A ∧ out.B = B := by
  unfold levelStep at h
  dsimp only at h
  split at h
  · cases h
  · split at h
    · cases h
    · split at h
      · split at h
        · cases h
        · simp only [Except.ok.injEq] at h
          subst h
          exact ⟨rfl, rfl, rfl⟩
      · split at h
        · cases h
        · split at h
          · cases h
          · split at h
            · cases h
            · split at h
              · cases h
              · simp only [Except.ok.injEq] at h
                subst h
                exact ⟨rfl, rfl, rfl⟩

/-- **every level**: a property of successful level steps holds for every level of a hierarchy -/
theorem hierarchy_levels (o : FitOps α α) (conj rnd : α → α) (root : Bool) (tol : α)
    (smo : LvlIn α → (K1 K2 : Nat) → (A T Bc Bf : Mat α) → Except String (Mat α × δ))
    (Good : LvlIn α → LvlOut α δ → Prop)
    (hstep : ∀ L K1 A B out, levelStep o conj rnd root tol smo L K1 A B = .ok out → Good L out) :
    ∀ (ins : List (LvlIn α)) (K1 : Nat) (A B : Mat α) (outs : List (LvlOut α δ)),
      hierarchy o conj rnd root tol smo ins K1 A B = .ok outs → List.Forall₂ Good ins outs := by
  intro ins
  induction ins with
  | nil =>
    intro K1 A B outs h
    unfold hierarchy at h
    simp only [Except.ok.injEq] at h
    subst h
    exact List.Forall₂.nil
  | cons L rest ih =>
    intro K1 A B outs h
    unfold hierarchy at h
    split at h
    · cases h
    · rename_i out hout
      split at h
      · cases h
      · rename_i tail htail
        simp only [Except.ok.injEq] at h
        subst h
        exact List.Forall₂.cons (hstep L K1 A B out hout) (ih _ _ _ tail htail)

/-- the levels of a hierarchy are chained: the first one is built from the given `A`, `B`, block size; each
further one from the Galerkin product and the coarse candidates of its predecessor -/
def Chained : Nat → Mat α → Mat α → List (LvlOut α δ) → Prop
  | _, _, _, [] => True
  | K1, A, B, out :: rest => out.K1 = K1 ∧ out.A = A ∧ out.B = B ∧ Chained out.K1next out.Anext out.Bc rest

theorem hierarchy_chain (o : FitOps α α) (conj rnd : α → α) (root : Bool) (tol : α)
    (smo : LvlIn α → (K1 K2 : Nat) → (A T Bc Bf : Mat α) → Except String (Mat α × δ)) :
    ∀ (ins : List (LvlIn α)) (K1 : Nat) (A B : Mat α) (outs : List (LvlOut α δ)),
      hierarchy o conj rnd root tol smo ins K1 A B = .ok outs → outs.length = ins.length ∧ Chained K1 A B outs := by
  intro ins
  induction ins with
  | nil =>
    intro K1 A B outs h
    unfold hierarchy at h
    simp only [Except.ok.injEq] at h
    subst h
    exact ⟨rfl, trivial⟩
  | cons L rest ih =>
    intro K1 A B outs h
    unfold hierarchy at h
    split at h
    · cases h
    · rename_i out hout
      split at h
      · cases h
      · rename_i tail htail
        simp only [Except.ok.injEq] at h
        subst h
        obtain ⟨e1, e2, e3⟩ := levelStep_io o conj rnd root tol smo L K1 A B out hout
        obtain ⟨l1, l2⟩ := ih _ _ _ tail htail
        exact ⟨by simp [l1], e1, e2, e3, l2⟩

end chain

/-! ### one level -/

section level
variable {K : Type} [Field K] [DecidableEq K] {δ : Type}

theorem validAggB_sound (nFine nCol : Nat) (cp ci : Array Nat) (h : validAggB nFine nCol cp ci = true) :
    ValidAgg nFine nCol cp ci := by
  unfold validAggB at h
  simp only [Bool.and_eq_true, List.all_eq_true, List.mem_range, decide_eq_true_eq] at h
  obtain ⟨⟨⟨h1, h2⟩, h3⟩, h4⟩ := h
  exact ⟨h1, h2, h3, fun ii hii ii' hii' => h4 ii hii ii' hii'⟩

theorem ravel_getD (n k : Nat) (B : Mat K) (i c : Nat) (hi : i < n) (hc : c < k) :
    (ravel n k B).getD (i * k + c) 0 = B.get i c := by
  unfold ravel
  have hlt : i * k + c < n * k := by
    calc i * k + c < i * k + k := by omega
      _ = (i + 1) * k := by ring
      _ ≤ n * k := Nat.mul_le_mul_right _ hi
  rw [range_map_val _ _ _ hlt]
  have hk : 0 < k := by omega
  have e1 : (i * k + c) / k = i := by
    rw [Nat.mul_comm, Nat.mul_add_div hk, Nat.div_eq_of_lt hc, Nat.add_zero]
  have e2 : (i * k + c) % k = c := by
    rw [Nat.mul_comm, Nat.mul_add_mod, Nat.mod_eq_of_lt hc]
  rw [e1, e2]

/-- the dense tentative prolongator is `C10R.kernelT` entry by entry -/
theorem denseT_get (st : FitState K) (nFine nCol K1 K2 : Nat) (cp ci : Array Nat) (i : Fin (nFine * K1))
    (a : Fin nCol) (c : Nat) (hc : c < K2) :
    (denseT st nFine nCol K1 K2 cp ci).get i.val (a.val * K2 + c) = kernelT st nFine nCol K1 K2 cp ci a c i := by
  have hK2 : 0 < K2 := by omega
  have hj : a.val * K2 + c < nCol * K2 := by
    calc a.val * K2 + c < a.val * K2 + K2 := by omega
      _ = (a.val + 1) * K2 := by ring
      _ ≤ nCol * K2 := Nat.mul_le_mul_right _ a.isLt
  unfold denseT
  rw [ofFn_get' _ _ _ i.val _ i.isLt hj]
  have e1 : (a.val * K2 + c) / K2 = a.val := by
    rw [Nat.mul_comm, Nat.mul_add_div hK2, Nat.div_eq_of_lt hc, Nat.add_zero]
  have e2 : (a.val * K2 + c) % K2 = c := by
    rw [Nat.mul_comm, Nat.mul_add_mod, Nat.mod_eq_of_lt hc]
  rw [e1, e2]
  rfl

theorem unflat_get (r c : Nat) (a : Array K) (i j : Nat) (hi : i < r) (hj : j < c) :
    (Mat.unflat r c a).get i j = a.getD (i * c + j) 0 := by
  unfold Mat.unflat
  rw [ofFn_get' _ _ _ i j hi hj]

end level

section fit
variable {K : Type} [Field K] [LinearOrder K] [IsStrictOrderedRing K] {δ : Type}

/-- **smoothed aggregation, one level, the tentative prolongator reproduces the candidates**: over any ordered
field with an exact square root, on every unknown `i` that lies in an aggregate `a`,
`Σ_{(a',c')} T[i,(a',c')]·B_c[(a',c'),c] = B[i,c] − drop`, `drop` the discarded remainder of candidate `c` on the
aggregate (zero unless the candidate was dropped there; `C10R.kernel_drop_bound`) -/
theorem levelStep_fit (sqrt : K → K) (ok : K → Bool) (conj rnd : K → K) (tol : K)
    (hsq : ∀ x, 0 ≤ x → sqrt x * sqrt x = x) (hsq0 : ∀ x, 0 ≤ sqrt x) (htol : 0 ≤ tol)
    (smo : LvlIn K → (K1 K2 : Nat) → (A T Bc Bf : Mat K) → Except String (Mat K × δ))
    (L : LvlIn K) (K1 : Nat) (A B : Mat K) (out : LvlOut K δ)
    (h : levelStep (fieldOps sqrt ok) conj rnd false tol smo L K1 A B = .ok out)
    (a : Fin L.nCol) (i : Fin (L.nFine * K1)) (hi : cscAgg L.nFine L.nCol K1 L.cp L.ci i = some a)
    (c : Nat) (hc : c < B.cols) :
    ∑ a' : Fin L.nCol, ∑ c' ∈ Finset.range B.cols,
      out.T.get i.val (a'.val * B.cols + c') * out.Bc.get (a'.val * B.cols + c') c =
    B.get i.val c - (C10.fitAgg sqrt tol (cscAgg L.nFine L.nCol K1 L.cp L.ci)
      (candB L.nFine K1 B.cols (ravel (L.nFine * K1) B.cols B)) B.cols a).drop.getD c 0 i := by
  unfold levelStep at h
  dsimp only at h
  split at h
  · cases h
  · split at h
    · cases h
    · rename_i hshape hvalid
      have hV : ValidAgg L.nFine L.nCol L.cp L.ci := by
        apply validAggB_sound
        simpa using hvalid
      simp only [Bool.not_false, if_true] at h
      split at h
      · cases h
      · simp only [Except.ok.injEq] at h
        subst h
        dsimp only
        have key := kernel_reproduces sqrt ok tol K1 B.cols (ravel (L.nFine * K1) B.cols B) hV
          (cscAgg L.nFine L.nCol K1 L.cp L.ci) (cscAgg_spec K1 hV) hsq hsq0 htol a i hi c hc
        have hcand : candB L.nFine K1 B.cols (ravel (L.nFine * K1) B.cols B) i c = B.get i.val c := by
          unfold candB
          exact ravel_getD _ _ B i.val c i.isLt hc
        rw [hcand] at key
        rw [← key]
        apply Finset.sum_congr rfl
        intro a' _
        apply Finset.sum_congr rfl
        intro c' hc'
        rw [Finset.mem_range] at hc'
        rw [denseT_get _ _ _ _ _ _ _ i a' c' hc']
        congr 1
        have hj : a'.val * B.cols + c' < L.nCol * B.cols := by
          calc a'.val * B.cols + c' < a'.val * B.cols + B.cols := by omega
            _ = (a'.val + 1) * B.cols := by ring
            _ ≤ L.nCol * B.cols := Nat.mul_le_mul_right _ a'.isLt
        rw [unflat_get _ _ _ _ _ hj hc]
        unfold kernelR
        congr 1
        ring

end fit

section smooth
variable {K : Type} [Field K] [DecidableEq K] {δ : Type}

/-- what the level loop guarantees to its smoother: shapes -/
def SmoOK (smo : LvlIn K → (K1 K2 : Nat) → (A T Bc Bf : Mat K) → Except String (Mat K × δ))
    (Good : LvlIn K → (K1 K2 : Nat) → (A T Bc Bf P : Mat K) → δ → Prop) : Prop :=
  ∀ (L : LvlIn K) (K1 K2 : Nat) (A T Bc Bf P : Mat K) (d : δ), 0 < L.nFine * K1 → 0 < K1 → 0 < K2 →
    Dim (L.nFine * K1) (L.nFine * K1) A → Dim (L.nFine * K1) (L.nCol * K2) T →
    smo L K1 K2 A T Bc Bf = .ok (P, d) → Good L K1 K2 A T Bc Bf P d

theorem pos_of_mul_pos_right' (a b : Nat) (h : 0 < a * b) : 0 < b := by
  rcases Nat.eq_zero_or_pos b with h0 | h0
  · rw [h0, Nat.mul_zero] at h; omega
  · exact h0

theorem scaleT_dim (bs : Nat) (cpts : Array Nat) (T0 T : Mat K) (n : Nat) (hn : 0 < n) (h0 : T0.rows = n)
    (h : scaleT bs cpts T0 = some T) : Dim n cpts.size T := by
  unfold scaleT at h
  dsimp only at h
  rw [Option.map_eq_some_iff] at h
  obtain ⟨Zs, _, rfl⟩ := h
  rw [h0]
  exact dim_ofFn n cpts.size hn _

/-- root rows of `scale_T`'s result are identity rows -/
theorem scaleT_root_rows (bs : Nat) (cpts : Array Nat) (T0 T : Mat K) (n : Nat) (h0 : T0.rows = n)
    (h : scaleT bs cpts T0 = some T) (i k : Nat) (hi : i < n) (hk : rootIdx cpts i = some k) (j : Nat)
    (hj : j < cpts.size) : T.get i j = if k = j then 1 else 0 := by
  unfold scaleT at h
  dsimp only at h
  rw [Option.map_eq_some_iff] at h
  obtain ⟨Zs, _, rfl⟩ := h
  rw [ofFn_get' _ _ _ i j (by rw [h0]; exact hi) hj]
  unfold rootIdx at hk
  rw [hk]

/-- **one level, the smoother's clause**: whatever the smoother guarantees on inputs of the right shape holds
for the level's own `A`, `T`, `B_c`, `B`, `P` (`K2` = number of candidates; root-node levels: the block size) -/
theorem levelStep_smoothed (o : FitOps K K) (conj rnd : K → K) (root : Bool) (tol : K)
    (smo : LvlIn K → (K1 K2 : Nat) → (A T Bc Bf : Mat K) → Except String (Mat K × δ))
    (Good : LvlIn K → (K1 K2 : Nat) → (A T Bc Bf P : Mat K) → δ → Prop) (hsmo : SmoOK smo Good)
    (L : LvlIn K) (K1 : Nat) (A B : Mat K) (out : LvlOut K δ)
    (h : levelStep o conj rnd root tol smo L K1 A B = .ok out) :
    Good L K1 (if root then K1 else B.cols) A out.T out.Bc B out.P out.diag := by
  unfold levelStep at h
  dsimp only at h
  split at h
  · cases h
  · rename_i hshape
    simp only [Bool.not_eq_true', Bool.and_eq_false_iff, not_or, decide_eq_false_iff_not, not_not] at hshape
    obtain ⟨⟨⟨⟨hn, hnd⟩, hAr⟩, hAc⟩, hBr⟩ := hshape
    have hK1 : 0 < K1 := pos_of_mul_pos_right' _ _ hn
    split at h
    · cases h
    · cases root with
      | false =>
        simp only [Bool.not_false, Bool.false_eq_true, if_false, if_true] at h ⊢
        split at h
        · cases h
        · rename_i P d hs
          simp only [Except.ok.injEq] at h
          subst h
          exact hsmo L K1 B.cols A _ _ B P d hn hK1 hnd ⟨hAr, hAc⟩ (dim_ofFn _ _ hn _) hs
      | true =>
        simp only [Bool.not_true, Bool.false_eq_true, if_false, if_true] at h ⊢
        split at h
        · cases h
        · split at h
          · cases h
          · rename_i hcp
            split at h
            · cases h
            · rename_i T hT
              split at h
              · cases h
              · rename_i P d hs
                simp only [Except.ok.injEq] at h
                subst h
                have hcp' : L.cpts.size = L.nCol * K1 := by
                  by_contra hne
                  exact hcp hne
                have dT := scaleT_dim K1 L.cpts _ T (L.nFine * K1) hn (ofFn_size' _ _ _) hT
                rw [hcp'] at dT
                exact hsmo L K1 K1 A T _ B P d hn hK1 hK1 ⟨hAr, hAc⟩ dT hs

/-- `smooth = None`: `P = T` -/
theorem smoNone_spec : SmoOK (K := K) smoNone (fun _ _ _ _ T _ _ P _ => P = T) := by
  intro L K1 K2 A T Bc Bf P d _ _ _ _ _ h
  unfold smoNone at h
  simp only [Except.ok.injEq, Prod.mk.injEq] at h
  exact h.1.symm

/-- `smooth = ('jacobi' | 'richardson', ...)` without `filter_entries`: the level's `P` is the iterate of
`P <- P - M P` with the scaled matrix of the level's own `A` and the recorded weight -/
theorem smoJacobi_spec (absf : K → K) (wt degree : Nat) :
    SmoOK (smoJacobi absf wt degree) (fun L K1 _ A T _ _ P _ =>
      ∃ M, scaledMatrix (effWt wt K1) K1 L.w A
          ((Array.range A.rows).map fun i => sumL ((List.range A.cols).map fun j => absf (A.get i j))) = some M ∧
        P = smoothLoop M degree T) := by
  intro L K1 K2 A T Bc Bf P d _ _ _ _ _ h
  unfold smoJacobi at h
  dsimp only at h
  split at h
  · cases h
  · rename_i M hM
    simp only [Except.ok.injEq, Prod.mk.injEq] at h
    exact ⟨M, hM, h.1.symm⟩

theorem toMx_mul (n k m : Nat) (X Y : Mat K) (_hn : 0 < n) (hX : Dim n k X) (hY : Dim k m Y) :
    toMx n m (Mat.mul X Y) = toMx n k X * toMx k m Y := by
  funext i j
  show (Mat.mul X Y).get i.val j.val = _
  unfold Mat.mul
  rw [hX.1, hY.2, ofFn_get' _ _ _ i.val j.val i.isLt j.isLt, hX.2, sumL_range_fin, Matrix.mul_apply]
  rfl

theorem dim_mul (n k m : Nat) (X Y : Mat K) (hn : 0 < n) (hX : Dim n k X) (hY : Dim k m Y) : Dim n m (Mat.mul X Y) := by
  unfold Mat.mul
  rw [hX.1, hY.2]
  exact dim_ofFn n m hn _

/-- **the array loop of the unfiltered Jacobi / Richardson smoothers is the polynomial**
`P = (I − M)^degree · T` (`C10.smoothing_polynomial` for the array model) -/
theorem smoothLoop_polynomial (n m : Nat) (hn : 0 < n) (M : Mat K) (hM : Dim n n M) :
    ∀ (d : Nat) (T : Mat K), Dim n m T →
      Dim n m (smoothLoop M d T) ∧ toMx n m (smoothLoop M d T) = (1 - toMx n n M) ^ d * toMx n m T := by
  intro d
  induction d with
  | zero =>
    intro T hT
    exact ⟨hT, by simp [smoothLoop]⟩
  | succ d ih =>
    intro T hT
    unfold smoothLoop
    have hMT := dim_mul n n m M T hn hM hT
    have hs := dim_sub n m hn T (Mat.mul M T) hT
    obtain ⟨i1, i2⟩ := ih _ hs
    refine ⟨i1, ?_⟩
    rw [i2, toMx_sub n m T _ hT, toMx_mul n n m M T hn hM hT, pow_succ, Matrix.mul_assoc]
    congr 1
    rw [Matrix.sub_mul, Matrix.one_mul]

/-- `smooth = ('energy', cg | cgnr)`: the level's `P` is the result of the composed energy model, which satisfies
`FullProp` for the level's `T`, `B_c`, `B`, strength matrix and root dofs -/
theorem smoEnergyCG_spec (nsq : K → Rat) (absf conj : K → K) (lt : K → K → Bool) (cgnr : Bool) (wt : Nat) (o : Opts)
    (tol tol2 : K) :
    SmoOK (smoEnergyCG nsq absf conj lt cgnr wt o tol tol2) (fun L K1 K2 _ T Bc Bf P d =>
      d.P = P ∧ FullProp nsq o (L.nFine * K1) (L.nCol * K2) Bc.cols K1 K2 L.atilde (tpatOf L.nFine L.nCol L.cp L.ci)
        T Bc Bf L.cpts d) := by
  intro L K1 K2 A T Bc Bf P d hn hK1 hK2 hA hT h
  unfold smoEnergyCG at h
  dsimp only at h
  split at h
  · cases h
  · rename_i out hout
    simp only [Except.ok.injEq, Prod.mk.injEq] at h
    obtain ⟨rfl, rfl⟩ := h
    exact ⟨rfl, energyFullCG_property nsq conj lt cgnr _ K1 _ o Bc.cols K1 K2 L.atilde _ A T Bc Bf L.cpts tol tol2 out
      hn hK1 hK2 hA hT rfl hout⟩

/-- `smooth = ('energy', gmres)` -/
theorem smoEnergyGmres_spec (nsq : K → Rat) (absf : K → K) (sc : SOps K) (wt : Nat) (o : Opts) (tol tol2 : K) :
    SmoOK (smoEnergyGmres nsq absf sc wt o tol tol2) (fun L K1 K2 _ T Bc Bf P d =>
      d.P = P ∧ FullProp nsq o (L.nFine * K1) (L.nCol * K2) Bc.cols K1 K2 L.atilde (tpatOf L.nFine L.nCol L.cp L.ci)
        T Bc Bf L.cpts d) := by
  intro L K1 K2 A T Bc Bf P d hn hK1 hK2 hA hT h
  unfold smoEnergyGmres at h
  split at h
  · cases h
  · rename_i out hout
    simp only [Except.ok.injEq, Prod.mk.injEq] at h
    obtain ⟨rfl, rfl⟩ := h
    exact ⟨rfl, energyFullGmres_property nsq sc _ K1 _ o Bc.cols K1 K2 L.atilde _ A T Bc Bf L.cpts tol tol2 out
      hn hK1 hK2 hA.1 hT rfl hout⟩


/-- **root-node levels**: the tentative prolongator handed to the smoother has identity rows at the root dofs,
and the coarse candidates are the fine candidates at the root dofs (`B_c = P_I^T B`) -/
theorem levelStep_root (o : FitOps K K) (conj rnd : K → K) (tol : K)
    (smo : LvlIn K → (K1 K2 : Nat) → (A T Bc Bf : Mat K) → Except String (Mat K × δ))
    (L : LvlIn K) (K1 : Nat) (A B : Mat K) (out : LvlOut K δ)
    (h : levelStep o conj rnd true tol smo L K1 A B = .ok out) :
    L.cpts.size = L.nCol * K1 ∧ Dim (L.nFine * K1) (L.nCol * K1) out.T ∧
    (∀ i k, i < L.nFine * K1 → rootIdx L.cpts i = some k → ∀ j, j < L.nCol * K1 →
      out.T.get i j = if k = j then 1 else 0) ∧
    (∀ k c, k < L.cpts.size → c < B.cols → out.Bc.get k c = B.get (L.cpts.getD k 0) c) := by
  unfold levelStep at h
  dsimp only at h
  split at h
  · cases h
  · rename_i hshape
    simp only [Bool.not_eq_true', Bool.and_eq_false_iff, not_or, decide_eq_false_iff_not, not_not] at hshape
    obtain ⟨⟨⟨⟨hn, hnd⟩, hAr⟩, hAc⟩, hBr⟩ := hshape
    split at h
    · cases h
    · simp only [Bool.not_true, Bool.false_eq_true, if_false] at h
      split at h
      · cases h
      · split at h
        · cases h
        · rename_i hcp
          split at h
          · cases h
          · rename_i T hT
            split at h
            · cases h
            · simp only [Except.ok.injEq] at h
              subst h
              dsimp only
              have hcp' : L.cpts.size = L.nCol * K1 := by
                by_contra hne
                exact hcp hne
              have dT := scaleT_dim K1 L.cpts _ T (L.nFine * K1) hn (ofFn_size' _ _ _) hT
              refine ⟨hcp', by rw [← hcp']; exact dT, ?_, ?_⟩
              · intro i k hi hk j hj
                exact scaleT_root_rows K1 L.cpts _ T (L.nFine * K1) (ofFn_size' _ _ _) hT i k hi hk j (by rw [hcp']; exact hj)
              · intro k c hk hc
                unfold rootRows
                rw [ofFn_get' _ _ _ k c hk hc]

/-- a prolongator that satisfies `FullProp` for a tentative prolongator with identity rows at the root dofs has
identity rows there itself -/
theorem fullProp_root_rows {ι : Type} {n m : Nat} (nsq : K → Rat) (o : Opts) (nd rpb cpb : Nat)
    (atilde : PyamgV.C19.Rows K) (tpat : Pat) (T B Bf : Mat K) (cpts : Array Nat) (out : Out K ι)
    (hT : ∀ i k, i < n → rootIdx cpts i = some k → ∀ j, j < m → T.get i j = if k = j then 1 else 0)
    (h : FullProp nsq o n m nd rpb cpb atilde tpat T B Bf cpts out) :
    ∀ i k, i < n → rootIdx cpts i = some k → ∀ j, j < m → out.P.get i j = if k = j then 1 else 0 := by
  intro i k hi hk j hj
  obtain ⟨_, _, _, _, hrel, hfit⟩ := h
  by_cases hf : out.fitted = false ∧ out.second = false
  · rcases (hrel hf.1 hf.2).2.2 ⟨i, hi⟩ k hk with h1 | h1
    · have := h1 ⟨j, hj⟩
      show toMx n m out.P ⟨i, hi⟩ ⟨j, hj⟩ = _
      rw [this]
      exact hT i k hi hk j hj
    · exact h1 ⟨j, hj⟩
  · have : out.fitted = true ∨ out.second = true := by
      by_contra hc
      apply hf
      constructor
      · cases hx : out.fitted with
        | false => rfl
        | true => exact absurd (Or.inl hx) hc
      · cases hx : out.second with
        | false => rfl
        | true => exact absurd (Or.inr hx) hc
    exact (hfit this).2.2 ⟨i, hi⟩ k hk ⟨j, hj⟩

end smooth

end PyamgV.C10d
