import PyamgV.Proofs.ExtC05RefineSym

/-! PyamgV (C05, extension E23, complex case, part F1): the function-level theory of linear iterations
**over an arbitrary field** (no order). The statements of `Proofs/LinIter.lean`, `C03Lin.lean`,
`C05Adj.lean`, `GsRefine.lean`, `GsAdjoint.lean`, `Sor*.lean`, `Jacobi.lean`, `C05Sym.lean` carry the
order instances of their `variable` lines although their proofs do not use them; the Gaussian rationals
`CRat` of the complex kernel models are a field without order, so the theorems are re-proved here about
the SAME definitions (`IsLinIter`, `compM`, `MopL`, `cyc`, `smFn`, `smOp`, ...) in namespace `PyamgV.CF`
(generated from the originals: proofs unchanged up to name resolution). -/
set_option linter.unusedSectionVars false
set_option linter.unusedVariables false
set_option linter.unusedSimpArgs false

/-! ### from LinIter.lean -/
namespace PyamgV.CF
open PyamgV PyamgV.C05
variable {K : Type*} [Field K]
variable {V : Type*} [AddCommGroup V] [Module K V]
theorem IsLinIter.comp {A : V →ₗ[K] V} {f g : V → V → V} {M₁ M₂ : V →ₗ[K] V}
    (hf : IsLinIter A f M₁) (hg : IsLinIter A g M₂) :
    IsLinIter A (fun x b => g (f x b) b) (compM A M₁ M₂) := by
  intro x b
  show g (f x b) b = _
  rw [hg (f x b) b, hf x b]
  simp only [compM, map_add, map_sub, LinearMap.add_apply,
    LinearMap.sub_apply, LinearMap.comp_apply]
  abel
theorem IsLinIter.iter {A : V →ₗ[K] V} {f : V → V → V} {M : V →ₗ[K] V}
    (hf : IsLinIter A f M) (k : Nat) : ∀ (g : V → V → V) (M0 : V →ₗ[K] V), IsLinIter A g M0 →
      IsLinIter A (fun x b => iter f b k (g x b)) (iterM A M k M0) := by
  induction k with
  | zero => intro g M0 hg; simpa [PyamgV.iter, iterM] using hg
  | succ k ih =>
    intro g M0 hg
    have := ih (fun x b => f (g x b) b) (compM A M0 M) (IsLinIter.comp hg hf)
    simpa [PyamgV.iter, iterM] using this
theorem IsLinIter.zero {A : V →ₗ[K] V} {f : V → V → V} {M : V →ₗ[K] V} (h : IsLinIter A f M)
    (b : V) : f 0 b = M b := by simp [h 0 b]
theorem iter_ignore (g : V → V) (rc : V) : ∀ k, iter (fun _ b => g b) rc k (g rc) = g rc := by
  intro k; induction k with
  | zero => rfl
  | succ k ih => simpa [PyamgV.iter] using ih
/-- one level on top of a coarse map `xcOf` that is linear in the coarse right-hand side -/
theorem twoGrid_isLinIter (L : LinLevel K V) (xcOf : V → V) (Mc : V →ₗ[K] V)
    (hpre : IsLinIter L.A L.pre L.Qpre) (hpost : IsLinIter L.A L.post L.Qpost)
    (hxc : ∀ rc, xcOf rc = Mc rc) :
    IsLinIter L.A (fun x b => L.post (L.pre x b + L.P (xcOf (L.R (b - L.A (L.pre x b))))) b)
      (compM L.A (compM L.A L.Qpre (L.P ∘ₗ Mc ∘ₗ L.R)) L.Qpost) := by
  have hmid : IsLinIter L.A (fun x b => x + L.P (xcOf (L.R (b - L.A x)))) (L.P ∘ₗ Mc ∘ₗ L.R) := by
    intro x b; simp [hxc]
  exact IsLinIter.comp (IsLinIter.comp hpre hmid) hpost
end PyamgV.CF

/-! ### from C03Lin.lean -/
namespace PyamgV.CF
open PyamgV PyamgV.C05
variable {K : Type*} [Field K]
variable {V : Type*} [AddCommGroup V] [Module K V]
theorem cycL_isLinIter (S : V →ₗ[K] V) :
    ∀ (Ls : List (LinLevel K V)) (c : CType) (L : LinLevel K V),
      WFLs (L :: Ls) →
      IsLinIter L.A (cyc (fun b => S b) c ((L :: Ls).map (·.toLevel))) (MopL S c (L :: Ls)) := by
  intro Ls
  induction Ls with
  | nil =>
    intro c L h
    obtain ⟨hpre, hpost, _⟩ := h
    have := twoGrid_isLinIter L (fun rc => S rc) S hpre hpost (fun _ => rfl)
    cases c with
    | V => simpa [cyc, MopL] using this
    | W => simpa [cyc, MopL] using this
    | F k =>
      have hi := iter_ignore (fun b => S b)
      simp only [List.map_cons, List.map_nil, cyc, MopL]
      simp only [hi]
      simpa using this
  | cons L' rest ih =>
    intro c L h
    obtain ⟨hpre, hpost, hrest⟩ := h
    have hc : ∀ c', IsLinIter L'.A
        (cyc (fun b => S b) c' ((L' :: rest).map (·.toLevel))) (MopL S c' (L' :: rest)) :=
      fun c' => ih c' L' hrest
    cases c with
    | V =>
      have := twoGrid_isLinIter L (fun rc => cyc (fun b => S b) .V ((L' :: rest).map (·.toLevel)) 0 rc)
        (MopL S .V (L' :: rest)) hpre hpost (fun rc => IsLinIter.zero (hc .V) rc)
      simpa [cyc, MopL] using this
    | W =>
      have h2 := IsLinIter.comp (hc .W) (hc .W)
      have := twoGrid_isLinIter L
        (fun rc => cyc (fun b => S b) .W ((L' :: rest).map (·.toLevel))
          (cyc (fun b => S b) .W ((L' :: rest).map (·.toLevel)) 0 rc) rc)
        (compM L'.A (MopL S .W (L' :: rest)) (MopL S .W (L' :: rest))) hpre hpost
        (fun rc => IsLinIter.zero h2 rc)
      simpa [cyc, MopL] using this
    | F k =>
      have h2 := IsLinIter.iter (hc .V) k _ _ (hc (.F k))
      have := twoGrid_isLinIter L
        (fun rc => iter (cyc (fun b => S b) .V ((L' :: rest).map (·.toLevel))) rc k
          (cyc (fun b => S b) (.F k) ((L' :: rest).map (·.toLevel)) 0 rc))
        (iterM L'.A (MopL S .V (L' :: rest)) k (MopL S (.F k) (L' :: rest))) hpre hpost
        (fun rc => IsLinIter.zero h2 rc)
      simpa [cyc, MopL] using this
end PyamgV.CF

/-! ### from C05Adj.lean -/
namespace PyamgV.CF
open PyamgV PyamgV.C05
variable {K : Type*} [Field K]
variable {V : Type*} [AddCommGroup V] [Module K V]
theorem compM_zero_left (A M : V →ₗ[K] V) : compM A 0 M = M := by
  ext x; simp [compM]
theorem compM_zero_right (A M : V →ₗ[K] V) : compM A M 0 = M := by
  ext x; simp [compM]
theorem compM_assoc (A X Y Z : V →ₗ[K] V) :
    compM A (compM A X Y) Z = compM A X (compM A Y Z) := by
  ext x
  simp only [compM, LinearMap.add_apply, LinearMap.sub_apply, LinearMap.comp_apply, map_add, map_sub]
  abel
theorem powM_succ' (A M : V →ₗ[K] V) (k : Nat) : powM A M (k+1) = compM A M (powM A M k) := by
  induction k with
  | zero => simp [powM, compM_zero_left, compM_zero_right]
  | succ k ih =>
    calc powM A M (k+1+1) = compM A (powM A M (k+1)) M := rfl
      _ = compM A (compM A M (powM A M k)) M := by rw [ih]
      _ = compM A M (compM A (powM A M k) M) := compM_assoc A _ _ _
      _ = compM A M (powM A M (k+1)) := rfl
/-- `iterM` of Proofs/LinIter.lean: `M0` followed by `k` applications of `M` -/
theorem iterM_eq_powM (A M : V →ₗ[K] V) (k : Nat) : ∀ M0, iterM A M k M0 = compM A M0 (powM A M k) := by
  induction k with
  | zero => intro M0; simp [iterM, powM, compM_zero_right]
  | succ k ih =>
    intro M0
    rw [show iterM A M (k+1) M0 = iterM A M k (compM A M0 M) from rfl, ih, compM_assoc, ← powM_succ']
/-- `k` applications of a linear iteration are a linear iteration with operator `powM` -/
theorem IsLinIter.pow {A : V →ₗ[K] V} {f : V → V → V} {M : V →ₗ[K] V} (hf : IsLinIter A f M) (k : Nat) :
    IsLinIter A (fun x b => PyamgV.iter f b k x) (powM A M k) := by
  have h0 : IsLinIter A (fun x _ => x) (0 : V →ₗ[K] V) := by intro x b; simp
  have := IsLinIter.iter hf k (fun x _ => x) 0 h0
  rw [iterM_eq_powM, compM_zero_left] at this
  exact this
end PyamgV.CF
namespace PyamgV.CF.C05
open PyamgV PyamgV.C05
open PyamgV
variable {K : Type*} [Field K] [DecidableEq K]
end PyamgV.CF.C05

/-! ### from GsRefine.lean -/
namespace PyamgV.CF
open PyamgV PyamgV.C05
variable {K : Type*} [Field K] [DecidableEq K]
theorem rowScan_spec (i : Nat) (row : Row K) (x : Nat → K) :
    ∀ (acc : K × K),
      (row.foldl (fun acc cv => if cv.1 = i then (acc.1, cv.2) else (acc.1 + cv.2 * x cv.1, acc.2)) acc).1
        = acc.1 + ((row.filter (fun cv => cv.1 ≠ i)).map (fun cv => cv.2 * x cv.1)).sum ∧
      (row.foldl (fun acc cv => if cv.1 = i then (acc.1, cv.2) else (acc.1 + cv.2 * x cv.1, acc.2)) acc).2
        = (((row.filter (fun cv => cv.1 = i)).map (·.2)).getLast?).getD acc.2 := by
  induction row with
  | nil => intro acc; simp
  | cons cv rest ih =>
    intro acc
    simp only [List.foldl_cons]
    by_cases h : cv.1 = i
    · simp only [h, if_true]
      obtain ⟨h1, h2⟩ := ih (acc.1, cv.2)
      refine ⟨by simpa [h] using h1, ?_⟩
      rw [h2]
      simp only [List.filter_cons, h, decide_true, if_true, List.map_cons]
      cases hr : (List.map (·.2) (List.filter (fun cv => decide (cv.1 = i)) rest)) with
      | nil => simp
      | cons a l =>
        cases hl : (a :: l).getLast? with
        | none => simp at hl
        | some z => simp [List.getLast?_cons_cons, hl]
    · simp only [h, if_false]
      obtain ⟨h1, h2⟩ := ih (acc.1 + cv.2 * x cv.1, acc.2)
      refine ⟨?_, by simpa [h] using h2⟩
      rw [h1]; simp [h, add_assoc]
/-- splitting the row dot product into off-diagonal part and diagonal part -/
theorem rowDot_split (i : Nat) (row : Row K) (x : Nat → K) (d : K) (hd : HasDiag i row d) :
    rowDot row x = ((row.filter (fun cv => cv.1 ≠ i)).map (fun cv => cv.2 * x cv.1)).sum + d * x i := by
  unfold rowDot HasDiag at *
  induction row generalizing d with
  | nil => simp at hd
  | cons cv rest ih =>
    by_cases h : cv.1 = i
    · -- this entry is the diagonal one; the rest has none
      simp only [List.filter_cons, h, decide_true, if_true, List.map_cons, List.cons.injEq] at hd
      obtain ⟨hv, hrest⟩ := hd
      have hnone : ∀ cv' ∈ rest, cv'.1 ≠ i := by
        intro cv' hm hc
        have : cv'.2 ∈ List.map (·.2) (List.filter (fun cv => decide (cv.1 = i)) rest) :=
          List.mem_map.2 ⟨cv', List.mem_filter.2 ⟨hm, by simpa using hc⟩, rfl⟩
        rw [hrest] at this; simp at this
      have hf : rest.filter (fun cv => !decide (cv.1 = i)) = rest := by
        apply List.filter_eq_self.2; intro a ha; simpa using hnone a ha
      simp [h, hf, hv]; ring
    · simp only [List.filter_cons, h, decide_false] at hd
      have := ih d (by simpa using hd)
      simp only [List.map_cons, List.sum_cons, this]
      simp [h]; ring
/-- **Kernel fact**: after the update, the residual of row `i` is zero. -/
theorem gsRow_residual_zero (i : Nat) (row : Row K) (b x : Nat → K) (d : K)
    (hd : HasDiag i row d) (hd0 : d ≠ 0) :
    b i - rowDot row (gsRowFn i row b x) = 0 := by
  obtain ⟨h1, h2⟩ := rowScan_spec i row x (0, 0)
  have hdiag : (rowScan i row x).2 = d := by
    unfold rowScan; rw [h2]; unfold HasDiag at hd; rw [hd]; simp
  have hrs : (rowScan i row x).1 =
      ((row.filter (fun cv => cv.1 ≠ i)).map (fun cv => cv.2 * x cv.1)).sum := by
    unfold rowScan; rw [h1]; simp
  unfold gsRowFn
  rw [show rowScan i row x = ((rowScan i row x).1, (rowScan i row x).2) from rfl]
  simp only [hdiag, hd0, if_false]
  rw [rowDot_split i row _ d hd]
  -- off-diagonal terms do not see the updated coordinate
  have hoff : ((row.filter (fun cv => cv.1 ≠ i)).map
      (fun cv => cv.2 * Function.update x i ((b i - (rowScan i row x).1) / d) cv.1)).sum =
      ((row.filter (fun cv => cv.1 ≠ i)).map (fun cv => cv.2 * x cv.1)).sum := by
    congr 1
    apply List.map_congr_left
    intro cv hcv
    have : cv.1 ≠ i := by simpa using (List.mem_filter.1 hcv).2
    simp [Function.update_of_ne this]
  rw [hoff, Function.update_self, hrs]
  field_simp
  ring
end PyamgV.CF

/-! ### from GsEnergy.lean -/
namespace PyamgV.CF
open PyamgV PyamgV.C05
open Finset
variable {K : Type*} [Field K] [DecidableEq K]
theorem rowDot_add (row : Row K) (u v : Nat → K) : rowDot row (u + v) = rowDot row u + rowDot row v := by
  unfold rowDot; induction row with
  | nil => simp
  | cons cv rest ih =>
    simp only [List.map_cons, List.sum_cons, Pi.add_apply] at ih ⊢
    rw [ih]; ring
theorem rowDot_smul (row : Row K) (c : K) (u : Nat → K) : rowDot row (c • u) = c * rowDot row u := by
  unfold rowDot; induction row with
  | nil => simp
  | cons cv rest ih =>
    simp only [List.map_cons, List.sum_cons, Pi.smul_apply, smul_eq_mul] at ih ⊢
    rw [ih]; ring
/-- the operator of a CSR matrix given by its rows -/
def csrOp (n : Nat) (rows : Nat → Row K) : (Nat → K) →ₗ[K] (Nat → K) where
  toFun u := fun i => if i < n then rowDot (rows i) u else 0
  map_add' u v := by funext i; by_cases h : i < n <;> simp [h, rowDot_add]
  map_smul' c u := by funext i; by_cases h : i < n <;> simp [h, rowDot_smul]
@[simp] theorem csrOp_apply (n : Nat) (rows : Nat → Row K) (u : Nat → K) (i : Nat) (h : i < n) :
    csrOp n rows u i = rowDot (rows i) u := by simp [csrOp, h]
end PyamgV.CF

/-! ### from Sor.lean -/
namespace PyamgV.CF
open PyamgV PyamgV.C05
variable {K : Type*} [Field K] [DecidableEq K]
/-- SOR is the damped Gauss–Seidel correction -/
theorem sorRow_eq (ω : K) (i : Nat) (row : Row K) (b x : Nat → K) :
    sorRowFn ω i row b x = x + ω • (gsRowFn i row b x - x) := by
  unfold sorRowFn gsRowFn
  rw [show rowScan i row x = ((rowScan i row x).1, (rowScan i row x).2) from rfl]
  by_cases h : (rowScan i row x).2 = 0
  · simp [h]
  · simp only [h, if_false]
    funext j
    by_cases hj : j = i
    · subst hj; simp; ring
    · simp [Function.update_of_ne hj]
end PyamgV.CF

/-! ### from Jacobi.lean -/
namespace PyamgV.CF
open PyamgV PyamgV.C05
variable {K : Type*} [Field K] [DecidableEq K]
/-- **Jacobi row formula**: with a unique stored diagonal `d ≠ 0`, the new entry is
`temp_i + ω (b_i − (A temp)_i) / d`. -/
theorem jacRow_formula (ω : K) (i : Nat) (row : Row K) (b temp x : Nat → K) (d : K)
    (hd : HasDiag i row d) (hd0 : d ≠ 0) :
    jacRowFn ω i row b temp x i = temp i + ω * ((b i - rowDot row temp) / d) ∧
    ∀ j, j ≠ i → jacRowFn ω i row b temp x j = x j := by
  obtain ⟨h1, h2⟩ := rowScan_spec i row temp (0, 0)
  have hdiag : (rowScan i row temp).2 = d := by
    unfold rowScan; rw [h2]; unfold HasDiag at hd; rw [hd]; simp
  have hrs : (rowScan i row temp).1 =
      ((row.filter (fun cv => cv.1 ≠ i)).map (fun cv => cv.2 * temp cv.1)).sum := by
    unfold rowScan; rw [h1]; simp
  unfold jacRowFn
  rw [show rowScan i row temp = ((rowScan i row temp).1, (rowScan i row temp).2) from rfl]
  simp only [hdiag, hd0, if_false]
  constructor
  · rw [Function.update_self, hrs, rowDot_split i row temp d hd]
    field_simp
    ring
  · intro j hj; rw [Function.update_of_ne hj]
/-- zero diagonal: the row is left unchanged -/
theorem jacRow_zero_diag (ω : K) (i : Nat) (row : Row K) (b temp x : Nat → K)
    (hd : HasDiag i row 0) : jacRowFn ω i row b temp x = x := by
  obtain ⟨_, h2⟩ := rowScan_spec i row temp (0, 0)
  have hdiag : (rowScan i row temp).2 = 0 := by
    unfold rowScan; rw [h2]; unfold HasDiag at hd; rw [hd]; simp
  unfold jacRowFn
  rw [show rowScan i row temp = ((rowScan i row temp).1, (rowScan i row temp).2) from rfl]
  simp [hdiag]
end PyamgV.CF

/-! ### from GsAdjoint.lean -/
namespace PyamgV.CF
open PyamgV PyamgV.C05
open Finset
variable {K : Type*} [Field K] [DecidableEq K]
theorem gsRow_isLinIter (n : Nat) (rows : Nat → Row K) (i : Nat) (hi : i < n) (d : K)
    (hd : HasDiag i (rows i) d) (hd0 : d ≠ 0) :
    IsLinIter (csrOp n rows) (fun x b => gsRowFn i (rows i) b x) (rowQ i d) := by
  intro x b
  obtain ⟨h1, h2⟩ := rowScan_spec i (rows i) x (0, 0)
  have hdiag : (rowScan i (rows i) x).2 = d := by
    unfold rowScan; rw [h2]; unfold HasDiag at hd; rw [hd]; simp
  have hrs : (rowScan i (rows i) x).1 =
      (((rows i).filter (fun cv => cv.1 ≠ i)).map (fun cv => cv.2 * x cv.1)).sum := by
    unfold rowScan; rw [h1]; simp
  show gsRowFn i (rows i) b x = x + rowQ i d (b - csrOp n rows x)
  unfold gsRowFn
  rw [show rowScan i (rows i) x = ((rowScan i (rows i) x).1, (rowScan i (rows i) x).2) from rfl]
  simp only [hdiag, hd0, if_false]
  funext j
  simp only [rowQ, LinearMap.coe_mk, AddHom.coe_mk, Pi.add_apply, Pi.smul_apply, Pi.sub_apply,
    smul_eq_mul, csrOp_apply n rows x i hi]
  by_cases hj : j = i
  · subst hj
    rw [Function.update_self, hrs, rowDot_split j (rows j) x d hd]
    simp only [Pi.single_eq_same]
    field_simp
    ring
  · rw [Function.update_of_ne hj]; simp [Pi.single_apply, hj]
theorem isLinIter_id (A : (Nat → K) →ₗ[K] (Nat → K)) : IsLinIter A (fun x _ => x) 0 := by
  intro x b; simp
theorem gsSweep_isLinIter (n : Nat) (rows : Nat → Row K) (diag : Nat → K)
    (hdiag : ∀ i, i < n → HasDiag i (rows i) (diag i) ∧ diag i ≠ 0) :
    ∀ (order : List Nat), (∀ i ∈ order, i < n) →
      IsLinIter (csrOp n rows) (fun x b => gsSweepFn rows b order x) (sweepOp (csrOp n rows) diag order) := by
  intro order
  induction order with
  | nil => intro _; simpa [gsSweepFn, sweepOp] using isLinIter_id (csrOp n rows)
  | cons i rest ih =>
    intro h
    have hi := h i (by simp)
    have h1 := gsRow_isLinIter n rows i hi (diag i) (hdiag i hi).1 (hdiag i hi).2
    have h2 := ih (fun j hj => h j (by simp [hj]))
    have := IsLinIter.comp h1 h2
    simpa [gsSweepFn, sweepOp] using this
/-- compM with reversed order: appending a row at the end -/
theorem sweepOp_append (A : (Nat → K) →ₗ[K] (Nat → K)) (diag : Nat → K) (l : List Nat) (i : Nat) :
    sweepOp A diag (l ++ [i]) = compM A (sweepOp A diag l) (rowQ i (diag i)) := by
  induction l with
  | nil =>
    simp only [List.nil_append, sweepOp, compM]
    ext x j; simp
  | cons a l ih =>
    simp only [List.cons_append, sweepOp, ih, compM]
    ext x j
    simp only [LinearMap.add_apply, LinearMap.sub_apply, LinearMap.comp_apply, map_add, map_sub,
      Pi.add_apply, Pi.sub_apply]
    ring
end PyamgV.CF

/-! ### from SorAdjoint.lean -/
namespace PyamgV.CF
open PyamgV PyamgV.C05
variable {K : Type*} [Field K] [DecidableEq K]
theorem rowQ_scale (i : Nat) (d ω : K) (r : Nat → K) :
    rowQ i (d / ω) r = ω • rowQ i d r := by
  simp only [rowQ, LinearMap.coe_mk, AddHom.coe_mk, smul_smul]
  congr 1
  by_cases hω : ω = 0
  · subst hω; simp
  · by_cases hd : d = 0
    · subst hd; simp
    · field_simp
theorem sorRow_isLinIter (ω : K) (n : Nat) (rows : Nat → Row K) (i : Nat) (hi : i < n) (d : K)
    (hd : HasDiag i (rows i) d) (hd0 : d ≠ 0) :
    IsLinIter (csrOp n rows) (fun x b => sorRowFn ω i (rows i) b x) (rowQ i (d / ω)) := by
  intro x b
  show sorRowFn ω i (rows i) b x = x + rowQ i (d / ω) (b - csrOp n rows x)
  rw [sorRow_eq, rowQ_scale]
  have h := gsRow_isLinIter n rows i hi d hd hd0 x b
  have h' : gsRowFn i (rows i) b x = x + rowQ i d (b - csrOp n rows x) := h
  rw [h']; simp
theorem sorSweep_isLinIter (ω : K) (n : Nat) (rows : Nat → Row K) (diag : Nat → K)
    (hdiag : ∀ i, i < n → HasDiag i (rows i) (diag i) ∧ diag i ≠ 0) :
    ∀ (order : List Nat), (∀ i ∈ order, i < n) →
      IsLinIter (csrOp n rows) (fun x b => sorSweepFn ω rows b order x)
        (sweepOp (csrOp n rows) (fun i => diag i / ω) order) := by
  intro order
  induction order with
  | nil => intro _; simpa [sorSweepFn, sweepOp] using isLinIter_id (csrOp n rows)
  | cons i rest ih =>
    intro h
    have hi := h i (by simp)
    have h1 := sorRow_isLinIter ω n rows i hi (diag i) (hdiag i hi).1 (hdiag i hi).2
    have h2 := ih (fun j hj => h j (by simp [hj]))
    have := IsLinIter.comp h1 h2
    simpa [sorSweepFn, sweepOp] using this
end PyamgV.CF

/-! ### from C05Sym.lean -/
namespace PyamgV.CF.C05
open PyamgV PyamgV.C05
open PyamgV
variable {K : Type*} [Field K] [DecidableEq K]
/-- `iterations` Gauss–Seidel/SOR passes in any of the three sweep modes are the linear iteration
`x + M (b − A x)` with `M = smOp … (.gs ω sweep iterations)` -/
theorem gs_isLinIter (ω : Rat) (n : Nat) (rows : Nat → Row K) (diag : Nat → K)
    (hdiag : ∀ i, i < n → HasDiag i (rows i) (diag i) ∧ diag i ≠ 0)
    (C F : List Nat) (sw : PyamgV.K.Sweep) (k : Nat) :
    IsLinIter (csrOp n rows) (fun x b => PyamgV.iter (gsFn (ω : K) rows n sw) b k x)
      (smOp (csrOp n rows) diag n C F (.gs ω sw k)) := by
  have hr : ∀ i ∈ List.range n, i < n := fun i hi => List.mem_range.1 hi
  have hr' : ∀ i ∈ (List.range n).reverse, i < n := fun i hi => List.mem_range.1 (List.mem_reverse.1 hi)
  have hf := sorSweep_isLinIter (ω : K) n rows diag hdiag (List.range n) hr
  have hb := sorSweep_isLinIter (ω : K) n rows diag hdiag (List.range n).reverse hr'
  cases sw with
  | forward => simpa [smOp, passOp, gsFn] using IsLinIter.pow hf k
  | backward => simpa [smOp, passOp, gsFn] using IsLinIter.pow hb k
  | symmetric => simpa [smOp, passOp, gsFn] using IsLinIter.pow (IsLinIter.comp hf hb) k
end PyamgV.CF.C05
namespace PyamgV.CF.C05
open PyamgV PyamgV.C05
open PyamgV
variable {K : Type*} [Field K] [DecidableEq K]
theorem jacOp_apply (diag : Nat → K) (ω : K) (idx : List Nat) (hnd : idx.Nodup) (r : Nat → K) (j : Nat) :
    jacOp diag ω idx r j = if j ∈ idx then ω * (r j / diag j) else 0 := by
  induction idx with
  | nil => simp [jacOp]
  | cons i rest ih =>
    have hi : i ∉ rest := (List.nodup_cons.1 hnd).1
    have ih' := ih (List.nodup_cons.1 hnd).2
    have hcons : jacOp diag ω (i :: rest) r j = rowQ i (diag i / ω) r j + jacOp diag ω rest r j := by
      simp [jacOp]
    rw [hcons, ih', rowQ_scale]
    simp only [rowQ, LinearMap.coe_mk, AddHom.coe_mk, Pi.smul_apply, smul_eq_mul, Pi.single_apply]
    by_cases hj : j = i
    · subst hj; simp [hi]
    · have : j ∈ i :: rest ↔ j ∈ rest := by simp [hj]
      by_cases hr : j ∈ rest <;> simp [hj, hr]
theorem jacSweepFn_apply (ω : K) (n : Nat) (rows : Nat → Row K) (diag : Nat → K)
    (hdiag : ∀ i, i < n → HasDiag i (rows i) (diag i) ∧ diag i ≠ 0) (b x : Nat → K) :
    ∀ (idx : List Nat), (∀ i ∈ idx, i < n) → ∀ (acc : Nat → K) (j : Nat),
      idx.foldl (fun acc i => jacRowFn ω i (rows i) b x acc) acc j =
        if j ∈ idx then x j + ω * ((b j - rowDot (rows j) x) / diag j) else acc j := by
  intro idx
  induction idx with
  | nil => intro _ acc j; simp
  | cons i rest ih =>
    intro h acc j
    have hi := h i (by simp)
    obtain ⟨f1, f2⟩ := jacRow_formula ω i (rows i) b x acc (diag i) (hdiag i hi).1 (hdiag i hi).2
    rw [List.foldl_cons, ih (fun k hk => h k (by simp [hk]))]
    by_cases hr : j ∈ rest
    · simp [hr]
    · by_cases hj : j = i
      · subst hj; simp [hr, f1]
      · simp [hr, hj, f2 j hj]
/-- a weighted Jacobi step over pairwise distinct rows `idx` (all rows: `jacobi`; the C- or F-points:
`jacobi_indexed`) is the linear iteration `x + M (b − A x)` with `M = jacOp diag ω idx` -/
theorem jac_isLinIter (ω : K) (n : Nat) (rows : Nat → Row K) (diag : Nat → K)
    (hdiag : ∀ i, i < n → HasDiag i (rows i) (diag i) ∧ diag i ≠ 0)
    (idx : List Nat) (hidx : ∀ i ∈ idx, i < n) (hnd : idx.Nodup) :
    IsLinIter (csrOp n rows) (fun x b => PyamgV.C05.jacSweepFn ω rows b idx x) (jacOp diag ω idx) := by
  intro x b
  funext j
  show PyamgV.C05.jacSweepFn ω rows b idx x j = x j + jacOp diag ω idx (b - csrOp n rows x) j
  unfold PyamgV.C05.jacSweepFn
  rw [jacSweepFn_apply ω n rows diag hdiag b x idx hidx x j, jacOp_apply diag ω idx hnd]
  by_cases hj : j ∈ idx
  · simp [hj, csrOp_apply n rows x j (hidx j hj)]
  · simp [hj]
end PyamgV.CF.C05
namespace PyamgV.CF.C05
open PyamgV PyamgV.C05
open PyamgV
variable {K : Type*} [Field K] [DecidableEq K]
/-- **every smoother of the cycle model is the linear iteration `x + smOp (b − A x)`** -/
theorem sm_isLinIter (n : Nat) (rows : Nat → Row K) (diag : Nat → K)
    (hdiag : ∀ i, i < n → HasDiag i (rows i) (diag i) ∧ diag i ≠ 0)
    (C F : List Nat) (hC : ∀ i ∈ C, i < n) (hF : ∀ i ∈ F, i < n) (hCn : C.Nodup) (hFn : F.Nodup) (s : Sm) :
    IsLinIter (csrOp n rows) (smFn rows n C F s) (smOp (csrOp n rows) diag n C F s) := by
  have hjC := fun (ω : Rat) => jac_isLinIter (ω : K) n rows diag hdiag C hC hCn
  have hjF := fun (ω : Rat) => jac_isLinIter (ω : K) n rows diag hdiag F hF hFn
  cases s with
  | none => intro x b; simp [smFn, smOp]
  | gs ω sw k => exact gs_isLinIter ω n rows diag hdiag C F sw k
  | jac ω k =>
    have h := jac_isLinIter (ω : K) n rows diag hdiag (List.range n)
      (fun i hi => List.mem_range.1 hi) List.nodup_range
    simpa [smFn, smOp] using IsLinIter.pow h k
  | cfjac c ω it fi ci =>
    cases c with
    | true => simpa [smFn, smOp] using IsLinIter.pow (IsLinIter.comp (IsLinIter.pow (hjC ω) ci) (IsLinIter.pow (hjF ω) fi)) it
    | false => simpa [smFn, smOp] using IsLinIter.pow (IsLinIter.comp (IsLinIter.pow (hjF ω) fi) (IsLinIter.pow (hjC ω) ci)) it
end PyamgV.CF.C05
namespace PyamgV.CF.C05
open PyamgV PyamgV.C05
open PyamgV
variable {K : Type*} [Field K] [DecidableEq K]
end PyamgV.CF.C05
