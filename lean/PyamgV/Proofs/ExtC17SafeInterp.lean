import PyamgV.Model.ExtC17CkInterp
import PyamgV.Proofs.ExtC17Safe

/-! PyamgV (C17, extension E7): bounds-safety of `rs_direct_interpolation_pass2` and
`rs_classical_interpolation_pass2` (`Model/ExtC17CkInterp.lean`).

The cursor `nnz` of row `i` starts at `Pp[i]`; the invariant of the emitting loop is the counting
identity `nnz + #{remaining strong C entries of the row} = Pp[i+1]` (`PpOK`: what the first pass
computes), so every write `Pj[nnz]`, `Px[nnz]` is below `Pp[i+1] ≤ Pp[n] ≤ |Pj|`, and after the row
*all* slots `Pp[i] .. Pp[i+1]-1` hold node numbers (`ValidPrefix`) -- which is what the renumbering
loop `Pj[k] = map[Pj[k]]`, `k < Pp[n]`, needs.  Core Lean only. -/
namespace PyamgV.C17
open PyamgV.Ck

set_option linter.unusedSectionVars false
set_option linter.unusedVariables false
variable {α : Type} [Inhabited α]

/-! ### counting, prefixes, row pointer facts -/

theorem cntFrom_step (P : Int → Bool) (jj e : Int) (h : jj < e) :
    cntFrom P jj (e - jj).toNat = (if P jj then 1 else 0) + cntFrom P (jj+1) (e - (jj+1)).toNat := by
  have h1 : (e - jj).toNat = (e - (jj+1)).toNat + 1 := by omega
  rw [h1]; rfl

theorem cntFrom_end (P : Int → Bool) (e : Int) : cntFrom P e (e - e).toNat = 0 := by
  have h1 : (e - e).toNat = 0 := by omega
  rw [h1]; rfl

theorem getD_setInt (a : Array Int) (i j : Nat) (v : Int) :
    (a.setIfInBounds i v).getD j 0 = if i = j ∧ i < a.size then v else a.getD j 0 := by
  simp only [Array.getD_eq_getD_getElem?, Array.getElem?_setIfInBounds]
  by_cases h : i = j
  · subst h
    by_cases h2 : i < a.size <;> simp [h2]
  · simp [h]

theorem wr_val {β : Type} (a : Array β) (i : Int) (v : β) (h0 : 0 ≤ i) (h1 : i.toNat < a.size) :
    Safe (Ck.wr a i v) (fun a' => a' = a.setIfInBounds i.toNat v) := by
  unfold Ck.wr; rw [if_pos ⟨h0, h1⟩]; exact ⟨rfl, rfl⟩

/-- the first `m` entries of `pj` are node numbers -/
def ValidPrefix (n : Nat) (pj : Array Int) (m : Int) : Prop :=
  ∀ k : Nat, (k : Int) < m → 0 ≤ pj.getD k 0 ∧ pj.getD k 0 < (n : Int)

theorem validPrefix_push {n : Nat} {pj : Array Int} {m j : Int} (h : ValidPrefix n pj m) (m0 : 0 ≤ m)
    (m1 : m.toNat < pj.size) (j0 : 0 ≤ j) (j1 : j < (n : Int)) :
    ValidPrefix n (pj.setIfInBounds m.toNat j) (m + 1) := by
  intro k hk
  rw [getD_setInt]
  by_cases hkm : m.toNat = k ∧ m.toNat < pj.size
  · rw [if_pos hkm]; exact ⟨j0, j1⟩
  · rw [if_neg hkm]
    exact h k (by
      have : m.toNat ≠ k := fun e => hkm ⟨e, m1⟩
      omega)

theorem pp_step_ge {S : Csr α} {splitting pp : Array Int} (h : PpOK S splitting pp) (i : Nat)
    (hi : i < S.n) : pp.getD i 0 ≤ pp.getD (i+1) 0 := by
  have := h.step i hi
  by_cases hc : splitting.getD i 0 = 1
  · rw [if_pos hc] at this; omega
  · rw [if_neg hc] at this; omega

theorem pp_nonneg {S : Csr α} {splitting pp : Array Int} (h : PpOK S splitting pp) :
    ∀ i, i ≤ S.n → 0 ≤ pp.getD i 0 := by
  intro i
  induction i with
  | zero => intro _; rw [h.zero]; exact Int.le_refl 0
  | succ i ih => intro hi; exact Int.le_trans (ih (by omega)) (pp_step_ge h i (by omega))

theorem pp_le_last {S : Csr α} {splitting pp : Array Int} (h : PpOK S splitting pp) :
    ∀ i, i ≤ S.n → pp.getD i 0 ≤ pp.getD S.n 0 := by
  intro i hi
  induction hd : S.n - i generalizing i with
  | zero => have : i = S.n := by omega
            subst this; exact Int.le_refl _
  | succ d ih =>
    exact Int.le_trans (pp_step_ge h i (by omega)) (ih (i+1) (by omega) (by omega))

/-! ### the shared pieces -/

/-- row invariant: buffer sizes, and the slots of the rows before `i` hold node numbers -/
def RowInv (n : Nat) (pp : Array Int) (np nx : Nat) (i : Int) (st : PJX α) : Prop :=
  st.1.size = np ∧ st.2.size = nx ∧ ValidPrefix n st.1 (pp.getD i.toNat 0)

theorem ipCRow_safe (o : KOps α) (S : Csr α) (splitting pp : Array Int) (hpp : PpOK S splitting pp)
    (np nx : Nat) (hnp : pp.getD S.n 0 ≤ (np : Int)) (hnx : pp.getD S.n 0 ≤ (nx : Int))
    (i : Int) (i0 : 0 ≤ i) (i1 : i < (S.n : Int)) (hc : splitting.getD i.toNat 0 = 1) (st : PJX α)
    (hst : RowInv S.n pp np nx i st) :
    Safe (ipCRow o pp i st) (RowInv S.n pp np nx (i+1)) := by
  obtain ⟨h1, h2, h3⟩ := hst
  have hin : i.toNat < S.n := by omega
  have hs1 : (i+1).toNat = i.toNat + 1 := by omega
  have hstep := hpp.step i.toNat hin
  rw [if_pos hc] at hstep
  have hlast := pp_le_last hpp (i.toNat + 1) (by omega)
  have hnn := pp_nonneg hpp i.toNat (by omega)
  unfold ipCRow
  refine Safe.bind (rd_safe pp i i0 (by rw [hpp.size]; omega)) (fun p hp => ?_)
  have hp' : p = pp.getD i.toNat 0 := hp
  subst hp'
  refine Safe.bind (wr_val st.1 _ i hnn (by rw [h1]; omega)) (fun pj hpj => ?_)
  refine Safe.bind (wr_safe st.2 _ o.one hnn (by rw [h2]; omega)) (fun px hpx => ?_)
  refine Safe.pure ⟨?_, ?_, ?_⟩
  · show pj.size = np; rw [hpj]; simp [h1]
  · show px.size = nx; rw [hpx, h2]
  · show ValidPrefix S.n pj (pp.getD (i+1).toNat 0)
    rw [hs1, hstep, hpj]
    exact validPrefix_push h3 hnn (by rw [h1]; omega) i0 i1

theorem ipMap_safe (n : Nat) (splitting : Array Int) (hsp : splitting.size = n) :
    Safe (ipMap n splitting) (fun m => m.size = n) := by
  unfold ipMap
  refine Safe.bind (P := fun st : Array Int × Int => st.1.size = n) ?_ (fun r hr => Safe.pure hr)
  apply forRange_safe (fun st : Array Int × Int => st.1.size = n) _ _ _ _ (by simp)
  intro i i0 i1 st hst
  refine Safe.bind (wr_safe st.1 i st.2 i0 (by rw [hst]; omega)) (fun m hm => ?_)
  refine Safe.bind (rd_safe splitting i i0 (by rw [hsp]; omega)) (fun si _ => ?_)
  exact Safe.pure (by show m.size = n; rw [hm, hst])

theorem ipRemap_safe (S : Csr α) (splitting pp : Array Int) (hpp : PpOK S splitting pp) (map pj : Array Int)
    (hmap : map.size = S.n) (hnp : pp.getD S.n 0 ≤ (pj.size : Int))
    (hv : ValidPrefix S.n pj (pp.getD S.n 0)) :
    Safe (ipRemap S.n pp map pj) (fun pj' => pj'.size = pj.size) := by
  unfold ipRemap
  refine Safe.bind (rd_safe pp (S.n : Int) (by omega) (by rw [hpp.size]; omega)) (fun nn hnn => ?_)
  have hnn' : nn = pp.getD S.n 0 := by rw [hnn]; simp
  subst hnn'
  have h0 := pp_nonneg hpp S.n (Nat.le_refl _)
  refine Safe.mono (forRange_safe_idx
    (fun (t : Int) (pj' : Array Int) => pj'.size = pj.size ∧
      ∀ k : Nat, t ≤ (k : Int) → (k : Int) < pp.getD S.n 0 → 0 ≤ pj'.getD k 0 ∧ pj'.getD k 0 < (S.n : Int))
    0 _ h0 _ _ ⟨rfl, fun k _ hk => hv k hk⟩ ?_) (fun _ h => h.1)
  intro t t0 t1 pj' hpj'
  obtain ⟨g1, g2⟩ := hpj'
  have hc := g2 t.toNat (by omega) (by omega)
  refine Safe.bind (rd_safe pj' t t0 (by rw [g1]; omega)) (fun c hcv => ?_)
  have hcv' : c = pj'.getD t.toNat 0 := hcv
  rw [← hcv'] at hc
  refine Safe.bind (rd_safe map c hc.1 (by rw [hmap]; omega)) (fun m _ => ?_)
  refine Safe.mono (wr_val pj' t m t0 (by rw [g1]; omega)) (fun pj2 hpj2 => ?_)
  refine ⟨by rw [hpj2]; simp [g1], fun k hk1 hk2 => ?_⟩
  rw [hpj2, getD_setInt]
  have hne : ¬ (t.toNat = k ∧ t.toNat < pj'.size) := fun h => by omega
  rw [if_neg hne]
  exact g2 k (by omega) hk2

/-! ### the emitting loop -/

/-- invariant of the emitting loop of an F row `i` at position `jj` -/
structure EmitInv (S : Csr α) (splitting pp : Array Int) (np nx : Nat) (i : Int) (e : Int) (jj : Int)
    (acc : Array Int × Array α × Int) : Prop where
  sj : acc.1.size = np
  sx : acc.2.1.size = nx
  lo : pp.getD i.toNat 0 ≤ acc.2.2
  cnt : acc.2.2 + (cntFrom (isC S splitting i) jj (e - jj).toNat : Nat) = pp.getD (i.toNat + 1) 0
  pre : ValidPrefix S.n acc.1 acc.2.2

theorem emit_skip {S : Csr α} {splitting pp : Array Int} {np nx : Nat} {i e jj : Int}
    {acc : Array Int × Array α × Int} (h : EmitInv S splitting pp np nx i e jj acc) (hj : jj < e)
    (hc : isC S splitting i jj = false) : EmitInv S splitting pp np nx i e (jj+1) acc := by
  refine ⟨h.sj, h.sx, h.lo, ?_, h.pre⟩
  have := h.cnt
  rw [cntFrom_step _ jj e hj, hc] at this
  simpa using this

theorem emit_room {S : Csr α} {splitting pp : Array Int} {np nx : Nat} {i e jj : Int}
    {acc : Array Int × Array α × Int} (h : EmitInv S splitting pp np nx i e jj acc) (hj : jj < e)
    (hc : isC S splitting i jj = true) : acc.2.2 + 1 ≤ pp.getD (i.toNat + 1) 0 := by
  have := h.cnt
  rw [cntFrom_step _ jj e hj, hc] at this
  simp only [if_true] at this
  omega

theorem emit_push {S : Csr α} {splitting pp : Array Int} {np nx : Nat} {i e jj : Int}
    {acc : Array Int × Array α × Int} (h : EmitInv S splitting pp np nx i e jj acc) (hj : jj < e)
    (hc : isC S splitting i jj = true) (hnn : 0 ≤ pp.getD i.toNat 0) (hroom : acc.2.2.toNat < np)
    (j : Int) (j0 : 0 ≤ j) (j1 : j < (S.n : Int)) (px : Array α) (hpx : px.size = nx) :
    EmitInv S splitting pp np nx i e (jj+1) (acc.1.setIfInBounds acc.2.2.toNat j, px, acc.2.2 + 1) := by
  have hlo := h.lo
  refine ⟨by simp [h.sj], hpx, by show pp.getD i.toNat 0 ≤ acc.2.2 + 1; omega, ?_, ?_⟩
  · have := h.cnt
    rw [cntFrom_step _ jj e hj, hc] at this
    simp only [if_true] at this
    show acc.2.2 + 1 + _ = _
    omega
  · exact validPrefix_push h.pre (by omega) (by rw [h.sj]; exact hroom) j0 j1

/-- facts about entry `jj` of row `i` of `S`: in range, its column `j` a node, `splitting[j]` readable -/
theorem srow (S : Csr α) (hS : WFm S S.n) (i : Int) (i0 : 0 ≤ i) (i1 : i < (S.n : Int)) (jj : Int)
    (j1 : S.ap.getD i.toNat 0 ≤ jj) (j2 : jj < S.ap.getD (i.toNat + 1) 0) :
    0 ≤ jj ∧ jj.toNat < S.aj.size ∧ jj.toNat < S.ax.size ∧
      0 ≤ S.aj.getD jj.toNat 0 ∧ S.aj.getD jj.toNat 0 < (S.n : Int) := by
  have hr := row_range_m S hS i.toNat (by omega) jj j1 j2
  have hc := hS.cols jj.toNat hr.2.1
  exact ⟨hr.1, hr.2.1, hr.2.2, hc.1, hc.2⟩

/-! ### `rs_direct_interpolation_pass2` -/

theorem directRow_safe (o : KOps α) (io : IOps α) (A S : Csr α) {ma : Nat} (hA : WFm A ma) (hS : WFm S S.n)
    (hAn : A.n = S.n) (splitting pp : Array Int) (hsp : splitting.size = S.n) (hpp : PpOK S splitting pp)
    (np nx : Nat) (hnp : pp.getD S.n 0 ≤ (np : Int)) (hnx : pp.getD S.n 0 ≤ (nx : Int))
    (i : Int) (i0 : 0 ≤ i) (i1 : i < (S.n : Int)) (st : PJX α) (hst : RowInv S.n pp np nx i st) :
    Safe (directRow o io A S splitting pp i st) (RowInv S.n pp np nx (i+1)) := by
  have hin : i.toNat < S.n := by omega
  have hs1 : (i+1).toNat = i.toNat + 1 := by omega
  unfold directRow
  refine Safe.bind (rd_safe splitting i i0 (by rw [hsp]; exact hin)) (fun si hsi => ?_)
  have hsi' : si = splitting.getD i.toNat 0 := hsi
  by_cases hc : si = 1
  · rw [if_pos hc]
    exact ipCRow_safe o S splitting pp hpp np nx hnp hnx i i0 i1 (by rw [← hsi']; exact hc) st hst
  · rw [if_neg hc]
    obtain ⟨h1, h2, h3⟩ := hst
    obtain ⟨q1, q2⟩ := rd_ap_safe S hS i i0 i1
    refine Safe.bind q1 (fun s hs => ?_)
    refine Safe.bind q2 (fun e he => ?_)
    subst hs; subst he
    -- the sums over the strong connections
    refine Safe.bind (P := fun _ => True) ?_ (fun ss _ => ?_)
    · apply forRange_safe (fun _ => True) _ _ _ _ trivial
      intro jj j1 j2 acc _
      obtain ⟨f1, f2, f3, f4, f5⟩ := srow S hS i i0 i1 jj j1 j2
      refine Safe.bind (rd_safe S.aj jj f1 f2) (fun j hj => ?_)
      have hj' : j = S.aj.getD jj.toNat 0 := hj
      refine Safe.bind (rd_safe splitting j (by rw [hj']; exact f4) (by rw [hj', hsp]; omega)) (fun sc _ => ?_)
      by_cases hcond : sc = 1 ∧ j ≠ i
      · rw [if_pos hcond]
        refine Safe.bind (rd_safe S.ax jj f1 f3) (fun v _ => ?_)
        by_cases hl : io.ltZero v = true
        · rw [if_pos hl]; exact Safe.pure trivial
        · rw [if_neg hl]; exact Safe.pure trivial
      · rw [if_neg hcond]; exact Safe.pure trivial
    -- the sums over the row of A
    obtain ⟨a1, a2⟩ := rd_ap_safe A hA i i0 (by rw [hAn]; exact i1)
    refine Safe.bind a1 (fun as has => ?_)
    refine Safe.bind a2 (fun ae hae => ?_)
    subst has; subst hae
    refine Safe.bind (P := fun _ => True) ?_ (fun sa _ => ?_)
    · apply forRange_safe (fun _ => True) _ _ _ _ trivial
      intro jj j1 j2 acc _
      have hr := row_range_m A hA i.toNat (by rw [hAn]; exact hin) jj j1 j2
      refine Safe.bind (rd_safe A.aj jj hr.1 hr.2.1) (fun j _ => ?_)
      refine Safe.bind (rd_safe A.ax jj hr.1 hr.2.2) (fun v _ => ?_)
      by_cases hji : j = i
      · rw [if_pos hji]; exact Safe.pure trivial
      · rw [if_neg hji]
        by_cases hl : io.ltZero v = true
        · rw [if_pos hl]; exact Safe.pure trivial
        · rw [if_neg hl]; exact Safe.pure trivial
    -- the emitting loop
    have hnn := pp_nonneg hpp i.toNat (by omega)
    have hlast := pp_le_last hpp (i.toNat + 1) (by omega)
    have hstep := hpp.step i.toNat hin
    rw [if_neg (by rw [← hsi']; exact hc), Int.toNat_of_nonneg i0] at hstep
    have hmono := hS.mono i.toNat hin
    refine Safe.bind (rd_safe pp i i0 (by rw [hpp.size]; omega)) (fun nnz0 hn0 => ?_)
    have hn0' : nnz0 = pp.getD i.toNat 0 := hn0
    subst hn0'
    refine Safe.bind (P := EmitInv S splitting pp np nx i (S.ap.getD (i.toNat + 1) 0) (S.ap.getD (i.toNat + 1) 0))
      ?_ (fun r hr => ?_)
    · refine forRange_safe_idx (EmitInv S splitting pp np nx i (S.ap.getD (i.toNat + 1) 0)) _ _ hmono _ _
        ⟨h1, h2, Int.le_refl _, by show pp.getD i.toNat 0 + _ = _; rw [hstep], h3⟩ ?_
      intro jj j1 j2 acc hacc
      obtain ⟨f1, f2, f3, f4, f5⟩ := srow S hS i i0 i1 jj j1 j2
      refine Safe.bind (rd_safe S.aj jj f1 f2) (fun j hj => ?_)
      have hj' : j = S.aj.getD jj.toNat 0 := hj
      refine Safe.bind (rd_safe splitting j (by rw [hj']; exact f4) (by rw [hj', hsp]; omega)) (fun sc hsc => ?_)
      have hsc' : sc = splitting.getD j.toNat 0 := hsc
      by_cases hcond : sc = 1 ∧ j ≠ i
      · rw [if_pos hcond]
        have hC : isC S splitting i jj = true := by
          unfold isC; rw [decide_eq_true_iff, ← hj', ← hsc']; exact hcond
        have hroom := emit_room hacc j2 hC
        have hlo := hacc.lo
        have hw : acc.2.2.toNat < np := by omega
        refine Safe.bind (wr_val acc.1 acc.2.2 j (by omega) (by rw [hacc.sj]; exact hw)) (fun pj hpj => ?_)
        refine Safe.bind (rd_safe S.ax jj f1 f3) (fun v _ => ?_)
        refine Safe.bind (wr_safe acc.2.1 acc.2.2 _ (by omega) (by rw [hacc.sx]; omega)) (fun px hpx => ?_)
        rw [hpj]
        exact Safe.pure (emit_push hacc j2 hC hnn hw j (by rw [hj']; exact f4) (by rw [hj']; exact f5) px
          (by rw [hpx, hacc.sx]))
      · rw [if_neg hcond]
        have hC : isC S splitting i jj = false := by
          unfold isC; rw [decide_eq_false_iff_not, ← hj', ← hsc']; exact hcond
        exact Safe.pure (emit_skip hacc j2 hC)
    · have hcnt := hr.cnt
      rw [cntFrom_end] at hcnt
      refine Safe.pure ⟨hr.sj, hr.sx, ?_⟩
      show ValidPrefix S.n r.1 (pp.getD (i+1).toNat 0)
      rw [hs1]
      have : r.2.2 = pp.getD (i.toNat + 1) 0 := by simpa using hcnt
      rw [← this]; exact hr.pre

/-- **`rs_direct_interpolation_pass2`**: `A` a structurally valid matrix with `n` rows, `S` a structurally
valid `n × n` strength pattern with values, `splitting` of length `n`, `Pp` as the first pass computes
it (`PpOK`), `Pj`, `Px` with at least `Pp[n]` entries (the caller allocates exactly `Pp[n]`): every write
`Pj[nnz]`, `Px[nnz]` and the renumbering `Pj[k] = map[Pj[k]]` stay in range -/
theorem directPass2_safe (o : KOps α) (io : IOps α) (A S : Csr α) {ma : Nat} (hA : WFm A ma)
    (hS : WFm S S.n) (hAn : A.n = S.n) (splitting pp pj : Array Int) (px : Array α)
    (hsp : splitting.size = S.n) (hpp : PpOK S splitting pp) (hpj : pp.getD S.n 0 ≤ (pj.size : Int))
    (hpx : pp.getD S.n 0 ≤ (px.size : Int)) :
    Safe (directPass2 o io A S splitting pp pj px) (fun st => st.1.size = pj.size ∧ st.2.size = px.size) := by
  unfold directPass2
  refine Safe.bind (P := RowInv S.n pp pj.size px.size (S.n : Int)) ?_ (fun r hr => ?_)
  · refine forRange_safe_idx (RowInv S.n pp pj.size px.size) 0 (S.n : Int) (by omega) _ _
      ⟨rfl, rfl, fun k hk => ?_⟩
      (fun i i0 i1 st hst => directRow_safe o io A S hA hS hAn splitting pp hsp hpp pj.size px.size hpj hpx i i0 i1 st hst)
    have hz : pp.getD (0 : Int).toNat 0 = 0 := hpp.zero
    rw [hz] at hk; omega
  · obtain ⟨h1, h2, h3⟩ := hr
    have hn : ((S.n : Int)).toNat = S.n := by omega
    rw [hn] at h3
    refine Safe.bind (ipMap_safe S.n splitting hsp) (fun map hmap => ?_)
    refine Safe.bind (ipRemap_safe S splitting pp hpp map r.1 hmap (by rw [h1]; exact hpj) h3) (fun pj' hpj' => ?_)
    exact Safe.pure ⟨by show pj'.size = pj.size; rw [hpj', h1], h2⟩

/-! ### `rs_classical_interpolation_pass2` -/

theorem cpSearchMod_safe (o : KOps α) (A : Csr α) {ma : Nat} (hA : WFm A ma) (k j : Int) (k0 : 0 ≤ k)
    (k1 : k < (A.n : Int)) : Safe (cpSearchMod o A k j) (fun _ => True) := by
  obtain ⟨a1, a2⟩ := rd_ap_safe A hA k k0 k1
  unfold cpSearchMod
  refine Safe.bind a1 (fun s hs => ?_)
  refine Safe.bind a2 (fun e he => ?_)
  subst hs; subst he
  apply forRange_safe (fun _ => True) _ _ _ _ trivial
  intro si s1 s2 acc _
  have hr := row_range_m A hA k.toNat (by omega) si s1 s2
  refine Safe.bind (rd_safe A.aj si hr.1 hr.2.1) (fun c _ => ?_)
  by_cases h1 : c = j
  · rw [if_pos h1]; exact Safe.bind (rd_safe A.ax si hr.1 hr.2.2) (fun _ _ => Safe.pure trivial)
  · rw [if_neg h1]
    by_cases h2 : c = k
    · rw [if_pos h2]; exact Safe.bind (rd_safe A.ax si hr.1 hr.2.2) (fun _ _ => Safe.pure trivial)
    · rw [if_neg h2]; exact Safe.pure trivial

theorem cpSearch_safe (o : KOps α) (A : Csr α) {ma : Nat} (hA : WFm A ma) (k j : Int) (k0 : 0 ≤ k)
    (k1 : k < (A.n : Int)) : Safe (cpSearch o A k j) (fun _ => True) := by
  obtain ⟨a1, a2⟩ := rd_ap_safe A hA k k0 k1
  unfold cpSearch
  refine Safe.bind a1 (fun s hs => ?_)
  refine Safe.bind a2 (fun e he => ?_)
  subst hs; subst he
  refine Safe.bind (P := fun _ => True) ?_ (fun _ _ => Safe.pure trivial)
  apply forRange_safe (fun _ => True) _ _ _ _ trivial
  intro si s1 s2 acc _
  by_cases hb : acc.2 = true
  · rw [if_pos hb]; exact Safe.pure trivial
  · rw [if_neg hb]
    have hr := row_range_m A hA k.toNat (by omega) si s1 s2
    refine Safe.bind (rd_safe A.aj si hr.1 hr.2.1) (fun c _ => ?_)
    by_cases h1 : c = j
    · rw [if_pos h1]; exact Safe.bind (rd_safe A.ax si hr.1 hr.2.2) (fun _ _ => Safe.pure trivial)
    · rw [if_neg h1]; exact Safe.pure trivial

theorem cpInnerDen_safe (o : KOps α) (io : IOps α) (modified : Bool) (A S : Csr α) {ma : Nat}
    (hA : WFm A ma) (hS : WFm S S.n) (splitting : Array Int) (hsp : splitting.size = S.n)
    (i : Int) (i0 : 0 ≤ i) (i1 : i < (S.n : Int)) (k : Int) (k0 : 0 ≤ k) (k1 : k < (A.n : Int)) (akk : α) :
    Safe (cpInnerDen o io modified A S splitting (S.ap.getD i.toNat 0) (S.ap.getD (i.toNat + 1) 0) k akk)
      (fun _ => True) := by
  unfold cpInnerDen
  apply forRange_safe (fun _ => True) _ _ _ _ trivial
  intro ll l1 l2 den _
  obtain ⟨f1, f2, f3, f4, f5⟩ := srow S hS i i0 i1 ll l1 l2
  refine Safe.bind (rd_safe S.aj ll f1 f2) (fun l hl => ?_)
  have hl' : l = S.aj.getD ll.toNat 0 := hl
  refine Safe.bind (rd_safe splitting l (by rw [hl']; exact f4) (by rw [hl', hsp]; omega)) (fun sl _ => ?_)
  by_cases hc : sl = 1
  · rw [if_pos hc]
    obtain ⟨a1, a2⟩ := rd_ap_safe A hA k k0 k1
    refine Safe.bind a1 (fun s hs => ?_)
    refine Safe.bind a2 (fun e he => ?_)
    subst hs; subst he
    refine Safe.bind (P := fun _ => True) ?_ (fun _ _ => Safe.pure trivial)
    apply forRange_safe (fun _ => True) _ _ _ _ trivial
    intro si s1 s2 acc _
    by_cases hb : acc.2 = true
    · rw [if_pos hb]; exact Safe.pure trivial
    · rw [if_neg hb]
      have hr := row_range_m A hA k.toNat (by omega) si s1 s2
      refine Safe.bind (rd_safe A.aj si hr.1 hr.2.1) (fun c _ => ?_)
      by_cases h1 : c = l
      · rw [if_pos h1]
        refine Safe.bind (rd_safe A.ax si hr.1 hr.2.2) (fun akl _ => ?_)
        by_cases h2 : (!modified || (io.ltZero akl != io.ltZero akk)) = true
        · rw [if_pos h2]; exact Safe.pure trivial
        · rw [if_neg h2]; exact Safe.pure trivial
      · rw [if_neg h1]; exact Safe.pure trivial
  · rw [if_neg hc]; exact Safe.pure trivial

theorem cpNumer_safe (o : KOps α) (io : IOps α) (modified : Bool) (A S : Csr α) {ma : Nat}
    (hA : WFm A ma) (hS : WFm S S.n) (hAn : A.n = S.n) (splitting : Array Int) (hsp : splitting.size = S.n)
    (i : Int) (i0 : 0 ≤ i) (i1 : i < (S.n : Int)) (j : Int) (aij : α) :
    Safe (cpNumer o io modified A S splitting i (S.ap.getD i.toNat 0) (S.ap.getD (i.toNat + 1) 0) j aij)
      (fun _ => True) := by
  unfold cpNumer
  apply forRange_safe (fun _ => True) _ _ _ _ trivial
  intro kk k1 k2 num _
  obtain ⟨f1, f2, f3, f4, f5⟩ := srow S hS i i0 i1 kk k1 k2
  refine Safe.bind (rd_safe S.aj kk f1 f2) (fun k hk => ?_)
  have hk' : k = S.aj.getD kk.toNat 0 := hk
  have hk0 : 0 ≤ k := by rw [hk']; exact f4
  have hk1 : k < (A.n : Int) := by rw [hk', hAn]; exact f5
  refine Safe.bind (rd_safe splitting k hk0 (by rw [hsp]; omega)) (fun sk _ => ?_)
  by_cases hc : sk = 0 ∧ k ≠ i
  · rw [if_pos hc]
    refine Safe.bind (rd_safe S.ax kk f1 f3) (fun aik _ => ?_)
    refine Safe.bind (P := fun _ => True) ?_ (fun kj _ => ?_)
    · by_cases hm : modified = true
      · rw [if_pos hm]; exact cpSearchMod_safe o A hA k j hk0 hk1
      · rw [if_neg hm]
        exact Safe.bind (cpSearch_safe o A hA k j hk0 hk1) (fun _ _ => Safe.pure trivial)
    · simp only
      by_cases hg : io.absGtEps (if (modified && (io.ltZero kj.1 == io.ltZero kj.2)) = true then o.zero else kj.1) aik = true
      · rw [if_pos hg]
        exact Safe.bind (cpInnerDen_safe o io modified A S hA hS splitting hsp i i0 i1 k hk0 hk1 kj.2)
          (fun _ _ => Safe.pure trivial)
      · rw [if_neg hg]; exact Safe.pure trivial
  · rw [if_neg hc]; exact Safe.pure trivial

theorem classicalRow_safe (o : KOps α) (io : IOps α) (modified : Bool) (A S : Csr α) {ma : Nat}
    (hA : WFm A ma) (hS : WFm S S.n) (hAn : A.n = S.n) (splitting pp : Array Int)
    (hsp : splitting.size = S.n) (hpp : PpOK S splitting pp)
    (np nx : Nat) (hnp : pp.getD S.n 0 ≤ (np : Int)) (hnx : pp.getD S.n 0 ≤ (nx : Int))
    (i : Int) (i0 : 0 ≤ i) (i1 : i < (S.n : Int)) (st : PJX α) (hst : RowInv S.n pp np nx i st) :
    Safe (classicalRow o io modified A S splitting pp i st) (RowInv S.n pp np nx (i+1)) := by
  have hin : i.toNat < S.n := by omega
  have hs1 : (i+1).toNat = i.toNat + 1 := by omega
  unfold classicalRow
  refine Safe.bind (rd_safe splitting i i0 (by rw [hsp]; exact hin)) (fun si hsi => ?_)
  have hsi' : si = splitting.getD i.toNat 0 := hsi
  by_cases hc : si = 1
  · rw [if_pos hc]
    exact ipCRow_safe o S splitting pp hpp np nx hnp hnx i i0 i1 (by rw [← hsi']; exact hc) st hst
  · rw [if_neg hc]
    obtain ⟨h1, h2, h3⟩ := hst
    -- the denominator
    obtain ⟨a1, a2⟩ := rd_ap_safe A hA i i0 (by rw [hAn]; exact i1)
    refine Safe.bind a1 (fun as has => ?_)
    refine Safe.bind a2 (fun ae hae => ?_)
    subst has; subst hae
    refine Safe.bind (P := fun _ => True) ?_ (fun den0 _ => ?_)
    · apply forRange_safe (fun _ => True) _ _ _ _ trivial
      intro mm m1 m2 d _
      have hr := row_range_m A hA i.toNat (by rw [hAn]; exact hin) mm m1 m2
      exact Safe.bind (rd_safe A.ax mm hr.1 hr.2.2) (fun _ _ => Safe.pure trivial)
    obtain ⟨q1, q2⟩ := rd_ap_safe S hS i i0 i1
    refine Safe.bind q1 (fun s hs => ?_)
    refine Safe.bind q2 (fun e he => ?_)
    subst hs; subst he
    refine Safe.bind (P := fun _ => True) ?_ (fun den _ => ?_)
    · apply forRange_safe (fun _ => True) _ _ _ _ trivial
      intro mm m1 m2 d _
      obtain ⟨f1, f2, f3, f4, f5⟩ := srow S hS i i0 i1 mm m1 m2
      refine Safe.bind (rd_safe S.aj mm f1 f2) (fun j _ => ?_)
      by_cases hji : j ≠ i
      · rw [if_pos hji]; exact Safe.bind (rd_safe S.ax mm f1 f3) (fun _ _ => Safe.pure trivial)
      · rw [if_neg hji]; exact Safe.pure trivial
    -- the emitting loop
    have hnn := pp_nonneg hpp i.toNat (by omega)
    have hlast := pp_le_last hpp (i.toNat + 1) (by omega)
    have hstep := hpp.step i.toNat hin
    rw [if_neg (by rw [← hsi']; exact hc), Int.toNat_of_nonneg i0] at hstep
    have hmono := hS.mono i.toNat hin
    refine Safe.bind (rd_safe pp i i0 (by rw [hpp.size]; omega)) (fun nnz0 hn0 => ?_)
    have hn0' : nnz0 = pp.getD i.toNat 0 := hn0
    subst hn0'
    refine Safe.bind (P := EmitInv S splitting pp np nx i (S.ap.getD (i.toNat + 1) 0) (S.ap.getD (i.toNat + 1) 0))
      ?_ (fun r hr => ?_)
    · refine forRange_safe_idx (EmitInv S splitting pp np nx i (S.ap.getD (i.toNat + 1) 0)) _ _ hmono _ _
        ⟨h1, h2, Int.le_refl _, by show pp.getD i.toNat 0 + _ = _; rw [hstep], h3⟩ ?_
      intro jj j1 j2 acc hacc
      obtain ⟨f1, f2, f3, f4, f5⟩ := srow S hS i i0 i1 jj j1 j2
      refine Safe.bind (rd_safe S.aj jj f1 f2) (fun j hj => ?_)
      have hj' : j = S.aj.getD jj.toNat 0 := hj
      refine Safe.bind (rd_safe splitting j (by rw [hj']; exact f4) (by rw [hj', hsp]; omega)) (fun sc hsc => ?_)
      have hsc' : sc = splitting.getD j.toNat 0 := hsc
      by_cases hcond : sc = 1
      · rw [if_pos hcond]
        -- row `i` is not a C point, so a C neighbour is not `i` itself: the test of the first pass
        have hji : j ≠ i := by
          intro hji
          apply hc
          rw [hsi', ← hji, ← hsc']; exact hcond
        have hC : isC S splitting i jj = true := by
          unfold isC; rw [decide_eq_true_iff, ← hj', ← hsc']; exact ⟨hcond, hji⟩
        have hroom := emit_room hacc j2 hC
        have hlo := hacc.lo
        have hw : acc.2.2.toNat < np := by omega
        refine Safe.bind (wr_val acc.1 acc.2.2 j (by omega) (by rw [hacc.sj]; exact hw)) (fun pj hpj => ?_)
        refine Safe.bind (rd_safe S.ax jj f1 f3) (fun v _ => ?_)
        refine Safe.bind (cpNumer_safe o io modified A S hA hS hAn splitting hsp i i0 i1 j v) (fun num _ => ?_)
        refine Safe.bind (wr_safe acc.2.1 acc.2.2 _ (by omega) (by rw [hacc.sx]; omega)) (fun px hpx => ?_)
        rw [hpj]
        exact Safe.pure (emit_push hacc j2 hC hnn hw j (by rw [hj']; exact f4) (by rw [hj']; exact f5) px
          (by rw [hpx, hacc.sx]))
      · rw [if_neg hcond]
        have hC : isC S splitting i jj = false := by
          unfold isC; rw [decide_eq_false_iff_not, ← hj', ← hsc']; exact fun h => hcond h.1
        exact Safe.pure (emit_skip hacc j2 hC)
    · have hcnt := hr.cnt
      rw [cntFrom_end] at hcnt
      refine Safe.pure ⟨hr.sj, hr.sx, ?_⟩
      show ValidPrefix S.n r.1 (pp.getD (i+1).toNat 0)
      rw [hs1]
      have : r.2.2 = pp.getD (i.toNat + 1) 0 := by simpa using hcnt
      rw [← this]; exact hr.pre

/-- **`rs_classical_interpolation_pass2`**, both values of `modified`: same contract as the direct pass.
The emitting test is `splitting[Sj[jj]] == C_NODE` only; in an F row it agrees with the test of the first
pass because a C neighbour cannot be the row itself. -/
theorem classicalPass2_safe (o : KOps α) (io : IOps α) (modified : Bool) (A S : Csr α) {ma : Nat}
    (hA : WFm A ma) (hS : WFm S S.n) (hAn : A.n = S.n) (splitting pp pj : Array Int) (px : Array α)
    (hsp : splitting.size = S.n) (hpp : PpOK S splitting pp) (hpj : pp.getD S.n 0 ≤ (pj.size : Int))
    (hpx : pp.getD S.n 0 ≤ (px.size : Int)) :
    Safe (classicalPass2 o io modified A S splitting pp pj px)
      (fun st => st.1.size = pj.size ∧ st.2.size = px.size) := by
  unfold classicalPass2
  refine Safe.bind (P := RowInv S.n pp pj.size px.size (S.n : Int)) ?_ (fun r hr => ?_)
  · refine forRange_safe_idx (RowInv S.n pp pj.size px.size) 0 (S.n : Int) (by omega) _ _
      ⟨rfl, rfl, fun k hk => ?_⟩
      (fun i i0 i1 st hst => classicalRow_safe o io modified A S hA hS hAn splitting pp hsp hpp pj.size px.size
        hpj hpx i i0 i1 st hst)
    have hz : pp.getD (0 : Int).toNat 0 = 0 := hpp.zero
    rw [hz] at hk; omega
  · obtain ⟨h1, h2, h3⟩ := hr
    have hn : ((S.n : Int)).toNat = S.n := by omega
    rw [hn] at h3
    refine Safe.bind (ipMap_safe S.n splitting hsp) (fun map hmap => ?_)
    refine Safe.bind (ipRemap_safe S splitting pp hpp map r.1 hmap (by rw [h1]; exact hpj) h3) (fun pj' hpj' => ?_)
    exact Safe.pure ⟨by show pj'.size = pj.size; rw [hpj', h1], h2⟩

/-! ### the first pass establishes `PpOK` -/

/-- `rs_direct_interpolation_pass1` / `rs_classical_interpolation_pass1` (the model `interpPass1` of
`Model/C17Ck.lean`) compute a row pointer satisfying `PpOK`: the hypothesis of the two theorems above is
exactly what the matching first pass delivers -/
theorem interpPass1_spec (S : Csr α) (hS : WFm S S.n) (splitting pp : Array Int)
    (hsplit : splitting.size = S.n) (hpp : pp.size = S.n + 1) :
    Safe (interpPass1 S.n S.ap S.aj splitting pp) (PpOK S splitting) := by
  unfold interpPass1
  refine Safe.bind (wr_val pp 0 0 (Int.le_refl 0) (by rw [hpp]; omega)) (fun pp0 hpp0 => ?_)
  have hsz0 : pp0.size = S.n + 1 := by rw [hpp0]; simp [hpp]
  have hz0 : pp0.getD 0 0 = 0 := by
    rw [hpp0, getD_setInt]; rw [if_pos ⟨rfl, by rw [hpp]; omega⟩]
  let stepAt (q : Array Int) (r : Nat) : Prop := q.getD (r+1) 0 = q.getD r 0 +
    (if splitting.getD r 0 = 1 then 1
     else (cntFrom (isC S splitting r) (S.ap.getD r 0) (S.ap.getD (r+1) 0 - S.ap.getD r 0).toNat : Nat))
  refine Safe.bind (P := fun st : Array Int × Int => st.1.size = S.n + 1 ∧ st.1.getD 0 0 = 0 ∧
      ∀ r, r < S.n → stepAt st.1 r) ?_ (fun r hr => Safe.pure ⟨hr.1, hr.2.1, hr.2.2⟩)
  refine Safe.mono (forRange_safe_idx
    (fun (i : Int) (st : Array Int × Int) => st.1.size = S.n + 1 ∧ st.1.getD 0 0 = 0 ∧
      st.2 = st.1.getD i.toNat 0 ∧ ∀ r : Nat, (r : Int) < i → stepAt st.1 r)
    0 (S.n : Int) (by omega) _ _ ⟨hsz0, hz0, hz0.symm, fun r hr => by omega⟩ ?_)
    (fun st h => ⟨h.1, h.2.1, fun r hr => h.2.2.2 r (by omega)⟩)
  intro i i0 i1 st hst
  obtain ⟨g1, g2, g3, g4⟩ := hst
  have hin : i.toNat < S.n := by omega
  have hs1 : (i+1).toNat = i.toNat + 1 := by omega
  refine Safe.bind (rd_safe splitting i i0 (by rw [hsplit]; exact hin)) (fun si hsi => ?_)
  have hsi' : si = splitting.getD i.toNat 0 := hsi
  refine Safe.bind (P := fun nnz : Int => nnz = st.2 +
      (if splitting.getD i.toNat 0 = 1 then 1
       else (cntFrom (isC S splitting i) (S.ap.getD i.toNat 0)
        (S.ap.getD (i.toNat+1) 0 - S.ap.getD i.toNat 0).toNat : Nat))) ?_ (fun nnz hnnz => ?_)
  · by_cases hc : si = 1
    · rw [if_pos hc, if_pos (by rw [← hsi']; exact hc)]; exact Safe.pure rfl
    · rw [if_neg hc, if_neg (by rw [← hsi']; exact hc)]
      obtain ⟨q1, q2⟩ := rd_ap_safe S hS i i0 i1
      refine Safe.bind q1 (fun s hs => ?_)
      refine Safe.bind q2 (fun e he => ?_)
      subst hs; subst he
      have hmono := hS.mono i.toNat hin
      refine Safe.mono (forRange_safe_idx
        (fun (jj : Int) (nnz : Int) => nnz + (cntFrom (isC S splitting i) jj
            (S.ap.getD (i.toNat+1) 0 - jj).toNat : Nat) = st.2 +
          (cntFrom (isC S splitting i) (S.ap.getD i.toNat 0)
            (S.ap.getD (i.toNat+1) 0 - S.ap.getD i.toNat 0).toNat : Nat))
        _ _ hmono _ _ rfl ?_) (fun nnz h => by rw [cntFrom_end] at h; simpa using h)
      intro jj j1 j2 nnz hn
      obtain ⟨f1, f2, f3, f4, f5⟩ := srow S hS i i0 i1 jj j1 j2
      refine Safe.bind (rd_safe S.aj jj f1 f2) (fun j hj => ?_)
      have hj' : j = S.aj.getD jj.toNat 0 := hj
      refine Safe.bind (rd_safe splitting j (by rw [hj']; exact f4) (by rw [hj', hsplit]; omega)) (fun sc hsc => ?_)
      have hsc' : sc = splitting.getD j.toNat 0 := hsc
      rw [cntFrom_step _ jj _ j2] at hn
      by_cases hcond : sc = 1 ∧ j ≠ i
      · rw [if_pos hcond]
        have hC : isC S splitting i jj = true := by
          unfold isC; rw [decide_eq_true_iff, ← hj', ← hsc']; exact hcond
        rw [hC] at hn; simp only [if_true] at hn
        refine Safe.pure ?_
        show nnz + 1 + _ = _
        omega
      · rw [if_neg hcond]
        have hC : isC S splitting i jj = false := by
          unfold isC; rw [decide_eq_false_iff_not, ← hj', ← hsc']; exact hcond
        rw [hC] at hn
        exact Safe.pure (by simpa using hn)
  · refine Safe.bind (wr_val st.1 (i+1) nnz (by omega) (by rw [g1]; omega)) (fun pp' hpp' => ?_)
    rw [hs1] at hpp'
    have hget : ∀ r : Nat, r ≤ i.toNat → pp'.getD r 0 = st.1.getD r 0 := by
      intro r hr
      rw [hpp', getD_setInt, if_neg (fun h => by omega)]
    have hnew : pp'.getD (i.toNat + 1) 0 = nnz := by
      rw [hpp', getD_setInt, if_pos ⟨rfl, by rw [g1]; omega⟩]
    refine Safe.pure ⟨by rw [hpp']; simp [g1], by rw [hget 0 (by omega)]; exact g2, ?_, ?_⟩
    · show nnz = pp'.getD (i+1).toNat 0
      rw [hs1, hnew]
    · intro r hr
      show pp'.getD (r+1) 0 = pp'.getD r 0 + _
      by_cases hri : r = i.toNat
      · subst hri
        rw [hnew, hget i.toNat (Nat.le_refl _), hnnz, g3, Int.toNat_of_nonneg i0]
      · rw [hget (r+1) (by omega), hget r (by omega)]
        exact g4 r (by omega)

end PyamgV.C17
