import PyamgV.Proofs.Direct
import PyamgV.Proofs.ClassicalMod
import PyamgV.Proofs.OnePoint

/-! PyamgV (C11): whole-operator proof-side models of `direct_interpolation`,
`classical_interpolation` (`modified` off/on, the latter including
`remove_strong_FF_connections` + `eliminate_zeros`), `one_point_interpolation` and
`injection_interpolation`, assembled from the row bodies of `Direct`, `Classical`, `OnePoint`
plus the coarse renumbering `map[j] = #{C-points before j}`.  These are the definitions the
theorems of `Props/C11.lean` are about; the driver runs them on `Rat` (`c11_p_*` ops) and the
check compares them with the rebuilt kernels and the public Python functions on every run. -/
namespace PyamgV.C11

variable {K : Type*} [Field K] [LinearOrder K] [IsStrictOrderedRing K]

abbrev Row (K : Type*) := List (Nat × K)

/-- coarse index of `j`: number of C-points before `j` (`map[]` in ruge_stuben.h, `pointInd[]` in air.h) -/
def cidx (isC : Nat → Bool) (j : Nat) : Nat := ((List.range j).filter isC).length

/-- fine column indices → coarse column indices -/
def renum (isC : Nat → Bool) (r : Row K) : Row K := r.map (fun cv => (cidx isC cv.1, cv.2))

def rsum (r : Row K) : K := (r.map (·.2)).sum

/-- `(P x)_i` for the row `r` of `P` -/
def applyRow (r : Row K) (x : Nat → K) : K := (r.map (fun cv => cv.2 * x cv.1)).sum

/-- `direct_interpolation`: rows of `P` (coarse column, weight) -/
def directP (isC : Nat → Bool) (n : Nat) (A S : Nat → Row K) : List (Row K) :=
  (List.range n).map (fun i =>
    if isC i then [(cidx isC i, 1)] else renum isC (Direct.directRow isC i (A i) (S i)))

/-- `classical_interpolation(modified=False)` -/
def classicalP (eps : K) (isC : Nat → Bool) (n : Nat) (A S : Nat → Row K) : List (Row K) :=
  (List.range n).map (fun i =>
    if isC i then [(cidx isC i, 1)] else renum isC (Classical.classicalRow eps isC i (S i) A))

/-- the dependence test of `remove_strong_FF_connections`: rows `i` and `k` share a strong C-point -/
def commonC (isC : Nat → Bool) (si sk : Row K) : Bool :=
  si.any (fun cl => isC cl.1 && sk.any (fun cm => cm.1 == cl.1))

/-- strength row of the F-point `i` after `remove_strong_FF_connections` + `eliminate_zeros` -/
def removeFFRow (isC : Nat → Bool) (S : Nat → Row K) (i : Nat) : Row K :=
  (S i).filter (fun ck => isC ck.1 || commonC isC (S i) (S ck.1))

/-- `classical_interpolation(modified=True)` (the default) -/
def classicalModP (eps : K) (isC : Nat → Bool) (n : Nat) (A S : Nat → Row K) : List (Row K) :=
  (List.range n).map (fun i =>
    if isC i then [(cidx isC i, 1)]
    else renum isC (Classical.classicalRowM eps isC i (removeFFRow isC S i) A))

/-- `one_point_interpolation` (kernel values: `1` on C rows, `-C[i, j]` on F rows) -/
def onePointP (isC : Nat → Bool) (n : Nat) (S : Nat → Row K) : List (Row K) :=
  (List.range n).map (fun i =>
    if isC i then [(cidx isC i, 1)]
    else match OnePoint.onePoint isC (S i) with
      | none => []
      | some c => [(cidx isC c.1, -c.2)])

/-- `injection_interpolation` -/
def injectionP (isC : Nat → Bool) (n : Nat) : List (Row K) :=
  (List.range n).map (fun i => if isC i then [(cidx isC i, (1 : K))] else [])

end PyamgV.C11
