import PyamgV.Proofs.ExtRsWholeSafe
import PyamgV.Proofs.C13Wrap

/-! PyamgV (C13/C17, extension E25): the arrays the public routine `RS(S)` hands to
`rs_cf_splitting` (`remove_diagonal(S)` and its transpose, as modelled in `Model/C13Wrap.lean`) are
structurally valid, so the kernel call it makes stays inside its arrays and terminates, for every
caller pattern.  No Mathlib. -/
namespace PyamgV.C13
open PyamgV PyamgV.RS

/-- CSR arrays built from row lists with entries `< n` are structurally valid -/
theorem ofRows_WFp (n : Nat) (f : Nat → List Nat) (hf : ∀ i, i < n → ∀ j ∈ f i, j < n) :
    WFp (ofRows n f) n := by
  refine ⟨by simp [ofRows], ?_, ?_, ?_⟩
  · intro i hi
    rw [ofRows_ap n f i (by omega), ofRows_ap n f (i+1) (by omega)]
    exact offs_mono f (by omega)
  · rw [ofRows_ap n f n (Nat.le_refl _), ← length_flat]
    simp [ofRows]
  · intro jj _ hjj
    rw [ofRows_ap n f n (Nat.le_refl _), ← length_flat] at hjj
    rw [ofRows_aj]
    have hmem : ((List.range n).flatMap f).getD jj 0 ∈ (List.range n).flatMap f := by
      rw [List.getD_eq_getElem?_getD, List.getElem?_eq_getElem hjj]
      exact List.getElem_mem hjj
    obtain ⟨i, hi, hj⟩ := List.mem_flatMap.1 hmem
    exact hf i (List.mem_range.1 hi) _ hj

theorem prepS_WFp (S : Pat) : WFp (prepS S) S.n := by
  unfold prepS
  apply ofRows_WFp
  intro i hi j hj
  unfold offRows at hj
  rw [rowFn_map _ _ _ hi] at hj
  exact offRow_lt S hj

theorem prepT_WFp (S : Pat) : WFp (prepT S) S.n := by
  unfold prepT
  apply ofRows_WFp
  intro i hi j hj
  unfold trRows at hj
  rw [rowFn_map _ _ _ hi] at hj
  simp [trRow, List.mem_filter] at hj
  exact hj.1

/-- **`RS(S)`, any caller pattern**: the call `rs_cf_splitting(n, Sp, Sj, Tp, Tj, 0, splitting)` the
wrapper makes performs only in-range accesses, its main loop ends within `n` iterations, and it
returns the first-pass splitting all the C13 theorems are about -/
theorem rs_kernel_call_safe (S : Pat) :
    (runCk (prepS S) (prepT S)).ok = true ∧
    (runCk (prepS S) (prepT S)).val = rsSplit S false := by
  have h := rs_cf_splitting_safe (prepS S) (prepT S) (prepS_WFp S) (prepT_WFp S)
  exact ⟨h.1, by rw [h.2]; rfl⟩

#print axioms rs_kernel_call_safe
end PyamgV.C13
