import PyamgV.Model.ExtC17CkR3Relax
import PyamgV.Proofs.ExtC17SafeBlock

/-! PyamgV (C17, extension E19): bounds-safety for the `Ck` models of `bsr_jacobi_indexed` and
`block_jacobi_indexed` (`Model/ExtC17CkR3Relax.lean`).  Core Lean only. -/
namespace PyamgV.C17
open PyamgV.Ck

set_option linter.unusedSectionVars false
set_option linter.unusedVariables false
variable {α : Type} [Inhabited α]

theorem copyVec_safe (x : Array α) : Safe (copyVec x) (fun t => t.size = x.size) := by
  unfold copyVec
  apply forRange_safe (fun t : Array α => t.size = x.size) _ _ _ _ (by simp)
  intro i i0 i1 t ht
  refine Safe.bind (rd_ok x i i0 i1) (fun xi _ => ?_)
  exact Safe.mono (wr_ok t i xi i0 (by rw [ht]; exact i1)) (fun a' h => by rw [h, ht])

/-- an entry of `indices[]` read at a position inside the array is a block row -/
theorem idx_rd_safe (indices : Array Int) (n : Nat) (hidx : IdxIn indices n) (i : Int) (i0 : 0 ≤ i)
    (i1 : i < (indices.size : Int)) :
    Safe (rd indices i) (fun row => 0 ≤ row ∧ row < (n : Int)) := by
  refine Safe.mono (rd_safe indices i i0 (by omega)) (fun row hrow => ?_)
  have hr := hidx i.toNat (by omega)
  have hrow' : row = indices.getD i.toNat 0 := hrow
  rw [← hrow'] at hr
  exact hr

/-! ### `bsr_jacobi_indexed` -/

theorem bsrJacIdxPoint_safe (o : KOps α) (om : α) (G : Csr α) (bs : Nat) (temp : Array α)
    (ht : temp.size = G.n * bs) (i : Int) (i0 : 0 ≤ i) (i1 : i < (G.n : Int)) (dptr : Int) (d0 : 0 ≤ dptr)
    (d1 : dptr + (bs : Int) * (bs : Int) ≤ (G.ax.size : Int)) (k : Int) (k0 : 0 ≤ k) (k1 : k < (bs : Int))
    (xs : Array α × Array α) (hxs : xs.1.size = G.n * bs ∧ xs.2.size = bs) :
    Safe (bsrJacIdxPoint o om G bs temp i dptr k xs)
      (fun xs' => xs'.1.size = G.n * bs ∧ xs'.2.size = bs) := by
  have hve := vec_ext G.n bs i i0 i1
  unfold bsrJacIdxPoint
  refine Safe.bind (P := fun acc : Array α × α => acc.1.size = bs) ?_ (fun dr hdr => ?_)
  · apply forRange_safe (fun acc : Array α × α => acc.1.size = bs) _ _ _ _ hxs.2
    intro kk kk0 kk1 acc hacc
    exact bsrPointRow_safe o G bs temp ht i i0 i1 dptr d0 d1 k k0 k1 kk kk0 kk1 acc hacc
  by_cases hz : o.isZero dr.2 = true
  · rw [if_pos hz]; exact Safe.pure ⟨hxs.1, hdr⟩
  · rw [if_neg hz]
    refine Safe.bind (rd_ok temp _ (by omega) (by rw [size_cast ht]; omega)) (fun t _ => ?_)
    refine Safe.bind (rd_ok dr.1 k k0 (by rw [hdr]; exact k1)) (fun rk _ => ?_)
    refine Safe.bind (wr_ok xs.1 _ _ (by omega) (by rw [size_cast hxs.1]; omega)) (fun x' hx' => ?_)
    exact Safe.pure ⟨by show x'.size = G.n * bs; rw [hx', hxs.1], hdr⟩

theorem bsrJacIdxRow_safe (o : KOps α) (om : α) (G : Csr α) (bs : Nat) (hG : WFb G bs) (b : Array α)
    (hb : b.size = G.n * bs) (temp : Array α) (ht : temp.size = G.n * bs) (i : Int) (i0 : 0 ≤ i)
    (i1 : i < (G.n : Int)) (st : BSt α) (hst : BInv3 G.n bs st) :
    Safe (bsrJacIdxRow o om G b bs temp i st) (BInv3 G.n bs) := by
  obtain ⟨h1, h2, h3⟩ := hst
  obtain ⟨q1, q2⟩ := rd_bp_safe G bs hG i i0 i1
  unfold bsrJacIdxRow
  refine Safe.bind q1 (fun s hs => ?_)
  refine Safe.bind q2 (fun e he => ?_)
  subst hs; subst he
  refine Safe.bind (bsrInitRsum_safe G.n bs b hb i i0 i1 st.2.1 h2) (fun rsum hrsum => ?_)
  refine Safe.bind (bsrOffDiag_safe o G bs hG temp ht i i0 i1 rsum st.2.2 hrsum h3) (fun r hr => ?_)
  by_cases hd : r.2.2 ≠ -1
  · rw [if_pos hd]
    have hdp := hr.2.2 hd
    refine Safe.bind (P := fun xs : Array α × Array α => xs.1.size = G.n * bs ∧ xs.2.size = bs) ?_
      (fun xr hxr => Safe.pure ⟨hxr.1, hxr.2, hr.2.1⟩)
    apply forRange_safe (fun xs : Array α × Array α => xs.1.size = G.n * bs ∧ xs.2.size = bs) _ _ _ _ ⟨h1, hr.1⟩
    intro k k0 k1 xs hxs
    exact bsrJacIdxPoint_safe o om G bs temp ht i i0 i1 r.2.2 hdp.1 hdp.2 k k0 k1 xs hxs
  · rw [if_neg hd]; exact Safe.pure ⟨h1, hr.1, hr.2.1⟩

/-- **`bsr_jacobi_indexed`**: for every structurally valid BSR matrix with `G.n` block rows and any block
size, `x`, `b` of length `n*blocksize`, `omega` of at least one entry and every index list whose entries
are block rows (any length, repetitions allowed), no access leaves `Ap`, `Aj`, `Ax`, `x`, `b`, `indices`,
the private copy `temp` or the work vectors `rsum`, `Axloc` -/
theorem bsrJacobiIndexed_safe (o : KOps α) (omv : Array α) (hom : 0 < omv.size) (G : Csr α) (bs : Nat)
    (hG : WFb G bs) (b : Array α) (hb : b.size = G.n * bs) (indices : Array Int)
    (hidx : IdxIn indices G.n) (x : Array α) (hx : x.size = G.n * bs) :
    Safe (bsrJacobiIndexed o omv G b indices bs x) (fun st => st.1.size = G.n * bs) := by
  unfold bsrJacobiIndexed
  refine Safe.bind (rd_safe omv 0 (Int.le_refl 0) (by simpa using hom)) (fun om _ => ?_)
  refine Safe.bind (copyVec_safe x) (fun temp htemp => ?_)
  refine Safe.mono (forRange_safe (BInv3 G.n bs) _ _ _ _ ⟨hx, by simp, by simp⟩ ?_) (fun st h => h.1)
  intro i i0 i1 st hst
  refine Safe.bind (idx_rd_safe indices G.n hidx i i0 i1) (fun row hrow => ?_)
  exact bsrJacIdxRow_safe o om G bs hG b hb temp (by rw [htemp, hx]) row hrow.1 hrow.2 st hst

/-! ### `block_jacobi_indexed` -/

theorem blkJacIdxRow_safe (o : KOps α) (om : α) (G : Csr α) (bs : Nat) (hG : WFb G bs) (b dinv : Array α)
    (hb : b.size = G.n * bs) (hd : dinv.size = G.n * (bs * bs)) (temp : Array α)
    (ht : temp.size = G.n * bs) (i : Int) (i0 : 0 ≤ i) (i1 : i < (G.n : Int)) (st : BSt α)
    (hst : BInv3 G.n bs st) :
    Safe (blkJacIdxRow o om G b dinv bs temp i st) (BInv3 G.n bs) := by
  obtain ⟨h1, h2, h3⟩ := hst
  obtain ⟨q1, q2⟩ := rd_bp_safe G bs hG i i0 i1
  have hv := vec_ext G.n bs i i0 i1
  unfold blkJacIdxRow
  refine Safe.bind q1 (fun s hs => ?_)
  refine Safe.bind q2 (fun e he => ?_)
  subst hs; subst he
  refine Safe.bind (blkZero_safe o bs st.2.1 h2) (fun rsum hrsum => ?_)
  refine Safe.bind (blkOffDiag_safe o G bs hG temp ht i i0 i1 rsum st.2.2 hrsum h3) (fun r hr => ?_)
  refine Safe.bind (blkResid_safe o G.n bs b hb i i0 i1 r.1 hr.1) (fun rsum2 hrsum2 => ?_)
  refine Safe.bind (gemm_dinv_safe o G.n bs dinv hd i i0 i1 rsum2 hrsum2 r.2 0 (Int.le_refl 0)
    (by rw [hr.2]; omega)) (fun v hv' => ?_)
  refine Safe.bind (P := fun x : Array α => x.size = G.n * bs) ?_
    (fun x hx => Safe.pure ⟨hx, hrsum2, by show v.size = bs; rw [hv', hr.2]⟩)
  apply forRange_safe (fun x : Array α => x.size = G.n * bs) _ _ _ _ h1
  intro k k0 k1 x hx
  refine Safe.bind (rd_ok temp _ (by omega) (by rw [size_cast ht]; omega)) (fun t _ => ?_)
  refine Safe.bind (rd_ok v k k0 (by rw [hv', hr.2]; exact k1)) (fun vk _ => ?_)
  exact Safe.mono (wr_ok x _ _ (by omega) (by rw [size_cast hx]; omega)) (fun a' h => by rw [h, hx])

/-- **`block_jacobi_indexed`**: `Tx` (the inverted diagonal blocks) has `n*blocksize²` entries, `x`, `b`
have `n*blocksize`, `omega` at least one, `indices` lists block rows -/
theorem blockJacobiIndexed_safe (o : KOps α) (omv : Array α) (hom : 0 < omv.size) (G : Csr α) (bs : Nat)
    (hG : WFb G bs) (b dinv : Array α) (hb : b.size = G.n * bs) (hd : dinv.size = G.n * (bs * bs))
    (indices : Array Int) (hidx : IdxIn indices G.n) (x : Array α) (hx : x.size = G.n * bs) :
    Safe (blockJacobiIndexed o omv G b dinv indices bs x) (fun st => st.1.size = G.n * bs) := by
  unfold blockJacobiIndexed
  refine Safe.bind (rd_safe omv 0 (Int.le_refl 0) (by simpa using hom)) (fun om _ => ?_)
  refine Safe.bind (copyVec_safe x) (fun temp htemp => ?_)
  refine Safe.mono (forRange_safe (BInv3 G.n bs) _ _ _ _ ⟨hx, by simp, by simp⟩ ?_) (fun st h => h.1)
  intro i i0 i1 st hst
  refine Safe.bind (idx_rd_safe indices G.n hidx i i0 i1) (fun row hrow => ?_)
  exact blkJacIdxRow_safe o om G bs hG b dinv hb hd temp (by rw [htemp, hx]) row hrow.1 hrow.2 st hst

end PyamgV.C17
