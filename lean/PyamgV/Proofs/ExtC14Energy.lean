import Mathlib.Data.Nat.Sqrt
import PyamgV.Proofs.C14Evol
import PyamgV.Model.ExtC14Energy

/-! PyamgV (C14, extension E28): the common contract and the drop rule for the model `energyFull` of the WHOLE of
`energy_based_strength_of_connection` (canonical CSR input), for every square-root function `sq`, every `ω`, `k`, `θ`.

* `energyTailRow_contract_any`: the tail contract without the "no subnormals" hypothesis of `energyTailRow_contract`
  (the first row scaling only needs non-negative data, the second one sees a diagonal `≥ 1`);
* `energyTailRow_rule`: which columns survive;
* `enMeasure_*`: the measure lives on the stored pattern of `A` and is non-negative;
* `energyFull_contract`, `energyFull_rule`: the statements about the returned matrix. -/
namespace PyamgV.C14
open PyamgV PyamgV.N

theorem pubClassicalRow_unit (tiny θ : Rat) (ht : 0 < tiny) (i : Nat) (row : Row) :
    ∀ cv ∈ pubClassicalRow absQ absQ tiny tiny θ i row, 0 ≤ cv.2 ∧ cv.2 ≤ 1 := by
  intro cv hcv
  unfold pubClassicalRow at hcv
  exact (scaleRow_contract tiny ht _ (absRow_nonneg absQ absQ_nonneg _)).1 cv (elimZeros_sub _ cv hcv)

/-- **tail contract of `energy_based_strength_of_connection`, no hypothesis on the measure**: columns of row `i` ⊆
input columns ∪ {diagonal}, the diagonal is always present, entries in `[0,1]`, the row attains 1 -/
theorem energyTailRow_contract_any (tiny θ : Rat) (ht : 0 < tiny) (ht1 : tiny ≤ 1) (i : Nat) (row : Row) :
    (∀ j ∈ (energyTailRow tiny θ i row).map Prod.fst, j = i ∨ j ∈ row.map Prod.fst) ∧
    i ∈ (energyTailRow tiny θ i row).map Prod.fst ∧
    (∀ cv ∈ energyTailRow tiny θ i row, 0 ≤ cv.2 ∧ cv.2 ≤ 1) ∧
    (∃ cv ∈ energyTailRow tiny θ i row, cv.2 = 1) := by
  unfold energyTailRow
  have h1 : ∀ cv ∈ elimZeros (pubClassicalRow absQ absQ tiny tiny θ i row), 0 ≤ cv.2 :=
    fun cv hcv => (pubClassicalRow_unit tiny θ ht i row cv (elimZeros_sub _ cv hcv)).1
  have h2 := addDiag_nonneg i _ h1
  have hs := scaleRow_contract tiny ht _ h2
  refine ⟨?_, ?_, hs.1, ?_⟩
  · intro j hj
    rw [scaleRow_cols, addDiag_cols] at hj
    rcases hj with h | h
    · exact Or.inl h
    · right
      obtain ⟨cv, hcv, rfl⟩ := List.mem_map.1 h
      have hm := elimZeros_sub _ cv hcv
      exact (pubClassicalRow_cols_sublist absQ absQ tiny tiny θ i row).subset (List.mem_map.2 ⟨cv, hm, rfl⟩)
  · rw [scaleRow_cols, addDiag_cols]; exact Or.inl rfl
  · obtain ⟨cv, hcv, _, hge⟩ := addDiag_diag i _ h1
    exact hs.2 ⟨cv, hcv, le_trans ht1 hge⟩

theorem elimZeros_idem (row : Row) : elimZeros (elimZeros row) = elimZeros row := by
  unfold elimZeros; rw [List.filter_filter]; simp

/-- **drop rule of the energy measure**: column `j` is stored in the returned row `i` iff it is the diagonal or
the measure has a stored non-zero entry there with `|m_ij| ≥ θ · max(tiny, max_{k≠i} |m_ik|)` -/
theorem energyTailRow_rule (tiny θ : Rat) (ht : 0 < tiny) (i : Nat) (row : Row) (j : Nat) :
    j ∈ (energyTailRow tiny θ i row).map Prod.fst ↔
      j = i ∨ ∃ cv ∈ row, cv.1 = j ∧ absQ cv.2 ≠ 0 ∧ absQ cv.2 ≥ θ * maxOff absQ tiny i row := by
  unfold energyTailRow
  rw [scaleRow_cols, addDiag_cols]
  have hid : elimZeros (pubClassicalRow absQ absQ tiny tiny θ i row) = pubClassicalRow absQ absQ tiny tiny θ i row := by
    unfold pubClassicalRow; exact elimZeros_idem _
  rw [hid, pubClassicalRow_col_iff absQ absQ tiny tiny θ ht i row j]
  constructor
  · rintro (h | ⟨cv, hcv, h1, h2, h3⟩)
    · exact Or.inl h
    · rcases h3 with h3 | h3
      · exact Or.inl h3
      · exact Or.inr ⟨cv, hcv, h1, h2, h3⟩
  · rintro (h | ⟨cv, hcv, h1, h2, h3⟩)
    · exact Or.inl h
    · exact Or.inr ⟨cv, hcv, h1, h2, Or.inr h3⟩

/-! ### the measure -/

theorem enVal_nonneg (sq : Rat → Rat) (neg : Rat) (n : Nat) (A S : Mat) (i j : Nat) : 0 ≤ enVal sq neg n A S i j := by
  unfold enVal
  simp only
  split
  · exact le_refl _
  · split
    · exact absQ_nonneg _
    · exact le_refl _

/-- the measure of row `i` is written onto the stored entries of row `i` of `A` -/
theorem enMeasure_row (sq : Rat → Rat) (neg : Rat) (n : Nat) (A S : Mat) (rows : List Row) (i : Nat) :
    (enMeasure sq neg n A S rows)[i]? = (rows[i]?).map fun row => row.map fun cv => (cv.1, enVal sq neg n A S i cv.1) := by
  unfold enMeasure; rw [mapRows_getElem?]

theorem energyFull_length (sq : Rat → Rat) (ω neg tiny θ : Rat) (k : Nat) (rows : List Row) :
    (energyFull sq ω neg tiny θ k rows).length = rows.length := by
  unfold energyFull enMeasure; simp only [mapRows_length]

/-- row `i` of the model's result is the tail applied to the measure row -/
theorem energyFull_row (sq : Rat → Rat) (ω neg tiny θ : Rat) (k : Nat) (rows : List Row) (i : Nat) :
    (energyFull sq ω neg tiny θ k rows)[i]? = (rows[i]?).map fun row =>
      energyTailRow tiny θ i (row.map fun cv =>
        (cv.1, enVal sq neg rows.length (dense rows.length rows) (enS rows.length ω (dense rows.length rows) (k + 1)) i cv.1)) := by
  unfold energyFull
  simp only
  rw [mapRows_getElem?, enMeasure_row]
  cases rows[i]? <;> simp

/-- **contract of the whole of `energy_based_strength_of_connection`** (model `energyFull`, canonical CSR input, any
square-root function, any `ω`, `k`, `θ`): the returned row `i` has its columns inside the stored columns of row `i` of `A`
plus the diagonal, the diagonal is always stored (finding `soc-added-diagonal` when `A` has none), all entries lie in
`[0,1]` and the row attains `1` -/
theorem energyFull_contract (sq : Rat → Rat) (ω neg tiny θ : Rat) (ht : 0 < tiny) (ht1 : tiny ≤ 1) (k : Nat)
    (rows : List Row) (i : Nat) (hi : i < rows.length) :
    ∃ out, (energyFull sq ω neg tiny θ k rows)[i]? = some out ∧
      (∀ j ∈ out.map Prod.fst, j = i ∨ j ∈ (rows.getD i []).map Prod.fst) ∧
      i ∈ out.map Prod.fst ∧ (∀ cv ∈ out, 0 ≤ cv.2 ∧ cv.2 ≤ 1) ∧ ∃ cv ∈ out, cv.2 = 1 := by
  rw [energyFull_row, List.getElem?_eq_getElem hi]
  refine ⟨_, rfl, ?_⟩
  have hc := energyTailRow_contract_any tiny θ ht ht1 i
    (rows[i].map fun cv => (cv.1, enVal sq neg rows.length (dense rows.length rows)
      (enS rows.length ω (dense rows.length rows) (k + 1)) i cv.1))
  refine ⟨?_, hc.2.1, hc.2.2.1, hc.2.2.2⟩
  intro j hj
  rcases hc.1 j hj with h | h
  · exact Or.inl h
  · right
    rw [List.getD_eq_getElem?_getD, List.getElem?_eq_getElem hi]
    simpa [List.map_map, Function.comp_def] using h

/-- **drop rule of the whole function**: column `j` is stored in the returned row `i` iff `j = i` or `A` stores
`(i, j)`, the energy measure `m_ij = enVal … i j` is non-zero and `m_ij ≥ θ · max(tiny, max_{k≠i} m_ik)` -/
theorem energyFull_rule (sq : Rat → Rat) (ω neg tiny θ : Rat) (ht : 0 < tiny) (k : Nat)
    (rows : List Row) (i : Nat) (hi : i < rows.length) (j : Nat) :
    let m : Row := (rows.getD i []).map fun cv =>
      (cv.1, enVal sq neg rows.length (dense rows.length rows) (enS rows.length ω (dense rows.length rows) (k + 1)) i cv.1)
    j ∈ ((energyFull sq ω neg tiny θ k rows).getD i []).map Prod.fst ↔
      j = i ∨ ∃ cv ∈ m, cv.1 = j ∧ cv.2 ≠ 0 ∧ cv.2 ≥ θ * maxOff absQ tiny i m := by
  intro m
  have hrow : (energyFull sq ω neg tiny θ k rows).getD i [] = energyTailRow tiny θ i m := by
    rw [List.getD_eq_getElem?_getD, energyFull_row, List.getElem?_eq_getElem hi]
    simp only [Option.map_some, Option.getD_some]
    show _ = energyTailRow tiny θ i ((rows.getD i []).map _)
    rw [List.getD_eq_getElem?_getD, List.getElem?_eq_getElem hi]; rfl
  rw [hrow, energyTailRow_rule tiny θ ht i m j]
  have habs : ∀ cv ∈ m, absQ cv.2 = cv.2 := by
    intro cv hcv
    obtain ⟨c, _, rfl⟩ := List.mem_map.1 hcv
    have := enVal_nonneg sq neg rows.length (dense rows.length rows) (enS rows.length ω (dense rows.length rows) (k + 1)) i c.1
    unfold absQ; rw [if_neg (not_lt.2 this)]
  constructor
  · rintro (h | ⟨cv, hcv, h1, h2, h3⟩)
    · exact Or.inl h
    · rw [habs cv hcv] at h2 h3; exact Or.inr ⟨cv, hcv, h1, h2, h3⟩
  · rintro (h | ⟨cv, hcv, h1, h2, h3⟩)
    · exact Or.inl h
    · refine Or.inr ⟨cv, hcv, h1, ?_, ?_⟩ <;> rw [habs cv hcv] <;> assumption

/-! ### the dense arrays and the Jacobi recurrence -/

theorem mget_mkMat (n : Nat) (f : Nat → Nat → Rat) (i j : Nat) (hi : i < n) (hj : j < n) :
    mget (mkMat n f) i j = f i j := by
  unfold mget mkMat
  simp [Array.getD, hi, hj]

/-- the array `enS … (t+1)` holds `S_{t+1} = S_t + ω D⁻¹ (I - A S_t)` entry by entry, and `S_0 = 0` -/
theorem enS_succ_entry (n : Nat) (ω : Rat) (A : Mat) (t i j : Nat) (hi : i < n) (hj : j < n) :
    mget (enS n ω A (t + 1)) i j =
      mget (enS n ω A t) i j + ω * (enDinv A i * ((if i = j then 1 else 0) -
        sumR n fun k => mget A i k * mget (enS n ω A t) k j)) := by
  show mget (enStep n ω A (enS n ω A t)) i j = _
  unfold enStep
  rw [mget_mkMat n _ i j hi hj]

theorem enS_zero_entry (n : Nat) (ω : Rat) (A : Mat) (i j : Nat) (hi : i < n) (hj : j < n) :
    mget (enS n ω A 0) i j = 0 := by
  show mget (mkMat n fun _ _ => 0) i j = 0
  rw [mget_mkMat n _ i j hi hj]

/-! ### the square root the driver uses -/

/-- `sqrtApprox p q` is the square root of `q > 0` rounded down to a multiple of `h = 1 / (q.den · 2^p)`:
`s² ≤ q < (s + h)²` (so the relative error is below `2^-p`) -/
theorem sqrtApprox_spec (p : Nat) (q : Rat) (hq : 0 < q) :
    0 ≤ sqrtApprox p q ∧ sqrtApprox p q * sqrtApprox p q ≤ q ∧
    q < (sqrtApprox p q + 1 / ((q.den * 2 ^ p : Nat) : Rat)) * (sqrtApprox p q + 1 / ((q.den * 2 ^ p : Nat) : Rat)) := by
  unfold sqrtApprox
  rw [if_neg (not_le.2 hq)]
  generalize hN : q.num.toNat * q.den * 4 ^ p = N
  generalize hD : q.den * 2 ^ p = D
  have hDpos : (0 : Rat) < (D : Rat) := by
    rw [← hD]; exact Nat.cast_pos.2 (Nat.mul_pos q.den_pos (pow_pos (by norm_num) p))
  have hr1 : N.sqrt * N.sqrt ≤ N := Nat.sqrt_le N
  have hr2 : N < (N.sqrt + 1) * (N.sqrt + 1) := Nat.lt_succ_sqrt N
  have hnum : ((q.num.toNat : Nat) : Rat) = (q.num : Rat) := by
    have h0 : 0 ≤ q.num := le_of_lt (Rat.num_pos.2 hq)
    have h1 : ((q.num.toNat : Nat) : Int) = q.num := Int.toNat_of_nonneg h0
    exact_mod_cast congrArg (fun z : Int => (z : Rat)) h1
  have hND : (N : Rat) = q * D * D := by
    rw [← hN, ← hD]
    push_cast
    rw [hnum]
    have h4 : (4 : Rat) ^ p = 2 ^ p * 2 ^ p := by rw [← mul_pow]; norm_num
    rw [h4]
    have hqd : q * (q.den : Rat) = (q.num : Rat) := Rat.mul_den_eq_num q
    rw [← hqd]
    ring
  have hr1' : ((N.sqrt : Nat) : Rat) * (N.sqrt : Rat) ≤ q * D * D := by
    rw [← hND]; exact_mod_cast hr1
  have hr2' : q * D * D < ((N.sqrt : Rat) + 1) * ((N.sqrt : Rat) + 1) := by
    rw [← hND]; exact_mod_cast hr2
  refine ⟨div_nonneg (Nat.cast_nonneg _) (le_of_lt hDpos), ?_, ?_⟩
  · rw [div_mul_div_comm, div_le_iff₀ (mul_pos hDpos hDpos)]
    linarith [hr1']
  · have : (N.sqrt : Rat) / D + 1 / D = ((N.sqrt : Rat) + 1) / D := by ring
    rw [this, div_mul_div_comm, lt_div_iff₀ (mul_pos hDpos hDpos)]
    linarith [hr2']

end PyamgV.C14
