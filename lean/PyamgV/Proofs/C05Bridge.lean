import PyamgV.Proofs.C05Flag
import PyamgV.Model.C05Cycle

/-! PyamgV (C05): from the decision table to the smoothers -- if the per-level test `levelOk a b`
passes and both specifications are inside the cycle model (`smOf a = some s`, `smOf b = some t`),
then `s` and `t` are *partners*: forward/backward (or symmetric/symmetric) Gauss–Seidel/SOR with the
same `omega`, equal Jacobi smoothers, cf/fc Jacobi with equal inner counts and equal `omega`, or no
smoother -- each with equal iteration counts. Core Lean only. -/
namespace PyamgV.C05
open PyamgV.K

/-- the partner relation established by `levelOk` -/
inductive Partner : Sm → Sm → Prop
  | none : Partner .none .none
  | fb (ω k) : Partner (.gs ω .forward k) (.gs ω .backward k)
  | bf (ω k) : Partner (.gs ω .backward k) (.gs ω .forward k)
  | ss (ω k) : Partner (.gs ω .symmetric k) (.gs ω .symmetric k)
  | jac (ω k) : Partner (.jac ω k) (.jac ω k)
  | cf (c ω it fi ci) : Partner (.cfjac c ω it fi ci) (.cfjac (!c) ω it fi ci)

theorem smOf_inv (c : Cfg) (s : Sm) (h : smOf c = some s) :
    ∃ k, smKind c.name = some k ∧ params c k = some s := by
  unfold smOf at h
  split at h
  · cases hk : smKind c.name with
    | none => rw [hk] at h; exact absurd h (by simp)
    | some k => rw [hk] at h; exact ⟨k, rfl, by simpa using h⟩
  · exact absurd h (by simp)

theorem smKind_gsLike (nm : Option String) (od : Option Rat) (h : smKind nm = some (.gsLike od)) :
    nm = some "gauss_seidel" ∨ nm = some "block_gauss_seidel" ∨ nm = some "sor" := by
  unfold smKind at h
  split at h <;> simp_all

theorem smKind_cfLike (nm : Option String) (c : Bool) (h : smKind nm = some (.cfLike c)) :
    (nm = some "cf_jacobi" ∧ c = true) ∨ (nm = some "fc_jacobi" ∧ c = false) := by
  unfold smKind at h
  split at h <;> simp_all

theorem params_gs (c : Cfg) (od : Option Rat) (s : Sm) (h : params c (.gsLike od) = some s) :
    ∃ it sw om, natOf (get c "iterations" defaultNiter) = some it ∧
      sweepOfVal (get c "sweep" defaultSweep) = some sw ∧
      (match od with | none => some 1 | some d => ratOf (get c "omega" (.num d))) = some om ∧
      s = .gs om sw it := by
  unfold params at h
  cases h1 : natOf (get c "iterations" defaultNiter) with
  | none => simp [h1] at h
  | some it =>
    cases h2 : sweepOfVal (get c "sweep" defaultSweep) with
    | none => simp [h1, h2] at h
    | some sw =>
      cases od with
      | none =>
        refine ⟨it, sw, 1, rfl, rfl, rfl, ?_⟩
        simp [h1, h2] at h
        exact h.symm
      | some d =>
        cases h3 : ratOf (get c "omega" (.num d)) with
        | none => simp [h1, h2, h3] at h
        | some om =>
          refine ⟨it, sw, om, rfl, rfl, h3, ?_⟩
          simp [h1, h2, h3] at h
          exact h.symm

theorem params_jac (c : Cfg) (s : Sm) (h : params c .jacLike = some s) :
    ∃ it om, natOf (get c "iterations" defaultNiter) = some it ∧
      ratOf (get c "omega" (.num 1)) = some om ∧ s = .jac om it := by
  unfold params at h
  cases h1 : natOf (get c "iterations" defaultNiter) with
  | none => simp [h1] at h
  | some it =>
    cases h2 : ratOf (get c "omega" (.num 1)) with
    | none => simp [h1, h2] at h
    | some om =>
      refine ⟨it, om, rfl, rfl, ?_⟩
      simp [h1, h2] at h
      exact h.symm

theorem params_cf (c : Cfg) (cf : Bool) (s : Sm) (h : params c (.cfLike cf) = some s) :
    ∃ it fi ci om, natOf (get c "iterations" defaultNiter) = some it ∧
      natOf (get c "f_iterations" defaultNiter) = some fi ∧
      natOf (get c "c_iterations" defaultNiter) = some ci ∧
      ratOf (get c "omega" (.num 1)) = some om ∧ s = .cfjac cf om it fi ci := by
  unfold params at h
  cases h1 : natOf (get c "iterations" defaultNiter) with
  | none => simp [h1] at h
  | some it =>
    cases h2 : natOf (get c "f_iterations" defaultNiter) with
    | none => simp [h1, h2] at h
    | some fi =>
      cases h3 : natOf (get c "c_iterations" defaultNiter) with
      | none => simp [h1, h2, h3] at h
      | some ci =>
        cases h4 : ratOf (get c "omega" (.num 1)) with
        | none => simp [h1, h2, h3, h4] at h
        | some om =>
          refine ⟨it, fi, ci, om, rfl, rfl, rfl, rfl, ?_⟩
          simp [h1, h2, h3, h4] at h
          exact h.symm

theorem sweepPairs_partner (v w : Val) (h : (v, w) ∈ sweepPairs) (sw sw' : Sweep)
    (h1 : sweepOfVal v = some sw) (h2 : sweepOfVal w = some sw') :
    (sw = .forward ∧ sw' = .backward) ∨ (sw = .backward ∧ sw' = .forward) ∨
    (sw = .symmetric ∧ sw' = .symmetric) := by
  simp only [sweepPairs, List.mem_cons, Prod.mk.injEq, List.mem_nil_iff, or_false] at h
  rcases h with ⟨rfl, rfl⟩ | ⟨rfl, rfl⟩ | ⟨rfl, rfl⟩
  · have e1 : sweepOfVal (.str "forward") = some Sweep.forward := by decide
    have e2 : sweepOfVal (.str "backward") = some Sweep.backward := by decide
    rw [e1] at h1; rw [e2] at h2
    exact Or.inl ⟨(Option.some.inj h1).symm, (Option.some.inj h2).symm⟩
  · have e1 : sweepOfVal (.str "forward") = some Sweep.forward := by decide
    have e2 : sweepOfVal (.str "backward") = some Sweep.backward := by decide
    rw [e2] at h1; rw [e1] at h2
    exact Or.inr (Or.inl ⟨(Option.some.inj h1).symm, (Option.some.inj h2).symm⟩)
  · have e3 : sweepOfVal (.str "symmetric") = some Sweep.symmetric := by decide
    rw [e3] at h1 h2
    exact Or.inr (Or.inr ⟨(Option.some.inj h1).symm, (Option.some.inj h2).symm⟩)

/-- **the decision table accepts only partner smoothers** (inside the cycle model) -/
theorem levelOk_partner (a b : Cfg) (h : levelOk a b = true) (s t : Sm)
    (hs : smOf a = some s) (ht : smOf b = some t) :
    Partner s t := by
  obtain ⟨hit, hshape⟩ := levelOk_shape a b h
  obtain ⟨ka, hka, hpa⟩ := smOf_inv a s hs
  obtain ⟨kb, hkb, hpb⟩ := smOf_inv b t ht
  rcases hshape with ⟨hpair, hfi, hci, hsame⟩ | ⟨_, hname, hsame, _, hsym⟩
  · -- a (cf, fc) pair
    have hom := sameParameters_get a b hsame "omega" (by decide) (.num 1)
    simp only [cfPairs, List.mem_cons, Prod.mk.injEq, List.mem_nil_iff, or_false] at hpair
    rcases hpair with ⟨ha, hb⟩ | ⟨ha, hb⟩ | ⟨ha, hb⟩ | ⟨ha, hb⟩
    · rw [ha] at hka; rw [hb] at hkb
      have e1 : ka = .cfLike true := by
        have : smKind (some "cf_jacobi") = some (.cfLike true) := by decide
        rw [this] at hka; exact (Option.some.inj hka).symm
      have e2 : kb = .cfLike false := by
        have : smKind (some "fc_jacobi") = some (.cfLike false) := by decide
        rw [this] at hkb; exact (Option.some.inj hkb).symm
      subst e1; subst e2
      obtain ⟨it, fi, ci, om, h1, h2, h3, h4, rfl⟩ := params_cf a true s hpa
      obtain ⟨it', fi', ci', om', h1', h2', h3', h4', rfl⟩ := params_cf b false t hpb
      rw [hit, h1'] at h1; rw [hfi, h2'] at h2; rw [hci, h3'] at h3; rw [hom, h4'] at h4
      cases h1; cases h2; cases h3; cases h4
      exact Partner.cf true _ _ _ _
    · rw [ha] at hka; rw [hb] at hkb
      have e1 : ka = .cfLike false := by
        have : smKind (some "fc_jacobi") = some (.cfLike false) := by decide
        rw [this] at hka; exact (Option.some.inj hka).symm
      have e2 : kb = .cfLike true := by
        have : smKind (some "cf_jacobi") = some (.cfLike true) := by decide
        rw [this] at hkb; exact (Option.some.inj hkb).symm
      subst e1; subst e2
      obtain ⟨it, fi, ci, om, h1, h2, h3, h4, rfl⟩ := params_cf a false s hpa
      obtain ⟨it', fi', ci', om', h1', h2', h3', h4', rfl⟩ := params_cf b true t hpb
      rw [hit, h1'] at h1; rw [hfi, h2'] at h2; rw [hci, h3'] at h3; rw [hom, h4'] at h4
      cases h1; cases h2; cases h3; cases h4
      exact Partner.cf false _ _ _ _
    · rw [ha] at hka
      have : smKind (some "cf_block_jacobi") = none := by decide
      rw [this] at hka; exact absurd hka (by simp)
    · rw [ha] at hka
      have : smKind (some "fc_block_jacobi") = none := by decide
      rw [this] at hka; exact absurd hka (by simp)
  · -- equal names, equal remaining options
    rw [← hname, hka] at hkb
    have hk : kb = ka := (Option.some.inj hkb).symm
    subst hk
    have hom : ∀ d, get a "omega" d = get b "omega" d :=
      fun d => sameParameters_get a b hsame "omega" (by decide) d
    cases kb with
    | noSm =>
      have e1 : s = .none := by simpa [params] using hpa.symm
      have e2 : t = .none := by simpa [params] using hpb.symm
      subst e1; subst e2; exact Partner.none
    | jacLike =>
      obtain ⟨it, om, h1, h2, rfl⟩ := params_jac a s hpa
      obtain ⟨it', om', h1', h2', rfl⟩ := params_jac b t hpb
      rw [hit, h1'] at h1; rw [hom, h2'] at h2
      cases h1; cases h2
      exact Partner.jac _ _
    | cfLike c =>
      -- equal cf_/fc_ names never pass the test
      rcases smKind_cfLike a.name c hka with ⟨hn, _⟩ | ⟨hn, _⟩
      · rcases hsym with hs1 | ⟨hs2, _⟩
        · rw [hn] at hs1; exact absurd hs1 (by decide)
        · rw [hn] at hs2; exact absurd (by decide) hs2
      · rcases hsym with hs1 | ⟨hs2, _⟩
        · rw [hn] at hs1; exact absurd hs1 (by decide)
        · rw [hn] at hs2; exact absurd (by decide) hs2
    | gsLike od =>
      obtain ⟨it, sw, om, h1, h2, h3, rfl⟩ := params_gs a od s hpa
      obtain ⟨it', sw', om', h1', h2', h3', rfl⟩ := params_gs b od t hpb
      rw [hit, h1'] at h1
      cases h1
      have hom' : om = om' := by
        cases od with
        | none => simp at h3 h3'; rw [← h3, ← h3']
        | some d => simp only at h3 h3'; rw [hom, h3'] at h3; exact (Option.some.inj h3).symm
      subst hom'
      have hsw : (get a "sweep" defaultSweep, get b "sweep" defaultSweep) ∈ sweepPairs := by
        rcases hsym with hs1 | ⟨_, hs2⟩
        · rcases smKind_gsLike a.name od hka with hn | hn | hn <;>
            (rw [hn] at hs1; exact absurd hs1 (by decide))
        · exact hs2
      rcases sweepPairs_partner _ _ hsw sw sw' h2 h2' with ⟨rfl, rfl⟩ | ⟨rfl, rfl⟩ | ⟨rfl, rfl⟩
      · exact Partner.fb _ _
      · exact Partner.bf _ _
      · exact Partner.ss _ _

end PyamgV.C05
