import PyamgV.Proofs.ExtC16Relax
import PyamgV.Proofs.ExtC09Block
import PyamgV.Proofs.ExtC02XBlock

/-! PyamgV (C16, extension E51): `schwarz` as relaxation-type coarse solver.

Model: the `schwarz` branch of `C16R.relaxSolveR` (Model/ExtC16Relax.lean) = `K.pySchwarz` (the kernel model of
`overlapping_schwarz_csr` + the Python driver `relaxation.schwarz`, Model/ExtC09Block.lean) run from zeros on the tuple
`relaxation.schwarz_parameters` returned to `setup_schwarz` (recorded: `Rec.sj sp tx tp`).

* `relaxSolveR_schwarz` : starts from zeros, `iterations` passes (forward / backward / forward+backward) of the kernel.
* `schwarzStep_energy`  : one subdomain step with an exact inverse block (`A|_d T_d = I`, `ExtC09.SubRightInv`) on a
  symmetric positive semidefinite matrix is an exact subspace correction: the residual on the subdomain rows vanishes
  afterwards (`ExtC09.schwarzStep_residual_zero`), so the new error is energy-orthogonal to the correction.
* `schwarzSweep_energy`, `pySchwarz_energy` : any subdomain order, any sweep, any number of iterations.
* `relax_schwarz_energy` : **energy clause** for `('schwarz', {iterations, sweep})`. -/
set_option linter.unusedSectionVars false
set_option linter.unusedVariables false
namespace PyamgV.C16Y
open PyamgV PyamgV.K PyamgV.C16 PyamgV.C16R PyamgV.ExtC09 Finset

/-! ## 1. the model (any scalar type) -/

section Model
variable {α : Type} [Add α] [Sub α] [Mul α] [Div α] [OfNat α 0] [OfNat α 1] [DecidableEq α]

/-- **schwarz**: `iterations` passes of the `overlapping_schwarz_csr` kernel over the recorded subdomains with the
recorded inverse blocks, from zeros; a forward pass visits the subdomains `0 .. len(subdomain_ptr) − 2` in order -/
theorem relaxSolveR_schwarz (conj : α → α) (o : Opts α) (ri : Rec α) (A : Csr α) (b : Array α)
    (hb : b.size = A.n) (ho : o.omega = none) (hr : o.withrho = none) (hrec : schwarzRecOK A.n ri = true) :
    relaxSolveR conj "schwarz" o ri A b =
      .ok (K.pySchwarz A b ri.tx ri.tp ri.sj ri.sp (o.iterations.getD 10) (o.sweep.getD .forward) (x0 b)) ∧
    K.pySchwarz A b ri.tx ri.tp ri.sj ri.sp (o.iterations.getD 10) .forward (x0 b) =
      K.iter (fun x => K.schwarzSweep A b ri.tx ri.tp ri.sj ri.sp (List.range (ri.sp.size - 1)) x)
        (o.iterations.getD 10) (x0 b) := by
  constructor
  · unfold relaxSolveR
    simp [hb, ho, hr, hrec, x0]
  · rfl

/-- options `schwarz` does not accept raise `TypeError`; a record the kernel cannot be run on is refused -/
theorem relaxSolveR_schwarz_rejects (conj : α → α) (o : Opts α) (ri : Rec α) (A : Csr α) (b : Array α)
    (hb : b.size = A.n) :
    ((o.omega.isSome || o.withrho.isSome) = true → relaxSolveR conj "schwarz" o ri A b = .error "TypeError") ∧
    ((o.omega.isSome || o.withrho.isSome) = false → schwarzRecOK A.n ri = false →
      relaxSolveR conj "schwarz" o ri A b = .error "bad-record") := by
  constructor
  · intro h; unfold relaxSolveR; simp [hb, h]
  · intro h h'; unfold relaxSolveR; simp [hb, h, h']

/-- what `schwarzRecOK` guarantees: every index of every subdomain of a pass is a row of the matrix -/
theorem schwarzRecOK_idx (n : Nat) (ri : Rec α) (h : schwarzRecOK n ri = true) (d : Nat) (hd : d < ri.sp.size - 1)
    (c : Nat) (hc : c < sSize ri.sp d) : sIdx ri.sj ri.sp d c < n := by
  unfold schwarzRecOK at h
  simp only [Bool.and_eq_true, decide_eq_true_eq, List.all_eq_true, List.mem_range, Array.all_eq_true] at h
  obtain ⟨⟨_, hall⟩, hsj⟩ := h
  obtain ⟨⟨h1, h2⟩, _⟩ := hall d hd
  unfold sSize at hc
  unfold sIdx
  have hlt : rdN ri.sp d + c < ri.sj.size := by omega
  have := hsj (rdN ri.sp d + c) hlt
  show ri.sj.getD (rdN ri.sp d + c) 0 < n
  rw [Array.getD_eq_getD_getElem?, Array.getElem?_eq_getElem hlt]
  exact this

end Model

/-! ## 2. energy (ordered field) -/

section Fld
variable {F : Type} [Field F] [DecidableEq F]

theorem csrRow_eq_rowDot (A : Csr F) (i : Nat) (u : Nat → F) : csrRow A i u = rowDot (rowOf A i) u := by
  unfold ExtC09.csrRow rowDot rowOf
  rw [List.map_map]
  rfl

theorem vec_eq_fn (x : Array F) : vec x = fn x := rfl

end Fld

variable {R : Type} [Field R] [LinearOrder R] [IsStrictOrderedRing R] [DecidableEq R]

/-- **one subdomain step of the `overlapping_schwarz_csr` kernel does not increase the energy of the error** when the
stored block is the inverse of `A` restricted to the subdomain -/
theorem schwarzStep_energy (A : Csr R)
    (hsym : ∀ u v, (euc R A.n).a (csrOp A.n (rowOf A) u) v = (euc R A.n).a u (csrOp A.n (rowOf A) v))
    (hpsd : ∀ v, 0 ≤ (euc R A.n).a (csrOp A.n (rowOf A) v) v)
    (b Tx : Array R) (Tp Sj Sp : Array Nat) (x : Array R) (hx : x.size = A.n) (d : Nat)
    (hin : ∀ c < sSize Sp d, sIdx Sj Sp d c < A.n) (hT : SubRightInv A Tx Tp Sj Sp d)
    (xs : Nat → R) (hxs : csrOp A.n (rowOf A) xs = fn b) :
    (energy A.n (rowOf A) hsym hpsd).en (xs - fn (schwarzStep A b Tx Tp Sj Sp x d)) ≤
      (energy A.n (rowOf A) hsym hpsd).en (xs - fn x) := by
  set x' := schwarzStep A b Tx Tp Sj Sp x d with hx'
  have key : xs - fn x' = (xs - fn x) - (fn x' - fn x) := by abel
  rw [key]
  apply EForm.en_sub_le
  rw [← key]
  show (euc R A.n).a (csrOp A.n (rowOf A) (xs - fn x')) (fn x' - fn x) = 0
  rw [euc_apply]
  apply Finset.sum_eq_zero
  intro p hp'
  have hpn : p < A.n := mem_range.1 hp'
  by_cases hex : ∃ c, c < sSize Sp d ∧ sIdx Sj Sp d c = p
  · obtain ⟨c, hc, hcp⟩ := hex
    have h1 : csrOp A.n (rowOf A) (fn x') p = fn b p := by
      rw [csrOp_apply _ _ _ _ hpn, ← csrRow_eq_rowDot, ← vec_eq_fn, ← hcp]
      exact schwarzStep_residual_zero A b Tx Tp Sj Sp x d (fun c hc => by rw [hx]; exact hin c hc) hT c hc
    rw [map_sub, Pi.sub_apply, hxs, h1]; simp
  · have h2 : fn x' p = fn x p := by
      show rd (schwarzStep A b Tx Tp Sj Sp x d) p = rd x p
      rw [schwarzStep_entry A b Tx Tp Sj Sp x d p (by rw [hx]; exact hpn)]
      have : (∑ c ∈ range (sSize Sp d), if sIdx Sj Sp d c = p then sCorr A b Tx x Tp Sj Sp d c else 0) = 0 := by
        apply Finset.sum_eq_zero
        intro c hc
        rw [if_neg (fun e => hex ⟨c, mem_range.1 hc, e⟩)]
      rw [this, add_zero]
    rw [Pi.sub_apply, h2]; simp

/-- **the kernel over any list of subdomains** (multiplicative Schwarz = successive exact subspace corrections) -/
theorem schwarzSweep_energy (A : Csr R)
    (hsym : ∀ u v, (euc R A.n).a (csrOp A.n (rowOf A) u) v = (euc R A.n).a u (csrOp A.n (rowOf A) v))
    (hpsd : ∀ v, 0 ≤ (euc R A.n).a (csrOp A.n (rowOf A) v) v)
    (b Tx : Array R) (Tp Sj Sp : Array Nat) (doms : List Nat)
    (hin : ∀ d ∈ doms, ∀ c < sSize Sp d, sIdx Sj Sp d c < A.n) (hT : ∀ d ∈ doms, SubRightInv A Tx Tp Sj Sp d)
    (xs : Nat → R) (hxs : csrOp A.n (rowOf A) xs = fn b) :
    ∀ x : Array R, x.size = A.n →
      (schwarzSweep A b Tx Tp Sj Sp doms x).size = A.n ∧
      (energy A.n (rowOf A) hsym hpsd).en (xs - fn (schwarzSweep A b Tx Tp Sj Sp doms x)) ≤
        (energy A.n (rowOf A) hsym hpsd).en (xs - fn x) := by
  induction doms with
  | nil => intro x hx; exact ⟨hx, le_refl _⟩
  | cons d rest ih =>
    intro x hx
    have h1 := schwarzStep_energy A hsym hpsd b Tx Tp Sj Sp x hx d (hin d (by simp)) (hT d (by simp)) xs hxs
    have hsz : (schwarzStep A b Tx Tp Sj Sp x d).size = A.n := by rw [schwarzStep_size, hx]
    obtain ⟨h2, h3⟩ := ih (fun e he => hin e (by simp [he])) (fun e he => hT e (by simp [he]))
      (schwarzStep A b Tx Tp Sj Sp x d) hsz
    unfold K.schwarzSweep at h2 h3 ⊢
    simp only [List.foldl_cons]
    exact ⟨h2, le_trans h3 h1⟩

/-- **the Python driver `relaxation.schwarz`** (forward / backward / symmetric, any `iterations`), exact inverse blocks,
symmetric positive semidefinite matrix: the energy of the error w.r.t. any solution never increases -/
theorem pySchwarz_energy (A : Csr R)
    (hsym : ∀ u v, (euc R A.n).a (csrOp A.n (rowOf A) u) v = (euc R A.n).a u (csrOp A.n (rowOf A) v))
    (hpsd : ∀ v, 0 ≤ (euc R A.n).a (csrOp A.n (rowOf A) v) v)
    (b Tx : Array R) (Tp Sj Sp : Array Nat)
    (hin : ∀ d, d < Sp.size - 1 → ∀ c < sSize Sp d, sIdx Sj Sp d c < A.n)
    (hT : ∀ d, d < Sp.size - 1 → SubRightInv A Tx Tp Sj Sp d)
    (iters : Nat) (sw : Sweep) (xs : Nat → R) (hxs : csrOp A.n (rowOf A) xs = fn b)
    (x : Array R) (hx : x.size = A.n) :
    (pySchwarz A b Tx Tp Sj Sp iters sw x).size = A.n ∧
      (energy A.n (rowOf A) hsym hpsd).en (xs - fn (pySchwarz A b Tx Tp Sj Sp iters sw x)) ≤
        (energy A.n (rowOf A) hsym hpsd).en (xs - fn x) := by
  have hpass : ∀ bw, ∀ x : Array R, x.size = A.n →
      (schwarzSweep A b Tx Tp Sj Sp (dirRows (Sp.size - 1) bw) x).size = A.n ∧
      (energy A.n (rowOf A) hsym hpsd).en (xs - fn (schwarzSweep A b Tx Tp Sj Sp (dirRows (Sp.size - 1) bw) x)) ≤
        (energy A.n (rowOf A) hsym hpsd).en (xs - fn x) := by
    intro bw x hx
    exact schwarzSweep_energy A hsym hpsd b Tx Tp Sj Sp _
      (fun d hd => hin d ((mem_dirRows _ _ _).1 hd)) (fun d hd => hT d ((mem_dirRows _ _ _).1 hd)) xs hxs x hx
  unfold K.pySchwarz
  cases sw with
  | forward =>
    exact C02X.kiter_energy (fun x : Array R => x.size = A.n)
      (fun x => (energy A.n (rowOf A) hsym hpsd).en (xs - fn x)) _ (hpass false) iters x hx
  | backward =>
    exact C02X.kiter_energy (fun x : Array R => x.size = A.n)
      (fun x => (energy A.n (rowOf A) hsym hpsd).en (xs - fn x)) _ (hpass true) iters x hx
  | symmetric =>
    exact C02X.kiter_energy (fun x : Array R => x.size = A.n)
      (fun x => (energy A.n (rowOf A) hsym hpsd).en (xs - fn x))
      (fun x => schwarzSweep A b Tx Tp Sj Sp (dirRows (Sp.size - 1) true)
        (schwarzSweep A b Tx Tp Sj Sp (dirRows (Sp.size - 1) false) x))
      (fun x hx => by
        obtain ⟨a1, a2⟩ := hpass false x hx
        obtain ⟨a3, a4⟩ := hpass true _ a1
        exact ⟨a3, le_trans a4 a2⟩) iters x hx

/-- **energy clause, schwarz** (`('schwarz', {iterations, sweep})`, default subdomains and blocks of the setup): when the
recorded inverse blocks are exact (`A|_d T_d = I` for every subdomain `d`), on a symmetric positive semidefinite matrix
the result `x` from the zero guess satisfies `‖x* − x‖_A ≤ ‖x*‖_A` for every solution `x*` of `A x* = b` -/
theorem relax_schwarz_energy (conj : R → R) (o : Opts R) (ri : Rec R) (A : Csr R)
    (ho : o.omega = none) (hr : o.withrho = none) (hrec : schwarzRecOK A.n ri = true)
    (hT : ∀ d, d < ri.sp.size - 1 → SubRightInv A ri.tx ri.tp ri.sj ri.sp d)
    (b : Array R) (hb : b.size = A.n)
    (hsym : ∀ u v, (euc R A.n).a (csrOp A.n (rowOf A) u) v = (euc R A.n).a u (csrOp A.n (rowOf A) v))
    (hpsd : ∀ v, 0 ≤ (euc R A.n).a (csrOp A.n (rowOf A) v) v)
    (xs : Nat → R) (hxs : csrOp A.n (rowOf A) xs = fn b) :
    ∃ x, relaxSolveR conj "schwarz" o ri A b = .ok x ∧ x.size = b.size ∧
      (energy A.n (rowOf A) hsym hpsd).en (xs - fn x) ≤ (energy A.n (rowOf A) hsym hpsd).en xs := by
  refine ⟨_, (relaxSolveR_schwarz conj o ri A b hb ho hr hrec).1, ?_⟩
  obtain ⟨s, e⟩ := pySchwarz_energy A hsym hpsd b ri.tx ri.tp ri.sj ri.sp
    (fun d hd c hc => schwarzRecOK_idx A.n ri hrec d hd c hc) hT (o.iterations.getD 10) (o.sweep.getD .forward)
    xs hxs (x0 b) (by simp [hb])
  refine ⟨by rw [s, hb], ?_⟩
  rw [fn_x0, sub_zero] at e
  exact e

end PyamgV.C16Y
